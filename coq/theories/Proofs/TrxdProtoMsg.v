(* C17: typed PDU messages - their field dicts and their documented octet layouts - and, for every PDU definition,
   "encode (fields m) = layout m" together with the premises of the C16 round trip (packaged as `good`). *)
From Coq Require Import ZArith List Bool Lia.
From OBB Require Import Base.Range Base.Bits Model.Codec Proofs.CodecInt Proofs.CodecBits Proofs.CodecRT Proofs.CodecDE Proofs.CodecGood Proofs.TrxdProtoSpec Proofs.TrxdProtoBits.
Import ListNotations.
Open Scope Z_scope.

Lemma tab_len k tab e L z n : lookup k e = Some (VInt z) -> assocZ z tab = Some n -> get_len (LTab k tab) e L = Ok n.
Proof. intros H1 H2. cbn [get_len]. unfold tab_get. rewrite H1, H2. reflexivity. Qed.
Lemma tab_pres k tab e z b : lookup k e = Some (VInt z) -> assocZ z tab = Some b -> get_pres (PTab k tab) e = Ok b.
Proof. intros H1 H2. cbn [get_pres]. unfold tab_get. rewrite H1, H2. reflexivity. Qed.

Lemma good_eq fs e e0 R cv b cv' b' : cv = cv' -> b = b' -> good fs e e0 R cv b -> good fs e e0 R cv' b'.
Proof. intros -> ->. auto. Qed.

Definition be32 (x:Z) : list Z := [x / 16777216 mod 256; x / 65536 mod 256; x / 256 mod 256; x mod 256].
Definition be16 (x:Z) : list Z := [x mod 65536 / 256; x mod 65536 mod 256].
Definition octets (b:list Z) : Prop := Forall (fun o => 0 <= o < 256) b.

Ltac pow_norm := change (2 ^ Z.of_nat 1) with 2 in *; change (2 ^ Z.of_nat 3) with 8 in *; change (2 ^ Z.of_nat 4) with 16 in *; change (2 ^ Z.of_nat 6) with 64 in *.
Ltac wf_bits := unfold bits_wf; cbn; lia.

(* ---------------------------------------------------------------- TRXDv0 / TRXDv1 Tx *)
Definition tx_fields (v tn fn pwr:Z) (bits:list Z) : env :=
  [(0%nat, VInt v); (1%nat, VInt tn); (2%nat, VInt fn); (7%nat, VInt pwr); (8%nat, VBytes bits)].
Definition tx_layout (v tn fn pwr:Z) (bits:list Z) : list Z := [v * 16 + tn] ++ be32 fn ++ [pwr] ++ bits.

Lemma tx_good v tn fn pwr bits : 0 <= v < 16 -> 0 <= tn < 8 -> 0 <= fn < 4294967296 -> 0 <= pwr < 256 ->
  good (spec_v01_tx v) (tx_fields v tn fn pwr bits) [] 0 (tx_fields v tn fn pwr bits) (tx_layout v tn fn pwr bits).
Proof.
  intros Hv Ht Hf Hp. unfold spec_v01_tx, hdr01, u32be, u8, tx_layout. set (e := tx_fields v tn fn pwr bits).
  rewrite <- (to_be1 (v * 16 + tn)) by lia. rewrite <- (app_nil_r bits) at 1.
  change e with ([(0%nat, VInt v); (1%nat, VInt tn)] ++ [(2%nat, VInt fn); (7%nat, VInt pwr); (8%nat, VBytes bits)]) at 2.
  apply (good_bits (LFix 1) PAlways false (hdr01_bits v) _ (v * 16 + tn)); [reflexivity|reflexivity|wf_bits| |apply hdr01_blob; [lia|lia|reflexivity]|].
  { cbn [bits_order hdr01_bits]. apply bf_fixed; [pow_norm; lia|]. apply bf_spare. apply bf_named_r; [reflexivity|pow_norm; lia|]. constructor. }
  apply (good_uint 2 4 PAlways false false 0 1 fn fn); [reflexivity|reflexivity|lia|lia|reflexivity|lia|apply enc_u32; lia|].
  apply (good_uint 7 1 PAlways false false 0 1 pwr pwr); [reflexivity|reflexivity|lia|lia|reflexivity|lia|apply enc_u8; lia|].
  apply good_buf; [reflexivity|reflexivity|reflexivity| |apply good_nil].
  cbn [get_len length]. f_equal. lia.
Qed.

(* ---------------------------------------------------------------- TRXDv0 Rx *)
Definition rx0_fields (tn fn rssi toa:Z) (sb pad:list Z) : env :=
  [(0%nat, VInt 0); (1%nat, VInt tn); (2%nat, VInt fn); (3%nat, VInt rssi); (4%nat, VInt toa); (5%nat, VBytes sb); (6%nat, VBytes pad)].
Definition rx0_layout (tn fn rssi toa:Z) (sb pad:list Z) : list Z := [0 * 16 + tn] ++ be32 fn ++ [- rssi] ++ be16 toa ++ sb ++ pad.

(* the only thing asked of the soft-bit length rule: with |sb| + |pad| octets left it answers |sb| *)
Lemma rx0_good rule tn fn rssi toa sb pad : 0 <= tn < 8 -> 0 <= fn < 4294967296 -> -255 <= rssi <= 0 -> -32768 <= toa < 32768 ->
  (forall e, get_len rule e (length sb + length pad) = Ok (length sb)) ->
  good (spec_v0_rx rule) (rx0_fields tn fn rssi toa sb pad) [] 0 (rx0_fields tn fn rssi toa sb pad) (rx0_layout tn fn rssi toa sb pad).
Proof.
  intros Ht Hf Hr Ha Hrule. unfold spec_v0_rx, hdr01, u32be, rssi_f, i16be, rx0_layout. set (e := rx0_fields tn fn rssi toa sb pad).
  rewrite <- (to_be1 (0 * 16 + tn)) by lia. rewrite <- (app_nil_r pad) at 1.
  change e with ([(0%nat, VInt 0); (1%nat, VInt tn)] ++ [(2%nat, VInt fn); (3%nat, VInt rssi); (4%nat, VInt toa); (5%nat, VBytes sb); (6%nat, VBytes pad)]) at 2.
  apply (good_bits (LFix 1) PAlways false (hdr01_bits 0) _ (0 * 16 + tn)); [reflexivity|reflexivity|wf_bits| |apply hdr01_blob; [lia|lia|reflexivity]|].
  { cbn [bits_order hdr01_bits]. apply bf_fixed; [pow_norm; lia|]. apply bf_spare. apply bf_named_r; [reflexivity|pow_norm; lia|]. constructor. }
  apply (good_uint 2 4 PAlways false false 0 1 fn fn); [reflexivity|reflexivity|lia|lia|reflexivity|lia|apply enc_u32; lia|].
  apply (good_uint 3 1 PAlways false false 0 (-1) rssi (- rssi)); [reflexivity|reflexivity|lia|lia|reflexivity|lia|apply enc_u8; lia|].
  apply (good_uint 4 2 PAlways false true 0 1 toa toa); [reflexivity|reflexivity|lia|lia|reflexivity|lia|apply enc_i16; lia|].
  apply good_buf; [reflexivity|reflexivity|reflexivity| |].
  { rewrite app_nil_r, Nat.add_0_r. apply Hrule. }
  apply good_buf; [reflexivity|reflexivity|reflexivity| |apply good_nil].
  cbn [get_len length]. f_equal. lia.
Qed.

(* ---------------------------------------------------------------- bursts that depend on NOPE / MOD *)
Definition burst_ok (np md:Z) (bits:list Z) : Prop :=
  (np = 0 /\ assocZ md burst_tab = Some (length bits)) \/ (np = 1 /\ bits = []).
Definition burst_entry (nm:nat) (np:Z) (bits:list Z) : env := if np =? 0 then [(nm, VBytes bits)] else [].

(* the tail "burst; rest" of a definition, when NOPE and MOD have already been decoded into e0 *)
Lemma good_burst nm np md bits fs e e0 R cv b :
  burst_ok np md bits -> lookup 9 e = Some (VInt np) -> lookup 9 e0 = Some (VInt np) -> lookup 10 e0 = Some (VInt md) ->
  (np = 0 -> lookup nm e = Some (VBytes bits)) ->
  good fs e (e0 ++ burst_entry nm np bits) R cv b ->
  good (burst nm :: fs) e e0 R (burst_entry nm np bits ++ cv) (bits ++ b).
Proof.
  intros [[-> Htab]|[-> ->]] L9 L90 L10 Lnm Hg; unfold burst, burst_entry in *; cbn [Z.eqb app] in *.
  - apply good_buf; [apply (tab_pres _ _ _ 0 true L9); reflexivity|apply (tab_pres _ _ _ 0 true L90); reflexivity|auto| |exact Hg].
    apply (tab_len _ _ _ _ md _ L10 Htab).
  - rewrite app_nil_r in Hg. apply good_absent; [apply (tab_pres _ _ _ 1 false L9); reflexivity|apply (tab_pres _ _ _ 1 false L90); reflexivity|exact Hg].
Qed.

(* ---------------------------------------------------------------- TRXDv1 Rx *)
Definition rx1_fields (tn fn rssi toa np md tc cir:Z) (sb:list Z) : env :=
  [(0%nat, VInt 1); (1%nat, VInt tn); (2%nat, VInt fn); (3%nat, VInt rssi); (4%nat, VInt toa);
   (9%nat, VInt np); (10%nat, VInt md); (11%nat, VInt tc); (12%nat, VInt cir)] ++ burst_entry 5 np sb.
Definition rx1_layout (tn fn rssi toa np md tc cir:Z) (sb:list Z) : list Z :=
  [1 * 16 + tn] ++ be32 fn ++ [- rssi] ++ be16 toa ++ [np * 128 + md * 8 + tc] ++ be16 cir ++ sb.

Lemma rx1_good tn fn rssi toa np md tc cir sb : 0 <= tn < 8 -> 0 <= fn < 4294967296 -> -255 <= rssi <= 0 -> -32768 <= toa < 32768 ->
  0 <= md < 16 -> 0 <= tc < 8 -> -32768 <= cir < 32768 -> burst_ok np md sb ->
  good spec_v1_rx (rx1_fields tn fn rssi toa np md tc cir sb) [] 0 (rx1_fields tn fn rssi toa np md tc cir sb) (rx1_layout tn fn rssi toa np md tc cir sb).
Proof.
  intros Ht Hf Hr Ha Hm Hc Hi Hb. assert (Hn : 0 <= np < 2) by (destruct Hb as [[-> _]|[-> _]]; lia).
  unfold spec_v1_rx, hdr01, u32be, rssi_f, i16be, mts. set (e := rx1_fields tn fn rssi toa np md tc cir sb).
  assert (L5 : np = 0 -> lookup 5 e = Some (VBytes sb)) by (intros ->; reflexivity).
  apply (good_eq _ _ _ _ ([(0%nat, VInt 1); (1%nat, VInt tn)] ++ [(2%nat, VInt fn); (3%nat, VInt rssi); (4%nat, VInt toa)] ++
                 [(9%nat, VInt np); (10%nat, VInt md); (11%nat, VInt tc)] ++ [(12%nat, VInt cir)] ++ burst_entry 5 np sb ++ [])
           (to_be 1 (1 * 16 + tn) ++ be32 fn ++ [- rssi] ++ be16 toa ++ to_be 1 (np * 128 + md * 8 + tc) ++ be16 cir ++ sb ++ []));
    [unfold e, rx1_fields; rewrite app_nil_r; reflexivity|unfold rx1_layout; rewrite !to_be1, app_nil_r by lia; reflexivity|].
  apply (good_bits (LFix 1) PAlways false (hdr01_bits 1) _ (1 * 16 + tn)); [reflexivity|reflexivity|wf_bits| |apply hdr01_blob; [lia|lia|reflexivity]|].
  { cbn [bits_order hdr01_bits]. apply bf_fixed; [pow_norm; lia|]. apply bf_spare. apply bf_named_r; [reflexivity|pow_norm; lia|]. constructor. }
  apply (good_uint 2 4 PAlways false false 0 1 fn fn); [reflexivity|reflexivity|lia|lia|reflexivity|lia|apply enc_u32; lia|].
  apply (good_uint 3 1 PAlways false false 0 (-1) rssi (- rssi)); [reflexivity|reflexivity|lia|lia|reflexivity|lia|apply enc_u8; lia|].
  apply (good_uint 4 2 PAlways false true 0 1 toa toa); [reflexivity|reflexivity|lia|lia|reflexivity|lia|apply enc_i16; lia|].
  apply (good_bits (LFix 1) PAlways false mts_bits _ (np * 128 + md * 8 + tc)); [reflexivity|reflexivity|wf_bits| |apply mts_blob; try lia; reflexivity|].
  { cbn [bits_order mts_bits]. apply bf_named_r; [reflexivity|pow_norm; lia|]. apply bf_named_r; [reflexivity|pow_norm; lia|].
    apply bf_named_r; [reflexivity|pow_norm; lia|]. constructor. }
  apply (good_uint 12 2 PAlways false true 0 1 cir cir); [reflexivity|reflexivity|lia|lia|reflexivity|lia|apply enc_i16; lia|].
  apply (good_burst 5 np md sb); [exact Hb|reflexivity|reflexivity|reflexivity|exact L5|apply good_nil].
Qed.

(* ---------------------------------------------------------------- TRXDv2 Rx *)
Record rxsub := { s_tn : Z; s_batch : Z; s_shadow : Z; s_trxn : Z; s_nope : Z; s_mod : Z; s_tsc : Z;
                  s_rssi : Z; s_toa : Z; s_cir : Z; s_bits : list Z }.
Definition rxsub_ok (s:rxsub) : Prop :=
  0 <= s_tn s < 8 /\ 0 <= s_batch s < 2 /\ 0 <= s_shadow s < 2 /\ 0 <= s_trxn s < 64 /\ 0 <= s_mod s < 16 /\ 0 <= s_tsc s < 8 /\
  -255 <= s_rssi s <= 0 /\ -32768 <= s_toa s < 32768 /\ -32768 <= s_cir s < 32768 /\ burst_ok (s_nope s) (s_mod s) (s_bits s).
Definition rxsub_fields (s:rxsub) : env :=
  [(1%nat, VInt (s_tn s)); (13%nat, VInt (s_batch s)); (14%nat, VInt (s_shadow s)); (15%nat, VInt (s_trxn s));
   (9%nat, VInt (s_nope s)); (10%nat, VInt (s_mod s)); (11%nat, VInt (s_tsc s));
   (3%nat, VInt (s_rssi s)); (4%nat, VInt (s_toa s)); (12%nat, VInt (s_cir s))] ++ burst_entry 5 (s_nope s) (s_bits s).
(* RFU(5) TN(3) | BATCH SHADOW TRXN(6) | NOPE MOD(4) TSC(3) | -RSSI | ToA256 | C/I | soft-bits *)
Definition rxsub_layout (s:rxsub) : list Z :=
  [s_tn s; s_batch s * 128 + s_shadow s * 64 + s_trxn s; s_nope s * 128 + s_mod s * 8 + s_tsc s; - s_rssi s]
  ++ be16 (s_toa s) ++ be16 (s_cir s) ++ s_bits s.

Lemma nope_range np md bits : burst_ok np md bits -> 0 <= np < 2.
Proof. intros [[-> _]|[-> _]]; lia. Qed.

Lemma burst_entry_keys nm np bits : keys (burst_entry nm np bits) = if np =? 0 then [nm] else [].
Proof. unfold burst_entry. destruct (np =? 0); reflexivity. Qed.

Lemma rxsub_good s R : rxsub_ok s -> good spec_v2_rx_item (rxsub_fields s) [] R (rxsub_fields s) (rxsub_layout s).
Proof.
  destruct s as [tn ba sh tr np md tc rssi toa cir bits]. unfold rxsub_ok. cbn [s_tn s_batch s_shadow s_trxn s_nope s_mod s_tsc s_rssi s_toa s_cir s_bits].
  intros [Ht [Hba [Hsh [Htr [Hm [Hc [Hr [Ha [Hi Hb]]]]]]]]]. pose proof (nope_range _ _ _ Hb) as Hn.
  unfold spec_v2_rx_item, hdr2b, mts, rssi_f, i16be. set (e := rxsub_fields _).
  assert (L5 : np = 0 -> lookup 5 e = Some (VBytes bits)) by (intros ->; reflexivity).
  apply (good_eq _ _ _ _ ([(1%nat, VInt tn); (13%nat, VInt ba); (14%nat, VInt sh); (15%nat, VInt tr)] ++
                          [(9%nat, VInt np); (10%nat, VInt md); (11%nat, VInt tc)] ++
                          [(3%nat, VInt rssi)] ++ [(4%nat, VInt toa)] ++ [(12%nat, VInt cir)] ++ burst_entry 5 np bits ++ [])
           (to_be 2 (tn * 256 + (ba * 128 + sh * 64 + tr)) ++ to_be 1 (np * 128 + md * 8 + tc) ++ [- rssi] ++ be16 toa ++ be16 cir ++ bits ++ []));
    [unfold e, rxsub_fields; cbn [s_tn s_batch s_shadow s_trxn s_nope s_mod s_tsc s_rssi s_toa s_cir s_bits]; rewrite app_nil_r; reflexivity| |].
  { unfold rxsub_layout. cbn [s_tn s_batch s_shadow s_trxn s_nope s_mod s_tsc s_rssi s_toa s_cir s_bits].
    rewrite to_be2, to_be1, app_nil_r by lia. cbn [app]. f_equal; [|f_equal]; lia. }
  apply (good_bits (LFix 2) PAlways false hdr2b_bits _ (tn * 256 + (ba * 128 + sh * 64 + tr))); [reflexivity|reflexivity|wf_bits| |apply hdr2b_blob; try lia; reflexivity|].
  { cbn [bits_order hdr2b_bits]. apply bf_spare. apply bf_spare. apply bf_named_r; [reflexivity|pow_norm; lia|].
    apply bf_named_r; [reflexivity|pow_norm; lia|]. apply bf_named_r; [reflexivity|pow_norm; lia|]. apply bf_named_r; [reflexivity|pow_norm; lia|]. constructor. }
  apply (good_bits (LFix 1) PAlways false mts_bits _ (np * 128 + md * 8 + tc)); [reflexivity|reflexivity|wf_bits| |apply mts_blob; try lia; reflexivity|].
  { cbn [bits_order mts_bits]. apply bf_named_r; [reflexivity|pow_norm; lia|]. apply bf_named_r; [reflexivity|pow_norm; lia|].
    apply bf_named_r; [reflexivity|pow_norm; lia|]. constructor. }
  apply (good_uint 3 1 PAlways false false 0 (-1) rssi (- rssi)); [reflexivity|reflexivity|lia|lia|reflexivity|lia|apply enc_u8; lia|].
  apply (good_uint 4 2 PAlways false true 0 1 toa toa); [reflexivity|reflexivity|lia|lia|reflexivity|lia|apply enc_i16; lia|].
  apply (good_uint 12 2 PAlways false true 0 1 cir cir); [reflexivity|reflexivity|lia|lia|reflexivity|lia|apply enc_i16; lia|].
  apply (good_burst 5 np md bits); [exact Hb|reflexivity|reflexivity|reflexivity|exact L5|apply good_nil].
Qed.

Lemma rxsub_nodup s : NoDup (keys (rxsub_fields s)).
Proof.
  unfold rxsub_fields. rewrite keys_app, burst_entry_keys. cbn [keys map fst].
  destruct (s_nope s =? 0); cbn [app]; repeat (constructor; [cbn [In]; intuition discriminate|]); constructor.
Qed.

Lemma rxsub_len s : (1 <= length (rxsub_layout s))%nat.
Proof. unfold rxsub_layout. rewrite app_length. cbn [length]. lia. Qed.

Lemma rxsubs_good subs : Forall rxsub_ok subs ->
  items_good spec_v2_rx_item (map (fun s => VDict (rxsub_fields s)) subs) (map (fun s => VDict (rxsub_fields s)) subs) (concat (map rxsub_layout subs)).
Proof.
  induction 1 as [|s r Hs _ IH]; [apply items_good_nil|]. cbn [map concat].
  apply items_good_cons; [apply rxsub_good, Hs|apply rxsub_nodup|apply rxsub_len|exact IH].
Qed.

Record rx2 := { m_tn : Z; m_batch : Z; m_trxn : Z; m_nope : Z; m_mod : Z; m_tsc : Z; m_rssi : Z; m_toa : Z; m_cir : Z;
                m_fn : Z; m_bits : list Z; m_subs : list rxsub }.
Definition rx2_ok (m:rx2) : Prop :=
  0 <= m_tn m < 8 /\ 0 <= m_batch m < 2 /\ 0 <= m_trxn m < 64 /\ 0 <= m_mod m < 16 /\ 0 <= m_tsc m < 8 /\
  -255 <= m_rssi m <= 0 /\ -32768 <= m_toa m < 32768 /\ -32768 <= m_cir m < 32768 /\ 0 <= m_fn m < 4294967296 /\
  burst_ok (m_nope m) (m_mod m) (m_bits m) /\ Forall rxsub_ok (m_subs m).
Definition rx2_fields (m:rx2) : env :=
  [(0%nat, VInt 2); (1%nat, VInt (m_tn m)); (13%nat, VInt (m_batch m)); (15%nat, VInt (m_trxn m));
   (9%nat, VInt (m_nope m)); (10%nat, VInt (m_mod m)); (11%nat, VInt (m_tsc m));
   (3%nat, VInt (m_rssi m)); (4%nat, VInt (m_toa m)); (12%nat, VInt (m_cir m)); (2%nat, VInt (m_fn m))]
  ++ burst_entry 5 (m_nope m) (m_bits m) ++ [(17%nat, VList (map (fun s => VDict (rxsub_fields s)) (m_subs m)))].
(* VER=2 RFU TN(3) | BATCH RFU TRXN(6) | NOPE MOD(4) TSC(3) | -RSSI | ToA256 | C/I | FN | soft-bits | batched sub-PDUs *)
Definition rx2_layout (m:rx2) : list Z :=
  [32 + m_tn m; m_batch m * 128 + m_trxn m; m_nope m * 128 + m_mod m * 8 + m_tsc m; - m_rssi m]
  ++ be16 (m_toa m) ++ be16 (m_cir m) ++ be32 (m_fn m) ++ m_bits m ++ concat (map rxsub_layout (m_subs m)).

Lemma rx2_good m : rx2_ok m -> good spec_v2_rx (rx2_fields m) [] 0 (rx2_fields m) (rx2_layout m).
Proof.
  destruct m as [tn ba tr np md tc rssi toa cir fn bits subs]. unfold rx2_ok.
  cbn [m_tn m_batch m_trxn m_nope m_mod m_tsc m_rssi m_toa m_cir m_fn m_bits m_subs].
  intros [Ht [Hba [Htr [Hm [Hc [Hr [Ha [Hi [Hf [Hb Hsubs]]]]]]]]]]. pose proof (nope_range _ _ _ Hb) as Hn.
  unfold spec_v2_rx, hdr2, mts, rssi_f, i16be, u32be. set (e := rx2_fields _).
  set (vl := VList (map (fun s => VDict (rxsub_fields s)) subs)).
  assert (L5 : np = 0 -> lookup 5 e = Some (VBytes bits)) by (intros ->; reflexivity).
  assert (L17 : lookup 17 e = Some vl).
  { unfold e, rx2_fields. cbn [m_tn m_batch m_trxn m_nope m_mod m_tsc m_rssi m_toa m_cir m_fn m_bits m_subs].
    unfold burst_entry. destruct (np =? 0); reflexivity. }
  apply (good_eq _ _ _ _ ([(0%nat, VInt 2); (1%nat, VInt tn); (13%nat, VInt ba); (15%nat, VInt tr)] ++
                          [(9%nat, VInt np); (10%nat, VInt md); (11%nat, VInt tc)] ++
                          [(3%nat, VInt rssi)] ++ [(4%nat, VInt toa)] ++ [(12%nat, VInt cir)] ++ [(2%nat, VInt fn)] ++
                          burst_entry 5 np bits ++ [(17%nat, vl)])
           (to_be 2 ((32 + tn) * 256 + (ba * 128 + tr)) ++ to_be 1 (np * 128 + md * 8 + tc) ++ [- rssi] ++ be16 toa ++ be16 cir ++ be32 fn
            ++ bits ++ concat (map rxsub_layout subs) ++ []));
    [reflexivity| |].
  { unfold rx2_layout. cbn [m_tn m_batch m_trxn m_nope m_mod m_tsc m_rssi m_toa m_cir m_fn m_bits m_subs].
    rewrite to_be2, to_be1, app_nil_r by lia. cbn [app]. f_equal; [|f_equal]; lia. }
  apply (good_bits (LFix 2) PAlways false hdr2_bits _ ((32 + tn) * 256 + (ba * 128 + tr))); [reflexivity|reflexivity|wf_bits| |apply hdr2_blob; try lia; reflexivity|].
  { cbn [bits_order hdr2_bits]. apply bf_fixed; [pow_norm; lia|]. apply bf_spare. apply bf_named_r; [reflexivity|pow_norm; lia|].
    apply bf_named_r; [reflexivity|pow_norm; lia|]. apply bf_spare. apply bf_named_r; [reflexivity|pow_norm; lia|]. constructor. }
  apply (good_bits (LFix 1) PAlways false mts_bits _ (np * 128 + md * 8 + tc)); [reflexivity|reflexivity|wf_bits| |apply mts_blob; try lia; reflexivity|].
  { cbn [bits_order mts_bits]. apply bf_named_r; [reflexivity|pow_norm; lia|]. apply bf_named_r; [reflexivity|pow_norm; lia|].
    apply bf_named_r; [reflexivity|pow_norm; lia|]. constructor. }
  apply (good_uint 3 1 PAlways false false 0 (-1) rssi (- rssi)); [reflexivity|reflexivity|lia|lia|reflexivity|lia|apply enc_u8; lia|].
  apply (good_uint 4 2 PAlways false true 0 1 toa toa); [reflexivity|reflexivity|lia|lia|reflexivity|lia|apply enc_i16; lia|].
  apply (good_uint 12 2 PAlways false true 0 1 cir cir); [reflexivity|reflexivity|lia|lia|reflexivity|lia|apply enc_i16; lia|].
  apply (good_uint 2 4 PAlways false false 0 1 fn fn); [reflexivity|reflexivity|lia|lia|reflexivity|lia|apply enc_u32; lia|].
  apply (good_burst 5 np md bits); [exact Hb|reflexivity|reflexivity|reflexivity|exact L5|].
  apply (good_seq 17 LRest PAlways spec_v2_rx_item (map (fun s => VDict (rxsub_fields s)) subs) (map (fun s => VDict (rxsub_fields s)) subs) (concat (map rxsub_layout subs))); [reflexivity|reflexivity|exact L17|apply rxsubs_good, Hsubs| |apply good_nil].
  cbn [get_len length]. f_equal. lia.
Qed.

Lemma rx2_nodup m : NoDup (keys (rx2_fields m)).
Proof.
  unfold rx2_fields. rewrite !keys_app, burst_entry_keys. cbn [keys map fst].
  destruct (m_nope m =? 0); cbn [app]; repeat (constructor; [cbn [In]; intuition discriminate|]); constructor.
Qed.

(* ---------------------------------------------------------------- TRXDv2 Tx *)
Record txsub := { ts_tn : Z; ts_batch : Z; ts_shadow : Z; ts_trxn : Z; ts_nope : Z; ts_mod : Z; ts_tsc : Z;
                  ts_pwr : Z; ts_scpir : Z; ts_bits : list Z }.
Definition txsub_ok (s:txsub) : Prop :=
  0 <= ts_tn s < 8 /\ 0 <= ts_batch s < 2 /\ 0 <= ts_shadow s < 2 /\ 0 <= ts_trxn s < 64 /\ 0 <= ts_mod s < 16 /\ 0 <= ts_tsc s < 8 /\
  0 <= ts_pwr s < 256 /\ -128 <= ts_scpir s < 128 /\ burst_ok (ts_nope s) (ts_mod s) (ts_bits s).
Definition txsub_fields (s:txsub) : env :=
  [(1%nat, VInt (ts_tn s)); (13%nat, VInt (ts_batch s)); (14%nat, VInt (ts_shadow s)); (15%nat, VInt (ts_trxn s));
   (9%nat, VInt (ts_nope s)); (10%nat, VInt (ts_mod s)); (11%nat, VInt (ts_tsc s));
   (7%nat, VInt (ts_pwr s)); (16%nat, VInt (ts_scpir s))] ++ burst_entry 8 (ts_nope s) (ts_bits s).
(* RFU(5) TN(3) | BATCH SHADOW TRXN(6) | NOPE MOD(4) TSC(3) | PWR | SCPIR | 3 spare octets (zero) | hard-bits *)
Definition txsub_layout (s:txsub) : list Z :=
  [ts_tn s; ts_batch s * 128 + ts_shadow s * 64 + ts_trxn s; ts_nope s * 128 + ts_mod s * 8 + ts_tsc s; ts_pwr s; ts_scpir s mod 256; 0; 0; 0]
  ++ ts_bits s.

Lemma txsub_good s R : txsub_ok s -> good spec_v2_tx_item (txsub_fields s) [] R (txsub_fields s) (txsub_layout s).
Proof.
  destruct s as [tn ba sh tr np md tc pwr sc bits]. unfold txsub_ok. cbn [ts_tn ts_batch ts_shadow ts_trxn ts_nope ts_mod ts_tsc ts_pwr ts_scpir ts_bits].
  intros [Ht [Hba [Hsh [Htr [Hm [Hc [Hp [Hs Hb]]]]]]]]. pose proof (nope_range _ _ _ Hb) as Hn.
  unfold spec_v2_tx_item, hdr2b, mts, u8, i8. set (e := txsub_fields _).
  assert (L8 : np = 0 -> lookup 8 e = Some (VBytes bits)) by (intros ->; reflexivity).
  apply (good_eq _ _ _ _ ([(1%nat, VInt tn); (13%nat, VInt ba); (14%nat, VInt sh); (15%nat, VInt tr)] ++
                          [(9%nat, VInt np); (10%nat, VInt md); (11%nat, VInt tc)] ++
                          [(7%nat, VInt pwr)] ++ [(16%nat, VInt sc)] ++ burst_entry 8 np bits ++ [])
           (to_be 2 (tn * 256 + (ba * 128 + sh * 64 + tr)) ++ to_be 1 (np * 128 + md * 8 + tc) ++ [pwr] ++ [sc mod 256] ++ repeat 0 3 ++ bits ++ []));
    [unfold e, txsub_fields; cbn [ts_tn ts_batch ts_shadow ts_trxn ts_nope ts_mod ts_tsc ts_pwr ts_scpir ts_bits]; rewrite app_nil_r; reflexivity| |].
  { unfold txsub_layout. cbn [ts_tn ts_batch ts_shadow ts_trxn ts_nope ts_mod ts_tsc ts_pwr ts_scpir ts_bits].
    rewrite to_be2, to_be1, app_nil_r by lia. cbn [app repeat]. f_equal; [|f_equal]; lia. }
  apply (good_bits (LFix 2) PAlways false hdr2b_bits _ (tn * 256 + (ba * 128 + sh * 64 + tr))); [reflexivity|reflexivity|wf_bits| |apply hdr2b_blob; try lia; reflexivity|].
  { cbn [bits_order hdr2b_bits]. apply bf_spare. apply bf_spare. apply bf_named_r; [reflexivity|pow_norm; lia|].
    apply bf_named_r; [reflexivity|pow_norm; lia|]. apply bf_named_r; [reflexivity|pow_norm; lia|]. apply bf_named_r; [reflexivity|pow_norm; lia|]. constructor. }
  apply (good_bits (LFix 1) PAlways false mts_bits _ (np * 128 + md * 8 + tc)); [reflexivity|reflexivity|wf_bits| |apply mts_blob; try lia; reflexivity|].
  { cbn [bits_order mts_bits]. apply bf_named_r; [reflexivity|pow_norm; lia|]. apply bf_named_r; [reflexivity|pow_norm; lia|].
    apply bf_named_r; [reflexivity|pow_norm; lia|]. constructor. }
  apply (good_uint 7 1 PAlways false false 0 1 pwr pwr); [reflexivity|reflexivity|lia|lia|reflexivity|lia|apply enc_u8; lia|].
  apply (good_uint 16 1 PAlways false true 0 1 sc sc); [reflexivity|reflexivity|lia|lia|reflexivity|lia|apply enc_i8; lia|].
  apply good_spare.
  apply (good_burst 8 np md bits); [exact Hb|reflexivity|reflexivity|reflexivity|exact L8|apply good_nil].
Qed.

Lemma txsub_nodup s : NoDup (keys (txsub_fields s)).
Proof.
  unfold txsub_fields. rewrite keys_app, burst_entry_keys. cbn [keys map fst].
  destruct (ts_nope s =? 0); cbn [app]; repeat (constructor; [cbn [In]; intuition discriminate|]); constructor.
Qed.
Lemma txsub_len s : (1 <= length (txsub_layout s))%nat.
Proof. unfold txsub_layout. rewrite app_length. cbn [length]. lia. Qed.

Lemma txsubs_good subs : Forall txsub_ok subs ->
  items_good spec_v2_tx_item (map (fun s => VDict (txsub_fields s)) subs) (map (fun s => VDict (txsub_fields s)) subs) (concat (map txsub_layout subs)).
Proof.
  induction 1 as [|s r Hs _ IH]; [apply items_good_nil|]. cbn [map concat].
  apply items_good_cons; [apply txsub_good, Hs|apply txsub_nodup|apply txsub_len|exact IH].
Qed.

Record tx2 := { x_tn : Z; x_batch : Z; x_trxn : Z; x_nope : Z; x_mod : Z; x_tsc : Z; x_pwr : Z; x_scpir : Z;
                x_fn : Z; x_bits : list Z; x_subs : list txsub }.
Definition tx2_ok (m:tx2) : Prop :=
  0 <= x_tn m < 8 /\ 0 <= x_batch m < 2 /\ 0 <= x_trxn m < 64 /\ 0 <= x_mod m < 16 /\ 0 <= x_tsc m < 8 /\
  0 <= x_pwr m < 256 /\ -128 <= x_scpir m < 128 /\ 0 <= x_fn m < 4294967296 /\
  burst_ok (x_nope m) (x_mod m) (x_bits m) /\ Forall txsub_ok (x_subs m).
Definition tx2_fields (m:tx2) : env :=
  [(0%nat, VInt 2); (1%nat, VInt (x_tn m)); (13%nat, VInt (x_batch m)); (15%nat, VInt (x_trxn m));
   (9%nat, VInt (x_nope m)); (10%nat, VInt (x_mod m)); (11%nat, VInt (x_tsc m));
   (7%nat, VInt (x_pwr m)); (16%nat, VInt (x_scpir m)); (2%nat, VInt (x_fn m))]
  ++ burst_entry 8 (x_nope m) (x_bits m) ++ [(17%nat, VList (map (fun s => VDict (txsub_fields s)) (x_subs m)))].
(* VER=2 RFU TN(3) | BATCH RFU TRXN(6) | NOPE MOD(4) TSC(3) | PWR | SCPIR | 3 spare octets | FN | hard-bits | batched sub-PDUs *)
Definition tx2_layout (m:tx2) : list Z :=
  [32 + x_tn m; x_batch m * 128 + x_trxn m; x_nope m * 128 + x_mod m * 8 + x_tsc m; x_pwr m; x_scpir m mod 256; 0; 0; 0]
  ++ be32 (x_fn m) ++ x_bits m ++ concat (map txsub_layout (x_subs m)).

Lemma tx2_good m : tx2_ok m -> good spec_v2_tx (tx2_fields m) [] 0 (tx2_fields m) (tx2_layout m).
Proof.
  destruct m as [tn ba tr np md tc pwr sc fn bits subs]. unfold tx2_ok.
  cbn [x_tn x_batch x_trxn x_nope x_mod x_tsc x_pwr x_scpir x_fn x_bits x_subs].
  intros [Ht [Hba [Htr [Hm [Hc [Hp [Hs [Hf [Hb Hsubs]]]]]]]]]. pose proof (nope_range _ _ _ Hb) as Hn.
  unfold spec_v2_tx, hdr2, mts, u8, i8, u32be. set (e := tx2_fields _).
  set (vl := VList (map (fun s => VDict (txsub_fields s)) subs)).
  assert (L8 : np = 0 -> lookup 8 e = Some (VBytes bits)) by (intros ->; reflexivity).
  assert (L17 : lookup 17 e = Some vl).
  { unfold e, tx2_fields. cbn [x_tn x_batch x_trxn x_nope x_mod x_tsc x_pwr x_scpir x_fn x_bits x_subs].
    unfold burst_entry. destruct (np =? 0); reflexivity. }
  apply (good_eq _ _ _ _ ([(0%nat, VInt 2); (1%nat, VInt tn); (13%nat, VInt ba); (15%nat, VInt tr)] ++
                          [(9%nat, VInt np); (10%nat, VInt md); (11%nat, VInt tc)] ++
                          [(7%nat, VInt pwr)] ++ [(16%nat, VInt sc)] ++ [(2%nat, VInt fn)] ++
                          burst_entry 8 np bits ++ [(17%nat, vl)])
           (to_be 2 ((32 + tn) * 256 + (ba * 128 + tr)) ++ to_be 1 (np * 128 + md * 8 + tc) ++ [pwr] ++ [sc mod 256] ++ repeat 0 3 ++ be32 fn
            ++ bits ++ concat (map txsub_layout subs) ++ []));
    [reflexivity| |].
  { unfold tx2_layout. cbn [x_tn x_batch x_trxn x_nope x_mod x_tsc x_pwr x_scpir x_fn x_bits x_subs].
    rewrite to_be2, to_be1, app_nil_r by lia. cbn [app repeat]. f_equal; [|f_equal]; lia. }
  apply (good_bits (LFix 2) PAlways false hdr2_bits _ ((32 + tn) * 256 + (ba * 128 + tr))); [reflexivity|reflexivity|wf_bits| |apply hdr2_blob; try lia; reflexivity|].
  { cbn [bits_order hdr2_bits]. apply bf_fixed; [pow_norm; lia|]. apply bf_spare. apply bf_named_r; [reflexivity|pow_norm; lia|].
    apply bf_named_r; [reflexivity|pow_norm; lia|]. apply bf_spare. apply bf_named_r; [reflexivity|pow_norm; lia|]. constructor. }
  apply (good_bits (LFix 1) PAlways false mts_bits _ (np * 128 + md * 8 + tc)); [reflexivity|reflexivity|wf_bits| |apply mts_blob; try lia; reflexivity|].
  { cbn [bits_order mts_bits]. apply bf_named_r; [reflexivity|pow_norm; lia|]. apply bf_named_r; [reflexivity|pow_norm; lia|].
    apply bf_named_r; [reflexivity|pow_norm; lia|]. constructor. }
  apply (good_uint 7 1 PAlways false false 0 1 pwr pwr); [reflexivity|reflexivity|lia|lia|reflexivity|lia|apply enc_u8; lia|].
  apply (good_uint 16 1 PAlways false true 0 1 sc sc); [reflexivity|reflexivity|lia|lia|reflexivity|lia|apply enc_i8; lia|].
  apply good_spare.
  apply (good_uint 2 4 PAlways false false 0 1 fn fn); [reflexivity|reflexivity|lia|lia|reflexivity|lia|apply enc_u32; lia|].
  apply (good_burst 8 np md bits); [exact Hb|reflexivity|reflexivity|reflexivity|exact L8|].
  apply (good_seq 17 LRest PAlways spec_v2_tx_item (map (fun s => VDict (txsub_fields s)) subs) (map (fun s => VDict (txsub_fields s)) subs) (concat (map txsub_layout subs)));
    [reflexivity|reflexivity|exact L17|apply txsubs_good, Hsubs| |apply good_nil].
  cbn [get_len length]. f_equal. lia.
Qed.

Lemma tx2_nodup m : NoDup (keys (tx2_fields m)).
Proof.
  unfold tx2_fields. rewrite !keys_app, burst_entry_keys. cbn [keys map fst].
  destruct (x_nope m =? 0); cbn [app]; repeat (constructor; [cbn [In]; intuition discriminate|]); constructor.
Qed.
