(* Lemmas for C11. Finite sweeps are stated literally and checked by vm_compute; they run over one cycle (102 or 104 frames)
   per table row and are extended to every frame number by the periodicity lemmas below (every modulo and every layout
   period divides the cycle, the cycle divides the hyperframe 2715648). *)
From Coq Require Import ZArith List Bool Lia Znumtheory.
From OBB Require Import Base.Range Gen.MframeFw Gen.MframeTrxcon Model.Mframe.
Import ListNotations.
Open Scope Z_scope.

(* ------------------------------------------------------------------ finite sweeps over the regenerated tables *)

Lemma sweep_rows : forallb (fun r => forallb (fun tn => chk_row_tn r tn) (range 0 8)) c11_rows = true.
Proof. vm_compute. reflexivity. Qed.

Lemma sweep_kinds : forallb (fun r => chk_row_kinds r) c11_rows = true.
Proof. vm_compute. reflexivity. Qed.

Lemma sweep_chan_nr : forallb (fun r => forallb (fun tn => chk_row_chan_nr r tn) (range 0 8)) c11_rows = true.
Proof. vm_compute. reflexivity. Qed.

Lemma sweep_bids : forallb (fun l => chk_bids l) tx_layouts = true.
Proof. vm_compute. reflexivity. Qed.

Lemma sweep_table : forallb (fun l => chk_table l) tx_layouts = true.
Proof. vm_compute. reflexivity. Qed.

Lemma sweep_mask : forallb (fun l => chk_mask l) tx_layouts = true.
Proof. vm_compute. reflexivity. Qed.

Lemma sweep_lookup : forallb (fun cfg => forallb (fun tn => chk_lookup cfg tn) (range 0 8)) (range 0 128) = true.
Proof. vm_compute. reflexivity. Qed.

Lemma consts : fw_SCHEDULE_AHEAD = 2 /\ fw_SCHEDULE_LATENCY = 1 /\ fw_GSM_MAX_FN = 2715648 /\ fw_MF_F_SACCH = 1 /\ fw_NTASKS = 32 /\
  Z.of_nat (length fw_sched) = 32 /\ tx_L1SCHED_IDLE = 0 /\ tx_LID_SACCH = 64 /\
  desc_has_handler DL tx_L1SCHED_IDLE = false /\ desc_has_handler UL tx_L1SCHED_IDLE = false.
Proof. vm_compute. repeat split; reflexivity. Qed.

Lemma sweep_none : forallb (fun L => negb (ly_cfg L =? tx_GSM_PCHAN_NONE) || (ly_period L =? 0)) tx_layouts = true.
Proof. vm_compute. reflexivity. Qed.

Lemma rows_count : length c11_rows = 35%nat.
Proof. reflexivity. Qed.

(* the big literal tables stay folded from here on (kernel conversion would otherwise walk through them at Qed) *)
Opaque tx_layouts fw_sched tx_lookup tx_desc fw_chan_nr c11_rows.

(* boolean plumbing stated on variables, so that no conversion ever has to look inside a checker *)
Lemma orb_negb_true a b : a = true -> negb a || b = true -> b = true.
Proof. intros -> H. exact H. Qed.
Lemma orb_negb_false a b : a = false -> negb (negb a) || b = true -> b = true.
Proof. intros -> H. exact H. Qed.
Lemma if_false_elim (c a b : bool) : c = false -> (if c then a else b) = true -> b = true.
Proof. intros -> H. exact H. Qed.
Lemma if_true_elim (c a b : bool) : c = true -> (if c then a else b) = true -> a = true.
Proof. intros -> H. exact H. Qed.

(* ------------------------------------------------------------------ arithmetic: residues modulo a divisor of the cycle *)

Lemma mod_cycle x y C m : 0 < m -> 0 < C -> C mod m = 0 -> x mod C = y mod C -> x mod m = y mod m.
Proof.
  intros Hm HC Hd Hxy.
  assert (D : (m | C)) by (apply Z.mod_divide; [lia | exact Hd]).
  rewrite (Zmod_div_mod m C x Hm HC D), (Zmod_div_mod m C y Hm HC D), Hxy. reflexivity.
Qed.

Lemma add_mod_cycle x a C : 0 < C -> (x mod C + a) mod C = (x + a) mod C.
Proof. intros HC. rewrite Zplus_mod_idemp_l. reflexivity. Qed.

(* ------------------------------------------------------------------ firmware trigger arithmetic is periodic *)

Lemma fw_set_items_cycle task C items : 0 < C -> mods_divide C items = true ->
  forall x y, 0 <= x + fw_SCHEDULE_AHEAD < 4294967296 -> 0 <= y + fw_SCHEDULE_AHEAD < 4294967296 ->
  (x + fw_SCHEDULE_AHEAD) mod C = (y + fw_SCHEDULE_AHEAD) mod C ->
  fw_set_items task x items = fw_set_items task y items.
Proof.
  intros HC Hd x y Hx Hy Hxy. unfold mods_divide in Hd.
  induction items as [|it tl IH]; [reflexivity|].
  destruct it as [[[k m] f] fl]. cbn [forallb] in Hd.
  apply andb_prop in Hd as [Hit Htl]. apply andb_prop in Hit as [Hm Hdiv].
  apply Z.ltb_lt in Hm. apply Z.eqb_eq in Hdiv.
  cbn [fw_set_items]. rewrite (IH Htl).
  unfold u32. rewrite (Z.mod_small _ _ Hx), (Z.mod_small _ _ Hy).
  rewrite (mod_cycle _ _ C m Hm HC Hdiv Hxy). reflexivity.
Qed.

Definition task_items (task : Z) : option (list (Z*Z*Z*Z)) :=
  match nth_error fw_sched (Z.to_nat task) with Some (Some items) => Some items | _ => None end.

Lemma fw_fires_cycle task C items kind sacch : 0 < C ->
  nth_error fw_sched (Z.to_nat task) = Some (Some items) -> mods_divide C items = true ->
  forall x y, 0 <= x + fw_SCHEDULE_AHEAD < 4294967296 -> 0 <= y + fw_SCHEDULE_AHEAD < 4294967296 ->
  (x + fw_SCHEDULE_AHEAD) mod C = (y + fw_SCHEDULE_AHEAD) mod C ->
  fw_fires task kind sacch x = fw_fires task kind sacch y.
Proof.
  intros HC Hn Hd x y Hx Hy Hxy. unfold fw_fires, fw_schedule_set. rewrite Hn.
  rewrite (fw_set_items_cycle task C items HC Hd x y Hx Hy Hxy). reflexivity.
Qed.

(* ------------------------------------------------------------------ trxcon frame lookup is periodic *)

Lemma trx_frame_cycle L C : 0 < C -> 0 < ly_period L -> C mod ly_period L = 0 ->
  forall x y, 0 <= x < 4294967296 -> 0 <= y < 4294967296 -> x mod C = y mod C -> trx_frame L x = trx_frame L y.
Proof.
  intros HC Hp Hd x y Hx Hy Hxy. unfold trx_frame, u32.
  rewrite (Z.mod_small _ _ Hx), (Z.mod_small _ _ Hy), (mod_cycle x y C (ly_period L) Hp HC Hd Hxy). reflexivity.
Qed.

Lemma trx_first_cycle L C d c x y : 0 < C -> 0 < ly_period L -> C mod ly_period L = 0 ->
  0 <= x < 4294967296 -> 0 <= y < 4294967296 -> x mod C = y mod C -> trx_first L d c x = trx_first L d c y.
Proof. intros HC Hp Hd Hx Hy Hxy. unfold trx_first. rewrite (trx_frame_cycle L C HC Hp Hd x y Hx Hy Hxy). reflexivity. Qed.

Lemma trx_owns_cycle L C d c x y : 0 < C -> 0 < ly_period L -> C mod ly_period L = 0 ->
  0 <= x < 4294967296 -> 0 <= y < 4294967296 -> x mod C = y mod C -> trx_owns L d c x = trx_owns L d c y.
Proof. intros HC Hp Hd Hx Hy Hxy. unfold trx_owns. rewrite (trx_frame_cycle L C HC Hp Hd x y Hx Hy Hxy). reflexivity. Qed.

Lemma trx_first_opt_cycle L C d c x y : 0 < C -> 0 < ly_period L -> C mod ly_period L = 0 ->
  0 <= x < 4294967296 -> 0 <= y < 4294967296 -> x mod C = y mod C -> trx_first_opt L d c x = trx_first_opt L d c y.
Proof. intros. destruct c as [c|]; [apply (trx_first_cycle L C); assumption | reflexivity]. Qed.

Lemma trx_owns_opt_cycle L C d c x y : 0 < C -> 0 < ly_period L -> C mod ly_period L = 0 ->
  0 <= x < 4294967296 -> 0 <= y < 4294967296 -> x mod C = y mod C -> trx_owns_opt L d c x = trx_owns_opt L d c y.
Proof. intros. destruct c as [c|]; [apply (trx_owns_cycle L C); assumption | reflexivity]. Qed.

(* ------------------------------------------------------------------ from the sweep to one (row, tn, cur) *)

Lemma row_cycle_cases r : row_cycle r = 102 \/ row_cycle r = 104.
Proof. unfold row_cycle. destruct (r_mode r); auto. Qed.

Lemma row_cycle_hyper r : 2715648 mod row_cycle r = 0.
Proof. destruct (row_cycle_cases r) as [E|E]; rewrite E; reflexivity. Qed.

Record row_facts (r : row) (tn : Z) (L : layout) (items : list (Z*Z*Z*Z)) : Prop := {
  rf_layout : row_layout r tn = Some L;
  rf_items : nth_error fw_sched (Z.to_nat (r_task r)) = Some (Some items);
  rf_period : 0 < ly_period L;
  rf_pdiv : row_cycle r mod ly_period L = 0;
  rf_mdiv : mods_divide (row_cycle r) items = true;
  rf_chk : forall x, 0 <= x < row_cycle r -> chk_row r tn x = true
}.

Lemma row_facts_of r tn : In r c11_rows -> 0 <= tn < 8 -> tn_ok (r_tn r) tn = true ->
  exists L items, row_facts r tn L items.
Proof.
  intros Hr Htn Hok.
  pose proof (forallb_In _ _ sweep_rows r Hr) as H1. cbv beta in H1.
  pose proof (forallb_range _ _ _ H1 tn Htn) as H2. cbv beta in H2. clear H1.
  unfold chk_row_tn in H2. apply andb_prop in H2 as [Hc Hs].
  apply (orb_negb_true _ _ Hok) in Hc.
  unfold chk_cycle in Hc.
  destruct (row_layout r tn) as [L|] eqn:EL; [|discriminate].
  destruct (nth_error fw_sched (Z.to_nat (r_task r))) as [[items|]|] eqn:EI; try discriminate.
  apply andb_prop in Hc as [Hc Hm]. apply andb_prop in Hc as [Hp Hd].
  exists L, items. constructor; auto.
  - apply Z.ltb_lt; exact Hp.
  - apply Z.eqb_eq; exact Hd.
  - intros x Hx. exact (forallb_range _ _ _ Hs x Hx).
Qed.

(* the residue at which the sweep speaks for the current frame cur *)
Lemma residues r cur : 0 <= cur < 2715648 ->
  let C := row_cycle r in let x := cur mod C in
  0 <= x < C /\ 0 <= x + fw_SCHEDULE_AHEAD < 4294967296 /\ 0 <= cur + fw_SCHEDULE_AHEAD < 4294967296 /\
  (cur + fw_SCHEDULE_AHEAD) mod C = (x + fw_SCHEDULE_AHEAD) mod C /\
  0 <= x + 2 < 4294967296 /\ 0 <= (cur + 2) mod 2715648 < 4294967296 /\
  ((cur + 2) mod 2715648) mod C = (x + 2) mod C.
Proof.
  intros Hcur C x. subst x.
  assert (HC : 0 < C) by (subst C; destruct (row_cycle_cases r) as [E|E]; rewrite E; lia).
  assert (HC2 : C <= 104) by (subst C; destruct (row_cycle_cases r) as [E|E]; rewrite E; lia).
  pose proof (Z.mod_pos_bound cur C HC) as Hb.
  pose proof (Z.mod_pos_bound (cur + 2) 2715648 ltac:(lia)) as Hb2.
  destruct consts as [HA _]. rewrite HA.
  repeat split; try lia.
  - symmetry. apply add_mod_cycle. exact HC.
  - rewrite <- (Zmod_div_mod C 2715648 (cur + 2) HC ltac:(lia)).
    + symmetry. apply add_mod_cycle. exact HC.
    + apply Z.mod_divide; [lia | apply row_cycle_hyper].
Qed.

Ltac eqb_split H :=
  repeat match type of H with
         | (_ && _) = true => let H' := fresh H in apply andb_prop in H as [H H']
         end.

(* ------------------------------------------------------------------ block starts *)

Lemma block_starts_agree : forall r tn cur,
  In r c11_rows -> r_mode r <> Tch -> 0 <= tn < 8 -> tn_ok (r_tn r) tn = true -> 0 <= cur < 2715648 ->
  exists L, row_layout r tn = Some L /\
    let fn := (cur + 2) mod 2715648 in
    fw_fires (r_task r) K_NB_DL false cur = trx_first L DL (r_lchan r) fn /\
    fw_fires (r_task r) K_NB_DL true cur = trx_first_opt L DL (r_sacch r) fn /\
    (r_mode r = Block ->
       fw_fires (r_task r) K_NB_UL false cur = trx_first L UL (r_lchan r) fn /\
       fw_fires (r_task r) K_NB_UL true cur = trx_first_opt L UL (r_sacch r) fn) /\
    (r_mode r = BlockDL ->
       fw_fires (r_task r) K_NB_UL false cur = false /\ fw_fires (r_task r) K_NB_UL true cur = false).
Proof.
  intros r tn cur Hr Hm Htn Hok Hcur.
  destruct (row_facts_of r tn Hr Htn Hok) as [L [items F]]. destruct F as [FL FI Fp Fd Fm Fc].
  exists L. split; [exact FL|]. intro fn. subst fn.
  destruct (residues r cur Hcur) as [Hx [Hxa [Hca [Hfw [Hx2 [Hf Htr]]]]]].
  set (C := row_cycle r) in *. set (x := cur mod C) in *.
  assert (HC : 0 < C) by lia.
  pose proof (Fc x Hx) as Hchk. unfold chk_row in Hchk. apply (orb_negb_true _ _ Hok) in Hchk.
  assert (Et : is_tch (r_mode r) = false) by (destruct (r_mode r); [reflexivity | reflexivity | congruence]).
  apply (if_false_elim _ _ _ Et) in Hchk. unfold chk_block in Hchk. rewrite FL in Hchk. cbv beta iota zeta in Hchk.
  assert (FW : forall k s, fw_fires (r_task r) k s cur = fw_fires (r_task r) k s x)
    by (intros k s; apply (fw_fires_cycle _ C items k s HC FI Fm cur x Hca Hxa Hfw)).
  assert (T1 : forall d c, trx_first L d c ((cur + 2) mod 2715648) = trx_first L d c (x + 2))
    by (intros d c; apply (trx_first_cycle L C d c _ _ HC Fp Fd Hf Hx2 Htr)).
  assert (T2 : forall d c, trx_first_opt L d c ((cur + 2) mod 2715648) = trx_first_opt L d c (x + 2))
    by (intros d c; apply (trx_first_opt_cycle L C d c _ _ HC Fp Fd Hf Hx2 Htr)).
  rewrite !FW, !T1, !T2.
  apply andb_prop in Hchk as [Hchk H3]. apply andb_prop in Hchk as [H1 H2].
  apply eqb_prop in H1. apply eqb_prop in H2.
  split; [exact H1|]. split; [exact H2|]. split.
  - intros EM. rewrite EM in H3. cbv beta iota in H3. apply andb_prop in H3 as [H3 H4]. apply eqb_prop in H3. apply eqb_prop in H4. split; assumption.
  - intros EM. rewrite EM in H3. cbv beta iota in H3. apply andb_prop in H3 as [H3 H4].
    apply negb_true_iff in H3. apply negb_true_iff in H4. split; assumption.
Qed.

(* ------------------------------------------------------------------ TCH / SACCH-T frame by frame *)

Lemma tch_frames_agree : forall r tn cur,
  In r c11_rows -> r_mode r = Tch -> 0 <= tn < 8 -> tn_ok (r_tn r) tn = true -> 0 <= cur < 2715648 ->
  exists L, row_layout r tn = Some L /\
    let fn := (cur + 2) mod 2715648 in
    fw_fires (r_task r) K_TCH false cur = trx_owns L DL (r_lchan r) fn /\
    fw_fires (r_task r) K_TCH false cur = trx_owns L UL (r_lchan r) fn /\
    fw_fires (r_task r) K_TCH_A true cur = trx_owns_opt L DL (r_sacch r) fn /\
    fw_fires (r_task r) K_TCH_A true cur = trx_owns_opt L UL (r_sacch r) fn /\
    fw_fires (r_task r) K_TCH_D false cur = trx_owns_opt L DL (other_subchan (r_lchan r)) fn /\
    fw_fires (r_task r) K_TCH_D false cur = trx_owns_opt L UL (other_subchan (r_lchan r)) fn.
Proof.
  intros r tn cur Hr Hm Htn Hok Hcur.
  destruct (row_facts_of r tn Hr Htn Hok) as [L [items F]]. destruct F as [FL FI Fp Fd Fm Fc].
  exists L. split; [exact FL|]. intro fn. subst fn.
  destruct (residues r cur Hcur) as [Hx [Hxa [Hca [Hfw [Hx2 [Hf Htr]]]]]].
  set (C := row_cycle r) in *. set (x := cur mod C) in *.
  assert (HC : 0 < C) by lia.
  pose proof (Fc x Hx) as Hchk. unfold chk_row in Hchk. apply (orb_negb_true _ _ Hok) in Hchk.
  assert (Et : is_tch (r_mode r) = true) by (rewrite Hm; reflexivity).
  apply (if_true_elim _ _ _ Et) in Hchk. unfold chk_tch in Hchk. rewrite FL in Hchk. cbv beta iota zeta in Hchk.
  assert (FW : forall k s, fw_fires (r_task r) k s cur = fw_fires (r_task r) k s x)
    by (intros k s; apply (fw_fires_cycle _ C items k s HC FI Fm cur x Hca Hxa Hfw)).
  assert (T1 : forall d c, trx_owns L d c ((cur + 2) mod 2715648) = trx_owns L d c (x + 2))
    by (intros d c; apply (trx_owns_cycle L C d c _ _ HC Fp Fd Hf Hx2 Htr)).
  assert (T2 : forall d c, trx_owns_opt L d c ((cur + 2) mod 2715648) = trx_owns_opt L d c (x + 2))
    by (intros d c; apply (trx_owns_opt_cycle L C d c _ _ HC Fp Fd Hf Hx2 Htr)).
  rewrite !FW, !T1, !T2.
  apply andb_prop in Hchk as [Hchk H6]. apply andb_prop in Hchk as [Hchk H5]. apply andb_prop in Hchk as [Hchk H4].
  apply andb_prop in Hchk as [Hchk H3]. apply andb_prop in Hchk as [H1 H2].
  apply eqb_prop in H1, H2, H3, H4, H5, H6.
  repeat split; assumption.
Qed.

(* every row of a mapped task is accounted for by the comparison; the channel numbers agree *)
Lemma rows_accounted : forall r, In r c11_rows -> chk_row_kinds r = true.
Proof. intros r Hr. exact (forallb_In _ _ sweep_kinds r Hr). Qed.

Lemma rows_chan_nr : forall r tn, In r c11_rows -> 0 <= tn < 8 ->
  fw_task_chan_nr (r_task r) tn = Z.lor (desc_chan_nr (r_lchan r)) tn /\ desc_link_id (r_lchan r) = 0 /\
  (forall s, r_sacch r = Some s -> desc_chan_nr s = desc_chan_nr (r_lchan r) /\ desc_link_id s = 64).
Proof.
  intros r tn Hr Htn.
  pose proof (forallb_In _ _ sweep_chan_nr r Hr) as H1. cbv beta in H1.
  pose proof (forallb_range _ _ _ H1 tn Htn) as H2. cbv beta in H2. clear H1.
  unfold chk_row_chan_nr in H2. apply andb_prop in H2 as [H2 H3]. apply andb_prop in H2 as [H1 H2].
  apply Z.eqb_eq in H1, H2. split; [exact H1|]. split; [exact H2|].
  intros s Es. rewrite Es in H3. apply andb_prop in H3 as [H3 H4]. apply Z.eqb_eq in H3, H4.
  destruct consts as [_ [_ [_ [_ [_ [_ [_ [HL _]]]]]]]]. rewrite HL in H4. split; assumption.
Qed.

(* ------------------------------------------------------------------ the frame lookup stays inside the table *)

Lemma layout_table : forall L, In L tx_layouts -> ly_cfg L <> tx_GSM_PCHAN_NONE ->
  0 < ly_period L /\ ly_period L <= ly_nframes L /\ ly_period L < 256 /\ Z.of_nat (length (ly_frames L)) = ly_nframes L.
Proof.
  intros L HL Hc. pose proof (forallb_In _ _ sweep_table L HL) as H. cbv beta in H.
  unfold chk_table, has_frames in H. destruct (ly_cfg L =? tx_GSM_PCHAN_NONE) eqn:E; [apply Z.eqb_eq in E; contradiction|].
  apply (orb_negb_false _ _ eq_refl) in H. apply andb_prop in H as [H H4]. apply andb_prop in H as [H H3]. apply andb_prop in H as [H1 H2].
  apply Z.ltb_lt in H1. apply Z.leb_le in H2. apply Z.ltb_lt in H3. apply Z.eqb_eq in H4. auto.
Qed.

Lemma lookup_in_table : forall L fn, In L tx_layouts -> ly_cfg L <> tx_GSM_PCHAN_NONE -> 0 <= fn < 4294967296 ->
  0 < ly_period L /\ 0 <= fn mod ly_period L < ly_nframes L /\
  exists fr, nth_error (ly_frames L) (Z.to_nat (fn mod ly_period L)) = Some fr /\ trx_frame L fn = FrOk fr /\ trx_frame_rx L fn = FrOk fr.
Proof.
  intros L fn HL Hc Hfn. destruct (layout_table L HL Hc) as [Hp [Hn [H8 Hlen]]].
  pose proof (Z.mod_pos_bound fn (ly_period L) Hp) as Hb.
  split; [exact Hp|]. split; [lia|].
  destruct (nth_error (ly_frames L) (Z.to_nat (fn mod ly_period L))) as [fr|] eqn:E.
  - exists fr. split; [reflexivity|].
    unfold trx_frame, trx_frame_rx, u32, u8. rewrite (Z.mod_small fn _ Hfn).
    rewrite (Z.mod_small (fn mod ly_period L) 256) by lia.
    assert (E0 : ly_period L =? 0 = false) by (apply Z.eqb_neq; lia). rewrite E0.
    assert (E1 : (0 <=? fn mod ly_period L) && (fn mod ly_period L <? ly_nframes L) = true).
    { apply andb_true_intro. split; [apply Z.leb_le | apply Z.ltb_lt]; lia. }
    rewrite E1, E. split; reflexivity.
  - exfalso. apply nth_error_None in E. lia.
Qed.

(* the layout NONE (period 0, frames NULL) is the one table entry on which the lookup would divide by zero *)
Lemma none_layout_divzero : forall L fn, In L tx_layouts -> ly_cfg L = tx_GSM_PCHAN_NONE -> trx_frame L fn = FrDivZero.
Proof.
  intros L fn HL Hc. pose proof (forallb_In _ _ sweep_none L HL) as H. cbv beta in H.
  apply Z.eqb_eq in Hc. rewrite Hc in H. rewrite orb_false_l in H. unfold trx_frame. rewrite H. reflexivity.
Qed.

(* ------------------------------------------------------------------ channel mask *)

Lemma mask_covers : forall L fr d, In L tx_layouts -> In fr (ly_frames L) -> fr_chan d fr <> tx_L1SCHED_IDLE ->
  0 <= fr_chan d fr < tx_CHAN_MAX /\ fr_chan d fr < 64 /\ Z.testbit (ly_mask L) (fr_chan d fr) = true.
Proof.
  intros L fr d HL Hfr Hc. pose proof (forallb_In _ _ sweep_mask L HL) as H. cbv beta in H.
  unfold chk_mask in H. pose proof (forallb_In _ _ H fr Hfr) as H2. cbv beta in H2.
  apply andb_prop in H2 as [Hd Hu].
  assert (G : chan_in_mask L (fr_chan d fr) = true) by (destruct d; assumption).
  unfold chan_in_mask in G. destruct (fr_chan d fr =? tx_L1SCHED_IDLE) eqn:E; [apply Z.eqb_eq in E; contradiction|].
  rewrite orb_false_l in G. apply andb_prop in G as [G G4]. apply andb_prop in G as [G G3]. apply andb_prop in G as [G1 G2].
  apply Z.leb_le in G1. apply Z.ltb_lt in G2. apply Z.ltb_lt in G3. auto.
Qed.

(* ------------------------------------------------------------------ (combination, timeslot) lookup *)

Lemma existsb_eqb_In x l : existsb (Z.eqb x) l = true <-> In x l.
Proof.
  rewrite existsb_exists. split.
  - intros [y [Hy E]]. apply Z.eqb_eq in E. subst. exact Hy.
  - intros H. exists x. split; [exact H | apply Z.eqb_refl].
Qed.

Lemma layout_valid_for_tn : forall cfg tn, 0 <= cfg < 128 -> 0 <= tn < 8 ->
  (In cfg c11_configs ->
     exists li L, trx_layout cfg tn = Some li /\ trx_layout_real cfg tn = li /\ nth_error tx_layouts (Z.to_nat li) = Some L /\
                  ly_cfg L = cfg /\ Z.testbit (ly_slotmask L) tn = true) /\
  (~ In cfg c11_configs -> trx_layout cfg tn = None /\ trx_layout_real cfg tn = -1).
Proof.
  intros cfg tn Hcfg Htn.
  pose proof (forallb_range _ _ _ sweep_lookup cfg Hcfg) as H1. cbv beta in H1.
  pose proof (forallb_range _ _ _ H1 tn Htn) as H. cbv beta in H. clear H1.
  unfold chk_lookup in H. destruct (trx_layout cfg tn) as [li|] eqn:E.
  - apply andb_prop in H as [H H3]. apply andb_prop in H as [H1 H2]. apply Z.eqb_eq in H1. apply existsb_eqb_In in H2.
    destruct (nth_error tx_layouts (Z.to_nat li)) as [L|] eqn:EL; [|discriminate].
    apply andb_prop in H3 as [H3 H4]. apply Z.eqb_eq in H3.
    split.
    + intros _. exists li, L. auto.
    + intros N. contradiction.
  - apply andb_prop in H as [H1 H2]. apply Z.eqb_eq in H1. apply negb_true_iff in H2.
    split.
    + intros I. apply existsb_eqb_In in I. congruence.
    + intros _. auto.
Qed.

(* ------------------------------------------------------------------ burst ids *)

Lemma first_same_spec l d c i : forall fuel k0 k, first_same l d c i k0 fuel = Some k ->
  k0 <= k < k0 + Z.of_nat fuel /\
  (exists fr, trx_frame l (i + k) = FrOk fr /\ fr_chan d fr = c) /\
  (forall j, k0 <= j < k -> exists fr, trx_frame l (i + j) = FrOk fr /\ fr_chan d fr <> c).
Proof.
  induction fuel as [|f IH]; intros k0 k H; [discriminate|].
  cbn [first_same] in H. destruct (trx_frame l (i + k0)) as [| |fr] eqn:E; try discriminate.
  destruct (fr_chan d fr =? c) eqn:Ec.
  - injection H as <-. apply Z.eqb_eq in Ec. split; [lia|]. split; [exists fr; auto|]. intros j Hj; lia.
  - apply Z.eqb_neq in Ec. destruct (IH _ _ H) as [Hk [Hfr Hall]]. split; [lia|]. split; [exact Hfr|].
    intros j Hj. destruct (Z.eq_dec j k0) as [->|Hne]; [exists fr; auto | apply Hall; lia].
Qed.

Lemma bids_cyclic : forall L d i k fr fr',
  In L tx_layouts -> ly_cfg L <> tx_GSM_PCHAN_NONE -> 0 <= i < ly_period L -> 1 <= k ->
  trx_frame L i = FrOk fr -> fr_chan d fr <> tx_L1SCHED_IDLE ->
  trx_frame L (i + k) = FrOk fr' -> fr_chan d fr' = fr_chan d fr ->
  (forall j frj, 1 <= j < k -> trx_frame L (i + j) = FrOk frj -> fr_chan d frj <> fr_chan d fr) ->
  0 <= fr_bid d fr < lchan_nbursts (fr_chan d fr) /\
  fr_bid d fr' = (fr_bid d fr + 1) mod lchan_nbursts (fr_chan d fr).
Proof.
  intros L d i k fr fr' HL Hc Hi Hk Hfr Hidle Hfr' Hsame Hmin.
  pose proof (forallb_In _ _ sweep_bids L HL) as H. cbv beta in H.
  unfold chk_bids, has_frames in H. destruct (ly_cfg L =? tx_GSM_PCHAN_NONE) eqn:E; [apply Z.eqb_eq in E; contradiction|].
  apply (orb_negb_false _ _ eq_refl) in H. pose proof (forallb_range _ _ _ H i Hi) as H2. cbv beta in H2. clear H.
  assert (G : chk_bid_at L d i = true) by (apply andb_prop in H2 as [Ha Hb]; destruct d; assumption). clear H2.
  unfold chk_bid_at in G. rewrite Hfr in G. cbv beta iota zeta in G.
  destruct (fr_chan d fr =? tx_L1SCHED_IDLE) eqn:E2; [apply Z.eqb_eq in E2; contradiction|]. rewrite orb_false_l in G.
  apply andb_prop in G as [G G3]. apply andb_prop in G as [G1 G2]. apply Z.leb_le in G1. apply Z.ltb_lt in G2.
  split; [lia|].
  destruct (first_same L d (fr_chan d fr) i 1 (Z.to_nat (ly_period L))) as [k0|] eqn:EF; [|discriminate].
  destruct (first_same_spec _ _ _ _ _ _ _ EF) as [Hk0 [[f0 [Hf0 Hc0]] Hall]].
  assert (k = k0).
  { destruct (Z.lt_trichotomy k k0) as [Hlt|[Heq|Hgt]]; [|exact Heq|].
    - destruct (Hall k ltac:(lia)) as [f1 [Hf1 Hn1]]. rewrite Hfr' in Hf1. injection Hf1 as <-. contradiction.
    - exfalso. apply (Hmin k0 f0 ltac:(lia) Hf0 Hc0). }
  subst k0. rewrite Hfr' in G3. apply Z.eqb_eq in G3. exact G3.
Qed.

(* non-vacuity: concrete instances *)
Example ex_sdcch4_0_dl : fw_fires fw_MF_TASK_SDCCH4_0 K_NB_DL false 20 = true /\ fw_fires fw_MF_TASK_SDCCH4_0 K_NB_DL false 21 = false /\
  fw_fires fw_MF_TASK_SDCCH4_0 K_NB_UL true 55 = true /\ fw_fires fw_MF_TASK_TCH_H_1 K_TCH_A true 2715647 = false /\
  fw_fires fw_MF_TASK_TCH_F_ODD K_TCH_A true 23 = true.
Proof. vm_compute. repeat split; reflexivity. Qed.

(* every channel a frame of a layout uses gets a channel state when a timeslot is configured with that layout *)
Lemma configured_has_state : forall L fr d, In L tx_layouts -> In fr (ly_frames L) -> fr_chan d fr <> tx_L1SCHED_IDLE ->
  In (fr_chan d fr) (trx_configured L).
Proof.
  intros L fr d HL Hfr Hn.
  destruct (mask_covers L fr d HL Hfr Hn) as [Hr [H64 Hb]].
  unfold trx_configured. apply filter_In. split.
  - apply in_range. lia.
  - rewrite Hb. replace (fr_chan d fr <? 64) with true by (symmetry; apply Z.ltb_lt; exact H64). reflexivity.
Qed.

Lemma configured_only_mask : forall L c, In c (trx_configured L) -> 0 <= c < tx_CHAN_MAX /\ Z.testbit (ly_mask L) c = true.
Proof.
  intros L c H. unfold trx_configured in H. apply filter_In in H. destruct H as [Hr Hb].
  apply range_in in Hr. apply andb_true_iff in Hb. destruct Hb as [_ Hb]. split; [lia | exact Hb].
Qed.
