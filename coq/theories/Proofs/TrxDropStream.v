(* C18: a stream of bursts through one receiving transceiver: suppressed = exactly the FAKE_DROP pattern *)
From Coq Require Import ZArith List Bool Lia ZifyBool.
From OBB Require Import Base.Dec Gen.TrxdConst Gen.FakeTrxConst Model.Trxd Model.Trx
  Proofs.TrxdBase Proofs.TrxdTx Proofs.TrxdRx Proofs.TrxdRxRT Proofs.TrxDrop Proofs.TrxMeta.
Import ListNotations.
Open Scope Z_scope.
Ltac Zify.zify_post_hook ::= Z.to_euclidean_division_equations.

(* what the recipient's L1 can tell: a burst was suppressed iff nothing arrives (version 0) or a NOPE indication arrives *)
Definition suppressed (d : delivery) : bool :=
  match d with Silent None => true | Sent _ m => r_nope m | Silent (Some m) => r_nope m | DCrash => false end.

Fixpoint handle_stream (dst src : sim) (ver : Z) (ms : list txmsg) (draws : list Z) : list delivery * sim * list Z :=
  match ms with
  | [] => ([], dst, draws)
  | m :: r => let '(dst1, d, dr1) := handle_data dst src m (trans m ver) draws in
              let '(ds, dst2, dr2) := handle_stream dst1 src ver r dr1 in (d :: ds, dst2, dr2)
  end.

Lemma sim_ok_drop s f : sim_ok s -> sim_ok (snd (sim_drop s f)).
Proof.
  intros [H1 [H2 [H3 [H4 H5]]]]. pose proof (sim_drop_frame s f) as Hf. cbv zeta in Hf.
  destruct Hf as [Ep [_ [_ [_ [_ [_ [Et [_ [Er [_ [Ec _]]]]]]]]]]].
  destruct (sim_drop_spec s f H4) as [_ Ed].
  unfold sim_ok. rewrite Ep, Et, Er, Ec, Ed. repeat split; try assumption.
  destruct (0 <? s_drop s) eqn:E; destruct (f mod s_period s =? 0); cbn [andb]; lia.
Qed.

Lemma send_out_nope_suppressed l m : r_nope m = true -> suppressed (send_out l m) = true.
Proof. intros H. unfold send_out. destruct (gen_rx l m); cbn [suppressed]; [exact H|exact H|]. Abort.

Lemma send_out_flag l m : send_out l m <> DCrash -> suppressed (send_out l m) = r_nope m.
Proof. unfold send_out. destruct (gen_rx l m); cbn [suppressed]; congruence. Qed.

Lemma send_out_no_crash l m : validate_rx m = Ok tt \/ validate_rx m = VErr -> send_out l m <> DCrash.
Proof.
  intros H. unfold send_out, gen_rx. destruct H as [-> | ->]; cbn [bind]; discriminate.
Qed.

(* one burst: the recipient state advances like sim_drop, and the burst is suppressed iff sim_drop says so *)
Lemma handle_one dst src m bits ver draws :
  sim_ok dst -> s_muted dst = false -> t_burst m = Some bits ->
  let '(dst1, d, _) := handle_data dst src m (trans m ver) draws in
  dst1 = snd (sim_drop dst (oz (t_fn m))) /\ suppressed d = fst (sim_drop dst (oz (t_fn m))) /\ d <> DCrash.
Proof.
  intros Hok Hm Hb.
  destruct (fst (sim_drop dst (oz (t_fn m)))) eqn:Ed.
  - assert (Hn : r_nope (trans m ver) = false) by (unfold trans; cbn [r_nope]; rewrite Hb; reflexivity).
    assert (Ef : oz (r_fn (trans m ver)) = oz (t_fn m)) by reflexivity.
    rewrite (handle_dropped dst src m (trans m ver) draws Hm Hn) by (rewrite Ef; exact Ed). rewrite Ef.
    split; [reflexivity|]. destruct (r_ver (trans m ver) <? 1); [split; [reflexivity|discriminate]|].
    assert (Hnc : send_out false (nope_msg (trans m ver)) <> DCrash) by (apply send_out_no_crash, validate_rx_cases).
    split; [|exact Hnc]. rewrite send_out_flag by exact Hnc. reflexivity.
  - destruct (handle_normal dst src m bits ver draws Hok Hm Hb Ed) as [toa [rssi [ci [d' [E _]]]]]. rewrite E.
    assert (Es : snd (sim_drop dst (oz (t_fn m))) = dst).
    { unfold sim_drop in *. destruct (s_drop dst =? 0); [reflexivity|]. destruct (oz (t_fn m) mod s_period dst =? 0); [cbn in Ed; discriminate|reflexivity]. }
    rewrite Es. split; [reflexivity|].
    assert (Hnc : send_out true (meta_msg ver m bits rssi (toa - 256 * s_ta src) ci) <> DCrash) by (apply send_out_no_crash, validate_rx_cases).
    split; [|exact Hnc]. rewrite send_out_flag by exact Hnc. unfold meta_msg. destruct (ver >=? 1); [|reflexivity].
    destruct (pick_by_bl _) as [[|k]|]; try reflexivity. destruct (tsc_of bits). reflexivity.
Qed.

Lemma sim_drop_muted s f : s_muted (snd (sim_drop s f)) = s_muted s.
Proof. pose proof (sim_drop_frame s f) as H. cbv zeta in H. tauto. Qed.

(* the whole stream: the suppressed bursts are exactly those the counter/filter selects; no crash *)
Lemma stream_drops : forall ms dst src ver draws,
  sim_ok dst -> s_muted dst = false -> Forall (fun m => t_burst m <> None) ms ->
  let '(ds, dst', _) := handle_stream dst src ver ms draws in
  map suppressed ds = fst (drop_stream dst (map (fun m => oz (t_fn m)) ms))
  /\ dst' = snd (drop_stream dst (map (fun m => oz (t_fn m)) ms)) /\ ~ In DCrash ds.
Proof.
  induction ms as [|m r IH]; intros dst src ver draws Hok Hm Hb.
  - cbn. auto.
  - inversion Hb as [|m' r' Hbm Hbr]; subst. destruct (t_burst m) as [bits|] eqn:Eb; [|congruence].
    cbn [handle_stream map drop_stream].
    pose proof (handle_one dst src m bits ver draws Hok Hm Eb) as H1.
    destruct (handle_data dst src m (trans m ver) draws) as [[dst1 d] dr1]. destruct H1 as [E1 [E2 E3]].
    assert (Hok1 : sim_ok dst1) by (rewrite E1; apply sim_ok_drop, Hok).
    assert (Hm1 : s_muted dst1 = false) by (rewrite E1, sim_drop_muted; exact Hm).
    specialize (IH dst1 src ver dr1 Hok1 Hm1 Hbr).
    destruct (handle_stream dst1 src ver r dr1) as [[ds dst2] dr2]. destruct IH as [I1 [I2 I3]].
    destruct (sim_drop dst (oz (t_fn m))) as [b s1] eqn:Esd. cbn [fst snd] in E1, E2. subst dst1.
    destruct (drop_stream s1 (map (fun m0 => oz (t_fn m0)) r)) as [bs s2] eqn:Eds. cbn [fst snd] in *.
    split; [cbn [map]; rewrite E2, I1; reflexivity|]. split; [exact I2|].
    intros [Hin|Hin]; [congruence|exact (I3 Hin)].
Qed.

(* RF mute on the receiving side: every burst is suppressed, the drop counter is not consumed *)
Lemma stream_muted : forall ms dst src ver draws, s_muted dst = true ->
  let '(ds, dst', dr') := handle_stream dst src ver ms draws in
  dst' = dst /\ dr' = draws /\ Forall (fun d => suppressed d = true \/ d = DCrash) ds
  /\ (ver = 0 -> ds = map (fun _ => Silent None) ms).
Proof.
  induction ms as [|m r IH]; intros dst src ver draws Hm.
  - cbn. auto.
  - cbn [handle_stream]. rewrite (handle_suppressed dst src m (trans m ver) draws (or_introl Hm)).
    specialize (IH dst src ver draws Hm). destruct (handle_stream dst src ver r draws) as [[ds dst2] dr2].
    destruct IH as [I1 [I2 [I3 I4]]]. split; [exact I1|]. split; [exact I2|]. split.
    + constructor; [|exact I3]. change (r_ver (trans m ver)) with ver. destruct (ver <? 1); [left; reflexivity|].
      unfold send_out. destruct (gen_rx false (nope_msg (trans m ver))); cbn [suppressed]; auto.
    + intros ->. cbn [map]. rewrite (I4 eq_refl). reflexivity.
Qed.
