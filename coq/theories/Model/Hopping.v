(* Model of frequency hopping (C07).
   hop_spec : 3GPP TS 45.002 6.2.3 written from the standard's text, RNTABLE typed in by hand (spec_rntable).
   hop_c    : firmware layer1/rfch.c rfch_hop_seq_gen + pow_nbin_mask, table = Gen.c_rn_table (checked index).
   hop_py   : trx_toolkit gsm_shared.py HoppingParams.__init__/resolve, table = Gen.py_rntable (checked index). *)
From Coq Require Import ZArith List.
From OBB Require Import Gen.HoppingTab Model.GsmTime.
Import ListNotations.
Open Scope Z_scope.

Definition spec_rntable : list Z :=
  [ 48;  98;  63;   1;  36;  95;  78; 102;  94;  73;
     0;  64;  25;  81;  76;  59; 124;  23; 104; 100;
   101;  47; 118;  85;  18;  56;  96;  86;  54;   2;
    80;  34; 127;  13;   6;  89;  57; 103;  12;  74;
    55; 111;  75;  38; 109;  71; 112;  29;  11;  88;
    87;  19;   3;  68; 110;  26;  33;  31;   8;  45;
    82;  58;  40; 107;  32;   5; 106;  92;  62;  67;
    77; 108; 122;  37;  60;  66; 121;  42;  51; 126;
   117; 114;   4;  90;  43;  52;  53; 113; 120;  72;
    16;  49;   7;  79; 119;  61;  22;  84;   9;  97;
    91;  15;  21;  24;  46;  39;  93; 105;  65;  70;
   125;  99;  17; 123].

Definition nthZ (l : list Z) (i : Z) : option Z := if i <? 0 then None else nth_error l (Z.to_nat i).

(* ---- the standard ---- *)
Definition spec_s (m t3 n : Z) : Z :=
  let nbin := Z.log2 n + 1 in
  let m' := m mod 2 ^ nbin in
  let t' := t3 mod 2 ^ nbin in
  if m' <? n then m' else (m' + t') mod n.

Definition hop_spec (hsn maio n fn : Z) : option Z :=
  let t1r := (fn / 1326) mod 64 in
  let t2 := fn mod 26 in
  let t3 := fn mod 51 in
  if hsn =? 0 then Some ((fn + maio) mod n)
  else match nthZ spec_rntable (Z.lxor hsn t1r + t3) with
       | Some rn => Some ((spec_s (t2 + rn) t3 n + maio) mod n)
       | None => None
       end.

(* ---- C ---- *)
Definition pow_nbin_mask (n : Z) : Z :=
  Z.lor n (Z.lor (Z.shiftr n 1) (Z.lor (Z.shiftr n 2) (Z.lor (Z.shiftr n 3)
    (Z.lor (Z.shiftr n 4) (Z.lor (Z.shiftr n 5) (Z.shiftr n 6)))))).

Definition c_s (m t3 n : Z) : Z :=
  let pnm := pow_nbin_mask n in
  let mp := Z.land m pnm in
  if mp <? n then mp else Z.rem (mp + Z.land t3 pnm) n.

(* result: Some mai, or None for an out-of-bounds table read; n = 0 (division by zero) is excluded by callers *)
Definition hop_c (t : gt) (hsn maio n : Z) : option Z :=
  if hsn =? 0 then Some (Z.rem (g_fn t + maio) n)
  else match nthZ c_rn_table (Z.lxor hsn (Z.land (g_t1 t) 63) + g_t3 t) with
       | Some rn => Some (Z.rem (c_s (g_t2 t + rn) (g_t3 t) n + maio) n)
       | None => None
       end.

(* ---- Python ---- *)
Definition py_s (m t3 n : Z) : Z :=
  let pnm := pow_nbin_mask n in
  let mp := Z.land m pnm in
  if mp <? n then mp else (mp + Z.land t3 pnm) mod n.

Definition hop_py (hsn maio n fn : Z) : option Z :=
  if hsn =? 0 then Some ((fn + maio) mod n)
  else let '(t1, t2, t3, _) := py_fn2gsm_time fn in
       match nthZ py_rntable (Z.lxor hsn (Z.land t1 63) + t3) with
       | Some rn => Some ((py_s (t2 + rn) t3 n + maio) mod n)
       | None => None
       end.

Definition pick (ma : list Z) (mai : option Z) : list Z :=
  match mai with
  | Some i => match nthZ ma i with Some a => [a] | None => [-1] end
  | None => [-1]
  end.

(* wire: [hsn; maio; fn; ma...] *)
Definition w_c07_c (a : list Z) : list Z :=
  match a with hsn :: maio :: fn :: ma =>
    let n := Z.of_nat (length ma) in if n =? 0 then [-2] else pick ma (hop_c (fn2gsmtime fn) hsn maio n)
  | _ => [-999] end.
Definition w_c07_py (a : list Z) : list Z :=
  match a with hsn :: maio :: fn :: ma =>
    let n := Z.of_nat (length ma) in if n =? 0 then [-2] else pick ma (hop_py hsn maio n fn)
  | _ => [-999] end.
Definition w_c07_spec (a : list Z) : list Z :=
  match a with [hsn; maio; n; fn] => match hop_spec hsn maio n fn with Some i => [i] | None => [-1] end | _ => [-999] end.
