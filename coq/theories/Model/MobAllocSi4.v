(* Model of the two callers of gsm48_decode_mobile_alloc (C20).

   (1) the tail of gsm48_decode_sysinfo4 (layer23 src/common/sysinfo.c), from 'CBCH Channel Description' to the call of
       gsm48_decode_si4_rest:

         int payload_len = len - sizeof( *si);  const uint8_t *data = si->data;  ...
         if (payload_len >= 1 && data[0] == GSM48_IE_CBCH_CHAN_DESC) {          -- tag 0x64
             if (payload_len < 4) { short_read: return -EIO; }
             cd = (const struct gsm48_chan_desc * )(data + 1);
             s->chan_nr = cd->chan_nr;  s->h = cd->h0.h;
             if (s->h) gsm48_decode_chan_h1(cd, &s->tsc, &s->maio, &s->hsn);
             else      gsm48_decode_chan_h0(cd, &s->tsc, &s->arfcn);
             payload_len -= 4;  data += 4;
         }
         if (payload_len >= 1 && data[0] == GSM48_IE_CBCH_MOB_AL) {             -- tag 0x72
             if (payload_len < 2 || payload_len < 2 + data[1]) goto short_read;
             if (!s->si1) { /* ignored until SI 1 is received */ }
             else gsm48_decode_mobile_alloc(s->freq, data + 2, data[1], s->hopping, &s->hopp_len, 1);   -- return code ignored
             payload_len -= 2 + data[1];  data += 2 + data[1];
         }
         if (payload_len > 0) gsm48_decode_si4_rest(s, data, payload_len);
         s->si4 = 1;  return 0;

       The payload (the octets after the fixed 13-octet SI4 header) is a list d with its true length; the C pointer data is the
       offset off into d, payload_len is plen.  EVERY read data[k] is the checked read rd d (off + k): a read behind the last
       octet of the message gives SOOB.  The bitmap buffer handed to the decoder is 'data + 2' = the octets of the message from
       off + 2 on (skipn), so a read ma[k] of the decoder behind the end of the message is OOB of the existing model, hence SOOB.
       && and || are short-circuit as in C (data[0] is read only if payload_len >= 1, data[1] only if payload_len >= 2).
       C integers: payload_len is int (0 .. a few hundred), data[1] is uint8_t promoted to int: no wrap.
       The bit-fields of struct gsm48_chan_desc (packed, little-endian bit order as compiled on the host) are masks and shifts
       of the octets data[2], data[3].

   (2) the 'decode mobile allocation' branch of gsm48_rr_render_ma (layer23 src/mobile/gsm48_rr.c):

         if (cd->mob_alloc_lv[0]) { ...                                            -- uint8_t mob_alloc_lv[9]: len + up to 64 bits
             gsm48_decode_mobile_alloc(freq, cd->mob_alloc_lv + 1, cd->mob_alloc_lv[0], ma, ma_len, 0);   -- return code ignored
             if ( *ma_len < 1) return GSM48_RR_CAUSE_NO_CELL_ALLOC_A; }

       lv is the array mob_alloc_lv (c_MOB_ALLOC_LV_SIZE octets, Gen: the bound in gsm48_rr.h as compiled); the cell channel
       description sub-branch, the other three branches and the band conversion behind are not modelled.
   Definitions only; proofs are in Proofs/MobAllocSi4P.v. *)
From Coq Require Import ZArith List Bool.
From OBB Require Import Base.Range Gen.MobAllocConst Gen.MobAllocSi4Const Model.MobAlloc.
Import ListNotations.
Open Scope Z_scope.

(* the CBCH channel description members of struct gsm48_sysinfo *)
Record cb := mkcb { cb_chan_nr : Z; cb_h : Z; cb_tsc : Z; cb_maio : Z; cb_hsn : Z; cb_arfcn : Z }.

(* SRet rc s c off left: return code, hopping state, channel description, and where data / payload_len stand at the rest octets *)
Inductive sres := SRet (rc : Z) (s : st) (c : cb) (off lft : Z) | SOOB.

(* cd = data + 1: cd->chan_nr = data[1]; the two bit-field octets data[2], data[3] *)
Definition chan_desc (d : list Z) (off : Z) (c : cb) : option cb :=
  match rd d (off + 1) with
  | None => None
  | Some b1 =>
      match rd d (off + 2) with
      | None => None
      | Some b2 =>
          match rd d (off + 3) with
          | None => None
          | Some b3 =>
              let h := Z.land (Z.shiftr b2 4) 1 in                              (* h0.h : bit 4 *)
              let tsc := Z.land (Z.shiftr b2 5) 7 in                            (* h0.tsc / h1.tsc : bits 7..5 *)
              if negb (h =? 0) then                                             (* gsm48_decode_chan_h1 *)
                Some (mkcb b1 h tsc (u8 (Z.lor (Z.land (Z.shiftr b3 6) 3) (Z.shiftl (Z.land b2 15) 2))) (Z.land b3 63) (cb_arfcn c))
              else                                                              (* gsm48_decode_chan_h0 *)
                Some (mkcb b1 h tsc (cb_maio c) (cb_hsn c) (Z.lor b3 (Z.shiftl (Z.land b2 3) 8)))
          end
      end
  end.

(* the 'CBCH Mobile Allocation' block and what follows *)
Definition ma_part (d : list Z) (si1 : Z) (s : st) (c : cb) (off plen : Z) : sres :=
  if 1 <=? plen then
    match rd d off with                                                        (* data[0] *)
    | None => SOOB
    | Some t =>
        if t =? c_IE_CBCH_MOB_AL then
          if plen <? 2 then SRet (- c_EIO) s c off plen                        (* payload_len < 2 || ... : goto short_read *)
          else
            match rd d (off + 1) with                                          (* data[1] *)
            | None => SOOB
            | Some l =>
                if plen <? 2 + l then SRet (- c_EIO) s c off plen              (* ... || payload_len < 2 + data[1] *)
                else if si1 =? 0 then SRet 0 s c (off + (2 + l)) (plen - (2 + l))
                else
                  match decode (s_freq s) (skipn (Z.to_nat (off + 2)) d) l (s_hop s) (s_hlen s) 1 with
                  | OOB => SOOB
                  | Ok _ s' => SRet 0 s' c (off + (2 + l)) (plen - (2 + l))    (* return code ignored *)
                  end
            end
        else SRet 0 s c off plen
    end
  else SRet 0 s c off plen.

Definition si4_tail (d : list Z) (si1 : Z) (s : st) (c : cb) : sres :=
  let plen := Zlength d in
  if 1 <=? plen then
    match rd d 0 with
    | None => SOOB
    | Some t =>
        if t =? c_IE_CBCH_CHAN_DESC then
          if plen <? 4 then SRet (- c_EIO) s c 0 plen
          else match chan_desc d 0 c with
               | None => SOOB
               | Some c' => ma_part d si1 s c' 4 (plen - 4)
               end
        else ma_part d si1 s c 0 plen
    end
  else ma_part d si1 s c 0 plen.

(* (2) gsm48_rr_render_ma, mobile-allocation branch; rc = 0 stands for 'goes on to the band conversion' *)
Definition render_ma (lv freq ma : list Z) (ma_len : Z) : res :=
  match rd lv 0 with
  | None => OOB
  | Some l =>
      if l =? 0 then Ok 0 (mkst freq ma ma_len)                               (* branch not taken *)
      else
        match decode freq (skipn 1 lv) l ma ma_len 0 with
        | OOB => OOB
        | Ok _ s' => if s_hlen s' <? 1 then Ok c_CAUSE_NO_CELL_ALLOC_A s' else Ok 0 s'
        end
  end.

(* ---------- specification side, literal numbers ---------- *)
Definition octets (l : list Z) : Prop := Forall (fun b => 0 <= b < 256) l.
(* what may stand in front of the Mobile Allocation IE: nothing, or the CBCH Channel Description IE (tag 0x64 = 100, three value octets) *)
Definition cd_ie (pre : list Z) : Prop := pre = [] \/ exists a b2 b3, pre = [100; a; b2; b3].
(* 3GPP TS 44.018 10.5.2.5 Channel Description: octet 2 = channel type / TN, octet 3 = TSC(3) H(1) then (H=0) spare(2) ARFCN high(2) /
   (H=1) MAIO high(4), octet 4 = (H=0) ARFCN low / (H=1) MAIO low(2) HSN(6) *)
Definition cd_fields (pre : list Z) (c : cb) : cb :=
  match pre with
  | [_; a; b2; b3] =>
      if (b2 / 16) mod 2 =? 1
      then mkcb a 1 (b2 / 32) (4 * (b2 mod 16) + b3 / 64) (b3 mod 64) (cb_arfcn c)
      else mkcb a 0 (b2 / 32) (cb_maio c) (cb_hsn c) (256 * (b2 mod 4) + b3)
  | _ => c
  end.

(* ---------- wire functions ----------
   w_c20_si4   : si1 hl0 hfill bg npay pay_0 .. pay_{npay-1} (idx mask)*      (table / hopping[] as in w_c20_decode)
                 the CBCH members start as chan_nr 201, h 202, tsc 203, maio 204, hsn 205, arfcn 60001
     observation: rc rest_off rest_len chan_nr h tsc maio hsn arfcn hopp_len hopping[0..63] (idx newmask)*  |  -998 (SOOB)
                 (rest_off rest_len: the arguments data - si->data, payload_len of the call of gsm48_decode_si4_rest; -1 -1 if not called)
   w_c20_render: hl0 hfill bg nlv lv_0 .. lv_{nlv-1} (idx mask)*              (nlv = c_MOB_ALLOC_LV_SIZE, the whole array)
     observation: rc hopp_len hopping[0..63] (idx newmask)*  |  -998 *)
Definition cb0 : cb := mkcb 201 202 203 204 205 60001.

Definition w_c20_si4 (a : list Z) : list Z :=
  match a with
  | si1 :: hl0 :: hfill :: bg :: npay :: rest =>
      if byte_ok hl0 && byte_ok bg && (0 <=? npay) && (npay <=? Zlength rest) && (0 <=? hfill) && (hfill <? 65536) then
        let pay := firstn (Z.to_nat npay) rest in
        let ps := skipn (Z.to_nat npay) rest in
        if forallb byte_ok pay then
          match build (Z.to_nat c_FREQ_TABLE_SIZE) 0 bg ps with
          | None => [-999]
          | Some freq =>
              let hop := map (fun k => (hfill + k) mod 65536) (range 0 c_HOPPING_SIZE) in
              match si4_tail pay si1 (mkst freq hop hl0) cb0 with
              | SRet rc s c off lft =>
                  (* if (payload_len > 0) gsm48_decode_si4_rest(s, data, payload_len): the arguments of the call, or -1 -1 *)
                  rc :: (if (rc =? 0) && (0 <? lft) then off else -1) :: (if (rc =? 0) && (0 <? lft) then lft else -1) :: cb_chan_nr c :: cb_h c :: cb_tsc c :: cb_maio c :: cb_hsn c :: cb_arfcn c ::
                  s_hlen s :: s_hop s ++ diff 0 freq (s_freq s)
              | SOOB => [-998]
              end
          end
        else [-999]
      else [-999]
  | _ => [-999]
  end.

Definition w_c20_render (a : list Z) : list Z :=
  match a with
  | hl0 :: hfill :: bg :: nlv :: rest =>
      if byte_ok hl0 && byte_ok bg && (nlv =? c_MOB_ALLOC_LV_SIZE) && (0 <=? nlv) && (nlv <=? Zlength rest) && (0 <=? hfill) && (hfill <? 65536) then
        let lv := firstn (Z.to_nat nlv) rest in
        let ps := skipn (Z.to_nat nlv) rest in
        if forallb byte_ok lv then
          match build (Z.to_nat c_FREQ_TABLE_SIZE) 0 bg ps with
          | None => [-999]
          | Some freq =>
              let hop := map (fun k => (hfill + k) mod 65536) (range 0 c_HOPPING_SIZE) in
              match render_ma lv freq hop hl0 with
              | Ok rc s => rc :: s_hlen s :: s_hop s ++ diff 0 freq (s_freq s)
              | OOB => [-998]
              end
          end
        else [-999]
      else [-999]
  | _ => [-999]
  end.
