(* Model of the declarative codec (C16; reused by C17).
   mirrors: src/target/trx_toolkit/codec.py
     Field.from_bytes / Field.to_bytes (presence, length, "Short read", "Field length mismatch"),
     Buf, Spare, Uint/Int (_from_bytes / _to_bytes with offset and mult, int.from_bytes / int.to_bytes),
     BitFieldSet.__init__ (order reversal, length, offset/mask derivation), BitField.enc_val / dec_val,
     BitFieldSet._from_bytes / _to_bytes, Envelope._from_bytes / _to_bytes (error wrapping, tail check),
     Envelope.F, Sequence.from_bytes / to_bytes, Sequence.F.

   Protocol definitions are a deep embedding (`field`); callbacks are table shaped:
     get_len  :  LFix n  (len=n; n = 0 is Python's "flexible": the whole remaining buffer)
              |  LRest   (len=0)
              |  LTab key tab       lambda v, _: TAB[v[key]]              (TAB a dict int -> int)
              |  LDataLen thr a b   lambda _, data: a if len(data) > thr else b
     get_pres :  PAlways | PTab key tab   lambda v: TAB[v[key]]          (TAB a dict int -> bool)
   Values are typed: VInt | VBytes | VDict | VList; a dict is an association list in insertion order
   (`eset` = Python `d[k] = v`: replace in place or append).

   Results: Ok | DecodeErr c | EncodeErr c | OutOfFuel | Crash c.
     DecodeErr / EncodeErr are the codec's own exceptions; c is the root cause of the `raise ... from e` chain:
       0 the codec's own check, 1 KeyError, 2 OverflowError, 3 TypeError (ill-typed value, outside the typed
       domain: not claimed faithful), 4 ZeroDivisionError.
     Crash c is a foreign Python exception (same codes) escaping a field-level method; Envelope wraps them
     (`except Exception as e: raise DecodeError(...) from e`), so at the Envelope API only Crash 9 remains:
     ProtocolError, raised when the definition is constructed (bit-field set overflow, bit length < 1).
     OutOfFuel: only produced by a Sequence item that consumes no octet - the Python `while offset < length`
     loop does not terminate on such input.

   Octet strings are `list Z` (elements 0..255, checked by the wire functions). *)
From Coq Require Import ZArith List Bool.
Import ListNotations.
Open Scope Z_scope.

Inductive res (A:Type) := Ok (a:A) | DecodeErr (c:Z) | EncodeErr (c:Z) | OutOfFuel | Crash (c:Z).
Arguments Ok {A}. Arguments DecodeErr {A}. Arguments EncodeErr {A}. Arguments OutOfFuel {A}. Arguments Crash {A}.
Definition bind {A B} (r:res A) (f:A -> res B) : res B :=
  match r with Ok a => f a | DecodeErr c => DecodeErr c | EncodeErr c => EncodeErr c | OutOfFuel => OutOfFuel | Crash c => Crash c end.
Notation "x <- a ;; b" := (bind a (fun x => b)) (at level 61, a at next level, right associativity).

(* `except Exception as e: raise DecodeError(self, f, offset) from e` / `raise EncodeError(self, f) from e` *)
Definition wrapD {A} (r:res A) : res A :=
  match r with Ok a => Ok a | OutOfFuel => OutOfFuel | DecodeErr c => DecodeErr c | EncodeErr c => DecodeErr c | Crash c => DecodeErr c end.
Definition wrapE {A} (r:res A) : res A :=
  match r with Ok a => Ok a | OutOfFuel => OutOfFuel | DecodeErr c => EncodeErr c | EncodeErr c => EncodeErr c | Crash c => EncodeErr c end.

(* ---------------------------------------------------------------- definitions and values *)
Inductive lensrc := LFix (n:nat) | LRest | LTab (key:nat) (tab:list (Z*nat)) | LDataLen (thr a b:nat).
Inductive pressrc := PAlways | PTab (key:nat) (tab:list (Z*bool)).
(* BitField(name, bl, val=fixed) ; name = None is BitField.Spare(bl) *)
Inductive bitf := BitF (name:option nat) (bl:nat) (fixed:option Z).
Inductive field :=
 | FUint (nm:nat) (l:lensrc) (p:pressrc) (le sg:bool) (off mult:Z)   (* Uint/Int: BO = 'little' iff le, SIGN = sg *)
 | FBuf (nm:nat) (l:lensrc) (p:pressrc)
 | FSpare (l:lensrc) (p:pressrc) (filler:Z)                           (* one-octet filler *)
 | FBits (l:lensrc) (p:pressrc) (lsb:bool) (bfs:list bitf)            (* l = LFix (S n): len=n given; otherwise computed *)
 | FEnv (nm:nat) (l:lensrc) (p:pressrc) (chk:bool) (body:list field)  (* Envelope(check_len=chk).f(name, ...) *)
 | FSeq (nm:nat) (l:lensrc) (p:pressrc) (item:list field).            (* Sequence(item=Envelope()).f(name, ...) *)
Inductive val := VInt (z:Z) | VBytes (b:list Z) | VDict (d:list (nat*val)) | VList (l:list val).
Definition env := list (nat*val).

Definition flen (f:field) : lensrc :=
  match f with FUint _ l _ _ _ _ _ | FBuf _ l _ | FSpare l _ _ | FBits l _ _ _ | FEnv _ l _ _ _ | FSeq _ l _ _ => l end.
Definition fpres (f:field) : pressrc :=
  match f with FUint _ _ p _ _ _ _ | FBuf _ _ p | FSpare _ p _ | FBits _ p _ _ | FEnv _ _ p _ _ | FSeq _ _ p _ => p end.

Fixpoint lookup (k:nat) (e:env) : option val :=
  match e with [] => None | (k',v)::r => if Nat.eqb k k' then Some v else lookup k r end.
(* d[k] = v *)
Fixpoint eset (k:nat) (v:val) (e:env) : env :=
  match e with [] => [(k,v)] | (k',v')::r => if Nat.eqb k k' then (k,v)::r else (k',v') :: eset k v r end.
Fixpoint assocZ {A} (z:Z) (t:list (Z*A)) : option A :=
  match t with [] => None | (k,a)::r => if z =? k then Some a else assocZ z r end.

(* TAB[v[key]] *)
Definition tab_get {A B} (k:nat) (t:list (Z*A)) (e:env) (f:A -> res B) : res B :=
  match lookup k e with
  | None => Crash 1
  | Some (VInt z) => match assocZ z t with Some a => f a | None => Crash 1 end
  | Some (VBytes _) => Crash 1   (* hashable, never a key of TAB *)
  | Some _ => Crash 3            (* unhashable *)
  end.

(* self.get_len(vals, data): depends on data through len(data) only *)
Definition get_len (l:lensrc) (e:env) (dlen:nat) : res nat :=
  match l with
  | LFix O => Ok dlen
  | LFix n => Ok n
  | LRest => Ok dlen
  | LTab k t => tab_get k t e (fun n => Ok n)
  | LDataLen thr a b => Ok (if Nat.ltb thr dlen then a else b)
  end.
(* self.len *)
Definition fixlen (l:lensrc) : nat := match l with LFix n => n | _ => O end.
Definition get_pres (p:pressrc) (e:env) : res bool :=
  match p with PAlways => Ok true | PTab k t => tab_get k t e (fun b => Ok b) end.

(* ---------------------------------------------------------------- integers *)
(* n-octet big-endian unsigned *)
Fixpoint to_be (n:nat) (x:Z) : list Z := match n with O => [] | S k => to_be k (x / 256) ++ [x mod 256] end.
Definition from_be (l:list Z) : Z := fold_left (fun acc b => acc * 256 + b) l 0.
(* int.to_bytes(n, byteorder, signed=sg): OverflowError outside the representable range *)
Definition enc_int (n:nat) (le sg:bool) (x:Z) : res (list Z) :=
  let m := 256 ^ Z.of_nat n in
  let ok := match n with
            | O => (x =? 0) || (sg && (x =? -1))
            | _ => if sg then (- (m / 2) <=? x) && (x <? m / 2) else (0 <=? x) && (x <? m)
            end in
  if ok then let b := to_be n (x mod m) in Ok (if le then rev b else b) else Crash 2.
(* int.from_bytes(data, byteorder, signed=sg) *)
Definition dec_int (le sg:bool) (l:list Z) : Z :=
  match l with [] => 0 | _ =>
  let u := from_be (if le then rev l else l) in let m := 256 ^ Z.of_nat (length l) in
  if sg && (m / 2 <=? u) then u - m else u end.

(* ---------------------------------------------------------------- bit-field sets *)
Definition bits_total (fs:list bitf) : nat := fold_right (fun f a => match f with BitF _ bl _ => bl + a end)%nat O fs.
(* self.len after BitFieldSet.__init__ *)
Definition bits_len (l:lensrc) (bfs:list bitf) : nat :=
  match l with LFix (S n) => S n | _ => Nat.div (bits_total bfs + 7) 8 end.
(* LSB first is basically reversed order *)
Definition bits_order (lsb:bool) (bfs:list bitf) : list bitf := if lsb then rev bfs else bfs.
(* pre-calculated offset and mask of each field, in processing order, starting from offset = len * 8 *)
Fixpoint layout (fs:list bitf) (off:Z) : list (bitf * Z * Z) :=
  match fs with [] => []
  | BitF nm bl fx :: r => let o := off - Z.of_nat bl in (BitF nm bl fx, o, 2 ^ Z.of_nat bl - 1) :: layout r o end.
Definition bits_layout (l:lensrc) (lsb:bool) (bfs:list bitf) : list (bitf * Z * Z) :=
  layout (bits_order lsb bfs) (8 * Z.of_nat (bits_len l bfs)).
(* the value a field contributes in enc_val *)
Definition bf_val (f:bitf) (e:env) : res Z :=
  match f with BitF nm _ fx =>
    match nm with
    | None => Ok 0
    | Some k => match fx with
                | Some c => Ok c
                | None => match lookup k e with None => Crash 1 | Some (VInt z) => Ok z | Some _ => Crash 3 end
                end
    end end.
(* blob = 0; for f in fields: blob |= (val & f.mask) << f.offset *)
Fixpoint enc_bits (lay:list (bitf*Z*Z)) (e:env) (blob:Z) : res Z :=
  match lay with [] => Ok blob
  | (f,o,m) :: r => v <- bf_val f e ;; enc_bits r e (Z.lor blob (Z.shiftl (Z.land v m) o)) end.
(* for f in fields: vals[f.name] = (blob >> f.offset) & f.mask; fixed value check *)
Fixpoint dec_bits (lay:list (bitf*Z*Z)) (blob:Z) (e:env) : res env :=
  match lay with [] => Ok e
  | (BitF nm _ fx, o, m) :: r =>
      match nm with
      | None => dec_bits r blob e
      | Some k => let v := Z.land (Z.shiftr blob o) m in
                  let e' := eset k (VInt v) e in
                  match fx with
                  | Some c => if v =? c then dec_bits r blob e' else DecodeErr 0
                  | None => dec_bits r blob e'
                  end
      end end.

(* length seen by Field.from_bytes: BitFieldSet re-defines get_len to its constant length *)
Definition get_len_f (f:field) (e:env) (dlen:nat) : res nat :=
  match f with FBits l _ _ bfs => Ok (bits_len l bfs) | _ => get_len (flen f) e dlen end.
(* self.len seen by Field.to_bytes *)
Definition fixlen_f (f:field) : nat :=
  match f with FBits l _ _ bfs => bits_len l bfs | _ => fixlen (flen f) end.

(* ---------------------------------------------------------------- decoding *)
(* the subclass hook _from_bytes(vals, data[:length]); recd / recs are the decoders of nested envelopes / sequences *)
Definition dec_payload (recd:list field -> env -> list Z -> res (env * nat)) (recs:list field -> list Z -> res (list val))
    (f:field) (e:env) (d:list Z) : res env :=
  match f with
  | FUint nm _ _ le sg off mult => Ok (eset nm (VInt (dec_int le sg d * mult + off)) e)
  | FBuf nm _ _ => Ok (eset nm (VBytes d) e)
  | FSpare _ _ _ => Ok e
  | FBits l _ lsb bfs => dec_bits (bits_layout l lsb bfs) (from_be d) e
  | FEnv nm _ _ chk body =>
      (* vals[name] = {}; self.e._from_bytes(vals[name], data): try/except wrapping, then the tail check *)
      r <- wrapD (recd body [] d) ;;
      if chk && negb (Nat.eqb (length d) (snd r)) then DecodeErr 0 (* Unhandled tail octets *)
      else Ok (eset nm (VDict (fst r)) e)
  | FSeq nm _ _ item => vs <- recs item d ;; Ok (eset nm (VList vs) e)
  end.
(* Field.from_bytes(vals, data) -> (vals, length) *)
Definition dec_field (recd:list field -> env -> list Z -> res (env * nat)) (recs:list field -> list Z -> res (list val))
    (f:field) (e:env) (data:list Z) : res (env * nat) :=
  pr <- get_pres (fpres f) e ;;
  if negb pr then Ok (e, O) else
  n <- get_len_f f e (length data) ;;
  if Nat.ltb (length data) n then DecodeErr 0 (* Short read *) else
  e' <- dec_payload recd recs f e (firstn n data) ;; Ok (e', n).

(* dec fuel fs e data = the loop of Envelope._from_bytes over STRUCT: offset += f.from_bytes(vals, data[offset:])
   (without the try/except and the tail check): returns the updated dict and the offset.
   Fuel is depth-like plus one unit per sequence item. *)
Fixpoint dec (fuel:nat) (fs:list field) (e:env) (data:list Z) {struct fuel} : res (env * nat) :=
  match fuel with O => OutOfFuel | S k =>
  match fs with [] => Ok (e, O)
  | f :: fs' =>
    r1 <- dec_field (dec k) (dec_seq k) f e data ;;
    r <- dec k fs' (fst r1) (skipn (snd r1) data) ;; Ok (fst r, (snd r1 + snd r)%nat)
  end end
(* Sequence.from_bytes: while offset < length: item._from_bytes({}, data[offset:]) with check_len = False *)
with dec_seq (fuel:nat) (item:list field) (data:list Z) {struct fuel} : res (list val) :=
  match fuel with O => OutOfFuel | S k =>
  match data with [] => Ok []
  | _ => r <- wrapD (dec k item [] data) ;;
         match snd r with
         | O => OutOfFuel (* the Python loop does not terminate *)
         | used => vs <- dec_seq k item (skipn used data) ;; Ok (VDict (fst r) :: vs)
         end
  end end.

(* ---------------------------------------------------------------- encoding *)
(* Sequence.to_bytes: b''.join([item._to_bytes(v) for v in vseq]) *)
Fixpoint enc_items (g:env -> res (list Z)) (vs:list val) : res (list Z) :=
  match vs with [] => Ok []
  | VDict d :: r => b <- wrapE (g d) ;; bs <- enc_items g r ;; Ok (b ++ bs)
  | _ :: _ => Crash 3
  end.
(* the subclass hook _to_bytes(vals); rec is the encoder of nested envelopes / sequence items *)
Definition enc_payload (rec:list field -> env -> res (list Z)) (f:field) (e:env) : res (list Z) :=
  match f with
  | FUint nm l _ le sg off mult =>
      match lookup nm e with
      | None => Crash 1
      | Some (VInt z) => if mult =? 0 then Crash 4 else enc_int (fixlen l) le sg ((z - off) / mult)
      | Some _ => Crash 3
      end
  | FBuf nm _ _ => match lookup nm e with None => Crash 1 | Some (VBytes b) => Ok b | Some _ => Crash 3 end
  | FSpare l _ filler => n <- get_len l e O ;; Ok (repeat filler n)
  | FBits l _ lsb bfs => blob <- enc_bits (bits_layout l lsb bfs) e 0 ;; enc_int (bits_len l bfs) false false blob
  | FEnv nm _ _ _ body =>
      match lookup nm e with None => Crash 1 | Some (VDict d) => wrapE (rec body d) | Some _ => Crash 3 end
  | FSeq nm _ _ item =>
      match lookup nm e with None => Crash 1 | Some (VList vs) => enc_items (rec item) vs | Some _ => Crash 3 end
  end.
(* Field.to_bytes(vals) *)
Definition enc_field (rec:list field -> env -> res (list Z)) (f:field) (e:env) : res (list Z) :=
  pr <- get_pres (fpres f) e ;;
  if negb pr then Ok [] else
  data <- enc_payload rec f e ;;
  match fixlen_f f with
  | O => Ok data
  | n => if Nat.eqb (length data) n then Ok data else EncodeErr 0 (* Field length mismatch *)
  end.

(* enc fuel fs e = Envelope._to_bytes: b''.join([proc(f) for f in STRUCT]); proc wraps every exception *)
Fixpoint enc (fuel:nat) (fs:list field) (e:env) {struct fuel} : res (list Z) :=
  match fuel with O => OutOfFuel | S k =>
  match fs with [] => Ok []
  | f :: fs' => here <- wrapE (enc_field (enc k) f e) ;; rest <- enc k fs' e ;; Ok (here ++ rest)
  end end.

(* ---------------------------------------------------------------- the Envelope API *)
Fixpoint fsize (f:field) : nat :=
  match f with
  | FEnv _ _ _ _ body => S (fold_right (fun x a => fsize x + a)%nat O body)
  | FSeq _ _ _ item => S (S (fold_right (fun x a => fsize x + a)%nat O item))
  | _ => 1%nat end.
Definition lsize (fs:list field) : nat := fold_right (fun x a => fsize x + a)%nat O fs.

(* definitions the constructors reject with ProtocolError: BitField(bl < 1), BitFieldSet overflow *)
Fixpoint bits_proto_ok (lay:list (bitf*Z*Z)) : bool :=
  match lay with [] => true
  | (BitF nm bl _, o, _) :: r => (0 <=? o) && (match nm with Some _ => Nat.leb 1 bl | None => true end) && bits_proto_ok r end.
Fixpoint proto_ok_f (f:field) : bool :=
  match f with
  | FBits l _ lsb bfs => bits_proto_ok (bits_layout l lsb bfs)
  | FEnv _ _ _ _ body => forallb proto_ok_f body
  | FSeq _ _ _ item => forallb proto_ok_f item
  | _ => true end.
Definition proto_ok (fs:list field) : bool := forallb proto_ok_f fs.

(* ---------------------------------------------------------------- well-formed definitions (static, executable)
   names of one envelope level are distinct (bit-field names included); integers have a fixed width >= 1 and a
   non-zero multiplier; a spare has a length that does not depend on the buffer (fixed or table); a bit-field set
   fits its length and fixed values fit their width; a nested envelope checks its length. *)
Definition bf_names (bfs:list bitf) : list nat :=
  flat_map (fun f => match f with BitF (Some k) _ _ => [k] | _ => [] end) bfs.
Definition fnames (f:field) : list nat :=
  match f with
  | FUint nm _ _ _ _ _ _ | FBuf nm _ _ | FEnv nm _ _ _ _ | FSeq nm _ _ _ => [nm]
  | FSpare _ _ _ => []
  | FBits _ _ _ bfs => bf_names bfs
  end.
Definition lnames (fs:list field) : list nat := flat_map fnames fs.
Fixpoint nodupb (l:list nat) : bool :=
  match l with [] => true | x :: r => negb (existsb (Nat.eqb x) r) && nodupb r end.
Definition spare_len_ok (l:lensrc) : bool := match l with LFix (S _) => true | LTab _ _ => true | _ => false end.
Definition fixed_ok (f:bitf) : bool :=
  match f with BitF (Some _) bl (Some c) => (0 <=? c) && (c <? 2 ^ Z.of_nat bl) | _ => true end.
Fixpoint wfb_f (f:field) : bool :=
  match f with
  | FUint _ l _ _ _ _ mult => (match l with LFix (S _) => true | _ => false end) && negb (mult =? 0)
  | FBuf _ _ _ => true
  | FSpare l _ filler => spare_len_ok l && (0 <=? filler) && (filler <? 256)
  | FBits l _ _ bfs => Nat.leb 1 (bits_len l bfs) && Nat.leb (bits_total bfs) (8 * bits_len l bfs) && forallb fixed_ok bfs
  | FEnv _ _ _ chk body => chk && nodupb (flat_map fnames body) && forallb wfb_f body
  | FSeq _ _ _ item => nodupb (flat_map fnames item) && forallb wfb_f item
  end.
Definition wfb (fs:list field) : bool := nodupb (lnames fs) && forallb wfb_f fs.

(* a field that is always present and has a fixed length >= 1: decoding it consumes at least one octet *)
Definition cons_f (f:field) : bool :=
  match f with
  | FBits l PAlways _ bfs => Nat.leb 1 (bits_len l bfs)
  | FUint _ (LFix (S _)) PAlways _ _ _ _ | FBuf _ (LFix (S _)) PAlways | FSpare (LFix (S _)) PAlways _
  | FEnv _ (LFix (S _)) PAlways _ _ | FSeq _ (LFix (S _)) PAlways _ => true
  | _ => false
  end.
Definition consumes (fs:list field) : bool := existsb cons_f fs.
(* every sequence item (at any depth) consumes at least one octet: the condition under which Sequence.from_bytes terminates *)
Fixpoint seq_ok_f (f:field) : bool :=
  match f with
  | FEnv _ _ _ _ body => forallb seq_ok_f body
  | FSeq _ _ _ item => consumes item && forallb seq_ok_f item
  | _ => true
  end.
Definition seq_ok (fs:list field) : bool := forallb seq_ok_f fs.
(* the number of octets of a definition without optional / variable-length fields at its top level *)
Definition static_len_f (f:field) : option nat :=
  match f with
  | FBits l PAlways _ bfs => Some (bits_len l bfs)
  | FUint _ (LFix (S n)) PAlways _ _ _ _ | FBuf _ (LFix (S n)) PAlways | FSpare (LFix (S n)) PAlways _
  | FEnv _ (LFix (S n)) PAlways _ _ | FSeq _ (LFix (S n)) PAlways _ => Some (S n)
  | _ => None
  end.
Fixpoint static_len (fs:list field) : option nat :=
  match fs with [] => Some O
  | f :: r => match static_len_f f, static_len r with Some a, Some b => Some (a + b)%nat | _, _ => None end end.

(* definitions in which the decoder looks at every bit it consumes: no spare octets, no spare bit-fields, no padding bits *)
Fixpoint spare_free_f (f:field) : bool :=
  match f with
  | FSpare _ _ _ => false
  | FBits l _ _ bfs => forallb (fun b => match b with BitF (Some _) _ _ => true | _ => false end) bfs
                       && Nat.eqb (bits_total bfs) (8 * bits_len l bfs)
  | FEnv _ _ _ _ body => forallb spare_free_f body
  | FSeq _ _ _ item => forallb spare_free_f item
  | _ => true
  end.
Definition spare_free (fs:list field) : bool := forallb spare_free_f fs.

Definition dec_fuel (fs:list field) (data:list Z) : nat := S (lsize fs + length data).
Definition enc_fuel (fs:list field) : nat := S (lsize fs).

(* Envelope(check_len=chk).from_bytes(data) -> (self.c, offset) *)
Definition decode (chk:bool) (fs:list field) (data:list Z) : res (env * nat) :=
  if proto_ok fs then
    r <- wrapD (dec (dec_fuel fs data) fs [] data) ;;
    if chk && negb (Nat.eqb (length data) (snd r)) then DecodeErr 0 else Ok r
  else Crash 9.
(* Envelope.to_bytes() with self.c = e *)
Definition encode (fs:list field) (e:env) : res (list Z) :=
  if proto_ok fs then wrapE (enc (enc_fuel fs) fs e) else Crash 9.

(* ---------------------------------------------------------------- wire format (flat int lists)
   BIG    := sign nlimbs limb...                     little endian limbs, base 2^30 (the line driver has 63-bit ints)
   lensrc := 0 n | 1 | 2 key cnt {BIG n}... | 3 thr a b
   pressrc:= 0 | 1 key cnt {BIG b}...
   bitf   := hasname name bl hasfixed [BIG]          (BIG present iff hasfixed = 1)
   field  := 0 nm lensrc pressrc le sg BIG(off) BIG(mult) | 1 nm lensrc pressrc | 2 lensrc pressrc filler
           | 3 lensrc pressrc lsb cnt bitf... | 4 nm lensrc pressrc chk cnt field... | 5 nm lensrc pressrc cnt field...
   fields := cnt field...
   val    := 0 BIG | 1 cnt octet... | 2 cnt {name val}... | 3 cnt val...
   w_c16_enc : fields, cnt {name val}...   gives   0 0 len octet...             or   status cause
   w_c16_dec : chk, fields, cnt octet...   gives   0 0 used val-of-the-dict     or   status cause
   w_c16_wf  : fields                      gives   [1] if the definition is well-formed (wfb), [0] otherwise
   status: 0 Ok, 1 DecodeErr, 2 EncodeErr, 3 OutOfFuel, 4 Crash ; malformed arguments give [-999] *)
Definition P (A:Type) := list Z -> option (A * list Z).
Definition pret {A} (a:A) : P A := fun s => Some (a, s).
Definition pbind {A B} (p:P A) (f:A -> P B) : P B := fun s => match p s with None => None | Some (a, r) => f a r end.
Notation "x <~ a ;;; b" := (pbind a (fun x => b)) (at level 61, a at next level, right associativity).
Definition pfail {A} : P A := fun _ => None.
Definition p_z : P Z := fun s => match s with x :: r => Some (x, r) | [] => None end.
Definition p_nat : P nat := x <~ p_z ;;; if x <? 0 then pfail else pret (Z.to_nat x).
Definition p_bool : P bool := x <~ p_z ;;; if x =? 0 then pret false else if x =? 1 then pret true else pfail.
Definition p_octet : P Z := x <~ p_z ;;; if (0 <=? x) && (x <? 256) then pret x else pfail.
Fixpoint p_rep {A} (p:P A) (n:nat) : P (list A) :=
  match n with O => pret [] | S k => a <~ p ;;; l <~ p_rep p k ;;; pret (a :: l) end.
Definition p_list {A} (p:P A) : P (list A) := n <~ p_nat ;;; p_rep p n.
Definition limb_base : Z := 1073741824.
Definition p_limb : P Z := x <~ p_z ;;; if (0 <=? x) && (x <? limb_base) then pret x else pfail.
Definition p_big : P Z :=
  sg <~ p_bool ;;; ls <~ p_list p_limb ;;;
  let m := fold_right (fun l acc => l + limb_base * acc) 0 ls in pret (if sg then - m else m).
Definition p_pair {A B} (pa:P A) (pb:P B) : P (A*B) := a <~ pa ;;; b <~ pb ;;; pret (a, b).
Definition p_lensrc : P lensrc :=
  t <~ p_z ;;;
  if t =? 0 then n <~ p_nat ;;; pret (LFix n)
  else if t =? 1 then pret LRest
  else if t =? 2 then k <~ p_nat ;;; tb <~ p_list (p_pair p_big p_nat) ;;; pret (LTab k tb)
  else if t =? 3 then thr <~ p_nat ;;; a <~ p_nat ;;; b <~ p_nat ;;; pret (LDataLen thr a b)
  else pfail.
Definition p_pressrc : P pressrc :=
  t <~ p_z ;;;
  if t =? 0 then pret PAlways
  else if t =? 1 then k <~ p_nat ;;; tb <~ p_list (p_pair p_big p_bool) ;;; pret (PTab k tb)
  else pfail.
Definition p_bitf : P bitf :=
  hn <~ p_bool ;;; nm <~ p_nat ;;; bl <~ p_nat ;;; hf <~ p_bool ;;;
  if hf then c <~ p_big ;;; pret (BitF (if hn then Some nm else None) bl (Some c))
  else pret (BitF (if hn then Some nm else None) bl None).
Fixpoint p_field (fuel:nat) : P field :=
  match fuel with O => pfail | S k =>
  t <~ p_z ;;;
  if t =? 0 then nm <~ p_nat ;;; l <~ p_lensrc ;;; p <~ p_pressrc ;;; le <~ p_bool ;;; sg <~ p_bool ;;; off <~ p_big ;;; mult <~ p_big ;;;
                 pret (FUint nm l p le sg off mult)
  else if t =? 1 then nm <~ p_nat ;;; l <~ p_lensrc ;;; p <~ p_pressrc ;;; pret (FBuf nm l p)
  else if t =? 2 then l <~ p_lensrc ;;; p <~ p_pressrc ;;; fl <~ p_octet ;;; pret (FSpare l p fl)
  else if t =? 3 then l <~ p_lensrc ;;; p <~ p_pressrc ;;; lsb <~ p_bool ;;; bfs <~ p_list p_bitf ;;; pret (FBits l p lsb bfs)
  else if t =? 4 then nm <~ p_nat ;;; l <~ p_lensrc ;;; p <~ p_pressrc ;;; chk <~ p_bool ;;; body <~ p_list (p_field k) ;;;
                      pret (FEnv nm l p chk body)
  else if t =? 5 then nm <~ p_nat ;;; l <~ p_lensrc ;;; p <~ p_pressrc ;;; item <~ p_list (p_field k) ;;; pret (FSeq nm l p item)
  else pfail end.
Fixpoint p_val (fuel:nat) : P val :=
  match fuel with O => pfail | S k =>
  t <~ p_z ;;;
  if t =? 0 then z <~ p_big ;;; pret (VInt z)
  else if t =? 1 then b <~ p_list p_octet ;;; pret (VBytes b)
  else if t =? 2 then d <~ p_list (p_pair p_nat (p_val k)) ;;; pret (VDict d)
  else if t =? 3 then l <~ p_list (p_val k) ;;; pret (VList l)
  else pfail end.

Fixpoint limbs (fuel:nat) (x:Z) : list Z :=
  match fuel with O => [] | S k => if x =? 0 then [] else (x mod limb_base) :: limbs k (x / limb_base) end.
Definition ser_big (z:Z) : list Z :=
  let ls := limbs (S (Z.to_nat (Z.log2 (Z.abs z)))) (Z.abs z) in
  (if z <? 0 then 1 else 0) :: Z.of_nat (length ls) :: ls.
Fixpoint ser_val (v:val) : list Z :=
  match v with
  | VInt z => 0 :: ser_big z
  | VBytes b => 1 :: Z.of_nat (length b) :: b
  | VDict d => 2 :: Z.of_nat (length d) ::
      (fix go (d:list (nat*val)) : list Z := match d with [] => [] | (k,x)::r => Z.of_nat k :: ser_val x ++ go r end) d
  | VList l => 3 :: Z.of_nat (length l) ::
      (fix go (l:list val) : list Z := match l with [] => [] | x::r => ser_val x ++ go r end) l
  end.
Definition ser_res {A} (r:res A) (f:A -> list Z) : list Z :=
  match r with Ok a => 0 :: 0 :: f a | DecodeErr c => [1; c] | EncodeErr c => [2; c] | OutOfFuel => [3; 0] | Crash c => [4; c] end.

Definition w_c16_enc (a:list Z) : list Z :=
  let fuel := S (length a) in
  match (fs <~ p_list (p_field fuel) ;;; e <~ p_list (p_pair p_nat (p_val fuel)) ;;; pret (fs, e)) a with
  | Some ((fs, e), []) => ser_res (encode fs e) (fun b => Z.of_nat (length b) :: b)
  | _ => [-999] end.
Definition w_c16_dec (a:list Z) : list Z :=
  let fuel := S (length a) in
  match (chk <~ p_bool ;;; fs <~ p_list (p_field fuel) ;;; d <~ p_list p_octet ;;; pret (chk, fs, d)) a with
  | Some ((chk, fs, d), []) => ser_res (decode chk fs d) (fun r => Z.of_nat (snd r) :: ser_val (VDict (fst r)))
  | _ => [-999] end.
Definition w_c16_wf (a:list Z) : list Z :=
  match p_list (p_field (S (length a))) a with
  | Some (fs, []) => [if wfb fs then 1 else 0]
  | _ => [-999] end.
