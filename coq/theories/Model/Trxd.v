(* Model of the TRXD message codec, trx_toolkit/data_msg.py (C01 C04 C13 C14 C15 C17).
   mirrors: Modulation.pick/pick_by_bl, Msg.validate/gen_msg/parse_msg, TxMsg.validate/append_hdr_to/parse_hdr/
   append_burst_to/parse_burst, RxMsg.validate/validate_burst/gen_mts/parse_mts/append_hdr_to/parse_hdr/
   append_burst_to/_parse_burst_v0/parse_burst, Msg.sbit2usbit/usbit2sbit (256-entry translate tables from Gen),
   DATAInterface.send_msg.
   Python None = option; ValueError = VErr; any other exception (IndexError, struct.error, AttributeError, ...)
   = Crash.  Octet strings and bursts are list Z.  Tx bursts are bytearrays (0..255), Rx bursts array('b') (-128..127). *)
From Coq Require Import ZArith List Bool.
From OBB Require Import Gen.TrxdConst.
Import ListNotations.
Open Scope Z_scope.

Inductive res (A : Type) := Ok (a : A) | VErr | Crash.
Arguments Ok {A}. Arguments VErr {A}. Arguments Crash {A}.
Definition bind {A B} (r : res A) (f : A -> res B) : res B :=
  match r with Ok a => f a | VErr => VErr | Crash => Crash end.
Notation "x <- a ;; b" := (bind a (fun x => b)) (at level 61, a at next level, right associativity).

(* ---------- octet helpers (struct.pack/unpack) ---------- *)
Definition be32 (x : Z) : list Z := [x / 16777216 mod 256; x / 65536 mod 256; x / 256 mod 256; x mod 256].
Definition un_be32 (l : list Z) : res Z :=
  match l with [a; b; c; d] => Ok (((a * 256 + b) * 256 + c) * 256 + d) | _ => Crash end.
Definition i16 (x : Z) : list Z := let u := x mod 65536 in [u / 256; u mod 256].
Definition un_i16 (l : list Z) : res Z :=
  match l with [a; b] => let u := a * 256 + b in Ok (if u <? 32768 then u else u - 65536) | _ => Crash end.
Definition idx (l : list Z) (i : nat) : res Z := match nth_error l i with Some x => Ok x | None => Crash end.
Definition slice (l : list Z) (a b : nat) : list Z := firstn (b - a) (skipn a l).

(* bytes.translate through a 256-entry table; the index is the unsigned view of the octet *)
Definition tr (tab : list Z) (x : Z) : Z := nth (Z.to_nat (x mod 256)) tab 0.
Definition s2us (s : Z) : Z := tr tab_sbit2usbit s.       (* Msg.sbit2usbit, element-wise *)
Definition us2s (b : Z) : Z := tr tab_usbit2sbit b.       (* Msg.usbit2sbit *)
Definition u2s (b : Z) : Z := tr tab_ubit2sbit b.         (* Msg.ubit2sbit *)
Definition s2u (s : Z) : Z := tr tab_sbit2ubit s.         (* Msg.sbit2ubit *)

(* ---------- Modulation (members in definition order, from Gen) ---------- *)
Fixpoint find_idx {A} (p : A -> bool) (l : list A) (i : nat) : option nat :=
  match l with [] => None | x :: r => if p x then Some i else find_idx p r (S i) end.
Definition pick (coding : Z) := find_idx (fun m => fst m =? coding) mods 0.
Definition pick_by_bl (bl : Z) := find_idx (fun m => snd m =? bl) mods 0.
Definition mod_coding (i : nat) := fst (nth i mods (0, 0)).
Definition mod_bl (i : nat) := snd (nth i mods (0, 0)).
Definition GMSK_IDX := 0%nat.

Definition known (v : Z) : bool := existsb (Z.eqb v) known_versions.

Definition in_rng (lo hi : Z) (o : option Z) : res unit :=
  match o with None => VErr | Some x => if (x <? lo) || (x >? hi) then VErr else Ok tt end.
Definition oz (o : option Z) := match o with Some x => x | None => 0 end.

(* Msg.validate: version, FN, TN.  ('fn < 0 or fn >= GSM_HYPERFRAME') *)
Definition validate_common (ver : Z) (fn tn : option Z) : res unit :=
  if negb (known ver) then VErr else
  _ <- in_rng 0 (gsm_hyperframe - 1) fn ;;
  in_rng 0 7 tn.

(* ---------- TxMsg ---------- *)
Record txmsg := { t_ver : Z; t_fn : option Z; t_tn : option Z; t_pwr : option Z; t_burst : option (list Z) }.

Definition tx_hdr_len (ver : Z) : res nat := if (ver =? 0) || (ver =? 1) then Ok 6%nat else Crash.

Definition validate_tx (m : txmsg) : res unit :=
  _ <- validate_common (t_ver m) (t_fn m) (t_tn m) ;;
  _ <- in_rng pwr_min pwr_max (t_pwr m) ;;
  match t_burst m with
  | None => VErr
  | Some b => let l := Z.of_nat (length b) in if (l =? gmsk_burst_len) || (l =? edge_burst_len) then Ok tt else VErr
  end.

Definition gen_common (ver : Z) (fn tn : option Z) : list Z :=
  [Z.lor (Z.shiftl ver 4) (Z.land (oz tn) 7)] ++ be32 (oz fn).

Definition gen_tx (legacy : bool) (m : txmsg) : res (list Z) :=
  _ <- validate_tx m ;;
  Ok (gen_common (t_ver m) (t_fn m) (t_tn m) ++ [oz (t_pwr m)]
      ++ (match t_burst m with Some b => b | None => [] end)
      ++ (if legacy && (t_ver m =? 0) then [0; 0] else [])).

Definition tx_parse_burst (b : list Z) : list Z :=
  let l := Z.of_nat (length b) in
  if l >=? edge_burst_len then (if l >? edge_burst_len then firstn (Z.to_nat edge_burst_len) b else b)
  else (if l >? gmsk_burst_len then firstn (Z.to_nat gmsk_burst_len) b else b).

Definition parse_tx (msg : list Z) : res txmsg :=
  if Nat.ltb (length msg) 5 then VErr else
  b0 <- idx msg 0 ;;
  let v := Z.shiftr b0 4 in
  if negb (known v) then VErr else
  let tn := Z.land b0 7 in
  fn <- un_be32 (slice msg 1 5) ;;
  hl <- tx_hdr_len v ;;
  if Nat.ltb (length msg) hl then VErr else
  pwr <- idx msg 5 ;;
  if Nat.eqb (length msg) hl then
    Ok {| t_ver := v; t_fn := Some fn; t_tn := Some tn; t_pwr := Some pwr; t_burst := None |}
  else
    Ok {| t_ver := v; t_fn := Some fn; t_tn := Some tn; t_pwr := Some pwr; t_burst := Some (tx_parse_burst (skipn hl msg)) |}.

(* ---------- RxMsg ---------- *)
(* r_mod: Some i = the i-th Modulation member; None = not a Modulation (e.g. None after a NOPE / unknown coding) *)
Record rxmsg := { r_ver : Z; r_fn : option Z; r_tn : option Z; r_rssi : option Z; r_toa : option Z;
                  r_nope : bool; r_mod : option nat; r_tset : option Z; r_tsc : option Z; r_ci : option Z;
                  r_burst : option (list Z) }.

Definition rx_hdr_len (ver : Z) : res nat :=
  if ver =? 0 then Ok 8%nat else if ver =? 1 then Ok 11%nat else Crash.

Definition validate_burst_rx (m : rxmsg) : res unit :=
  if r_ver m =? 0 then
    match r_burst m with
    | None => VErr
    | Some b => let l := Z.of_nat (length b) in if (l =? gmsk_burst_len) || (l =? edge_burst_len) then Ok tt else VErr
    end
  else if r_ver m >=? 1 then
    match r_nope m, r_burst m with
    | true, None => Ok tt
    | true, Some _ => VErr
    | false, None => VErr
    | false, Some b => match r_mod m with
                       | None => Crash    (* None.bl: AttributeError; unreachable after the header checks *)
                       | Some i => if Z.of_nat (length b) =? mod_bl i then Ok tt else VErr
                       end
    end
  else Ok tt.

Definition validate_rx (m : rxmsg) : res unit :=
  _ <- validate_common (r_ver m) (r_fn m) (r_tn m) ;;
  _ <- in_rng rssi_min rssi_max (r_rssi m) ;;
  _ <- in_rng toa256_min toa256_max (r_toa m) ;;
  _ <- (if (r_ver m >=? 1) && negb (r_nope m) then
          match r_mod m with
          | None => VErr
          | Some i =>
            if Nat.ltb i (length mods) then
              _ <- (match r_tset m with
                    | None => VErr
                    | Some s => if Nat.eqb i GMSK_IDX then (if (0 <=? s) && (s <? 4) then Ok tt else VErr)
                                else (if (0 <=? s) && (s <? 2) then Ok tt else VErr)
                    end) ;;
              in_rng tsc_min tsc_max (r_tsc m)
            else VErr
          end
        else Ok tt) ;;
  _ <- (if r_ver m >=? 1 then in_rng ci_min ci_max (r_ci m) else Ok tt) ;;
  validate_burst_rx m.

Definition gen_mts (m : rxmsg) : Z :=
  if r_nope m then nope_ind else
  match r_tsc m, r_mod m, r_tset m with
  | Some t, Some i, Some s => Z.lor (Z.lor (Z.land t 7) (Z.shiftl (mod_coding i) 3)) (Z.shiftl s 3)
  | _, _, _ => 0
  end.

Definition gen_rx (legacy : bool) (m : rxmsg) : res (list Z) :=
  _ <- validate_rx m ;;
  Ok (gen_common (r_ver m) (r_fn m) (r_tn m) ++ [- oz (r_rssi m)] ++ i16 (oz (r_toa m))
      ++ (if r_ver m >=? 1 then [gen_mts m] ++ i16 (oz (r_ci m)) else [])
      ++ (match r_burst m with Some b => map s2us b | None => [] end)
      ++ (if legacy && (r_ver m =? 0) then [0; 0] else [])).

Definition parse_mts (x : Z) : bool * option nat * option Z * option Z :=
  if Z.land x nope_ind >? 0 then (true, None, None, None) else
  let t := Z.land x 7 in
  let mm := Z.land (Z.shiftr x 3) 15 in
  if Z.land mm 12 >? 0 then (false, pick (Z.land mm 14), Some (Z.land mm 1), Some t)
  else (false, Some GMSK_IDX, Some (Z.land mm 3), Some t).

(* fresh RxMsg(): mod_type = ModGMSK, nope_ind = False, tsc_set/tsc/ci = None *)
Definition parse_rx (msg : list Z) : res rxmsg :=
  if Nat.ltb (length msg) 5 then VErr else
  b0 <- idx msg 0 ;;
  let v := Z.shiftr b0 4 in
  if negb (known v) then VErr else
  let tn := Z.land b0 7 in
  fn <- un_be32 (slice msg 1 5) ;;
  hl <- rx_hdr_len v ;;
  if Nat.ltb (length msg) hl then VErr else
  r <- idx msg 5 ;;
  toa <- un_i16 (slice msg 6 8) ;;
  hdr <- (if v >=? 1 then
            mts <- idx msg 8 ;;
            ci <- un_i16 (slice msg 9 11) ;;
            let '(np, mt, ts, tc) := parse_mts mts in Ok (np, mt, ts, tc, Some ci)
          else Ok (false, Some GMSK_IDX, None, None, None)) ;;
  let '(np, mt, ts, tc, ci) := hdr in
  if Nat.eqb (length msg) hl then
    Ok {| r_ver := v; r_fn := Some fn; r_tn := Some tn; r_rssi := Some (- r); r_toa := Some toa;
          r_nope := np; r_mod := mt; r_tset := ts; r_tsc := tc; r_ci := ci; r_burst := None |}
  else
    let bs := skipn hl msg in
    if v =? 0 then
      let bl := Z.of_nat (length bs) in
      match (match pick_by_bl bl with Some i => Some i | None => pick_by_bl (bl - 2) end) with
      | None => VErr
      | Some i => Ok {| r_ver := v; r_fn := Some fn; r_tn := Some tn; r_rssi := Some (- r); r_toa := Some toa;
                        r_nope := np; r_mod := Some i; r_tset := ts; r_tsc := tc; r_ci := ci;
                        r_burst := Some (map us2s (firstn (Z.to_nat (mod_bl i)) bs)) |}
      end
    else
      Ok {| r_ver := v; r_fn := Some fn; r_tn := Some tn; r_rssi := Some (- r); r_toa := Some toa;
            r_nope := np; r_mod := mt; r_tset := ts; r_tsc := tc; r_ci := ci; r_burst := Some (map us2s bs) |}.

(* DATAInterface.send_msg: the datagrams emitted (none when gen_msg raises ValueError) *)
Definition send_tx (legacy : bool) (m : txmsg) : res (list (list Z)) :=
  match gen_tx legacy m with Ok b => Ok [b] | VErr => Ok [] | Crash => Crash end.
Definition send_rx (legacy : bool) (m : rxmsg) : res (list (list Z)) :=
  match gen_rx legacy m with Ok b => Ok [b] | VErr => Ok [] | Crash => Crash end.

(* fields carried by the header version (what the test-suite's _compare_msg compares) *)
Definition carried (m : rxmsg) : rxmsg :=
  if r_ver m =? 0 then {| r_ver := 0; r_fn := r_fn m; r_tn := r_tn m; r_rssi := r_rssi m; r_toa := r_toa m; r_nope := false;
                          r_mod := None; r_tset := None; r_tsc := None; r_ci := None; r_burst := r_burst m |}
  else if r_nope m then {| r_ver := r_ver m; r_fn := r_fn m; r_tn := r_tn m; r_rssi := r_rssi m; r_toa := r_toa m; r_nope := true;
                           r_mod := None; r_tset := None; r_tsc := None; r_ci := r_ci m; r_burst := r_burst m |}
  else m.

(* ---------- wire functions ---------- *)
(* option Z as two ints [present; value]; burst as [present; len; items...] at the end *)
Definition wopt (p v : Z) : option Z := if p =? 0 then None else Some v.
Definition wburst (l : list Z) : option (list Z) :=
  match l with p :: n :: r => if p =? 0 then None else Some (firstn (Z.to_nat n) r) | _ => None end.
Definition enc_opt (o : option Z) : list Z := match o with Some x => [1; x] | None => [0; 0] end.
Definition enc_optn (o : option nat) : list Z := match o with Some x => [1; Z.of_nat x] | None => [0; 0] end.
Definition enc_burst (o : option (list Z)) : list Z :=
  match o with Some b => 1 :: Z.of_nat (length b) :: b | None => [0; 0] end.

Definition wtx (a : list Z) : option txmsg :=
  match a with ver :: pf :: fn :: pt :: tn :: pp :: pwr :: b =>
    Some {| t_ver := ver; t_fn := wopt pf fn; t_tn := wopt pt tn; t_pwr := wopt pp pwr; t_burst := wburst b |}
  | _ => None end.
Definition wrx (a : list Z) : option rxmsg :=
  match a with ver :: pf :: fn :: pt :: tn :: pr :: rssi :: pa :: toa :: np :: pm :: md :: ps :: tset :: pc :: tsc :: pi :: ci :: b =>
    Some {| r_ver := ver; r_fn := wopt pf fn; r_tn := wopt pt tn; r_rssi := wopt pr rssi; r_toa := wopt pa toa;
            r_nope := negb (np =? 0); r_mod := (if pm =? 0 then None else Some (Z.to_nat md)); r_tset := wopt ps tset;
            r_tsc := wopt pc tsc; r_ci := wopt pi ci; r_burst := wburst b |}
  | _ => None end.
Definition enc_tx (m : txmsg) : list Z :=
  t_ver m :: enc_opt (t_fn m) ++ enc_opt (t_tn m) ++ enc_opt (t_pwr m) ++ enc_burst (t_burst m).
Definition enc_rx (m : rxmsg) : list Z :=
  r_ver m :: enc_opt (r_fn m) ++ enc_opt (r_tn m) ++ enc_opt (r_rssi m) ++ enc_opt (r_toa m) ++ [if r_nope m then 1 else 0]
    ++ enc_optn (r_mod m) ++ enc_opt (r_tset m) ++ enc_opt (r_tsc m) ++ enc_opt (r_ci m) ++ enc_burst (r_burst m).
Definition wres {A} (enc : A -> list Z) (r : res A) : list Z :=
  match r with Ok a => 0 :: enc a | VErr => [1] | Crash => [2] end.

(* [legacy; msg...] -> [0; octets...] | [1] ValueError | [2] other exception *)
Definition w_trxd_tx_gen (a : list Z) : list Z :=
  match a with l :: r => match wtx r with Some m => wres (fun b => b) (gen_tx (negb (l =? 0)) m) | None => [-999] end | _ => [-999] end.
Definition w_trxd_rx_gen (a : list Z) : list Z :=
  match a with l :: r => match wrx r with Some m => wres (fun b => b) (gen_rx (negb (l =? 0)) m) | None => [-999] end | _ => [-999] end.
Definition w_trxd_tx_validate (a : list Z) : list Z :=
  match wtx a with Some m => wres (fun _ => []) (validate_tx m) | None => [-999] end.
Definition w_trxd_rx_validate (a : list Z) : list Z :=
  match wrx a with Some m => wres (fun _ => []) (validate_rx m) | None => [-999] end.
Definition w_trxd_tx_parse (a : list Z) : list Z := wres enc_tx (parse_tx a).
Definition w_trxd_rx_parse (a : list Z) : list Z := wres enc_rx (parse_rx a).
