(* Model of the final loop of gsm48_rr_render_ma (C20), layer23 src/mobile/gsm48_rr.c, and of arfcn2index (src/mobile/gsm322.c).

       pcs = gsm_refer_pcs(cs->arfcn, s) ? ARFCN_PCS : 0;                         -- at the top of the function
       ... the decode branches fill ma[] / *ma_len and return on their own errors ...
       for (i = 0; i < *ma_len; i++) {
           arfcn = ma[i];
           if (arfcn >= 512 && arfcn <= 810) arfcn |= pcs;
           ma[i] = arfcn;
           index = arfcn2index(arfcn);
           if (!(set->freq_map[index >> 3] & (1 << (index & 7)))) return GSM48_RR_CAUSE_FREQ_NOT_IMPL;
       }
       return 0;

       int arfcn2index(uint16_t arfcn)
       {   int is_pcs = arfcn & ARFCN_PCS;  arfcn &= ~ARFCN_FLAG_MASK;
           if ((is_pcs) && (arfcn >= 512) && (arfcn <= 810)) return (arfcn & 1023)-512+1024;
           return arfcn & 1023; }

   pcs is the explicit boolean 'the serving cell refers to the PCS band'; the settings enter through set->freq_map (uint8_t[128+38]: one
   bit per band index, 0..1023 = the ARFCN, 1024..1322 = PCS 512..810), an explicit list argument; ma[] (uint16_t[64]) and freq_map are
   accessed through checked reads / writes.  On a refusal the entries up to and including the unsupported one are already converted.
   Definitions only; proofs are in Proofs/MobAllocBandP.v. *)
From Coq Require Import ZArith List Bool.
From OBB Require Import Base.Range Gen.MobAllocConst Gen.MobAllocSi4Const Model.MobAlloc Model.MobAllocSi4 Model.MobAllocCd.
Import ListNotations.
Open Scope Z_scope.

Definition arfcn2index (a : Z) : Z :=
  let n := Z.land a (Z.land (Z.lnot c_ARFCN_FLAG_MASK) 65535) in
  if negb (Z.land a c_ARFCN_PCS =? 0) && (512 <=? n) && (n <=? 810) then Z.land n 1023 - 512 + 1024 else Z.land n 1023.

Fixpoint band_loop (pcsv : Z) (fm ma : list Z) (k : nat) (i : Z) : option (Z * list Z) :=
  match k with
  | O => Some (0, ma)
  | S k' =>
      match rd ma i with
      | None => None
      | Some a =>
          let a' := if (512 <=? a) && (a <=? 810) then Z.lor a pcsv else a in
          match wr ma i a' with
          | None => None
          | Some ma' =>
              let idx := arfcn2index a' in
              match rd fm (Z.shiftr idx 3) with
              | None => None
              | Some b =>
                  if Z.land b (Z.shiftl 1 (Z.land idx 7)) =? 0 then Some (c_CAUSE_FREQ_NOT_IMPL, ma')
                  else band_loop pcsv fm ma' k' (i + 1)
              end
          end
      end
  end.

(* the whole function for a hopping channel description with a Mobile Allocation: the branch of Model/MobAllocCd.v, then the loop *)
Definition render_full (pcs : bool) (fm lv cdlv other freq ma : list Z) (ma_len : Z) : res :=
  match render_ma_cd lv cdlv other freq ma ma_len with
  | OOB => OOB
  | Ok rc s =>
      if negb (rc =? 0) then Ok rc s
      else match band_loop (if pcs then c_ARFCN_PCS else 0) fm (s_hop s) (Z.to_nat (s_hlen s)) 0 with
           | None => OOB
           | Some (rc', ma') => Ok rc' (mkst (s_freq s) ma' (s_hlen s))
           end
  end.

(* ---------- specification side, literal numbers: 0x8000 = 32768 marks a PCS 1900 channel (512..810 overlap DCS 1800) ---------- *)
Definition conv (pcs : bool) (a : Z) : Z := if pcs && (512 <=? a) && (a <=? 810) then a + 32768 else a.
(* the band index the code looks up: the ARFCN itself, PCS channels behind the 1024 plain ones *)
Definition bidx (pcs : bool) (a : Z) : Z := if pcs && (512 <=? a) && (a <=? 810) then a - 512 + 1024 else a.
Definition supported (fm : list Z) (pcs : bool) (a : Z) : bool := Z.testbit (zn fm (bidx pcs a / 8)) (bidx pcs a mod 8).
Fixpoint loop_spec (fm : list Z) (pcs : bool) (todo : list Z) : Z * list Z :=
  match todo with
  | [] => (0, [])
  | a :: r => if supported fm pcs a then (fst (loop_spec fm pcs r), conv pcs a :: snd (loop_spec fm pcs r)) else (8, conv pcs a :: r)
  end.

(* ---------- wire function ----------
   w_c20_renderband : pcs hl0 hfill bg nfm fm.. nlv lv.. ncd cdlv.. nother other.. (idx mask)*     (nfm = 166, nlv = 9, ncd = 17)
     observation: rc ma_len ma[0..63] (idx newmask)* | -998 *)
Definition w_c20_renderband (a : list Z) : list Z :=
  match a with
  | pcs :: hl0 :: hfill :: bg :: nfm :: rest0 =>
      if byte_ok hl0 && byte_ok bg && (nfm =? c_FREQ_MAP_SIZE) && (nfm <? Zlength rest0) && (0 <=? hfill) && (hfill <? 65536) then
        let fm := firstn (Z.to_nat nfm) rest0 in
        match skipn (Z.to_nat nfm) rest0 with
        | [] => [-999]
        | nlv :: rest =>
          if (nlv =? c_MOB_ALLOC_LV_SIZE) && (nlv <? Zlength rest) then
            let lv := firstn (Z.to_nat nlv) rest in
            match skipn (Z.to_nat nlv) rest with
            | [] => [-999]
            | ncd :: rest2 =>
                if (ncd =? c_CELL_DESC_LV_SIZE) && (ncd <? Zlength rest2) then
                  let cdlv := firstn (Z.to_nat ncd) rest2 in
                  match skipn (Z.to_nat ncd) rest2 with
                  | [] => [-999]
                  | no :: rest3 =>
                      if (0 <=? no) && (no <=? Zlength rest3) then
                        let other := firstn (Z.to_nat no) rest3 in
                        let ps := skipn (Z.to_nat no) rest3 in
                        if forallb byte_ok fm && forallb byte_ok lv && forallb byte_ok cdlv && forallb (fun x => (0 <=? x) && (x <? 1024)) other then
                          match build (Z.to_nat c_FREQ_TABLE_SIZE) 0 bg ps with
                          | None => [-999]
                          | Some freq =>
                              let hop := map (fun k => (hfill + k) mod 65536) (range 0 c_HOPPING_SIZE) in
                              match render_full (negb (pcs =? 0)) fm lv cdlv other freq hop hl0 with
                              | Ok rc s => rc :: s_hlen s :: s_hop s ++ diff 0 freq (s_freq s)
                              | OOB => [-998]
                              end
                          end
                        else [-999]
                      else [-999]
                  end
                else [-999]
            end
          else [-999]
        end
      else [-999]
  | _ => [-999]
  end.
