(* Model of the driver glue that drains the sercomm transmit side on the host (C06).  Definitions only.
   mirrors: src/host/osmocon/osmocon.c  handle_sercomm_write():

       uint8_t buffer[256];
       int i, count = 0, end = 0;
       for (i = 0; i < sizeof(buffer); i++) {
               if (sercomm_drv_pull(&buffer[i]) == 0) { end = 1; break; }
               count++;
       }
       if (count) write(dnload.serial_fd.fd, buffer, count);
       if (end) osmo_fd_write_disable(&dnload.serial_fd);

   The bound is checked BEFORE every pull (a pull has a side effect: it consumes the octet), so exactly the
   octets that were pulled are written.  sizeof(buffer) comes from the source text (Gen c_drv_write_buffer).
   osmocon's select loop calls handle_write() again as long as write polling is enabled: [drain]. *)
From Coq Require Import ZArith List Bool.
From OBB Require Import Gen.SercommConst Model.Sercomm.
Import ListNotations.
Open Scope Z_scope.

Definition DRV_BUF : nat := Z.to_nat c_drv_write_buffer.       (* sizeof(buffer) *)

(* how one call ends: DMore = loop bound reached (end == 0, polling stays enabled), DEnd = a pull returned 0
   (end == 1, osmo_fd_write_disable), DOob = the pull read at/after msg->tail (see Model/Sercomm.v, POOB) *)
Inductive drvres := DMore | DEnd | DOob.

(* the for loop with n iterations left; result: tx state, the octets stored in buffer[0..count), how it ended *)
Fixpoint drv_loop (n : nat) (t : tx) : tx * list Z * drvres :=
  match n with
  | O => (t, [], DMore)
  | S n' =>
      match pull t with
      | (PNone, t1) => (t1, [], DEnd)
      | (POOB, t1) => (t1, [], DOob)
      | (PCh c, t1) => let '(t2, o, r) := drv_loop n' t1 in (t2, c :: o, r)
      end
  end.

(* one call of handle_sercomm_write: the octets handed to write() (nothing is written when count == 0) *)
Definition drv_write_chunk (t : tx) : tx * list Z * drvres := drv_loop DRV_BUF t.

(* the select loop: handle_sercomm_write is called again until it disables write polling; one entry per call *)
Fixpoint drain (fuel : nat) (t : tx) : tx * list (list Z * drvres) :=
  match fuel with
  | O => (t, [])
  | S f =>
      let '(t1, o, r) := drv_write_chunk t in
      match r with
      | DMore => let '(t2, cs) := drain f t1 in (t2, (o, r) :: cs)
      | _ => (t1, [(o, r)])
      end
  end.

(* the octets repeated sercomm_drv_pull calls will yield from state t: rest of the frame in transmission, then
   the frames of everything queued, lowest DLCI first, FIFO per DLCI *)
Definition pending (t : tx) : list Z := remaining t ++ concat (map frame_of (concat (queues t))).

Definition written (calls : list (list Z * drvres)) : list Z := concat (map fst calls).

(* ---------------------------------------------------------------- wire function for the correspondence *)

Definition res_code (r : drvres) : Z := match r with DMore => 0 | DEnd => 1 | DOob => 9 end.

(* observation of one call: 7 end count b1..bcount *)
Definition obs_call (c : list Z * drvres) : list Z := 7 :: res_code (snd c) :: len (fst c) :: fst c.

(* k calls, whatever they report *)
Fixpoint drv_calls (k : nat) (t : tx) : tx * list Z :=
  match k with
  | O => (t, [])
  | S k' =>
      let '(t1, o, r) := drv_write_chunk t in
      match r with
      | DOob => (t1, obs_call (o, r))
      | _ => let '(t2, os) := drv_calls k' t1 in (t2, obs_call (o, r) ++ os)
      end
  end.

(* script:  1 d n b1..bn = sercomm_sendmsg(d, payload);  6 k = k calls of handle_sercomm_write;
            7 = calls until write polling is disabled *)
Fixpoint drv_interp (fuel big : nat) (t : tx) (a : list Z) : list Z :=
  match fuel with
  | O => []
  | S f =>
      match a with
      | [] => []
      | 1 :: d :: n :: r =>
          if n <? 0 then [-999] else
          match take (Z.to_nat n) r with
          | None => [-999]
          | Some (p, r') =>
              match sendmsg t d p with
              | Some t' => drv_interp f big t' r'
              | None => [-998]
              end
          end
      | 6 :: k :: r =>
          if (k <? 0) || (64 <? k) then [-999] else
          let '(t', o) := drv_calls (Z.to_nat k) t in o ++ drv_interp f big t' r
      | 7 :: r =>
          let '(t', cs) := drain big t in concat (map obs_call cs) ++ drv_interp f big t' r
      | _ => [-999]
      end
  end.

(* big = S (length a) calls always suffice: a message of n octets costs n + 3 script ints and at most 2n + 6 wire octets *)
Definition w_c06_drv (a : list Z) : list Z := drv_interp (S (length a)) (S (length a)) tx0 a.
