(* Model of the capture files, trx_toolkit/data_dump.py (C15).
   mirrors: DATADump.dump_msg / parse_hdr, DATADumpFile._seek2msg / _parse_msg / parse_msg / parse_all / append_msg / append_all.
   A capture file is the list of its octets; the file object is (octets, position): read(n) returns the octets
   [pos, pos+n) that exist and advances by what it returned, seek(0) / seek(n, 1) set / advance the position WITHOUT any
   end-of-file check (the position may lie beyond the end; reads there return nothing), write appends at the end
   (mode "a+b"; a BytesIO whose position is at the end behaves the same).
   A message is inl TxMsg | inr RxMsg (Model/Trxd.v).  ValueError = VErr, any other exception = Crash (res of Trxd.v);
   the bare 'except:' of _parse_msg turns both into the value False.  Python None / False of the read functions are
   the constructors ONone / OFalse and PFalse. *)
From Coq Require Import ZArith List Bool.
From OBB Require Import Gen.TrxdConst Model.Trxd.
Import ListNotations.
Open Scope Z_scope.

Definition msg := (txmsg + rxmsg)%type.

(* DATADump.HDR_LENGTH *)
Definition hl : nat := Z.to_nat dump_hdr_length.

(* ---------- DATADump.dump_msg: tag, gen_msg() (raises ValueError for an invalid message), struct.pack(">H", len) ---------- *)
Definition dump_msg (m : msg) : res (list Z) :=
  let tag := match m with inl _ => dump_tag_tx | inr _ => dump_tag_rx end in
  raw <- (match m with inl t => gen_tx false t | inr r => gen_rx false r end) ;;
  let n := Z.of_nat (length raw) in
  if 65535 <? n then Crash                     (* struct.error: 'H' format requires 0 <= number <= 65535 *)
  else Ok ([tag; n / 256; n mod 256] ++ raw).

(* ---------- DATADump.parse_hdr: struct.unpack(">H", hdr[1:3]) first, then the tag hdr[:1] ----------
   Ok None = the value False (unknown tag); Some (false, n) = a fresh TxMsg, Some (true, n) = a fresh RxMsg *)
Definition parse_hdr (hdr : list Z) : res (option (bool * nat)) :=
  len <- (match slice hdr 1 3 with [hi; lo] => Ok (Z.to_nat (hi * 256 + lo)) | _ => Crash end) ;;
  match hdr with
  | t :: _ => if t =? dump_tag_tx then Ok (Some (false, len))
              else if t =? dump_tag_rx then Ok (Some (true, len))
              else Ok None
  | [] => Ok None
  end.

(* ---------- the file object ---------- *)
Definition fread (f : list Z) (pos n : nat) : list Z := firstn n (skipn pos f).

(* ---------- DATADumpFile._seek2msg: Ok None = False; Ok (Some pos) = True with the descriptor at pos ---------- *)
Fixpoint seek_loop (f : list Z) (n pos : nat) : res (option nat) :=
  match n with
  | O => Ok (Some pos)
  | S k =>
    let hdr := fread f pos hl in
    let pos1 := (pos + length hdr)%nat in
    if negb (Nat.eqb (length hdr) hl) then Ok None else
    rc <- parse_hdr hdr ;;
    match rc with
    | None => Ok None
    | Some (_, len) => seek_loop f k (pos1 + len)%nat       (* self.f.seek(msg_len, 1): no EOF check *)
    end
  end.
(* range(idx): no iteration for idx <= 0 *)
Definition seek2msg (f : list Z) (idx : Z) : res (option nat) := seek_loop f (Z.to_nat idx) 0.

(* ---------- DATADumpFile._parse_msg ---------- *)
Inductive one := OMsg (m : msg) | ONone | OFalse.

(* msg.parse_msg(bytearray(msg_raw)) under the bare 'except:' *)
Definition parse_body (is_rx : bool) (raw : list Z) : one :=
  if is_rx then match parse_rx raw with Ok m => OMsg (inr m) | _ => OFalse end
  else match parse_tx raw with Ok m => OMsg (inl m) | _ => OFalse end.

Definition parse_one (f : list Z) (pos : nat) : res (one * nat) :=
  let hdr := fread f pos hl in
  let pos1 := (pos + length hdr)%nat in
  if negb (Nat.eqb (length hdr) hl) then Ok (ONone, pos1) else
  rc <- parse_hdr hdr ;;
  match rc with
  | None => Ok (ONone, pos1)
  | Some (is_rx, len) =>
    let raw := fread f pos1 len in
    let pos2 := (pos1 + length raw)%nat in
    if negb (Nat.eqb (length raw) len) then Ok (ONone, pos2)
    else Ok (parse_body is_rx raw, pos2)
  end.

(* ---------- DATADumpFile.parse_msg(idx) ---------- *)
Definition parse_msg (f : list Z) (idx : Z) : res one :=
  rc <- seek2msg f idx ;;
  match rc with
  | None => Ok ONone
  | Some pos => r <- parse_one f pos ;; Ok (fst r)
  end.

(* ---------- DATADumpFile.parse_all(skip, count) ---------- *)
Inductive pall := PList (l : list msg) | PFalse | POutOfFuel.

(* 'if count is not None: if len(result) == count: break', evaluated after the append *)
Definition count_hit (count : option Z) (n : nat) : bool :=
  match count with Some c => Z.of_nat n =? c | None => false end.

Fixpoint pa_loop (fuel : nat) (f : list Z) (pos : nat) (count : option Z) (acc : list msg) : res pall :=
  match fuel with
  | O => Ok POutOfFuel
  | S k =>
    r <- parse_one f pos ;;
    match r with
    | (ONone, _) => Ok (PList acc)
    | (OFalse, p) => pa_loop k f p count acc
    | (OMsg m, p) => let acc' := acc ++ [m] in
                     if count_hit count (length acc') then Ok (PList acc') else pa_loop k f p count acc'
    end
  end.

(* every iteration that does not stop has read a whole header, so |file| + 1 iterations always suffice
   (when HDR_LENGTH >= 1; with HDR_LENGTH = 0 parse_hdr raises at once) *)
Definition parse_all (f : list Z) (skip count : option Z) : res pall :=
  match skip with
  | None => pa_loop (S (length f)) f 0 count []
  | Some s =>
    rc <- seek2msg f s ;;
    match rc with
    | None => Ok PFalse
    | Some pos => pa_loop (S (length f)) f pos count []
    end
  end.

(* ---------- DATADumpFile.append_msg / append_all ---------- *)
Definition append_msg (f : list Z) (m : msg) : res (list Z) := r <- dump_msg m ;; Ok (f ++ r).
(* the loop stops at the first exception; what was written before stays in the file *)
Fixpoint append_all (f : list Z) (ms : list msg) : list Z * res unit :=
  match ms with
  | [] => (f, Ok tt)
  | m :: r => match append_msg f m with
              | Ok f' => append_all f' r
              | VErr => (f, VErr)
              | Crash => (f, Crash)
              end
  end.

(* ---------- wire functions ---------- *)
(* message list: [kind (0 Tx / 1 Rx); n; n ints of wtx / wrx]*  *)
Fixpoint wmsgs (fuel : nat) (a : list Z) : option (list msg) :=
  match fuel with
  | O => None
  | S k =>
    match a with
    | [] => Some []
    | kind :: n :: r =>
      let e := firstn (Z.to_nat n) r in
      match (if kind =? 0 then option_map (@inl txmsg rxmsg) (wtx e) else option_map (@inr txmsg rxmsg) (wrx e)) with
      | None => None
      | Some m => option_map (cons m) (wmsgs k (skipn (Z.to_nat n) r))
      end
    | _ => None
    end
  end.
Definition enc_msg (m : msg) : list Z :=
  match m with
  | inl t => let e := enc_tx t in 0 :: Z.of_nat (length e) :: e
  | inr r => let e := enc_rx r in 1 :: Z.of_nat (length e) :: e
  end.
Definition enc_one (r : res one) : list Z :=
  match r with
  | Ok (OMsg m) => 0 :: enc_msg m
  | Ok ONone => [1]
  | Ok OFalse => [2]
  | VErr => [3]
  | Crash => [3]
  end.
Definition enc_pall (r : res pall) : list Z :=
  match r with
  | Ok (PList l) => 0 :: Z.of_nat (length l) :: flat_map enc_msg l
  | Ok PFalse => [1]
  | Ok POutOfFuel => [4]
  | VErr => [3]
  | Crash => [3]
  end.

(* [kind; msg...] -> [0; octets] | [1] ValueError | [2] other exception *)
Definition w_dump_dump_msg (a : list Z) : list Z :=
  match wmsgs 2 (match a with k :: r => k :: Z.of_nat (length r) :: r | [] => [] end) with
  | Some [m] => wres (fun b => b) (dump_msg m)
  | _ => [-999]
  end.

(* [nfile; file...; messages] -> [status (0 ok / 1 ValueError / 2 other); file afterwards...] *)
Definition w_dump_append (a : list Z) : list Z :=
  match a with
  | n :: r =>
    let f := firstn (Z.to_nat n) r in
    let rest := skipn (Z.to_nat n) r in
    match wmsgs (S (length rest)) rest with
    | Some ms => let '(f', st) := append_all f ms in
                 (match st with Ok _ => 0 | VErr => 1 | Crash => 2 end) :: f'
    | None => [-999]
    end
  | _ => [-999]
  end.

(* [idx; file...] -> [0; position] True | [1] False | [3] exception *)
Definition w_dump_seek (a : list Z) : list Z :=
  match a with
  | i :: f => match seek2msg f i with Ok (Some p) => [0; Z.of_nat p] | Ok None => [1] | _ => [3] end
  | _ => [-999]
  end.

(* [idx; file...] -> [0; message] | [1] None | [2] False | [3] exception *)
Definition w_dump_parse_msg (a : list Z) : list Z :=
  match a with
  | i :: f => enc_one (parse_msg f i)
  | _ => [-999]
  end.

(* [skip present; skip; count present; count; file...] -> [0; n; messages] | [1] False | [3] exception | [4] out of fuel *)
Definition w_dump_parse_all (a : list Z) : list Z :=
  match a with
  | ps :: s :: pc :: c :: f => enc_pall (parse_all f (wopt ps s) (wopt pc c))
  | _ => [-999]
  end.

(* truncation sweep: [idx; skip present; skip; count present; count; k0; k1; file...] -> for every cut k in [k0, k1):
   digest of parse_all(skip, count) and of parse_msg(idx) on the first k octets: [status; messages; hash; status; hash] *)
(* cheap mixing: multiplication by an odd constant, kept to 30 bits (the offset keeps every summand positive) *)
Definition hmix (h x : Z) : Z := Z.land (h * 131 + x + 70001) 1073741823.
Definition digest (l : list Z) : Z := fold_left hmix l 17.
Definition dig_pall (r : res pall) : list Z :=
  let e := enc_pall r in
  match e with
  | 0 :: n :: _ => [0; n; digest e]
  | s :: _ => [s; 0; 0]
  | [] => [-1; 0; 0]
  end.
Definition dig_one (r : res one) : list Z :=
  let e := enc_one r in
  match e with
  | s :: _ => [s; digest e]
  | [] => [-1; 0]
  end.
Fixpoint sweep (n : nat) (k : nat) (f : list Z) (idx : Z) (skip count : option Z) : list Z :=
  match n with
  | O => []
  | S n' => let g := firstn k f in
            dig_pall (parse_all g skip count) ++ dig_one (parse_msg g idx) ++ sweep n' (S k) f idx skip count
  end.
Definition w_dump_trunc_sweep (a : list Z) : list Z :=
  match a with
  | i :: ps :: s :: pc :: c :: k0 :: k1 :: f =>
    sweep (Z.to_nat (k1 - k0)) (Z.to_nat k0) f i (wopt ps s) (wopt pc c)
  | _ => [-999]
  end.
