(* Model of the sercomm/HDLC serial framing layer (C06).  Definitions only.
   mirrors: src/target/firmware/comm/sercomm.c  (sercomm_init, sercomm_sendmsg, sercomm_drv_pull,
            sercomm_register_rx_cb, dispatch_rx_msg, sercomm_drv_rx_char),
            include/comm/sercomm.h (HDLC_* constants, enum sercomm_dlci, sercomm_alloc_msgb),
            vendored msgb.h/msgb.c (msgb_push / msgb_put / msgb_tailroom / msgb_enqueue / msgb_dequeue).
   Octets are Z in 0..255 (uint8_t).  What the code does is modelled, not what it should do:
   - Tx escapes EVERY octet of the message buffer that is 0x7E, 0x7D or 0x00, including the address octet
     (hdr[0] = dlci), by sending 0x7D and flipping bit 5 of the octet IN PLACE (the head of the remaining
     octets below), then sending the flipped octet in state RX_ST_ESCAPE;
   - Rx takes the address and control octets RAW (no un-escaping in RX_ST_ADDR / RX_ST_CTRL), un-escapes only
     in RX_ST_DATA / RX_ST_ESCAPE, checks msgb_tailroom == 0 BEFORE looking at the octet (the octet that
     finds the buffer full is dropped, the buffer is replaced, state := RX_ST_WAIT_START, dlci/ctrl kept);
   - tx.state is never reset between messages; sercomm_sendmsg indexes dlci_queues[dlci] unchecked.
   The receive capacity [cap] (= msgb_tailroom of a fresh sercomm_alloc_msgb(SERCOMM_RX_MSG_SIZE)) is an
   explicit argument: 2048 in the host build (measured, Gen), 256 on the target. *)
From Coq Require Import ZArith List Bool.
From OBB Require Import Gen.SercommConst.
Import ListNotations.
Open Scope Z_scope.

Definition FLAG : Z := c_HDLC_FLAG.
Definition ESC : Z := c_HDLC_ESCAPE.
Definition C_UI : Z := c_HDLC_C_UI.
Definition DLCI_MAX : Z := c_n_tx_queues.        (* ARRAY_SIZE(sercomm.tx.dlci_queues) *)
Definition HANDLER_MAX : Z := c_n_rx_handlers.   (* ARRAY_SIZE(sercomm.rx.dlci_handler) *)
Definition HEADROOM : Z := c_rx_headroom.        (* headroom of every msgb made by sercomm_alloc_msgb *)
Definition HOST_CAP : Z := c_rx_tailroom.        (* tailroom of the receive msgb, host build *)

(* ---------------------------------------------------------------- octet stuffing (what Tx emits) *)

Definition needs_esc (b : Z) : bool := (b =? FLAG) || (b =? ESC) || (b =? 0).
Definition flip5 (b : Z) : Z := Z.lxor b 32.      (* ^= (1 << 5) on a uint8_t *)

Fixpoint escape (l : list Z) : list Z :=
  match l with
  | [] => []
  | b :: r => if needs_esc b then ESC :: flip5 b :: escape r else b :: escape r
  end.

(* the message buffer after sercomm_sendmsg: address, control, payload *)
Definition hdr (d : Z) (p : list Z) : list Z := d :: C_UI :: p.
(* the octets of one message buffer on the wire *)
Definition frame_of (m : list Z) : list Z := FLAG :: escape m ++ [FLAG].
Definition frame (d : Z) (p : list Z) : list Z := frame_of (hdr d p).

(* ---------------------------------------------------------------- transmit side *)

Inductive rxst := WAIT | ADDR | CTRL | DATA | ESCAPE.     (* enum rx_state, also the type of tx.state *)

Definition is_escape (s : rxst) : bool := match s with ESCAPE => true | _ => false end.

(* tx.dlci_queues[] (FIFO each, index = DLCI), tx.msg/tx.next_char as the octets from next_char to
   msg->tail (None = tx.msg is NULL), tx.state *)
Record tx := { queues : list (list (list Z)); cur : option (list Z); tstate : rxst }.

Definition tx0 : tx := {| queues := repeat [] (Z.to_nat DLCI_MAX); cur := None; tstate := WAIT |}.

(* msgb_enqueue(&dlci_queues[n], m) *)
Fixpoint enq (qs : list (list (list Z))) (n : nat) (m : list Z) : list (list (list Z)) :=
  match qs, n with
  | [], _ => []
  | q :: r, O => (q ++ [m]) :: r
  | q :: r, S n' => q :: enq r n' m
  end.

(* for (i = 0; i < ARRAY_SIZE; i++) { msg = msgb_dequeue(&dlci_queues[i]); if (msg) break; } *)
Fixpoint dequeue (qs : list (list (list Z))) : option (list Z * list (list (list Z))) :=
  match qs with
  | [] => None
  | [] :: r => match dequeue r with Some (m, r') => Some (m, [] :: r') | None => None end
  | (m :: q) :: r => Some (m, q :: r)
  end.

(* sercomm_sendmsg: None = msgb_push abort (headroom < 2) or dlci_queues[] indexed out of bounds *)
Definition sendmsg (t : tx) (d : Z) (p : list Z) : option tx :=
  if (HEADROOM <? 2) then None
  else if (0 <=? d) && (d <? DLCI_MAX)
  then Some {| queues := enq (queues t) (Z.to_nat d) (hdr d p); cur := cur t; tstate := tstate t |}
  else None.

Inductive pullres := PNone | PCh (ch : Z) | POOB.

(* sercomm_drv_pull: PNone = return 0, PCh ch = return 1 with *ch, POOB = read at/after msg->tail *)
Definition pull (t : tx) : pullres * tx :=
  match cur t with
  | None =>
      match dequeue (queues t) with
      | Some (m, qs') => (PCh FLAG, {| queues := qs'; cur := Some m; tstate := tstate t |})
      | None => (PNone, t)
      end
  | Some l =>
      if is_escape (tstate t) then
        match l with
        | b :: r => (PCh b, {| queues := queues t; cur := Some r; tstate := DATA |})
        | [] => (POOB, t)
        end
      else
        match l with
        | [] => (PCh FLAG, {| queues := queues t; cur := None; tstate := tstate t |})
        | b :: r =>
            if needs_esc b
            then (PCh ESC, {| queues := queues t; cur := Some (flip5 b :: r); tstate := ESCAPE |})
            else (PCh b, {| queues := queues t; cur := Some r; tstate := tstate t |})
        end
  end.

(* histories of the transmit side *)
Inductive op := Send (d : Z) (p : list Z) | Pull.

Definition tx_step (t : tx) (o : op) : tx * list Z :=
  match o with
  | Send d p => (match sendmsg t d p with Some t' => t' | None => t end, [])
  | Pull => match pull t with (PCh c, t') => (t', [c]) | (_, t') => (t', []) end
  end.

Fixpoint tx_run (t : tx) (h : list op) : tx * list Z :=
  match h with
  | [] => (t, [])
  | o :: r => let '(t1, o1) := tx_step t o in let '(t2, o2) := tx_run t1 r in (t2, o1 ++ o2)
  end.

Fixpoint sends (h : list op) : list (Z * list Z) :=
  match h with
  | [] => []
  | Send d p :: r => (d, p) :: sends r
  | Pull :: r => sends r
  end.

(* octets still to come for the message in transmission *)
Definition remaining (t : tx) : list Z :=
  match cur t with
  | None => []
  | Some l =>
      if is_escape (tstate t) then match l with b :: r => b :: escape r ++ [FLAG] | [] => [] end
      else escape l ++ [FLAG]
  end.

Definition qget (qs : list (list (list Z))) (d : Z) : list (list Z) := nth (Z.to_nat d) qs [].
Definition on_dlci (d : Z) (x : Z * list Z) : bool := fst x =? d.
Definition hdr' (x : Z * list Z) : list Z := hdr (fst x) (snd x).

(* ---------------------------------------------------------------- receive side *)

(* rx.state, rx.dlci, rx.ctrl, rx.msg as (stored octets reversed, msg->len) *)
Record rx := { st : rxst; dlci : Z; ctrl : Z; buf : list Z; blen : Z }.

Definition rx0 : rx := {| st := WAIT; dlci := 0; ctrl := 0; buf := []; blen := 0 |}.

Inductive rxout :=
| RNone                          (* return 1, nothing else *)
| RMsg (d : Z) (p : list Z)      (* dispatch_rx_msg(rx.dlci, rx.msg) *)
| ROverflow                      (* tailroom == 0: buffer replaced, return 0 *)
| RAbort.                        (* msgb_put without tailroom: MSGB_ABORT *)

Definition tailroom (cap : Z) (s : rx) : Z := cap - blen s.

(* ptr = msgb_put(rx.msg, 1); *ptr = ch; rx.state = st' *)
Definition put (cap : Z) (s : rx) (st' : rxst) (ch : Z) : rx * rxout :=
  if tailroom cap s <? 1 then (s, RAbort)
  else ({| st := st'; dlci := dlci s; ctrl := ctrl s; buf := ch :: buf s; blen := blen s + 1 |}, RNone).

Definition rx_char (cap : Z) (s : rx) (ch : Z) : rx * rxout :=
  if tailroom cap s =? 0
  then ({| st := WAIT; dlci := dlci s; ctrl := ctrl s; buf := []; blen := 0 |}, ROverflow)
  else
    match st s with
    | WAIT => if ch =? FLAG
              then ({| st := ADDR; dlci := dlci s; ctrl := ctrl s; buf := buf s; blen := blen s |}, RNone)
              else (s, RNone)
    | ADDR => ({| st := CTRL; dlci := ch; ctrl := ctrl s; buf := buf s; blen := blen s |}, RNone)
    | CTRL => ({| st := DATA; dlci := dlci s; ctrl := ch; buf := buf s; blen := blen s |}, RNone)
    | DATA =>
        if ch =? ESC
        then ({| st := ESCAPE; dlci := dlci s; ctrl := ctrl s; buf := buf s; blen := blen s |}, RNone)
        else if ch =? FLAG
        then ({| st := WAIT; dlci := dlci s; ctrl := ctrl s; buf := []; blen := 0 |}, RMsg (dlci s) (rev (buf s)))
        else put cap s DATA ch
    | ESCAPE => put cap s DATA (flip5 ch)
    end.

(* events of a run, RNone left out *)
Fixpoint rx_run (cap : Z) (s : rx) (l : list Z) : rx * list rxout :=
  match l with
  | [] => (s, [])
  | ch :: r =>
      let '(s1, o) := rx_char cap s ch in
      let '(s2, os) := rx_run cap s1 r in
      (s2, match o with RNone => os | _ => o :: os end)
  end.

Fixpoint msgs (evs : list rxout) : list (Z * list Z) :=
  match evs with
  | [] => []
  | RMsg d p :: r => (d, p) :: msgs r
  | _ :: r => msgs r
  end.

(* dispatch_rx_msg: handed to the handler iff dlci < ARRAY_SIZE(dlci_handler) and a handler is registered *)
Definition registered (reg : list Z) (d : Z) : bool := (d <? HANDLER_MAX) && existsb (Z.eqb d) reg.
Definition delivered (reg : list Z) (l : list (Z * list Z)) : list (Z * list Z) :=
  filter (fun x => registered reg (fst x)) l.

(* a stream on the wire: flag-free noise and frames (of any payload length) *)
Inductive item := Noise (n : list Z) | Frame (d : Z) (p : list Z).

Definition render1 (i : item) : list Z := match i with Noise n => n | Frame d p => frame d p end.
Definition render (its : list item) : list Z := concat (map render1 its).

Definition len (p : list Z) : Z := Z.of_nat (length p).

(* what must come out of a stream; [skew] = the receiver took a closing flag for an opening one
   (state RX_ST_ADDR with an empty buffer), which is how an over-long frame leaves it *)
Fixpoint expect (cap : Z) (skew : bool) (its : list item) : list (Z * list Z) :=
  match its with
  | [] => []
  | Noise _ :: r => expect cap skew r
  | Frame d p :: r =>
      if len p <? cap
      then (if skew then expect cap false r else (d, p) :: expect cap false r)
      else expect cap (skew || (cap <? len p)) r
  end.

Fixpoint wf_stream (cap : Z) (skew : bool) (its : list item) : Prop :=
  match its with
  | [] => True
  | Noise n :: r => Forall (fun b => b <> FLAG) n /\ (skew = true -> n = []) /\ wf_stream cap skew r
  | Frame d p :: r =>
      needs_esc d = false /\
      wf_stream cap (if len p <? cap then false else skew || (cap <? len p)) r
  end.

(* streams without over-long frames *)
Fixpoint good_stream (cap : Z) (its : list item) : Prop :=
  match its with
  | [] => True
  | Noise n :: r => Forall (fun b => b <> FLAG) n /\ good_stream cap r
  | Frame d p :: r => needs_esc d = false /\ len p < cap /\ good_stream cap r
  end.

Fixpoint frames_of (its : list item) : list (Z * list Z) :=
  match its with
  | [] => []
  | Noise _ :: r => frames_of r
  | Frame d p :: r => (d, p) :: frames_of r
  end.

Definition rmsg (x : Z * list Z) : rxout := RMsg (fst x) (snd x).
Definition frame' (x : Z * list Z) : list Z := frame (fst x) (snd x).
Definition send_of (x : Z * list Z) : op := Send (fst x) (snd x).

(* histories whose sends index an existing queue / moreover can be received with capacity cap *)
Definition valid_op (o : op) : Prop := match o with Send d _ => 0 <= d < DLCI_MAX | Pull => True end.
Definition valid_msg (cap : Z) (x : Z * list Z) : Prop :=
  0 <= fst x < DLCI_MAX /\ needs_esc (fst x) = false /\ len (snd x) < cap.

Definition sorted_by_dlci (l : list (Z * list Z)) : list (Z * list Z) :=
  flat_map (fun i => filter (on_dlci (Z.of_nat i)) l) (seq 0 (Z.to_nat DLCI_MAX)).

(* ---------------------------------------------------------------- whole module, for the correspondence *)

(* registered handlers: (dlci, true) = sercomm_sendmsg (the echo DLCI set up by sercomm_init),
   (dlci, false) = the recording callback of the harness *)
Record sys := { s_tx : tx; s_rx : rx; s_reg : list (Z * bool) }.

Definition sys0 : sys := {| s_tx := tx0; s_rx := rx0; s_reg := [(c_SC_DLCI_ECHO, true)] |}.

Fixpoint lookup (reg : list (Z * bool)) (d : Z) : option bool :=
  match reg with
  | [] => None
  | (k, e) :: r => if k =? d then Some e else lookup r d
  end.

(* sercomm_register_rx_cb: 0, EINVAL = 22, EBUSY = 16 *)
Definition sys_register (s : sys) (d : Z) : sys * Z :=
  if d >=? HANDLER_MAX then (s, 22)
  else match lookup (s_reg s) d with
       | Some _ => (s, 16)
       | None => ({| s_tx := s_tx s; s_rx := s_rx s; s_reg := s_reg s ++ [(d, false)] |}, 0)
       end.

(* one received octet; result: new state, observation events, false = abort *)
Definition sys_feed1 (cap : Z) (s : sys) (ch : Z) : sys * list Z * bool :=
  let '(r', o) := rx_char cap (s_rx s) ch in
  let s' := {| s_tx := s_tx s; s_rx := r'; s_reg := s_reg s |} in
  match o with
  | RNone => (s', [], true)
  | ROverflow => (s', [3], true)
  | RAbort => (s', [9], false)
  | RMsg d p =>
      if d <? HANDLER_MAX then
        match lookup (s_reg s) d with
        | Some true =>
            match sendmsg (s_tx s) d p with
            | Some t' => ({| s_tx := t'; s_rx := r'; s_reg := s_reg s |}, [], true)
            | None => (s', [9], false)
            end
        | Some false => (s', 2 :: d :: len p :: p, true)
        | None => (s', [], true)
        end
      else (s', [], true)
  end.

Fixpoint sys_feed (cap : Z) (s : sys) (l : list Z) : sys * list Z * bool :=
  match l with
  | [] => (s, [], true)
  | ch :: r =>
      match sys_feed1 cap s ch with
      | (s1, o1, true) => let '(s2, o2, ok) := sys_feed cap s1 r in (s2, o1 ++ o2, ok)
      | (s1, o1, false) => (s1, o1, false)
      end
  end.

Definition sys_pull1 (s : sys) : sys * list Z * option Z * bool :=
  match pull (s_tx s) with
  | (PNone, t') => ({| s_tx := t'; s_rx := s_rx s; s_reg := s_reg s |}, [0], None, true)
  | (PCh c, t') => ({| s_tx := t'; s_rx := s_rx s; s_reg := s_reg s |}, [1; c], Some c, true)
  | (POOB, t') => (s, [9], None, false)
  end.

(* k pulls; loop = true feeds every pulled octet to the receiver *)
Fixpoint sys_pulls (cap : Z) (loop : bool) (k : nat) (s : sys) : sys * list Z * bool :=
  match k with
  | O => (s, [], true)
  | S k' =>
      match sys_pull1 s with
      | (s1, o1, oc, true) =>
          match (if loop then oc else None) with
          | Some c =>
              match sys_feed1 cap s1 c with
              | (s2, o2, true) => let '(s3, o3, ok) := sys_pulls cap loop k' s2 in (s3, o1 ++ o2 ++ o3, ok)
              | (s2, o2, false) => (s2, o1 ++ o2, false)
              end
          | None => let '(s3, o3, ok) := sys_pulls cap loop k' s1 in (s3, o1 ++ o3, ok)
          end
      | (s1, o1, _, false) => (s1, o1, false)
      end
  end.

(* exactly n octets (each 0..255) from the front of l *)
Fixpoint take (n : nat) (l : list Z) : option (list Z * list Z) :=
  match n with
  | O => Some ([], l)
  | S n' =>
      match l with
      | [] => None
      | b :: r =>
          if (0 <=? b) && (b <? 256)
          then match take n' r with Some (a, r') => Some (b :: a, r') | None => None end
          else None
      end
  end.

Fixpoint interp (fuel : nat) (cap : Z) (s : sys) (a : list Z) : list Z :=
  match fuel with
  | O => []
  | S f =>
      match a with
      | [] => []
      | 1 :: d :: n :: r =>
          if n <? 0 then [-999] else
          match take (Z.to_nat n) r with
          | None => [-999]
          | Some (p, r') =>
              match sendmsg (s_tx s) d p with
              | Some t' => interp f cap {| s_tx := t'; s_rx := s_rx s; s_reg := s_reg s |} r'
              | None => [-998]
              end
          end
      | 2 :: k :: r =>
          match sys_pulls cap false (Z.to_nat k) s with
          | (s', o, true) => o ++ interp f cap s' r
          | (_, o, false) => o
          end
      | 3 :: n :: r =>
          if n <? 0 then [-999] else
          match take (Z.to_nat n) r with
          | None => [-999]
          | Some (p, r') =>
              match sys_feed cap s p with
              | (s', o, true) => o ++ interp f cap s' r'
              | (_, o, false) => o
              end
          end
      | 4 :: d :: r =>
          if (0 <=? d) && (d <? 256) then
            let '(s', code) := sys_register s d in 4 :: code :: interp f cap s' r
          else [-999]
      | 5 :: k :: r =>
          match sys_pulls cap true (Z.to_nat k) s with
          | (s', o, true) => o ++ interp f cap s' r
          | (_, o, false) => o
          end
      | _ => [-999]
      end
  end.

(* wire function: a whole op script from the initial state of sercomm_init(), host-build capacity *)
Definition w_c06_script (a : list Z) : list Z := interp (S (length a)) HOST_CAP sys0 a.
