(* Model of trxcon's transceiver interface, src/host/trxcon/src/trx_if.c (C04 C05 C14).
   mirrors: trx_data_rx_cb (c_data_rx), trx_if_handle_phyif_burst_req (c_burst_req), trx_ctrl_read_cb +
   trx_if_measure_rsp_cb (c_ctrl_rsp), trx_ctrl_cmd and the trx_if_cmd_* printers + trx_if_handle_phyif_cmd (c_phyif_cmd).
   Conventions: octet strings / C strings are list Z; C integer conversions are explicit (wrap8/wrap16/wrap32, u8/u16/u32);
   every array read goes through nth_error / a bounded extent and yields a distinguished result when it leaves the
   received octets (RxOOB, TxOOB, CmdOOB, CrUninit); a NULL pointer dereference is CrNullDeref.
   The buffers: uint8_t buf[TRXD_BUF_SIZE] (read() truncates the datagram), char buf[TRXC_BUF_SIZE] (read() of at most
   TRXC_BUF_SIZE-1 octets, then buf[read_len] = 0); only the octets written by read() and that NUL are initialised.
   libc: sscanf "%d"/"%u" as implemented by glibc (optional white space, optional sign, decimal digits; the value goes
   through strtol/strtoul saturation at 64 bits and is then truncated to 32 bits). *)
From Coq Require Import ZArith List Bool.
From OBB Require Import Gen.TrxIfConst Model.Trxd.
Import ListNotations.
Open Scope Z_scope.

(* ---------- C integer conversions ---------- *)
Definition u8 (x : Z) : Z := x mod 256.
Definition u16 (x : Z) : Z := x mod 65536.
Definition u32 (x : Z) : Z := x mod 4294967296.
Definition wrap8 (x : Z) : Z := let u := x mod 256 in if u <? 128 then u else u - 256.                          (* (int8_t) *)
Definition wrap16 (x : Z) : Z := let u := x mod 65536 in if u <? 32768 then u else u - 65536.                   (* (int16_t) *)
Definition wrap32 (x : Z) : Z := let u := x mod 4294967296 in if u <? 2147483648 then u else u - 4294967296.    (* (int) *)

(* =====================================================================================================
   TRXD receive path: trx_data_rx_cb
   ===================================================================================================== *)
Inductive rx_res :=
| RxNone                                          (* read() returned 0 (empty datagram): return 0, nothing happens *)
| RxShort                                         (* read_len < TRXDv0_HDR_LEN: -EINVAL *)
| RxBadVer                                        (* version nibble <> 0: -ENOTSUP *)
| RxBadLen                                        (* payload length not 148, 150, 444, 446: -EINVAL *)
| RxBadFn                                         (* fn >= GSM_TDMA_HYPERFRAME: -EINVAL *)
| RxInd (tn fn rssi toa256 : Z) (burst : list Z)  (* trxcon_phyif_handle_burst_ind (and the RTS indication), return 0 *)
| RxOOB.                                          (* an octet outside the received extent of buf[] was read *)

(* usbit -> sbit, in place: if (buf[8+i] == 255) burst[i] = -127; else burst[i] = 127 - buf[8+i]; *)
Definition c_us2s (b : Z) : Z := if b =? 255 then -127 else 127 - b.
Fixpoint conv_bits (buf : list Z) (i n : nat) : option (list Z) :=
  match n with
  | O => Some []
  | S n' => match nth_error buf (8 + i) with
            | None => None
            | Some b => match conv_bits buf (S i) n' with None => None | Some r => Some (c_us2s b :: r) end
            end
  end.

Definition rx_payload_len (pl : Z) : option Z :=
  if (pl =? nb_gmsk_burst + 2) || (pl =? nb_8psk_burst + 2) then Some (pl - 2)
  else if (pl =? nb_gmsk_burst) || (pl =? nb_8psk_burst) then Some pl
  else None.

Definition c_data_rx (d : list Z) : rx_res :=
  let buf := firstn (Z.to_nat trxd_buf_size) d in            (* read(fd, buf, sizeof(buf)): the rest of the datagram is discarded *)
  let read_len := Z.of_nat (length buf) in
  if read_len <=? 0 then RxNone else
  if read_len <? trxdv0_hdr_len then RxShort else
  match nth_error buf 0 with None => RxOOB | Some b0 =>
  if negb (Z.shiftr b0 4 =? 0) then RxBadVer else
  match rx_payload_len (read_len - trxdv0_hdr_len) with None => RxBadLen | Some bl =>
  match nth_error buf 1, nth_error buf 2, nth_error buf 3, nth_error buf 4, nth_error buf 5, nth_error buf 6, nth_error buf 7 with
  | Some b1, Some b2, Some b3, Some b4, Some b5, Some b6, Some b7 =>
    let tn := Z.land b0 7 in
    let fn := ((b1 * 256 + b2) * 256 + b3) * 256 + b4 in                                       (* osmo_load32be (libosmocore, not in /repo): big-endian *)
    let rssi := wrap8 (- wrap8 b5) in                                                           (* -(int8_t) buf[5], stored in int8_t *)
    let toa := wrap16 (Z.lor (wrap16 (Z.shiftl b6 8)) b7) in                                    (* (int16_t) (buf[6] << 8) | buf[7] *)
    match conv_bits buf 0 (Z.to_nat bl) with
    | None => RxOOB
    | Some bits => if fn >=? c_tdma_hyperframe then RxBadFn else RxInd tn fn rssi toa bits
    end
  | _, _, _, _, _, _, _ => RxOOB
  end end end.

(* RTS indication that follows the burst indication: GSM_TDMA_FN_SUM(bi.fn, trx->fn_advance) in uint32_t arithmetic *)
Definition c_rts_fn (adv fn : Z) : Z := u32 (fn + u32 adv) mod c_tdma_hyperframe.

(* =====================================================================================================
   TRXD transmit path: trx_if_handle_phyif_burst_req
   ===================================================================================================== *)
Inductive tx_res :=
| TxSent (octets : list Z)   (* send(trx_ofd_data.fd, buf, 6 + burst_len) *)
| TxOOB.                     (* memcpy(buf + 6, br->burst, br->burst_len) past uint8_t buf[TRXD_BUF_SIZE]: burst_len is not checked *)

(* tn : uint8_t (stored without mask, no version nibble), fn : uint32_t, pwr : uint8_t, burst : ubit_t[burst_len] *)
Definition c_burst_req (tn fn pwr : Z) (burst : list Z) : tx_res :=
  if 6 + Z.of_nat (length burst) >? trxd_buf_size then TxOOB
  else TxSent ([u8 tn] ++ be32 (u32 fn) ++ [u8 pwr] ++ map u8 burst).

(* =====================================================================================================
   C strings and the libc functions trx_ctrl_read_cb uses
   ===================================================================================================== *)
Definition SP : Z := 32.
(* the C string that starts at the head of an initialised extent: octets up to the first NUL;
   None = no NUL inside the extent (the scan would run into uninitialised memory) *)
Fixpoint cstr (l : list Z) : option (list Z) :=
  match l with
  | [] => None
  | x :: r => if x =? 0 then Some [] else match cstr r with Some s => Some (x :: s) | None => None end
  end.
(* same for an extent known to be followed by NUL (zero-filled char cmd[]) *)
Fixpoint cstr0 (l : list Z) : list Z :=
  match l with [] => [] | x :: r => if x =? 0 then [] else x :: cstr0 r end.

(* strncmp(a, b, n) == 0 on C strings (the lists exclude the terminating NUL) *)
Fixpoint strncmp_eq (a b : list Z) (n : nat) {struct n} : bool :=
  match n with
  | O => true
  | S n' => match a, b with
            | [], [] => true
            | x :: a', y :: b' => (x =? y) && strncmp_eq a' b' n'
            | _, _ => false
            end
  end.

(* strchr(s, ' '): offset of the first space, None = NULL *)
Fixpoint find_sp (s : list Z) : option nat :=
  match s with [] => None | c :: r => if c =? SP then Some O else match find_sp r with Some k => Some (S k) | None => None end end.

Definition is_space (c : Z) : bool := (c =? 32) || ((9 <=? c) && (c <=? 13)).
Definition is_digit (c : Z) : bool := (48 <=? c) && (c <=? 57).
Fixpoint skip_ws (s : list Z) : list Z := match s with c :: r => if is_space c then skip_ws r else s | [] => [] end.
(* decimal digits: (value, number of digits, rest) *)
Fixpoint take_digits (s : list Z) (acc : Z) (n : nat) : Z * nat * list Z :=
  match s with
  | c :: r => if is_digit c then take_digits r (10 * acc + (c - 48)) (S n) else (acc, n, s)
  | [] => (acc, n, [])
  end.
(* white space, optional sign, at least one digit: (negative?, magnitude, rest); None = matching failure / end of input *)
Definition scan_num (s : list Z) : option (bool * Z * list Z) :=
  let s1 := skip_ws s in
  let '(neg, s2) := match s1 with
                    | c :: r => if c =? 45 then (true, r) else if c =? 43 then (false, r) else (false, s1)
                    | [] => (false, s1) end in
  let '(v, cnt, rest) := take_digits s2 0 0 in
  match cnt with O => None | S _ => Some (neg, v, rest) end.
(* %d : strtol (saturating at LONG_MIN / LONG_MAX), stored through (int) *)
Definition scan_d (s : list Z) : option (Z * list Z) :=
  match scan_num s with
  | None => None
  | Some (neg, v, rest) =>
    let x := if neg then - v else v in
    let sat := if x >? 9223372036854775807 then 9223372036854775807 else if x <? -9223372036854775808 then -9223372036854775808 else x in
    Some (wrap32 sat, rest)
  end.
(* %u : strtoul (saturating at ULONG_MAX, a minus sign negates modulo 2^64), stored through (unsigned int) *)
Definition scan_u (s : list Z) : option (Z * list Z) :=
  match scan_num s with
  | None => None
  | Some (neg, v, rest) =>
    let x := if v >? 18446744073709551615 then 18446744073709551615 else if neg then (- v) mod 18446744073709551616 else v in
    Some (u32 x, rest)
  end.

(* ---------- ARFCN <-> frequency (libosmocore) ---------- *)
(* gsm_arfcn2freq10(arfcn, uplink) of the vendored gsm_utils.c: the plain bands through the table regenerated from the
   real function (0xffff outside every band); the PCS branch has no range check, it is 18502 + 2*(arfcn-512) in uint16_t *)
Definition arfcn2freq10 (arfcn : Z) (uplink : bool) : Z :=
  let a := Z.land (u16 arfcn) 4095 in                              (* arfcn &= ~ARFCN_FLAG_MASK *)
  if negb (Z.land (u16 arfcn) arfcn_pcs =? 0) then
    let ul := u16 (18502 + 2 * (a - 512)) in
    if uplink then ul else u16 (ul + 800)
  else
    match nth_error freq10_plain (Z.to_nat a) with
    | Some (dl, ul) => if uplink then ul else dl
    | None => 65535
    end.
(* gsm_freq102arfcn(freq10, 0): NOT part of /repo (system libosmocore); upstream's algorithm: first ARFCN 0..1023 whose
   downlink frequency matches, then 512..810 with the PCS flag, else 0xffff (None) *)
Fixpoint find_arfcn (f : Z) (pcs : bool) (a : Z) (n : nat) : option Z :=
  match n with
  | O => None
  | S n' => let full := if pcs then a + arfcn_pcs else a in
            if arfcn2freq10 full false =? f then Some full else find_arfcn f pcs (a + 1) n'
  end.
Definition freq102arfcn (f : Z) : option Z :=
  match find_arfcn f false 0 1024 with Some a => Some a | None => find_arfcn f true 512 299 end.

(* =====================================================================================================
   TRXC response path: trx_ctrl_read_cb (+ trx_if_measure_rsp_cb)
   ===================================================================================================== *)
Inductive action :=
| ActPowerOn                                   (* powered_up = true, state ACTIVE *)
| ActPowerOff                                  (* powered_up = false, state IDLE *)
| ActEcho                                      (* state IDLE *)
| ActOther                                     (* state prev_state *)
| ActMeasure (freq10 : Z) (res : option (Z * Z))   (* argument of gsm_freq102arfcn; Some (band_arfcn, dbm) handed to trxcon_phyif_handle_rsp *)
| ActMeasureUnparsed.                          (* sscanf(resp, "%u %d") != 2: logged, nothing looked up or handed on *)

Inductive ctrl_res :=
| CrNone                             (* read() <= 0: returned as is, no effect *)
| CrIgnored                          (* no "RSP " signature: return 0, no effect *)
| CrNoPending                        (* command list empty: -EINVAL (after osmo_timer_del) *)
| CrMismatch                         (* verb does not match the pending command: FSM terminated, -EIO *)
| CrNoStatus                         (* no space after the verb (p == NULL) or no number after it (sscanf != 1): FSM terminated, -EIO *)
| CrRejected (status : Z)            (* critical command answered with a non-zero status: FSM terminated, -EIO *)
| CrAccepted (status : Z) (a : action)  (* command removed from the list, next one sent, return 0 (status <> 0 only if not critical) *)
| CrNullDeref                        (* a NULL pointer is dereferenced - not produced by any path of the repaired code (commit 35bc7c1);
                                        before it: sscanf(p + 1, ...) with p = strchr(...) = NULL *)
| CrUninit (what : Z).               (* a value never written is read - not produced any more either; before the repair: 1 = resp (sscanf
                                        assigned nothing), 2 = MEASURE text at buf + 14 beyond the received octets, 3 = freq10, 4 = dbm.
                                        Both constructors stay so that c_ctrl_rsp_safe is a statement with content. *)

Definition s_RSP : list Z := [82; 83; 80; 32].                       (* "RSP " *)
Definition s_POWERON : list Z := [80; 79; 87; 69; 82; 79; 78].
Definition s_POWEROFF : list Z := [80; 79; 87; 69; 82; 79; 70; 70].
Definition s_MEASURE : list Z := [77; 69; 65; 83; 85; 82; 69].
Definition s_ECHO : list Z := [69; 67; 72; 79].

(* trx_if_measure_rsp_cb(trx, resp): resp is a C string inside buf (or ""), so every octet it reads was received *)
Definition c_measure_rsp (m : list Z) (status : Z) : ctrl_res :=
  match scan_u m with                                                (* sscanf(resp, "%u %d", &freq10, &dbm) != 2 -> return *)
  | None => CrAccepted status ActMeasureUnparsed
  | Some (f, rest) =>
    match scan_d rest with
    | None => CrAccepted status ActMeasureUnparsed
    | Some (dbm, _) =>
      let f10 := u16 (f / 100) in                                    (* freq10 /= 100; (uint16_t) freq10 *)
      match freq102arfcn f10 with
      | None => CrAccepted status (ActMeasure f10 None)              (* 0xffff: logged, nothing handed on *)
      | Some arfcn => CrAccepted status (ActMeasure f10 (Some (arfcn, dbm)))
      end
    end
  end.

(* what follows the status in a reply: p = strchr(p + 1, ' '); p ? p + 1 : "" *)
Definition after_status (after : list Z) : list Z :=
  match find_sp after with Some j => skipn (j + 1) after | None => [] end.

(* pending = first entry of trx_ctrl_list: (critical, cmd[] contents) *)
Definition c_ctrl_rsp (pending : option (bool * list Z)) (d : list Z) : ctrl_res :=
  let data := firstn (Z.to_nat (trxc_buf_size - 1)) d in           (* read(fd, buf, sizeof(buf) - 1) *)
  match data with [] => CrNone | _ :: _ =>
  let ext := data ++ [0] in                                         (* buf[read_len] = '\0' *)
  match cstr ext with None => CrUninit 0 (* impossible: ext ends with NUL *) | Some s =>
  if negb (strncmp_eq s s_RSP 4) then CrIgnored else
  let p := find_sp (skipn 4 s) in                                   (* strchr(buf + 4, ' ') *)
  let rsp_len := match p with Some k => k | None => (length s - 4)%nat end in
  match pending with None => CrNoPending | Some (critical, cmdbuf) =>
  let cmd4 := skipn 4 (cstr0 cmdbuf) in                             (* tcm->cmd + 4 (cmd[] is zero-filled) *)
  if negb (strncmp_eq (skipn 4 s) cmd4 rsp_len) then CrMismatch else
  match p with None => CrNoStatus | Some k =>                        (* p == NULL || ... -> rsp_error *)
  let after := skipn (4 + k + 1) s in                               (* p + 1 *)
  match scan_d after with                                           (* sscanf(p + 1, "%d", &resp) != 1 -> rsp_error *)
  | None => CrNoStatus
  | Some (resp, _) =>
    if negb (resp =? 0) && critical then CrRejected resp else
    if strncmp_eq cmd4 s_POWERON 7 then CrAccepted resp ActPowerOn
    else if strncmp_eq cmd4 s_POWEROFF 8 then CrAccepted resp ActPowerOff
    else if strncmp_eq cmd4 s_MEASURE 7 then c_measure_rsp (after_status after) resp
    else if strncmp_eq cmd4 s_ECHO 4 then CrAccepted resp ActEcho
    else CrAccepted resp ActOther
  end end end end end.

Definition cr_unsafe (r : ctrl_res) : bool :=
  match r with CrNullDeref | CrUninit _ => true | _ => false end.

(* a reply carries a status field: a space after the verb, then optional white space, optional sign and at least one digit
   (otherwise a matching reply ends in CrNoStatus) *)
Definition rsp_has_status (d : list Z) : bool :=
  let s := cstr0 (firstn (Z.to_nat (trxc_buf_size - 1)) d) in
  match find_sp (skipn 4 s) with
  | None => false
  | Some k => match scan_num (skipn (4 + k + 1) s) with Some _ => true | None => false end
  end.

(* =====================================================================================================
   TRXC command emission: trx_ctrl_cmd, trx_if_cmd_*, trx_if_handle_phyif_cmd
   ===================================================================================================== *)
(* decimal printing (%u / %d) *)
Fixpoint dec_rev (k : nat) (n : Z) : list Z :=
  match k with
  | O => []
  | S k' => (48 + n mod 10) :: (if n / 10 =? 0 then [] else dec_rev k' (n / 10))
  end.
Definition dec_u (n : Z) : list Z := rev (dec_rev 40 n).                      (* n >= 0, fewer than 40 digits *)
Definition dec_d (n : Z) : list Z := if n <? 0 then 45 :: dec_u (- n) else dec_u n.

Definition s_CMD : list Z := [67; 77; 68; 32].                                (* "CMD " *)
(* trx_ctrl_cmd(trx, critical, verb, fmt, ...): snprintf(cmd, sizeof(cmd) - 1, "CMD %s ", verb) + vsnprintf(cmd + len,
   sizeof(cmd) - len - 1, fmt, ...) - at most sizeof(cmd) - 2 characters survive; an empty fmt gives "CMD <verb>" *)
Definition c_ctrl_cmd (verb args : list Z) : list Z :=
  match args with
  | [] => firstn (Z.to_nat (ctrl_cmd_size - 2)) (s_CMD ++ verb)
  | _ => firstn (Z.to_nat (ctrl_cmd_size - 2)) (s_CMD ++ verb ++ [SP] ++ args)
  end.

Definition v_ECHO := s_ECHO.
Definition v_POWEROFF := s_POWEROFF.
Definition v_POWERON := s_POWERON.
Definition v_MEASURE := s_MEASURE.
Definition v_SETSLOT : list Z := [83; 69; 84; 83; 76; 79; 84].
Definition v_RXTUNE : list Z := [82; 88; 84; 85; 78; 69].
Definition v_TXTUNE : list Z := [84; 88; 84; 85; 78; 69].
Definition v_SETTA : list Z := [83; 69; 84; 84; 65].
Definition v_SETFH : list Z := [83; 69; 84; 70; 72].

(* symbolic -errno *)
Definition E_INVAL : Z := 1. Definition E_NOTSUP : Z := 2. Definition E_NODEV : Z := 4. Definition E_NOSPC : Z := 5.

Inductive phy_cmd :=
| PReset | PPowerOn | PPowerOff
| PMeasure (arfcn : Z) | PSetFreqH0 (arfcn : Z)
| PSetFreqH1 (hsn maio : Z) (ma : list Z)        (* ma_len = length ma; [] also stands for ma = NULL *)
| PSetSlot (tn pchan : Z) | PSetTa (ta : Z)
| PUnknown (type : Z).

Inductive cmd_res :=
| CmdQ (rc : Z) (q : list (bool * list Z))   (* return code (0 or symbolic -errno) and the commands appended to trx_ctrl_list: (critical, text) *)
| CmdOOB.                                    (* chan_types[pchan] read past the table *)

(* one frequency command: RXTUNE / TXTUNE / MEASURE "%u", freq10 * 100 *)
Definition c_cmd_freq (verb : list Z) (arfcn : Z) (uplink : bool) : Z * list (bool * list Z) :=
  let f := arfcn2freq10 arfcn uplink in
  if f =? 65535 then (E_NOTSUP, []) else (0, [(true, c_ctrl_cmd verb (dec_u (f * 100)))]).

(* the SETFH loop: snprintf(ptr, ma_buf_len, "%u %u ", rx_freq * 100, tx_freq * 100); remaining room ma_buf_len *)
Fixpoint c_setfh_ma (ma : list Z) (room : Z) (acc : list Z) : Z * list Z :=
  match ma with
  | [] => (0, acc)
  | a :: r =>
    let rx := arfcn2freq10 a false in
    let tx := arfcn2freq10 a true in
    if (rx =? 65535) || (tx =? 65535) then (E_INVAL, acc) else
    let txt := dec_u (rx * 100) ++ [SP] ++ dec_u (tx * 100) ++ [SP] in
    let rc := Z.of_nat (length txt) in
    if rc >? room then (E_NOSPC, acc) else c_setfh_ma r (room - rc) (acc ++ txt)
  end.

Definition c_phyif_cmd (c : phy_cmd) : cmd_res :=
  match c with
  | PReset => CmdQ 0 [(true, c_ctrl_cmd v_POWEROFF []); (true, c_ctrl_cmd v_ECHO [])]
  | PPowerOn => CmdQ 0 [(true, c_ctrl_cmd v_POWERON [])]
  | PPowerOff => CmdQ 0 [(true, c_ctrl_cmd v_POWEROFF [])]
  | PMeasure arfcn => let '(rc, q) := c_cmd_freq v_MEASURE arfcn false in CmdQ rc q
  | PSetFreqH0 arfcn =>
    let '(rc1, q1) := c_cmd_freq v_RXTUNE arfcn false in
    if negb (rc1 =? 0) then CmdQ rc1 q1 else
    let '(rc2, q2) := c_cmd_freq v_TXTUNE arfcn true in CmdQ rc2 (q1 ++ q2)
  | PSetFreqH1 hsn maio ma =>
    match ma with
    | [] => CmdQ E_INVAL []
    | _ => let '(rc, txt) := c_setfh_ma ma (trxc_buf_size - 24 - 1) [] in       (* char ma_buf[TRXC_BUF_SIZE - 24]; room sizeof - 1 *)
           if negb (rc =? 0) then CmdQ rc [] else
           CmdQ 0 [(true, c_ctrl_cmd v_SETFH (dec_u (u8 hsn) ++ [SP] ++ dec_u (u8 maio) ++ [SP] ++ removelast txt))]
    end
  | PSetSlot tn pchan =>
    match nth_error chan_types (Z.to_nat (u8 pchan)) with
    | None => CmdOOB
    | Some ct => CmdQ 0 [(true, c_ctrl_cmd v_SETSLOT (dec_u (u8 tn) ++ [SP] ++ dec_u ct))]
    end
  | PSetTa ta => CmdQ 0 [(false, c_ctrl_cmd v_SETTA (dec_d (wrap8 ta)))]
  | PUnknown _ => CmdQ E_NODEV []
  end.

(* =====================================================================================================
   wire functions (flat int lists)
   ===================================================================================================== *)
(* [fn_advance; octets...] -> [rc; called; tn; fn; rssi; toa256; len; sbits...; 1; rts_fn; rts_tn]   rc: 0 OK, 1 EINVAL, 2 ENOTSUP, 9 OOB *)
Definition w_trxif_rx (a : list Z) : list Z :=
  match a with
  | adv :: d =>
    match c_data_rx d with
    | RxNone => [0; 0]
    | RxShort | RxBadLen | RxBadFn => [1; 0]
    | RxBadVer => [2; 0]
    | RxInd tn fn rssi toa bits => [0; 1; tn; fn; rssi; toa; Z.of_nat (length bits)] ++ bits ++ [1; c_rts_fn adv fn; tn]
    | RxOOB => [9]
    end
  | [] => [-999]
  end.
(* branch taken (for coverage accounting only) *)
Definition w_trxif_rx_branch (a : list Z) : list Z :=
  match c_data_rx a with
  | RxNone => [0] | RxShort => [1] | RxBadVer => [2] | RxBadLen => [3] | RxBadFn => [4]
  | RxInd _ _ _ _ bits => [5; Z.of_nat (length bits); Z.of_nat (length a) - 8 - Z.of_nat (length bits)] | RxOOB => [9]
  end.
(* [tn; fn; pwr; ubits...] -> [0; octets...] | [9] *)
Definition w_trxif_tx (a : list Z) : list Z :=
  match a with
  | tn :: fn :: pwr :: bits => match c_burst_req tn fn pwr bits with TxSent o => 0 :: o | TxOOB => [9] end
  | _ => [-999]
  end.

Definition dec_pending (a : list Z) : option (option (bool * list Z) * list Z) :=
  match a with
  | has :: crit :: plen :: r =>
    if has =? 0 then Some (None, r)
    else Some (Some (negb (crit =? 0), firstn (Z.to_nat plen) r), skipn (Z.to_nat plen) r)
  | _ => None
  end.
(* [has_pending; critical; plen; pending chars...; octets...] ->
   [10] no effect | [12] no pending | [13] FSM terminated (-EIO: mismatch, no status, rejected) | [20; act; ...] accepted | [90] NULL dereference | [80; what] uninitialised read (the last two unreachable) *)
Definition enc_ctrl (r : ctrl_res) : list Z :=
  match r with
  | CrNone | CrIgnored => [10]
  | CrNoPending => [12]
  | CrMismatch | CrNoStatus | CrRejected _ => [13]
  | CrAccepted _ ActPowerOn => [20; 1]
  | CrAccepted _ ActPowerOff => [20; 2]
  | CrAccepted _ (ActMeasure f None) => [20; 3; f; 0]
  | CrAccepted _ (ActMeasure f (Some (a, dbm))) => [20; 3; f; 1; a; dbm]
  | CrAccepted _ ActEcho => [20; 4]
  | CrAccepted _ ActOther => [20; 5]
  | CrAccepted _ ActMeasureUnparsed => [20; 6]
  | CrNullDeref => [90]
  | CrUninit w => [80; w]
  end.
Definition w_trxif_rsp (a : list Z) : list Z :=
  match dec_pending a with Some (p, d) => enc_ctrl (c_ctrl_rsp p d) | None => [-999] end.
(* constructor and status (coverage accounting, and what the log line would say) *)
Definition w_trxif_rsp_branch (a : list Z) : list Z :=
  match dec_pending a with
  | Some (p, d) =>
    match c_ctrl_rsp p d with
    | CrNone => [0] | CrIgnored => [1] | CrNoPending => [2] | CrMismatch => [3] | CrRejected s => [4; s]
    | CrAccepted s _ => [5; s] | CrNullDeref => [6] | CrUninit w => [7; w] | CrNoStatus => [8]
    end
  | None => [-999]
  end.
Definition dec_cmd (a : list Z) : phy_cmd :=
  match a with
  | 0 :: _ => PReset
  | 1 :: _ => PPowerOn
  | 2 :: _ => PPowerOff
  | 3 :: arfcn :: _ => PMeasure arfcn
  | 4 :: arfcn :: _ => PSetFreqH0 arfcn
  | 5 :: hsn :: maio :: n :: ma => PSetFreqH1 hsn maio (firstn (Z.to_nat n) ma)
  | 6 :: tn :: pchan :: _ => PSetSlot tn pchan
  | 7 :: ta :: _ => PSetTa ta
  | t :: _ => PUnknown t
  | [] => PUnknown (-1)
  end.
(* [type; params...] -> [rc; nq; {critical; len; chars...}...] | [9] *)
Definition w_trxif_cmd (a : list Z) : list Z :=
  match c_phyif_cmd (dec_cmd a) with
  | CmdQ rc q => rc :: Z.of_nat (length q) :: flat_map (fun e : bool * list Z => (if fst e then 1 else 0) :: Z.of_nat (length (snd e)) :: snd e) q
  | CmdOOB => [9]
  end.
