(* Model of the firmware's RUNNING GSM time (C19, second part): the time part of struct l1s_state and every operation of
   src/target/firmware/layer1 that writes it, as written in the source.
   mirrors: sync.c  l1_sync() "Increment Time" statements, synchronize_tdma(), the .bss start value of l1s;
            prim_fbsb.c  l1s_decode_sb() (time part) and the re-initialisation in l1s_sbdet_resp()
              gsm_fn2gsmtime(&l1s.current_time, fbs.mon.time.fn + SB2_LATENCY); l1s.next_time = l1s.current_time; l1s_time_inc(&l1s.next_time, 1);
            the call-site expressions of Gen/GsmTimeSites.v (translated from the current source text on every run).
   C integers: struct gsm_time { uint32_t fn; uint16_t t1; uint8_t t2, t3, tc; }, l1s.tpu_offset uint32_t,
   cinfo->fn_offset int32_t, cinfo->time_alignment uint32_t; the int32_t fn_offset is handed to l1s_time_inc(uint32_t delta_fn):
   a negative offset arrives as 2^32 + offset. Definitions only. *)
From Coq Require Import ZArith List Bool.
From OBB Require Import Gen.GsmTimeConst Gen.GsmTimeSites Model.GsmTime.
Import ListNotations.
Open Scope bool_scope.
Open Scope Z_scope.

Record tstate := { cur : gt; nxt : gt; tpu : Z }.

Definition zero_gt : gt := {| g_fn := 0; g_t1 := 0; g_t2 := 0; g_t3 := 0; g_tc := 0 |}.

(* struct l1s_state l1s; lives in .bss; neither l1s_init() nor l1s_reset() writes the two times *)
Definition boot : tstate := {| cur := zero_gt; nxt := zero_gt; tpu := 0 |}.

(* l1_sync():  l1s.current_time = l1s.next_time; l1s_time_inc(&l1s.next_time, 1); *)
Definition frame_irq (st : tstate) : tstate :=
  {| cur := nxt st; nxt := time_inc (nxt st) 1; tpu := tpu st |}.

(* value of an int32_t expression after two's complement wrap (the C standard leaves signed overflow undefined;
   the theorems exclude it by hypothesis) *)
Definition s32 (x : Z) : Z := (x + 2147483648) mod 4294967296 - 2147483648.

(* synchronize_tdma(cinfo): tpu_shift = time_alignment; tpu_shift += 75; tpu_shift = (l1s.tpu_offset + tpu_shift) % QBITS_PER_TDMA;
   fn_offset = cinfo->fn_offset - 1; if (tpu_shift < SWITCH_TIME) fn_offset++; l1s.tpu_offset = tpu_shift;
   l1s_time_inc(&l1s.current_time, fn_offset); l1s.next_time = l1s.current_time; l1s_time_inc(&l1s.next_time, 1); *)
Definition sync_shift (st : tstate) (ta : Z) : Z :=
  Z.rem (u32 (tpu st + u32 (ta + 75))) c_QBITS_PER_TDMA.
Definition sync_delta (st : tstate) (fo ta : Z) : Z :=
  let d := s32 (fo - 1) in
  if sync_shift st ta <? c_SWITCH_TIME then s32 (d + 1) else d.
Definition sync_tdma (st : tstate) (fo ta : Z) : tstate :=
  let c := time_inc (cur st) (u32 (sync_delta st fo ta)) in
  {| cur := c; nxt := time_inc c 1; tpu := sync_shift st ta |}.

(* l1s_decode_sb(time, sb), the time part *)
Definition sb_t1 (sb : Z) : Z :=
  Z.lor (Z.lor (Z.land (Z.shiftr sb 23) 1) (Z.land (Z.shiftr sb 7) 510)) (Z.land (u32 (Z.shiftl sb 9)) 1536).
Definition sb_t2 (sb : Z) : Z := Z.land (Z.shiftr sb 18) 31.
Definition sb_t3p (sb : Z) : Z := Z.lor (Z.land (Z.shiftr sb 24) 1) (Z.land (Z.shiftr sb 15) 6).
(* time->t1 = ..; time->t2 = ..; time->t3 = t3p*10 + 1; time->fn = gsm_gsmtime2fn(time); time->tc = (time->fn / 51) % 8; *)
Definition sb_time (t1 t2 t3p : Z) : gt :=
  let t3 := u8 (t3p * 10 + 1) in
  let fn := gsmtime2fn {| g_fn := 0; g_t1 := u16 t1; g_t2 := u8 t2; g_t3 := t3; g_tc := 0 |} in
  {| g_fn := fn; g_t1 := u16 t1; g_t2 := u8 t2; g_t3 := t3; g_tc := u8 (Z.rem (Z.quot fn 51) 8) |}.
Definition decode_sb (sb : Z) : gt := sb_time (sb_t1 sb) (sb_t2 sb) (sb_t3p sb).

(* the re-initialisation after a decoded synchronisation burst; the argument expression is the regenerated one *)
Definition fbsb_reinit (st : tstate) (monfn : Z) : tstate :=
  let c := fn2gsmtime (site_prim_fbsb_1 monfn 0) in
  {| cur := c; nxt := time_inc c 1; tpu := tpu st |}.

(* histories *)
Inductive op :=
| OIrq (n : nat)            (* n frame interrupts *)
| OSync (fo ta : Z)         (* synchronize_tdma with cinfo->fn_offset = fo, cinfo->time_alignment = ta *)
| OFbsb (monfn : Z)         (* re-initialisation with fbs.mon.time.fn = monfn *)
| OSb (sb : Z)              (* l1s_decode_sb(&fbs.mon.time, sb) followed by the re-initialisation *)
| ORaw (st : tstate).       (* harness only: overwrite the state *)

Fixpoint irq_n (n : nat) (st : tstate) : tstate :=
  match n with O => st | S k => irq_n k (frame_irq st) end.

Definition step (st : tstate) (o : op) : tstate :=
  match o with
  | OIrq n => irq_n n st
  | OSync fo ta => sync_tdma st fo ta
  | OFbsb m => fbsb_reinit st m
  | OSb sb => fbsb_reinit st (g_fn (decode_sb sb))
  | ORaw s => s
  end.

Definition run (st : tstate) (ops : list op) : tstate := fold_left step ops st.

(* ---- wire functions *)
Definition gt_obs (g : gt) : list Z := [g_fn g; g_t1 g; g_t2 g; g_t3 g; g_tc g].
Definition st_obs (st : tstate) : list Z := gt_obs (cur st) ++ gt_obs (nxt st) ++ [tpu st].

Definition mix (st : tstate) : Z :=
  let c := cur st in let n := nxt st in
  g_fn c + 3 * g_t1 c + 5 * g_t2 c + 7 * g_t3 c + 11 * g_tc c + 13 * g_fn n + 17 * g_t1 n + 19 * g_t2 n + 23 * g_t3 n + 29 * g_tc n.
(* rolling digest over every intermediate state of a run of interrupts *)
Fixpoint irq_hash (n : nat) (st : tstate) (h : Z) : Z :=
  match n with O => h | S k => let st' := frame_irq st in irq_hash k st' ((h * 31 + mix st') mod 1073741789) end.

Definition inr (lo x hi : Z) : bool := (lo <=? x) && (x <=? hi).

Fixpoint decode_ops (fuel : nat) (a : list Z) : option (list op) :=
  match fuel with O => None | S k =>
  match a with
  | [] => Some []
  | 0 :: n :: r => if inr 0 n 100000 then option_map (cons (OIrq (Z.to_nat n))) (decode_ops k r) else None
  | 1 :: fo :: ta :: r => if inr (-2147483648) fo 2147483647 && inr 0 ta 4294967295 then option_map (cons (OSync fo ta)) (decode_ops k r) else None
  | 2 :: m :: r => if inr 0 m 4294967295 then option_map (cons (OFbsb m)) (decode_ops k r) else None
  | 3 :: sb :: r => if inr 0 sb 4294967295 then option_map (cons (OSb sb)) (decode_ops k r) else None
  | 4 :: c0 :: c1 :: c2 :: c3 :: c4 :: n0 :: n1 :: n2 :: n3 :: n4 :: tp :: r =>
      if inr 0 c0 4294967295 && inr 0 c1 65535 && inr 0 c2 255 && inr 0 c3 255 && inr 0 c4 255 &&
         inr 0 n0 4294967295 && inr 0 n1 65535 && inr 0 n2 255 && inr 0 n3 255 && inr 0 n4 255 && inr 0 tp 4294967295
      then option_map (cons (ORaw {| cur := {| g_fn := c0; g_t1 := c1; g_t2 := c2; g_t3 := c3; g_tc := c4 |};
                                     nxt := {| g_fn := n0; g_t1 := n1; g_t2 := n2; g_t3 := n3; g_tc := n4 |}; tpu := tp |})) (decode_ops k r)
      else None
  | _ => None
  end end.

Fixpoint scan (st : tstate) (ops : list op) : list Z :=
  match ops with
  | [] => []
  | o :: r =>
      let st' := step st o in
      let extra := match o with
                   | OIrq n => [irq_hash n st 0]
                   | OSb sb => 0 :: gt_obs (decode_sb sb)
                   | _ => [0]
                   end in
      st_obs st' ++ extra ++ scan st' r
  end.

Definition w_c19_run (a : list Z) : list Z :=
  match decode_ops (S (length a)) a with
  | Some ops => scan boot ops
  | None => [-999]
  end.

(* the call-site expressions, in the fixed order the harness uses *)
Definition site_eval (idx v aux : Z) : option Z :=
  if idx =? 0 then Some (site_prim_tch_1 v aux) else
  if idx =? 1 then Some (site_prim_tch_2 v aux) else
  if idx =? 2 then Some (site_prim_rx_nb_1 v aux) else
  if idx =? 3 then Some (site_prim_rx_nb_2 v aux) else
  if idx =? 4 then Some (site_prim_fbsb_1 v aux) else
  if idx =? 5 then Some (site_prim_rach_1 v aux) else
  if idx =? 6 then Some (site_prim_freq_1 v aux) else None.

Definition w_c19_site (a : list Z) : list Z :=
  match a with
  | [idx; v; aux] =>
      if inr 0 v 4294967295 && inr (-2147483648) aux 2147483647 then
        match site_eval idx v aux with
        | Some arg => arg :: gt_obs (fn2gsmtime arg)
        | None => [-999]
        end
      else [-999]
  | _ => [-999]
  end.

Definition w_c19_sb (a : list Z) : list Z :=
  match a with
  | [sb] => if inr 0 sb 4294967295 then gt_obs (decode_sb sb) ++ [Z.land (Z.shiftr sb 2) 63] else [-999]
  | _ => [-999]
  end.
