(* Model of the two multiframe mappings (C11). Definitions only.
   mirrors: firmware layer1/mframe_sched.c  mframe_schedule_set(), mframe_schedule()  (tables come from Gen/MframeFw.v)
            trxcon   src/sched_mframe.c     l1sched_mframe_layout()                  (tables come from Gen/MframeTrxcon.v)
            trxcon   src/sched_trx.c        l1sched_pull_burst() / l1sched_handle_rx_burst(): frames[fn % period]
   C integers: l1s.current_time.fn is uint32_t (fn + SCHEDULE_AHEAD wraps mod 2^32), modulo/frame_nr/flags are uint16_t,
   tdma_schedule_set(uint8_t frame_offset, set, uint16_t p3); period/slotmask are uint8_t, lchan_mask uint64_t.
   Division by a zero modulo/period and a NULL table are explicit results. *)
From Coq Require Import ZArith List Bool.
From OBB Require Import Base.Range Gen.MframeFw Gen.MframeTrxcon.
Import ListNotations.
Open Scope Z_scope.

Definition u8 (x : Z) := x mod 256.
Definition u16 (x : Z) := x mod 65536.
Definition u32 (x : Z) := x mod 4294967296.
Definition s32 (x : Z) : Z := let y := u32 x in if y <? 2147483648 then y else y - 4294967296.   (* a uint32_t read as int *)

(* ------------------------------------------------------------------ firmware *)

(* item kinds = which TDMA sched set the row points to (codes fixed by charness/c11_fw_common.h) *)
Definition K_NB_DL : Z := 0.   (* nb_sched_set:       4-burst downlink block *)
Definition K_NB_UL : Z := 1.   (* nb_sched_set_ul:    4-burst uplink block *)
Definition K_PM    : Z := 2.   (* neigh_pm_sched_set: neighbour power measurement *)
Definition K_TCH   : Z := 3.   (* tch_sched_set:      one traffic frame (Rx and Tx) *)
Definition K_TCH_A : Z := 4.   (* tch_a_sched_set:    one SACCH/T frame *)
Definition K_TCH_D : Z := 5.   (* tch_d_sched_set:    dummy (frame of the other TCH/H sub-channel) *)

(* one recorded call tdma_schedule_set(frame_offset, set, p3) as (frame_offset, kind of set, p3) *)
Definition call := (Z * Z * Z)%type.

Inductive fwres :=
| FwNull                (* sched_set_for_task[task] == NULL is dereferenced *)
| FwDivZero             (* a row with modulo 0: frame_nr % 0 *)
| FwOk (cs : list call).

(* the body of the for-loop of mframe_schedule_set(task_id) with l1s.current_time.fn = cur *)
Fixpoint fw_set_items (task cur : Z) (items : list (Z*Z*Z*Z)) : option (list call) :=
  match items with
  | [] => Some []
  | (kind, modulo, frame_nr, flags) :: tl =>
      if modulo =? 0 then None
      else
        let trigger := frame_nr mod modulo in
        let current := u32 (cur + fw_SCHEDULE_AHEAD) mod modulo in
        match fw_set_items task cur tl with
        | None => None
        | Some r =>
            Some (if current =? trigger
                  then (u8 (fw_SCHEDULE_AHEAD - fw_SCHEDULE_LATENCY), kind, u16 (Z.lor task (Z.shiftl flags 8))) :: r
                  else r)
        end
  end.

Definition fw_schedule_set (task cur : Z) : fwres :=
  match nth_error fw_sched (Z.to_nat task) with
  | Some (Some items) => match fw_set_items task cur items with Some cs => FwOk cs | None => FwDivZero end
  | _ => FwNull
  end.

(* mframe_schedule() right after mframe_reset()+mframe_set(mask): safe_fn = -1UL >= GSM_MAX_FN, so tasks := tasks_tgt = mask;
   then for (i = 0; i < 32; i++) if (tasks & (1 << i)) mframe_schedule_set(i) *)
Fixpoint fw_sched_tasks (mask cur : Z) (ids : list Z) : fwres :=
  match ids with
  | [] => FwOk []
  | i :: tl =>
      if Z.testbit mask i then
        match fw_schedule_set i cur with
        | FwOk c => match fw_sched_tasks mask cur tl with FwOk r => FwOk (c ++ r) | e => e end
        | e => e
        end
      else fw_sched_tasks mask cur tl
  end.

Definition fw_mframe_schedule (mask cur : Z) : fwres := fw_sched_tasks (u32 mask) cur (range 0 32).

(* does the call carry this sched set and this value of the MF_F_SACCH flag (p3 = task_id | flags << 8) *)
Definition call_is (kind : Z) (sacch : bool) (c : call) : bool :=
  let '(_, k, p3) := c in
  (k =? kind) && Bool.eqb (negb (Z.land (Z.shiftr p3 8) fw_MF_F_SACCH =? 0)) sacch.

(* "the firmware, at current frame cur, starts an item of this kind (with / without the SACCH flag) for this task";
   the item is on air SCHEDULE_AHEAD frames later *)
Definition fw_fires (task kind : Z) (sacch : bool) (cur : Z) : bool :=
  match fw_schedule_set task cur with FwOk cs => existsb (call_is kind sacch) cs | _ => false end.

(* does the task have a row that is none of the listed (kind, flags) pairs *)
Definition fw_rows_within (task : Z) (allowed : list (Z*Z)) : bool :=
  match nth_error fw_sched (Z.to_nat task) with
  | Some (Some items) =>
      forallb (fun it : Z*Z*Z*Z => let '(k, _, _, fl) := it in existsb (fun a : Z*Z => (fst a =? k) && (snd a =? fl)) allowed) items
  | _ => false
  end.

Definition fw_task_chan_nr (task tn : Z) : Z := nth (Z.to_nat tn) (nth (Z.to_nat task) fw_chan_nr []) (-1).

(* ------------------------------------------------------------------ firmware: the scheduler state and its operations
   struct mframe_scheduler { uint32_t tasks, tasks_tgt, safe_fn; }: tasks_tgt is what L1A asked for (mframe_enable / mframe_disable /
   mframe_set), tasks is what is scheduled; new tasks are taken over only when no DSP command of an earlier set is in flight
   (the current frame has reached safe_fn), disabled ones are dropped at once.
   C integers: `int fn_diff = safe_fn - current_time.fn` is the 32-bit difference read as int; `-1UL` stored in safe_fn is 2^32-1;
   ADD_MODULO(fn, rv - 2, GSM_MAX_FN) on a uint32_t: fn += rv - 2 (mod 2^32); if (fn >= GSM_MAX_FN) fn -= GSM_MAX_FN;
   rv = what tdma_schedule_set() returns = the number of frames of the set (Gen fw_set_frames; a bucket overflow, -1, is C08's subject). *)

Record mfst := mkmf { ms_tasks : Z; ms_tgt : Z; ms_safe : Z }.

Definition mf_reset : mfst := mkmf 0 0 4294967295.
Definition mf_enable (t : Z) (s : mfst) : mfst := mkmf (ms_tasks s) (u32 (Z.lor (ms_tgt s) (Z.shiftl 1 t))) (ms_safe s).
Definition mf_disable (t : Z) (s : mfst) : mfst := mkmf (ms_tasks s) (Z.ldiff (ms_tgt s) (Z.shiftl 1 t)) (ms_safe s).
Definition mf_set (m : Z) (s : mfst) : mfst := mkmf (ms_tasks s) (u32 m) (ms_safe s).

(* (fn_diff <= 0) || (fn_diff >= (GSM_MAX_FN>>1)) || (safe_fn >= GSM_MAX_FN) *)
Definition mf_safe_test (cur : Z) (s : mfst) : bool :=
  let d := s32 (ms_safe s - cur) in
  (d <=? 0) || (d >=? Z.shiftr fw_GSM_MAX_FN 1) || (ms_safe s >=? fw_GSM_MAX_FN).

(* safe: tasks = tasks_tgt; safe_fn = -1UL (the reached safe point is forgotten);  else: tasks &= tasks_tgt *)
Definition mf_tasks_after (cur : Z) (s : mfst) : Z :=
  if mf_safe_test cur s then ms_tgt s else Z.land (ms_tasks s) (ms_tgt s).
Definition mf_safe_after_test (cur : Z) (s : mfst) : Z :=
  if mf_safe_test cur s then 4294967295 else ms_safe s.

Definition set_rv (kind : Z) : Z := nth (Z.to_nat kind) fw_set_frames 0.

Definition add_modulo (sum delta m : Z) : Z := let x := u32 (sum + delta) in if x >=? m then u32 (x - m) else x.

(* mframe_schedule_set() after one tdma_schedule_set() call: fn = current fn (+) (rv - 2);
   if (safe_fn >= GSM_MAX_FN || (fn != safe_fn && ((fn + GSM_MAX_FN - safe_fn) % GSM_MAX_FN) < (GSM_MAX_FN >> 1))) safe_fn = fn; *)
Definition safe_upd (cur : Z) (safe : Z) (c : call) : Z :=
  let '(_, kind, _) := c in
  let fn := add_modulo (u32 cur) (set_rv kind - 2) fw_GSM_MAX_FN in
  if (safe >=? fw_GSM_MAX_FN) ||
     (negb (fn =? safe) && (u32 (fn + fw_GSM_MAX_FN - safe) mod fw_GSM_MAX_FN <? Z.shiftr fw_GSM_MAX_FN 1))
  then fn else safe.

(* mframe_schedule() at current frame cur: the tdma_schedule_set() calls (exactly those of the per-tick core fw_mframe_schedule with
   the task mask after the update) and the state afterwards; safe_fn is only read by its own update, so folding the update over the
   calls in order is the interleaving of the code *)
Definition mf_schedule (cur : Z) (s : mfst) : fwres * mfst :=
  let t := mf_tasks_after cur s in
  let sf := mf_safe_after_test cur s in
  match fw_mframe_schedule t cur with
  | FwOk cs => (FwOk cs, mkmf t (ms_tgt s) (fold_left (safe_upd cur) cs sf))
  | e => (e, mkmf t (ms_tgt s) sf)
  end.

(* histories of requests and ticks *)
Inductive mfop := OpEnable (t : Z) | OpDisable (t : Z) | OpSet (m : Z) | OpReset | OpTick (cur : Z).

Definition mf_step (s : mfst) (o : mfop) : mfst :=
  match o with
  | OpEnable t => mf_enable t s
  | OpDisable t => mf_disable t s
  | OpSet m => mf_set m s
  | OpReset => mf_reset
  | OpTick cur => snd (mf_schedule cur s)
  end.

Definition mf_run (ops : list mfop) (s : mfst) : mfst := fold_left mf_step ops s.

Definition task_ok (t : Z) : bool := (0 <=? t) && (t <? 32).

(* requests that leave task t switched on / switched off (task numbers of enable / disable are 0 .. 31) *)
Definition op_keeps_on (t : Z) (o : mfop) : bool :=
  match o with
  | OpEnable t' => task_ok t'
  | OpDisable t' => task_ok t' && negb (t' =? t)
  | OpSet m => Z.testbit (u32 m) t
  | OpReset => false
  | OpTick _ => true
  end.
Definition op_keeps_off (t : Z) (o : mfop) : bool :=
  match o with
  | OpEnable t' => task_ok t' && negb (t' =? t)
  | OpDisable t' => task_ok t'
  | OpSet m => negb (Z.testbit (u32 m) t)
  | _ => true
  end.

(* the calls one tick makes for task t: those of mframe_schedule_set(t) when t is active after the update, none otherwise *)
Definition calls_of (t cur : Z) : list call := match fw_schedule_set t cur with FwOk cs => cs | _ => [] end.
Definition mf_task_calls (cur : Z) (s : mfst) (t : Z) : list call :=
  if Z.testbit (mf_tasks_after cur s) t then calls_of t cur else [].
Definition mf_fires (cur : Z) (s : mfst) (task kind : Z) (sacch : bool) : bool :=
  existsb (call_is kind sacch) (mf_task_calls cur s task).

(* the invariant of safe_fn after the tick of frame cur: force-safe, or at most 4 frames ahead of cur modulo the hyperframe
   (4 = 6 - 2: no sched set has more than 6 frames) *)
Definition mf_inv (cur : Z) (s : mfst) : bool :=
  (0 <=? ms_safe s) && ((2715648 <=? ms_safe s) || ((ms_safe s - cur) mod 2715648 <=? 4)).

(* executable checkers for the sweeps of Proofs/MframeSchedP.v: every sched set the tables use has 2 .. 6 frames *)
Definition chk_set_frames : bool :=
  forallb (fun o : option (list (Z*Z*Z*Z)) =>
             match o with
             | Some items => forallb (fun it : Z*Z*Z*Z => let '(k, _, _, _) := it in (2 <=? set_rv k) && (set_rv k <=? 6)) items
             | None => true
             end) fw_sched.

(* ------------------------------------------------------------------ trxcon *)

Definition layout := (Z*Z*Z*Z*Z*list (Z*Z*Z*Z))%type.
Definition ly_cfg (l : layout) : Z := let '(c, _, _, _, _, _) := l in c.
Definition ly_period (l : layout) : Z := let '(_, p, _, _, _, _) := l in p.
Definition ly_slotmask (l : layout) : Z := let '(_, _, s, _, _, _) := l in s.
Definition ly_mask (l : layout) : Z := let '(_, _, _, m, _, _) := l in m.
Definition ly_nframes (l : layout) : Z := let '(_, _, _, _, n, _) := l in n.
Definition ly_frames (l : layout) : list (Z*Z*Z*Z) := let '(_, _, _, _, _, f) := l in f.

Inductive dir := DL | UL.
Definition fr_chan (d : dir) (fr : Z*Z*Z*Z) : Z := let '(dc, _, uc, _) := fr in match d with DL => dc | UL => uc end.
Definition fr_bid (d : dir) (fr : Z*Z*Z*Z) : Z := let '(_, db, _, ub) := fr in match d with DL => db | UL => ub end.

Inductive frres :=
| FrDivZero             (* fn % 0 *)
| FrOOB                 (* frames == NULL or the row index is outside the frames array *)
| FrOk (fr : Z*Z*Z*Z).

(* offset = fn % layout->period; frame = &layout->frames[offset]   (fn is uint32_t) *)
Definition trx_frame (l : layout) (fn : Z) : frres :=
  if ly_period l =? 0 then FrDivZero
  else
    let off := u32 fn mod ly_period l in
    if (0 <=? off) && (off <? ly_nframes l) then
      match nth_error (ly_frames l) (Z.to_nat off) with Some fr => FrOk fr | None => FrOOB end
    else FrOOB.

(* l1sched_handle_rx_burst() keeps the offset in a uint8_t *)
Definition trx_frame_rx (l : layout) (fn : Z) : frres :=
  if ly_period l =? 0 then FrDivZero
  else
    let off := u8 (u32 fn mod ly_period l) in
    if (0 <=? off) && (off <? ly_nframes l) then
      match nth_error (ly_frames l) (Z.to_nat off) with Some fr => FrOk fr | None => FrOOB end
    else FrOOB.

(* l1sched_mframe_layout(config, tn): first layout with chan_config == config and !(~slotmask & (1 << tn)) *)
Fixpoint trx_layout_from (i : Z) (ls : list layout) (cfg tn : Z) : option Z :=
  match ls with
  | [] => None
  | l :: tl =>
      if negb (ly_cfg l =? cfg) then trx_layout_from (i + 1) tl cfg tn
      else if negb (Z.land (Z.lnot (ly_slotmask l)) (Z.shiftl 1 tn) =? 0) then trx_layout_from (i + 1) tl cfg tn
      else Some i
  end.
Definition trx_layout (cfg tn : Z) : option Z := trx_layout_from 0 tx_layouts cfg tn.

Definition trx_layout_real (cfg tn : Z) : Z := nth (Z.to_nat tn) (nth (Z.to_nat cfg) tx_lookup []) (-9).

(* the frame fn belongs to lchan in direction d / is the first burst (bid 0) of a block of lchan *)
Definition trx_owns (l : layout) (d : dir) (lchan fn : Z) : bool :=
  match trx_frame l fn with FrOk fr => fr_chan d fr =? lchan | _ => false end.
Definition trx_first (l : layout) (d : dir) (lchan fn : Z) : bool :=
  match trx_frame l fn with FrOk fr => (fr_chan d fr =? lchan) && (fr_bid d fr =? 0) | _ => false end.
Definition trx_first_opt (l : layout) (d : dir) (lchan : option Z) (fn : Z) : bool :=
  match lchan with Some c => trx_first l d c fn | None => false end.
Definition trx_owns_opt (l : layout) (d : dir) (lchan : option Z) (fn : Z) : bool :=
  match lchan with Some c => trx_owns l d c fn | None => false end.

(* number of bursts of one block of a logical channel: single-burst channels, TCH/H (2 per 4-frame step), all others 4.
   IDLE frames belong to no channel (no handler, no channel state); their bid column is not constrained. *)
Definition lchan_nbursts (c : Z) : Z :=
  if (c =? tx_L1SCHED_FCCH) || (c =? tx_L1SCHED_SCH) || (c =? tx_L1SCHED_RACH) then 1
  else if (c =? tx_L1SCHED_TCHH_0) || (c =? tx_L1SCHED_TCHH_1) then 2
  else 4.

Definition desc_chan_nr (c : Z) : Z := let '(n, _, _, _) := nth (Z.to_nat c) tx_desc (-1, -1, 0, 0) in n.
Definition desc_link_id (c : Z) : Z := let '(_, l, _, _) := nth (Z.to_nat c) tx_desc (-1, -1, 0, 0) in l.
Definition desc_has_handler (d : dir) (c : Z) : bool :=
  let '(_, _, rx, tx) := nth (Z.to_nat c) tx_desc (-1, -1, 0, 0) in match d with DL => negb (rx =? 0) | UL => negb (tx =? 0) end.

(* ------------------------------------------------------------------ trxcon: the consumers of the frame lookup (sched_trx.c)
   l1sched_handle_rx_burst() with its helper subst_frame_loss(), l1sched_pull_burst(), l1sched_handle_rx_probe().
   C integers: bi->fn, lchan->tdma.last_proc are uint32_t; `int elapsed = fn - last_proc` is the 32-bit difference read as int;
   GSM_TDMA_FN_INC(fn) is fn = (fn + 1) % GSM_TDMA_HYPERFRAME on uint32_t; tdma.num_proc / num_lost are unsigned long (LP64: 64 bit);
   handle_rx_burst keeps the row index in a uint8_t (trx_frame_rx), subst_frame_loss / pull_burst / rx_probe in unsigned int (trx_frame).
   errno values (Linux): EIO 5, EAGAIN 11, ENODEV 19, EINVAL 22, EALREADY 114.  Ciphering (lchan->a5.algo) only changes burst bits
   and is left out; so is the hand-over RACH override of pull_burst (a queued RACH primitive replaces the handler, not the lchan). *)

Definition u64 (x : Z) : Z := x mod 18446744073709551616.

(* one channel state (struct l1sched_lchan_state): active, tdma.num_proc, tdma.num_lost, tdma.last_proc *)
Record chst := mkst { cs_active : bool; cs_nproc : Z; cs_nlost : Z; cs_last : Z }.
(* the channel states of a timeslot (ts->lchans), by lchan type *)
Definition tsst := list (Z * chst).

Fixpoint find_st (c : Z) (s : tsst) : option chst :=
  match s with
  | [] => None
  | (c', st) :: tl => if c' =? c then Some st else find_st c tl
  end.

Fixpoint set_st (c : Z) (v : chst) (s : tsst) : tsst :=
  match s with
  | [] => []
  | (c', st) :: tl => if c' =? c then (c', v) :: tl else (c', st) :: set_st c v tl
  end.

Definition st_active (s : tsst) (c : Z) : bool := match find_st c s with Some st => cs_active st | None => false end.

(* checked access to l1sched_lchan_desc[chan] *)
Definition desc_row (c : Z) : option (Z*Z*Z*Z) :=
  if (0 <=? c) && (c <? tx_CHAN_MAX) then nth_error tx_desc (Z.to_nat c) else None.

(* GSM_TDMA_FN_INC on a uint32_t *)
Definition fn_inc (f : Z) : Z := u32 (f + 1) mod 2715648.

(* the frame numbers the loss substitution walks through: n increments starting after f *)
Fixpoint fn_walk (n : nat) (f : Z) : list Z :=
  match n with O => [] | S n' => fn_inc f :: fn_walk n' (fn_inc f) end.

(* elapsed = fn - last_proc (int); >= HYPERFRAME/2: -= HYPERFRAME; < -HYPERFRAME/2: += HYPERFRAME *)
Definition rx_elapsed (fn lp : Z) : Z :=
  let e := s32 (fn - lp) in
  if e >=? 1357824 then e - 2715648 else if e <? -1357824 then e + 2715648 else e.

(* a handler call: (lchan type, bi->fn, bi->bid) *)
Definition rxcall := (Z * Z * Z)%type.

(* for (i = 0; i < elapsed - 1; i++) { fp = &mf->frames[GSM_TDMA_FN_INC(bi.fn) % mf->period]; if (fp->dl_chan != lchan->type) continue;
   bi.bid = fp->dl_bid; handler(lchan, &bi); ... }      None: a row outside the table is read *)
Fixpoint subst_loop (L : layout) (c : Z) (n : nat) (f : Z) : option (list rxcall) :=
  match n with
  | O => Some []
  | S n' =>
      let f' := fn_inc f in
      match trx_frame L f' with
      | FrOk fr =>
          match subst_loop L c n' f' with
          | None => None
          | Some r => Some (if fr_chan DL fr =? c then (c, f', fr_bid DL fr) :: r else r)
          end
      | _ => None
      end
  end.

Inductive substres :=
| SubOOB                          (* a lookup left the table *)
| SubRc (rc : Z)                  (* returned before the loop *)
| SubOk (calls : list rxcall).    (* the dummy bursts handed to the handler, in order; returns 0 *)

Definition subst_frame_loss (L : layout) (c : Z) (st : chst) (fn : Z) : substres :=
  if cs_nproc st =? 0 then SubRc (-11)
  else
    let e := rx_elapsed fn (cs_last st) in
    if e <? 0 then SubRc (-114)
    else if e >? ly_period L then SubRc (-5)
    else if e =? 0 then SubRc (-5)
    else match subst_loop L c (Z.to_nat (e - 1)) (cs_last st) with None => SubOOB | Some cs => SubOk cs end.

(* statistics update inside the loop: per substituted burst last_proc = bi.fn; num_proc++; num_lost++ *)
Definition st_after_subst (st : chst) (cs : list rxcall) : chst :=
  match cs with
  | [] => st
  | _ => let n := Z.of_nat (length cs) in
         mkst (cs_active st) (u64 (cs_nproc st + n)) (u64 (cs_nlost st + n)) (let '(_, f, _) := last cs (0, 0, 0) in f)
  end.

(* handler(lchan, bi); last_proc = bi->fn; if (++num_proc == 0) num_proc = 1 *)
Definition st_after_direct (st : chst) (fn : Z) : chst :=
  let n := u64 (cs_nproc st + 1) in
  mkst (cs_active st) (if n =? 0 then 1 else n) (cs_nlost st) fn.

Inductive rxres :=
| RxDivZero | RxOOB               (* fn % 0 / a row outside the frames table is read *)
| RxDescOOB                       (* l1sched_lchan_desc[] is read outside 0 .. _L1SCHED_CHAN_MAX-1 *)
| RxOk (rc bid : Z) (sub : list rxcall) (dir : option rxcall) (s : tsst).
                                  (* return code, bi->bid, the substituted handler calls, the call for the burst itself, states *)

(* l1sched_handle_rx_burst() on a configured timeslot with layout L and channel states s *)
Definition rx_burst (L : layout) (s : tsst) (fn : Z) : rxres :=
  match trx_frame_rx L fn with
  | FrDivZero => RxDivZero
  | FrOOB => RxOOB
  | FrOk fr =>
      let c := fr_chan DL fr in
      let bid := fr_bid DL fr in
      match desc_row c with
      | None => RxDescOOB
      | Some (_, _, rx, _) =>
          if rx =? 0 then RxOk (-19) bid [] None s
          else
            match find_st c s with
            | None => RxOk (-19) bid [] None s
            | Some st =>
                if negb (cs_active st) then RxOk 0 bid [] None s
                else
                  match subst_frame_loss L c st fn with
                  | SubOOB => RxOOB
                  | SubRc rc =>
                      if rc =? -114 then RxOk (-114) bid [] None s
                      else RxOk 0 bid [] (Some (c, fn, bid)) (set_st c (st_after_direct st fn) s)
                  | SubOk cs =>
                      RxOk 0 bid cs (Some (c, fn, bid)) (set_st c (st_after_direct (st_after_subst st cs) fn) s)
                  end
            end
      end
  end.

Definition rx_calls (sub : list rxcall) (dir : option rxcall) : list rxcall :=
  sub ++ match dir with Some d => [d] | None => [] end.

(* the burst id column as a function of the frame number *)
Definition dl_bid_at (L : layout) (f : Z) : Z := match trx_frame L f with FrOk fr => fr_bid DL fr | _ => -1 end.

(* l1sched_pull_burst(): br->bid and the lchan type whose tx handler is called (at most one) *)
Inductive txres := TxDivZero | TxOOB | TxDescOOB | TxOk (bid : Z) (calls : list Z).

Definition tx_pull (L : layout) (s : tsst) (fn : Z) : txres :=
  match trx_frame L fn with
  | FrDivZero => TxDivZero
  | FrOOB => TxOOB
  | FrOk fr =>
      let c := fr_chan UL fr in
      match desc_row c with
      | None => TxDescOOB
      | Some (_, _, _, tx) =>
          TxOk (fr_bid UL fr) (if negb (tx =? 0) && st_active s c then [c] else [])
      end
  end.

(* l1sched_handle_rx_probe(): return code and probe->flags (L1SCHED_PROBE_F_ACTIVE = 1) *)
Inductive prres := PrDivZero | PrOOB | PrDescOOB | PrOk (rc flags : Z).

Definition rx_probe (L : layout) (s : tsst) (fn flags : Z) : prres :=
  match trx_frame L fn with
  | FrDivZero => PrDivZero
  | FrOOB => PrOOB
  | FrOk fr =>
      let c := fr_chan DL fr in
      match desc_row c with
      | None => PrDescOOB
      | Some (_, _, rx, _) =>
          if rx =? 0 then PrOk (-19) flags
          else match find_st c s with
               | None => PrOk (-19) flags
               | Some st => PrOk 0 (if cs_active st then Z.lor flags 1 else flags)
               end
      end
  end.

(* executable checker for the sweep of Proofs/MframeRxP.v: the period of every layout with frames divides the hyperframe *)
Definition has_frames_cfg (cfg : Z) : bool := negb (cfg =? tx_GSM_PCHAN_NONE).
Definition chk_hyper (l : layout) : bool := negb (has_frames_cfg (ly_cfg l)) || (2715648 mod ly_period l =? 0).

(* ------------------------------------------------------------------ the specification table: task <-> (combination, timeslots, lchan, SACCH lchan) *)

Inductive mode :=
| Block      (* 4-burst blocks, downlink and uplink compared *)
| BlockDL    (* 4-burst blocks, the firmware is receive-only for this channel *)
| Tch.       (* scheduled frame by frame *)

Inductive tnrule := TnAll | TnEven | TnOdd.
Definition tn_ok (r : tnrule) (tn : Z) : bool :=
  match r with TnAll => true | TnEven => Z.even tn | TnOdd => Z.odd tn end.

Record row := { r_task : Z; r_cfg : Z; r_tn : tnrule; r_mode : mode; r_lchan : Z; r_sacch : option Z }.
Definition mk (t c : Z) (tn : tnrule) (m : mode) (l : Z) (s : option Z) : row :=
  {| r_task := t; r_cfg := c; r_tn := tn; r_mode := m; r_lchan := l; r_sacch := s |}.

Definition c11_rows : list row := [
  mk fw_MF_TASK_BCCH_NORM   tx_GSM_PCHAN_CCCH                 TnAll Block tx_L1SCHED_BCCH None;
  mk fw_MF_TASK_BCCH_NORM   tx_GSM_PCHAN_CCCH_SDCCH4          TnAll Block tx_L1SCHED_BCCH None;
  mk fw_MF_TASK_BCCH_NORM   tx_GSM_PCHAN_CCCH_SDCCH4_CBCH     TnAll Block tx_L1SCHED_BCCH None;
  mk fw_MF_TASK_CCCH        tx_GSM_PCHAN_CCCH                 TnAll Block tx_L1SCHED_CCCH None;
  mk fw_MF_TASK_CCCH_COMB   tx_GSM_PCHAN_CCCH_SDCCH4          TnAll Block tx_L1SCHED_CCCH None;
  mk fw_MF_TASK_CCCH_COMB   tx_GSM_PCHAN_CCCH_SDCCH4_CBCH     TnAll Block tx_L1SCHED_CCCH None;
  mk fw_MF_TASK_SDCCH4_0    tx_GSM_PCHAN_CCCH_SDCCH4          TnAll Block tx_L1SCHED_SDCCH4_0 (Some tx_L1SCHED_SACCH4_0);
  mk fw_MF_TASK_SDCCH4_1    tx_GSM_PCHAN_CCCH_SDCCH4          TnAll Block tx_L1SCHED_SDCCH4_1 (Some tx_L1SCHED_SACCH4_1);
  mk fw_MF_TASK_SDCCH4_2    tx_GSM_PCHAN_CCCH_SDCCH4          TnAll Block tx_L1SCHED_SDCCH4_2 (Some tx_L1SCHED_SACCH4_2);
  mk fw_MF_TASK_SDCCH4_3    tx_GSM_PCHAN_CCCH_SDCCH4          TnAll Block tx_L1SCHED_SDCCH4_3 (Some tx_L1SCHED_SACCH4_3);
  mk fw_MF_TASK_SDCCH4_0    tx_GSM_PCHAN_CCCH_SDCCH4_CBCH     TnAll Block tx_L1SCHED_SDCCH4_0 (Some tx_L1SCHED_SACCH4_0);
  mk fw_MF_TASK_SDCCH4_1    tx_GSM_PCHAN_CCCH_SDCCH4_CBCH     TnAll Block tx_L1SCHED_SDCCH4_1 (Some tx_L1SCHED_SACCH4_1);
  mk fw_MF_TASK_SDCCH4_3    tx_GSM_PCHAN_CCCH_SDCCH4_CBCH     TnAll Block tx_L1SCHED_SDCCH4_3 (Some tx_L1SCHED_SACCH4_3);
  mk fw_MF_TASK_SDCCH8_0    tx_GSM_PCHAN_SDCCH8_SACCH8C       TnAll Block tx_L1SCHED_SDCCH8_0 (Some tx_L1SCHED_SACCH8_0);
  mk fw_MF_TASK_SDCCH8_1    tx_GSM_PCHAN_SDCCH8_SACCH8C       TnAll Block tx_L1SCHED_SDCCH8_1 (Some tx_L1SCHED_SACCH8_1);
  mk fw_MF_TASK_SDCCH8_2    tx_GSM_PCHAN_SDCCH8_SACCH8C       TnAll Block tx_L1SCHED_SDCCH8_2 (Some tx_L1SCHED_SACCH8_2);
  mk fw_MF_TASK_SDCCH8_3    tx_GSM_PCHAN_SDCCH8_SACCH8C       TnAll Block tx_L1SCHED_SDCCH8_3 (Some tx_L1SCHED_SACCH8_3);
  mk fw_MF_TASK_SDCCH8_4    tx_GSM_PCHAN_SDCCH8_SACCH8C       TnAll Block tx_L1SCHED_SDCCH8_4 (Some tx_L1SCHED_SACCH8_4);
  mk fw_MF_TASK_SDCCH8_5    tx_GSM_PCHAN_SDCCH8_SACCH8C       TnAll Block tx_L1SCHED_SDCCH8_5 (Some tx_L1SCHED_SACCH8_5);
  mk fw_MF_TASK_SDCCH8_6    tx_GSM_PCHAN_SDCCH8_SACCH8C       TnAll Block tx_L1SCHED_SDCCH8_6 (Some tx_L1SCHED_SACCH8_6);
  mk fw_MF_TASK_SDCCH8_7    tx_GSM_PCHAN_SDCCH8_SACCH8C       TnAll Block tx_L1SCHED_SDCCH8_7 (Some tx_L1SCHED_SACCH8_7);
  mk fw_MF_TASK_SDCCH8_0    tx_GSM_PCHAN_SDCCH8_SACCH8C_CBCH  TnAll Block tx_L1SCHED_SDCCH8_0 (Some tx_L1SCHED_SACCH8_0);
  mk fw_MF_TASK_SDCCH8_1    tx_GSM_PCHAN_SDCCH8_SACCH8C_CBCH  TnAll Block tx_L1SCHED_SDCCH8_1 (Some tx_L1SCHED_SACCH8_1);
  mk fw_MF_TASK_SDCCH8_3    tx_GSM_PCHAN_SDCCH8_SACCH8C_CBCH  TnAll Block tx_L1SCHED_SDCCH8_3 (Some tx_L1SCHED_SACCH8_3);
  mk fw_MF_TASK_SDCCH8_4    tx_GSM_PCHAN_SDCCH8_SACCH8C_CBCH  TnAll Block tx_L1SCHED_SDCCH8_4 (Some tx_L1SCHED_SACCH8_4);
  mk fw_MF_TASK_SDCCH8_5    tx_GSM_PCHAN_SDCCH8_SACCH8C_CBCH  TnAll Block tx_L1SCHED_SDCCH8_5 (Some tx_L1SCHED_SACCH8_5);
  mk fw_MF_TASK_SDCCH8_6    tx_GSM_PCHAN_SDCCH8_SACCH8C_CBCH  TnAll Block tx_L1SCHED_SDCCH8_6 (Some tx_L1SCHED_SACCH8_6);
  mk fw_MF_TASK_SDCCH8_7    tx_GSM_PCHAN_SDCCH8_SACCH8C_CBCH  TnAll Block tx_L1SCHED_SDCCH8_7 (Some tx_L1SCHED_SACCH8_7);
  mk fw_MF_TASK_SDCCH4_CBCH tx_GSM_PCHAN_CCCH_SDCCH4_CBCH     TnAll Block tx_L1SCHED_SDCCH4_CBCH None;
  mk fw_MF_TASK_SDCCH8_CBCH tx_GSM_PCHAN_SDCCH8_SACCH8C_CBCH  TnAll Block tx_L1SCHED_SDCCH8_CBCH None;
  mk fw_MF_TASK_GPRS_PDTCH  tx_GSM_PCHAN_PDCH                 TnAll BlockDL tx_L1SCHED_PDTCH None;
  mk fw_MF_TASK_TCH_F_EVEN  tx_GSM_PCHAN_TCH_F                TnEven Tch tx_L1SCHED_TCHF (Some tx_L1SCHED_SACCHTF);
  mk fw_MF_TASK_TCH_F_ODD   tx_GSM_PCHAN_TCH_F                TnOdd  Tch tx_L1SCHED_TCHF (Some tx_L1SCHED_SACCHTF);
  mk fw_MF_TASK_TCH_H_0     tx_GSM_PCHAN_TCH_H                TnAll  Tch tx_L1SCHED_TCHH_0 (Some tx_L1SCHED_SACCHTH_0);
  mk fw_MF_TASK_TCH_H_1     tx_GSM_PCHAN_TCH_H                TnAll  Tch tx_L1SCHED_TCHH_1 (Some tx_L1SCHED_SACCHTH_1)
].

(* the sub-channel a TCH/H dummy frame (TCH_D) belongs to *)
Definition other_subchan (c : Z) : option Z :=
  if c =? tx_L1SCHED_TCHH_0 then Some tx_L1SCHED_TCHH_1
  else if c =? tx_L1SCHED_TCHH_1 then Some tx_L1SCHED_TCHH_0 else None.

Definition is_tch (m : mode) : bool := match m with Tch => true | _ => false end.

(* the layout trxcon uses for the row's combination on timeslot tn *)
Definition row_layout (r : row) (tn : Z) : option layout :=
  match trx_layout (r_cfg r) tn with Some li => nth_error tx_layouts (Z.to_nat li) | None => None end.

(* ------------------------------------------------------------------ executable checkers (what the finite sweeps evaluate) *)

(* block channels: at current frame cur the firmware starts a DL / UL block (plain / SACCH) exactly when trxcon's frame
   cur + SCHEDULE_AHEAD is burst 0 of the channel in that direction *)
Definition chk_block (r : row) (tn cur : Z) : bool :=
  match row_layout r tn with
  | None => false
  | Some L =>
      let fn := cur + 2 in
      Bool.eqb (fw_fires (r_task r) K_NB_DL false cur) (trx_first L DL (r_lchan r) fn) &&
      Bool.eqb (fw_fires (r_task r) K_NB_DL true cur) (trx_first_opt L DL (r_sacch r) fn) &&
      match r_mode r with
      | Block => Bool.eqb (fw_fires (r_task r) K_NB_UL false cur) (trx_first L UL (r_lchan r) fn) &&
                 Bool.eqb (fw_fires (r_task r) K_NB_UL true cur) (trx_first_opt L UL (r_sacch r) fn)
      | _ => negb (fw_fires (r_task r) K_NB_UL false cur) && negb (fw_fires (r_task r) K_NB_UL true cur)
      end
  end.

(* TCH and SACCH/T: frame by frame, both directions; TCH_D = frames of the other TCH/H sub-channel (never on TCH/F) *)
Definition chk_tch (r : row) (tn cur : Z) : bool :=
  match row_layout r tn with
  | None => false
  | Some L =>
      let fn := cur + 2 in
      Bool.eqb (fw_fires (r_task r) K_TCH false cur) (trx_owns L DL (r_lchan r) fn) &&
      Bool.eqb (fw_fires (r_task r) K_TCH false cur) (trx_owns L UL (r_lchan r) fn) &&
      Bool.eqb (fw_fires (r_task r) K_TCH_A true cur) (trx_owns_opt L DL (r_sacch r) fn) &&
      Bool.eqb (fw_fires (r_task r) K_TCH_A true cur) (trx_owns_opt L UL (r_sacch r) fn) &&
      Bool.eqb (fw_fires (r_task r) K_TCH_D false cur) (trx_owns_opt L DL (other_subchan (r_lchan r)) fn) &&
      Bool.eqb (fw_fires (r_task r) K_TCH_D false cur) (trx_owns_opt L UL (other_subchan (r_lchan r)) fn)
  end.

(* every row of the task's table is of a kind the comparison accounts for *)
Definition chk_row_kinds (r : row) : bool :=
  match r_mode r with
  | Block => fw_rows_within (r_task r) [(K_NB_DL, 0); (K_NB_UL, 0); (K_NB_DL, fw_MF_F_SACCH); (K_NB_UL, fw_MF_F_SACCH)]
  | BlockDL => fw_rows_within (r_task r) [(K_NB_DL, 0)]
  | Tch => fw_rows_within (r_task r) [(K_TCH, 0); (K_TCH_A, fw_MF_F_SACCH); (K_TCH_D, 0)]
  end.

(* both mappings repeat with this cycle (51-multiframe channels: 2 x 51, 26-multiframe channels: 4 x 26); the sweeps run over
   one cycle per row, chk_cycle is what allows Proofs/MframeP.v to extend them to every frame number *)
Definition row_cycle (r : row) : Z := match r_mode r with Block => 102 | _ => 104 end.

Definition mods_divide (C : Z) (items : list (Z*Z*Z*Z)) : bool :=
  forallb (fun it : Z*Z*Z*Z => let '(_, m, _, _) := it in (0 <? m) && (C mod m =? 0)) items.

Definition chk_cycle (r : row) (tn : Z) : bool :=
  match row_layout r tn, nth_error fw_sched (Z.to_nat (r_task r)) with
  | Some L, Some (Some items) => (0 <? ly_period L) && (row_cycle r mod ly_period L =? 0) && mods_divide (row_cycle r) items
  | _, _ => false
  end.

Definition chk_row (r : row) (tn cur : Z) : bool :=
  negb (tn_ok (r_tn r) tn) || (if is_tch (r_mode r) then chk_tch r tn cur else chk_block r tn cur).

Definition chk_row_tn (r : row) (tn : Z) : bool :=
  (negb (tn_ok (r_tn r) tn) || chk_cycle r tn) && forallb (fun cur => chk_row r tn cur) (range 0 (row_cycle r)).

(* the channel number both stacks report for the row: mframe_task2chan_nr(task, tn) = desc[lchan].chan_nr | tn,
   link id 0 for the main channel and L1SCHED_CH_LID_SACCH for its SACCH *)
Definition chk_row_chan_nr (r : row) (tn : Z) : bool :=
  (fw_task_chan_nr (r_task r) tn =? Z.lor (desc_chan_nr (r_lchan r)) tn) && (desc_link_id (r_lchan r) =? 0) &&
  match r_sacch r with
  | Some s => (desc_chan_nr s =? desc_chan_nr (r_lchan r)) && (desc_link_id s =? tx_LID_SACCH)
  | None => true
  end.

(* burst ids: from frame i the next frame (cyclically, i+d mod period, smallest d >= 1) of the same channel carries bid+1 mod nbursts *)
Fixpoint first_same (l : layout) (d : dir) (c i : Z) (k : Z) (fuel : nat) : option Z :=
  match fuel with
  | O => None
  | S f =>
      match trx_frame l (i + k) with
      | FrOk fr => if fr_chan d fr =? c then Some k else first_same l d c i (k + 1) f
      | _ => None
      end
  end.

Definition chk_bid_at (l : layout) (d : dir) (i : Z) : bool :=
  match trx_frame l i with
  | FrOk fr =>
      let c := fr_chan d fr in
      let n := lchan_nbursts c in
      (c =? tx_L1SCHED_IDLE) ||
      (0 <=? fr_bid d fr) && (fr_bid d fr <? n) &&
      match first_same l d c i 1 (Z.to_nat (ly_period l)) with
      | Some k => match trx_frame l (i + k) with FrOk fr' => fr_bid d fr' =? (fr_bid d fr + 1) mod n | _ => false end
      | None => false
      end
  | _ => false
  end.

Definition has_frames (l : layout) : bool := negb (ly_cfg l =? tx_GSM_PCHAN_NONE).

Definition chk_bids (l : layout) : bool :=
  negb (has_frames l) || forallb (fun i => chk_bid_at l DL i && chk_bid_at l UL i) (range 0 (ly_period l)).

Definition chk_table (l : layout) : bool :=
  negb (has_frames l) ||
  ((0 <? ly_period l) && (ly_period l <=? ly_nframes l) && (ly_period l <? 256) &&
   (Z.of_nat (length (ly_frames l)) =? ly_nframes l)).

Definition chan_in_mask (l : layout) (c : Z) : bool :=
  (c =? tx_L1SCHED_IDLE) || ((0 <=? c) && (c <? tx_CHAN_MAX) && (c <? 64) && Z.testbit (ly_mask l) c).

Definition chk_mask (l : layout) : bool :=
  forallb (fun fr => chan_in_mask l (fr_chan DL fr) && chan_in_mask l (fr_chan UL fr)) (ly_frames l).

(* channel combinations trxcon knows; every other value of enum gsm_phys_chan_config has no layout *)
Definition c11_configs : list Z :=
  [tx_GSM_PCHAN_NONE; tx_GSM_PCHAN_CCCH; tx_GSM_PCHAN_CCCH_SDCCH4; tx_GSM_PCHAN_CCCH_SDCCH4_CBCH; tx_GSM_PCHAN_SDCCH8_SACCH8C;
   tx_GSM_PCHAN_SDCCH8_SACCH8C_CBCH; tx_GSM_PCHAN_TCH_F; tx_GSM_PCHAN_TCH_H; tx_GSM_PCHAN_PDCH].

Definition chk_lookup (cfg tn : Z) : bool :=
  match trx_layout cfg tn with
  | Some li =>
      (trx_layout_real cfg tn =? li) && existsb (Z.eqb cfg) c11_configs &&
      match nth_error tx_layouts (Z.to_nat li) with
      | Some L => (ly_cfg L =? cfg) && Z.testbit (ly_slotmask L) tn
      | None => false
      end
  | None => (trx_layout_real cfg tn =? -1) && negb (existsb (Z.eqb cfg) c11_configs)
  end.

(* ------------------------------------------------------------------ trxcon: from an RSL channel number to the channel combination
   sched_trx.c l1sched_chan_nr2pchan_config(uint8_t chan_nr): what handle_dch_est_req() hands to l1sched_configure_ts() when a dedicated
   channel is established.  cbits = chan_nr >> 3; ABIS_RSL_CHAN_NR_CBITS_*: Bm 0x01, Lm 0x02+s, SDCCH/4 0x04+s, SDCCH/8 0x08+s,
   Osmocom PDCH 0x18, CBCH on SDCCH/4 0x19, CBCH on SDCCH/8 0x1a *)
Definition trx_chan_nr2pchan (chan_nr : Z) : Z :=
  let cbits := Z.shiftr (u8 chan_nr) 3 in
  if cbits =? 1 then tx_GSM_PCHAN_TCH_F
  else if Z.land cbits 30 =? 2 then tx_GSM_PCHAN_TCH_H
  else if Z.land cbits 28 =? 4 then tx_GSM_PCHAN_CCCH_SDCCH4
  else if Z.land cbits 24 =? 8 then tx_GSM_PCHAN_SDCCH8_SACCH8C
  else if Z.land cbits 31 =? 25 then tx_GSM_PCHAN_CCCH_SDCCH4_CBCH
  else if Z.land cbits 31 =? 26 then tx_GSM_PCHAN_SDCCH8_SACCH8C_CBCH
  else if Z.land cbits 31 =? 24 then tx_GSM_PCHAN_PDCH
  else tx_GSM_PCHAN_NONE.

(* rows of channels that are established through a channel number (everything but BCCH and CCCH, which the CCCH mode selects) *)
Definition row_dedicated (r : row) : bool := negb ((r_lchan r =? tx_L1SCHED_BCCH) || (r_lchan r =? tx_L1SCHED_CCCH)).

Definition tnrule_eqb (a b : tnrule) : bool :=
  match a, b with TnAll, TnAll | TnEven, TnEven | TnOdd, TnOdd => true | _, _ => false end.
Definition mode_eqb (a b : mode) : bool :=
  match a, b with Block, Block | BlockDL, BlockDL | Tch, Tch => true | _, _ => false end.
Definition optz_eqb (a b : option Z) : bool :=
  match a, b with Some x, Some y => x =? y | None, None => true | _, _ => false end.
(* the same firmware task, channel, SACCH, timeslots and mode - possibly under another combination *)
Definition same_chan (r r' : row) : bool :=
  (r_task r =? r_task r') && (r_lchan r =? r_lchan r') && optz_eqb (r_sacch r) (r_sacch r') &&
  tnrule_eqb (r_tn r) (r_tn r') && mode_eqb (r_mode r) (r_mode r').

(* the channel number the firmware reports for the row's task on timeslot tn resolves to a combination under which the table has this
   very channel (dedicated rows); BCCH / CCCH channel numbers do not resolve (GSM_PCHAN_NONE) *)
Definition chk_resolve (r : row) (tn : Z) : bool :=
  let cfg := trx_chan_nr2pchan (fw_task_chan_nr (r_task r) tn) in
  if row_dedicated r then existsb (fun r' => same_chan r r' && (r_cfg r' =? cfg)) c11_rows
  else cfg =? tx_GSM_PCHAN_NONE.

(* ------------------------------------------------------------------ failing-input search (same checkers, first offender) *)

Definition pairs {A B} (la : list A) (lb : list B) : list (A * B) := flat_map (fun a => map (fun b => (a, b)) lb) la.

Definition find_bad_row (fnmax : Z) : option (Z * Z * Z) :=
  let idx := combine (map Z.of_nat (seq 0 (length c11_rows))) c11_rows in
  let top (r : row) := if fnmax <=? 0 then row_cycle r else fnmax in
  match find (fun x : (Z * row) * Z => negb (forallb (fun cur => chk_row (snd (fst x)) (snd x) cur) (range 0 (top (snd (fst x)))))) (pairs idx (range 0 8)) with
  | Some ((ri, r), tn) =>
      match find (fun cur => negb (chk_row r tn cur)) (range 0 (top r)) with Some cur => Some (ri, tn, cur) | None => None end
  | None => None
  end.

(* ------------------------------------------------------------------ wire functions (correspondence driver) *)

Definition enc_calls (cs : list call) : list Z :=
  Z.of_nat (length cs) :: flat_map (fun c : call => let '(o, k, p) := c in [o; k; p]) cs.

(* [mask; fn] -> n, (frame_offset, kind, p3)*n   of the real mframe_schedule() *)
Definition w_c11_fw_sched (a : list Z) : list Z :=
  match a with
  | [mask; fn] => match fw_mframe_schedule mask fn with FwOk cs => enc_calls cs | FwNull => [-1] | FwDivZero => [-2] end
  | _ => [-999]
  end.

(* [layout index; fn] -> layouts[i].frames[fn % period] *)
Definition w_c11_trx_frame (a : list Z) : list Z :=
  match a with
  | [li; fn] =>
      if li <? 0 then [-1] else
      match nth_error tx_layouts (Z.to_nat li) with
      | None => [-1]
      | Some L => match trx_frame L fn with FrOk (dc, db, uc, ub) => [dc; db; uc; ub] | FrDivZero => [-2] | FrOOB => if ly_nframes L <? 0 then [-2] else [-3] end
      end
  | _ => [-999]
  end.

(* [config; tn] -> index of the layout chosen by l1sched_mframe_layout(), -1 for NULL *)
Definition w_c11_trx_layout (a : list Z) : list Z :=
  match a with
  | [cfg; tn] => match trx_layout cfg tn with Some li => [li] | None => [-1] end
  | _ => [-999]
  end.

(* sched_trx.c l1sched_configure_ts(): after choosing the layout it allocates one channel state for every lchan type
   0 .. _L1SCHED_CHAN_MAX-1 whose bit is set in the layout's 64-bit lchan_mask (LAYOUT_HAS_LCHAN), in ascending type order;
   -EINVAL when there is no layout for the combination or the layout is of another combination *)
Definition trx_configured (l : layout) : list Z :=
  filter (fun c => (c <? 64) && Z.testbit (ly_mask l) c) (range 0 tx_CHAN_MAX).

(* [config; tn] -> [0; types with a channel state...] | [-22] (EINVAL) *)
Definition w_c11_cfg_ts (a : list Z) : list Z :=
  match a with
  | [cfg; tn] =>
      match trx_layout cfg tn with
      | Some li => match nth_error tx_layouts (Z.to_nat li) with
                   | Some l => if ly_cfg l =? cfg then 0 :: trx_configured l else [-22]
                   | None => [-998]
                   end
      | None => [-22]
      end
  | _ => [-999]
  end.

(* [i] -> row i of the specification table as task, combination, tn rule (0 all, 1 even, 2 odd), mode (0 Block, 1 BlockDL, 2 Tch),
   lchan, SACCH lchan or -1; [] past the end (lets the Python oracle check that it uses the same table) *)
Definition w_c11_row (a : list Z) : list Z :=
  match a with
  | [i] =>
      if i <? 0 then [] else
      match nth_error c11_rows (Z.to_nat i) with
      | Some r => [r_task r; r_cfg r; match r_tn r with TnAll => 0 | TnEven => 1 | TnOdd => 2 end;
                   match r_mode r with Block => 0 | BlockDL => 1 | Tch => 2 end; r_lchan r;
                   match r_sacch r with Some s => s | None => -1 end]
      | None => []
      end
  | _ => [-999]
  end.

(* [fnmax] (0: one cycle per row) -> first (row index, tn, cur) that breaks the block-start / frame-by-frame agreement, [] if none *)
Definition w_c11_find_bad (a : list Z) : list Z :=
  match a with
  | [fnmax] => match find_bad_row fnmax with Some (ri, tn, cur) => [ri; tn; cur] | None => [] end
  | _ => [-999]
  end.

(* ------------------------------------------------------------------ wire functions for the consumers of the lookup (charness/c11_trxcon_cfg.c rx|tx|probe) *)

(* l1sched_configure_ts(cfg) on timeslot tn as seen by the later calls: None = the result this model has no reading for;
   Some (rc, None) = ts->mf_layout stays NULL; Some (0, Some (L, s)) = layout and fresh channel states (the AUTO ones active) *)
Definition desc_auto (c : Z) : bool := negb (nth (Z.to_nat c) tx_desc_auto 0 =? 0).

Definition ts_configure (cfg tn : Z) : option (Z * option (layout * tsst)) :=
  match trx_layout cfg tn with
  | None => Some (-22, None)
  | Some li =>
      match nth_error tx_layouts (Z.to_nat li) with
      | Some l => if ly_cfg l =? cfg then Some (0, Some (l, map (fun c => (c, mkst (desc_auto c) 0 0 0)) (trx_configured l))) else None
      | None => None
      end
  end.

(* l1sched_activate_lchan() for every type in the mask: an inactive state becomes active, nothing else changes *)
Definition ts_activate (mask : Z) (s : tsst) : tsst :=
  map (fun x : Z * chst => let '(c, st) := x in
         (c, mkst (cs_active st || ((c <? 62) && Z.testbit mask c)) (cs_nproc st) (cs_nlost st) (cs_last st))) s.

(* the harness overwrites tdma.{num_proc, num_lost, last_proc} of a channel state: (type, np_hi, np_lo, nlost, last) *)
Definition poke := (Z * Z * Z * Z * Z)%type.
Definition in32 (x : Z) : bool := (0 <=? x) && (x <? 4294967296).
Definition poke_ok (p : poke) : bool :=
  let '(c, hi, lo, nl, la) := p in (0 <=? c) && (c <? tx_CHAN_MAX) && in32 hi && in32 lo && in32 nl && in32 la.
Definition ts_poke (s : tsst) (p : poke) : tsst :=
  let '(c, hi, lo, nl, la) := p in
  match find_st c s with
  | Some st => set_st c (mkst (cs_active st) (hi * 4294967296 + lo) nl la) s
  | None => s
  end.

Fixpoint take_pokes (n : nat) (a : list Z) : option (list poke * list Z) :=
  match n with
  | O => Some ([], a)
  | S n' =>
      match a with
      | c :: hi :: lo :: nl :: la :: tl =>
          match take_pokes n' tl with Some (ps, r) => Some ((c, hi, lo, nl, la) :: ps, r) | None => None end
      | _ => None
      end
  end.

(* [cfg; tn; actmask; npoke; pokes...; n; fn*n] -> (cfg, tn, actmask, pokes, fns) when well-formed (the checks of run_case()) *)
Definition dec_case (a : list Z) : option (Z * Z * Z * list poke * list Z) :=
  match a with
  | cfg :: tn :: am :: np :: tl =>
      if (0 <=? tn) && (tn <=? 7) && (0 <=? cfg) && (cfg <=? 100000) && (0 <=? am) && (0 <=? np) && (np <=? 64) then
        match take_pokes (Z.to_nat np) tl with
        | Some (ps, n :: fns) =>
            if (0 <=? n) && (Z.of_nat (length fns) =? n) && forallb poke_ok ps && forallb in32 fns then Some (cfg, tn, am, ps, fns) else None
        | _ => None
        end
      else None
  | _ => None
  end.

Definition enc_states (s : tsst) : list Z :=
  Z.of_nat (length s) ::
  flat_map (fun x : Z * chst => let '(c, st) := x in
              [c; if cs_active st then 1 else 0; cs_nproc st / 4294967296; cs_nproc st mod 4294967296; cs_nlost st; cs_last st]) s.

Definition enc_rxcalls (subst : Z) (cs : list rxcall) : list Z :=
  flat_map (fun x : rxcall => let '(c, f, b) := x in [c; f; b; subst; 1]) cs.

(* the prepared timeslot of a case *)
Definition case_ts (cfg tn am : Z) (ps : list poke) : option (Z * option (layout * tsst)) :=
  match ts_configure cfg tn with
  | Some (rc, Some (L, s)) => Some (rc, Some (L, fold_left ts_poke ps (ts_activate am s)))
  | r => r
  end.

(* bursts through l1sched_handle_rx_burst(), one after the other; None = crash (a read outside a table / division by zero) *)
Fixpoint rx_seq (L : layout) (s : tsst) (fns : list Z) : option (list Z * tsst) :=
  match fns with
  | [] => Some ([], s)
  | fn :: tl =>
      match rx_burst L s fn with
      | RxOk rc bid sub dir s' =>
          match rx_seq L s' tl with
          | Some (out, sf) =>
              Some ([rc; bid; Z.of_nat (length (rx_calls sub dir))] ++ enc_rxcalls 1 sub ++
                    enc_rxcalls 0 (match dir with Some d => [d] | None => [] end) ++ out, sf)
          | None => None
          end
      | _ => None
      end
  end.

Definition w_c11_rx (a : list Z) : list Z :=
  match dec_case a with
  | None => [-999]
  | Some (cfg, tn, am, ps, fns) =>
      match case_ts cfg tn am ps with
      | None => [-998]
      | Some (rc, None) => rc :: flat_map (fun _ : Z => [-22; 255; 0]) fns ++ [0]
      | Some (rc, Some (L, s)) =>
          if ly_period L =? 0 then [rc; -2]
          else match rx_seq L s fns with Some (out, sf) => rc :: out ++ enc_states sf | None => [rc; -3] end
      end
  end.

Fixpoint tx_seq (L : layout) (s : tsst) (fns : list Z) : option (list Z) :=
  match fns with
  | [] => Some []
  | fn :: tl =>
      match tx_pull L s fn, tx_seq L s tl with
      | TxOk bid cs, Some out => Some ([bid; Z.of_nat (length cs)] ++ flat_map (fun c => [c; fn; bid; 1]) cs ++ out)
      | _, _ => None
      end
  end.

Definition w_c11_tx (a : list Z) : list Z :=
  match dec_case a with
  | None => [-999]
  | Some (cfg, tn, am, ps, fns) =>
      match case_ts cfg tn am ps with
      | None => [-998]
      | Some (rc, None) => rc :: flat_map (fun _ : Z => [255; 0]) fns ++ [0]
      | Some (rc, Some (L, s)) =>
          if ly_period L =? 0 then [rc; -2]
          else match tx_seq L s fns with Some out => rc :: out ++ enc_states s | None => [rc; -3] end
      end
  end.

Fixpoint probe_seq (L : layout) (s : tsst) (fns : list Z) : option (list Z) :=
  match fns with
  | [] => Some []
  | fn :: tl =>
      match rx_probe L s fn 0, probe_seq L s tl with
      | PrOk rc fl, Some out => Some (rc :: fl :: out)
      | _, _ => None
      end
  end.

Definition w_c11_probe (a : list Z) : list Z :=
  match dec_case a with
  | None => [-999]
  | Some (cfg, tn, am, ps, fns) =>
      match case_ts cfg tn am ps with
      | None => [-998]
      | Some (rc, None) => rc :: flat_map (fun _ : Z => [-22; 0]) fns ++ [0]
      | Some (rc, Some (L, s)) =>
          if ly_period L =? 0 then [rc; -2]
          else match probe_seq L s fns with Some out => rc :: out ++ enc_states s | None => [rc; -3] end
      end
  end.

(* ------------------------------------------------------------------ wire function for scheduler histories (charness/c11_fw_run.c hist) *)

(* tasks 0 .. 30 that have a table (the only ones the harness lets a history switch on) *)
Definition fw_valid_mask : Z :=
  fold_left (fun m t => match nth_error fw_sched (Z.to_nat t) with Some (Some _) => Z.lor m (Z.shiftl 1 t) | _ => m end) (range 0 31) 0.

Fixpoint dec_ops (n : nat) (a : list Z) : option (list (Z*Z*Z)) :=
  match n with
  | O => match a with [] => Some [] | _ => None end
  | S n' => match a with
            | c :: x :: y :: tl => match dec_ops n' tl with Some r => Some ((c, x, y) :: r) | None => None end
            | _ => None
            end
  end.

Definition hop_ok (o : Z*Z*Z) : bool :=
  let '(c, a, b) := o in
  in32 a && in32 b &&
  (if c =? 1 then (a <=? 30) && Z.testbit fw_valid_mask a && (b =? 0)
   else if c =? 2 then (a <=? 30) && (b =? 0)
   else if c =? 3 then (Z.ldiff a fw_valid_mask =? 0) && (b =? 0)
   else if c =? 4 then (a =? 0) && (b =? 0)
   else if c =? 5 then b =? 0
   else if c =? 6 then (a <? fw_GSM_MAX_FN) && (b <=? 4000000)
   else if c =? 7 then (Z.ldiff a fw_valid_mask =? 0) && (Z.ldiff b fw_valid_mask =? 0)
   else if c =? 8 then b =? 0
   else false).

(* k consecutive ticks fn, fn+1, .. (mod GSM_MAX_FN); the number of tdma_schedule_set() calls is summed up.
   Iterated with Pos.iter (recursion depth log k: the extracted code runs millions of ticks) *)
Definition silent_step (st : option (Z * mfst * Z)) : option (Z * mfst * Z) :=
  match st with
  | Some (cur, s, total) =>
      match mf_schedule cur s with
      | (FwOk cs, s') => Some ((cur + 1) mod fw_GSM_MAX_FN, s', total + Z.of_nat (length cs))
      | _ => None
      end
  | None => None
  end.

Definition silent_ticks (k cur : Z) (s : mfst) : option (mfst * Z) :=
  match (match k with Zpos p => Pos.iter silent_step (Some (cur, s, 0)) p | _ => Some (cur, s, 0) end) with
  | Some (_, s', total) => Some (s', total)
  | None => None
  end.

Fixpoint hist_run (ops : list (Z*Z*Z)) (s : mfst) : option (list Z) :=
  match ops with
  | [] => Some []
  | (c, a, b) :: tl =>
      if c =? 5 then
        match mf_schedule a s with
        | (FwOk cs, s') => match hist_run tl s' with
                           | Some out => Some ([ms_tasks s'; ms_tgt s'; ms_safe s'] ++ enc_calls cs ++ out)
                           | None => None
                           end
        | _ => None
        end
      else if c =? 6 then
        match silent_ticks b a s with
        | Some (s', tot) => match hist_run tl s' with
                            | Some out => Some ([ms_tasks s'; ms_tgt s'; ms_safe s'; tot] ++ out)
                            | None => None
                            end
        | None => None
        end
      else
        hist_run tl (if c =? 1 then mf_enable a s
                     else if c =? 2 then mf_disable a s
                     else if c =? 3 then mf_set a s
                     else if c =? 4 then mf_reset
                     else if c =? 7 then mkmf a b (ms_safe s)
                     else if c =? 8 then mkmf (ms_tasks s) (ms_tgt s) a
                     else s)
  end.

(* [n; (code a b)*n] -> the observations of the ticks (see c11_fw_run.c); [-1]: a NULL table / modulo 0 would be hit *)
Definition w_c11_fw_hist (a : list Z) : list Z :=
  match a with
  | n :: tl =>
      if n <? 0 then [-999] else
      match dec_ops (Z.to_nat n) tl with
      | Some ops => if forallb hop_ok ops then match hist_run ops mf_reset with Some out => out | None => [-1] end else [-999]
      | None => [-999]
      end
  | _ => [-999]
  end.

(* [chan_nr] -> l1sched_chan_nr2pchan_config(chan_nr) *)
Definition w_c11_resolve (a : list Z) : list Z :=
  match a with
  | [c] => if (0 <=? c) && (c <? 256) then [trx_chan_nr2pchan c] else [-999]
  | _ => [-999]
  end.
