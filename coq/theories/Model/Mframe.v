(* Model of the two multiframe mappings (C11). Definitions only.
   mirrors: firmware layer1/mframe_sched.c  mframe_schedule_set(), mframe_schedule()  (tables come from Gen/MframeFw.v)
            trxcon   src/sched_mframe.c     l1sched_mframe_layout()                  (tables come from Gen/MframeTrxcon.v)
            trxcon   src/sched_trx.c        l1sched_pull_burst() / l1sched_handle_rx_burst(): frames[fn % period]
   C integers: l1s.current_time.fn is uint32_t (fn + SCHEDULE_AHEAD wraps mod 2^32), modulo/frame_nr/flags are uint16_t,
   tdma_schedule_set(uint8_t frame_offset, set, uint16_t p3); period/slotmask are uint8_t, lchan_mask uint64_t.
   Division by a zero modulo/period and a NULL table are explicit results. *)
From Coq Require Import ZArith List Bool.
From OBB Require Import Base.Range Gen.MframeFw Gen.MframeTrxcon.
Import ListNotations.
Open Scope Z_scope.

Definition u8 (x : Z) := x mod 256.
Definition u16 (x : Z) := x mod 65536.
Definition u32 (x : Z) := x mod 4294967296.

(* ------------------------------------------------------------------ firmware *)

(* item kinds = which TDMA sched set the row points to (codes fixed by charness/c11_fw_common.h) *)
Definition K_NB_DL : Z := 0.   (* nb_sched_set:       4-burst downlink block *)
Definition K_NB_UL : Z := 1.   (* nb_sched_set_ul:    4-burst uplink block *)
Definition K_PM    : Z := 2.   (* neigh_pm_sched_set: neighbour power measurement *)
Definition K_TCH   : Z := 3.   (* tch_sched_set:      one traffic frame (Rx and Tx) *)
Definition K_TCH_A : Z := 4.   (* tch_a_sched_set:    one SACCH/T frame *)
Definition K_TCH_D : Z := 5.   (* tch_d_sched_set:    dummy (frame of the other TCH/H sub-channel) *)

(* one recorded call tdma_schedule_set(frame_offset, set, p3) as (frame_offset, kind of set, p3) *)
Definition call := (Z * Z * Z)%type.

Inductive fwres :=
| FwNull                (* sched_set_for_task[task] == NULL is dereferenced *)
| FwDivZero             (* a row with modulo 0: frame_nr % 0 *)
| FwOk (cs : list call).

(* the body of the for-loop of mframe_schedule_set(task_id) with l1s.current_time.fn = cur *)
Fixpoint fw_set_items (task cur : Z) (items : list (Z*Z*Z*Z)) : option (list call) :=
  match items with
  | [] => Some []
  | (kind, modulo, frame_nr, flags) :: tl =>
      if modulo =? 0 then None
      else
        let trigger := frame_nr mod modulo in
        let current := u32 (cur + fw_SCHEDULE_AHEAD) mod modulo in
        match fw_set_items task cur tl with
        | None => None
        | Some r =>
            Some (if current =? trigger
                  then (u8 (fw_SCHEDULE_AHEAD - fw_SCHEDULE_LATENCY), kind, u16 (Z.lor task (Z.shiftl flags 8))) :: r
                  else r)
        end
  end.

Definition fw_schedule_set (task cur : Z) : fwres :=
  match nth_error fw_sched (Z.to_nat task) with
  | Some (Some items) => match fw_set_items task cur items with Some cs => FwOk cs | None => FwDivZero end
  | _ => FwNull
  end.

(* mframe_schedule() right after mframe_reset()+mframe_set(mask): safe_fn = -1UL >= GSM_MAX_FN, so tasks := tasks_tgt = mask;
   then for (i = 0; i < 32; i++) if (tasks & (1 << i)) mframe_schedule_set(i) *)
Fixpoint fw_sched_tasks (mask cur : Z) (ids : list Z) : fwres :=
  match ids with
  | [] => FwOk []
  | i :: tl =>
      if Z.testbit mask i then
        match fw_schedule_set i cur with
        | FwOk c => match fw_sched_tasks mask cur tl with FwOk r => FwOk (c ++ r) | e => e end
        | e => e
        end
      else fw_sched_tasks mask cur tl
  end.

Definition fw_mframe_schedule (mask cur : Z) : fwres := fw_sched_tasks (u32 mask) cur (range 0 32).

(* does the call carry this sched set and this value of the MF_F_SACCH flag (p3 = task_id | flags << 8) *)
Definition call_is (kind : Z) (sacch : bool) (c : call) : bool :=
  let '(_, k, p3) := c in
  (k =? kind) && Bool.eqb (negb (Z.land (Z.shiftr p3 8) fw_MF_F_SACCH =? 0)) sacch.

(* "the firmware, at current frame cur, starts an item of this kind (with / without the SACCH flag) for this task";
   the item is on air SCHEDULE_AHEAD frames later *)
Definition fw_fires (task kind : Z) (sacch : bool) (cur : Z) : bool :=
  match fw_schedule_set task cur with FwOk cs => existsb (call_is kind sacch) cs | _ => false end.

(* does the task have a row that is none of the listed (kind, flags) pairs *)
Definition fw_rows_within (task : Z) (allowed : list (Z*Z)) : bool :=
  match nth_error fw_sched (Z.to_nat task) with
  | Some (Some items) =>
      forallb (fun it : Z*Z*Z*Z => let '(k, _, _, fl) := it in existsb (fun a : Z*Z => (fst a =? k) && (snd a =? fl)) allowed) items
  | _ => false
  end.

Definition fw_task_chan_nr (task tn : Z) : Z := nth (Z.to_nat tn) (nth (Z.to_nat task) fw_chan_nr []) (-1).

(* ------------------------------------------------------------------ trxcon *)

Definition layout := (Z*Z*Z*Z*Z*list (Z*Z*Z*Z))%type.
Definition ly_cfg (l : layout) : Z := let '(c, _, _, _, _, _) := l in c.
Definition ly_period (l : layout) : Z := let '(_, p, _, _, _, _) := l in p.
Definition ly_slotmask (l : layout) : Z := let '(_, _, s, _, _, _) := l in s.
Definition ly_mask (l : layout) : Z := let '(_, _, _, m, _, _) := l in m.
Definition ly_nframes (l : layout) : Z := let '(_, _, _, _, n, _) := l in n.
Definition ly_frames (l : layout) : list (Z*Z*Z*Z) := let '(_, _, _, _, _, f) := l in f.

Inductive dir := DL | UL.
Definition fr_chan (d : dir) (fr : Z*Z*Z*Z) : Z := let '(dc, _, uc, _) := fr in match d with DL => dc | UL => uc end.
Definition fr_bid (d : dir) (fr : Z*Z*Z*Z) : Z := let '(_, db, _, ub) := fr in match d with DL => db | UL => ub end.

Inductive frres :=
| FrDivZero             (* fn % 0 *)
| FrOOB                 (* frames == NULL or the row index is outside the frames array *)
| FrOk (fr : Z*Z*Z*Z).

(* offset = fn % layout->period; frame = &layout->frames[offset]   (fn is uint32_t) *)
Definition trx_frame (l : layout) (fn : Z) : frres :=
  if ly_period l =? 0 then FrDivZero
  else
    let off := u32 fn mod ly_period l in
    if (0 <=? off) && (off <? ly_nframes l) then
      match nth_error (ly_frames l) (Z.to_nat off) with Some fr => FrOk fr | None => FrOOB end
    else FrOOB.

(* l1sched_handle_rx_burst() keeps the offset in a uint8_t *)
Definition trx_frame_rx (l : layout) (fn : Z) : frres :=
  if ly_period l =? 0 then FrDivZero
  else
    let off := u8 (u32 fn mod ly_period l) in
    if (0 <=? off) && (off <? ly_nframes l) then
      match nth_error (ly_frames l) (Z.to_nat off) with Some fr => FrOk fr | None => FrOOB end
    else FrOOB.

(* l1sched_mframe_layout(config, tn): first layout with chan_config == config and !(~slotmask & (1 << tn)) *)
Fixpoint trx_layout_from (i : Z) (ls : list layout) (cfg tn : Z) : option Z :=
  match ls with
  | [] => None
  | l :: tl =>
      if negb (ly_cfg l =? cfg) then trx_layout_from (i + 1) tl cfg tn
      else if negb (Z.land (Z.lnot (ly_slotmask l)) (Z.shiftl 1 tn) =? 0) then trx_layout_from (i + 1) tl cfg tn
      else Some i
  end.
Definition trx_layout (cfg tn : Z) : option Z := trx_layout_from 0 tx_layouts cfg tn.

Definition trx_layout_real (cfg tn : Z) : Z := nth (Z.to_nat tn) (nth (Z.to_nat cfg) tx_lookup []) (-9).

(* the frame fn belongs to lchan in direction d / is the first burst (bid 0) of a block of lchan *)
Definition trx_owns (l : layout) (d : dir) (lchan fn : Z) : bool :=
  match trx_frame l fn with FrOk fr => fr_chan d fr =? lchan | _ => false end.
Definition trx_first (l : layout) (d : dir) (lchan fn : Z) : bool :=
  match trx_frame l fn with FrOk fr => (fr_chan d fr =? lchan) && (fr_bid d fr =? 0) | _ => false end.
Definition trx_first_opt (l : layout) (d : dir) (lchan : option Z) (fn : Z) : bool :=
  match lchan with Some c => trx_first l d c fn | None => false end.
Definition trx_owns_opt (l : layout) (d : dir) (lchan : option Z) (fn : Z) : bool :=
  match lchan with Some c => trx_owns l d c fn | None => false end.

(* number of bursts of one block of a logical channel: single-burst channels, TCH/H (2 per 4-frame step), all others 4.
   IDLE frames belong to no channel (no handler, no channel state); their bid column is not constrained. *)
Definition lchan_nbursts (c : Z) : Z :=
  if (c =? tx_L1SCHED_FCCH) || (c =? tx_L1SCHED_SCH) || (c =? tx_L1SCHED_RACH) then 1
  else if (c =? tx_L1SCHED_TCHH_0) || (c =? tx_L1SCHED_TCHH_1) then 2
  else 4.

Definition desc_chan_nr (c : Z) : Z := let '(n, _, _, _) := nth (Z.to_nat c) tx_desc (-1, -1, 0, 0) in n.
Definition desc_link_id (c : Z) : Z := let '(_, l, _, _) := nth (Z.to_nat c) tx_desc (-1, -1, 0, 0) in l.
Definition desc_has_handler (d : dir) (c : Z) : bool :=
  let '(_, _, rx, tx) := nth (Z.to_nat c) tx_desc (-1, -1, 0, 0) in match d with DL => negb (rx =? 0) | UL => negb (tx =? 0) end.

(* ------------------------------------------------------------------ the specification table: task <-> (combination, timeslots, lchan, SACCH lchan) *)

Inductive mode :=
| Block      (* 4-burst blocks, downlink and uplink compared *)
| BlockDL    (* 4-burst blocks, the firmware is receive-only for this channel *)
| Tch.       (* scheduled frame by frame *)

Inductive tnrule := TnAll | TnEven | TnOdd.
Definition tn_ok (r : tnrule) (tn : Z) : bool :=
  match r with TnAll => true | TnEven => Z.even tn | TnOdd => Z.odd tn end.

Record row := { r_task : Z; r_cfg : Z; r_tn : tnrule; r_mode : mode; r_lchan : Z; r_sacch : option Z }.
Definition mk (t c : Z) (tn : tnrule) (m : mode) (l : Z) (s : option Z) : row :=
  {| r_task := t; r_cfg := c; r_tn := tn; r_mode := m; r_lchan := l; r_sacch := s |}.

Definition c11_rows : list row := [
  mk fw_MF_TASK_BCCH_NORM   tx_GSM_PCHAN_CCCH                 TnAll Block tx_L1SCHED_BCCH None;
  mk fw_MF_TASK_BCCH_NORM   tx_GSM_PCHAN_CCCH_SDCCH4          TnAll Block tx_L1SCHED_BCCH None;
  mk fw_MF_TASK_BCCH_NORM   tx_GSM_PCHAN_CCCH_SDCCH4_CBCH     TnAll Block tx_L1SCHED_BCCH None;
  mk fw_MF_TASK_CCCH        tx_GSM_PCHAN_CCCH                 TnAll Block tx_L1SCHED_CCCH None;
  mk fw_MF_TASK_CCCH_COMB   tx_GSM_PCHAN_CCCH_SDCCH4          TnAll Block tx_L1SCHED_CCCH None;
  mk fw_MF_TASK_CCCH_COMB   tx_GSM_PCHAN_CCCH_SDCCH4_CBCH     TnAll Block tx_L1SCHED_CCCH None;
  mk fw_MF_TASK_SDCCH4_0    tx_GSM_PCHAN_CCCH_SDCCH4          TnAll Block tx_L1SCHED_SDCCH4_0 (Some tx_L1SCHED_SACCH4_0);
  mk fw_MF_TASK_SDCCH4_1    tx_GSM_PCHAN_CCCH_SDCCH4          TnAll Block tx_L1SCHED_SDCCH4_1 (Some tx_L1SCHED_SACCH4_1);
  mk fw_MF_TASK_SDCCH4_2    tx_GSM_PCHAN_CCCH_SDCCH4          TnAll Block tx_L1SCHED_SDCCH4_2 (Some tx_L1SCHED_SACCH4_2);
  mk fw_MF_TASK_SDCCH4_3    tx_GSM_PCHAN_CCCH_SDCCH4          TnAll Block tx_L1SCHED_SDCCH4_3 (Some tx_L1SCHED_SACCH4_3);
  mk fw_MF_TASK_SDCCH4_0    tx_GSM_PCHAN_CCCH_SDCCH4_CBCH     TnAll Block tx_L1SCHED_SDCCH4_0 (Some tx_L1SCHED_SACCH4_0);
  mk fw_MF_TASK_SDCCH4_1    tx_GSM_PCHAN_CCCH_SDCCH4_CBCH     TnAll Block tx_L1SCHED_SDCCH4_1 (Some tx_L1SCHED_SACCH4_1);
  mk fw_MF_TASK_SDCCH4_3    tx_GSM_PCHAN_CCCH_SDCCH4_CBCH     TnAll Block tx_L1SCHED_SDCCH4_3 (Some tx_L1SCHED_SACCH4_3);
  mk fw_MF_TASK_SDCCH8_0    tx_GSM_PCHAN_SDCCH8_SACCH8C       TnAll Block tx_L1SCHED_SDCCH8_0 (Some tx_L1SCHED_SACCH8_0);
  mk fw_MF_TASK_SDCCH8_1    tx_GSM_PCHAN_SDCCH8_SACCH8C       TnAll Block tx_L1SCHED_SDCCH8_1 (Some tx_L1SCHED_SACCH8_1);
  mk fw_MF_TASK_SDCCH8_2    tx_GSM_PCHAN_SDCCH8_SACCH8C       TnAll Block tx_L1SCHED_SDCCH8_2 (Some tx_L1SCHED_SACCH8_2);
  mk fw_MF_TASK_SDCCH8_3    tx_GSM_PCHAN_SDCCH8_SACCH8C       TnAll Block tx_L1SCHED_SDCCH8_3 (Some tx_L1SCHED_SACCH8_3);
  mk fw_MF_TASK_SDCCH8_4    tx_GSM_PCHAN_SDCCH8_SACCH8C       TnAll Block tx_L1SCHED_SDCCH8_4 (Some tx_L1SCHED_SACCH8_4);
  mk fw_MF_TASK_SDCCH8_5    tx_GSM_PCHAN_SDCCH8_SACCH8C       TnAll Block tx_L1SCHED_SDCCH8_5 (Some tx_L1SCHED_SACCH8_5);
  mk fw_MF_TASK_SDCCH8_6    tx_GSM_PCHAN_SDCCH8_SACCH8C       TnAll Block tx_L1SCHED_SDCCH8_6 (Some tx_L1SCHED_SACCH8_6);
  mk fw_MF_TASK_SDCCH8_7    tx_GSM_PCHAN_SDCCH8_SACCH8C       TnAll Block tx_L1SCHED_SDCCH8_7 (Some tx_L1SCHED_SACCH8_7);
  mk fw_MF_TASK_SDCCH8_0    tx_GSM_PCHAN_SDCCH8_SACCH8C_CBCH  TnAll Block tx_L1SCHED_SDCCH8_0 (Some tx_L1SCHED_SACCH8_0);
  mk fw_MF_TASK_SDCCH8_1    tx_GSM_PCHAN_SDCCH8_SACCH8C_CBCH  TnAll Block tx_L1SCHED_SDCCH8_1 (Some tx_L1SCHED_SACCH8_1);
  mk fw_MF_TASK_SDCCH8_3    tx_GSM_PCHAN_SDCCH8_SACCH8C_CBCH  TnAll Block tx_L1SCHED_SDCCH8_3 (Some tx_L1SCHED_SACCH8_3);
  mk fw_MF_TASK_SDCCH8_4    tx_GSM_PCHAN_SDCCH8_SACCH8C_CBCH  TnAll Block tx_L1SCHED_SDCCH8_4 (Some tx_L1SCHED_SACCH8_4);
  mk fw_MF_TASK_SDCCH8_5    tx_GSM_PCHAN_SDCCH8_SACCH8C_CBCH  TnAll Block tx_L1SCHED_SDCCH8_5 (Some tx_L1SCHED_SACCH8_5);
  mk fw_MF_TASK_SDCCH8_6    tx_GSM_PCHAN_SDCCH8_SACCH8C_CBCH  TnAll Block tx_L1SCHED_SDCCH8_6 (Some tx_L1SCHED_SACCH8_6);
  mk fw_MF_TASK_SDCCH8_7    tx_GSM_PCHAN_SDCCH8_SACCH8C_CBCH  TnAll Block tx_L1SCHED_SDCCH8_7 (Some tx_L1SCHED_SACCH8_7);
  mk fw_MF_TASK_SDCCH4_CBCH tx_GSM_PCHAN_CCCH_SDCCH4_CBCH     TnAll Block tx_L1SCHED_SDCCH4_CBCH None;
  mk fw_MF_TASK_SDCCH8_CBCH tx_GSM_PCHAN_SDCCH8_SACCH8C_CBCH  TnAll Block tx_L1SCHED_SDCCH8_CBCH None;
  mk fw_MF_TASK_GPRS_PDTCH  tx_GSM_PCHAN_PDCH                 TnAll BlockDL tx_L1SCHED_PDTCH None;
  mk fw_MF_TASK_TCH_F_EVEN  tx_GSM_PCHAN_TCH_F                TnEven Tch tx_L1SCHED_TCHF (Some tx_L1SCHED_SACCHTF);
  mk fw_MF_TASK_TCH_F_ODD   tx_GSM_PCHAN_TCH_F                TnOdd  Tch tx_L1SCHED_TCHF (Some tx_L1SCHED_SACCHTF);
  mk fw_MF_TASK_TCH_H_0     tx_GSM_PCHAN_TCH_H                TnAll  Tch tx_L1SCHED_TCHH_0 (Some tx_L1SCHED_SACCHTH_0);
  mk fw_MF_TASK_TCH_H_1     tx_GSM_PCHAN_TCH_H                TnAll  Tch tx_L1SCHED_TCHH_1 (Some tx_L1SCHED_SACCHTH_1)
].

(* the sub-channel a TCH/H dummy frame (TCH_D) belongs to *)
Definition other_subchan (c : Z) : option Z :=
  if c =? tx_L1SCHED_TCHH_0 then Some tx_L1SCHED_TCHH_1
  else if c =? tx_L1SCHED_TCHH_1 then Some tx_L1SCHED_TCHH_0 else None.

Definition is_tch (m : mode) : bool := match m with Tch => true | _ => false end.

(* the layout trxcon uses for the row's combination on timeslot tn *)
Definition row_layout (r : row) (tn : Z) : option layout :=
  match trx_layout (r_cfg r) tn with Some li => nth_error tx_layouts (Z.to_nat li) | None => None end.

(* ------------------------------------------------------------------ executable checkers (what the finite sweeps evaluate) *)

(* block channels: at current frame cur the firmware starts a DL / UL block (plain / SACCH) exactly when trxcon's frame
   cur + SCHEDULE_AHEAD is burst 0 of the channel in that direction *)
Definition chk_block (r : row) (tn cur : Z) : bool :=
  match row_layout r tn with
  | None => false
  | Some L =>
      let fn := cur + 2 in
      Bool.eqb (fw_fires (r_task r) K_NB_DL false cur) (trx_first L DL (r_lchan r) fn) &&
      Bool.eqb (fw_fires (r_task r) K_NB_DL true cur) (trx_first_opt L DL (r_sacch r) fn) &&
      match r_mode r with
      | Block => Bool.eqb (fw_fires (r_task r) K_NB_UL false cur) (trx_first L UL (r_lchan r) fn) &&
                 Bool.eqb (fw_fires (r_task r) K_NB_UL true cur) (trx_first_opt L UL (r_sacch r) fn)
      | _ => negb (fw_fires (r_task r) K_NB_UL false cur) && negb (fw_fires (r_task r) K_NB_UL true cur)
      end
  end.

(* TCH and SACCH/T: frame by frame, both directions; TCH_D = frames of the other TCH/H sub-channel (never on TCH/F) *)
Definition chk_tch (r : row) (tn cur : Z) : bool :=
  match row_layout r tn with
  | None => false
  | Some L =>
      let fn := cur + 2 in
      Bool.eqb (fw_fires (r_task r) K_TCH false cur) (trx_owns L DL (r_lchan r) fn) &&
      Bool.eqb (fw_fires (r_task r) K_TCH false cur) (trx_owns L UL (r_lchan r) fn) &&
      Bool.eqb (fw_fires (r_task r) K_TCH_A true cur) (trx_owns_opt L DL (r_sacch r) fn) &&
      Bool.eqb (fw_fires (r_task r) K_TCH_A true cur) (trx_owns_opt L UL (r_sacch r) fn) &&
      Bool.eqb (fw_fires (r_task r) K_TCH_D false cur) (trx_owns_opt L DL (other_subchan (r_lchan r)) fn) &&
      Bool.eqb (fw_fires (r_task r) K_TCH_D false cur) (trx_owns_opt L UL (other_subchan (r_lchan r)) fn)
  end.

(* every row of the task's table is of a kind the comparison accounts for *)
Definition chk_row_kinds (r : row) : bool :=
  match r_mode r with
  | Block => fw_rows_within (r_task r) [(K_NB_DL, 0); (K_NB_UL, 0); (K_NB_DL, fw_MF_F_SACCH); (K_NB_UL, fw_MF_F_SACCH)]
  | BlockDL => fw_rows_within (r_task r) [(K_NB_DL, 0)]
  | Tch => fw_rows_within (r_task r) [(K_TCH, 0); (K_TCH_A, fw_MF_F_SACCH); (K_TCH_D, 0)]
  end.

(* both mappings repeat with this cycle (51-multiframe channels: 2 x 51, 26-multiframe channels: 4 x 26); the sweeps run over
   one cycle per row, chk_cycle is what allows Proofs/MframeP.v to extend them to every frame number *)
Definition row_cycle (r : row) : Z := match r_mode r with Block => 102 | _ => 104 end.

Definition mods_divide (C : Z) (items : list (Z*Z*Z*Z)) : bool :=
  forallb (fun it : Z*Z*Z*Z => let '(_, m, _, _) := it in (0 <? m) && (C mod m =? 0)) items.

Definition chk_cycle (r : row) (tn : Z) : bool :=
  match row_layout r tn, nth_error fw_sched (Z.to_nat (r_task r)) with
  | Some L, Some (Some items) => (0 <? ly_period L) && (row_cycle r mod ly_period L =? 0) && mods_divide (row_cycle r) items
  | _, _ => false
  end.

Definition chk_row (r : row) (tn cur : Z) : bool :=
  negb (tn_ok (r_tn r) tn) || (if is_tch (r_mode r) then chk_tch r tn cur else chk_block r tn cur).

Definition chk_row_tn (r : row) (tn : Z) : bool :=
  (negb (tn_ok (r_tn r) tn) || chk_cycle r tn) && forallb (fun cur => chk_row r tn cur) (range 0 (row_cycle r)).

(* the channel number both stacks report for the row: mframe_task2chan_nr(task, tn) = desc[lchan].chan_nr | tn,
   link id 0 for the main channel and L1SCHED_CH_LID_SACCH for its SACCH *)
Definition chk_row_chan_nr (r : row) (tn : Z) : bool :=
  (fw_task_chan_nr (r_task r) tn =? Z.lor (desc_chan_nr (r_lchan r)) tn) && (desc_link_id (r_lchan r) =? 0) &&
  match r_sacch r with
  | Some s => (desc_chan_nr s =? desc_chan_nr (r_lchan r)) && (desc_link_id s =? tx_LID_SACCH)
  | None => true
  end.

(* burst ids: from frame i the next frame (cyclically, i+d mod period, smallest d >= 1) of the same channel carries bid+1 mod nbursts *)
Fixpoint first_same (l : layout) (d : dir) (c i : Z) (k : Z) (fuel : nat) : option Z :=
  match fuel with
  | O => None
  | S f =>
      match trx_frame l (i + k) with
      | FrOk fr => if fr_chan d fr =? c then Some k else first_same l d c i (k + 1) f
      | _ => None
      end
  end.

Definition chk_bid_at (l : layout) (d : dir) (i : Z) : bool :=
  match trx_frame l i with
  | FrOk fr =>
      let c := fr_chan d fr in
      let n := lchan_nbursts c in
      (c =? tx_L1SCHED_IDLE) ||
      (0 <=? fr_bid d fr) && (fr_bid d fr <? n) &&
      match first_same l d c i 1 (Z.to_nat (ly_period l)) with
      | Some k => match trx_frame l (i + k) with FrOk fr' => fr_bid d fr' =? (fr_bid d fr + 1) mod n | _ => false end
      | None => false
      end
  | _ => false
  end.

Definition has_frames (l : layout) : bool := negb (ly_cfg l =? tx_GSM_PCHAN_NONE).

Definition chk_bids (l : layout) : bool :=
  negb (has_frames l) || forallb (fun i => chk_bid_at l DL i && chk_bid_at l UL i) (range 0 (ly_period l)).

Definition chk_table (l : layout) : bool :=
  negb (has_frames l) ||
  ((0 <? ly_period l) && (ly_period l <=? ly_nframes l) && (ly_period l <? 256) &&
   (Z.of_nat (length (ly_frames l)) =? ly_nframes l)).

Definition chan_in_mask (l : layout) (c : Z) : bool :=
  (c =? tx_L1SCHED_IDLE) || ((0 <=? c) && (c <? tx_CHAN_MAX) && (c <? 64) && Z.testbit (ly_mask l) c).

Definition chk_mask (l : layout) : bool :=
  forallb (fun fr => chan_in_mask l (fr_chan DL fr) && chan_in_mask l (fr_chan UL fr)) (ly_frames l).

(* channel combinations trxcon knows; every other value of enum gsm_phys_chan_config has no layout *)
Definition c11_configs : list Z :=
  [tx_GSM_PCHAN_NONE; tx_GSM_PCHAN_CCCH; tx_GSM_PCHAN_CCCH_SDCCH4; tx_GSM_PCHAN_CCCH_SDCCH4_CBCH; tx_GSM_PCHAN_SDCCH8_SACCH8C;
   tx_GSM_PCHAN_SDCCH8_SACCH8C_CBCH; tx_GSM_PCHAN_TCH_F; tx_GSM_PCHAN_TCH_H; tx_GSM_PCHAN_PDCH].

Definition chk_lookup (cfg tn : Z) : bool :=
  match trx_layout cfg tn with
  | Some li =>
      (trx_layout_real cfg tn =? li) && existsb (Z.eqb cfg) c11_configs &&
      match nth_error tx_layouts (Z.to_nat li) with
      | Some L => (ly_cfg L =? cfg) && Z.testbit (ly_slotmask L) tn
      | None => false
      end
  | None => (trx_layout_real cfg tn =? -1) && negb (existsb (Z.eqb cfg) c11_configs)
  end.

(* ------------------------------------------------------------------ failing-input search (same checkers, first offender) *)

Definition pairs {A B} (la : list A) (lb : list B) : list (A * B) := flat_map (fun a => map (fun b => (a, b)) lb) la.

Definition find_bad_row (fnmax : Z) : option (Z * Z * Z) :=
  let idx := combine (map Z.of_nat (seq 0 (length c11_rows))) c11_rows in
  let top (r : row) := if fnmax <=? 0 then row_cycle r else fnmax in
  match find (fun x : (Z * row) * Z => negb (forallb (fun cur => chk_row (snd (fst x)) (snd x) cur) (range 0 (top (snd (fst x)))))) (pairs idx (range 0 8)) with
  | Some ((ri, r), tn) =>
      match find (fun cur => negb (chk_row r tn cur)) (range 0 (top r)) with Some cur => Some (ri, tn, cur) | None => None end
  | None => None
  end.

(* ------------------------------------------------------------------ wire functions (correspondence driver) *)

Definition enc_calls (cs : list call) : list Z :=
  Z.of_nat (length cs) :: flat_map (fun c : call => let '(o, k, p) := c in [o; k; p]) cs.

(* [mask; fn] -> n, (frame_offset, kind, p3)*n   of the real mframe_schedule() *)
Definition w_c11_fw_sched (a : list Z) : list Z :=
  match a with
  | [mask; fn] => match fw_mframe_schedule mask fn with FwOk cs => enc_calls cs | FwNull => [-1] | FwDivZero => [-2] end
  | _ => [-999]
  end.

(* [layout index; fn] -> layouts[i].frames[fn % period] *)
Definition w_c11_trx_frame (a : list Z) : list Z :=
  match a with
  | [li; fn] =>
      if li <? 0 then [-1] else
      match nth_error tx_layouts (Z.to_nat li) with
      | None => [-1]
      | Some L => match trx_frame L fn with FrOk (dc, db, uc, ub) => [dc; db; uc; ub] | FrDivZero => [-2] | FrOOB => if ly_nframes L <? 0 then [-2] else [-3] end
      end
  | _ => [-999]
  end.

(* [config; tn] -> index of the layout chosen by l1sched_mframe_layout(), -1 for NULL *)
Definition w_c11_trx_layout (a : list Z) : list Z :=
  match a with
  | [cfg; tn] => match trx_layout cfg tn with Some li => [li] | None => [-1] end
  | _ => [-999]
  end.

(* sched_trx.c l1sched_configure_ts(): after choosing the layout it allocates one channel state for every lchan type
   0 .. _L1SCHED_CHAN_MAX-1 whose bit is set in the layout's 64-bit lchan_mask (LAYOUT_HAS_LCHAN), in ascending type order;
   -EINVAL when there is no layout for the combination or the layout is of another combination *)
Definition trx_configured (l : layout) : list Z :=
  filter (fun c => (c <? 64) && Z.testbit (ly_mask l) c) (range 0 tx_CHAN_MAX).

(* [config; tn] -> [0; types with a channel state...] | [-22] (EINVAL) *)
Definition w_c11_cfg_ts (a : list Z) : list Z :=
  match a with
  | [cfg; tn] =>
      match trx_layout cfg tn with
      | Some li => match nth_error tx_layouts (Z.to_nat li) with
                   | Some l => if ly_cfg l =? cfg then 0 :: trx_configured l else [-22]
                   | None => [-998]
                   end
      | None => [-22]
      end
  | _ => [-999]
  end.

(* [i] -> row i of the specification table as task, combination, tn rule (0 all, 1 even, 2 odd), mode (0 Block, 1 BlockDL, 2 Tch),
   lchan, SACCH lchan or -1; [] past the end (lets the Python oracle check that it uses the same table) *)
Definition w_c11_row (a : list Z) : list Z :=
  match a with
  | [i] =>
      if i <? 0 then [] else
      match nth_error c11_rows (Z.to_nat i) with
      | Some r => [r_task r; r_cfg r; match r_tn r with TnAll => 0 | TnEven => 1 | TnOdd => 2 end;
                   match r_mode r with Block => 0 | BlockDL => 1 | Tch => 2 end; r_lchan r;
                   match r_sacch r with Some s => s | None => -1 end]
      | None => []
      end
  | _ => [-999]
  end.

(* [fnmax] (0: one cycle per row) -> first (row index, tn, cur) that breaks the block-start / frame-by-frame agreement, [] if none *)
Definition w_c11_find_bad (a : list Z) : list Z :=
  match a with
  | [fnmax] => match find_bad_row fnmax with Some (ri, tn, cur) => [ri; tn; cur] | None => [] end
  | _ => [-999]
  end.
