(* Model of the SI4 / SI1 history around gsm48_decode_mobile_alloc (C20), layer23 src/common/sysinfo.c.

     int gsm48_decode_sysinfo4(struct gsm48_sysinfo *s, const struct gsm48_system_information_type_4 *si, int len)
     {   int payload_len = len - sizeof( *si);  const uint8_t *data = si->data;
         memcpy(s->si4_msg, si, OSMO_MIN(len, sizeof(s->si4_msg)));          -- uint8_t si4_msg[23]
         gsm48_decode_lai2(&si->lai, ..); gsm48_decode_cell_sel_param(..); gsm48_decode_rach_ctl_param(..);   -- the fixed part, read unconditionally
         ... the tail modelled by Model/MobAllocSi4.si4_tail (return -EIO on a short read) ...
         s->si4 = 1;  return 0; }

     int gsm48_decode_sysinfo1(struct gsm48_sysinfo *s, const struct gsm48_system_information_type_1 *si, int len)
     {   ... memcpy(s->si1_msg, ..); decode_freq_list(s->freq, si->cell_channel_description, 16, 0xce, FREQ_TYPE_SERV); rach; rest octets ...
         s->si1 = 1;
         if (s->si4) { const struct gsm48_system_information_type_4 *si4 = (void * )s->si4_msg;
                       gsm48_decode_sysinfo4(s, si4, sizeof(s->si4_msg)); }   -- on the STORED buffer, length = the buffer size, result ignored
         return 0; }

   A cell is (freq / hopping / hopp_len, the CBCH channel description members, the flags si1 and si4, the buffer si4_msg as a list).
   sysinfo4 msg x: msg is the whole message (its length is the C argument len).  The memcpy is 'store' (writes inside the buffer are
   checked), a message shorter than the fixed part makes the unconditional reads of the fixed part leave the message (COOB; the callers
   in gsm48_rr.c / grr.c check len >= sizeof( *si) first), the payload is the message from octet c_SI4_HDR_SIZE on.
   The members written from the fixed part (LAI, cell selection, RACH control) and the rest octets are not modelled.
   sysinfo1 freq1 x: freq1 is the table after decode_freq_list (given, as in Model/MobAlloc.v); the re-decode reads si4_msg[0 .. size-1]
   (checked) and runs sysinfo4 on exactly these octets - the memcpy then copies the buffer onto itself.
   Definitions only; proofs are in Proofs/MobAllocHistP.v. *)
From Coq Require Import ZArith List Bool.
From OBB Require Import Base.Range Gen.MobAllocConst Gen.MobAllocSi4Const Model.MobAlloc Model.MobAllocSi4.
Import ListNotations.
Open Scope Z_scope.

Record cell := mkcell { c_st : st; c_cb : cb; c_si1 : Z; c_si4 : Z; c_buf : list Z }.
Inductive cres := CRet (rc : Z) (x : cell) | COOB.

(* memcpy(s->si4_msg, si, OSMO_MIN(len, sizeof(s->si4_msg))) *)
Definition store (buf msg : list Z) : option (list Z) :=
  let n := Z.min (Zlength msg) c_SI4_MSG_SIZE in
  if Zlength buf <? n then None else Some (firstn (Z.to_nat n) msg ++ skipn (Z.to_nat n) buf).

Definition sysinfo4 (msg : list Z) (x : cell) : cres :=
  match store (c_buf x) msg with
  | None => COOB
  | Some buf' =>
      if Zlength msg <? c_SI4_HDR_SIZE then COOB
      else
        match si4_tail (skipn (Z.to_nat c_SI4_HDR_SIZE) msg) (c_si1 x) (c_st x) (c_cb x) with
        | SOOB => COOB
        | SRet rc s c _ _ => CRet rc (mkcell s c (c_si1 x) (if rc =? 0 then 1 else c_si4 x) buf')
        end
  end.

Definition sysinfo1 (freq1 : list Z) (x : cell) : cres :=
  let x1 := mkcell (mkst freq1 (s_hop (c_st x)) (s_hlen (c_st x))) (c_cb x) 1 (c_si4 x) (c_buf x) in
  if c_si4 x =? 0 then CRet 0 x1
  else if Zlength (c_buf x) <? c_SI4_MSG_SIZE then COOB                       (* si4_msg[0 .. sizeof - 1] is handed over as the message *)
  else
    match sysinfo4 (firstn (Z.to_nat c_SI4_MSG_SIZE) (c_buf x)) x1 with
    | COOB => COOB
    | CRet _ x2 => CRet 0 x2
    end.

(* ---------- specification side ---------- *)
(* a cell as the C struct holds it: si4_msg[23] of octets, freq[1024], hopping[64] *)
Definition cell_ok (x : cell) : Prop :=
  Zlength (c_buf x) = 23 /\ octets (c_buf x) /\ Zlength (s_freq (c_st x)) = 1024 /\ Zlength (s_hop (c_st x)) = 64.

(* ---------- wire function ----------
   w_c20_hist : pos hl0 hfill bg bfill nA A_0 .. A_{nA-1} nB B_0 .. B_{nB-1} (idx mask)*
     a fresh cell (si1 = si4 = 0, every octet of si4_msg = bfill, CBCH members cb0, hopping[] / hopp_len as in w_c20_decode) receives the
     SI4 messages A and (if nB > 0) B in this order, and one SI1 after the first pos of them (pos = 0: SI1 first).  The table given by
     bg and the pairs is the table AFTER SI1's decode_freq_list; before SI1 every entry has FREQ_TYPE_SERV (bit 0) cleared.
     observation: rc_A [rc_B] si1 si4 chan_nr h tsc maio hsn arfcn hopp_len hopping[0..63] si4_msg[0..22] (idx newmask)*  (relative to the
     given table)  |  -998 (COOB) *)
Definition run_si4 (msg : list Z) (r : option (list Z * cell)) : option (list Z * cell) :=
  match r with
  | None => None
  | Some (rcs, x) => match sysinfo4 msg x with COOB => None | CRet rc x' => Some (rcs ++ [rc], x') end
  end.
Definition run_si1 (freq1 : list Z) (r : option (list Z * cell)) : option (list Z * cell) :=
  match r with
  | None => None
  | Some (rcs, x) => match sysinfo1 freq1 x with COOB => None | CRet _ x' => Some (rcs, x') end
  end.

Definition msg_ok (m : list Z) : bool := forallb byte_ok m && (c_SI4_HDR_SIZE <=? Zlength m).

Definition w_c20_hist (a : list Z) : list Z :=
  match a with
  | pos :: hl0 :: hfill :: bg :: bfill :: nA :: rest =>
      if byte_ok hl0 && byte_ok bg && byte_ok bfill && (0 <=? hfill) && (hfill <? 65536) && (0 <=? nA) && (nA <? Zlength rest) && (0 <=? pos) && (pos <=? 2) then
        let A := firstn (Z.to_nat nA) rest in
        match skipn (Z.to_nat nA) rest with
        | [] => [-999]
        | nB :: rest2 =>
            if (0 <=? nB) && (nB <=? Zlength rest2) && ((pos <=? 1) || (0 <? nB)) then
              let B := firstn (Z.to_nat nB) rest2 in
              let ps := skipn (Z.to_nat nB) rest2 in
              if msg_ok A && ((nB =? 0) || msg_ok B) then
                match build (Z.to_nat c_FREQ_TABLE_SIZE) 0 bg ps with
                | None => [-999]
                | Some freq1 =>
                    let hop := map (fun k => (hfill + k) mod 65536) (range 0 c_HOPPING_SIZE) in
                    let x0 := mkcell (mkst (map (fun m => Z.land m 254) freq1) hop hl0) cb0 0 0 (map (fun _ => bfill) (range 0 c_SI4_MSG_SIZE)) in
                    let r0 := Some ([], x0) in
                    let r1 := if pos =? 0 then run_si1 freq1 r0 else r0 in
                    let r2 := run_si4 A r1 in
                    let r3 := if pos =? 1 then run_si1 freq1 r2 else r2 in
                    let r4 := if nB =? 0 then r3 else run_si4 B r3 in
                    let r5 := if pos =? 2 then run_si1 freq1 r4 else r4 in
                    match r5 with
                    | None => [-998]
                    | Some (rcs, x) =>
                        let c := c_cb x in
                        rcs ++ c_si1 x :: c_si4 x :: cb_chan_nr c :: cb_h c :: cb_tsc c :: cb_maio c :: cb_hsn c :: cb_arfcn c ::
                        s_hlen (c_st x) :: s_hop (c_st x) ++ c_buf x ++ diff 0 freq1 (s_freq (c_st x))
                    end
                end
              else [-999]
            else [-999]
        end
      else [-999]
  | _ => [-999]
  end.
