(* Model of the TDMA clock source (C09).
   mirrors: trx_toolkit clck_gen.py CLCKGen.start / stop / _worker / send_clck_ind, gsm_shared.py GSM_HYPERFRAME.

   Virtual time.  All times are integer ns on one monotonic clock.  One loop iteration of _worker consumes
   an input record (e, j, d):
     e  time that passes between `t = time.monotonic_ns()` and the second read `t_next = time.monotonic_ns()`
        in the overrun branch (formatting and emitting the warning),
     j  oversleep of `self._breaker.wait(dt * ns)` beyond the requested timeout (0 = ideal wait),
     d  time spent inside `self.clck_handler(fn)` (only if a handler is attached).
   The worker of one start()..stop() period performs as many complete iterations as there are input records;
   then the breaker is set and the following wait returns True (stop()).

   Python facts used: integers are unbounded (Z); `%` is flooring (Z.modulo, same sign convention also for a
   negative right operand); `x % 0` raises ZeroDivisionError, which ends the worker thread (Crash);
   "%u" % n renders n in decimal, with a leading '-' for negative n; str.encode() of that ASCII text is the
   octet list.  `dt * ns` is a float number of seconds; for 0 <= dt <= 2^31 ns the conversion is exact to far
   below 1 ns, the wait is modelled in integer ns. *)
From Coq Require Import ZArith List Bool.
From OBB Require Import Gen.ClockConst.
Import ListNotations.
Open Scope Z_scope.

(* ---- configuration of a CLCKGen instance; tick = t_tick of _worker, hyper = GSM_HYPERFRAME *)
Record cfg := { tick : Z; hyper : Z; period : Z; nlinks : nat; handler : bool }.

(* ---- decimal rendering of "%u" *)
Fixpoint dec_fuel (fuel : nat) (n : Z) (acc : list Z) : list Z :=
  match fuel with
  | O => acc
  | S f => let acc' := (48 + n mod 10) :: acc in if n <? 10 then acc' else dec_fuel f (n / 10) acc'
  end.
Definition dec_nat (n : Z) : list Z := dec_fuel (S (Z.to_nat (Z.log2 n))) n [].
Definition dec (n : Z) : list Z := if n <? 0 then 45 :: dec_nat (- n) else dec_nat n.

(* "IND CLOCK " *)
Definition ind_prefix : list Z := [73; 78; 68; 32; 67; 76; 79; 67; 75; 32].
(* payload = "IND CLOCK %u\0" % clck_src, as octets *)
Definition payload (fn : Z) : list Z := ind_prefix ++ dec fn ++ [0].

Definition link_ids (n : nat) : list Z := map Z.of_nat (seq 0 n).

(* the datagrams of one send_clck_ind call: (link index, octets), in link order *)
Definition ind_sends (c : cfg) (fn : Z) : list (Z * list Z) :=
  if fn mod period c =? 0 then map (fun l => (l, payload fn)) (link_ids (nlinks c)) else [].

(* send_clck_ind: None = ZeroDivisionError (ind_period = 0); otherwise the datagrams and the new clck_src *)
Definition send_clck_ind (c : cfg) (src : Z) : option (list (Z * list Z) * Z) :=
  if period c =? 0 then None else Some (ind_sends c src, (src + 1) mod hyper c).

(* ---- worker *)
Record wst := { now : Z; tnext : Z; src : Z }.
Record itin := { i_e : Z; i_j : Z; i_d : Z }.
(* what one iteration shows: overrun branch taken, t_next after the update (= time at which the wait was
   asked to end), clck_src and virtual time at the entry of send_clck_ind, datagrams, handler called *)
Record obs := { o_over : bool; o_deadline : Z; o_fn : Z; o_time : Z; o_sends : list (Z * list Z); o_called : bool }.

Definition dur (c : cfg) (i : itin) : Z := if handler c then i_d i else 0.

(* the part of an iteration up to the return of the wait: (overrun?, t_next, now at the start of the wait, dt) *)
Definition head_iter (c : cfg) (s : wst) (e : Z) : bool * Z * Z * Z :=
  let tn := tnext s + tick c in       (* t_next += t_tick *)
  let t := now s in                   (* t = time.monotonic_ns() *)
  let dt := tn - t in
  if dt <? 0 then (true, t + e, t + e, 0)   (* t_next = time.monotonic_ns(); dt = 0 *)
  else (false, tn, t, dt).

Definition step (c : cfg) (s : wst) (i : itin) : option (wst * obs) :=
  let '(over, tn, now1, dt) := head_iter c s (i_e i) in
  let now2 := now1 + dt + i_j i in    (* _breaker.wait(dt * ns) returned False *)
  match send_clck_ind c (src s) with
  | None => None
  | Some (sends, src') =>
      Some ({| now := now2 + dur c i; tnext := tn; src := src' |},
            {| o_over := over; o_deadline := tn; o_fn := src s; o_time := now2; o_sends := sends; o_called := handler c |})
  end.

(* state in which the thread dies when send_clck_ind raises *)
Definition crash_state (c : cfg) (s : wst) (i : itin) : wst :=
  let '(over, tn, now1, dt) := head_iter c s (i_e i) in
  {| now := now1 + dt + i_j i; tnext := tn; src := src s |}.

(* complete iterations: observations, final state, crashed? *)
Fixpoint run (c : cfg) (s : wst) (ins : list itin) : list obs * wst * bool :=
  match ins with
  | [] => ([], s, false)
  | i :: rest =>
      match step c s i with
      | None => ([], crash_state c s i, true)
      | Some (s', o) => let '(os, sf, cr) := run c s' rest in (o :: os, sf, cr)
      end
  end.

(* the last, incomplete iteration: the wait returns True at once *)
Definition stop_iter (c : cfg) (s : wst) (e : Z) : bool * wst :=
  let '(over, tn, now1, dt) := head_iter c s e in
  (over, {| now := now1; tnext := tn; src := src s |}).

(* result of one start() .. stop() period beginning at virtual time t0 *)
Record runres := { r_obs : list obs; r_crashed : bool; r_stop_over : bool; r_final : wst }.

(* start(): clck_src = clck_start; _worker: t_next = time.monotonic_ns() *)
Definition worker (c : cfg) (start t0 : Z) (ins : list itin) (e_stop : Z) : runres :=
  let '(os, s, cr) := run c {| now := t0; tnext := t0; src := start |} ins in
  if cr then {| r_obs := os; r_crashed := true; r_stop_over := false; r_final := s |}
  else let '(ov, s') := stop_iter c s e_stop in
       {| r_obs := os; r_crashed := false; r_stop_over := ov; r_final := s' |}.

(* a session: start(); n ticks; stop(); pause; start(); ...   one run = (pause before start, e of the stop iteration, inputs) *)
Fixpoint session (c : cfg) (start : Z) (t : Z) (runs : list (Z * Z * list itin)) : list runres :=
  match runs with
  | [] => []
  | (gap, e_stop, ins) :: rest =>
      let r := worker c start (t + gap) ins e_stop in
      r :: session c start (now (r_final r)) rest
  end.

(* ---- wire functions for the correspondence driver *)
Definition b2z (b : bool) : Z := if b then 1 else 0.

Definition enc_obs (o : obs) : list Z :=
  [b2z (o_over o); o_deadline o; o_fn o; o_time o; b2z (o_called o); Z.of_nat (length (o_sends o))]
  ++ flat_map (fun lp => fst lp :: Z.of_nat (length (snd lp)) :: snd lp) (o_sends o).

Definition enc_run (r : runres) : list Z :=
  Z.of_nat (length (r_obs r)) :: flat_map enc_obs (r_obs r)
  ++ [b2z (r_crashed r); b2z (r_stop_over r); now (r_final r); tnext (r_final r); src (r_final r)].

Fixpoint parse_itins (n : nat) (l : list Z) : option (list itin * list Z) :=
  match n with
  | O => Some ([], l)
  | S n' =>
      match l with
      | e :: j :: d :: l' =>
          match parse_itins n' l' with
          | Some (is, l'') => Some ({| i_e := e; i_j := j; i_d := d |} :: is, l'')
          | None => None
          end
      | _ => None
      end
  end.

Fixpoint parse_runs (n : nat) (l : list Z) : option (list (Z * Z * list itin)) :=
  match n with
  | O => match l with [] => Some [] | _ => None end
  | S n' =>
      match l with
      | gap :: e_stop :: k :: l' =>
          if k <? 0 then None else
          match parse_itins (Z.to_nat k) l' with
          | Some (is, l'') =>
              match parse_runs n' l'' with
              | Some rs => Some ((gap, e_stop, is) :: rs)
              | None => None
              end
          | None => None
          end
      | _ => None
      end
  end.

(* the implementation's configuration: tick and hyperframe as regenerated from the source *)
Definition impl_cfg (per : Z) (nl : nat) (h : bool) : cfg :=
  {| tick := c_tick; hyper := c_hyperframe; period := per; nlinks := nl; handler := h |}.

(* [start; period; nlinks; handler; nruns; (gap; e_stop; n; (e; j; d) * n) * nruns] -> concatenated enc_run *)
Definition w_c09_session (a : list Z) : list Z :=
  match a with
  | start :: per :: nl :: h :: nr :: rest =>
      if (nl <? 0) || (nr <? 0) || negb ((h =? 0) || (h =? 1)) then [-999] else
      match parse_runs (Z.to_nat nr) rest with
      | Some runs => flat_map enc_run (session (impl_cfg per (Z.to_nat nl) (h =? 1)) start 0 runs)
      | None => [-999]
      end
  | _ => [-999]
  end.

(* one send_clck_ind call on its own: [clck_src; ind_period; nlinks] -> [1] (ZeroDivisionError) | 0 :: new clck_src :: nsends :: (link; len; octets)* *)
Definition w_c09_send (a : list Z) : list Z :=
  match a with
  | [s; per; nl] =>
      if nl <? 0 then [-999] else
      match send_clck_ind (impl_cfg per (Z.to_nat nl) false) s with
      | None => [1]
      | Some (sends, s') => 0 :: s' :: Z.of_nat (length sends) :: flat_map (fun lp => fst lp :: Z.of_nat (length (snd lp)) :: snd lp) sends
      end
  | _ => [-999]
  end.

(* the payload alone (for sweeps over frame numbers) *)
Definition w_c09_payload (a : list Z) : list Z :=
  match a with [fn] => payload fn | _ => [-999] end.
