(* Histories on ONE capture object: appends, reads by index and full reads interleaved in any order.
   State = the octets of the capture (append_msg writes at the end wherever the last read left the position: mode a+b of
   DATADumpFile.__init__, and since 72dc55d an explicit seek to the end; reads start with their own seek).  What CPython's
   buffered file object does underneath is outside this model and is observed by the harness (vp/props/C15.py scenario 2d). *)
From Coq Require Import ZArith List.
From OBB Require Import Model.Trxd Model.Dump.
Import ListNotations.
Open Scope Z_scope.

Inductive dop : Type :=
| DAppend (m : msg)          (* append_msg(m) *)
| DIndex (i : Z)             (* parse_msg(i) *)
| DAll (skip count : option Z).   (* parse_all(skip, count) *)

Inductive dout : Type :=
| OAppend (r : res unit)
| OIndex (r : res one)
| OAll (r : res pall).

Definition dstep (f : list Z) (o : dop) : list Z * dout :=
  match o with
  | DAppend m => match append_msg f m with
                 | Ok f' => (f', OAppend (Ok tt))
                 | VErr => (f, OAppend VErr)
                 | Crash => (f, OAppend Crash)
                 end
  | DIndex i => (f, OIndex (parse_msg f i))
  | DAll s c => (f, OAll (parse_all f s c))
  end.

Fixpoint drun (f : list Z) (ops : list dop) : list Z * list dout :=
  match ops with
  | [] => (f, [])
  | o :: r => let '(f', x) := dstep f o in let '(f'', xs) := drun f' r in (f'', x :: xs)
  end.

(* the messages a history has appended, in order *)
Definition appended (ops : list dop) : list msg :=
  flat_map (fun o => match o with DAppend m => [m] | _ => [] end) ops.

(* ---------- wire function (correspondence with one real DATADumpFile opened by path) ----------
   [nfile; file...; ops...]  ops: 10 kind n e1..en (append_msg) | 11 i (parse_msg) | 12 (parse_all()) | 13 skip count (parse_all(skip, count))
   -> [length of the file afterwards; then per operation: -1 followed by 100/101/102 (append ok / ValueError / other) | enc_one | enc_pall] *)
Fixpoint wops (fuel : nat) (a : list Z) : option (list dop) :=
  match fuel with
  | O => None
  | S k =>
    match a with
    | [] => Some []
    | t :: r =>
      if t =? 10 then
        match r with
        | kind :: n :: r' =>
          match wmsgs 2 (kind :: n :: firstn (Z.to_nat n) r') with
          | Some [m] => option_map (cons (DAppend m)) (wops k (skipn (Z.to_nat n) r'))
          | _ => None
          end
        | _ => None
        end
      else if t =? 11 then
        match r with i :: r' => option_map (cons (DIndex i)) (wops k r') | _ => None end
      else if t =? 12 then option_map (cons (DAll None None)) (wops k r)
      else if t =? 13 then
        match r with s :: c :: r' => option_map (cons (DAll (Some s) (Some c))) (wops k r') | _ => None end
      else None
    end
  end.

Definition enc_dout (x : dout) : list Z :=
  match x with
  | OAppend (Ok _) => [100]
  | OAppend VErr => [101]
  | OAppend Crash => [102]
  | OIndex r => enc_one r
  | OAll r => enc_pall r
  end.

Definition w_dump_hist (a : list Z) : list Z :=
  match a with
  | n :: r =>
    let f := firstn (Z.to_nat n) r in
    let rest := skipn (Z.to_nat n) r in
    match wops (S (length rest)) rest with
    | Some ops => let '(f', outs) := drun f ops in Z.of_nat (length f') :: flat_map (fun x => -1 :: enc_dout x) outs
    | None => [-999]
    end
  | _ => [-999]
  end.
