(* Model of the firmware's GSM-time one-shot event scheduler (C08), on top of Model/TdmaSched.v.
   mirrors: src/target/firmware/layer1/sched_gsmtime.c  sched_gsmtime, sched_gsmtime_execute, sched_gsmtime_init,
            sched_gsmtime_reset;  include/layer1/sched_gsmtime.h (struct sched_gsmtime_event);  osmocom/core/linuxlist.h
            (llist_add = link behind the given node, llist_add_tail = link in front of it, llist_del).

   State.  static struct sched_gsmtime_event sched_gsmtime_events[16] + two list heads.  A list is modelled by the sequence of
   its nodes from head->next on, exactly as the llist operations leave it: [g_inact] = slot indices (which free slot the next
   request takes is its first element), [g_act] = the pending events (slot index, si = the item-set array the pointer designates,
   fn, p3).  The fields of a free slot are never read before they are written again, so they are not kept.
   sched_gsmtime_init links the 16 slots with llist_add at the head of the (statically empty) inactive list: [15; 14; ...; 0].
   Calling it a second time would re-link nodes that are linked already (inconsistent lists): not modelled, every history starts
   with the one call ([gs_init]); before it both lists are empty ([gs_zero]) and every request answers -EBUSY.

   sched_gsmtime(si, fn, p3): -EBUSY (state untouched) when the inactive list is empty; else takes inactive.next, fills it and
   links it IN FRONT OF the first pending event with a HIGHER fn (llist_add_tail(lh, &cur->list)), else at the end: events with
   equal fn keep their request order.
   sched_gsmtime_execute(fn): fn_ahead = (fn + SCHEDULE_AHEAD) % GSM_MAX_FN, then the
   `if (evt->fn == fn_ahead) {...} if (evt->fn > fn_ahead) break;` walk as written (two separate ifs); a matching event is handed to tdma_schedule_set(SCHEDULE_AHEAD - SCHEDULE_LATENCY, si, p3) of
   Model/TdmaSched.v - the int result is IGNORED by the code, the model keeps it in the list of handed-over events only -,
   unlinked and put at the HEAD of the inactive list (llist_add); returns the number of events handed over.
   sched_gsmtime_reset: every pending event, front to back, is put at the head of the inactive list.

   Integer widths.  fn is uint32_t; `fn + SCHEDULE_AHEAD` is computed in uint32 ([u32]) and then reduced modulo the GSM hyperframe
   (GSM_MAX_FN = 2715648, regenerated into Gen) - the callers pass absolute frame numbers below GSM_MAX_FN and l1_sync() passes
   l1s.current_time.fn, which wraps at GSM_MAX_FN (before commit 9c8dce2 the sum was not reduced and events for the frames 0 and 1
   were never handed over).  The stored evt->fn itself is never reduced: a request with fn >= GSM_MAX_FN never matches.  p3 uint16, the frame
   offset handed to tdma_schedule_set is a uint8_t parameter ([u8]).  Conversions of arguments happen at the call (wire decoder).

   The frame interrupt (sync.c l1_sync): tdma_sched_execute(); ...; sched_gsmtime_execute(l1s.current_time.fn); tdma_sched_advance(). *)
From Coq Require Import ZArith List Bool.
From OBB Require Import Gen.FwSchedConst Gen.FwGsmtimeConst Model.TdmaSched.
Import ListNotations.
Open Scope Z_scope.

Definition u32 (x : Z) : Z := x mod 4294967296.

Record gev := { e_slot : nat; e_si : list item; e_fn : Z; e_p3 : Z }.
Record gstate := { g_act : list gev; g_inact : list nat }.

(* static LLIST_HEAD(active_evts); static LLIST_HEAD(inactive_evts); *)
Definition gs_zero : gstate := {| g_act := []; g_inact := [] |}.

(* void sched_gsmtime_init(void), called once on the pristine lists: for (i = 0; i < 16; i++) llist_add(&events[i].list, &inactive_evts) *)
Definition sched_gsmtime_init (gs : gstate) : gstate :=
  {| g_act := g_act gs; g_inact := rev (seq 0 (Z.to_nat c_GSMTIME_NEVENTS)) ++ g_inact gs |}.
Definition gs_init : gstate := sched_gsmtime_init gs_zero.

(* llist_for_each_entry(cur, &active_evts, list) { if (cur->fn > evt->fn) { llist_add_tail(lh, &cur->list); return 0; } }
   llist_add_tail(lh, &active_evts); *)
Fixpoint ins_sorted (e : gev) (l : list gev) : list gev :=
  match l with
  | [] => [e]
  | c :: r => if e_fn c >? e_fn e then e :: c :: r else c :: ins_sorted e r
  end.

(* int sched_gsmtime(const struct tdma_sched_item *si, uint32_t fn, uint16_t p3) *)
Definition sched_gsmtime (gs : gstate) (si : list item) (fn p3 : Z) : gstate * Z :=
  match g_inact gs with
  | [] => (gs, - c_EBUSY)
  | s :: rest =>
    ({| g_act := ins_sorted {| e_slot := s; e_si := si; e_fn := fn; e_p3 := p3 |} (g_act gs); g_inact := rest |}, 0)
  end.

(* the walk of sched_gsmtime_execute over the active list (llist_for_each_entry_safe: the successor is read before the body,
   the body unlinks only the current node).  Result: the active list afterwards, the TDMA scheduler, the inactive list, and the
   events handed over with the (ignored) result of tdma_schedule_set, in order. *)
Fixpoint gexec_walk (tgt off : Z) (l : list gev) (ts : sched) (inact : list nat)
  : res (list gev * sched * list nat * list (gev * Z)) :=
  match l with
  | [] => Ok ([], ts, inact, [])
  | e :: r =>
    (* if (evt->fn == fn + SCHEDULE_AHEAD) { tdma_schedule_set(...); llist_del(&evt->list); llist_add(&evt->list, &inactive_evts); num++; } *)
    match (if e_fn e =? tgt then
             match tdma_schedule_set ts off (e_si e) (e_p3 e) with
             | Ok (ts', rc) => Ok (ts', e_slot e :: inact, [(e, rc)], [])
             | OOB => OOB
             | NullCall => NullCall
             end
           else Ok (ts, inact, [], [e])) with
    | Ok (ts1, inact1, f1, keep) =>
      (* if (evt->fn > fn + SCHEDULE_AHEAD) break; *)
      if e_fn e >? tgt then Ok (keep ++ r, ts1, inact1, f1)
      else match gexec_walk tgt off r ts1 inact1 with
           | Ok (act', ts2, inact2, f2) => Ok (keep ++ act', ts2, inact2, f1 ++ f2)
           | OOB => OOB
           | NullCall => NullCall
           end
    | OOB => OOB
    | NullCall => NullCall
    end
  end.

(* int sched_gsmtime_execute(uint32_t fn) *)
(* uint32_t fn_ahead = (fn + SCHEDULE_AHEAD) % GSM_MAX_FN; *)
Definition gexec_target (fn : Z) : Z := (u32 (fn + c_SCHEDULE_AHEAD)) mod c_GSM_MAX_FN.
Definition gexec_offset : Z := u8 (c_SCHEDULE_AHEAD - c_SCHEDULE_LATENCY).

Definition sched_gsmtime_execute (ts : sched) (gs : gstate) (fn : Z) : res (sched * gstate * Z * list (gev * Z)) :=
  match gexec_walk (gexec_target fn) gexec_offset (g_act gs) ts (g_inact gs) with
  | Ok (act', ts', inact', fired) => Ok (ts', {| g_act := act'; g_inact := inact' |}, Z.of_nat (length fired), fired)
  | OOB => OOB
  | NullCall => NullCall
  end.

(* void sched_gsmtime_reset(void) *)
Definition sched_gsmtime_reset (gs : gstate) : gstate :=
  {| g_act := []; g_inact := rev (map e_slot (g_act gs)) ++ g_inact gs |}.

(* ---- histories of both schedulers ---- *)
Inductive gop :=
| GT (o : op)                                  (* an operation of the TDMA scheduler (re-entrant execute) *)
| GReq (si : list item) (fn : Z) (p3 : Z)      (* sched_gsmtime(si, fn, p3) *)
| GExec (fn : Z)                               (* sched_gsmtime_execute(fn) *)
| GReset.                                      (* sched_gsmtime_reset() *)

Inductive gobs :=
| QT (b : obs_sp)
| QRet (r : Z)                                 (* return value of sched_gsmtime *)
| QNum (n : Z) (fired : list (gev * Z))        (* return value of sched_gsmtime_execute; what it handed over (not visible to the caller) *)
| QReset (n : Z).                              (* free slots after sched_gsmtime_reset *)

Definition g_step (rcf : item -> Z) (ts : sched) (gs : gstate) (o : gop) : res (sched * gstate * gobs) :=
  match o with
  | GT o' => match step_sp rcf ts o' with Ok (ts', b) => Ok (ts', gs, QT b) | OOB => OOB | NullCall => NullCall end
  | GReq si fn p3 => let '(gs', r) := sched_gsmtime gs si fn p3 in Ok (ts, gs', QRet r)
  | GExec fn =>
    match sched_gsmtime_execute ts gs fn with
    | Ok (ts', gs', n, fired) => Ok (ts', gs', QNum n fired)
    | OOB => OOB
    | NullCall => NullCall
    end
  | GReset => let gs' := sched_gsmtime_reset gs in Ok (ts, gs', QReset (Z.of_nat (length (g_inact gs'))))
  end.

Inductive gfin := GFOk (ts : sched) (gs : gstate) | GFOOB | GFNull.

Fixpoint g_run (rcf : item -> Z) (ts : sched) (gs : gstate) (ops : list gop) : list gobs * gfin :=
  match ops with
  | [] => ([], GFOk ts gs)
  | o :: r =>
    match g_step rcf ts gs o with
    | Ok (ts', gs', b) => let '(bs, f) := g_run rcf ts' gs' r in (b :: bs, f)
    | OOB => ([], GFOOB)
    | NullCall => ([], GFNull)
    end
  end.

(* ---- wire function: cur { 1.. 5 as w_c08_runsp | 6 fn p3 n (cb p1 p2 p3 prio){n} | 7 fn | 8 }*
   6 = sched_gsmtime (the array must contain SCHED_END_SET: the harness cannot let the real code run off an array) -> return value;
   7 = sched_gsmtime_execute -> return value; 8 = sched_gsmtime_reset -> number of free slots.
   final state: the TDMA scheduler as in w_c08_runsp, then 8888 nact (slot fn p3 n (item){n}){nact} ninact slot{ninact} ---- *)
Definition has_end_set (its : list item) : bool := existsb (fun it => i_cb it =? CB_END_SET) its.

Fixpoint parse_gops (fuel : nat) (a : list Z) : option (list gop) :=
  match a with
  | [] => Some []
  | c :: r =>
    match fuel with
    | O => None
    | S f =>
      if c =? 1 then
        match r with
        | off :: cb :: p1 :: p2 :: p3 :: pr :: r' =>
          if cb_valid_sp cb then option_map (cons (GT (OSched (u8 off) (mk_item cb p1 p2 p3 pr)))) (parse_gops f r') else None
        | _ => None
        end
      else if c =? 2 then
        match r with
        | off :: p3 :: n :: r' =>
          if (0 <=? n) && (n <=? 64) then
            match take_items_sp (Z.to_nat n) r' with
            | Some (its, r'') => option_map (cons (GT (OSet (u8 off) its (u16 p3)))) (parse_gops f r'')
            | None => None
            end
          else None
        | _ => None
        end
      else if c =? 3 then option_map (cons (GT OAdvance)) (parse_gops f r)
      else if c =? 4 then option_map (cons (GT OExecute)) (parse_gops f r)
      else if c =? 5 then option_map (cons (GT OReset)) (parse_gops f r)
      else if c =? 6 then
        match r with
        | fn :: p3 :: n :: r' =>
          if (0 <=? n) && (n <=? 64) then
            match take_items_sp (Z.to_nat n) r' with
            | Some (its, r'') => if has_end_set its then option_map (cons (GReq its (u32 fn) (u16 p3))) (parse_gops f r'') else None
            | None => None
            end
          else None
        | _ => None
        end
      else if c =? 7 then
        match r with
        | fn :: r' => option_map (cons (GExec (u32 fn))) (parse_gops f r')
        | _ => None
        end
      else if c =? 8 then option_map (cons GReset) (parse_gops f r)
      else None
    end
  end.

Definition enc_gobs (b : gobs) : list Z :=
  match b with
  | QT b' => enc_obs_sp b'
  | QRet r => [r]
  | QNum n _ => [n]
  | QReset n => [n]
  end.

Definition enc_gev (e : gev) : list Z :=
  Z.of_nat (e_slot e) :: e_fn e :: e_p3 e :: Z.of_nat (length (e_si e)) :: flat_map enc_item (e_si e).

Definition enc_gstate (gs : gstate) : list Z :=
  8888 :: Z.of_nat (length (g_act gs)) :: flat_map enc_gev (g_act gs) ++
  Z.of_nat (length (g_inact gs)) :: map Z.of_nat (g_inact gs).

Definition w_c08_gsm (a : list Z) : list Z :=
  match a with
  | cur :: r =>
    if (0 <=? cur) && (cur <? c_NBUCKETS) then
      match parse_gops (length r) r with
      | Some ops =>
        match g_run harness_rcf (init cur) gs_init ops with
        | (bs, GFOk ts gs) => flat_map enc_gobs bs ++ enc_state ts ++ enc_gstate gs
        | (bs, GFOOB) => flat_map enc_gobs bs ++ [-997]
        | (bs, GFNull) => flat_map enc_gobs bs ++ [-998]
        end
      | None => [-999]
      end
    else [-999]
  | [] => [-999]
  end.
