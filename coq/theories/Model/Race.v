(* C03, concurrency: the socket thread (one arrival / POWEROFF / POWERON) racing the clock thread (one clck_tick) on ONE transceiver.
   Atomic steps are exactly the segments between the yield points of the schedule driver (vp/sched_driver.py) on the real objects:
   a lock-protected section (tx_queue_append / tx_queue_clear / the partition in clck_tick), the release of the lock, and every single read or write of the
   shared attributes `running` and `fh` (CPython's GIL makes one attribute load/store atomic).
   mirrors: Transceiver.clck_tick, BurstForwarder.forward_msg -> Transceiver.get_tx_freq (reads self.fh once into a local),
   Transceiver.recv_data_msg, power_event_handler (running := x; tx_queue_clear(); disable_fh()), CTRL POWERON (reads running first).
   A burst is (id, frame number). *)
From Coq Require Import ZArith List Bool.
Import ListNotations.
Open Scope Z_scope.

Definition msg := (Z * Z)%type.

Inductive tick_pc :=
| TK0                                   (* not started *)
| TK1                                   (* about to read `running` *)
| TK2                                   (* about to take the queue lock *)
| TK2u (emit drop : list msg)           (* lock released (partition done inside the section), about to go on *)
| TK3 (emit drop : list msg)            (* forwarding: about to read `fh` (once; a local reference is used afterwards) for the head of emit *)
| TDone
| TCrash (lost : list msg).             (* an exception in the clock thread: the bursts it held are gone (no transition produces it any more) *)

Inductive sock_op := Arrive (m : msg) | PowerOff | PowerOn.
Inductive sock_pc := S0 | SA1 (m : msg) | SA2 (m : msg) | SA2u | SP1 | SP2 | SP2u | SP3 | SP4 | SO1 | SO2 | SDone.

Record st := { running : bool; queue : list msg; fhset : bool; tpc : tick_pc; spc : sock_pc;
               accepted : list msg; emitted : list msg; stale : list msg; cleared : list msg; rejected : list msg }.

(* frame numbers are compared modulo the hyperframe: 0 = due, less than half a hyperframe = ahead, otherwise behind *)
Definition HF : Z := 2715648.
Definition delta (mfn f : Z) : Z := (mfn - f) mod HF.
Fixpoint part (f : Z) (q : list msg) : list msg * list msg * list msg :=     (* (drop, emit, wait) *)
  match q with
  | [] => ([], [], [])
  | m :: r => let '(d, e, w) := part f r in
              if delta (snd m) f =? 0 then (d, m :: e, w) else if delta (snd m) f <? HF / 2 then (d, e, m :: w) else (m :: d, e, w)
  end.

Definition with_t (s : st) (pc : tick_pc) (q em sl : list msg) : st :=
  {| running := running s; queue := q; fhset := fhset s; tpc := pc; spc := spc s; accepted := accepted s;
     emitted := em; stale := sl; cleared := cleared s; rejected := rejected s |}.

(* after a burst was forwarded: next burst, or log the stale ones and finish *)
Definition after_fwd (s : st) (m : msg) (rest d : list msg) : st :=
  match rest with
  | [] => with_t s TDone (queue s) (emitted s ++ [m]) (stale s ++ d)
  | _ => with_t s (TK3 rest d) (queue s) (emitted s ++ [m]) (stale s)
  end.

(* one atomic step of the clock thread for the tick of frame f *)
Definition tick_step (f : Z) (s : st) : st :=
  match tpc s with
  | TK0 => with_t s TK1 (queue s) (emitted s) (stale s)
  | TK1 => if running s then with_t s TK2 (queue s) (emitted s) (stale s) else with_t s TDone (queue s) (emitted s) (stale s)
  | TK2 => let '(d, e, w) := part f (queue s) in with_t s (TK2u e d) w (emitted s) (stale s)
  | TK2u [] d => with_t s TDone (queue s) (emitted s) (stale s ++ d)
  | TK2u e d => with_t s (TK3 e d) (queue s) (emitted s) (stale s)
  | TK3 [] d => with_t s TDone (queue s) (emitted s) (stale s ++ d)
  | TK3 (m :: rest) d => after_fwd s m rest d
  | TDone => s
  | TCrash l => s
  end.

Definition with_s (s : st) (pc : sock_pc) (r : bool) (q : list msg) (fh : bool) (acc cl rej : list msg) : st :=
  {| running := r; queue := q; fhset := fh; tpc := tpc s; spc := pc; accepted := acc;
     emitted := emitted s; stale := stale s; cleared := cl; rejected := rej |}.
Definition keep_s (s : st) (pc : sock_pc) : st := with_s s pc (running s) (queue s) (fhset s) (accepted s) (cleared s) (rejected s).

Definition sock_step (op : sock_op) (s : st) : st :=
  match spc s with
  | S0 => match op with Arrive m => keep_s s (SA1 m) | PowerOff => keep_s s SP1 | PowerOn => keep_s s SO1 end
  | SA1 m => if running s then keep_s s (SA2 m) else with_s s SDone (running s) (queue s) (fhset s) (accepted s) (cleared s) (rejected s ++ [m])
  | SA2 m => with_s s SA2u (running s) (queue s ++ [m]) (fhset s) (accepted s ++ [m]) (cleared s) (rejected s)
  | SA2u => keep_s s SDone
  | SP1 => with_s s SP2 false (queue s) (fhset s) (accepted s) (cleared s) (rejected s)
  | SP2 => with_s s SP2u (running s) [] (fhset s) (accepted s) (cleared s ++ queue s) (rejected s)
  | SP2u => keep_s s SP3
  | SP3 => if fhset s then keep_s s SP4 else keep_s s SDone
  | SP4 => with_s s SDone (running s) (queue s) false (accepted s) (cleared s) (rejected s)
  | SO1 => if running s then keep_s s SDone else keep_s s SO2
  | SO2 => with_s s SDone true (queue s) (fhset s) (accepted s) (cleared s) (rejected s)
  | SDone => s
  end.

Definition t_live (s : st) : bool := match tpc s with TDone | TCrash _ => false | _ => true end.
Definition s_live (s : st) : bool := match spc s with SDone => false | _ => true end.

(* a schedule: true = let the clock thread move, false = the socket thread; a finished thread yields to the other *)
Definition sched_step (f : Z) (op : sock_op) (b : bool) (s : st) : st :=
  if b then (if t_live s then tick_step f s else sock_step op s)
  else (if s_live s then sock_step op s else tick_step f s).
Fixpoint run (f : Z) (op : sock_op) (sched : list bool) (s : st) : st :=
  match sched with [] => s | b :: r => run f op r (sched_step f op b s) end.
Fixpoint drain_t (fuel : nat) (f : Z) (s : st) : st := match fuel with O => s | S k => if t_live s then drain_t k f (tick_step f s) else s end.
Fixpoint drain_s (fuel : nat) (op : sock_op) (s : st) : st := match fuel with O => s | S k => if s_live s then drain_s k op (sock_step op s) else s end.
Definition run_all (f : Z) (op : sock_op) (sched : list bool) (s : st) : st :=
  let s1 := run f op sched s in
  drain_s 10 op (drain_t (2 * length (queue s) + 2 * length (queue s1) + 14) f s1).

Definition init (r fh : bool) (q : list msg) : st :=
  {| running := r; queue := q; fhset := fh; tpc := TK0; spc := S0; accepted := q; emitted := []; stale := []; cleared := []; rejected := [] |}.

(* wire: [f; running; fhset; opcode (0 arrive,1 poweroff,2 poweron); id; fn; nq; (id fn)*; nsched; bits...]
   -> [tick crashed; running; fhset; |emitted|; emitted ids...; |stale|; ids; |queue|; ids; |cleared|; |rejected|] *)
Fixpoint rd_msgs (n : nat) (l : list Z) : list msg * list Z :=
  match n, l with S k, a :: b :: r => let '(ms, r') := rd_msgs k r in ((a, b) :: ms, r') | _, _ => ([], l) end.
Definition w_c03_race (a : list Z) : list Z :=
  match a with
  | f :: r :: fh :: opc :: mid :: mfn :: nq :: rest =>
    let '(q, rest') := rd_msgs (Z.to_nat nq) rest in
    match rest' with
    | ns :: bits =>
      let op := if opc =? 0 then Arrive (mid, mfn) else if opc =? 1 then PowerOff else PowerOn in
      let s := run_all f op (map (fun b => negb (b =? 0)) (firstn (Z.to_nat ns) bits)) (init (negb (r =? 0)) (negb (fh =? 0)) q) in
      [match tpc s with TCrash _ => 1 | TDone => 0 | _ => 2 end; if running s then 1 else 0; if fhset s then 1 else 0;
       Z.of_nat (length (emitted s))] ++ map fst (emitted s) ++ [Z.of_nat (length (stale s))] ++ map fst (stale s)
      ++ [Z.of_nat (length (queue s))] ++ map fst (queue s) ++ [Z.of_nat (length (cleared s)); Z.of_nat (length (rejected s))]
    | _ => [-999]
    end
  | _ => [-999]
  end.
