(* Model of the mobile-allocation branch of gsm48_rr_render_ma WITH its Cell Channel Description sub-branch (C20),
   layer23 src/mobile/gsm48_rr.c, and of gsm48_decode_freq_list (vendored libosmocore src/gsm/gsm48_ie.c) for the bit map 0 format.

       if (cd->mob_alloc_lv[0]) {
           struct gsm_sysinfo_freq *freq = s->freq;
           if (cd->cell_desc_lv[0]) {                                            -- uint8_t cell_desc_lv[17]: len + 16 octets
               if (cd->cell_desc_lv[0] != 16) return GSM48_RR_CAUSE_ABNORMAL_UNSPEC;
               gsm48_decode_freq_list(freq, cd->cell_desc_lv + 1, 16, 0xce, FREQ_TYPE_SERV);      -- return code ignored
           }
           gsm48_decode_mobile_alloc(freq, cd->mob_alloc_lv + 1, cd->mob_alloc_lv[0], ma, ma_len, 0);
           if ( *ma_len < 1) return GSM48_RR_CAUSE_NO_CELL_ALLOC_A; }

       int gsm48_decode_freq_list(struct gsm_sysinfo_freq *f, uint8_t *cd, uint8_t len, uint8_t mask, uint8_t frqt)
       {   for (i = 0; i < 1024; i++) f[i].mask &= ~frqt;                        -- tabula rasa: the old allocation is CLEARED first
           if ((cd[0] & 0xc0 & mask) == 0x00) {                                  -- bit map 0 format
               if (len < 16) return -EINVAL;
               for (i = 1; i <= 124; i++) if ((cd[15 - ((i-1) >> 3)] & (1 << ((i-1) & 7)))) f[i].mask |= frqt;
               return 0; }
           ... range 1024 / 512 / 256 / 128 and variable bit map formats: every one only ORs frqt into some entries ... }

   The table f is s->freq itself (updated in place: the assignment changes the serving cell's table).  The loops touch f[0..1023] and
   cd[0..15] (checked: a shorter table / description is OOB).  For the formats other than bit map 0 the set of entries the decoder
   flags is the explicit argument 'other' of the model (not modelled; the harness takes it from the real function).
   Definitions only; proofs are in Proofs/MobAllocCdP.v. *)
From Coq Require Import ZArith List Bool.
From OBB Require Import Base.Range Gen.MobAllocConst Gen.MobAllocSi4Const Model.MobAlloc Model.MobAllocSi4.
Import ListNotations.
Open Scope Z_scope.

Definition clr_serv (m : Z) : Z := u8 (Z.land m (Z.lnot c_FREQ_TYPE_SERV)).          (* mask &= ~frqt *)
Definition set_serv (m : Z) : Z := u8 (Z.lor m c_FREQ_TYPE_SERV).                    (* mask |= frqt *)

(* the bit test of the bit map 0 loop for ARFCN i *)
Definition bm0_bit (cd : list Z) (i : Z) : bool :=
  negb (Z.land (zn cd (15 - Z.shiftr (i - 1) 3)) (Z.shiftl 1 (Z.land (i - 1) 7)) =? 0).

(* both loops of the bit map 0 case on a 1024-entry table *)
Definition bm0_table (freq cd : list Z) : list Z :=
  map (fun p => if (1 <=? fst p) && (fst p <=? 124) && bm0_bit cd (fst p) then set_serv (clr_serv (snd p)) else clr_serv (snd p))
      (combine (range 0 1024) freq).

(* the other formats: tabula rasa, then frqt ORed into the entries 'other' *)
Definition other_table (freq other : list Z) : list Z :=
  map (fun p => if has other (fst p) then set_serv (clr_serv (snd p)) else clr_serv (snd p)) (combine (range 0 1024) freq).

(* gsm48_decode_freq_list(f, cd, 16, 0xce, FREQ_TYPE_SERV): the table afterwards; None = access outside f[] / cd[] *)
Definition freq_list16 (freq cd other : list Z) : option (list Z) :=
  if Zlength freq <? 1024 then None
  else match rd cd 0 with
       | None => None
       | Some b0 =>
           if Z.land (Z.land b0 192) 206 =? 0 then                             (* (cd[0] & 0xc0 & mask) == 0x00 *)
             if Zlength cd <? 16 then None else Some (bm0_table freq cd)
           else Some (other_table freq other)
       end.

Definition render_ma_cd (lv cdlv other freq ma : list Z) (ma_len : Z) : res :=
  match rd lv 0 with
  | None => OOB
  | Some l =>
      if l =? 0 then Ok 0 (mkst freq ma ma_len)                               (* branch not taken *)
      else
        match rd cdlv 0 with
        | None => OOB
        | Some cl =>
            let go (fr : list Z) :=
              match decode fr (skipn 1 lv) l ma ma_len 0 with
              | OOB => OOB
              | Ok _ s' => if s_hlen s' <? 1 then Ok c_CAUSE_NO_CELL_ALLOC_A s' else Ok 0 s'
              end in
            if cl =? 0 then go freq
            else if negb (cl =? 16) then Ok c_CAUSE_ABNORMAL_UNSPEC (mkst freq ma ma_len)
            else match freq_list16 freq (skipn 1 cdlv) other with
                 | None => OOB
                 | Some fr => go fr
                 end
        end
  end.

(* ---------- specification side: 3GPP TS 44.018 10.5.2.1b, bit map 0 format, literal numbers ----------
   octet 1 (after the length): format bits 8,7 = 00, bits 4..1 = ARFCN 124..121; octet k (2..16): ARFCN 8*(16-k)+8 .. 8*(16-k)+1 *)
Definition bm0_has (cd : list Z) (a : Z) : bool :=
  (1 <=? a) && (a <=? 124) && Z.testbit (zn cd (15 - (a - 1) / 8)) ((a - 1) mod 8).

(* ---------- wire function ----------
   w_c20_rendercd : hl0 hfill bg nlv lv.. ncd cdlv.. nother other.. (idx mask)*      (nlv = 9, ncd = 17: the whole arrays)
     observation: rc ma_len ma[0..63] (idx newmask)* | -998 *)
Definition w_c20_rendercd (a : list Z) : list Z :=
  match a with
  | hl0 :: hfill :: bg :: nlv :: rest =>
      if byte_ok hl0 && byte_ok bg && (nlv =? c_MOB_ALLOC_LV_SIZE) && (nlv <? Zlength rest) && (0 <=? hfill) && (hfill <? 65536) then
        let lv := firstn (Z.to_nat nlv) rest in
        match skipn (Z.to_nat nlv) rest with
        | [] => [-999]
        | ncd :: rest2 =>
            if (ncd =? c_CELL_DESC_LV_SIZE) && (ncd <? Zlength rest2) then
              let cdlv := firstn (Z.to_nat ncd) rest2 in
              match skipn (Z.to_nat ncd) rest2 with
              | [] => [-999]
              | no :: rest3 =>
                  if (0 <=? no) && (no <=? Zlength rest3) then
                    let other := firstn (Z.to_nat no) rest3 in
                    let ps := skipn (Z.to_nat no) rest3 in
                    if forallb byte_ok lv && forallb byte_ok cdlv && forallb (fun x => (0 <=? x) && (x <? 1024)) other then
                      match build (Z.to_nat c_FREQ_TABLE_SIZE) 0 bg ps with
                      | None => [-999]
                      | Some freq =>
                          let hop := map (fun k => (hfill + k) mod 65536) (range 0 c_HOPPING_SIZE) in
                          match render_ma_cd lv cdlv other freq hop hl0 with
                          | Ok rc s => rc :: s_hlen s :: s_hop s ++ diff 0 freq (s_freq s)
                          | OOB => [-998]
                          end
                      end
                    else [-999]
                  else [-999]
              end
            else [-999]
        end
      else [-999]
  | _ => [-999]
  end.
