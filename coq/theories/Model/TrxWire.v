(* wire functions for the session model: a whole session (configuration + operation list) is run by one call and the
   observations are returned as one flat int list (same layout as vp/session_wire.py produces from the real objects) *)
From Coq Require Import ZArith List Bool.
From OBB Require Import Gen.TrxdConst Gen.FakeTrxConst Model.Trxd Model.Trx.
Import ListNotations.
Open Scope Z_scope.

Definition take (n : Z) (l : list Z) : list Z * list Z := (firstn (Z.to_nat n) l, skipn (Z.to_nat n) l).

(* configuration: n, then per transceiver: idx mgt clock pm nchildren children... *)
Fixpoint rd_cfgs (n : nat) (l : list Z) : list cfg * list Z :=
  match n with
  | O => ([], l)
  | S k =>
    match l with
    | idx :: mgt :: clk :: pm :: nc :: r =>
      let '(ch, r') := take nc r in
      let '(cs, r'') := rd_cfgs k r' in
      ({| c_idx := idx; c_mgt := negb (mgt =? 0); c_clock := negb (clk =? 0); c_pm := negb (pm =? 0); c_children := map Z.to_nat ch |} :: cs, r'')
    | _ => ([], [])
    end
  end.

Definition enc_optz (o : option Z) : list Z := match o with Some x => [1; x] | None => [0; 0] end.
Fixpoint enc_pairs (l : list (Z * Z)) : list Z := match l with [] => [] | (a, b) :: r => a :: b :: enc_pairs r end.
Definition enc_sim (s : sim) : list Z :=
  [if s_muted s then 1 else 0; if s_fake_rssi s then 1 else 0; s_txp s; s_att s; s_toa s; s_toa_thr s; s_rssi s; s_rssi_thr s;
   s_ci s; s_ci_thr s; s_ta s; s_drop s; s_period s; s_delay s].
Definition enc_trx (t : trx) : list Z :=
  [if x_run t then 1 else 0] ++ enc_optz (x_rx t) ++ enc_optz (x_tx t)
  ++ (match x_fh t with None => [0] | Some h => [1; fh_hsn h; fh_maio h; Z.of_nat (length (fh_ma h))] ++ enc_pairs (fh_ma h) end)
  ++ [x_ver t; Z.of_nat (length (x_q t))] ++ map (fun m => oz (t_fn m)) (x_q t) ++ enc_sim (x_sim t).
Definition enc_world (w : world) : list Z :=
  [5] ++ flat_map enc_trx (w_trx w) ++ [Z.of_nat (length (w_links w))] ++ map Z.of_nat (w_links w) ++ [if w_gen w then 1 else 0].

Definition enc_deliv (x : nat * nat * delivery) : list Z :=
  let '(s, d, dl) := x in
  match dl with
  | Sent o _ => [Z.of_nat s; Z.of_nat d; 0; Z.of_nat (length o)] ++ o
  | Silent _ => [Z.of_nat s; Z.of_nat d; 1; 0]
  | DCrash => [Z.of_nat s; Z.of_nat d; 2; 0]
  end.

(* ops: 1 i n octets.. (ctrl) | 2 i n octets.. (data) | 3 fn (tick) | 4 n raws.. (more draws) | 5 (dump state) *)
Fixpoint run_ops (fuel : nat) (w : world) (draws : list Z) (ops : list Z) : list Z :=
  match fuel with
  | O => [-777]
  | S f =>
    match ops with
    | [] => []
    | 1 :: i :: n :: r =>
      let '(o, r') := take n r in
      let '(w', out, d') := handle_rx w (Z.to_nat i) o draws in
      (match out with RReply b => [1; 1; Z.of_nat (length b)] ++ b | RNone => [1; 0; 0] | RCrashed => [1; 2; 0] end) ++ run_ops f w' d' r'
    | 2 :: i :: n :: r =>
      let '(o, r') := take n r in
      match nth_error (w_trx w) (Z.to_nat i) with
      | None => [-998]
      | Some t => let '(t', acc) := recv_data t o in
                  [2; if acc then 1 else 0] ++ run_ops f (upd_trx w (Z.to_nat i) (fun _ => t')) draws r'
      end
    | 3 :: fn :: r =>
      let '(w', d', out) := tick w fn draws in
      (* only transmitted datagrams are observable on the sockets *)
      let sent := filter (fun x => match snd x with Sent _ _ => true | _ => false end) (o_deliv out) in
      [3; if o_crash out then 1 else 0; Z.of_nat (length sent)] ++ flat_map enc_deliv sent
      ++ [Z.of_nat (length (o_stale out))] ++ flat_map (fun x => [Z.of_nat (fst x); oz (t_fn (snd x))]) (o_stale out)
      ++ (if o_crash out then [] else run_ops f w' d' r)
    | 4 :: n :: r => let '(o, r') := take n r in run_ops f w (draws ++ o) r'
    | 5 :: r => enc_world w ++ run_ops f w draws r
    | _ => [-999]
    end
  end.

Definition w_trx_session (a : list Z) : list Z :=
  match a with
  | n :: r =>
    let '(cs, ops) := rd_cfgs (Z.to_nat n) r in
    run_ops (S (length ops)) {| w_trx := map trx0 cs; w_links := []; w_gen := false |} [] ops
  | _ => [-999]
  end.

(* small direct entry points *)
Definition w_trx_pyint (a : list Z) : list Z := match py_int a with Some v => [1; v] | None => [0; 0] end.
Definition w_trx_pystr (a : list Z) : list Z := match a with [n] => py_str n | _ => [-999] end.
Definition w_trx_tspick (a : list Z) : list Z := match ts_pick a with Some (c, bt, s, _) => [1; c; bt; s] | None => [0; 0; 0; 0] end.
