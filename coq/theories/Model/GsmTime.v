(* Model of the GSM time helpers (C19).
   mirrors: libosmocore gsm_utils.c gsm_fn2gsmtime / gsm_gsmtime2fn, gsm_utils.h ADD_MODULO,
            firmware layer1/sync.c l1s_time_inc, trx_toolkit gsm_shared.py HoppingParams.fn2gsm_time.
   C integers: fn is uint32_t (the += wraps mod 2^32), t1 uint16_t, t2/t3/tc uint8_t; C '/' and '%'
   are truncating (Z.quot / Z.rem), Python '//' and '%' are flooring (Z.div / Z.modulo). *)
From Coq Require Import ZArith List.
From OBB Require Import Gen.GsmTimeConst.
Import ListNotations.
Open Scope Z_scope.

Record gt := { g_fn : Z; g_t1 : Z; g_t2 : Z; g_t3 : Z; g_tc : Z }.

Definition u16 (x : Z) := x mod 65536.
Definition u8 (x : Z) := x mod 256.
Definition u32 (x : Z) := x mod 4294967296.

Definition fn2gsmtime (fn : Z) : gt :=
  {| g_fn := fn; g_t1 := u16 (Z.quot fn (26*51)); g_t2 := Z.rem fn 26; g_t3 := Z.rem fn 51; g_tc := Z.rem (Z.quot fn 51) 8 |}.

Definition gsmtime2fn (g : gt) : Z :=
  u32 (51 * Z.rem (g_t3 g - g_t2 g + 26) 26 + g_t3 g + 26 * 51 * g_t1 g).

(* ADD_MODULO(sum, delta, modulo): if ((sum += delta) >= modulo) sum -= modulo; with the width wrap of sum *)
Definition add_modulo (wrap : Z -> Z) (s d m : Z) : Z :=
  let s' := wrap (s + d) in if s' >=? m then wrap (s' - m) else s'.

Definition time_inc (g : gt) (delta : Z) : gt :=
  let fn' := add_modulo u32 (g_fn g) delta c_GSM_MAX_FN in
  if delta =? 1 then
    let t2' := add_modulo u8 (g_t2 g) 1 26 in
    let t3' := add_modulo u8 (g_t3 g) 1 51 in
    if t3' =? 0 then
      let tc' := add_modulo u8 (g_tc g) 1 8 in
      if t2' =? 0 then {| g_fn := fn'; g_t1 := add_modulo u16 (g_t1 g) 1 2048; g_t2 := t2'; g_t3 := t3'; g_tc := tc' |}
      else {| g_fn := fn'; g_t1 := g_t1 g; g_t2 := t2'; g_t3 := t3'; g_tc := tc' |}
    else {| g_fn := fn'; g_t1 := g_t1 g; g_t2 := t2'; g_t3 := t3'; g_tc := g_tc g |}
  else fn2gsmtime fn'.

(* Python: (t1, t2, t3, tc) *)
Definition py_fn2gsm_time (fn : Z) : Z * Z * Z * Z :=
  (fn / (26 * 51), fn mod 26, fn mod 51, (fn / 51) mod 8).

(* wire functions for the correspondence driver *)
Definition w_c19_fn2gt (a : list Z) : list Z :=
  match a with [fn] => let g := fn2gsmtime fn in [g_fn g; g_t1 g; g_t2 g; g_t3 g; g_tc g] | _ => [-999] end.
Definition w_c19_gt2fn (a : list Z) : list Z :=
  match a with [t1; t2; t3] => [gsmtime2fn {| g_fn := 0; g_t1 := t1; g_t2 := t2; g_t3 := t3; g_tc := 0 |}] | _ => [-999] end.
Definition w_c19_inc (a : list Z) : list Z :=
  match a with [fn; t1; t2; t3; tc; d] =>
    let g := time_inc {| g_fn := fn; g_t1 := t1; g_t2 := t2; g_t3 := t3; g_tc := tc |} d in
    [g_fn g; g_t1 g; g_t2 g; g_t3 g; g_tc g] | _ => [-999] end.
Definition w_c19_py (a : list Z) : list Z :=
  match a with [fn] => let '(t1, t2, t3, tc) := py_fn2gsm_time fn in [t1; t2; t3; tc] | _ => [-999] end.
