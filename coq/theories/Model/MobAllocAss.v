(* Model of the step 'message -> cd_now.mob_alloc_lv' of the assignment handlers (C20), layer23 src/mobile/gsm48_rr.c.

   gsm48_rr_rx_imm_ass (IMMEDIATE ASSIGNMENT, limit 8) and gsm48_rr_rx_imm_ass_ext (IMMEDIATE ASSIGNMENT EXTENDED, limit 4, both
   request-reference branches) do, with ia = msgb_l3(msg) and the last fixed member of the message struct being mob_alloc_len:

       int ma_len = msgb_l3len(msg) - sizeof( *ia);
       memset(&cd, 0, sizeof(cd)); ...
       if (ma_len < 0 || ia->mob_alloc_len > ma_len) return -EINVAL;            -- short read
       if (ia->mob_alloc_len > LIMIT) return -EINVAL;                           -- too large
       ... channel description, starting time ...
       if (gsm48_match_ra(ms, &ia->req_ref, IMM_ASS_HISTORY)) {
           memcpy(&rr->cd_now, &cd, sizeof(rr->cd_now));                        -- mob_alloc_lv all zero now
           memcpy(&rr->cd_now.mob_alloc_lv, &ia->mob_alloc_len, ia->mob_alloc_len + 1);
           ... return gsm48_rr_dl_est(ms); }                                    -- -> gsm48_rr_render_ma(ms, &rr->cd_now, ma, &ma_len)

   gsm48_rr_rx_frq_redef (FREQUENCY REDEFINITION) has the same shape with the short-read test 'fr->mob_alloc_len + 2 > mob_al_len'
   (slack 2), limit 8, and copies into the existing rr->cd_now (the octets behind the copy keep their old values).
   ASSIGNMENT COMMAND / HANDOVER COMMAND copy a TLV value ('if ( *lv + 1 > sizeof(cda->mob_alloc_lv)) return -ENOMEM; memcpy(.., lv, *lv + 1)'):
   same copy, the TLV parser in front of it is not modelled.

   tl = the octets of the message from mob_alloc_len on (length octet, value, whatever follows), so ma_len = |tl| - 1 (the member
   mob_alloc_len belongs to sizeof( *ia)); with tl = [] the length octet itself is not part of the message (ma_len = -1, not read).
   Reads of tl and writes of the array are checked.  Definitions only; proofs are in Proofs/MobAllocAssP.v. *)
From Coq Require Import ZArith List Bool.
From OBB Require Import Base.Range Gen.MobAllocConst Gen.MobAllocSi4Const Model.MobAlloc Model.MobAllocSi4.
Import ListNotations.
Open Scope Z_scope.

Inductive ares := ARefuse (rc : Z) | ACopied (lv : list Z) | AOOB.

Definition lv_copy (limit slack : Z) (tl lv0 : list Z) : ares :=
  let ma_len := Zlength tl - 1 in
  if ma_len <? 0 then ARefuse (- c_EINVAL)
  else
    match rd tl 0 with                                                        (* ia->mob_alloc_len *)
    | None => AOOB
    | Some l =>
        if ma_len <? l + slack then ARefuse (- c_EINVAL)                       (* short read of IE *)
        else if limit <? l then ARefuse (- c_EINVAL)                           (* too large *)
        else if (Zlength tl <? l + 1) || (Zlength lv0 <? l + 1) then AOOB      (* memcpy(dst, src, l + 1): both ranges checked *)
        else ACopied (firstn (Z.to_nat (l + 1)) tl ++ skipn (Z.to_nat (l + 1)) lv0)
    end.

Definition zero_lv : list Z := map (fun _ => 0) (range 0 c_MOB_ALLOC_LV_SIZE).

(* the immediate-assignment handlers: refused | not ours (nothing copied) | copied into the zeroed cd_now and rendered *)
Inductive asres := AsRefused (rc : Z) | AsNotOurs | AsEst (lv : list Z) (r : res) | AsOOB.

Definition imm_handler (limit ours h : Z) (tl freq ma : list Z) (ma_len : Z) : asres :=
  match lv_copy limit 0 tl zero_lv with
  | ARefuse rc => AsRefused rc
  | AOOB => AsOOB
  | ACopied lv =>
      if ours =? 0 then AsNotOurs
      else AsEst lv (if h =? 0 then Ok 0 (mkst freq ma 0)                      (* if (!cd->h) { *ma_len = 0; return 0; } *)
                     else render_ma lv freq ma ma_len)
  end.

(* ---------- wire function ----------
   w_c20_assign : limit ours h hl0 hfill bg ntl tl_0 .. tl_{ntl-1} (idx mask)*     (limit 8 = IMM ASS, 4 = IMM ASS EXT)
     observation: rc est lv[0..8] [cause ma_len ma[0..63] (idx newmask)*]   (est = 1: gsm48_rr_dl_est reached; lv = cd_now.mob_alloc_lv,
                  170 everywhere if nothing was copied)  |  -998 *)
Definition w_c20_assign (a : list Z) : list Z :=
  match a with
  | limit :: ours :: h :: hl0 :: hfill :: bg :: ntl :: rest =>
      if byte_ok hl0 && byte_ok bg && (0 <=? ntl) && (ntl <=? Zlength rest) && (0 <=? hfill) && (hfill <? 65536) && ((limit =? 8) || (limit =? 4)) then
        let tl := firstn (Z.to_nat ntl) rest in
        let ps := skipn (Z.to_nat ntl) rest in
        if forallb byte_ok tl then
          match build (Z.to_nat c_FREQ_TABLE_SIZE) 0 bg ps with
          | None => [-999]
          | Some freq =>
              let hop := map (fun k => (hfill + k) mod 65536) (range 0 c_HOPPING_SIZE) in
              let untouched := map (fun _ => 170) (range 0 c_MOB_ALLOC_LV_SIZE) in
              match imm_handler limit ours h tl freq hop hl0 with
              | AsRefused rc => rc :: 0 :: untouched
              | AsNotOurs => 0 :: 0 :: untouched
              | AsOOB => [-998]
              | AsEst lv OOB => [-998]
              | AsEst lv (Ok rc s) => 0 :: 1 :: lv ++ rc :: s_hlen s :: s_hop s ++ diff 0 freq (s_freq s)
              end
          end
        else [-999]
      else [-999]
  | _ => [-999]
  end.
