(* Model of the frequency redefinition at "starting time" (C07): firmware layer1/prim_freq.c l1s_freq_cmd,
   the st_* fields of l1s.dedicated that l23_api.c l1ctl_rx_dm_freq_req stages, and what rfch.c rfch_get_params
   reads afterwards.
   The firmware keeps the channel description in a flag h plus a UNION { h0 = arfcn | h1 = hsn, maio, n, ma[64] }
   (sync.h), once active (h, h0/h1, tsc) and once staged (st_h, st_h0/st_h1, st_tsc). Only the union member selected
   by the flag is meaningful, so the model is a sum type; the mobile allocation is the list of its n used entries. *)
From Coq Require Import ZArith List Bool.
From OBB Require Import Model.GsmTime Model.Hopping.
Import ListNotations.
Open Scope Z_scope.

Inductive fset :=
| Fixed (arfcn : Z)                      (* h = 0: h0.arfcn *)
| Hop (hsn maio : Z) (ma : list Z).      (* h = 1: h1.hsn, h1.maio, h1.n = length ma, h1.ma[0..n-1] *)

Record ded := { act : fset; act_tsc : Z; st : fset; st_tsc : Z }.

(* l1ctl_rx_dm_freq_req: writes the staged copy only *)
Definition stage (d : ded) (s : fset) (tsc : Z) : ded :=
  {| act := act d; act_tsc := act_tsc d; st := s; st_tsc := tsc |}.

(* l1s_freq_cmd: tsc = st_tsc; h = st_h; h ? h1 = st_h1 : h0 = st_h0 *)
Definition freq_cmd (d : ded) : ded :=
  {| act := st d; act_tsc := st_tsc d; st := st d; st_tsc := st_tsc d |}.

(* rfch_get_params (dedicated channel): *arfcn_p, through the model of rfch_hop_seq_gen (Hopping.hop_c / pick) *)
Definition set_arfcn (s : fset) (fn : Z) : Z :=
  match s with
  | Fixed a => a
  | Hop hsn maio ma => hd (-1) (pick ma (hop_c (fn2gsmtime fn) hsn maio (Z.of_nat (length ma))))
  end.
Definition ded_arfcn (d : ded) (fn : Z) : Z := set_arfcn (act d) fn.
Definition ded_tsc (d : ded) : Z := act_tsc d.

(* ---- wire ----
   SET = 0 arfcn tsc | 1 hsn maio tsc n ma0 .. ma(n-1)         (1 <= n <= 64)
   w_c07_freq [nf; fn_0 .. fn_(nf-1); SET old; SET a; SET b]
     -> observations (arfcn tsc per fn) of: old channel; after staging a and the command; after staging b (command not yet
        run: still a); after the command for b *)
Definition parse_set (l : list Z) : option (fset * Z * list Z) :=
  match l with
  | 0 :: arfcn :: tsc :: r => Some (Fixed arfcn, tsc, r)
  | 1 :: hsn :: maio :: tsc :: n :: r =>
      if (1 <=? n) && (n <=? 64) && (n <=? Z.of_nat (length r))
      then Some (Hop hsn maio (firstn (Z.to_nat n) r), tsc, skipn (Z.to_nat n) r) else None
  | _ => None
  end.

Definition observe (d : ded) (fns : list Z) : list Z := flat_map (fun fn => [ded_arfcn d fn; ded_tsc d]) fns.

Definition w_c07_freq (a : list Z) : list Z :=
  match a with
  | nf :: r =>
    if (nf <? 0) || (Z.of_nat (length r) <? nf) then [-999] else
    let fns := firstn (Z.to_nat nf) r in
    match parse_set (skipn (Z.to_nat nf) r) with
    | Some (s0, t0, r1) =>
      match parse_set r1 with
      | Some (sa, ta, r2) =>
        match parse_set r2 with
        | Some (sb, tb, []) =>
          let d0 := {| act := s0; act_tsc := t0; st := s0; st_tsc := t0 |} in
          let d1 := freq_cmd (stage d0 sa ta) in
          let d2 := stage d1 sb tb in
          let d3 := freq_cmd d2 in
          observe d0 fns ++ observe d1 fns ++ observe d2 fns ++ observe d3 fns
        | _ => [-999] end
      | None => [-999] end
    | None => [-999] end
  | _ => [-999] end.
