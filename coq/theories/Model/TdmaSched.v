(* Model of the firmware TDMA scheduler (C08).
   mirrors: src/target/firmware/layer1/tdma_sched.c  wrap_bucket, tdma_schedule, tdma_schedule_set, tdma_sched_advance,
            _tdma_sched_bucket_sort, tdma_sched_execute, tdma_sched_reset;  include/layer1/tdma_sched.h (struct layout, macros).

   State.  l1s.tdma_sched = 25 buckets x (item[8], uint8 num_items) + uint8 cur_bucket.  A bucket is modelled by the list of its
   first num_items items (the code never reads item[k] for k >= num_items: the sort and the run loop are bounded by num_items, and
   a slot is written before num_items is incremented), so [length b] IS num_items.  The fixed array sizes stay explicit: a bucket
   index outside the bucket array, or a bucket with more items than the item[]/seq[] arrays hold, gives the result [OOB].
   An item is (cb, p1, p2, p3, prio); the flags field is only read by tdma_sched_flag_scan, which is outside C08.
   Callback identities: cb 0 = NULL (SCHED_END_FRAME marker), cb 1 = &tdma_end_set (SCHED_END_SET marker), cb >= 2 = other functions.
   Callbacks.  The int result of a plain callback is the explicit argument [rcf : item -> Z] (the concrete callbacks of the
   correspondence harness look at cb, p1 only).  Calling through cb = NULL is the result [NullCall].
   [tdma_sched_execute] (first part of this file) is the view in which NO callback touches the scheduler; the 13 history theorems
   of C08 are stated with it.  [tdma_sched_execute_sp] (second part) is the re-entrant function that exists: callbacks may call
   tdma_schedule() / tdma_sched_reset() WHILE tdma_sched_execute() runs (prim_fbsb.c l1s_sbdet_resp -> tdma_sched_reset();
   l1s_dsp_abort() = tdma_schedule(0, l1s_abort_cmd, ...)).  It threads the scheduler state through the run loop exactly like the
   C code: the bucket is sorted ONCE (seq[] = identity for all TDMASCHED_NUM_CB entries, the first num_items-at-entry sorted), the
   loop condition re-reads bucket->num_items on every iteration, so an item a callback appends to the bucket that is being run
   (frame offset 0, or 25) is executed in the same call, after the sorted ones, in append order (seq[k] = k) whatever its
   priority, and is counted in the return value; an item scheduled N frames ahead lands in bucket cur+N; a full bucket answers
   -1 to the callback; a negative callback result returns at once and leaves the bucket as it is, items appended so far included.
   Two callback identities use the scheduler: cb 15 = CB_SPAWN calls tdma_schedule(p2, child...) and cb 16 = CB_RSPAWN calls
   tdma_sched_reset() first (the prim_fbsb pattern); both ignore the result of tdma_schedule and return 0; the child
   ([child_of]) is a plain logger (cb 2..9), so the loop runs at most NITEMS callbacks: the explicit fuel NITEMS + 1 is enough and
   the result [SXFuel] is excluded by theorem c08_sp_no_crash.  By theorem c08_sp_conservative both functions agree on every bucket
   without cb 15 / 16.  NOT modelled: a callback that calls tdma_sched_advance() or tdma_sched_execute() itself, or that spawns
   spawning children (the firmware does neither).

   Integer widths.  frame_offset, p1, p2 uint8; p3 uint16; prio int16; cur_bucket uint8; wrap_bucket computes in int
   (cur_bucket + offset <= 510, no wrap), stores into uint16, returns uint8: both conversions are written out.  The operands of the
   C '%' are non-negative, where it coincides with Z.modulo.  tdma_schedule_set does `++frame_offset` on a uint8: [u8 (off + 1)].
   The conversion of the *arguments* to these widths happens at the call (the wire decoder below applies it); the functions
   themselves take the already converted values. *)
From Coq Require Import ZArith List Bool.
From OBB Require Import Gen.FwSchedConst.
Import ListNotations.
Open Scope Z_scope.

Record item := { i_cb : Z; i_p1 : Z; i_p2 : Z; i_p3 : Z; i_prio : Z }.
Definition dflt : item := {| i_cb := 0; i_p1 := 0; i_p2 := 0; i_p3 := 0; i_prio := 0 |}.
Definition CB_NULL : Z := 0.
Definition CB_END_SET : Z := 1.

Record sched := { s_bk : list (list item); s_cur : Z }.

Inductive res (A : Type) := Ok (a : A) | OOB | NullCall.
Arguments Ok {A}. Arguments OOB {A}. Arguments NullCall {A}.

Definition u8 (x : Z) : Z := x mod 256.
Definition u16 (x : Z) : Z := x mod 65536.
Definition s16 (x : Z) : Z := let y := x mod 65536 in if y >=? 32768 then y - 65536 else y.

Fixpoint upd {A : Type} (l : list A) (n : nat) (v : A) : list A :=
  match l, n with
  | [], _ => []
  | _ :: r, O => v :: r
  | x :: r, S k => x :: upd r k v
  end.

(* static uint8_t wrap_bucket(uint8_t offset) *)
Definition wrap_bucket (cur off : Z) : Z := u8 (u16 ((cur + off) mod c_NBUCKETS)).

Definition set_bucket (st : sched) (j : Z) (b : list item) : sched :=
  {| s_bk := upd (s_bk st) (Z.to_nat j) b; s_cur := s_cur st |}.

(* int tdma_schedule(frame_offset, cb, p1, p2, p3, prio) *)
Definition tdma_schedule (st : sched) (off : Z) (it : item) : res (sched * Z) :=
  let bnr := wrap_bucket (s_cur st) off in
  match nth_error (s_bk st) (Z.to_nat bnr) with
  | None => OOB
  | Some b => if c_NITEMS <=? Z.of_nat (length b) then Ok (st, -1)
              else Ok (set_bucket st bnr (b ++ [it]), 0)
  end.

Definition with_p3 (it : item) (p3 : Z) : item :=
  {| i_cb := i_cb it; i_p1 := i_p1 it; i_p2 := i_p2 it; i_p3 := p3; i_prio := i_prio it |}.

(* the for(;;) loop of tdma_schedule_set over item_set[i..]; [set] is the array the pointer designates, running off its end is OOB;
   the items stored before an overflow stay stored *)
Fixpoint sched_set (st : sched) (off bnr j : Z) (set : list item) (p3 : Z) : res (sched * Z) :=
  match set with
  | [] => OOB
  | it :: r =>
    if i_cb it =? CB_END_SET then Ok (st, j)
    else if i_cb it =? CB_NULL then
      let off' := u8 (off + 1) in sched_set st off' (wrap_bucket (s_cur st) off') (j + 1) r p3
    else match nth_error (s_bk st) (Z.to_nat bnr) with
         | None => OOB
         | Some b => if c_NITEMS <=? Z.of_nat (length b) then Ok (st, -1)
                     else sched_set (set_bucket st bnr (b ++ [with_p3 it p3])) off bnr j r p3
         end
  end.

(* int tdma_schedule_set(frame_offset, item_set, p3) *)
Definition tdma_schedule_set (st : sched) (off : Z) (set : list item) (p3 : Z) : res (sched * Z) :=
  sched_set st off (wrap_bucket (s_cur st) off) 0 set p3.

(* void tdma_sched_advance(void) *)
Definition tdma_sched_advance (st : sched) : sched :=
  {| s_bk := s_bk st; s_cur := wrap_bucket (s_cur st) 1 |}.

(* void tdma_sched_reset(void): every bucket but the current one *)
Fixpoint reset_from (j : Z) (cur : Z) (bk : list (list item)) : list (list item) :=
  match bk with
  | [] => []
  | b :: r => (if j =? cur then b else []) :: reset_from (j + 1) cur r
  end.
Definition tdma_sched_reset (st : sched) : sched :=
  {| s_bk := reset_from 0 (s_cur st) (s_bk st); s_cur := s_cur st |}.

(* _tdma_sched_bucket_sort on the seq[] index array.  [pi] is item_i->prio (item_i is re-pointed to item_j on a swap). *)
Definition prio_at (b : list item) (k : nat) : Z := i_prio (nth k b dflt).

Fixpoint sort_inner (b : list item) (sq : list nat) (i : nat) (pi : Z) (js : list nat) : list nat :=
  match js with
  | [] => sq
  | j :: r =>
    let pj := prio_at b (nth j sq O) in
    if pi >? pj then sort_inner b (upd (upd sq i (nth j sq O)) j (nth i sq O)) i pj r
    else sort_inner b sq i pi r
  end.

Fixpoint sort_outer (b : list item) (sq : list nat) (n : nat) (is : list nat) : list nat :=
  match is with
  | [] => sq
  | i :: r => sort_outer b (sort_inner b sq i (prio_at b (nth i sq O)) (seq (S i) (n - S i))) n r
  end.

Definition bucket_sort (b : list item) : list nat :=
  sort_outer b (seq 0 (Z.to_nat c_TDMASCHED_NUM_CB)) (length b) (seq 0 (length b)).

(* the run loop over the items in seq order *)
Inductive stop := SDone | SFail (rc : Z) | SNull.
Fixpoint run_items (rcf : item -> Z) (xs : list item) : list item * stop :=
  match xs with
  | [] => ([], SDone)
  | it :: r =>
    if i_cb it =? CB_NULL then ([], SNull)
    else if rcf it <? 0 then ([it], SFail (rcf it))
    else let '(lg, s) := run_items rcf r in (it :: lg, s)
  end.

Inductive xres := XOk (st : sched) (log : list item) (ret : Z) | XOOB | XNull (log : list item).

Definition exec_order (b : list item) : list item :=
  map (fun k => nth k b dflt) (firstn (length b) (bucket_sort b)).

(* int tdma_sched_execute(void): a negative callback result returns at once and leaves the bucket as it is *)
Definition tdma_sched_execute (rcf : item -> Z) (st : sched) : xres :=
  match nth_error (s_bk st) (Z.to_nat (s_cur st)) with
  | None => XOOB
  | Some b =>
    if (c_NITEMS <? Z.of_nat (length b)) || (c_TDMASCHED_NUM_CB <? Z.of_nat (length b)) then XOOB
    else match run_items rcf (exec_order b) with
         | (lg, SDone) => XOk (set_bucket st (s_cur st) []) lg (Z.of_nat (length lg))
         | (lg, SFail rc) => XOk st lg rc
         | (lg, SNull) => XNull lg
         end
  end.

(* ---- histories ---- *)
Inductive op :=
| OSched (off : Z) (it : item)
| OSet (off : Z) (set : list item) (p3 : Z)
| OAdvance
| OExecute
| OReset.

Inductive obs :=
| BRet (r : Z)                         (* return value of tdma_schedule / tdma_schedule_set *)
| BCur (c : Z)                         (* cur_bucket after tdma_sched_advance *)
| BExec (log : list item) (ret : Z)    (* callbacks invoked by tdma_sched_execute, in order, and its return value *)
| BReset (n : Z).                      (* number of items stored after tdma_sched_reset *)

Definition stored (st : sched) : Z := Z.of_nat (length (concat (s_bk st))).

Definition step (rcf : item -> Z) (st : sched) (o : op) : res (sched * obs) :=
  match o with
  | OSched off it =>
    match tdma_schedule st off it with Ok (st', r) => Ok (st', BRet r) | OOB => OOB | NullCall => NullCall end
  | OSet off set p3 =>
    match tdma_schedule_set st off set p3 with Ok (st', r) => Ok (st', BRet r) | OOB => OOB | NullCall => NullCall end
  | OAdvance => let st' := tdma_sched_advance st in Ok (st', BCur (s_cur st'))
  | OExecute =>
    match tdma_sched_execute rcf st with
    | XOk st' lg r => Ok (st', BExec lg r)
    | XOOB => OOB
    | XNull _ => NullCall
    end
  | OReset => let st' := tdma_sched_reset st in Ok (st', BReset (stored st'))
  end.

Inductive fin := FOk (st : sched) | FOOB | FNull.

(* observations made before a crash are kept *)
Fixpoint run (rcf : item -> Z) (st : sched) (ops : list op) : list obs * fin :=
  match ops with
  | [] => ([], FOk st)
  | o :: r =>
    match step rcf st o with
    | Ok (st', b) => let '(bs, f) := run rcf st' r in (b :: bs, f)
    | OOB => ([], FOOB)
    | NullCall => ([], FNull)
    end
  end.

Definition init (cur : Z) : sched := {| s_bk := repeat [] (Z.to_nat c_NBUCKETS); s_cur := cur |}.

(* ---- wire function (correspondence): flat ints -> history -> flat ints; encoding documented in charness/c08.c ---- *)
Definition NCBK : Z := 15.
Definition harness_rcf (it : item) : Z :=
  let c := i_cb it in
  if c <=? 11 then 0 else if c =? 12 then i_p1 it else if c =? 13 then -1 else - (i_p1 it + 1).

Definition mk_item (cb p1 p2 p3 prio : Z) : item :=
  {| i_cb := cb; i_p1 := u8 p1; i_p2 := u8 p2; i_p3 := u16 p3; i_prio := s16 prio |}.
Definition cb_valid (cb : Z) : bool := (0 <=? cb) && (cb <? NCBK).

Fixpoint take_items (n : nat) (a : list Z) : option (list item * list Z) :=
  match n with
  | O => Some ([], a)
  | S k =>
    match a with
    | cb :: p1 :: p2 :: p3 :: pr :: r =>
      if cb_valid cb then
        match take_items k r with Some (its, r') => Some (mk_item cb p1 p2 p3 pr :: its, r') | None => None end
      else None
    | _ => None
    end
  end.

Fixpoint parse_ops (fuel : nat) (a : list Z) : option (list op) :=
  match a with
  | [] => Some []
  | c :: r =>
    match fuel with
    | O => None
    | S f =>
      if c =? 1 then
        match r with
        | off :: cb :: p1 :: p2 :: p3 :: pr :: r' =>
          if cb_valid cb then option_map (cons (OSched (u8 off) (mk_item cb p1 p2 p3 pr))) (parse_ops f r') else None
        | _ => None
        end
      else if c =? 2 then
        match r with
        | off :: p3 :: n :: r' =>
          if (0 <=? n) && (n <=? 64) then
            match take_items (Z.to_nat n) r' with
            | Some (its, r'') => option_map (cons (OSet (u8 off) its (u16 p3))) (parse_ops f r'')
            | None => None
            end
          else None
        | _ => None
        end
      else if c =? 3 then option_map (cons OAdvance) (parse_ops f r)
      else if c =? 4 then option_map (cons OExecute) (parse_ops f r)
      else if c =? 5 then option_map (cons OReset) (parse_ops f r)
      else None
    end
  end.

Definition enc_call (it : item) : list Z := [i_cb it; i_p1 it; i_p2 it; i_p3 it].
Definition enc_item (it : item) : list Z := [i_cb it; i_p1 it; i_p2 it; i_p3 it; i_prio it].
(* tdma_end_set itself is not a logger: its invocations are invisible to the harness *)
Definition visible (lg : list item) : list item := filter (fun it => negb (i_cb it =? CB_END_SET)) lg.

Definition enc_obs (b : obs) : list Z :=
  match b with
  | BRet r => [r]
  | BCur c => [c]
  | BExec lg r => r :: Z.of_nat (length (visible lg)) :: flat_map enc_call (visible lg)
  | BReset n => [n]
  end.

Definition enc_state (st : sched) : list Z :=
  7777 :: s_cur st :: flat_map (fun b => Z.of_nat (length b) :: flat_map enc_item b) (s_bk st).

Definition w_c08_run (a : list Z) : list Z :=
  match a with
  | cur :: r =>
    if (0 <=? cur) && (cur <? c_NBUCKETS) then
      match parse_ops (length r) r with
      | Some ops =>
        match run harness_rcf (init cur) ops with
        | (bs, FOk st) => flat_map enc_obs bs ++ enc_state st
        | (bs, FOOB) => flat_map enc_obs bs ++ [-997]
        | (bs, FNull) => flat_map enc_obs bs ++ [-998]
        end
      | None => [-999]
      end
    else [-999]
  | [] => [-999]
  end.

(* ================= second part: callbacks that use the scheduler while tdma_sched_execute() runs ================= *)
Definition CB_SPAWN : Z := 15.       (* harness callback: tdma_schedule(p2, child, ...); return 0 *)
Definition CB_RSPAWN : Z := 16.      (* harness callback: tdma_sched_reset(); tdma_schedule(p2, child, ...); return 0 *)
Definition is_spawn (cb : Z) : bool := (cb =? CB_SPAWN) || (cb =? CB_RSPAWN).

(* what a spawning callback invoked with (p1, p2, p3) schedules: tdma_schedule(p2, cbtab[2 + p1 % 8], p1, p2, p3, (int16_t)(p1 - 128)) *)
Definition child_of (it : item) : item :=
  {| i_cb := 2 + (i_p1 it) mod 8; i_p1 := i_p1 it; i_p2 := i_p2 it; i_p3 := i_p3 it; i_prio := s16 (i_p1 it - 128) |}.

(* what happens during one tdma_sched_execute: a callback is invoked / a callback called tdma_schedule(off, child) and got rc /
   a callback called tdma_sched_reset() and n items were stored afterwards *)
Inductive xev := ECall (it : item) | ESpawn (off : Z) (child : item) (rc : Z) | EReset (n : Z).

(* one callback invocation: new scheduler state, the callback's int result, what it did *)
Definition cb_effect (rcf : item -> Z) (st : sched) (it : item) : res (sched * Z * list xev) :=
  if i_cb it =? CB_SPAWN then
    match tdma_schedule st (i_p2 it) (child_of it) with
    | Ok (st', rc) => Ok (st', 0, [ECall it; ESpawn (i_p2 it) (child_of it) rc])
    | OOB => OOB
    | NullCall => NullCall
    end
  else if i_cb it =? CB_RSPAWN then
    let st0 := tdma_sched_reset st in
    match tdma_schedule st0 (i_p2 it) (child_of it) with
    | Ok (st', rc) => Ok (st', 0, [ECall it; EReset (stored st0); ESpawn (i_p2 it) (child_of it) rc])
    | OOB => OOB
    | NullCall => NullCall
    end
  else Ok (st, rcf it, [ECall it]).

Inductive sxres := SXOk (st : sched) (log : list xev) (ret : Z) | SXOOB | SXNull (log : list xev) | SXFuel.

Definition sx_prepend (evs : list xev) (r : sxres) : sxres :=
  match r with
  | SXOk st lg ret => SXOk st (evs ++ lg) ret
  | SXNull lg => SXNull (evs ++ lg)
  | SXOOB => SXOOB
  | SXFuel => SXFuel
  end.

(* for (i = 0; i < bucket->num_items; i++) { item = &bucket->item[seq[i]]; num_events++; rc = item->cb(...); if (rc < 0) return rc; }
   bucket->num_items = 0; return num_events;
   [c] is the bucket index fixed at entry (bucket = &sched->bucket[sched->cur_bucket]), [sq] the seq[] array computed at entry,
   [i] the loop counter (= num_events); the bucket content is RE-READ from the state in every iteration *)
Fixpoint exec_loop (rcf : item -> Z) (fuel : nat) (sq : list nat) (c : Z) (st : sched) (i : nat) : sxres :=
  match fuel with
  | O => SXFuel
  | S f =>
    match nth_error (s_bk st) (Z.to_nat c) with
    | None => SXOOB
    | Some b =>
      if (i <? length b)%nat then
        match nth_error sq i with
        | None => SXOOB                                   (* seq[i] outside seq[TDMASCHED_NUM_CB] *)
        | Some k =>
          match nth_error b k with
          | None => SXOOB                                 (* item[seq[i]] outside the stored items *)
          | Some it =>
            if i_cb it =? CB_NULL then SXNull []
            else match cb_effect rcf st it with
                 | Ok (st', rc, evs) =>
                   if rc <? 0 then SXOk st' evs rc
                   else sx_prepend evs (exec_loop rcf f sq c st' (S i))
                 | OOB => SXOOB
                 | NullCall => SXNull []
                 end
          end
        end
      else SXOk (set_bucket st c []) [] (Z.of_nat i)
    end
  end.

(* int tdma_sched_execute(void), re-entrant.  Every iteration that calls a callback increments i and i < num_items <= NITEMS
   (tdma_schedule refuses to grow a bucket beyond NITEMS), so NITEMS + 1 iterations reach the exit. *)
Definition tdma_sched_execute_sp (rcf : item -> Z) (st : sched) : sxres :=
  match nth_error (s_bk st) (Z.to_nat (s_cur st)) with
  | None => SXOOB
  | Some b =>
    if (c_NITEMS <? Z.of_nat (length b)) || (c_TDMASCHED_NUM_CB <? Z.of_nat (length b)) then SXOOB
    else exec_loop rcf (S (Z.to_nat c_NITEMS)) (bucket_sort b) (s_cur st) st 0
  end.

(* ---- histories with the re-entrant execute ---- *)
Inductive obs_sp :=
| PRet (r : Z)
| PCur (c : Z)
| PExec (log : list xev) (ret : Z)
| PReset (n : Z).

Definition step_sp (rcf : item -> Z) (st : sched) (o : op) : res (sched * obs_sp) :=
  match o with
  | OSched off it =>
    match tdma_schedule st off it with Ok (st', r) => Ok (st', PRet r) | OOB => OOB | NullCall => NullCall end
  | OSet off set p3 =>
    match tdma_schedule_set st off set p3 with Ok (st', r) => Ok (st', PRet r) | OOB => OOB | NullCall => NullCall end
  | OAdvance => let st' := tdma_sched_advance st in Ok (st', PCur (s_cur st'))
  | OExecute =>
    match tdma_sched_execute_sp rcf st with
    | SXOk st' lg r => Ok (st', PExec lg r)
    | SXOOB => OOB
    | SXNull _ => NullCall
    | SXFuel => OOB          (* never: c08_sp_no_crash; the wire function would show it as -997 *)
    end
  | OReset => let st' := tdma_sched_reset st in Ok (st', PReset (stored st'))
  end.

Fixpoint run_sp (rcf : item -> Z) (st : sched) (ops : list op) : list obs_sp * fin :=
  match ops with
  | [] => ([], FOk st)
  | o :: r =>
    match step_sp rcf st o with
    | Ok (st', b) => let '(bs, f) := run_sp rcf st' r in (b :: bs, f)
    | OOB => ([], FOOB)
    | NullCall => ([], FNull)
    end
  end.

(* ---- wire function with the two spawning callbacks: same input encoding, callback ids 0..16;
   execute -> ret nlog (4 ints){nlog}: a callback invocation is (cb p1 p2 p3), a tdma_schedule done by a callback is
   (-2 off child_cb rc), a tdma_sched_reset done by a callback is (-3 stored 0 0) ---- *)
Definition NCBK_SP : Z := 17.
Definition cb_valid_sp (cb : Z) : bool := (0 <=? cb) && (cb <? NCBK_SP).

Fixpoint take_items_sp (n : nat) (a : list Z) : option (list item * list Z) :=
  match n with
  | O => Some ([], a)
  | S k =>
    match a with
    | cb :: p1 :: p2 :: p3 :: pr :: r =>
      if cb_valid_sp cb then
        match take_items_sp k r with Some (its, r') => Some (mk_item cb p1 p2 p3 pr :: its, r') | None => None end
      else None
    | _ => None
    end
  end.

Fixpoint parse_ops_sp (fuel : nat) (a : list Z) : option (list op) :=
  match a with
  | [] => Some []
  | c :: r =>
    match fuel with
    | O => None
    | S f =>
      if c =? 1 then
        match r with
        | off :: cb :: p1 :: p2 :: p3 :: pr :: r' =>
          if cb_valid_sp cb then option_map (cons (OSched (u8 off) (mk_item cb p1 p2 p3 pr))) (parse_ops_sp f r') else None
        | _ => None
        end
      else if c =? 2 then
        match r with
        | off :: p3 :: n :: r' =>
          if (0 <=? n) && (n <=? 64) then
            match take_items_sp (Z.to_nat n) r' with
            | Some (its, r'') => option_map (cons (OSet (u8 off) its (u16 p3))) (parse_ops_sp f r'')
            | None => None
            end
          else None
        | _ => None
        end
      else if c =? 3 then option_map (cons OAdvance) (parse_ops_sp f r)
      else if c =? 4 then option_map (cons OExecute) (parse_ops_sp f r)
      else if c =? 5 then option_map (cons OReset) (parse_ops_sp f r)
      else None
    end
  end.

Definition visible_ev (e : xev) : bool := match e with ECall it => negb (i_cb it =? CB_END_SET) | _ => true end.
Definition enc_ev (e : xev) : list Z :=
  match e with
  | ECall it => enc_call it
  | ESpawn off ch rc => [-2; off; i_cb ch; rc]
  | EReset n => [-3; n; 0; 0]
  end.

Definition enc_obs_sp (b : obs_sp) : list Z :=
  match b with
  | PRet r => [r]
  | PCur c => [c]
  | PExec lg r => r :: Z.of_nat (length (filter visible_ev lg)) :: flat_map enc_ev (filter visible_ev lg)
  | PReset n => [n]
  end.

Definition w_c08_runsp (a : list Z) : list Z :=
  match a with
  | cur :: r =>
    if (0 <=? cur) && (cur <? c_NBUCKETS) then
      match parse_ops_sp (length r) r with
      | Some ops =>
        match run_sp harness_rcf (init cur) ops with
        | (bs, FOk st) => flat_map enc_obs_sp bs ++ enc_state st
        | (bs, FOOB) => flat_map enc_obs_sp bs ++ [-997]
        | (bs, FNull) => flat_map enc_obs_sp bs ++ [-998]
        end
      | None => [-999]
      end
    else [-999]
  | [] => [-999]
  end.
