(* Model of the fake transceiver session logic (C02 C03 C05 C10 C12 C14 C18).
   mirrors: transceiver.py Transceiver (ready, get_rx_freq/get_tx_freq, power_event_handler, recv_data_msg,
   tx_queue_*, clck_tick), fake_trx.py FakeTRX (toa256/rssi/ci properties, sim_burst_drop, _handle_data_msg_v1,
   handle_data_msg, ctrl_cmd_handler) and Application.clck_handler, burst_fwd.py BurstForwarder.forward_msg,
   ctrl_if.py CTRLInterface (handle_rx, verify_req, prepare_req, verify_cmd, send_response),
   ctrl_if_trx.py CTRLInterfaceTRX.parse_cmd, data_if.py DATAInterface (set_hdr_ver, pick_hdr_ver, recv_tx_msg,
   send_msg), fake_pm.py FakePM.measure, gsm_shared.py TrainingSeqGMSK.pick, data_msg.py TxMsg.trans.
   Octet strings are list Z; Python str values on the control path are ASCII octet lists (non-ASCII control datagrams
   are outside the modelled domain, see DESIGN).  random.randint(lo,hi) consumes one raw draw r from an explicit
   list and returns lo + r mod (hi-lo+1) (the harness replaces randint by exactly this function); hi < lo raises
   ValueError in Python = Crash here.  Exceptions that escape an entry point are Crash. *)
From Coq Require Import ZArith List Bool.
From OBB Require Import Base.Dec Gen.TrxdConst Gen.FakeTrxConst Gen.TscTab Model.GsmTime Model.Hopping Model.Trxd.
Import ListNotations.
Open Scope Z_scope.

(* ------------------------------------------------------------------ state *)
Record fhp := { fh_hsn : Z; fh_maio : Z; fh_ma : list (Z * Z) }.

Record sim := { s_muted : bool; s_fake_rssi : bool; s_txp : Z; s_att : Z; s_toa : Z; s_toa_thr : Z; s_rssi : Z; s_rssi_thr : Z;
                s_ci : Z; s_ci_thr : Z; s_ta : Z; s_drop : Z; s_period : Z; s_delay : Z }.

(* static wiring of one transceiver: child index, child management, clock ownership, power measurement, children (indices into the world) *)
Record cfg := { c_idx : Z; c_mgt : bool; c_clock : bool; c_pm : bool; c_children : list nat }.

Record trx := { x_run : bool; x_rx : option Z; x_tx : option Z; x_fh : option fhp; x_ver : Z; x_q : list txmsg; x_sim : sim; x_cfg : cfg }.

Record world := { w_trx : list trx; w_links : list nat; w_gen : bool }.

Definition sim0 : sim :=
  {| s_muted := false; s_fake_rssi := false; s_txp := nominal_tx_power_default; s_att := tx_att_default;
     s_toa := toa256_base_default; s_toa_thr := 0; s_rssi := nominal_tx_power_default - tx_att_default - path_loss_default; s_rssi_thr := 0;
     s_ci := ci_base_default; s_ci_thr := 0; s_ta := 0; s_drop := 0; s_period := 1; s_delay := 0 |}.
Definition trx0 (c : cfg) : trx :=
  {| x_run := false; x_rx := None; x_tx := None; x_fh := None; x_ver := 0; x_q := []; x_sim := sim0; x_cfg := c |}.

Definition set_run (t : trx) (b : bool) : trx :=
  {| x_run := b; x_rx := x_rx t; x_tx := x_tx t; x_fh := x_fh t; x_ver := x_ver t; x_q := x_q t; x_sim := x_sim t; x_cfg := x_cfg t |}.
Definition set_rx (t : trx) (f : option Z) : trx :=
  {| x_run := x_run t; x_rx := f; x_tx := x_tx t; x_fh := x_fh t; x_ver := x_ver t; x_q := x_q t; x_sim := x_sim t; x_cfg := x_cfg t |}.
Definition set_tx (t : trx) (f : option Z) : trx :=
  {| x_run := x_run t; x_rx := x_rx t; x_tx := f; x_fh := x_fh t; x_ver := x_ver t; x_q := x_q t; x_sim := x_sim t; x_cfg := x_cfg t |}.
Definition set_fh (t : trx) (f : option fhp) : trx :=
  {| x_run := x_run t; x_rx := x_rx t; x_tx := x_tx t; x_fh := f; x_ver := x_ver t; x_q := x_q t; x_sim := x_sim t; x_cfg := x_cfg t |}.
Definition set_ver (t : trx) (v : Z) : trx :=
  {| x_run := x_run t; x_rx := x_rx t; x_tx := x_tx t; x_fh := x_fh t; x_ver := v; x_q := x_q t; x_sim := x_sim t; x_cfg := x_cfg t |}.
Definition set_q (t : trx) (q : list txmsg) : trx :=
  {| x_run := x_run t; x_rx := x_rx t; x_tx := x_tx t; x_fh := x_fh t; x_ver := x_ver t; x_q := q; x_sim := x_sim t; x_cfg := x_cfg t |}.
Definition set_sim (t : trx) (s : sim) : trx :=
  {| x_run := x_run t; x_rx := x_rx t; x_tx := x_tx t; x_fh := x_fh t; x_ver := x_ver t; x_q := x_q t; x_sim := s; x_cfg := x_cfg t |}.

Fixpoint upd {A} (l : list A) (i : nat) (f : A -> A) : list A :=
  match l, i with
  | [], _ => []
  | x :: r, O => f x :: r
  | x :: r, S k => x :: upd r k f
  end.
Definition set_trxs (w : world) (l : list trx) : world := {| w_trx := l; w_links := w_links w; w_gen := w_gen w |}.
Definition upd_trx (w : world) (i : nat) (f : trx -> trx) : world := set_trxs w (upd (w_trx w) i f).

(* ------------------------------------------------------------------ frequencies *)
Inductive fres := FOk (f : option Z) | FCrash.

(* HoppingParams.resolve(fn) -> (rx, tx); IndexError on an RNTABLE / MA index out of range *)
Definition fh_resolve (h : fhp) (fn : Z) : option (Z * Z) :=
  let n := Z.of_nat (length (fh_ma h)) in
  match hop_py (fh_hsn h) (fh_maio h) n fn with
  | Some mai => if mai <? 0 then None else nth_error (fh_ma h) (Z.to_nat mai)
  | None => None
  end.
Definition rx_freq (t : trx) (fn : Z) : fres :=
  match x_fh t with
  | None => FOk (x_rx t)
  | Some h => match fh_resolve h fn with Some (r, _) => FOk (Some r) | None => FCrash end
  end.
Definition tx_freq (t : trx) (fn : Z) : fres :=
  match x_fh t with
  | None => FOk (x_tx t)
  | Some h => match fh_resolve h fn with Some (_, x) => FOk (Some x) | None => FCrash end
  end.
Definition ready (t : trx) : bool :=
  match x_rx t, x_tx t with Some _, Some _ => true | _, _ => match x_fh t with Some _ => true | None => false end end.
Definition opt_eqb (a b : option Z) : bool :=
  match a, b with Some x, Some y => x =? y | None, None => true | _, _ => false end.

(* ------------------------------------------------------------------ power events and the shared clock *)
Definition power_one (on : bool) (t : trx) : trx :=
  if on then set_run t true else set_fh (set_q (set_run t false) []) None.
Definition affected (t : trx) (i : nat) : list nat :=
  if c_mgt (x_cfg t) && (c_idx (x_cfg t) =? 0) then i :: c_children (x_cfg t) else [i].
Fixpoint remove_nat (x : nat) (l : list nat) : list nat :=      (* list.remove: first occurrence *)
  match l with [] => [] | y :: r => if Nat.eqb x y then r else y :: remove_nat x r end.
Definition mem_nat (x : nat) (l : list nat) : bool := existsb (Nat.eqb x) l.

Definition power_event (w : world) (i : nat) (on : bool) : world :=
  match nth_error (w_trx w) i with
  | None => w
  | Some t =>
    let trxs := fold_left (fun l j => upd l j (power_one on)) (affected t i) (w_trx w) in
    if c_clock (x_cfg t) then
      let links := if negb on && mem_nat i (w_links w) then remove_nat i (w_links w)
                   else if on && negb (mem_nat i (w_links w)) then w_links w ++ [i] else w_links w in
      let g := if negb (w_gen w) && (0 <? length links)%nat then true
               else if w_gen w && (length links =? 0)%nat then false else w_gen w in
      {| w_trx := trxs; w_links := links; w_gen := g |}
    else {| w_trx := trxs; w_links := w_links w; w_gen := w_gen w |}
  end.

(* ------------------------------------------------------------------ randomness *)
(* randint(lo, hi): None = ValueError (empty range) *)
Definition randint (lo hi : Z) (draws : list Z) : option (Z * list Z) :=
  if hi <? lo then None else
  match draws with r :: rest => Some (lo + r mod (hi - lo + 1), rest) | [] => Some (lo, []) end.
Definition draw (base thr : Z) (draws : list Z) : option (Z * list Z) :=
  if thr =? 0 then Some (base, draws) else randint (base - thr) (base + thr) draws.

(* ------------------------------------------------------------------ training sequences (TrainingSeqGMSK.pick) *)
(* Gen.tsc_tab rows: (tsc, burst type code 0 = NORMAL 1 = ACCESS 2 = SYNC, tsc_set, bits) in enumeration order *)
Fixpoint list_eqb (a b : list Z) : bool :=
  match a, b with [] , [] => true | x :: r, y :: s => (x =? y) && list_eqb r s | _, _ => false end.
Definition seg (b : list Z) (off len : nat) : list Z := firstn len (skipn off b).
Definition ts_match (burst : list Z) (row : Z * Z * Z * list Z) : bool :=
  let '(_, bt, _, bits) := row in
  if bt =? 0 then list_eqb bits (seg burst 61 26)
  else if bt =? 1 then list_eqb bits (seg burst 8 41)
  else if bt =? 2 then list_eqb bits (seg burst 42 64)
  else false.
Definition ts_pick (burst : list Z) : option (Z * Z * Z * list Z) := find (ts_match burst) tsc_tab.

(* ------------------------------------------------------------------ burst forwarding *)
(* outcome of one call of dst.handle_data_msg *)
Inductive delivery :=
| Sent (octets : list Z) (msg : rxmsg)     (* one datagram written to dst's DATA socket *)
| Silent (msg : option rxmsg)              (* nothing written: v0 recipient of a suppressed burst, or send_msg refused (ValueError) *)
| DCrash.

Definition trans (m : txmsg) (ver : Z) : rxmsg :=     (* TxMsg.trans(ver) *)
  {| r_ver := ver; r_fn := t_fn m; r_tn := t_tn m; r_rssi := None; r_toa := None;
     r_nope := match t_burst m with Some _ => false | None => true end;
     r_mod := Some GMSK_IDX; r_tset := None; r_tsc := None; r_ci := None;
     r_burst := match t_burst m with Some b => Some (map u2s b) | None => None end |}.

Definition sim_drop (s : sim) (fn : Z) : bool * sim :=
  if s_drop s =? 0 then (false, s)
  else if fn mod s_period s =? 0 then
    (true, {| s_muted := s_muted s; s_fake_rssi := s_fake_rssi s; s_txp := s_txp s; s_att := s_att s; s_toa := s_toa s; s_toa_thr := s_toa_thr s;
              s_rssi := s_rssi s; s_rssi_thr := s_rssi_thr s; s_ci := s_ci s; s_ci_thr := s_ci_thr s; s_ta := s_ta s;
              s_drop := s_drop s - 1; s_period := s_period s; s_delay := s_delay s |})
  else (false, s).

Definition with_meta (m : rxmsg) (nope : bool) (rssi toa : option Z) (md : option nat) (tset tsc ci : option Z) (b : option (list Z)) : rxmsg :=
  {| r_ver := r_ver m; r_fn := r_fn m; r_tn := r_tn m; r_rssi := rssi; r_toa := toa; r_nope := nope;
     r_mod := md; r_tset := tset; r_tsc := tsc; r_ci := ci; r_burst := b |}.

Definition send_out (legacy : bool) (m : rxmsg) : delivery :=
  match gen_rx legacy m with Ok b => Sent b m | VErr => Silent (Some m) | Crash => DCrash end.

(* FakeTRX.handle_data_msg(self = dst, src_trx, src_msg, msg): returns dst's new sim state, the delivery, remaining draws *)
Definition handle_data (dst : sim) (src : sim) (src_msg : txmsg) (msg : rxmsg) (draws : list Z) : sim * delivery * list Z :=
  let '(nope, dst1) :=
    if s_muted dst then (true, dst)
    else if r_nope msg then (true, dst)
    else sim_drop dst (oz (r_fn msg)) in
  if nope then
    if r_ver msg <? 1 then (dst1, Silent None, draws)
    else (dst1, send_out false (with_meta msg true (Some rssi_noise_default) (Some toa256_noise_default) (r_mod msg) (r_tset msg) (r_tsc msg)
                                             (Some ci_noise_default) None), draws)
  else
    match draw (s_toa dst1) (s_toa_thr dst1) draws with
    | None => (dst1, DCrash, draws)
    | Some (toa, d1) =>
      match (if s_fake_rssi dst1 then draw (s_rssi dst1) (s_rssi_thr dst1) d1
             else Some (s_txp src - s_att src - oz (t_pwr src_msg) - path_loss_default, d1)) with
      | None => (dst1, DCrash, d1)
      | Some (rssi, d2) =>
        match (if r_ver msg >=? 1 then draw (s_ci dst1) (s_ci_thr dst1) d2 else Some (0, d2)) with
        | None => (dst1, DCrash, d2)
        | Some (ci, d3) =>
          let toa' := if s_ta src =? 0 then toa else toa - s_ta src * 256 in
          if r_ver msg >=? 1 then
            let bl := match t_burst src_msg with Some b => Z.of_nat (length b) | None => 0 end in
            let md := pick_by_bl bl in
            let '(tsc, tset) :=
              match md with
              | Some O => match ts_pick (match t_burst src_msg with Some b => b | None => [] end) with
                          | Some (c, _, s, _) => (c, s) | None => (0, 0) end
              | _ => (0, 0)
              end in
            (dst1, send_out true (with_meta msg false (Some rssi) (Some toa') md (Some tset) (Some tsc) (Some ci) (r_burst msg)), d3)
          else
            (dst1, send_out true (with_meta msg false (Some rssi) (Some toa') (r_mod msg) (r_tset msg) (r_tsc msg) (r_ci msg) (r_burst msg)), d3)
        end
      end
    end.

Definition strip_burst (m : txmsg) : txmsg :=
  {| t_ver := t_ver m; t_fn := t_fn m; t_tn := t_tn m; t_pwr := t_pwr m; t_burst := None |}.

(* BurstForwarder.forward_msg(src, msg): walk all transceivers in world order.
   Result: new transceiver list, (dst index, delivery) for every call of handle_data_msg, remaining draws, crashed? *)
Fixpoint fwd_loop (src_i : nat) (src : trx) (m : txmsg) (txf : option Z) (fn : Z)
         (done : list trx) (todo : list trx) (j : nat) (draws : list Z) (acc : list (nat * delivery))
  : list trx * list (nat * delivery) * list Z * bool :=
  match todo with
  | [] => (rev done, rev acc, draws, false)
  | t :: rest =>
    if Nat.eqb j src_i then fwd_loop src_i src m txf fn (t :: done) rest (S j) draws acc
    else if negb (x_run t) then fwd_loop src_i src m txf fn (t :: done) rest (S j) draws acc
    else match rx_freq t fn with
         | FCrash => (rev done ++ todo, rev acc, draws, true)
         | FOk rf =>
           if negb (opt_eqb rf txf) then fwd_loop src_i src m txf fn (t :: done) rest (S j) draws acc
           else
             let '(s', d, draws') := handle_data (x_sim t) (x_sim src) m (trans m (x_ver t)) draws in
             match d with
             | DCrash => (rev done ++ set_sim t s' :: rest, rev ((j, d) :: acc), draws', true)
             | _ => fwd_loop src_i src m txf fn (set_sim t s' :: done) rest (S j) draws' ((j, d) :: acc)
             end
         end
  end.

Definition forward (trxs : list trx) (src_i : nat) (m : txmsg) (draws : list Z) : list trx * list (nat * delivery) * list Z * bool :=
  match nth_error trxs src_i with
  | None => (trxs, [], draws, false)
  | Some src =>
    match tx_freq src (oz (t_fn m)) with
    | FCrash => (trxs, [], draws, true)
    | FOk txf =>
      let m' := if s_muted (x_sim src) then strip_burst m else m in
      fwd_loop src_i src m' txf (oz (t_fn m)) [] trxs 0 draws []
    end
  end.

(* ------------------------------------------------------------------ data path and clock tick *)
(* Transceiver.recv_data_msg on a datagram: parse (any exception = dropped), version match, running, enqueue *)
Definition recv_data (t : trx) (octets : list Z) : trx * bool :=
  match parse_tx (firstn (Z.to_nat data_recv_size) octets) with
  | Ok m => if (t_ver m =? x_ver t) && x_run t then (set_q t (x_q t ++ [m]), true) else (t, false)
  | _ => (t, false)
  end.

(* the partition done under the queue lock: frame numbers are compared modulo the hyperframe
   ('delta = (msg.fn - fn) % GSM_HYPERFRAME': 0 = due, less than half a hyperframe = ahead, otherwise behind) *)
Definition fn_delta (mfn fn : Z) : Z := (mfn - fn) mod gsm_hyperframe.
Definition is_due (fn : Z) (m : txmsg) : bool := fn_delta (oz (t_fn m)) fn =? 0.
Definition is_ahead (fn : Z) (m : txmsg) : bool := negb (fn_delta (oz (t_fn m)) fn =? 0) && (fn_delta (oz (t_fn m)) fn <? gsm_hyperframe / 2).
Definition is_behind (fn : Z) (m : txmsg) : bool := negb (fn_delta (oz (t_fn m)) fn =? 0) && negb (fn_delta (oz (t_fn m)) fn <? gsm_hyperframe / 2).
Fixpoint part (fn : Z) (q : list txmsg) : list txmsg * list txmsg * list txmsg :=   (* (drop, emit, wait) *)
  match q with
  | [] => ([], [], [])
  | m :: r => let '(d, e, w) := part fn r in
              let dl := fn_delta (oz (t_fn m)) fn in
              if dl =? 0 then (d, m :: e, w) else if dl <? gsm_hyperframe / 2 then (d, e, m :: w) else (m :: d, e, w)
  end.

Record tick_out := { o_deliv : list (nat * nat * delivery);   (* (src, dst, delivery) in emission order *)
                     o_stale : list (nat * txmsg);            (* (trx, message) logged as stale *)
                     o_crash : bool }.

Fixpoint emit_all (trxs : list trx) (i : nat) (ems : list txmsg) (draws : list Z) (acc : list (nat * nat * delivery))
  : list trx * list (nat * nat * delivery) * list Z * bool :=
  match ems with
  | [] => (trxs, acc, draws, false)
  | m :: r =>
    let '(trxs', ds, draws', crashed) := forward trxs i m draws in
    let acc' := acc ++ map (fun jd => (i, fst jd, snd jd)) ds in
    if crashed then (trxs', acc', draws', true) else emit_all trxs' i r draws' acc'
  end.

(* Application.clck_handler(fn): clck_tick of every transceiver in world order *)
Fixpoint tick_loop (n : nat) (i : nat) (trxs : list trx) (fn : Z) (draws : list Z) (out : tick_out) : list trx * list Z * tick_out :=
  match n with
  | O => (trxs, draws, out)
  | S n' =>
    match nth_error trxs i with
    | None => (trxs, draws, out)
    | Some t =>
      if negb (x_run t) then tick_loop n' (S i) trxs fn draws out
      else
        let '(dr, em, wt) := part fn (x_q t) in
        let trxs1 := upd trxs i (fun t => set_q t wt) in
        let '(trxs2, dl, draws', crashed) := emit_all trxs1 i em draws [] in
        let out' := {| o_deliv := o_deliv out ++ dl;
                       o_stale := if crashed then o_stale out else o_stale out ++ map (fun m => (i, m)) dr;
                       o_crash := crashed |} in
        if crashed then (trxs2, draws', out') else tick_loop n' (S i) trxs2 fn draws' out'
    end
  end.
Definition tick (w : world) (fn : Z) (draws : list Z) : world * list Z * tick_out :=
  let '(trxs, draws', out) := tick_loop (length (w_trx w)) 0 (w_trx w) fn draws {| o_deliv := []; o_stale := []; o_crash := false |} in
  (set_trxs w trxs, draws', out).

(* ------------------------------------------------------------------ control interface *)
(* ASCII helpers *)
Definition is_ws (c : Z) : bool := ((9 <=? c) && (c <=? 13)) || ((28 <=? c) && (c <=? 32)).     (* str.strip() / int() whitespace, ASCII part *)
Fixpoint lstrip (p : Z -> bool) (l : list Z) : list Z := match l with c :: r => if p c then lstrip p r else l | [] => [] end.
Definition strip (p : Z -> bool) (l : list Z) : list Z := rev (lstrip p (rev (lstrip p l))).
Fixpoint split_sp (l : list Z) (cur : list Z) : list (list Z) :=      (* str.split(" ") *)
  match l with
  | [] => [rev cur]
  | c :: r => if c =? 32 then rev cur :: split_sp r [] else split_sp r (c :: cur)
  end.
Fixpoint join_sp (l : list (list Z)) : list Z :=
  match l with [] => [] | [x] => x | x :: r => x ++ 32 :: join_sp r end.
Fixpoint starts (p l : list Z) : bool :=
  match p, l with [] , _ => true | a :: p', b :: l' => (a =? b) && starts p' l' | _, [] => false end.

(* int(token) for an ASCII token: optional whitespace, optional sign, digits with single underscores between digits *)
Definition is_digit (c : Z) : bool := (48 <=? c) && (c <=? 57).
Fixpoint digits (l : list Z) (acc : Z) (prev_digit : bool) : option Z :=
  match l with
  | [] => if prev_digit then Some acc else None
  | c :: r => if is_digit c then digits r (10 * acc + (c - 48)) true
              else if (c =? 95) && prev_digit then (match r with d :: _ => if is_digit d then digits r acc false else None | [] => None end)
              else None
  end.
Definition py_int (tok : list Z) : option Z :=
  match strip is_ws tok with
  | 45 :: r => match digits r 0 false with Some v => Some (- v) | None => None end
  | 43 :: r => digits r 0 false
  | r => digits r 0 false
  end.

(* str(int): canonical decimal digits, '-' for negatives (Base/Dec.v) *)
Definition py_str (n : Z) : list Z := dec n.

Definition verb_is (req : list (list Z)) (name : list Z) (argc : nat) : bool :=
  match req with v :: args => list_eqb v name && Nat.eqb (length args) argc | [] => false end.
Definition verb_va (req : list (list Z)) (name : list Z) (argc : nat) : bool :=
  match req with v :: args => list_eqb v name && Nat.leb argc (length args) | [] => false end.
Definition arg (req : list (list Z)) (i : nat) : option Z := match nth_error req i with Some t => py_int t | None => None end.

(* result of parse_cmd: status, extra result tokens; CBadInt = int() raised ValueError (after the repair: answered with -1) *)
Inductive cres := CStatus (rc : Z) (extra : list (list Z)) | CBadInt | CCrash.

Definition A (s : list Z) := s.
Definition v_SETTA := [83;69;84;84;65]. Definition v_FAKE_TOA := [70;65;75;69;95;84;79;65].
Definition v_FAKE_RSSI := [70;65;75;69;95;82;83;83;73]. Definition v_FAKE_CI := [70;65;75;69;95;67;73].
Definition v_FAKE_DROP := [70;65;75;69;95;68;82;79;80].
Definition v_FAKE_TRXC_DELAY := [70;65;75;69;95;84;82;88;67;95;68;69;76;65;89].
Definition v_POWERON := [80;79;87;69;82;79;78]. Definition v_POWEROFF := [80;79;87;69;82;79;70;70].
Definition v_RXTUNE := [82;88;84;85;78;69]. Definition v_TXTUNE := [84;88;84;85;78;69].
Definition v_MEASURE := [77;69;65;83;85;82;69]. Definition v_SETFH := [83;69;84;70;72].
Definition v_SETFORMAT := [83;69;84;70;79;82;77;65;84]. Definition v_SETPOWER := [83;69;84;80;79;87;69;82].
Definition v_NOMTXPOWER := [78;79;77;84;88;80;79;87;69;82]. Definition v_RFMUTE := [82;70;77;85;84;69].

Definition sim_set (s : sim) (muted fake : bool) (txp att toa toa_thr rssi rssi_thr ci ci_thr ta drop period delay : Z) : sim :=
  {| s_muted := muted; s_fake_rssi := fake; s_txp := txp; s_att := att; s_toa := toa; s_toa_thr := toa_thr; s_rssi := rssi; s_rssi_thr := rssi_thr;
     s_ci := ci; s_ci_thr := ci_thr; s_ta := ta; s_drop := drop; s_period := period; s_delay := delay |}.

(* FakeTRX.ctrl_cmd_handler: Some result = handled, None = falls through to the common handler (with a possibly updated sim: FAKE_TRXC_DELAY) *)
Definition fake_handler (s : sim) (req : list (list Z)) : sim * option cres :=
  let ok (s' : sim) := (s', Some (CStatus 0 [])) in
  let bad := (s, Some CBadInt) in
  if verb_is req v_SETTA 1 then
    match arg req 1 with Some a => ok (sim_set s (s_muted s) (s_fake_rssi s) (s_txp s) (s_att s) (s_toa s) (s_toa_thr s) (s_rssi s) (s_rssi_thr s) (s_ci s) (s_ci_thr s) a (s_drop s) (s_period s) (s_delay s)) | None => bad end
  else if verb_is req v_FAKE_TOA 2 then
    match arg req 1 with
    | Some a => match arg req 2 with
                | Some b => if b <? 0 then (s, Some (CStatus (-1) []))
                            else ok (sim_set s (s_muted s) (s_fake_rssi s) (s_txp s) (s_att s) a b (s_rssi s) (s_rssi_thr s) (s_ci s) (s_ci_thr s) (s_ta s) (s_drop s) (s_period s) (s_delay s))
                | None => bad end
    | None => bad end
  else if verb_is req v_FAKE_TOA 1 then
    match arg req 1 with Some a => ok (sim_set s (s_muted s) (s_fake_rssi s) (s_txp s) (s_att s) (s_toa s + a) (s_toa_thr s) (s_rssi s) (s_rssi_thr s) (s_ci s) (s_ci_thr s) (s_ta s) (s_drop s) (s_period s) (s_delay s)) | None => bad end
  else if verb_is req v_FAKE_RSSI 2 then
    match arg req 2 with
    | Some b => if b <? 0 then ok (sim_set s (s_muted s) false (s_txp s) (s_att s) (s_toa s) (s_toa_thr s) (s_rssi s) (s_rssi_thr s) (s_ci s) (s_ci_thr s) (s_ta s) (s_drop s) (s_period s) (s_delay s))
                else match arg req 1 with
                     | Some a => ok (sim_set s (s_muted s) true (s_txp s) (s_att s) (s_toa s) (s_toa_thr s) a b (s_ci s) (s_ci_thr s) (s_ta s) (s_drop s) (s_period s) (s_delay s))
                     | None => bad end
    | None => bad end
  else if verb_is req v_FAKE_RSSI 1 then
    match arg req 1 with Some a => ok (sim_set s (s_muted s) (s_fake_rssi s) (s_txp s) (s_att s) (s_toa s) (s_toa_thr s) (s_rssi s + a) (s_rssi_thr s) (s_ci s) (s_ci_thr s) (s_ta s) (s_drop s) (s_period s) (s_delay s)) | None => bad end
  else if verb_is req v_FAKE_CI 2 then
    match arg req 1 with
    | Some a => match arg req 2 with
                | Some b => if b <? 0 then (s, Some (CStatus (-1) []))
                            else ok (sim_set s (s_muted s) (s_fake_rssi s) (s_txp s) (s_att s) (s_toa s) (s_toa_thr s) (s_rssi s) (s_rssi_thr s) a b (s_ta s) (s_drop s) (s_period s) (s_delay s))
                | None => bad end
    | None => bad end
  else if verb_is req v_FAKE_CI 1 then
    match arg req 1 with Some a => ok (sim_set s (s_muted s) (s_fake_rssi s) (s_txp s) (s_att s) (s_toa s) (s_toa_thr s) (s_rssi s) (s_rssi_thr s) (s_ci s + a) (s_ci_thr s) (s_ta s) (s_drop s) (s_period s) (s_delay s)) | None => bad end
  else if verb_is req v_FAKE_DROP 1 then
    match arg req 1 with
    | Some a => if a <? 0 then (s, Some (CStatus (-1) []))
                else ok (sim_set s (s_muted s) (s_fake_rssi s) (s_txp s) (s_att s) (s_toa s) (s_toa_thr s) (s_rssi s) (s_rssi_thr s) (s_ci s) (s_ci_thr s) (s_ta s) a 1 (s_delay s))
    | None => bad end
  else if verb_is req v_FAKE_DROP 2 then
    match arg req 1 with
    | Some a => if a <? 0 then (s, Some (CStatus (-1) []))
                else match arg req 2 with
                     | Some p => if p <=? 0 then (s, Some (CStatus (-1) []))
                                 else ok (sim_set s (s_muted s) (s_fake_rssi s) (s_txp s) (s_att s) (s_toa s) (s_toa_thr s) (s_rssi s) (s_rssi_thr s) (s_ci s) (s_ci_thr s) (s_ta s) a p (s_delay s))
                     | None => bad end
    | None => bad end
  else if verb_is req v_FAKE_TRXC_DELAY 1 then
    match arg req 1 with
    | Some a => if trxc_delay_ms_max <? a then (s, Some (CStatus (-1) []))     (* more than time.sleep() takes: refused *)
                else (sim_set s (s_muted s) (s_fake_rssi s) (s_txp s) (s_att s) (s_toa s) (s_toa_thr s) (s_rssi s) (s_rssi_thr s) (s_ci s) (s_ci_thr s) (s_ta s) (s_drop s) (s_period s) a, None)
    | None => bad end
  else (s, None).

(* FakePM.measure(freq): some running transceiver without hopping transmits on freq? *)
Definition pm_match (trxs : list trx) (freq : Z) : bool :=
  existsb (fun t => x_run t && (match x_fh t with None => true | Some _ => false end) && opt_eqb (x_tx t) (Some freq)) trxs.

Fixpoint all_ints (l : list (list Z)) : option (list Z) :=
  match l with [] => Some [] | t :: r => match py_int t, all_ints r with Some v, Some vs => Some (v :: vs) | _, _ => None end end.
Fixpoint pairs (l : list Z) : list (Z * Z) := match l with a :: b :: r => (a, b) :: pairs r | _ => [] end.

(* DATAInterface.pick_hdr_ver *)
Definition pick_hdr_ver (req : Z) : Z :=
  match find (fun v => v <=? req) (rev known_versions) with Some v => v | None => -1 end.

(* CTRLInterfaceTRX.parse_cmd on the token list *)
Definition parse_cmd (w : world) (i : nat) (req : list (list Z)) (draws : list Z) : world * cres * list Z :=
  match nth_error (w_trx w) i with
  | None => (w, CCrash, draws)
  | Some t =>
    let '(s', r) := fake_handler (x_sim t) req in
    let w := upd_trx w i (fun t => set_sim t s') in
    let t := set_sim t s' in
    match r with
    | Some res => (w, res, draws)
    | None =>
      if verb_is req v_POWERON 0 then
        if x_run t then (w, CStatus (-1) [], draws)
        else if negb (ready t) then (w, CStatus (-1) [], draws)
        else (power_event w i true, CStatus 0 [], draws)
      else if verb_is req v_POWEROFF 0 then (power_event w i false, CStatus 0 [], draws)
      else if verb_is req v_RXTUNE 1 then
        match arg req 1 with Some a => (upd_trx w i (fun t => set_rx t (Some (a * 1000))), CStatus 0 [], draws) | None => (w, CBadInt, draws) end
      else if verb_is req v_TXTUNE 1 then
        match arg req 1 with Some a => (upd_trx w i (fun t => set_tx t (Some (a * 1000))), CStatus 0 [], draws) | None => (w, CBadInt, draws) end
      else if verb_is req v_MEASURE 1 then
        if negb (c_pm (x_cfg t)) then (w, CStatus (-1) [], draws)
        else match arg req 1 with
             | None => (w, CBadInt, draws)
             | Some a =>
               let '(lo, hi) := if pm_match (w_trx w) (a * 1000) then (pm_trx_min, pm_trx_max) else (pm_noise_min, pm_noise_max) in
               match randint lo hi draws with
               | Some (v, d') => (w, CStatus 0 [py_str v], d')
               | None => (w, CCrash, draws)
               end
             end
      else if verb_va req v_SETFH 4 then
        match all_ints (tl req) with
        | None => (w, CBadInt, draws)
        | Some (hsn :: maio :: fs) =>
          let ma := pairs (map (fun f => f * 1000) fs) in
          if (length ma =? 0)%nat then (w, CStatus (-1) [], draws)
          else if (hsn <? 0) || (63 <? hsn) then (w, CStatus (-1) [], draws)
          else (upd_trx w i (fun t => set_fh t (Some {| fh_hsn := hsn; fh_maio := maio; fh_ma := ma |})), CStatus 0 [], draws)
        | Some _ => (w, CCrash, draws)
        end
      else if verb_is req v_SETFORMAT 1 then
        match arg req 1 with
        | None => (w, CBadInt, draws)
        | Some v =>
          if (v <? 0) || (v >? chdr_version_max) then (w, CStatus (-1) [], draws)
          else if known v then (upd_trx w i (fun t => set_ver t v), CStatus v [], draws)
          else (w, CStatus (pick_hdr_ver v) [], draws)
        end
      else if verb_is req v_SETPOWER 1 then
        match arg req 1 with
        | Some a => let s := x_sim t in
                    (upd_trx w i (fun t => set_sim t (sim_set s (s_muted s) (s_fake_rssi s) (s_txp s) a (s_toa s) (s_toa_thr s) (s_rssi s) (s_rssi_thr s) (s_ci s) (s_ci_thr s) (s_ta s) (s_drop s) (s_period s) (s_delay s))),
                     CStatus 0 [], draws)
        | None => (w, CBadInt, draws) end
      else if verb_is req v_NOMTXPOWER 0 then (w, CStatus 0 [py_str (s_txp (x_sim t))], draws)
      else if verb_is req v_RFMUTE 1 then
        match arg req 1 with
        | Some a => let s := x_sim t in
                    (upd_trx w i (fun t => set_sim t (sim_set s (0 <? a) (s_fake_rssi s) (s_txp s) (s_att s) (s_toa s) (s_toa_thr s) (s_rssi s) (s_rssi_thr s) (s_ci s) (s_ci_thr s) (s_ta s) (s_drop s) (s_period s) (s_delay s))),
                     CStatus 0 [], draws)
        | None => (w, CBadInt, draws) end
      else (w, CStatus 0 [], draws)
    end
  end.

Definition s_CMD := [67; 77; 68]. Definition s_RSP := [82; 83; 80; 32].
Definition is_nul (c : Z) : bool := c =? 0.

(* CTRLInterface.handle_rx on one datagram (ASCII octets): new world, the reply datagram if any (sent to the source address), draws.
   ROther: the datagram is not ASCII (outside the modelled domain): ignored without reply after the repair. *)
Inductive rx_out := RReply (octets : list Z) | RNone | RCrashed.
Definition sleep_overflows (ms : Z) : bool := (0 <? ms) && (9223372036854775807 <? ms * 1000000).
Definition handle_rx (w : world) (i : nat) (data : list Z) (draws : list Z) : world * rx_out * list Z :=
  let data := firstn (Z.to_nat ctrl_recv_size) data in
  if existsb (fun c => (c <? 0) || (127 <? c)) data then (w, RNone, draws)
  else if negb (starts s_CMD data) then (w, RNone, draws)
  else
    let req := split_sp (strip is_nul (strip is_ws (skipn 4 data))) [] in
    let '(w', r, draws') := parse_cmd w i req draws in
    let reply rc extra := s_RSP ++ join_sp (hd [] req :: py_str rc :: tl req ++ extra) ++ [0] in
    (* CTRLInterface.send_response: 'if self.rsp_delay_ms > 0: time.sleep(self.rsp_delay_ms / 1000.0)' with the delay as it is AFTER the
       command; time.sleep raises OverflowError for more than 2^63-1 ns (the escaping exception is the crash).  The division by 1000.0 is
       modelled exactly: the float error (about 1 us at 9.2e9 s) is far below the 775807 ns between the last good and the first bad ms value *)
    let send (b : list Z) :=
      match nth_error (w_trx w') i with
      | Some t' => if sleep_overflows (s_delay (x_sim t')) then RCrashed else RReply b
      | None => RReply b
      end in
    match r with
    | CStatus rc extra => (w', send (reply rc extra), draws')
    | CBadInt => (w', send (reply (-1) []), draws')
    | CCrash => (w', RCrashed, draws')
    end.
