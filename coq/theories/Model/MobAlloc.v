(* Model of gsm48_decode_mobile_alloc (C20), layer23 src/common/sysinfo.c, "Mobile Allocation" 3GPP TS 44.018 10.5.2.21.

     int gsm48_decode_mobile_alloc(struct gsm_sysinfo_freq *freq, const uint8_t *ma, uint8_t len,
                                   uint16_t *hopping, uint8_t *hopp_len, int si4)
     {   int i, j = 0;
         uint16_t f[8 << 3];                                     -- fixed array, capacity c_F_CAPACITY (Gen: the bound as compiled)
         if (len > 8) return -EINVAL;
         *hopp_len = 0;
         if (si4) for (i = 0; i < 1024; i++) freq[i].mask &= ~FREQ_TYPE_HOPP;
         if (len == 0) return 0;                                 -- empty IE: after the tabula rasa
         for (i = 1; i <= 1024; i++)
             if (freq[i & 1023].mask & FREQ_TYPE_SERV) { f[j++] = i & 1023; if (j == (len << 3)) break; }
         for (i = 0; i < (len << 3); i++)
             if (ma[len - 1 - (i >> 3)] & (1 << (i & 7))) {
                 LOGP(..., i, f[i]);                              -- reads f[i] (possibly not yet written, inside f)
                 if (i >= j) break;
                 hopping[( *hopp_len)++] = f[i];
                 if (si4) freq[f[i]].mask |= FREQ_TYPE_HOPP;
             }
         return 0; }

   C integers: len is uint8_t and is promoted to int, so len << 3 is an int in 0..2040 (no wrap); i, j are int and stay
   below 2041; mask is uint8_t (the compound assignments truncate to 8 bits: u8); *hopp_len is uint8_t ((+1) mod 256);
   hopping[] entries are uint16_t and receive values < 1024.  Every array access is checked: freq (table of the caller,
   struct gsm48_sysinfo.freq[1024]), ma (the caller's IE buffer), the local array f (capacity c_F_CAPACITY, the loop stops
   at j == len << 3), hopping (the caller's buffer, struct gsm48_sysinfo.hopping[64] / uint16_t ma[64] in gsm48_rr.c).
   An out-of-bounds access gives OOB.  Definitions only; proofs are in Proofs/MobAllocP.v. *)
From Coq Require Import ZArith List Bool.
From OBB Require Import Base.Range Gen.MobAllocConst.
Import ListNotations.
Open Scope Z_scope.

Record st := mkst { s_freq : list Z; s_hop : list Z; s_hlen : Z }.

Inductive res := Ok (rc : Z) (s : st) | OOB.

(* ---------- checked array primitives ---------- *)
Definition rd (l : list Z) (i : Z) : option Z := if i <? 0 then None else nth_error l (Z.to_nat i).

Fixpoint upd_nat (l : list Z) (n : nat) (v : Z) : option (list Z) :=
  match l with
  | [] => None
  | x :: r => match n with O => Some (v :: r) | S n' => option_map (cons x) (upd_nat r n' v) end
  end.
Definition wr (l : list Z) (i v : Z) : option (list Z) := if i <? 0 then None else upd_nat l (Z.to_nat i) v.

(* ---------- the flag operations on the uint8_t mask ---------- *)
Definition u8 (x : Z) : Z := x mod 256.
Definition is_serv (m : Z) : bool := negb (Z.land m c_FREQ_TYPE_SERV =? 0).          (* mask & FREQ_TYPE_SERV *)
Definition clr_hopp (m : Z) : Z := u8 (Z.land m (Z.lnot c_FREQ_TYPE_HOPP)).          (* mask &= ~FREQ_TYPE_HOPP *)
Definition set_hopp (m : Z) : Z := u8 (Z.lor m c_FREQ_TYPE_HOPP).                    (* mask |= FREQ_TYPE_HOPP *)

(* loop 1: for (i = 0; i < 1024; i++) freq[i].mask &= ~FREQ_TYPE_HOPP   (table has at least 1024 entries, checked by the caller below) *)
Definition tabula_rasa (freq : list Z) : list Z := map clr_hopp (firstn 1024 freq) ++ skipn 1024 freq.

(* loop 2 visits i = 1 .. 1024 and uses the index i & 1023 *)
Definition order : list Z := map (fun i => Z.land i 1023) (range 1 1025).
(* (i & 1023, freq[i & 1023].mask) in visiting order: freq[1] .. freq[1023], then freq[0]; equal to the indexed reads by
   Proofs.visit_faithful when the table has 1024 entries *)
Definition visit (freq : list Z) : list (Z * Z) := combine order (skipn 1 (firstn 1024 freq) ++ firstn 1 freq).

(* f is the written prefix of the local array (capacity fcap), j its length, lim = len << 3; None = write outside f *)
Fixpoint gen_f (fcap lim : Z) (l : list (Z * Z)) (f : list Z) (j : Z) : option (list Z * Z) :=
  match l with
  | [] => Some (f, j)
  | (a, m) :: r =>
      if is_serv m then
        if j <? fcap then                                        (* f[j++] = i & 1023 : checked write *)
          let f' := f ++ [a] in
          let j' := j + 1 in
          if j' =? lim then Some (f', j') else gen_f fcap lim r f' j'  (* if (j == (len << 3)) break *)
        else None
      else gen_f fcap lim r f j
  end.

(* loop 3 over the remaining values of i; None = access outside a buffer *)
Fixpoint pick (ma : list Z) (len fcap : Z) (f : list Z) (j : Z) (si4 : bool) (is : list Z) (s : st) : option st :=
  match is with
  | [] => Some s
  | i :: r =>
      match rd ma (len - 1 - Z.shiftr i 3) with                  (* ma[len - 1 - (i >> 3)] *)
      | None => None
      | Some b =>
          if negb (Z.land b (Z.shiftl 1 (Z.land i 7)) =? 0) then (* & (1 << (i & 7)) *)
            if fcap <=? i then None                              (* LOGP argument f[i]: inside f? *)
            else if j <=? i then Some s                          (* if (i >= j) break *)
            else
              match rd f i with
              | None => None
              | Some a =>
                  match wr (s_hop s) (s_hlen s) a with           (* hopping[( *hopp_len)++] = f[i] *)
                  | None => None
                  | Some hop' =>
                      let hl' := u8 (s_hlen s + 1) in
                      if si4 then
                        match rd (s_freq s) a with               (* freq[f[i]].mask |= FREQ_TYPE_HOPP *)
                        | None => None
                        | Some m =>
                            match wr (s_freq s) a (set_hopp m) with
                            | None => None
                            | Some fr' => pick ma len fcap f j si4 r (mkst fr' hop' hl')
                            end
                        end
                      else pick ma len fcap f j si4 r (mkst (s_freq s) hop' hl')
                  end
              end
          else pick ma len fcap f j si4 r s
      end
  end.

Definition decode (freq ma : list Z) (len : Z) (hop : list Z) (hl si4 : Z) : res :=
  let lim := Z.shiftl len 3 in
  if 8 <? len then Ok (- c_EINVAL) (mkst freq hop hl)
  else
    let si4b := negb (si4 =? 0) in
    if si4b && (Zlength freq <? 1024) then OOB                   (* loop 1 touches freq[0..1023] *)
    else
      let fr1 := if si4b then tabula_rasa freq else freq in
      if len =? 0 then Ok 0 (mkst fr1 hop 0)                     (* if (len == 0) return 0; *)
      else if Zlength freq <? 1024 then OOB                      (* loop 2 touches freq[0..1023] *)
      else
        match gen_f c_F_CAPACITY lim (visit fr1) [] 0 with
        | None => OOB
        | Some (f, j) =>
            match pick ma len c_F_CAPACITY f j si4b (range 0 lim) (mkst fr1 hop 0) with
            | None => OOB
            | Some s => Ok 0 s
            end
        end.

(* ---------- specification side: 3GPP TS 44.018 10.5.2.21, literal numbers ---------- *)
Definition zn (l : list Z) (i : Z) : Z := nth (Z.to_nat i) l 0.
(* ARFCN a belongs to the cell allocation: FREQ_TYPE_SERV = 0x01 is set in its mask *)
Definition serving (freq : list Z) (a : Z) : bool := negb (Z.land (zn freq a) 1 =? 0).
(* the cell allocation in the order the Mobile Allocation bitmap refers to: ascending ARFCN, ARFCN 0 last *)
Definition cell_alloc (freq : list Z) : list Z := filter (serving freq) (range 1 1024 ++ [0]).
(* bit i of the bitmap (MA C i+1): bit (i mod 8) of octet len - 1 - i / 8, i.e. the LSB of the last octet first *)
Definition ma_bit (ma : list Z) (len i : Z) : bool := Z.testbit (zn ma (len - 1 - i / 8)) (i mod 8).
(* keep the set bits up to (not including) the first one that points beyond the n cell-allocation channels *)
Fixpoint cut (n : Z) (bits : list Z) : list Z :=
  match bits with [] => [] | i :: r => if i <? n then i :: cut n r else [] end.
Definition spec_hopping (freq ma : list Z) (len : Z) : list Z :=
  map (zn (cell_alloc freq)) (cut (Zlength (cell_alloc freq)) (filter (ma_bit ma len) (range 0 (8 * len)))).
Definition has (l : list Z) (a : Z) : bool := existsb (Z.eqb a) l.

(* ---------- wire functions for the correspondence driver ----------
   arguments: si4 len hl0 hfill bg nma ma_0 .. ma_{nma-1} (idx mask)*   with idx strictly ascending;
   table entry idx has the given mask, every other entry has mask bg; hopping[k] initially (hfill + k) mod 65536.
   observation: rc hopp_len hopping[0..size-1] (idx newmask)* for every changed table entry | -998 (OOB) *)
Fixpoint build (n : nat) (i bg : Z) (ps : list Z) : option (list Z) :=
  match n with
  | O => match ps with [] => Some [] | _ => None end
  | S n' =>
      match ps with
      | [] => option_map (cons bg) (build n' (i + 1) bg [])
      | [_] => None
      | k :: m :: r =>
          if k =? i then (if (0 <=? m) && (m <? 256) then option_map (cons m) (build n' (i + 1) bg r) else None)
          else if k <? i then None
          else option_map (cons bg) (build n' (i + 1) bg ps)
      end
  end.

Fixpoint diff (i : Z) (a b : list Z) : list Z :=
  match a, b with
  | x :: a', y :: b' => if x =? y then diff (i + 1) a' b' else i :: y :: diff (i + 1) a' b'
  | _, _ => []
  end.

Definition byte_ok (b : Z) : bool := (0 <=? b) && (b <? 256).

Definition wire (dec : list Z -> list Z -> Z -> list Z -> Z -> Z -> res) (a : list Z) : list Z :=
  match a with
  | si4 :: len :: hl0 :: hfill :: bg :: nma :: rest =>
      if byte_ok len && byte_ok hl0 && byte_ok bg && (0 <=? nma) && (nma <=? Zlength rest) && (0 <=? hfill) && (hfill <? 65536) then
        let ma := firstn (Z.to_nat nma) rest in
        let ps := skipn (Z.to_nat nma) rest in
        if forallb byte_ok ma then
          match build (Z.to_nat c_FREQ_TABLE_SIZE) 0 bg ps with
          | None => [-999]
          | Some freq =>
              let hop := map (fun k => (hfill + k) mod 65536) (range 0 c_HOPPING_SIZE) in
              match dec freq ma len hop hl0 si4 with
              | Ok rc s => rc :: s_hlen s :: s_hop s ++ diff 0 freq (s_freq s)
              | OOB => [-998]
              end
          end
        else [-999]
      else [-999]
  | _ => [-999]
  end.

Definition w_c20_decode (a : list Z) : list Z := wire decode a.
(* the specification itself, for the generator's cross-check of the Python oracle: hopping list only *)
Definition w_c20_spec (a : list Z) : list Z :=
  match a with
  | si4 :: len :: hl0 :: hfill :: bg :: nma :: rest =>
      if byte_ok len && byte_ok bg && (0 <=? nma) && (nma <=? Zlength rest) then
        match build (Z.to_nat c_FREQ_TABLE_SIZE) 0 bg (skipn (Z.to_nat nma) rest) with
        | None => [-999]
        | Some freq => spec_hopping freq (firstn (Z.to_nat nma) rest) len
        end
      else [-999]
  | _ => [-999]
  end.
