(* C01 - TRXD messages survive encode/decode unchanged. Statements only. *)
From Coq Require Import ZArith List.
From OBB Require Import Gen.TrxdConst Model.Trxd Proofs.TrxdBase Proofs.TrxdTx Proofs.TrxdRx Proofs.TrxdRxRT.
Import ListNotations.
Open Scope Z_scope.

(* the constants and tables regenerated from data_msg.py / gsm_shared.py are the protocol's *)
Theorem c01_constants :
  mods = [(0,148); (4,444); (6,148); (8,592); (10,740); (12,296)] /\ known_versions = [0; 1] /\ gsm_hyperframe = 2715648
  /\ (forall s, -128 <= s < 128 -> s2us s = 127 - s) /\ (forall u, 0 <= u < 256 -> us2s u = if u =? 255 then -127 else 127 - u).
Proof. exact (conj gen_mods (conj gen_versions (conj gen_hyper (conj s2us_f us2s_f)))). Qed.
Print Assumptions c01_constants.

(* L1 -> TRX: whatever gen_msg produces (with or without the legacy padding) parses back to the very same message *)
Theorem c01_tx_roundtrip : forall m legacy b, gen_tx legacy m = Ok b -> parse_tx b = Ok m.
Proof. exact tx_roundtrip. Qed.
Print Assumptions c01_tx_roundtrip.

(* ... and gen_msg succeeds for every message whose fields are in the protocol ranges (spec_tx spells them out) *)
Theorem c01_tx_encodable : forall m legacy, spec_tx m -> exists b, gen_tx legacy m = Ok b.
Proof. exact tx_encodable. Qed.
Print Assumptions c01_tx_encodable.

(* TRX -> L1: every header version, every modulation / TSC set / TSC, NOPE or burst, soft bits in [-127,127]:
   the parsed message equals the original in every field the version carries *)
Theorem c01_rx_roundtrip : forall m legacy b,
  soft_ok m -> gen_rx legacy m = Ok b -> exists m', parse_rx b = Ok m' /\ carried m' = carried m.
Proof. exact rx_roundtrip. Qed.
Print Assumptions c01_rx_roundtrip.

Theorem c01_rx_encodable : forall m legacy, spec_rx m -> exists b, gen_rx legacy m = Ok b.
Proof. exact rx_encodable. Qed.
Print Assumptions c01_rx_encodable.

(* a version-0 message with the two legacy padding octets decodes to the same message as without them *)
Theorem c01_legacy_same_tx : forall m b1 b2, gen_tx true m = Ok b1 -> gen_tx false m = Ok b2 -> parse_tx b1 = parse_tx b2.
Proof. exact tx_legacy_same. Qed.
Print Assumptions c01_legacy_same_tx.

Theorem c01_legacy_same_rx : forall m b1 b2, soft_ok m -> gen_rx true m = Ok b1 -> gen_rx false m = Ok b2 ->
  exists m1 m2, parse_rx b1 = Ok m1 /\ parse_rx b2 = Ok m2 /\ carried m1 = carried m2.
Proof. exact rx_legacy_same. Qed.
Print Assumptions c01_legacy_same_rx.

(* the restriction to [-127,127] is real: -128 validates but comes back as -127 (outside the property's quantifier) *)
Theorem c01_soft_m128_not_injective : us2s (s2us (-128)) = -127.
Proof. exact soft_m128_not_injective. Qed.
Print Assumptions c01_soft_m128_not_injective.
