(* C10 - forwarded bursts carry faithful bits and correct simulated radio metadata. Statements only. *)
From Coq Require Import ZArith List Bool.
From OBB Require Import Gen.TrxdConst Gen.FakeTrxConst Gen.TscTab Model.Trxd Model.Trx Proofs.TrxdRxRT Proofs.TrxMeta Proofs.TrxMeta2 Proofs.TrxTsc.
Import ListNotations.
Open Scope Z_scope.

(* a burst that is neither muted nor dropped: the message handed to send_msg(legacy = True) is meta_msg, with
   ToA256 = draw in [base - thr, base + thr] - 256 x sender TA; RSSI = sender nominal power - sender attenuation - burst attenuation - 110
   (path loss), or a draw in the FAKE_RSSI window; C/I in its window (version >= 1); no threshold -> exactly the base values *)
Theorem c10_metadata : forall dst src sm bits ver draws,
  sim_ok dst -> s_muted dst = false -> t_burst sm = Some bits -> fst (sim_drop dst (oz (t_fn sm))) = false ->
  exists toa rssi ci d',
    handle_data dst src sm (trans sm ver) draws = (dst, send_out true (meta_msg ver sm bits rssi (toa - 256 * s_ta src) ci), d')
    /\ s_toa dst - s_toa_thr dst <= toa <= s_toa dst + s_toa_thr dst
    /\ (s_fake_rssi dst = false -> rssi = s_txp src - s_att src - oz (t_pwr sm) - 110)
    /\ (s_fake_rssi dst = true -> s_rssi dst - s_rssi_thr dst <= rssi <= s_rssi dst + s_rssi_thr dst)
    /\ (ver >=? 1 = true -> s_ci dst - s_ci_thr dst <= ci <= s_ci dst + s_ci_thr dst)
    /\ (s_toa_thr dst = 0 -> toa = s_toa dst) /\ (s_rssi_thr dst = 0 -> s_fake_rssi dst = true -> rssi = s_rssi dst)
    /\ (ver >=? 1 = true -> s_ci_thr dst = 0 -> ci = s_ci dst).
Proof. exact handle_normal. Qed.
Print Assumptions c10_metadata.

(* that message keeps frame and timeslot number, has the recipient's version, carries the bits converted, modulation by burst length,
   and for GMSK the detected TSC / TSC set (0, 0 otherwise) *)
Theorem c10_message_fields : forall ver sm bits rssi toa ci,
  let m := meta_msg ver sm bits rssi toa ci in
  r_ver m = ver /\ r_fn m = t_fn sm /\ r_tn m = t_tn sm /\ r_burst m = Some (map u2s bits) /\ r_nope m = false
  /\ r_rssi m = Some rssi /\ r_toa m = Some toa
  /\ (ver >=? 1 = true -> r_ci m = Some ci /\ r_mod m = pick_by_bl (Z.of_nat (length bits))
       /\ (r_mod m = Some GMSK_IDX -> r_tsc m = Some (fst (tsc_of bits)) /\ r_tset m = Some (snd (tsc_of bits)))
       /\ (r_mod m <> Some GMSK_IDX -> r_tsc m = Some 0 /\ r_tset m = Some 0)).
Proof. exact meta_msg_fields. Qed.
Print Assumptions c10_message_fields.

(* each transmitted bit arrives as a full-confidence soft bit of the matching sign *)
Theorem c10_bits : forall bits, Forall (fun b => 0 <= b < 256) bits ->
  map u2s bits = map (fun b => if b =? 0 then 127 else -127) bits.
Proof. exact hard_to_soft. Qed.
Print Assumptions c10_bits.

(* the datagram: documented layout in the recipient's version; version 0 is followed by the two legacy padding octets *)
Theorem c10_datagram : forall l m b, gen_rx l m = Ok b ->
  (match r_burst m with Some bs => Forall (fun s => -128 <= s <= 127) bs | None => True end) ->
  exists fn tn rssi toa, r_fn m = Some fn /\ r_tn m = Some tn /\ r_rssi m = Some rssi /\ r_toa m = Some toa /\
    b = layout_rx_hdr (r_ver m) fn tn rssi toa
        ++ (if r_ver m =? 1 then [gen_mts m] ++ layout_ci (oz (r_ci m)) else [])
        ++ (match r_burst m with Some bs => usbits bs | None => [] end)
        ++ (if l && (r_ver m =? 0) then [0; 0] else []).
Proof. exact sent_octets. Qed.
Print Assumptions c10_datagram.

Theorem c10_mod_by_len : pick_by_bl 148 = Some 0%nat /\ pick_by_bl 444 = Some 1%nat /\ pick_by_bl 296 = Some 5%nat /\ pick_by_bl 592 = Some 3%nat /\ pick_by_bl 740 = Some 4%nat.
Proof. exact mod_by_len. Qed.
Print Assumptions c10_mod_by_len.

(* simulation defaults and the training sequence table are the documented ones (45.002 tables typed in by hand) *)
Theorem c10_tables : path_loss_default = 110 /\ nominal_tx_power_default = 50 /\ tx_att_default = 0 /\ toa256_base_default = 0 /\ ci_base_default = 90
  /\ tsc_tab = spec_tsc_tab.
Proof. exact (conj (proj1 gen_loss) (conj (proj1 (proj2 gen_loss)) (conj (proj1 (proj2 (proj2 gen_loss))) (conj (proj1 (proj2 (proj2 (proj2 gen_loss)))) (conj (proj2 (proj2 (proj2 (proj2 gen_loss)))) tsc_tab_spec))))). Qed.
Print Assumptions c10_tables.

(* TSC detection is sound: what is reported is a training sequence actually present at the position of its burst type *)
Theorem c10_tsc_sound : forall burst c bt s bits, ts_pick burst = Some (c, bt, s, bits) ->
  In (c, bt, s, bits) tsc_tab /\
  ((bt = 0 /\ seg burst 61 26 = bits) \/ (bt = 1 /\ seg burst 8 41 = bits) \/ (bt = 2 /\ seg burst 42 64 = bits)).
Proof. exact ts_pick_sound. Qed.
Print Assumptions c10_tsc_sound.

(* access bursts as the toolkit's generator builds them: the TSC / TSC set of the embedded sequence is reported, whatever the data bits *)
Theorem c10_tsc_access_burst : forall c s bits data, In (c, 1, s, bits) spec_tsc_tab -> tsc_of (layout_ab bits data) = (c, s).
Proof. exact ab_detected. Qed.
Print Assumptions c10_tsc_access_burst.

(* normal and sync bursts as the generator builds them (3 tail bits, data, [steal flag,] sequence, [steal flag,] data, 3 tail bits), with ANY data bits:
   the embedded sequence's TSC / TSC set is reported, provided no access-burst sequence (enumerated earlier) happens to sit at bits 8..48 of the
   payload - the side condition the detection rule itself imposes; that a sync sequence never matches inside a normal burst is discharged here *)
Theorem c10_tsc_normal_burst : forall c s bits d1 d2 s1 s2, In (c, 0, s, bits) spec_tsc_tab -> length d1 = 57%nat ->
  no_ab_match (layout_nb bits d1 d2 s1 s2) -> tsc_of (layout_nb bits d1 d2 s1 s2) = (c, s).
Proof. exact nb_detected. Qed.
Print Assumptions c10_tsc_normal_burst.

Theorem c10_tsc_sync_burst : forall c s bits d1 d2, In (c, 2, s, bits) spec_tsc_tab -> length d1 = 39%nat ->
  no_ab_match (layout_sb bits d1 d2) -> tsc_of (layout_sb bits d1 d2) = (c, s).
Proof. exact sb_detected. Qed.
Print Assumptions c10_tsc_sync_burst.
