(* C12 - power state, child transceivers and clock distribution stay consistent. Statements only. *)
From Coq Require Import ZArith List Bool.
From OBB Require Import Model.Trxd Model.Trx Proofs.TrxMeta Proofs.TrxInv Proofs.TrxPower Proofs.TrxPowerHist.
Import ListNotations.
Open Scope Z_scope.

(* one power event of transceiver i (its own successful POWERON / POWEROFF): the affected transceivers - itself, and its children
   when it is a parent with child management - get the new power state; everybody else is untouched *)
Theorem c12_power_event : forall w i on t k, nth_error (w_trx w) i = Some t ->
  nth_error (w_trx (power_event w i on)) k =
  if mem_nat k (affected t i) then option_map (power_one on) (nth_error (w_trx w) k) else nth_error (w_trx w) k.
Proof. exact power_event_nth. Qed.
Print Assumptions c12_power_event.

(* ... and power-off forgets the hopping configuration and all queued bursts, nothing else changes but the power flag *)
Theorem c12_poweroff_forgets : forall on t, x_run (power_one on t) = on /\ x_rx (power_one on t) = x_rx t /\ x_tx (power_one on t) = x_tx t
  /\ x_ver (power_one on t) = x_ver t /\ x_sim (power_one on t) = x_sim t /\ x_cfg (power_one on t) = x_cfg t
  /\ (on = false -> x_q (power_one on t) = [] /\ x_fh (power_one on t) = None)
  /\ (on = true -> x_q (power_one on t) = x_q t /\ x_fh (power_one on t) = x_fh t).
Proof. exact power_one_fields. Qed.
Print Assumptions c12_poweroff_forgets.

(* after ANY sequence of power events a transceiver is running iff the last event that affected it (its own or its parent's) was a power-on *)
Theorem c12_running_is_last_effective : forall hist w j t,
  nth_error (w_trx w) j = Some t ->
  exists t', nth_error (w_trx (fold_left (fun w e => power_event w (fst e) (snd e)) hist w)) j = Some t'
             /\ x_cfg t' = x_cfg t
             /\ x_run t' = eff_run (map x_cfg (w_trx w)) (x_run t) hist j
             /\ map x_cfg (w_trx (fold_left (fun w e => power_event w (fst e) (snd e)) hist w)) = map x_cfg (w_trx w).
Proof. exact power_events_run. Qed.
Print Assumptions c12_running_is_last_effective.

(* a control datagram changes the power state only through such an event: POWEROFF always, POWERON only when the transceiver is not
   running and is tuned or hopping (else status -1 and nothing happens) *)
Theorem c12_only_power_commands : forall w i req draws, (i < length (w_trx w))%nat ->
  let '(w', r, _) := parse_cmd w i req draws in
  same_power w w' \/ (exists w1 on, same_power w w1 /\ w' = power_event w1 i on /\ r = CStatus 0 [] /\
                      (on = true -> exists t1, nth_error (w_trx w1) i = Some t1 /\ x_run t1 = false /\ ready t1 = true)).
Proof. exact parse_cmd_power. Qed.
Print Assumptions c12_only_power_commands.

(* invariant over ALL control datagram histories (well formed or not) on any configuration whose children own no clock:
   clock indications go to exactly the clock links of running clock-owning transceivers, without duplicates,
   and the shared generator runs iff there is at least one *)
Theorem c12_clock_links_invariant : forall w i data draws, cfg_ok w -> links_inv w -> (i < length (w_trx w))%nat ->
  let '(w', _, _) := handle_rx w i data draws in cfg_ok w' /\ links_inv w'.
Proof. exact handle_rx_links. Qed.
Print Assumptions c12_clock_links_invariant.

(* port plan within one base port: all sockets distinct *)
Theorem c12_ports : forall base i j, 0 <= i -> 0 <= j ->
  port_ctrl base i <> port_data base j /\ port_clck base <> port_ctrl base i /\ port_clck base <> port_data base i
  /\ (i <> j -> port_ctrl base i <> port_ctrl base j /\ port_data base i <> port_data base j).
Proof. exact ports_distinct. Qed.
Print Assumptions c12_ports.
