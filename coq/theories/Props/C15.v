(* C15 - capture files return exactly what was stored, even after truncation. Statements only.
   Model: Model/Dump.v (DATADump / DATADumpFile of data_dump.py over the TRXD codec of Model/Trxd.v).
   vmsg m   : m is a TxMsg / RxMsg within the protocol ranges (spec_tx / spec_rx of C01, any version, modulation, NOPE),
              Rx soft bits in [-127, 127];
   cmsg m   : the fields m carries on the wire (all of a TxMsg; 'carried' for an RxMsg: what its header version transports);
   file ms  : the concatenated records of ms, record = what dump_msg returns;
   complete ms k : the messages of ms whose records end at or before octet k of file ms. *)
From Coq Require Import ZArith List.
From OBB Require Import Gen.TrxdConst Model.Trxd Model.Dump Proofs.TrxdTx Proofs.TrxdRx Proofs.TrxdRxRT Proofs.DumpP Model.DumpHist Proofs.DumpHistP.
Import ListNotations.
Open Scope Z_scope.

(* the regenerated framing constants are the format's: tag 1 = Tx, tag 2 = Rx, 3-octet header *)
Theorem c15_constants : dump_tag_tx = 1 /\ dump_tag_rx = 2 /\ dump_hdr_length = 3.
Proof. exact gen_dump. Qed.
Print Assumptions c15_constants.

(* record = tag octet, 16-bit big-endian length, TRXD message without legacy padding; the length is at most 753 < 65536,
   so the two length octets are exact *)
Theorem c15_record_format : forall m, vmsg m ->
  exists raw, (match m with inl t => gen_tx false t | inr r => gen_rx false r end) = Ok raw /\ (length raw <= 753)%nat /\
              dump_msg m = Ok ([match m with inl _ => 1 | inr _ => 2 end; Z.of_nat (length raw) / 256; Z.of_nat (length raw) mod 256] ++ raw).
Proof. exact record_format. Qed.
Print Assumptions c15_record_format.

(* append_all writes the records one after the other behind what the file held, and does not raise *)
Theorem c15_append : forall ms, Forall vmsg ms -> forall f0,
  append_all f0 ms = (f0 ++ file ms, Ok tt) /\ file ms = concat (map rec_of ms).
Proof. exact (fun ms H f0 => conj (append_valid ms H f0) eq_refl). Qed.
Print Assumptions c15_append.

(* a message outside the protocol ranges raises ValueError out of append_all; everything before it is in the file *)
Theorem c15_append_invalid : forall ms1 m ms2 f0, Forall vmsg ms1 ->
  (match m with inl t => ~ spec_tx t | inr r => ~ spec_rx r end) ->
  append_all f0 (ms1 ++ m :: ms2) = (f0 ++ file ms1, VErr).
Proof.
  exact (fun ms1 m ms2 f0 H Hm => append_stops_at_invalid ms1 m ms2 f0 H
           (match m return (match m with inl t => ~ spec_tx t | inr r => ~ spec_rx r end) -> dump_msg m = VErr
            with inl t => dump_invalid_tx t | inr r => dump_invalid_rx r end Hm)).
Qed.
Print Assumptions c15_append_invalid.

(* full read: the messages come back in order, equal in every carried field *)
Theorem c15_full_read : forall ms, Forall vmsg ms ->
  exists ms', parse_all (file ms) None None = Ok (PList ms') /\ map cmsg ms' = map cmsg ms.
Proof. exact full_read. Qed.
Print Assumptions c15_full_read.

(* random access: parse_msg(i) is the i-th message for 0 <= i < n and None for every i >= n *)
Theorem c15_index : forall ms i, Forall vmsg ms ->
  (0 <= i < Z.of_nat (length ms) ->
     exists m m', nth_error ms (Z.to_nat i) = Some m /\ parse_msg (file ms) i = Ok (OMsg m') /\ cmsg m' = cmsg m) /\
  (Z.of_nat (length ms) <= i -> parse_msg (file ms) i = Ok ONone).
Proof. exact index_read. Qed.
Print Assumptions c15_index.

(* skip / count: skip absent or <= n (skip = n gives the empty list, not the range error): the messages from 'skip' on,
   limited to the first 'count' of them when count >= 1 (count <= 0 never matches len(result) and limits nothing);
   skip > n: the value False *)
Theorem c15_slice : forall ms skip count, Forall vmsg ms ->
  (match skip with Some s => s <= Z.of_nat (length ms) | None => True end ->
     exists ms', parse_all (file ms) skip count = Ok (PList ms') /\
       map cmsg ms' = map cmsg (let rest := skipn (match skip with Some s => Z.to_nat s | None => 0%nat end) ms in
                                match count with Some c => if 1 <=? c then firstn (Z.to_nat c) rest else rest | None => rest end)) /\
  (match skip with Some s => Z.of_nat (length ms) < s | None => False end -> parse_all (file ms) skip count = Ok PFalse).
Proof. exact slice_read. Qed.
Print Assumptions c15_slice.

(* outside the property's quantifier, as coded: a negative index / skip is the same as 0 (range(idx) is empty) *)
Theorem c15_negative_is_zero : forall f i count, i <= 0 ->
  parse_msg f i = parse_msg f 0 /\ parse_all f (Some i) count = parse_all f None count.
Proof. exact (fun f i count H => conj (neg_index f i H) (neg_skip f i count H)). Qed.
Print Assumptions c15_negative_is_zero.

(* complete ms k is the prefix of ms of the j messages whose records fit into the first k octets (the j+1-th does not) *)
Theorem c15_complete_spec : forall ms k,
  exists j, complete ms k = firstn j ms /\ (j <= length ms)%nat /\ (length (file (firstn j ms)) <= k)%nat /\
            ((j < length ms)%nat -> (k < length (file (firstn (S j) ms)))%nat).
Proof. exact complete_spec. Qed.
Print Assumptions c15_complete_spec.

(* truncation at EVERY octet offset k: a full read returns exactly the completely written messages, parse_msg(i) the i-th
   of them and None beyond; no exception, no False, no fuel exhaustion *)
Theorem c15_truncation : forall ms k, Forall vmsg ms ->
  (exists ms', parse_all (firstn k (file ms)) None None = Ok (PList ms') /\ map cmsg ms' = map cmsg (complete ms k)) /\
  (forall i, 0 <= i < Z.of_nat (length (complete ms k)) ->
     exists m m', nth_error (complete ms k) (Z.to_nat i) = Some m /\
                  parse_msg (firstn k (file ms)) i = Ok (OMsg m') /\ cmsg m' = cmsg m) /\
  (forall i, Z.of_nat (length (complete ms k)) <= i -> parse_msg (firstn k (file ms)) i = Ok ONone).
Proof. exact truncation_read. Qed.
Print Assumptions c15_truncation.

(* skip / count on a cut file select from the complete messages.  One deviation from the uncut case, stated exactly:
   when skip is one more than the number of complete messages and at least 3 octets (a whole header) of the unfinished
   record survive, _seek2msg reads that header, seeks beyond the end of the file without noticing and reports success,
   so parse_all returns [] where it returns False for every other skip beyond the complete messages. *)
Theorem c15_truncation_slice : forall ms k skip count, Forall vmsg ms ->
  let cs := complete ms k in
  let rest := (length (firstn k (file ms)) - length (file cs))%nat in
  (match skip with Some s => s <= Z.of_nat (length cs) | None => True end ->
     exists ms', parse_all (firstn k (file ms)) skip count = Ok (PList ms') /\
       map cmsg ms' = map cmsg (let r := skipn (match skip with Some s => Z.to_nat s | None => 0%nat end) cs in
                                match count with Some c => if 1 <=? c then firstn (Z.to_nat c) r else r | None => r end)) /\
  (match skip with Some s => s = Z.of_nat (length cs) + 1 /\ (3 <= rest)%nat | None => False end ->
     parse_all (firstn k (file ms)) skip count = Ok (PList [])) /\
  (match skip with Some s => Z.of_nat (length cs) < s /\ ((rest < 3)%nat \/ Z.of_nat (length cs) + 1 < s) | None => False end ->
     parse_all (firstn k (file ms)) skip count = Ok PFalse).
Proof. exact truncation_slice. Qed.
Print Assumptions c15_truncation_slice.

(* a record with a sound header whose body does not parse (the value False of _parse_msg) is skipped by parse_all *)
Theorem c15_unparsable_skipped : forall is_rx raw rest fuel count acc, Z.of_nat (length raw) < 65536 ->
  parse_body is_rx raw = OFalse ->
  pa_loop (S fuel) (([if is_rx then 2 else 1; Z.of_nat (length raw) / 256; Z.of_nat (length raw) mod 256] ++ raw) ++ rest) 0 count acc
  = pa_loop fuel rest 0 count acc.
Proof. exact pa_skips_unparsable. Qed.
Print Assumptions c15_unparsable_skipped.

(* the hypotheses are met by a mixed capture (Tx v1 8-PSK, Rx v1 NOPE, Rx v1 GMSK-AB, Rx v0): 788 octets; cut one octet
   short the last message is gone; cut at 452 / 453 the first record is incomplete / complete *)
Theorem c15_nonvacuous : Forall vmsg ex_ms /\ length (file ex_ms) = 788%nat /\ complete ex_ms 787 = firstn 3 ex_ms
  /\ complete ex_ms 788 = ex_ms /\ complete ex_ms 452 = [] /\ complete ex_ms 453 = [inl ex_tx].
Proof. exact (conj ex_valid ex_cuts). Qed.
Print Assumptions c15_nonvacuous.

(* ---- histories on ONE capture object: appends (DAppend), reads by index (DIndex) and full / sliced reads (DAll) in any order.
   drun f ops = (file afterwards, answers); appended ops = the messages the history appended, in order ---- *)

(* the capture always holds the initial messages followed by every appended one - reads change nothing *)
Theorem c15_history_state : forall ops ms0, Forall vmsg (appended ops) ->
  fst (drun (file ms0) ops) = file (ms0 ++ appended ops).
Proof. exact hist_state. Qed.
Print Assumptions c15_history_state.

(* the operation following ANY history answers as it would on a capture holding exactly what was stored so far *)
Theorem c15_history_answer : forall pre o post ms0, Forall vmsg (appended pre) ->
  nth_error (snd (drun (file ms0) (pre ++ o :: post))) (length pre) = Some (snd (dstep (file (ms0 ++ appended pre)) o)).
Proof. exact hist_answer. Qed.
Print Assumptions c15_history_answer.

(* hence random access after any mix of appends and reads: the i-th of everything stored so far, None beyond *)
Theorem c15_history_index : forall pre i post ms0, Forall vmsg ms0 -> Forall vmsg (appended pre) ->
  let ms := ms0 ++ appended pre in
  let ans := nth_error (snd (drun (file ms0) (pre ++ DIndex i :: post))) (length pre) in
  (0 <= i < Z.of_nat (length ms) -> exists m m', nth_error ms (Z.to_nat i) = Some m /\ ans = Some (OIndex (Ok (OMsg m'))) /\ cmsg m' = cmsg m) /\
  (Z.of_nat (length ms) <= i -> ans = Some (OIndex (Ok ONone))).
Proof. exact hist_index. Qed.
Print Assumptions c15_history_index.

(* and a full read after any history returns everything stored so far, in order *)
Theorem c15_history_full : forall pre post ms0, Forall vmsg ms0 -> Forall vmsg (appended pre) ->
  let ms := ms0 ++ appended pre in
  exists ms', nth_error (snd (drun (file ms0) (pre ++ DAll None None :: post))) (length pre) = Some (OAll (Ok (PList ms'))) /\ map cmsg ms' = map cmsg ms.
Proof. exact hist_full. Qed.
Print Assumptions c15_history_full.

(* non-vacuity: read, append, read the appended message by its index on the example capture *)
Theorem c15_history_nonvacuous :
  exists m, nth_error ex_ms 0 = Some m /\ Forall vmsg (appended [DIndex 0; DAppend m]) /\
    (match nth_error (snd (drun (file ex_ms) ([DIndex 0; DAppend m] ++ DIndex 4 :: [DAll None None]))) 2 with
     | Some (OIndex (Ok (OMsg m'))) => cmsg m' = cmsg m
     | _ => False
     end) /\
    length (fst (drun (file ex_ms) [DIndex 0; DAppend m; DIndex 4])) = (length (file ex_ms) + length (rec_of m))%nat.
Proof. exact hist_example. Qed.
Print Assumptions c15_history_nonvacuous.
