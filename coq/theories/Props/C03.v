(* C03 - every queued burst is transmitted exactly once, in its own frame. Statements only. *)
From Coq Require Import ZArith List Bool.
From OBB Require Import Gen.FakeTrxConst Model.Trxd Model.Trx Model.Race Proofs.TrxInv Proofs.TrxTick Proofs.TrxQueue Proofs.RaceP.
Import ListNotations.
Open Scope Z_scope.

(* SEQUENTIAL HISTORIES of one transceiver: any sequence of datagram arrivals (any octets), clock ticks (any frame numbers, gaps,
   wrap), POWERON / POWEROFF and header-version changes. *)

(* no burst vanishes and none is duplicated: for EVERY class x of bursts,
   accepted = emitted + reported stale + cleared by power-off + still queued *)
Theorem c03_conservation : forall t ops, conserved (fold_left qstep ops (qinit t)).
Proof. exact conservation. Qed.
Print Assumptions c03_conservation.

(* never earlier, later or in another frame: whatever is emitted at a tick has that tick's frame number (modulo the hyperframe:
   is_due); whatever is reported stale lies behind the clock (is_behind: reaching its frame would take half a hyperframe or more) -
   frame numbers are compared modulo 2715648, so bursts queued across the wrap 2715647 -> 0 are sent in their own frame *)
Theorem c03_on_time : forall t ops, timely (fold_left qstep ops (qinit t)).
Proof. exact timeliness. Qed.
Print Assumptions c03_on_time.

(* one tick of a running transceiver: exactly the queued bursts of that frame are emitted (all of them, once, in queue order),
   the ones behind the clock are reported, exactly the ones ahead stay queued *)
Theorem c03_tick_exact : forall h fn, x_run (h_trx h) = true ->
  let h' := qstep h (QTick fn) in
  h_emitted h' = h_emitted h ++ map (fun m => (fn, m)) (filter (is_due fn) (x_q (h_trx h)))
  /\ h_stale h' = h_stale h ++ map (fun m => (fn, m)) (filter (is_behind fn) (x_q (h_trx h)))
  /\ x_q (h_trx h') = filter (is_ahead fn) (x_q (h_trx h)).
Proof. exact tick_exact. Qed.
Print Assumptions c03_tick_exact.

(* an arriving datagram is enqueued iff it parses, carries the negotiated header version and the transceiver is running; otherwise nothing changes *)
Theorem c03_arrival : forall h d,
  let h' := qstep h (QArrive d) in
  (forall m, parse_tx (firstn (Z.to_nat data_recv_size) d) = Ok m -> t_ver m = x_ver (h_trx h) -> x_run (h_trx h) = true ->
     x_q (h_trx h') = x_q (h_trx h) ++ [m] /\ h_accepted h' = h_accepted h ++ [m]) /\
  ((forall m, parse_tx (firstn (Z.to_nat data_recv_size) d) <> Ok m) \/ x_run (h_trx h) = false
     \/ (exists m, parse_tx (firstn (Z.to_nat data_recv_size) d) = Ok m /\ t_ver m <> x_ver (h_trx h)) -> h' = h).
Proof. exact arrive_exact. Qed.
Print Assumptions c03_arrival.

Theorem c03_poweroff_clears : forall h, let h' := qstep h QPowerOff in
  x_q (h_trx h') = [] /\ h_cleared h' = h_cleared h ++ x_q (h_trx h) /\ x_run (h_trx h') = false.
Proof. exact poweroff_clears. Qed.
Print Assumptions c03_poweroff_clears.

(* the application-level tick (all transceivers, with burst forwarding in between) does exactly that to every transceiver's queue *)
Theorem c03_world_tick : forall w fn draws, wf_world w -> 0 <= fn ->
  let '(w', _, _) := tick w fn draws in
  forall k t, nth_error (w_trx w) k = Some t ->
    exists t', nth_error (w_trx w') k = Some t' /\
      x_q t' = (if x_run t then filter (is_ahead fn) (x_q t) else x_q t)
      /\ x_run t' = x_run t /\ x_ver t' = x_ver t /\ x_rx t' = x_rx t /\ x_tx t' = x_tx t /\ x_fh t' = x_fh t /\ x_cfg t' = x_cfg t.
Proof. exact tick_queues. Qed.
Print Assumptions c03_world_tick.

(* ALL THREAD SCHEDULES of one socket-side operation (arrival / POWEROFF / POWERON) racing one clock tick; atomic steps =
   lock-protected sections and single reads/writes of `running` / `fh` (Model/Race.v); schedules of any length *)
Theorem c03_interleavings_conserve : forall f op sched r fh q,
  Inv (run f op sched (init r fh q)) /\ Inv (run_all f op sched (init r fh q)).
Proof. exact interleavings_conserve. Qed.
Print Assumptions c03_interleavings_conserve.

Theorem c03_interleavings_on_time : forall f op sched r fh q,
  let s := run_all f op sched (init r fh q) in
  Forall (due f) (emitted s) /\ Forall (behind f) (stale s).
Proof. exact interleavings_on_time. Qed.
Print Assumptions c03_interleavings_on_time.

(* the clock thread survives every schedule - fixed tuning or hopping, whatever the racing operation (the hopping parameters are read once) *)
Theorem c03_no_crash_schedule : forall f op sched r fh q, Alive (run_all f op sched (init r fh q)).
Proof. exact no_crash_any_schedule. Qed.
Print Assumptions c03_no_crash_schedule.
