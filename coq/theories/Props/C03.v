(* C03 - every queued burst is transmitted exactly once, in its own frame. Statements only. *)
From Coq Require Import ZArith List Bool.
From OBB Require Import Gen.FakeTrxConst Model.Trxd Model.Trx Model.Race Proofs.TrxInv Proofs.TrxTick Proofs.TrxQueue Proofs.RaceP.
Import ListNotations.
Open Scope Z_scope.

(* SEQUENTIAL HISTORIES of one transceiver: any sequence of datagram arrivals (any octets), clock ticks (any frame numbers, gaps,
   wrap), POWERON / POWEROFF and header-version changes. *)

(* no burst vanishes and none is duplicated: for EVERY class x of bursts,
   accepted = emitted + reported stale + cleared by power-off + still queued *)
Theorem c03_conservation : forall t ops, conserved (fold_left qstep ops (qinit t)).
Proof. exact conservation. Qed.
Print Assumptions c03_conservation.

(* never earlier, later or in another frame: whatever is emitted at a tick has that tick's frame number; whatever is reported stale
   has a smaller frame number (numeric comparison, as in the code: see the recorded finding about the hyperframe wrap) *)
Theorem c03_on_time : forall t ops, timely (fold_left qstep ops (qinit t)).
Proof. exact timeliness. Qed.
Print Assumptions c03_on_time.

(* one tick of a running transceiver: exactly the queued bursts of that frame are emitted (all of them, once, in queue order),
   the older ones are reported, exactly the later ones stay queued *)
Theorem c03_tick_exact : forall h fn, x_run (h_trx h) = true ->
  let h' := qstep h (QTick fn) in
  h_emitted h' = h_emitted h ++ map (fun m => (fn, m)) (filter (fun m => oz (t_fn m) =? fn) (x_q (h_trx h)))
  /\ h_stale h' = h_stale h ++ map (fun m => (fn, m)) (filter (fun m => oz (t_fn m) <? fn) (x_q (h_trx h)))
  /\ x_q (h_trx h') = filter (fun m => fn <? oz (t_fn m)) (x_q (h_trx h)).
Proof. exact tick_exact. Qed.
Print Assumptions c03_tick_exact.

(* an arriving datagram is enqueued iff it parses, carries the negotiated header version and the transceiver is running; otherwise nothing changes *)
Theorem c03_arrival : forall h d,
  let h' := qstep h (QArrive d) in
  (forall m, parse_tx (firstn (Z.to_nat data_recv_size) d) = Ok m -> t_ver m = x_ver (h_trx h) -> x_run (h_trx h) = true ->
     x_q (h_trx h') = x_q (h_trx h) ++ [m] /\ h_accepted h' = h_accepted h ++ [m]) /\
  ((forall m, parse_tx (firstn (Z.to_nat data_recv_size) d) <> Ok m) \/ x_run (h_trx h) = false
     \/ (exists m, parse_tx (firstn (Z.to_nat data_recv_size) d) = Ok m /\ t_ver m <> x_ver (h_trx h)) -> h' = h).
Proof. exact arrive_exact. Qed.
Print Assumptions c03_arrival.

Theorem c03_poweroff_clears : forall h, let h' := qstep h QPowerOff in
  x_q (h_trx h') = [] /\ h_cleared h' = h_cleared h ++ x_q (h_trx h) /\ x_run (h_trx h') = false.
Proof. exact poweroff_clears. Qed.
Print Assumptions c03_poweroff_clears.

(* the application-level tick (all transceivers, with burst forwarding in between) does exactly that to every transceiver's queue *)
Theorem c03_world_tick : forall w fn draws, wf_world w -> 0 <= fn ->
  let '(w', _, _) := tick w fn draws in
  forall k t, nth_error (w_trx w) k = Some t ->
    exists t', nth_error (w_trx w') k = Some t' /\
      x_q t' = (if x_run t then filter (fun m => fn <? oz (t_fn m)) (x_q t) else x_q t)
      /\ x_run t' = x_run t /\ x_ver t' = x_ver t /\ x_rx t' = x_rx t /\ x_tx t' = x_tx t /\ x_fh t' = x_fh t /\ x_cfg t' = x_cfg t.
Proof. exact tick_queues. Qed.
Print Assumptions c03_world_tick.

(* ALL THREAD SCHEDULES of one socket-side operation (arrival / POWEROFF / POWERON) racing one clock tick; atomic steps =
   lock-protected sections and single reads/writes of `running` / `fh` (Model/Race.v); schedules of any length *)
Theorem c03_interleavings_conserve : forall f op sched r fh q,
  Inv (run f op sched (init r fh q)) /\ Inv (run_all f op sched (init r fh q)).
Proof. exact interleavings_conserve. Qed.
Print Assumptions c03_interleavings_conserve.

Theorem c03_interleavings_on_time : forall f op sched r fh q,
  let s := run_all f op sched (init r fh q) in
  Forall (fun m => snd m = f) (emitted s) /\ Forall (fun m => snd m < f) (stale s).
Proof. exact interleavings_on_time. Qed.
Print Assumptions c03_interleavings_on_time.

(* the clock thread survives every schedule unless hopping is configured AND the racing operation is POWEROFF *)
Theorem c03_no_crash_schedule : forall f op sched r q,
  match tpc (run_all f op sched (init r false q)) with TCrash _ => False | _ => True end.
Proof. exact no_crash_without_hopping. Qed.
Print Assumptions c03_no_crash_schedule.

Theorem c03_no_crash_schedule_hopping : forall f op sched r q, op <> PowerOff ->
  match tpc (run_all f op sched (init r true q)) with TCrash _ => False | _ => True end.
Proof. exact no_crash_without_poweroff. Qed.
Print Assumptions c03_no_crash_schedule_hopping.

(* REFUTED for the remaining case (recorded finding c03-fh-race): get_tx_freq reads self.fh twice; POWEROFF in between kills the clock thread *)
Theorem c03_fh_race_refuted : exists sched, tpc (run_all 10 PowerOff sched (init true true [(1, 10)])) = TCrash [(1, 10)].
Proof. exact fh_race_refuted. Qed.
Print Assumptions c03_fh_race_refuted.
