(* C07 - frequency hopping follows 3GPP TS 45.002 6.2.3 in simulator and firmware. Statements only. *)
From Coq Require Import ZArith List.
From OBB Require Import Gen.HoppingTab Model.GsmTime Model.Hopping Proofs.HoppingP Model.FreqRedef Proofs.FreqRedefP.
Open Scope Z_scope.

(* both implementations carry the standard's RNTABLE *)
Theorem c07_tables : py_rntable = spec_rntable /\ c_rn_table = spec_rntable.
Proof. exact (conj tab_py tab_c). Qed.
Print Assumptions c07_tables.

(* firmware: for every HSN 0..63, MAIO, N in 1..64 and FN of the hyperframe the MAI is the standard's,
   it lies in 0..N-1, and no table access is out of bounds *)
Theorem c07_c_spec : forall hsn maio n fn, 0 <= hsn < 64 -> 0 <= maio -> 1 <= n <= 64 -> 0 <= fn < 2715648 ->
  hop_c (fn2gsmtime fn) hsn maio n = hop_spec hsn maio n fn
  /\ exists mai, hop_spec hsn maio n fn = Some mai /\ 0 <= mai < n.
Proof. exact c_spec. Qed.
Print Assumptions c07_c_spec.

(* simulator: same *)
Theorem c07_py_spec : forall hsn maio n fn, 0 <= hsn < 64 -> 0 <= maio -> 1 <= n <= 64 -> 0 <= fn < 2715648 ->
  hop_py hsn maio n fn = hop_spec hsn maio n fn.
Proof. exact py_spec. Qed.
Print Assumptions c07_py_spec.

(* simulator and firmware select the same channel MA[MAI] of any mobile allocation of 1..64 channels *)
Theorem c07_py_eq_c : forall hsn maio fn ma, 0 <= hsn < 64 -> 0 <= maio -> (1 <= length ma <= 64)%nat -> 0 <= fn < 2715648 ->
  pick ma (hop_py hsn maio (Z.of_nat (length ma)) fn) = pick ma (hop_c (fn2gsmtime fn) hsn maio (Z.of_nat (length ma)))
  /\ exists mai a, hop_spec hsn maio (Z.of_nat (length ma)) fn = Some mai /\ nth_error ma (Z.to_nat mai) = Some a
                   /\ pick ma (hop_py hsn maio (Z.of_nat (length ma)) fn) = (a :: nil).
Proof. exact py_eq_c_ma. Qed.
Print Assumptions c07_py_eq_c.

(* ---- frequency redefinition at "starting time" (firmware prim_freq.c l1s_freq_cmd, Model/FreqRedef.v) ---- *)

(* after the command, for every frame of the hyperframe the firmware tunes to MA[MAI] of the STAGED hopping parameters
   (any mobile allocation of 1..64 channels), MAI being the standard's *)
Theorem c07_freq_cmd_hop : forall d hsn maio ma fn, st d = Hop hsn maio ma ->
  0 <= hsn < 64 -> 0 <= maio -> (1 <= length ma <= 64)%nat -> 0 <= fn < 2715648 ->
  exists mai a, hop_spec hsn maio (Z.of_nat (length ma)) fn = Some mai /\ 0 <= mai < Z.of_nat (length ma)
                /\ nth_error ma (Z.to_nat mai) = Some a /\ ded_arfcn (freq_cmd d) fn = a.
Proof. exact cmd_hop. Qed.
Print Assumptions c07_freq_cmd_hop.

(* a staged single-ARFCN channel is used as it is *)
Theorem c07_freq_cmd_fixed : forall d a fn, st d = Fixed a -> ded_arfcn (freq_cmd d) fn = a.
Proof. exact cmd_fixed. Qed.
Print Assumptions c07_freq_cmd_fixed.

(* the training sequence follows the staged one *)
Theorem c07_freq_cmd_tsc : forall d, ded_tsc (freq_cmd d) = st_tsc d.
Proof. exact cmd_tsc. Qed.
Print Assumptions c07_freq_cmd_tsc.

(* the command leaves the staged set as it is ... *)
Theorem c07_freq_cmd_keeps_staged : forall d, st (freq_cmd d) = st d /\ st_tsc (freq_cmd d) = st_tsc d.
Proof. exact cmd_keeps_staged. Qed.
Print Assumptions c07_freq_cmd_keeps_staged.

(* ... and is idempotent *)
Theorem c07_freq_cmd_idem : forall d, freq_cmd (freq_cmd d) = freq_cmd d.
Proof. exact cmd_idem. Qed.
Print Assumptions c07_freq_cmd_idem.

(* until the starting time the old channel is used: staging changes neither the ARFCN of any frame nor the training sequence *)
Theorem c07_stage_keeps_active : forall d s t, act (stage d s t) = act d /\ ded_tsc (stage d s t) = ded_tsc d
  /\ forall fn, ded_arfcn (stage d s t) fn = ded_arfcn d fn.
Proof. exact stage_keeps_active. Qed.
Print Assumptions c07_stage_keeps_active.

(* staging followed by the command activates exactly what was staged *)
Theorem c07_stage_cmd : forall d s t, act (freq_cmd (stage d s t)) = s /\ ded_tsc (freq_cmd (stage d s t)) = t.
Proof. exact stage_cmd. Qed.
Print Assumptions c07_stage_cmd.

(* non-vacuity: old MA of 3, staged MA of 5 channels; frames with MAI 3 and 4 use the new entries 43 and 44 *)
Theorem c07_freq_redef_example :
  map (ded_arfcn ex_staged) (0 :: 1 :: 2 :: 3 :: 7 :: 8 :: nil) = 10 :: 11 :: 12 :: 10 :: 11 :: 12 :: nil
  /\ map (hop_spec 17 2 5) (0 :: 1 :: 2 :: 3 :: 7 :: 8 :: nil) = Some 4 :: Some 3 :: Some 0 :: Some 2 :: Some 3 :: Some 2 :: nil
  /\ map (ded_arfcn (freq_cmd ex_staged)) (0 :: 1 :: 2 :: 3 :: 7 :: 8 :: nil) = 44 :: 43 :: 40 :: 42 :: 43 :: 42 :: nil
  /\ ded_tsc ex_staged = 1 /\ ded_tsc (freq_cmd ex_staged) = 5.
Proof. exact redef_n5. Qed.
Print Assumptions c07_freq_redef_example.
