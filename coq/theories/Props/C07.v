(* C07 - frequency hopping follows 3GPP TS 45.002 6.2.3 in simulator and firmware. Statements only. *)
From Coq Require Import ZArith List.
From OBB Require Import Gen.HoppingTab Model.GsmTime Model.Hopping Proofs.HoppingP.
Open Scope Z_scope.

(* both implementations carry the standard's RNTABLE *)
Theorem c07_tables : py_rntable = spec_rntable /\ c_rn_table = spec_rntable.
Proof. exact (conj tab_py tab_c). Qed.
Print Assumptions c07_tables.

(* firmware: for every HSN 0..63, MAIO, N in 1..64 and FN of the hyperframe the MAI is the standard's,
   it lies in 0..N-1, and no table access is out of bounds *)
Theorem c07_c_spec : forall hsn maio n fn, 0 <= hsn < 64 -> 0 <= maio -> 1 <= n <= 64 -> 0 <= fn < 2715648 ->
  hop_c (fn2gsmtime fn) hsn maio n = hop_spec hsn maio n fn
  /\ exists mai, hop_spec hsn maio n fn = Some mai /\ 0 <= mai < n.
Proof. exact c_spec. Qed.
Print Assumptions c07_c_spec.

(* simulator: same *)
Theorem c07_py_spec : forall hsn maio n fn, 0 <= hsn < 64 -> 0 <= maio -> 1 <= n <= 64 -> 0 <= fn < 2715648 ->
  hop_py hsn maio n fn = hop_spec hsn maio n fn.
Proof. exact py_spec. Qed.
Print Assumptions c07_py_spec.

(* simulator and firmware select the same channel MA[MAI] of any mobile allocation of 1..64 channels *)
Theorem c07_py_eq_c : forall hsn maio fn ma, 0 <= hsn < 64 -> 0 <= maio -> (1 <= length ma <= 64)%nat -> 0 <= fn < 2715648 ->
  pick ma (hop_py hsn maio (Z.of_nat (length ma)) fn) = pick ma (hop_c (fn2gsmtime fn) hsn maio (Z.of_nat (length ma)))
  /\ exists mai a, hop_spec hsn maio (Z.of_nat (length ma)) fn = Some mai /\ nth_error ma (Z.to_nat mai) = Some a
                   /\ pick ma (hop_py hsn maio (Z.of_nat (length ma)) fn) = (a :: nil).
Proof. exact py_eq_c_ma. Qed.
Print Assumptions c07_py_eq_c.
