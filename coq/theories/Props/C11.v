(* C11 - firmware and trxcon agree on the multiframe mapping of every logical channel. Statements only.
   Vocabulary (Model/Mframe.v):
     c11_rows                 the specification table: firmware task <-> (trxcon channel combination, timeslots, lchan, SACCH lchan), 35 rows
     fw_fires task kind s cur the real-table model of mframe_schedule_set(): at current frame cur the firmware hands a TDMA sched set of
                              this kind (K_NB_DL/K_NB_UL 4-burst block, K_TCH/K_TCH_A/K_TCH_D one frame) with MF_F_SACCH = s to
                              tdma_schedule_set(); it is on air SCHEDULE_AHEAD = 2 frames later
     row_layout r tn          the layout the real-table model of l1sched_mframe_layout(combination, tn) selects
     trx_first L d c fn       frames[fn % period] of layout L gives channel c, burst id 0, in direction d;  trx_owns: channel c, any burst id
     rx_burst L s fn          the model of l1sched_handle_rx_burst() (sched_trx.c) on a timeslot with layout L and channel states s
                              (s : list of (lchan type, {active, tdma.num_proc, tdma.num_lost, tdma.last_proc})) for a burst in frame fn:
                              RxOk rc bid sub dir s' = return code, bi->bid, the handler calls (lchan, fn, bid) made for substituted lost
                              frames (subst_frame_loss()), the handler call for the burst itself, the states afterwards;
                              RxOOB / RxDescOOB / RxDivZero = a read outside frames[] / outside l1sched_lchan_desc[] / fn % 0
     rx_elapsed fn lp         subst_frame_loss(): int elapsed = fn - last_proc with the half-hyperframe correction
     fn_walk n f              the n frame numbers after f: GSM_TDMA_FN_INC applied 1 .. n times (uint32_t, modulo 2715648)
     tx_pull L s fn           l1sched_pull_burst(): TxOk br->bid (lchan types whose tx handler was called);  rx_probe: l1sched_handle_rx_probe()
   Frame numbers: every current frame of the hyperframe, 0 <= cur < 2715648 (this contains every 51*26*8 = 10608 cycle and the
   wrap 2715647 -> 0); the frame on air is (cur + 2) mod 2715648. *)
From Coq Require Import ZArith List Bool.
From OBB Require Import Base.Range Gen.MframeFw Gen.MframeTrxcon Model.Mframe Proofs.MframeP Proofs.MframeRxP Proofs.MframeSchedP.
Import ListNotations.
Open Scope Z_scope.

(* the literal constants the statements below rely on *)
Theorem c11_constants :
  fw_SCHEDULE_AHEAD = 2 /\ fw_SCHEDULE_LATENCY = 1 /\ fw_GSM_MAX_FN = 2715648 /\ fw_MF_F_SACCH = 1 /\ fw_NTASKS = 32 /\
  Z.of_nat (length fw_sched) = 32 /\ tx_L1SCHED_IDLE = 0 /\ tx_LID_SACCH = 64 /\
  desc_has_handler DL tx_L1SCHED_IDLE = false /\ desc_has_handler UL tx_L1SCHED_IDLE = false.
Proof. exact consts. Qed.
Print Assumptions c11_constants.

(* block channels (BCCH, CCCH plain/combined, SDCCH/4, SDCCH/8 with their SACCHs, CBCH, PDTCH): the firmware starts a downlink /
   uplink block exactly in the frames trxcon marks as burst 0 of that channel in that direction; for PDTCH the firmware is receive-only *)
Theorem c11_block_starts_agree : forall r tn cur,
  In r c11_rows -> r_mode r <> Tch -> 0 <= tn < 8 -> tn_ok (r_tn r) tn = true -> 0 <= cur < 2715648 ->
  exists L, row_layout r tn = Some L /\
    let fn := (cur + 2) mod 2715648 in
    fw_fires (r_task r) K_NB_DL false cur = trx_first L DL (r_lchan r) fn /\
    fw_fires (r_task r) K_NB_DL true cur = trx_first_opt L DL (r_sacch r) fn /\
    (r_mode r = Block ->
       fw_fires (r_task r) K_NB_UL false cur = trx_first L UL (r_lchan r) fn /\
       fw_fires (r_task r) K_NB_UL true cur = trx_first_opt L UL (r_sacch r) fn) /\
    (r_mode r = BlockDL ->
       fw_fires (r_task r) K_NB_UL false cur = false /\ fw_fires (r_task r) K_NB_UL true cur = false).
Proof. exact block_starts_agree. Qed.
Print Assumptions c11_block_starts_agree.

(* TCH/F (task by timeslot parity) and TCH/H sub-channels 0/1: frame by frame, downlink and uplink, the firmware schedules a traffic
   frame (TCH) exactly in the frames the layout gives to TCHF / TCHH_s, a SACCH frame (TCH_A, flag SACCH) exactly in the frames of
   SACCHTF / SACCHTH_s, and a dummy (TCH_D) exactly in the frames of the other TCH/H sub-channel (never on TCH/F) *)
Theorem c11_tch_frames_agree : forall r tn cur,
  In r c11_rows -> r_mode r = Tch -> 0 <= tn < 8 -> tn_ok (r_tn r) tn = true -> 0 <= cur < 2715648 ->
  exists L, row_layout r tn = Some L /\
    let fn := (cur + 2) mod 2715648 in
    fw_fires (r_task r) K_TCH false cur = trx_owns L DL (r_lchan r) fn /\
    fw_fires (r_task r) K_TCH false cur = trx_owns L UL (r_lchan r) fn /\
    fw_fires (r_task r) K_TCH_A true cur = trx_owns_opt L DL (r_sacch r) fn /\
    fw_fires (r_task r) K_TCH_A true cur = trx_owns_opt L UL (r_sacch r) fn /\
    fw_fires (r_task r) K_TCH_D false cur = trx_owns_opt L DL (other_subchan (r_lchan r)) fn /\
    fw_fires (r_task r) K_TCH_D false cur = trx_owns_opt L UL (other_subchan (r_lchan r)) fn.
Proof. exact tch_frames_agree. Qed.
Print Assumptions c11_tch_frames_agree.

(* nothing is left out of the two comparisons: every row of a mapped task's table is NB_DL/NB_UL with flags 0 or MF_F_SACCH
   (block rows; NB_DL without flags only for PDTCH), or TCH / TCH_A+MF_F_SACCH / TCH_D (TCH rows) *)
Theorem c11_rows_accounted : forall r, In r c11_rows -> chk_row_kinds r = true.
Proof. exact rows_accounted. Qed.
Print Assumptions c11_rows_accounted.

(* the table pairs the right things: for every row both stacks report the same RSL channel number -
   mframe_task2chan_nr(task, tn) = l1sched_lchan_desc[lchan].chan_nr | tn, link id 0x00, and the SACCH lchan has the same
   channel number with link id 0x40 *)
Theorem c11_rows_chan_nr : forall r tn, In r c11_rows -> 0 <= tn < 8 ->
  fw_task_chan_nr (r_task r) tn = Z.lor (desc_chan_nr (r_lchan r)) tn /\ desc_link_id (r_lchan r) = 0 /\
  (forall s, r_sacch r = Some s -> desc_chan_nr s = desc_chan_nr (r_lchan r) /\ desc_link_id s = 64).
Proof. exact rows_chan_nr. Qed.
Print Assumptions c11_rows_chan_nr.

(* burst ids: in every layout and direction, from a frame i owned by a channel c (not IDLE) to the next frame i+k owned by c
   (cyclically through the period) the burst id advances by one modulo the burst count of c
   (4; 2 for TCHH_0/TCHH_1; 1 for FCCH, SCH, RACH), and it is always below that count *)
Theorem c11_bids_cyclic : forall L d i k fr fr',
  In L tx_layouts -> ly_cfg L <> tx_GSM_PCHAN_NONE -> 0 <= i < ly_period L -> 1 <= k ->
  trx_frame L i = FrOk fr -> fr_chan d fr <> tx_L1SCHED_IDLE ->
  trx_frame L (i + k) = FrOk fr' -> fr_chan d fr' = fr_chan d fr ->
  (forall j frj, 1 <= j < k -> trx_frame L (i + j) = FrOk frj -> fr_chan d frj <> fr_chan d fr) ->
  0 <= fr_bid d fr < lchan_nbursts (fr_chan d fr) /\
  fr_bid d fr' = (fr_bid d fr + 1) mod lchan_nbursts (fr_chan d fr).
Proof. exact bids_cyclic. Qed.
Print Assumptions c11_bids_cyclic.

(* no frame lookup leaves the table: for every layout with frames (every combination but NONE) and every uint32 frame number,
   period > 0, fn % period is a row of the frames array, and both lookup sites (Tx: unsigned offset, Rx: uint8_t offset) read it *)
Theorem c11_lookup_in_table : forall L fn, In L tx_layouts -> ly_cfg L <> tx_GSM_PCHAN_NONE -> 0 <= fn < 4294967296 ->
  0 < ly_period L /\ 0 <= fn mod ly_period L < ly_nframes L /\
  exists fr, nth_error (ly_frames L) (Z.to_nat (fn mod ly_period L)) = Some fr /\ trx_frame L fn = FrOk fr /\ trx_frame_rx L fn = FrOk fr.
Proof. exact lookup_in_table. Qed.
Print Assumptions c11_lookup_in_table.

(* kept visible: the layout of GSM_PCHAN_NONE has period 0 and frames NULL; a lookup on it would divide by zero
   (no caller configures a timeslot with NONE: trxcon_fsm.c rejects it, l1ctl.c maps every CCCH mode to a CCCH combination) *)
Theorem c11_none_layout_divzero : forall L fn, In L tx_layouts -> ly_cfg L = tx_GSM_PCHAN_NONE -> trx_frame L fn = FrDivZero.
Proof. exact none_layout_divzero. Qed.
Print Assumptions c11_none_layout_divzero.

(* every channel a frame uses (everything but IDLE, which has no handler) is a valid lchan and is in the layout's lchan mask *)
Theorem c11_mask_covers : forall L fr d, In L tx_layouts -> In fr (ly_frames L) -> fr_chan d fr <> tx_L1SCHED_IDLE ->
  0 <= fr_chan d fr < tx_CHAN_MAX /\ fr_chan d fr < 64 /\ Z.testbit (ly_mask L) (fr_chan d fr) = true.
Proof. exact mask_covers. Qed.
Print Assumptions c11_mask_covers.

(* (combination, timeslot) lookup, all 128 x 8 pairs: for the nine combinations trxcon knows (c11_configs) the model of
   l1sched_mframe_layout() - which returns what the real function returned in the dumper - selects a layout of that combination
   whose slotmask contains tn; for every other combination it returns NULL *)
Theorem c11_layout_valid_for_tn : forall cfg tn, 0 <= cfg < 128 -> 0 <= tn < 8 ->
  (In cfg c11_configs ->
     exists li L, trx_layout cfg tn = Some li /\ trx_layout_real cfg tn = li /\ nth_error tx_layouts (Z.to_nat li) = Some L /\
                  ly_cfg L = cfg /\ Z.testbit (ly_slotmask L) tn = true) /\
  (~ In cfg c11_configs -> trx_layout cfg tn = None /\ trx_layout_real cfg tn = -1).
Proof. exact layout_valid_for_tn. Qed.
Print Assumptions c11_layout_valid_for_tn.

(* ... so it gets a channel state when the timeslot is configured: the model of l1sched_configure_ts() (one state per type of
   the 64-bit mask, compared with the real function for every combination and timeslot on every run) gives a state to every
   channel any frame of the layout uses, and to nothing outside the mask *)
Theorem c11_configured_has_state : forall L fr d, In L tx_layouts -> In fr (ly_frames L) -> fr_chan d fr <> tx_L1SCHED_IDLE ->
  In (fr_chan d fr) (trx_configured L).
Proof. exact configured_has_state. Qed.
Print Assumptions c11_configured_has_state.

Theorem c11_configured_only_mask : forall L c, In c (trx_configured L) -> 0 <= c < tx_CHAN_MAX /\ Z.testbit (ly_mask L) c = true.
Proof. exact configured_only_mask. Qed.
Print Assumptions c11_configured_only_mask.

(* ================================================================== the consumers of the lookup in sched_trx.c
   For every layout with frames, EVERY list of channel states and every frame number of the C type (uint32_t). *)

(* no lookup of the downlink path leaves a table: neither frames[(uint8_t)(fn % period)] of l1sched_handle_rx_burst(), nor any
   frames[GSM_TDMA_FN_INC(bi.fn) % period] of the loop in subst_frame_loss(), nor l1sched_lchan_desc[dl_chan] *)
Theorem c11_rx_lookups_in_table : forall L s fn, In L tx_layouts -> ly_cfg L <> tx_GSM_PCHAN_NONE -> 0 <= fn < 4294967296 ->
  exists rc bid sub dir s', rx_burst L s fn = RxOk rc bid sub dir s'.
Proof. exact rx_in_table. Qed.
Print Assumptions c11_rx_lookups_in_table.

(* every handler call the downlink path makes for one burst - every substituted one and the one for the burst itself - is for a
   frame number f whose row frames[f % period] has dl_chan = the called channel and carries that row's dl_bid; all of them go to the
   channel that owns the burst's own frame, and bi->bid is that frame's dl_bid *)
Theorem c11_rx_calls_are_layout_frames : forall L s fn rc bid sub dir s',
  In L tx_layouts -> ly_cfg L <> tx_GSM_PCHAN_NONE -> 0 <= fn < 4294967296 ->
  rx_burst L s fn = RxOk rc bid sub dir s' ->
  exists fr0, trx_frame L fn = FrOk fr0 /\ bid = fr_bid DL fr0 /\
    (dir = None \/ dir = Some (fr_chan DL fr0, fn, fr_bid DL fr0)) /\
    forall c f b, In (c, f, b) (rx_calls sub dir) ->
      c = fr_chan DL fr0 /\ 0 <= f < 4294967296 /\
      exists fr, trx_frame L f = FrOk fr /\ fr_chan DL fr = c /\ fr_bid DL fr = b.
Proof. exact rx_calls_owned. Qed.
Print Assumptions c11_rx_calls_are_layout_frames.

(* the complete case analysis of one burst (four theorems, hypotheses exhaustive). First the main case: the channel that owns frame fn
   has a handler and an active state that has processed a frame, and 1 .. period frames elapsed since tdma.last_proc: the handler gets
   a dummy burst for EXACTLY the frames of the walk last_proc+1, .., fn-1 (elapsed - 1 increments) that the layout gives to this
   channel, in order, each with the burst id of its row, and then the burst itself; nothing else is called *)
Theorem c11_rx_substitutes_exactly : forall L s fn fr st,
  In L tx_layouts -> ly_cfg L <> tx_GSM_PCHAN_NONE -> 0 <= fn < 4294967296 -> trx_frame L fn = FrOk fr ->
  desc_has_handler DL (fr_chan DL fr) = true -> find_st (fr_chan DL fr) s = Some st -> cs_active st = true ->
  cs_nproc st <> 0 -> 0 < rx_elapsed fn (cs_last st) <= ly_period L ->
  let c := fr_chan DL fr in
  let sub := map (fun f => (c, f, dl_bid_at L f))
                 (filter (fun f => trx_owns L DL c f) (fn_walk (Z.to_nat (rx_elapsed fn (cs_last st) - 1)) (cs_last st))) in
  rx_burst L s fn = RxOk 0 (fr_bid DL fr) sub (Some (c, fn, fr_bid DL fr))
                         (set_st c (st_after_direct (st_after_subst st sub) fn) s).
Proof. exact rx_substitutes. Qed.
Print Assumptions c11_rx_substitutes_exactly.

(* ... first burst of the channel (num_proc = 0, -EAGAIN inside), the same frame again, or more than one period elapsed (-EIO inside):
   only the burst itself goes to the handler *)
Theorem c11_rx_direct_only : forall L s fn fr st,
  In L tx_layouts -> ly_cfg L <> tx_GSM_PCHAN_NONE -> 0 <= fn < 4294967296 -> trx_frame L fn = FrOk fr ->
  desc_has_handler DL (fr_chan DL fr) = true -> find_st (fr_chan DL fr) s = Some st -> cs_active st = true ->
  cs_nproc st = 0 \/ rx_elapsed fn (cs_last st) = 0 \/ rx_elapsed fn (cs_last st) > ly_period L ->
  rx_burst L s fn = RxOk 0 (fr_bid DL fr) [] (Some (fr_chan DL fr, fn, fr_bid DL fr))
                         (set_st (fr_chan DL fr) (st_after_direct st fn) s).
Proof. exact rx_direct_only. Qed.
Print Assumptions c11_rx_direct_only.

(* ... a burst older than the last processed frame: dropped with -EALREADY (-114), no handler call, no state change *)
Theorem c11_rx_dropped : forall L s fn fr st,
  In L tx_layouts -> ly_cfg L <> tx_GSM_PCHAN_NONE -> 0 <= fn < 4294967296 -> trx_frame L fn = FrOk fr ->
  desc_has_handler DL (fr_chan DL fr) = true -> find_st (fr_chan DL fr) s = Some st -> cs_active st = true ->
  cs_nproc st <> 0 -> rx_elapsed fn (cs_last st) < 0 ->
  rx_burst L s fn = RxOk (-114) (fr_bid DL fr) [] None s.
Proof. exact rx_dropped. Qed.
Print Assumptions c11_rx_dropped.

(* ... a frame of a channel without handler (IDLE), without channel state or not active: no handler call, no state change
   (return code 0 for an inactive channel, -ENODEV = -19 otherwise) *)
Theorem c11_rx_no_call : forall L s fn fr,
  In L tx_layouts -> ly_cfg L <> tx_GSM_PCHAN_NONE -> 0 <= fn < 4294967296 -> trx_frame L fn = FrOk fr ->
  desc_has_handler DL (fr_chan DL fr) = false \/ st_active s (fr_chan DL fr) = false ->
  exists rc, rx_burst L s fn = RxOk rc (fr_bid DL fr) [] None s /\ (rc = 0 \/ rc = -19).
Proof. exact rx_no_call. Qed.
Print Assumptions c11_rx_no_call.

(* reading the two theorems above on valid frame numbers (0 .. 2715647): elapsed is the forward distance (fn - last_proc) modulo the
   hyperframe, taken as negative from half a hyperframe on; the walk is last_proc+1, last_proc+2, .. modulo the hyperframe - so the
   substituted frames are the frames strictly between last_proc and fn; and because every period divides 2715648 the row of a frame
   number continues through the wrap 2715647 -> 0 *)
Theorem c11_rx_elapsed_valid : forall fn lp, 0 <= fn < 2715648 -> 0 <= lp < 2715648 ->
  rx_elapsed fn lp = let e := (fn - lp) mod 2715648 in if e <? 1357824 then e else e - 2715648.
Proof. exact rx_elapsed_valid. Qed.
Print Assumptions c11_rx_elapsed_valid.

Theorem c11_fn_walk_frames : forall n f, 0 <= f < 2715648 ->
  length (fn_walk n f) = n /\ forall k, (k < n)%nat -> nth k (fn_walk n f) 0 = (f + 1 + Z.of_nat k) mod 2715648.
Proof. exact fn_walk_spec. Qed.
Print Assumptions c11_fn_walk_frames.

Theorem c11_period_divides_hyperframe : forall L x, In L tx_layouts -> ly_cfg L <> tx_GSM_PCHAN_NONE ->
  2715648 mod ly_period L = 0 /\ (x mod 2715648) mod ly_period L = x mod ly_period L.
Proof. exact hyper_rows. Qed.
Print Assumptions c11_period_divides_hyperframe.

(* uplink: l1sched_pull_burst() reads frames[fn % period] inside the table, reports that row's ul_bid in br->bid and calls the tx
   handler of that row's ul_chan - only that one, and only when it has a handler and an active channel state *)
Theorem c11_pull_burst_row : forall L s fn, In L tx_layouts -> ly_cfg L <> tx_GSM_PCHAN_NONE -> 0 <= fn < 4294967296 ->
  exists fr, trx_frame L fn = FrOk fr /\
    tx_pull L s fn = TxOk (fr_bid UL fr)
                          (if desc_has_handler UL (fr_chan UL fr) && st_active s (fr_chan UL fr) then [fr_chan UL fr] else []).
Proof. exact tx_pull_spec. Qed.
Print Assumptions c11_pull_burst_row.

(* l1sched_handle_rx_probe() reads frames[fn % period] inside the table: 0 and the ACTIVE flag (1) or-ed in for an active state of the
   row's dl_chan, -ENODEV (-19) when that channel has no handler or no state *)
Theorem c11_rx_probe_row : forall L s fn fl, In L tx_layouts -> ly_cfg L <> tx_GSM_PCHAN_NONE -> 0 <= fn < 4294967296 ->
  exists fr, trx_frame L fn = FrOk fr /\
    rx_probe L s fn fl =
      match (if desc_has_handler DL (fr_chan DL fr) then find_st (fr_chan DL fr) s else None) with
      | Some st => PrOk 0 (if cs_active st then Z.lor fl 1 else fl)
      | None => PrOk (-19) fl
      end.
Proof. exact rx_probe_spec. Qed.
Print Assumptions c11_rx_probe_row.

(* both depend on fn through fn mod period only (the correspondence runs them over whole periods) *)
Theorem c11_pull_probe_periodic : forall L s fl x y, 0 < ly_period L -> 0 <= x < 4294967296 -> 0 <= y < 4294967296 ->
  x mod ly_period L = y mod ly_period L -> tx_pull L s x = tx_pull L s y /\ rx_probe L s x fl = rx_probe L s y fl.
Proof. exact tx_probe_periodic. Qed.
Print Assumptions c11_pull_probe_periodic.

(* the main case once more, read on valid frame numbers only (both inside the hyperframe): with d = (fn - last_proc) mod 2715648 and
   0 < d <= period the substituted frames are exactly those of last_proc + 1, .., last_proc + d - 1 (mod 2715648; last_proc + d = fn)
   that the layout gives to the channel, in order, each with the burst id of its row *)
Theorem c11_rx_substitutes_between : forall L s fn fr st,
  In L tx_layouts -> ly_cfg L <> tx_GSM_PCHAN_NONE -> 0 <= fn < 2715648 -> trx_frame L fn = FrOk fr ->
  desc_has_handler DL (fr_chan DL fr) = true -> find_st (fr_chan DL fr) s = Some st -> cs_active st = true ->
  cs_nproc st <> 0 -> 0 <= cs_last st < 2715648 ->
  let d := (fn - cs_last st) mod 2715648 in
  0 < d <= ly_period L ->
  let c := fr_chan DL fr in
  let sub := map (fun f => (c, f, dl_bid_at L f))
                 (filter (fun f => trx_owns L DL c f) (map (fun k => (cs_last st + k) mod 2715648) (range 1 d))) in
  rx_burst L s fn = RxOk 0 (fr_bid DL fr) sub (Some (c, fn, fr_bid DL fr))
                         (set_st c (st_after_direct (st_after_subst st sub) fn) s).
Proof. exact rx_substitutes_between. Qed.
Print Assumptions c11_rx_substitutes_between.

(* ================================================================== the firmware scheduler state (mframe_sched.c)
   mfst = {tasks, tasks_tgt, safe_fn};  mf_enable / mf_disable / mf_set / mf_reset = the requests;  mf_schedule cur s = mframe_schedule()
   at current frame cur: (the tdma_schedule_set() calls, the state afterwards);  mf_tasks_after cur s = tasks after the update at the top of
   mframe_schedule() (tasks_tgt when the safe test holds, tasks & tasks_tgt otherwise);  mf_task_calls cur s t = the calls of that tick for
   task t;  mf_fires = fw_fires on them;  mf_run ops s = a history of requests (OpEnable / OpDisable / OpSet / OpReset) and ticks (OpTick cur). *)

(* mframe_schedule() makes exactly the calls of the per-tick core fw_mframe_schedule (the function of the theorems above) for the task mask
   after the update: for task 0, 1, .., 31 in this order the calls of mframe_schedule_set(task) if the task is active, nothing otherwise *)
Theorem c11_sched_tick_calls : forall cur s,
  fst (mf_schedule cur s) = fw_mframe_schedule (mf_tasks_after cur s) cur /\
  forall cs, fst (mf_schedule cur s) = FwOk cs -> cs = flat_map (mf_task_calls cur s) (range 0 32).
Proof. exact tick_calls. Qed.
Print Assumptions c11_sched_tick_calls.

(* (a) a disable takes effect at the very next mframe_schedule(): a task that is not in tasks_tgt is not active after the update, whatever
   the safe test says, and the tick makes no call for it ... *)
Theorem c11_sched_disable_immediate : forall cur s t, 0 <= t -> Z.testbit (ms_tgt s) t = false ->
  Z.testbit (mf_tasks_after cur s) t = false /\ mf_task_calls cur s t = [] /\ forall kind sacch, mf_fires cur s t kind sacch = false.
Proof. exact disable_immediate. Qed.
Print Assumptions c11_sched_disable_immediate.

(* ... and it stays out of tasks_tgt through every history of ticks and requests that does not switch it on again
   (op_keeps_off t: no mframe_enable(t), no mframe_set() with bit t; task numbers 0..31), so it starts no block from then on *)
Theorem c11_sched_stays_off : forall t ops s, 0 <= t < 32 -> forallb (op_keeps_off t) ops = true ->
  Z.testbit (ms_tgt s) t = false -> Z.testbit (ms_tgt (mf_run ops s)) t = false.
Proof. exact stays_off. Qed.
Print Assumptions c11_sched_stays_off.

(* (b) an enable is never lost: mframe_schedule() never writes tasks_tgt ... *)
Theorem c11_sched_tick_keeps_target : forall cur s, ms_tgt (mf_step s (OpTick cur)) = ms_tgt s.
Proof. exact tick_keeps_target. Qed.
Print Assumptions c11_sched_tick_keeps_target.

(* ... so a requested task stays requested through every history that does not take the request back (op_keeps_on t: no mframe_disable(t),
   no mframe_set() without bit t, no mframe_reset()) ... *)
Theorem c11_sched_request_kept : forall t ops s, 0 <= t < 32 -> forallb (op_keeps_on t) ops = true ->
  Z.testbit (ms_tgt s) t = true -> Z.testbit (ms_tgt (mf_run ops s)) t = true.
Proof. exact pending_kept. Qed.
Print Assumptions c11_sched_request_kept.

(* ... at a tick where the safe test holds every requested task becomes active ("enabled and the safe test holds => active") ... *)
Theorem c11_sched_safe_means_target : forall cur s, mf_safe_test cur s = true -> mf_tasks_after cur s = ms_tgt s.
Proof. exact safe_means_target. Qed.
Print Assumptions c11_sched_safe_means_target.

(* ... and an active, still requested task stays active through every such history (at every prefix, hence at every tick of it) *)
Theorem c11_sched_stays_on : forall t ops s, 0 <= t < 32 -> forallb (op_keeps_on t) ops = true ->
  Z.testbit (ms_tasks s) t = true -> Z.testbit (ms_tgt s) t = true ->
  Z.testbit (ms_tasks (mf_run ops s)) t = true /\ Z.testbit (ms_tgt (mf_run ops s)) t = true.
Proof. exact stays_on. Qed.
Print Assumptions c11_sched_stays_on.

(* (c) liveness. Every sched set the tables refer to has 2 .. 6 frames (Gen fw_set_frames), so a started set moves safe_fn at most 6 - 2 = 4
   frames ahead.  Invariant mf_inv cur s ("as left by the tick of frame cur"): safe_fn is force-safe (>= 2715648) or at most 4 frames ahead of
   cur modulo 2715648.  It holds after mframe_reset(), requests do not touch safe_fn, the first tick behind a reset (at any frame)
   establishes it and the tick of the NEXT frame keeps it - through the hyperframe wrap too *)
Theorem c11_sched_safe_fn_invariant :
  (forall cur, mf_inv cur mf_reset = true /\ ms_safe mf_reset = 4294967295) /\
  (forall o s, (forall cur, o <> OpTick cur) -> o <> OpReset -> ms_tasks (mf_step s o) = ms_tasks s /\ ms_safe (mf_step s o) = ms_safe s) /\
  (forall c1 s, 0 <= c1 < 2715648 -> 2715648 <= ms_safe s < 4294967296 ->
     mf_inv c1 (snd (mf_schedule c1 s)) = true /\ ms_safe (snd (mf_schedule c1 s)) < 4294967296) /\
  (forall cur s, 0 <= cur < 2715648 -> ms_safe s < 4294967296 -> mf_inv cur s = true ->
     let c1 := (cur + 1) mod 2715648 in
     mf_inv c1 (snd (mf_schedule c1 s)) = true /\ ms_safe (snd (mf_schedule c1 s)) < 4294967296).
Proof. exact (conj inv_reset (conj requests_keep_tasks_and_safe (conj inv_first_tick inv_tick))). Qed.
Print Assumptions c11_sched_safe_fn_invariant.

(* under the invariant "not safe" lasts at most 4 frames: with safe_fn j <= 4 frames ahead of cur the test holds at frame cur + j .. cur + 4;
   a tick that starts nothing leaves safe_fn alone or (safe branch) forgets it *)
Theorem c11_sched_not_safe_at_most_4_ticks : forall cur s j, 0 <= cur < 2715648 -> ms_safe s < 4294967296 -> mf_inv cur s = true ->
  0 <= j <= 4 -> (2715648 <= ms_safe s \/ (ms_safe s - cur) mod 2715648 <= j) ->
  mf_safe_test ((cur + j) mod 2715648) s = true.
Proof. exact safe_after_at_most_4. Qed.
Print Assumptions c11_sched_not_safe_at_most_4_ticks.

Theorem c11_sched_quiet_tick_safe_fn : forall cur s, fst (mf_schedule cur s) = FwOk [] ->
  ms_safe (snd (mf_schedule cur s)) = mf_safe_after_test cur s.
Proof. exact quiet_tick_safe. Qed.
Print Assumptions c11_sched_quiet_tick_safe_fn.

(* the state as left by the tick of frame cur, task t requested (before the tick of frame cur + 1): if the ticks of the next three frames start
   no set, t is active after the tick of frame cur + 4 at the latest (K = 6 frames per set at most: K - 2 ticks) - unconditional on reachable
   states; a set started in between restarts the count (the invariant above still holds then) *)
Theorem c11_sched_enable_live : forall s0 cur t, 0 <= cur < 2715648 -> 0 <= t < 32 -> ms_safe s0 < 4294967296 -> mf_inv cur s0 = true ->
  Z.testbit (ms_tgt s0) t = true ->
  let c1 := (cur + 1) mod 2715648 in let c2 := (cur + 2) mod 2715648 in
  let c3 := (cur + 3) mod 2715648 in let c4 := (cur + 4) mod 2715648 in
  let s1 := snd (mf_schedule c1 s0) in let s2 := snd (mf_schedule c2 s1) in
  let s3 := snd (mf_schedule c3 s2) in let s4 := snd (mf_schedule c4 s3) in
  fst (mf_schedule c1 s0) = FwOk [] -> fst (mf_schedule c2 s1) = FwOk [] -> fst (mf_schedule c3 s2) = FwOk [] ->
  Z.testbit (ms_tasks s4) t = true.
Proof. exact enable_live. Qed.
Print Assumptions c11_sched_enable_live.

(* (d) from the tick at which it is active, a task starts its blocks exactly in the frames of c11_block_starts_agree / c11_tch_frames_agree:
   the two theorems with the mask replaced by "active in the scheduler state after the update of this tick" *)
Theorem c11_sched_block_starts_agree : forall r tn cur s,
  In r c11_rows -> r_mode r <> Tch -> 0 <= tn < 8 -> tn_ok (r_tn r) tn = true -> 0 <= cur < 2715648 ->
  Z.testbit (mf_tasks_after cur s) (r_task r) = true ->
  exists L, row_layout r tn = Some L /\
    let fn := (cur + 2) mod 2715648 in
    mf_fires cur s (r_task r) K_NB_DL false = trx_first L DL (r_lchan r) fn /\
    mf_fires cur s (r_task r) K_NB_DL true = trx_first_opt L DL (r_sacch r) fn /\
    (r_mode r = Block ->
       mf_fires cur s (r_task r) K_NB_UL false = trx_first L UL (r_lchan r) fn /\
       mf_fires cur s (r_task r) K_NB_UL true = trx_first_opt L UL (r_sacch r) fn) /\
    (r_mode r = BlockDL ->
       mf_fires cur s (r_task r) K_NB_UL false = false /\ mf_fires cur s (r_task r) K_NB_UL true = false).
Proof. exact sched_block_starts_agree. Qed.
Print Assumptions c11_sched_block_starts_agree.

Theorem c11_sched_tch_frames_agree : forall r tn cur s,
  In r c11_rows -> r_mode r = Tch -> 0 <= tn < 8 -> tn_ok (r_tn r) tn = true -> 0 <= cur < 2715648 ->
  Z.testbit (mf_tasks_after cur s) (r_task r) = true ->
  exists L, row_layout r tn = Some L /\
    let fn := (cur + 2) mod 2715648 in
    mf_fires cur s (r_task r) K_TCH false = trx_owns L DL (r_lchan r) fn /\
    mf_fires cur s (r_task r) K_TCH false = trx_owns L UL (r_lchan r) fn /\
    mf_fires cur s (r_task r) K_TCH_A true = trx_owns_opt L DL (r_sacch r) fn /\
    mf_fires cur s (r_task r) K_TCH_A true = trx_owns_opt L UL (r_sacch r) fn /\
    mf_fires cur s (r_task r) K_TCH_D false = trx_owns_opt L DL (other_subchan (r_lchan r)) fn /\
    mf_fires cur s (r_task r) K_TCH_D false = trx_owns_opt L UL (other_subchan (r_lchan r)) fn.
Proof. exact sched_tch_frames_agree. Qed.
Print Assumptions c11_sched_tch_frames_agree.

(* ================================================================== from the channel number to the combination trxcon configures
   trx_chan_nr2pchan = the model of l1sched_chan_nr2pchan_config() (sched_trx.c): the combination handle_dch_est_req() hands to
   l1sched_configure_ts() when a dedicated channel is established. *)

(* the model is the real function on all 256 channel numbers (tx_resolve: its results, regenerated on every run) *)
Theorem c11_resolver_is_real : forall c, 0 <= c < 256 -> trx_chan_nr2pchan c = nth (Z.to_nat c) tx_resolve (-1).
Proof. exact resolver_is_real. Qed.
Print Assumptions c11_resolver_is_real.

(* for every row of the table and every timeslot: the channel number the firmware reports for the row's task (mframe_task2chan_nr, the
   number both stacks agree on by c11_rows_chan_nr) resolves - for a dedicated channel (everything but BCCH / CCCH) - to a combination
   under which the table has this very task with the same channel, SACCH, timeslots and mode; BCCH / CCCH numbers resolve to NONE
   (they are not established through a channel number) *)
Theorem c11_chan_nr_resolves_to_row_combination : forall r tn, In r c11_rows -> 0 <= tn < 8 ->
  let cfg := trx_chan_nr2pchan (fw_task_chan_nr (r_task r) tn) in
  (row_dedicated r = true ->
     exists r', In r' c11_rows /\ r_cfg r' = cfg /\ r_task r' = r_task r /\ r_lchan r' = r_lchan r /\ r_sacch r' = r_sacch r /\
                r_tn r' = r_tn r /\ r_mode r' = r_mode r) /\
  (row_dedicated r = false -> cfg = tx_GSM_PCHAN_NONE).
Proof. exact chan_nr_resolves. Qed.
Print Assumptions c11_chan_nr_resolves_to_row_combination.

(* ... so in the layout trxcon selects for the resolved combination on that timeslot, the frames in which the firmware starts the blocks
   of the task are exactly the layout's burst-0 frames of the row's channel (c11_block_starts_agree composed with the resolver) ... *)
Theorem c11_dch_est_block_starts_agree : forall r tn cur,
  In r c11_rows -> row_dedicated r = true -> r_mode r <> Tch -> 0 <= tn < 8 -> tn_ok (r_tn r) tn = true -> 0 <= cur < 2715648 ->
  exists r' L, In r' c11_rows /\ r_cfg r' = trx_chan_nr2pchan (fw_task_chan_nr (r_task r) tn) /\ row_layout r' tn = Some L /\
    let fn := (cur + 2) mod 2715648 in
    fw_fires (r_task r) K_NB_DL false cur = trx_first L DL (r_lchan r) fn /\
    fw_fires (r_task r) K_NB_DL true cur = trx_first_opt L DL (r_sacch r) fn /\
    (r_mode r = Block ->
       fw_fires (r_task r) K_NB_UL false cur = trx_first L UL (r_lchan r) fn /\
       fw_fires (r_task r) K_NB_UL true cur = trx_first_opt L UL (r_sacch r) fn) /\
    (r_mode r = BlockDL ->
       fw_fires (r_task r) K_NB_UL false cur = false /\ fw_fires (r_task r) K_NB_UL true cur = false).
Proof. exact dch_est_block_starts. Qed.
Print Assumptions c11_dch_est_block_starts_agree.

(* ... and the TCH / SACCH-T frames are exactly the layout's frames of TCHF / TCHH_s / SACCHT* *)
Theorem c11_dch_est_tch_frames_agree : forall r tn cur,
  In r c11_rows -> row_dedicated r = true -> r_mode r = Tch -> 0 <= tn < 8 -> tn_ok (r_tn r) tn = true -> 0 <= cur < 2715648 ->
  exists r' L, In r' c11_rows /\ r_cfg r' = trx_chan_nr2pchan (fw_task_chan_nr (r_task r) tn) /\ row_layout r' tn = Some L /\
    let fn := (cur + 2) mod 2715648 in
    fw_fires (r_task r) K_TCH false cur = trx_owns L DL (r_lchan r) fn /\
    fw_fires (r_task r) K_TCH false cur = trx_owns L UL (r_lchan r) fn /\
    fw_fires (r_task r) K_TCH_A true cur = trx_owns_opt L DL (r_sacch r) fn /\
    fw_fires (r_task r) K_TCH_A true cur = trx_owns_opt L UL (r_sacch r) fn /\
    fw_fires (r_task r) K_TCH_D false cur = trx_owns_opt L DL (other_subchan (r_lchan r)) fn /\
    fw_fires (r_task r) K_TCH_D false cur = trx_owns_opt L UL (other_subchan (r_lchan r)) fn.
Proof. exact dch_est_tch_frames. Qed.
Print Assumptions c11_dch_est_tch_frames_agree.
