(* C11 - firmware and trxcon agree on the multiframe mapping of every logical channel. Statements only.
   Vocabulary (Model/Mframe.v):
     c11_rows                 the specification table: firmware task <-> (trxcon channel combination, timeslots, lchan, SACCH lchan), 35 rows
     fw_fires task kind s cur the real-table model of mframe_schedule_set(): at current frame cur the firmware hands a TDMA sched set of
                              this kind (K_NB_DL/K_NB_UL 4-burst block, K_TCH/K_TCH_A/K_TCH_D one frame) with MF_F_SACCH = s to
                              tdma_schedule_set(); it is on air SCHEDULE_AHEAD = 2 frames later
     row_layout r tn          the layout the real-table model of l1sched_mframe_layout(combination, tn) selects
     trx_first L d c fn       frames[fn % period] of layout L gives channel c, burst id 0, in direction d;  trx_owns: channel c, any burst id
   Frame numbers: every current frame of the hyperframe, 0 <= cur < 2715648 (this contains every 51*26*8 = 10608 cycle and the
   wrap 2715647 -> 0); the frame on air is (cur + 2) mod 2715648. *)
From Coq Require Import ZArith List Bool.
From OBB Require Import Base.Range Gen.MframeFw Gen.MframeTrxcon Model.Mframe Proofs.MframeP.
Import ListNotations.
Open Scope Z_scope.

(* the literal constants the statements below rely on *)
Theorem c11_constants :
  fw_SCHEDULE_AHEAD = 2 /\ fw_SCHEDULE_LATENCY = 1 /\ fw_GSM_MAX_FN = 2715648 /\ fw_MF_F_SACCH = 1 /\ fw_NTASKS = 32 /\
  Z.of_nat (length fw_sched) = 32 /\ tx_L1SCHED_IDLE = 0 /\ tx_LID_SACCH = 64 /\
  desc_has_handler DL tx_L1SCHED_IDLE = false /\ desc_has_handler UL tx_L1SCHED_IDLE = false.
Proof. exact consts. Qed.
Print Assumptions c11_constants.

(* block channels (BCCH, CCCH plain/combined, SDCCH/4, SDCCH/8 with their SACCHs, CBCH, PDTCH): the firmware starts a downlink /
   uplink block exactly in the frames trxcon marks as burst 0 of that channel in that direction; for PDTCH the firmware is receive-only *)
Theorem c11_block_starts_agree : forall r tn cur,
  In r c11_rows -> r_mode r <> Tch -> 0 <= tn < 8 -> tn_ok (r_tn r) tn = true -> 0 <= cur < 2715648 ->
  exists L, row_layout r tn = Some L /\
    let fn := (cur + 2) mod 2715648 in
    fw_fires (r_task r) K_NB_DL false cur = trx_first L DL (r_lchan r) fn /\
    fw_fires (r_task r) K_NB_DL true cur = trx_first_opt L DL (r_sacch r) fn /\
    (r_mode r = Block ->
       fw_fires (r_task r) K_NB_UL false cur = trx_first L UL (r_lchan r) fn /\
       fw_fires (r_task r) K_NB_UL true cur = trx_first_opt L UL (r_sacch r) fn) /\
    (r_mode r = BlockDL ->
       fw_fires (r_task r) K_NB_UL false cur = false /\ fw_fires (r_task r) K_NB_UL true cur = false).
Proof. exact block_starts_agree. Qed.
Print Assumptions c11_block_starts_agree.

(* TCH/F (task by timeslot parity) and TCH/H sub-channels 0/1: frame by frame, downlink and uplink, the firmware schedules a traffic
   frame (TCH) exactly in the frames the layout gives to TCHF / TCHH_s, a SACCH frame (TCH_A, flag SACCH) exactly in the frames of
   SACCHTF / SACCHTH_s, and a dummy (TCH_D) exactly in the frames of the other TCH/H sub-channel (never on TCH/F) *)
Theorem c11_tch_frames_agree : forall r tn cur,
  In r c11_rows -> r_mode r = Tch -> 0 <= tn < 8 -> tn_ok (r_tn r) tn = true -> 0 <= cur < 2715648 ->
  exists L, row_layout r tn = Some L /\
    let fn := (cur + 2) mod 2715648 in
    fw_fires (r_task r) K_TCH false cur = trx_owns L DL (r_lchan r) fn /\
    fw_fires (r_task r) K_TCH false cur = trx_owns L UL (r_lchan r) fn /\
    fw_fires (r_task r) K_TCH_A true cur = trx_owns_opt L DL (r_sacch r) fn /\
    fw_fires (r_task r) K_TCH_A true cur = trx_owns_opt L UL (r_sacch r) fn /\
    fw_fires (r_task r) K_TCH_D false cur = trx_owns_opt L DL (other_subchan (r_lchan r)) fn /\
    fw_fires (r_task r) K_TCH_D false cur = trx_owns_opt L UL (other_subchan (r_lchan r)) fn.
Proof. exact tch_frames_agree. Qed.
Print Assumptions c11_tch_frames_agree.

(* nothing is left out of the two comparisons: every row of a mapped task's table is NB_DL/NB_UL with flags 0 or MF_F_SACCH
   (block rows; NB_DL without flags only for PDTCH), or TCH / TCH_A+MF_F_SACCH / TCH_D (TCH rows) *)
Theorem c11_rows_accounted : forall r, In r c11_rows -> chk_row_kinds r = true.
Proof. exact rows_accounted. Qed.
Print Assumptions c11_rows_accounted.

(* the table pairs the right things: for every row both stacks report the same RSL channel number -
   mframe_task2chan_nr(task, tn) = l1sched_lchan_desc[lchan].chan_nr | tn, link id 0x00, and the SACCH lchan has the same
   channel number with link id 0x40 *)
Theorem c11_rows_chan_nr : forall r tn, In r c11_rows -> 0 <= tn < 8 ->
  fw_task_chan_nr (r_task r) tn = Z.lor (desc_chan_nr (r_lchan r)) tn /\ desc_link_id (r_lchan r) = 0 /\
  (forall s, r_sacch r = Some s -> desc_chan_nr s = desc_chan_nr (r_lchan r) /\ desc_link_id s = 64).
Proof. exact rows_chan_nr. Qed.
Print Assumptions c11_rows_chan_nr.

(* burst ids: in every layout and direction, from a frame i owned by a channel c (not IDLE) to the next frame i+k owned by c
   (cyclically through the period) the burst id advances by one modulo the burst count of c
   (4; 2 for TCHH_0/TCHH_1; 1 for FCCH, SCH, RACH), and it is always below that count *)
Theorem c11_bids_cyclic : forall L d i k fr fr',
  In L tx_layouts -> ly_cfg L <> tx_GSM_PCHAN_NONE -> 0 <= i < ly_period L -> 1 <= k ->
  trx_frame L i = FrOk fr -> fr_chan d fr <> tx_L1SCHED_IDLE ->
  trx_frame L (i + k) = FrOk fr' -> fr_chan d fr' = fr_chan d fr ->
  (forall j frj, 1 <= j < k -> trx_frame L (i + j) = FrOk frj -> fr_chan d frj <> fr_chan d fr) ->
  0 <= fr_bid d fr < lchan_nbursts (fr_chan d fr) /\
  fr_bid d fr' = (fr_bid d fr + 1) mod lchan_nbursts (fr_chan d fr).
Proof. exact bids_cyclic. Qed.
Print Assumptions c11_bids_cyclic.

(* no frame lookup leaves the table: for every layout with frames (every combination but NONE) and every uint32 frame number,
   period > 0, fn % period is a row of the frames array, and both lookup sites (Tx: unsigned offset, Rx: uint8_t offset) read it *)
Theorem c11_lookup_in_table : forall L fn, In L tx_layouts -> ly_cfg L <> tx_GSM_PCHAN_NONE -> 0 <= fn < 4294967296 ->
  0 < ly_period L /\ 0 <= fn mod ly_period L < ly_nframes L /\
  exists fr, nth_error (ly_frames L) (Z.to_nat (fn mod ly_period L)) = Some fr /\ trx_frame L fn = FrOk fr /\ trx_frame_rx L fn = FrOk fr.
Proof. exact lookup_in_table. Qed.
Print Assumptions c11_lookup_in_table.

(* kept visible: the layout of GSM_PCHAN_NONE has period 0 and frames NULL; a lookup on it would divide by zero
   (no caller configures a timeslot with NONE: trxcon_fsm.c rejects it, l1ctl.c maps every CCCH mode to a CCCH combination) *)
Theorem c11_none_layout_divzero : forall L fn, In L tx_layouts -> ly_cfg L = tx_GSM_PCHAN_NONE -> trx_frame L fn = FrDivZero.
Proof. exact none_layout_divzero. Qed.
Print Assumptions c11_none_layout_divzero.

(* every channel a frame uses (everything but IDLE, which has no handler) is a valid lchan and is in the layout's lchan mask *)
Theorem c11_mask_covers : forall L fr d, In L tx_layouts -> In fr (ly_frames L) -> fr_chan d fr <> tx_L1SCHED_IDLE ->
  0 <= fr_chan d fr < tx_CHAN_MAX /\ fr_chan d fr < 64 /\ Z.testbit (ly_mask L) (fr_chan d fr) = true.
Proof. exact mask_covers. Qed.
Print Assumptions c11_mask_covers.

(* (combination, timeslot) lookup, all 128 x 8 pairs: for the nine combinations trxcon knows (c11_configs) the model of
   l1sched_mframe_layout() - which returns what the real function returned in the dumper - selects a layout of that combination
   whose slotmask contains tn; for every other combination it returns NULL *)
Theorem c11_layout_valid_for_tn : forall cfg tn, 0 <= cfg < 128 -> 0 <= tn < 8 ->
  (In cfg c11_configs ->
     exists li L, trx_layout cfg tn = Some li /\ trx_layout_real cfg tn = li /\ nth_error tx_layouts (Z.to_nat li) = Some L /\
                  ly_cfg L = cfg /\ Z.testbit (ly_slotmask L) tn = true) /\
  (~ In cfg c11_configs -> trx_layout cfg tn = None /\ trx_layout_real cfg tn = -1).
Proof. exact layout_valid_for_tn. Qed.
Print Assumptions c11_layout_valid_for_tn.

(* ... so it gets a channel state when the timeslot is configured: the model of l1sched_configure_ts() (one state per type of
   the 64-bit mask, compared with the real function for every combination and timeslot on every run) gives a state to every
   channel any frame of the layout uses, and to nothing outside the mask *)
Theorem c11_configured_has_state : forall L fr d, In L tx_layouts -> In fr (ly_frames L) -> fr_chan d fr <> tx_L1SCHED_IDLE ->
  In (fr_chan d fr) (trx_configured L).
Proof. exact configured_has_state. Qed.
Print Assumptions c11_configured_has_state.

Theorem c11_configured_only_mask : forall L c, In c (trx_configured L) -> 0 <= c < tx_CHAN_MAX /\ Z.testbit (ly_mask L) c = true.
Proof. exact configured_only_mask. Qed.
Print Assumptions c11_configured_only_mask.
