(* C14 - no datagram or capture content can crash the tools. Statements only. *)
From Coq Require Import ZArith List Bool.
From OBB Require Import Model.TrxIf Proofs.TrxIfP Proofs.TrxIfCtrlP.
From OBB Require Import Gen.FakeTrxConst Model.Trxd Model.Trx Proofs.TrxdTotal Proofs.TrxInv Proofs.TrxTick Proofs.TrxSession.
From OBB Require Import Model.Dump Proofs.DumpTotal.
Import ListNotations.
Open Scope Z_scope.

(* the message parser: whatever the octets, the result is a message or ValueError - never another exception (indexing, struct, attribute) *)
Theorem c14_parse_only_valueerror : forall octets, parse_tx octets <> Crash /\ parse_rx octets <> Crash.
Proof. exact (fun o => conj (parse_tx_total o) (parse_rx_total o)). Qed.
Print Assumptions c14_parse_only_valueerror.

(* a data datagram (any octets) is either enqueued (it parses, the version matches, the transceiver runs) or has no effect at all *)
Theorem c14_data_dropped_no_effect : forall t data, wf_trx t -> Forall (fun b => 0 <= b < 256) data ->
  let '(t', acc) := recv_data t data in
  wf_trx t' /\ (acc = false -> t' = t) /\
  (acc = true -> exists m, parse_tx (firstn (Z.to_nat data_recv_size) data) = Ok m /\ t_ver m = x_ver t /\ x_run t = true /\ t' = set_q t (x_q t ++ [m])).
Proof. exact recv_data_inv. Qed.
Print Assumptions c14_data_dropped_no_effect.

(* a control datagram (any octets, ASCII or not, any length): handle_rx returns normally and the world stays in the reachable region *)
Theorem c14_ctrl_total : forall w i data draws, wf_world w -> (i < length (w_trx w))%nat ->
  let '(w', out, _) := handle_rx w i data draws in wf_world w' /\ length (w_trx w') = length (w_trx w) /\ out <> RCrashed.
Proof. exact handle_rx_inv. Qed.
Print Assumptions c14_ctrl_total.

(* a command with an unparsable (non-numeric ...) argument is answered with an error status and changes nothing *)
Theorem c14_bad_argument_no_effect : forall w i req draws w' d', (i < length (w_trx w))%nat ->
  parse_cmd w i req draws = (w', CBadInt, d') -> w' = w /\ d' = draws.
Proof. exact bad_argument_no_effect. Qed.
Print Assumptions c14_bad_argument_no_effect.

(* the clock tick on any reachable world: no exception in the clock thread *)
Theorem c14_tick_total : forall w fn draws, wf_world w -> 0 <= fn ->
  let '(w', _, out) := tick w fn draws in o_crash out = false /\ wf_world w' /\ length (w_trx w') = length (w_trx w).
Proof. exact tick_ok. Qed.
Print Assumptions c14_tick_total.

(* "goes on serving": from the freshly started application (any configuration), NO history of control datagrams, data datagrams and
   clock ticks - hostile or not - ever crashes a handler or the clock thread; after every prefix the world is still reachable, so every
   later valid command and burst is served by the same theorems (C02 C03 C05 C10 C18) *)
Theorem c14_no_history_crashes : forall cfgs ops,
  let w0 := {| w_trx := map trx0 cfgs; w_links := []; w_gen := false |} in
  Forall (op_ok (length cfgs)) ops ->
  let '(w, _, crashed) := fold_left sstep ops (w0, [], false) in crashed = false /\ wf_world w /\ length (w_trx w) = length cfgs.
Proof. exact no_history_crashes. Qed.
Print Assumptions c14_no_history_crashes.

(* capture files: whatever octets the file holds, a full read, any skip/count read and any random access return normally (a list, a
   'range error' False or None) - no exception, and the read loop terminates *)
Theorem c14_dump_total : forall (f : list Z) (skip count : option Z) (idx : Z),
  parse_all f skip count <> Crash /\ parse_all f skip count <> VErr /\ parse_all f skip count <> Ok POutOfFuel /\
  Dump.parse_msg f idx <> Crash /\ Dump.parse_msg f idx <> VErr.
Proof. exact dump_total. Qed.
Print Assumptions c14_dump_total.

(* trxcon, TRXD socket: no datagram makes trx_data_rx_cb read outside its buffer *)
Theorem c14_c_data_safe : forall d, c_data_rx d <> RxOOB.
Proof. exact c_data_rx_safe. Qed.
Print Assumptions c14_c_data_safe.

(* trxcon, TRXC socket: no datagram, with or without a pending command, makes trx_ctrl_read_cb dereference NULL, read outside the
   received octets or use an uninitialised value *)
Theorem c14_c_ctrl_safe : forall pending d, cr_unsafe (c_ctrl_rsp pending d) = false.
Proof. exact c_ctrl_rsp_safe. Qed.
Print Assumptions c14_c_ctrl_safe.

(* a refused command - negative status, whatever the verb and the arguments - changes nothing at all: not the addressed
   transceiver, not any other, not the pending random draws (checked on the implementation after every refused or ignored
   control datagram of every session: state digest before = state digest after) *)
Theorem c14_refused_no_effect : forall w i req draws w' rc ex d', (i < length (w_trx w))%nat ->
  parse_cmd w i req draws = (w', CStatus rc ex, d') -> rc < 0 -> w' = w /\ d' = draws.
Proof. exact refused_no_effect. Qed.
Print Assumptions c14_refused_no_effect.

(* huge arguments: the artificial reply delay (FAKE_TRXC_DELAY <ms>; CTRLInterface.send_response sleeps rsp_delay_ms / 1000 s before EVERY
   later reply) is the one integer argument that reaches a call with a bounded domain - time.sleep() raises OverflowError above
   2^63-1 ns.  The sleep is part of the model's handle_rx (a delay that overflows it is the crash outcome RCrashed, so c14_ctrl_total and
   c14_no_history_crashes above cover it); here the handler's side: every value beyond the last one time.sleep() takes is refused with
   -1 and changes nothing, every accepted value is stored and can be slept, and 9223372036854 ms is exactly the boundary *)
Theorem c14_delay_beyond_sleep_refused : forall s a, 9223372036854 < a ->
  fake_handler s [v_FAKE_TRXC_DELAY; py_str a] = (s, Some (CStatus (-1) [])).
Proof. exact delay_too_long_refused. Qed.
Print Assumptions c14_delay_beyond_sleep_refused.

Theorem c14_delay_accepted_sleepable : forall s a, a <= 9223372036854 ->
  s_delay (fst (fake_handler s [v_FAKE_TRXC_DELAY; py_str a])) = a /\ snd (fake_handler s [v_FAKE_TRXC_DELAY; py_str a]) = None /\ sleep_overflows a = false.
Proof. exact delay_accepted_sleepable. Qed.
Print Assumptions c14_delay_accepted_sleepable.

Theorem c14_sleep_boundary : forall ms, sleep_overflows ms = true <-> 9223372036855 <= ms.
Proof. exact sleep_boundary. Qed.
Print Assumptions c14_sleep_boundary.

(* on every reachable world the reply to a command is sent, whatever delay earlier commands left behind *)
Theorem c14_reply_sent_after_delay : forall w' i b, wf_world w' ->
  match nth_error (w_trx w') i with
  | Some t' => if sleep_overflows (s_delay (x_sim t')) then RCrashed else RReply b
  | None => RReply b end = RReply b.
Proof. exact send_reply. Qed.
Print Assumptions c14_reply_sent_after_delay.

(* trxcon, TRXD socket, what goes UP: whatever octets arrive, a burst indication handed to the scheduler carries a timeslot 0..7, a frame
   number inside the hyperframe and exactly 148 or 444 soft bits in -127..127 - never more than the scheduler's 444-entry burst array
   holds (trxcon asserts on a longer burst and aborts) *)
Theorem c14_c_data_indication_shape : forall d tn fn rssi toa bits, Forall (fun b => 0 <= b < 256) d -> c_data_rx d = RxInd tn fn rssi toa bits ->
  0 <= tn <= 7 /\ 0 <= fn < 2715648 /\ -128 <= rssi <= 127 /\ -32768 <= toa <= 32767
  /\ (length bits = 148%nat \/ length bits = 444%nat) /\ Forall (fun s => -127 <= s <= 127) bits.
Proof. exact c_data_rx_ind_shape. Qed.
Print Assumptions c14_c_data_indication_shape.
