(* C19 - GSM time arithmetic is consistent across the code base. Statements only. *)
From Coq Require Import ZArith List.
From OBB Require Import Gen.GsmTimeConst Gen.GsmTimeSites Model.GsmTime Model.GsmTimeRun Proofs.GsmTimeP Proofs.GsmTimeRunP.
Import ListNotations.
Open Scope Z_scope.

(* the modulus both languages use is the hyperframe *)
Theorem c19_constants : c_GSM_MAX_FN = 2715648 /\ py_GSM_HYPERFRAME = 2715648.
Proof. exact (conj const_c const_py). Qed.
Print Assumptions c19_constants.

(* decomposition then recomposition gives back the frame number, for every FN of the hyperframe *)
Theorem c19_roundtrip : forall fn, 0 <= fn < 2715648 -> gsmtime2fn (fn2gsmtime fn) = fn.
Proof. exact roundtrip. Qed.
Print Assumptions c19_roundtrip.

(* the C decomposition is the arithmetic one (T1, T2, T3, TC) *)
Theorem c19_decomp : forall fn, 0 <= fn < 2715648 -> fn2gsmtime fn = decomp fn.
Proof. exact fn2gsmtime_decomp. Qed.
Print Assumptions c19_decomp.

(* stepping the running time by ANY delta 1..2715648 keeps every component equal to the
   decomposition of the new frame number, including the wrap 2715647 -> 0 *)
Theorem c19_inc : forall fn d, 0 <= fn < 2715648 -> 1 <= d <= 2715648 ->
  time_inc (decomp fn) d = decomp ((fn + d) mod 2715648).
Proof. exact incd. Qed.
Print Assumptions c19_inc.

(* Python derives the same T1, T2, T3 (and TC) as the C code *)
Theorem c19_py_eq_c : forall fn, 0 <= fn < 2715648 ->
  py_fn2gsm_time fn = (g_t1 (fn2gsmtime fn), g_t2 (fn2gsmtime fn), g_t3 (fn2gsmtime fn), g_tc (fn2gsmtime fn)).
Proof. exact py_eq_c. Qed.
Print Assumptions c19_py_eq_c.

(* ======================================================================================================================
   Second part: the firmware's RUNNING GSM time (l1s.current_time / l1s.next_time, Model/GsmTimeRun.v) and every call site
   of the arithmetic in src/target/firmware/layer1 (Gen/GsmTimeSites.v, translated from the source text on every run).
   decomp fn = (fn, fn / 1326, fn mod 26, fn mod 51, (fn / 51) mod 8). *)

(* the constants of synchronize_tdma() / l1s_sbdet_resp() as compiled and the C widths of the fields
   (fn 4, t1 2, t2 t3 tc 1 octets; cinfo->fn_offset 4 octets signed; time_alignment and tpu_offset 4 octets) *)
Theorem c19_run_constants :
  c_QBITS_PER_TDMA = 5000 /\ c_SWITCH_TIME = 4990 /\ c_SB2_LATENCY = 2 /\ c_widths = [4; 2; 1; 1; 1; 4; 1; 4; 4].
Proof. exact run_consts. Qed.
Print Assumptions c19_run_constants.

(* the invariant, spelled out: both times are exact decompositions of frame numbers of the hyperframe
   and next_time is the frame after current_time (modulo the hyperframe) *)
Theorem c19_run_timeok_means : forall st, TimeOK st <->
  (0 <= g_fn (cur st) < 2715648 /\
   g_t1 (cur st) = g_fn (cur st) / 1326 /\ g_t2 (cur st) = g_fn (cur st) mod 26 /\ g_t3 (cur st) = g_fn (cur st) mod 51 /\
   g_tc (cur st) = (g_fn (cur st) / 51) mod 8) /\
  (0 <= g_fn (nxt st) < 2715648 /\
   g_t1 (nxt st) = g_fn (nxt st) / 1326 /\ g_t2 (nxt st) = g_fn (nxt st) mod 26 /\ g_t3 (nxt st) = g_fn (nxt st) mod 51 /\
   g_tc (nxt st) = (g_fn (nxt st) / 51) mod 8) /\
  g_fn (nxt st) = (g_fn (cur st) + 1) mod 2715648.
Proof. exact timeok_means. Qed.
Print Assumptions c19_run_timeok_means.

(* start: l1s lives in .bss and nothing in sync.c initialises the two times, so both are frame 0: the invariant does NOT hold
   before the first frame interrupt (next_time is not current_time + 1) ... *)
Theorem c19_run_boot_refuted : ~ TimeOK boot.
Proof. exact boot_not_ok. Qed.
Print Assumptions c19_run_boot_refuted.

(* ... but it holds from the first frame interrupt on: whenever next_time is a frame, one interrupt establishes the invariant
   and announces exactly that frame *)
Theorem c19_run_irq_establishes : forall st,
  (0 <= g_fn (nxt st) < 2715648 /\ nxt st = decomp (g_fn (nxt st))) ->
  TimeOK (frame_irq st) /\ cur (frame_irq st) = nxt st.
Proof. exact frame_irq_ok. Qed.
Print Assumptions c19_run_irq_establishes.

(* frame interrupt, EVERY state of the invariant: preserved, and the new current frame is the old one plus one modulo the
   hyperframe - no frame is skipped or repeated, including 2715647 -> 0 *)
Theorem c19_run_irq : forall st, TimeOK st ->
  TimeOK (frame_irq st) /\ g_fn (cur (frame_irq st)) = (g_fn (cur st) + 1) mod 2715648.
Proof. exact frame_irq_next. Qed.
Print Assumptions c19_run_irq.

Theorem c19_run_irq_n : forall n st, TimeOK st ->
  TimeOK (irq_n n st) /\ g_fn (cur (irq_n n st)) = (g_fn (cur st) + Z.of_nat n) mod 2715648.
Proof. exact irq_n_ok. Qed.
Print Assumptions c19_run_irq_n.

(* the TPU shift that selects the compensation branch, with the real QBITS_PER_TDMA / SWITCH_TIME *)
Theorem c19_run_sync_shift : forall st ta, 0 <= tpu st -> 0 <= ta ->
  sync_shift st ta = ((tpu st + (ta + 75) mod 4294967296) mod 4294967296) mod 5000.
Proof. exact sync_shift_val. Qed.
Print Assumptions c19_run_sync_shift.

(* synchronize_tdma, every state whose current_time is a frame, every time_alignment / tpu_offset, every fn_offset that is an
   int32_t other than INT32_MIN (fn_offset - 1 would overflow) and for which 0 <= old FN + (fn_offset - 1 (+1)) < 2 * 2715648:
   the invariant holds afterwards and the new current frame is old + fn_offset - 1 (+ 1 in the compensation branch) mod 2715648.
   (The int32_t offset reaches l1s_time_inc as uint32_t: a negative total offset is right as long as it does not go below frame 0.) *)
Theorem c19_run_sync : forall st fo ta,
  (0 <= g_fn (cur st) < 2715648 /\ cur st = decomp (g_fn (cur st))) -> -2147483648 < fo <= 2147483647 ->
  0 <= g_fn (cur st) + (fo - 1 + (if sync_shift st ta <? 4990 then 1 else 0)) < 2 * 2715648 ->
  TimeOK (sync_tdma st fo ta) /\
  g_fn (cur (sync_tdma st fo ta)) = (g_fn (cur st) + (fo - 1 + (if sync_shift st ta <? 4990 then 1 else 0))) mod 2715648 /\
  tpu (sync_tdma st fo ta) = sync_shift st ta.
Proof. exact sync_ok. Qed.
Print Assumptions c19_run_sync.

(* in particular for every fn_offset 1 .. 2715648, whatever the state *)
Theorem c19_run_sync_positive : forall st fo ta,
  (0 <= g_fn (cur st) < 2715648 /\ cur st = decomp (g_fn (cur st))) -> 1 <= fo <= 2715648 ->
  TimeOK (sync_tdma st fo ta) /\
  g_fn (cur (sync_tdma st fo ta)) = (g_fn (cur st) + (fo - 1 + (if sync_shift st ta <? 4990 then 1 else 0))) mod 2715648.
Proof. exact sync_ok_pos. Qed.
Print Assumptions c19_run_sync_positive.

(* the range is exact: outside it the new frame number is not the intended one ... *)
Theorem c19_run_sync_range_exact : forall st fo ta,
  (0 <= g_fn (cur st) < 2715648 /\ cur st = decomp (g_fn (cur st))) -> -2147483648 < fo <= 2147483647 ->
  ~ (0 <= g_fn (cur st) + (fo - 1 + (if sync_shift st ta <? 4990 then 1 else 0)) < 2 * 2715648) ->
  g_fn (cur (sync_tdma st fo ta)) <> (g_fn (cur st) + (fo - 1 + (if sync_shift st ta <? 4990 then 1 else 0))) mod 2715648.
Proof. exact sync_wrong. Qed.
Print Assumptions c19_run_sync_range_exact.

(* ... witness: current frame 0, fn_offset 0, no compensation frame (TPU shift 4990): the running time becomes FN 4292251647, T1 25728 *)
Theorem c19_run_sync_refuted :
  let st := {| cur := decomp 0; nxt := decomp 1; tpu := 0 |} in
  TimeOK st /\ sync_shift st 4915 = 4990 /\ gt_obs (cur (sync_tdma st 0 4915)) = [4292251647; 25728; 21; 0; 5].
Proof. exact sync_refuted. Qed.
Print Assumptions c19_run_sync_refuted.

(* prim_fbsb.c l1s_decode_sb: the fields of the burst word are in range, and a word whose (T1, T2, T3') names an SCH frame
   (T2 < 26, T3' <= 4) decodes to exactly that frame, which lies at least 10 frames before the end of the hyperframe *)
Theorem c19_run_sb_fields : forall sb, 0 <= sb_t1 sb < 2048 /\ 0 <= sb_t2 sb < 32 /\ 0 <= sb_t3p sb < 8.
Proof. exact sb_fields_range. Qed.
Print Assumptions c19_run_sb_fields.

Theorem c19_run_decode_sb : forall sb, sb_t2 sb < 26 -> sb_t3p sb <= 4 ->
  (0 <= g_fn (decode_sb sb) < 2715648 /\ decode_sb sb = decomp (g_fn (decode_sb sb))) /\
  g_t1 (decode_sb sb) = sb_t1 sb /\ g_t2 (decode_sb sb) = sb_t2 sb /\ g_t3 (decode_sb sb) = 10 * sb_t3p sb + 1 /\
  g_fn (decode_sb sb) <= 2715638.
Proof. exact decode_sb_ok. Qed.
Print Assumptions c19_run_decode_sb.

(* prim_fbsb.c l1s_sbdet_resp re-initialisation, every state, every uint32_t frame number of the burst for which + SB2_LATENCY does not
   wrap: the invariant holds and the current frame is that of the burst + SB2_LATENCY modulo the hyperframe *)
Theorem c19_run_fbsb : forall st m, 0 <= m < 4294967294 ->
  TimeOK (fbsb_reinit st m) /\ g_fn (cur (fbsb_reinit st m)) = (m + 2) mod 2715648 /\ tpu (fbsb_reinit st m) = tpu st.
Proof. exact fbsb_ok. Qed.
Print Assumptions c19_run_fbsb.

(* every burst word, also one outside the coding, decodes to a frame number in that range *)
Theorem c19_run_decode_sb_any : forall sb, 0 <= g_fn (decode_sb sb) < 4294967294.
Proof. exact decode_sb_small. Qed.
Print Assumptions c19_run_decode_sb_any.

(* every reachable running time is consistent: any sequence of frame interrupts (runs of any length), re-synchronisations with
   fn_offset 1 .. 2715648 (any time alignment), re-initialisations from ANY burst word or any frame number below 2^32 - 2
   keeps the invariant - from any state of the invariant, and from the .bss start state as soon as
   the first operation is not an empty run of interrupts *)
Theorem c19_run_history : forall ops st, TimeOK st ->
  Forall (fun o => match o with
                   | OIrq _ => True
                   | OSync fo _ => 1 <= fo <= 2715648
                   | OFbsb m => 0 <= m < 4294967294
                   | OSb sb => True
                   | ORaw s => TimeOK s
                   end) ops ->
  TimeOK (fold_left step ops st).
Proof. exact run_ok. Qed.
Print Assumptions c19_run_history.

Theorem c19_run_history_boot : forall o ops, o <> OIrq O ->
  Forall (fun o => match o with
                   | OIrq _ => True
                   | OSync fo _ => 1 <= fo <= 2715648
                   | OFbsb m => 0 <= m < 4294967294
                   | OSb sb => True
                   | ORaw s => TimeOK s
                   end) (o :: ops) ->
  TimeOK (fold_left step (o :: ops) boot).
Proof. exact run_boot. Qed.
Print Assumptions c19_run_history_boot.

(* ---- call sites. v = l1s.current_time.fn (fbs.mon.time.fn for prim_fbsb), aux = the second variable where there is one *)

(* prim_tch.c (two sites)  (l1s.current_time.fn - 1 + GSM_MAX_FN) % GSM_MAX_FN : for EVERY current frame the argument is the
   previous frame modulo the hyperframe and gsm_fn2gsmtime gives that frame's time *)
Theorem c19_site_tch_1 : forall v aux, 0 <= v < 2715648 ->
  site_prim_tch_1 v aux = (v - 1) mod 2715648 /\ fn2gsmtime (site_prim_tch_1 v aux) = decomp ((v - 1) mod 2715648).
Proof. exact site_tch_1. Qed.
Print Assumptions c19_site_tch_1.

Theorem c19_site_tch_2 : forall v aux, 0 <= v < 2715648 ->
  site_prim_tch_2 v aux = (v - 1) mod 2715648 /\ fn2gsmtime (site_prim_tch_2 v aux) = decomp ((v - 1) mod 2715648).
Proof. exact site_tch_2. Qed.
Print Assumptions c19_site_tch_2.

(* prim_rx_nb.c  (l1s.current_time.fn - 1 + GSM_MAX_FN) % GSM_MAX_FN : every current frame *)
Theorem c19_site_rx_nb_1 : forall v aux, 0 <= v < 2715648 ->
  site_prim_rx_nb_1 v aux = (v - 1) mod 2715648 /\ fn2gsmtime (site_prim_rx_nb_1 v aux) = decomp ((v - 1) mod 2715648).
Proof. exact site_rx_nb_1. Qed.
Print Assumptions c19_site_rx_nb_1.

(* prim_rx_nb.c  (l1s.current_time.fn - 4 + GSM_MAX_FN) % GSM_MAX_FN : every current frame *)
Theorem c19_site_rx_nb_2 : forall v aux, 0 <= v < 2715648 ->
  site_prim_rx_nb_2 v aux = (v - 4) mod 2715648 /\ fn2gsmtime (site_prim_rx_nb_2 v aux) = decomp ((v - 4) mod 2715648).
Proof. exact site_rx_nb_2. Qed.
Print Assumptions c19_site_rx_nb_2.

(* prim_fbsb.c  (fbs.mon.time.fn + SB2_LATENCY) % GSM_MAX_FN : every uint32_t frame number for which the addition does not wrap *)
Theorem c19_site_fbsb : forall m aux, 0 <= m < 4294967294 ->
  site_prim_fbsb_1 m aux = (m + 2) mod 2715648 /\ fn2gsmtime (site_prim_fbsb_1 m aux) = decomp ((m + 2) mod 2715648).
Proof. exact site_fbsb_1. Qed.
Print Assumptions c19_site_fbsb.

(* prim_rach.c  fn_sched = l1s.current_time.fn + offset; fn_sched %= GSM_MAX_FN  (offset uint16_t): every frame, every offset *)
Theorem c19_site_rach : forall v aux, 0 <= v < 2715648 -> 0 <= aux < 65536 ->
  site_prim_rach_1 v aux = (v + aux) mod 2715648.
Proof. exact site_rach_1. Qed.
Print Assumptions c19_site_rach.

(* prim_freq.c  fn_sched = l1s.current_time.fn + diff; if (fn_sched >= GSM_MAX_FN) fn_sched -= GSM_MAX_FN : every frame, diff 0 .. 2715648 *)
Theorem c19_site_freq : forall v aux, 0 <= v < 2715648 -> 0 <= aux <= 2715648 ->
  site_prim_freq_1 v aux = (v + aux) mod 2715648.
Proof. exact site_freq_1. Qed.
Print Assumptions c19_site_freq.
