(* C19 - GSM time arithmetic is consistent across the code base. Statements only. *)
From Coq Require Import ZArith.
From OBB Require Import Gen.GsmTimeConst Model.GsmTime Proofs.GsmTimeP.
Open Scope Z_scope.

(* the modulus both languages use is the hyperframe *)
Theorem c19_constants : c_GSM_MAX_FN = 2715648 /\ py_GSM_HYPERFRAME = 2715648.
Proof. exact (conj const_c const_py). Qed.
Print Assumptions c19_constants.

(* decomposition then recomposition gives back the frame number, for every FN of the hyperframe *)
Theorem c19_roundtrip : forall fn, 0 <= fn < 2715648 -> gsmtime2fn (fn2gsmtime fn) = fn.
Proof. exact roundtrip. Qed.
Print Assumptions c19_roundtrip.

(* the C decomposition is the arithmetic one (T1, T2, T3, TC) *)
Theorem c19_decomp : forall fn, 0 <= fn < 2715648 -> fn2gsmtime fn = decomp fn.
Proof. exact fn2gsmtime_decomp. Qed.
Print Assumptions c19_decomp.

(* stepping the running time by ANY delta 1..2715648 keeps every component equal to the
   decomposition of the new frame number, including the wrap 2715647 -> 0 *)
Theorem c19_inc : forall fn d, 0 <= fn < 2715648 -> 1 <= d <= 2715648 ->
  time_inc (decomp fn) d = decomp ((fn + d) mod 2715648).
Proof. exact incd. Qed.
Print Assumptions c19_inc.

(* Python derives the same T1, T2, T3 (and TC) as the C code *)
Theorem c19_py_eq_c : forall fn, 0 <= fn < 2715648 ->
  py_fn2gsm_time fn = (g_t1 (fn2gsmtime fn), g_t2 (fn2gsmtime fn), g_t3 (fn2gsmtime fn), g_tc (fn2gsmtime fn)).
Proof. exact py_eq_c. Qed.
Print Assumptions c19_py_eq_c.
