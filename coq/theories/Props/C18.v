(* C18 - burst-loss simulation drops exactly the requested bursts. Statements only. *)
From Coq Require Import ZArith List Bool.
From OBB Require Import Base.Dec Gen.TrxdConst Gen.FakeTrxConst Model.Trxd Model.Trx
  Proofs.TrxDrop Proofs.TrxMeta Proofs.TrxDropStream.
Import ListNotations.
Open Scope Z_scope.

(* 'CMD FAKE_DROP n' / 'CMD FAKE_DROP n p' (decimal arguments): negative amounts and non-positive periods are answered -1 and
   change nothing; otherwise status 0, the counter is n and the period p (1 when absent); no other parameter changes *)
Theorem c18_fake_drop_args : forall s n p,
  fake_handler s [v_FAKE_DROP; py_str n; py_str p] =
    (if (n <? 0) || (p <=? 0) then (s, Some (CStatus (-1) []))
     else (sim_set s (s_muted s) (s_fake_rssi s) (s_txp s) (s_att s) (s_toa s) (s_toa_thr s) (s_rssi s) (s_rssi_thr s) (s_ci s) (s_ci_thr s) (s_ta s) n p (s_delay s),
           Some (CStatus 0 [])))
  /\ fake_handler s [v_FAKE_DROP; py_str n] =
    (if n <? 0 then (s, Some (CStatus (-1) []))
     else (sim_set s (s_muted s) (s_fake_rssi s) (s_txp s) (s_att s) (s_toa s) (s_toa_thr s) (s_rssi s) (s_rssi_thr s) (s_ci s) (s_ci_thr s) (s_ta s) n 1 (s_delay s),
           Some (CStatus 0 []))).
Proof. exact (fun s n p => conj (fake_drop2 s n p) (fake_drop1 s n)). Qed.
Print Assumptions c18_fake_drop_args.

(* the counter/filter: with n = remaining amount and p = period, burst k of ANY stream of frame numbers is suppressed iff
   its frame number is a multiple of p and fewer than n such bursts came before it; afterwards n - (number of multiples) remain *)
Theorem c18_exact_drops : forall fns s, 0 <= s_drop s ->
  length (fst (drop_stream s fns)) = length fns /\
  (forall k, (k < length fns)%nat ->
     nth k (fst (drop_stream s fns)) false = ((nth k fns 0 mod s_period s =? 0) && (Z.of_nat (hits (s_period s) (firstn k fns)) <? s_drop s))) /\
  s_drop (snd (drop_stream s fns)) = Z.max 0 (s_drop s - Z.of_nat (hits (s_period s) fns)) /\ s_period (snd (drop_stream s fns)) = s_period s.
Proof. exact drop_stream_spec. Qed.
Print Assumptions c18_exact_drops.

(* a receiving transceiver (not muted, reachable simulation parameters) handling any stream of bursts: the bursts that do not reach
   its L1 as a burst are exactly those the counter/filter selects, the state advances accordingly, nothing crashes *)
Theorem c18_stream : forall ms dst src ver draws,
  sim_ok dst -> s_muted dst = false -> Forall (fun m => t_burst m <> None) ms ->
  let '(ds, dst', _) := handle_stream dst src ver ms draws in
  map suppressed ds = fst (drop_stream dst (map (fun m => oz (t_fn m)) ms))
  /\ dst' = snd (drop_stream dst (map (fun m => oz (t_fn m)) ms)) /\ ~ In DCrash ds.
Proof. exact stream_drops. Qed.
Print Assumptions c18_stream.

(* a suppressed burst (receiver muted, sender muted i.e. no burst bits, or selected by FAKE_DROP): nothing at all for a version-0
   recipient, otherwise the NOPE indication is what is handed to send_msg; mute does not consume the FAKE_DROP counter *)
Theorem c18_suppressed_shape : forall dst src sm msg draws,
  (s_muted dst = true \/ r_nope msg = true ->
     handle_data dst src sm msg draws = (dst, if r_ver msg <? 1 then Silent None else send_out false (nope_msg msg), draws)) /\
  (s_muted dst = false -> r_nope msg = false -> fst (sim_drop dst (oz (r_fn msg))) = true ->
     handle_data dst src sm msg draws =
       (snd (sim_drop dst (oz (r_fn msg))), if r_ver msg <? 1 then Silent None else send_out false (nope_msg msg), draws)).
Proof. exact (fun dst src sm msg draws => conj (handle_suppressed dst src sm msg draws) (handle_dropped dst src sm msg draws)). Qed.
Print Assumptions c18_suppressed_shape.

(* the NOPE indication: exactly one datagram; it parses to NOPE, no burst bits, RSSI -110, ToA256 0, C/I -30, same FN and TN *)
Theorem c18_nope_shape : forall msg, r_ver msg = 1 ->
  (exists f, r_fn msg = Some f /\ 0 <= f <= 2715647) -> (exists t, r_tn msg = Some t /\ 0 <= t <= 7) ->
  exists b, send_out false (nope_msg msg) = Sent b (nope_msg msg) /\
    exists m', parse_rx b = Ok m' /\ r_nope m' = true /\ r_burst m' = None /\ r_rssi m' = Some (-110) /\ r_toa m' = Some 0 /\ r_ci m' = Some (-30)
               /\ r_fn m' = r_fn msg /\ r_tn m' = r_tn msg /\ r_ver m' = 1.
Proof. exact nope_sent. Qed.
Print Assumptions c18_nope_shape.

(* RF mute on the receiving side: every burst of any stream is suppressed, state and counter untouched; version 0: nothing emitted *)
Theorem c18_mute_all : forall ms dst src ver draws, s_muted dst = true ->
  let '(ds, dst', dr') := handle_stream dst src ver ms draws in
  dst' = dst /\ dr' = draws /\ Forall (fun d => suppressed d = true \/ d = DCrash) ds
  /\ (ver = 0 -> ds = map (fun _ => Silent None) ms).
Proof. exact stream_muted. Qed.
Print Assumptions c18_mute_all.
