(* C13 - validation accepts exactly the protocol value ranges; nothing invalid is sent. Statements only. *)
From Coq Require Import ZArith List.
From OBB Require Import Gen.TrxdConst Model.Trxd Proofs.TrxdBase Proofs.TrxdTx Proofs.TrxdRx Proofs.TrxdRxRT.
Import ListNotations.
Open Scope Z_scope.

(* Tx: validate() passes iff  ver in {0,1}, FN 0..2715647, TN 0..7, attenuation 0..255, burst of 148 or 444 (spec_tx, literal numbers) *)
Theorem c13_validate_tx_iff_spec : forall m, validate_tx m = Ok tt <-> spec_tx m.
Proof. exact validate_tx_iff. Qed.
Print Assumptions c13_validate_tx_iff_spec.

(* Rx: validate() passes iff ver, FN, TN as above, RSSI -120..-47, ToA256 in int16, and for version 1: C/I -1280..1280,
   (unless NOPE) a modulation, TSC 0..7, TSC set 0..3 for GMSK / 0..1 otherwise, burst length = the modulation's,
   NOPE carries no burst; for version 0: burst length 148 or 444 (spec_rx, literal numbers) *)
Theorem c13_validate_rx_iff_spec : forall m, validate_rx m = Ok tt <-> spec_rx m.
Proof. exact validate_rx_iff. Qed.
Print Assumptions c13_validate_rx_iff_spec.

(* validation signals only ValueError *)
Theorem c13_validate_only_valueerror : forall mt mr,
  (validate_tx mt = Ok tt \/ validate_tx mt = VErr) /\ (validate_rx mr = Ok tt \/ validate_rx mr = VErr).
Proof. exact (fun mt mr => conj (validate_tx_cases mt) (validate_rx_cases mr)). Qed.
Print Assumptions c13_validate_only_valueerror.

(* encoding is refused (ValueError) for exactly the messages that do not validate *)
Theorem c13_gen_refuses_exactly : forall mt mr l,
  ((exists b, gen_tx l mt = Ok b) <-> validate_tx mt = Ok tt) /\ ((exists b, gen_tx l mt = Ok b) \/ gen_tx l mt = VErr) /\
  ((exists b, gen_rx l mr = Ok b) <-> validate_rx mr = Ok tt) /\ ((exists b, gen_rx l mr = Ok b) \/ gen_rx l mr = VErr).
Proof. exact (fun mt mr l => conj (gen_tx_iff mt l) (conj (gen_tx_cases mt l) (conj (gen_rx_iff mr l) (gen_rx_cases mr l)))). Qed.
Print Assumptions c13_gen_refuses_exactly.

(* sending: exactly one datagram iff the message validates, otherwise no datagram at all *)
Theorem c13_send_emits_iff : forall mt mr l,
  ((exists b, send_tx l mt = Ok [b]) <-> validate_tx mt = Ok tt) /\ (validate_tx mt <> Ok tt -> send_tx l mt = Ok []) /\
  ((exists b, send_rx l mr = Ok [b]) <-> validate_rx mr = Ok tt) /\ (validate_rx mr <> Ok tt -> send_rx l mr = Ok []).
Proof. exact (fun mt mr l => conj (send_tx_iff mt l) (conj (send_tx_none mt l) (conj (send_rx_iff mr l) (send_rx_none mr l)))). Qed.
Print Assumptions c13_send_emits_iff.
