(* C09 - clock source: consecutive frame numbers, one per tick, indications, no accumulated drift, resynchronisation, restart.
   Statements only.  Vocabulary (Model/Clock.v, mirrors trx_toolkit/clck_gen.py):
     worker c start t0 ins e_stop   one start() .. stop() period of CLCKGen whose thread starts at virtual time t0 (ns);
                                    ins = one record per completed loop iteration ("tick"):
                                      i_e  ns between the two clock reads of the overrun branch,
                                      i_j  oversleep of _breaker.wait() beyond its timeout (0 = ideal wait),
                                      i_d  ns spent in the clock handler;
                                    after the last record the breaker is set and the next wait returns True.
     r_obs r                        per tick: o_over (overrun branch taken), o_deadline (t_next after the update = instant the
                                    wait was asked to end), o_fn / o_time (clck_src and virtual time when send_clck_ind is
                                    entered = the arguments/time of the handler call), o_sends (link index, octets), o_called.
     c = {| tick; hyper; period; nlinks; handler |}   t_tick of _worker (ns), GSM_HYPERFRAME, ind_period, number of links, handler attached.
   tick is universally quantified; the value the implementation computes is c_tick (Gen), bounded in c09_constants.
   hyper is c_hyperframe (Gen, read from the imported module); the conclusions state 2715648 literally. *)
From Coq Require Import ZArith List Bool.
From OBB Require Import Gen.ClockConst Model.Clock Proofs.ClockP.
Import ListNotations.
Open Scope Z_scope.

(* the constants of the source: hyperframe 2715648 (both the name clck_gen uses and gsm_shared's), the tick the real worker
   exhibits is one TDMA frame period 4.615 ms: |tick - 4 615 000 ns| <= 1000 ns.  Tolerance: the property names the period to
   four digits (4.615 ms); 1 us covers the float floor-division artefact of `int(ctr_interval // 1e-9)` (4 614 999) and the
   exact frame length 120/26 ms = 4 615 384.6 ns, and is 2.2e-4 of a frame - a wrong unit or a wrong constant is off by >= 1000x that.
   The first tick comes one tick after the start.  Defaults: ind_period 102, clck_start 0. *)
Theorem c09_constants :
  c_hyperframe = 2715648 /\ c_hyperframe_shared = 2715648 /\
  0 < c_tick /\ Z.abs (c_tick - 4615000) <= 1000 /\ c_first_tick = c_tick /\
  c_default_period = 102 /\ c_default_start = 0.
Proof. exact (conj (proj1 const_hyper) (conj (proj2 const_hyper) (conj (proj1 const_tick) (conj (proj1 (proj2 const_tick)) (conj (proj2 (proj2 const_tick)) const_defaults))))). Qed.
Print Assumptions c09_constants.

(* once per tick, consecutive modulo the hyperframe from the configured start: the worker does not die, makes exactly one
   send_clck_ind per completed wait, calls the handler iff one is attached, and the k-th call gets (start + k) mod 2715648 -
   for every tick length, period <> 0, link count, timing input and start frame of the hyperframe (2715647 included) *)
Theorem c09_fn_sequence : forall tk per nl h start t0 ins e_stop, per <> 0 -> 0 <= start < 2715648 ->
  let r := worker {| tick := tk; hyper := c_hyperframe; period := per; nlinks := nl; handler := h |} start t0 ins e_stop in
  r_crashed r = false /\ length (r_obs r) = length ins /\
  forall k o, nth_error (r_obs r) k = Some o -> o_called o = h /\ o_fn o = (start + Z.of_nat k) mod 2715648.
Proof. exact fn_sequence. Qed.
Print Assumptions c09_fn_sequence.

(* what the code does for ANY integer clck_start: the first call gets clck_start itself (not reduced), all later ones are reduced *)
Theorem c09_fn_sequence_any_start : forall tk per nl h start t0 ins e_stop, per <> 0 ->
  let r := worker {| tick := tk; hyper := c_hyperframe; period := per; nlinks := nl; handler := h |} start t0 ins e_stop in
  r_crashed r = false /\ length (r_obs r) = length ins /\
  forall k o, nth_error (r_obs r) k = Some o ->
    o_called o = h /\ o_fn o = match k with O => start | S _ => (start + Z.of_nat k) mod 2715648 end.
Proof. exact fn_sequence_gen. Qed.
Print Assumptions c09_fn_sequence_any_start.

(* indications: at a tick whose frame number is divisible by the period one datagram goes to every attached link, in link order,
   all with the payload of that frame; at every other tick nothing is sent *)
Theorem c09_ind_exact : forall tk per nl h start t0 ins e_stop, per <> 0 ->
  forall k o, nth_error (r_obs (worker {| tick := tk; hyper := c_hyperframe; period := per; nlinks := nl; handler := h |} start t0 ins e_stop)) k = Some o ->
    (o_fn o mod per = 0 -> o_sends o = map (fun l => (l, payload (o_fn o))) (map Z.of_nat (seq 0 nl))) /\
    (o_fn o mod per <> 0 -> o_sends o = []).
Proof. exact ind_exact. Qed.
Print Assumptions c09_ind_exact.

(* the payload: "IND CLOCK " (73 78 68 32 67 76 79 67 75 32), the decimal digits of fn (digits only, value fn, no leading zero,
   "0" for 0), one NUL; the NUL is the only zero octet, so the datagram is NUL-terminated *)
Theorem c09_payload : forall fn, 0 <= fn ->
  payload fn = [73; 78; 68; 32; 67; 76; 79; 67; 75; 32] ++ dec fn ++ [0]
  /\ Forall (fun d => 48 <= d <= 57) (dec fn) /\ dec fn <> []
  /\ fold_left (fun a d => 10 * a + (d - 48)) (dec fn) 0 = fn
  /\ (0 < fn -> hd 0 (dec fn) <> 48) /\ (fn = 0 -> dec fn = [48])
  /\ ~ In 0 ([73; 78; 68; 32; 67; 76; 79; 67; 75; 32] ++ dec fn).
Proof. exact payload_spec. Qed.
Print Assumptions c09_payload.

(* when a tick happens: the handler is entered at deadline + oversleep of the wait; the first deadline is start + one tick *)
Theorem c09_tick_time : forall tk per nl h start t0 ins e_stop, per <> 0 -> 0 <= tk ->
  forall k o i, nth_error (r_obs (worker {| tick := tk; hyper := c_hyperframe; period := per; nlinks := nl; handler := h |} start t0 ins e_stop)) k = Some o ->
    nth_error ins k = Some i ->
    o_time o = o_deadline o + i_j i /\ (k = O -> o_over o = false /\ o_deadline o = t0 + tk).
Proof. exact timing_basic. Qed.
Print Assumptions c09_tick_time.

(* the complete law of the deadline: tick k+1 takes the overrun branch iff oversleep + handler time of tick k exceed one tick
   (equal to one tick is NOT an overrun); without overrun the deadline advances by exactly one tick (absolute schedule, the
   handler time does not enter), with overrun it is reset to the clock value read after the warning *)
Theorem c09_deadline_law : forall tk per nl h start t0 ins e_stop, per <> 0 ->
  forall k o o' i i',
    nth_error (r_obs (worker {| tick := tk; hyper := c_hyperframe; period := per; nlinks := nl; handler := h |} start t0 ins e_stop)) k = Some o ->
    nth_error (r_obs (worker {| tick := tk; hyper := c_hyperframe; period := per; nlinks := nl; handler := h |} start t0 ins e_stop)) (S k) = Some o' ->
    nth_error ins k = Some i -> nth_error ins (S k) = Some i' ->
    (i_j i + (if h then i_d i else 0) <= tk -> o_over o' = false /\ o_deadline o' = o_deadline o + tk) /\
    (tk < i_j i + (if h then i_d i else 0) -> o_over o' = true /\ o_deadline o' = o_time o + (if h then i_d i else 0) + i_e i').
Proof. exact timing_step. Qed.
Print Assumptions c09_deadline_law.

(* no accumulated drift: if at every earlier tick oversleep + handler time stayed within one tick, tick k is due at
   t0 + (k+1) * tick exactly, measured from the start of the worker, and happens then plus the oversleep of its own wait only
   (with an ideal wait, i_j = 0: exactly at t0 + (k+1) * tick) *)
Theorem c09_no_drift : forall tk per nl h start t0 ins e_stop, per <> 0 -> 0 <= tk ->
  forall k o i, nth_error (r_obs (worker {| tick := tk; hyper := c_hyperframe; period := per; nlinks := nl; handler := h |} start t0 ins e_stop)) k = Some o ->
    nth_error ins k = Some i ->
    (forall q iq, (q < k)%nat -> nth_error ins q = Some iq -> i_j iq + (if h then i_d iq else 0) <= tk) ->
    o_over o = false /\ o_deadline o = t0 + (Z.of_nat k + 1) * tk /\ o_time o = t0 + (Z.of_nat k + 1) * tk + i_j i.
Proof. exact no_drift. Qed.
Print Assumptions c09_no_drift.

(* resynchronisation: if tick k overran (oversleep + handler time > one tick), tick k+1 takes the overrun branch, its deadline is
   "now" (the time the handler returned plus the time to emit the warning), it fires at once (wait(0): deadline + oversleep),
   and from then on the schedule is anchored THERE: as long as the following ticks fit, tick k+1+m is due exactly m ticks after
   that new anchor - no catch-up of the frames that were missed *)
Theorem c09_resync : forall tk per nl h start t0 ins e_stop, per <> 0 -> 0 <= tk ->
  forall k o i o1 i1,
    nth_error (r_obs (worker {| tick := tk; hyper := c_hyperframe; period := per; nlinks := nl; handler := h |} start t0 ins e_stop)) k = Some o ->
    nth_error ins k = Some i ->
    nth_error (r_obs (worker {| tick := tk; hyper := c_hyperframe; period := per; nlinks := nl; handler := h |} start t0 ins e_stop)) (S k) = Some o1 ->
    nth_error ins (S k) = Some i1 ->
    tk < i_j i + (if h then i_d i else 0) ->
    o_over o1 = true /\ o_deadline o1 = o_time o + (if h then i_d i else 0) + i_e i1 /\ o_time o1 = o_deadline o1 + i_j i1 /\
    forall m om im,
      nth_error (r_obs (worker {| tick := tk; hyper := c_hyperframe; period := per; nlinks := nl; handler := h |} start t0 ins e_stop)) (S k + m) = Some om ->
      nth_error ins (S k + m) = Some im ->
      (forall q iq, (S k <= q < S k + m)%nat -> nth_error ins q = Some iq -> i_j iq + (if h then i_d iq else 0) <= tk) ->
      o_deadline om = o_deadline o1 + Z.of_nat m * tk /\ o_time om = o_deadline o1 + Z.of_nat m * tk + i_j im /\ ((0 < m)%nat -> o_over om = false).
Proof. exact resync. Qed.
Print Assumptions c09_resync.

(* no catch-up burst, in general: whatever the handler does, the deadlines of ticks k and k+m are at least m ticks apart, and so
   are the tick instants once the oversleep of the two waits is taken out *)
Theorem c09_spacing : forall tk per nl h start t0 ins e_stop, per <> 0 -> 0 <= tk -> Forall (fun i => 0 <= i_e i) ins ->
  forall k m o o' i i',
    nth_error (r_obs (worker {| tick := tk; hyper := c_hyperframe; period := per; nlinks := nl; handler := h |} start t0 ins e_stop)) k = Some o ->
    nth_error (r_obs (worker {| tick := tk; hyper := c_hyperframe; period := per; nlinks := nl; handler := h |} start t0 ins e_stop)) (k + m) = Some o' ->
    nth_error ins k = Some i -> nth_error ins (k + m) = Some i' ->
    o_deadline o + Z.of_nat m * tk <= o_deadline o' /\ o_time o - i_j i + Z.of_nat m * tk <= o_time o' - i_j i'.
Proof. exact spacing. Qed.
Print Assumptions c09_spacing.

(* ... hence, with an ideal wait, any time window [a, a+w) contains at most w / tick + 1 ticks, for every handler-duration pattern *)
Theorem c09_no_burst : forall tk per nl h start t0 ins e_stop, per <> 0 -> 0 < tk -> Forall (fun i => 0 <= i_e i /\ i_j i = 0) ins ->
  forall a w, 0 <= w ->
  Z.of_nat (length (filter (fun t => (a <=? t) && (t <? a + w))
     (map o_time (r_obs (worker {| tick := tk; hyper := c_hyperframe; period := per; nlinks := nl; handler := h |} start t0 ins e_stop)))))
  <= w / tk + 1.
Proof. exact no_burst. Qed.
Print Assumptions c09_no_burst.

(* stop() / start(): a session is start(); ticks; stop(); pause; start(); ...  Every period is a fresh worker: it begins again at
   the start frame whatever frame the previous period had reached, counts (start + k) mod 2715648, and its first deadline is one
   tick after its own start instant t0 (= end of the previous period + pause) *)
Theorem c09_restart : forall tk per nl h start t runs, per <> 0 -> 0 <= tk -> 0 <= start < 2715648 ->
  let c := {| tick := tk; hyper := c_hyperframe; period := per; nlinks := nl; handler := h |} in
  length (session c start t runs) = length runs /\
  forall n r, nth_error (session c start t runs) n = Some r ->
    exists gap e ins t0, nth_error runs n = Some (gap, e, ins) /\ r = worker c start t0 ins e /\
      match n with O => t0 = t + gap | S n' => exists rp, nth_error (session c start t runs) n' = Some rp /\ t0 = now (r_final rp) + gap end /\
      r_crashed r = false /\ length (r_obs r) = length ins /\
      (forall k o, nth_error (r_obs r) k = Some o -> o_fn o = (start + Z.of_nat k) mod 2715648) /\
      (forall o, nth_error (r_obs r) 0 = Some o -> o_fn o = start /\ o_over o = false /\ o_deadline o = t0 + tk).
Proof. exact restart. Qed.
Print Assumptions c09_restart.

(* outside the property's domain, recorded because the code does it: ind_period = 0 makes the first send_clck_ind raise
   ZeroDivisionError; the worker thread dies without a single tick *)
Theorem c09_period0_crash : forall tk nl h start t0 i ins e_stop,
  let r := worker {| tick := tk; hyper := c_hyperframe; period := 0; nlinks := nl; handler := h |} start t0 (i :: ins) e_stop in
  r_crashed r = true /\ r_obs r = [].
Proof. exact period0_crash. Qed.
Print Assumptions c09_period0_crash.
