(* C17 - the declarative TRXD PDU definitions (trx_toolkit/trxd_proto.py), versions 0, 1, 2, both directions.
   Statements only.  pdu_v0_rx ... pdu_v2_tx are NOT hand-written: Gen/TrxdProto.v is reflected from the imported objects on
   every run, as terms of the C16 embedding (Model/Codec.v).  The hand-written side (Proofs/TrxdProtoSpec.v, TrxdProtoMsg.v)
   states the documented structure literally; field names are numbered 0 ver, 1 tn, 2 fn, 3 rssi, 4 toa256, 5 soft-bits,
   6 pad, 7 pwr, 8 hard-bits, 9 nope, 10 mod, 11 tsc, 12 cir, 13 batch, 14 shadow, 15 trxn, 16 scpir, 17 bpdu.
   accepts pdu e b  :=  encode pdu e = Ok b /\ decode true pdu b = Ok (e, |b|) /\ decode false pdu b = Ok (e, |b|). *)
From Coq Require Import ZArith List Bool.
From OBB Require Model.Trxd Proofs.TrxdBase Proofs.TrxdTx Proofs.TrxdRx Proofs.TrxdRxRT.
From OBB Require Import Gen.TrxdProto Base.Bits Model.Codec Proofs.CodecInt Proofs.CodecBits Proofs.CodecRT Proofs.CodecDE Proofs.CodecErr
  Proofs.CodecGood Proofs.CodecSem Proofs.TrxdProtoSpec Proofs.TrxdProtoBits Proofs.TrxdProtoMsg Proofs.TrxdProtoTop Proofs.TrxdProtoRfu Proofs.TrxdProtoAcc Proofs.TrxdProtoP.
Import ListNotations.
Open Scope Z_scope.

(* the reflected definitions are the documented structures:
   v0/v1 header VER(4) RFU(1) TN(3); v2 header + BATCH(1) RFU(1) TRXN(6); MTS NOPE(1) MOD(4) TSC(3);
   v0 Rx: hdr FN(4) -RSSI(1) ToA256(2, signed) soft-bits(by the length rule of the source) pad(rest);
   v0/v1 Tx: hdr FN PWR hard-bits(rest);  v1 Rx: hdr FN -RSSI ToA256 MTS C/I(2, signed) soft-bits(by MOD, absent if NOPE);
   v2 Rx: hdr2 MTS -RSSI ToA256 C/I FN soft-bits {sub-PDU: hdr2b MTS -RSSI ToA256 C/I soft-bits}*;
   v2 Tx: hdr2 MTS PWR SCPIR(signed) 3 spare octets FN hard-bits {sub-PDU: hdr2b MTS PWR SCPIR 3 spare hard-bits}*;
   every envelope checks its length; the only MOD code without a burst length is 7 *)
Theorem c17_defs :
  pdu_v0_rx = spec_v0_rx v0rx_rule /\ (exists thr a b, v0rx_rule = LDataLen thr a b) /\
  pdu_v0_tx = spec_v01_tx 0 /\ pdu_v1_rx = spec_v1_rx /\ pdu_v1_tx = spec_v01_tx 1 /\
  pdu_v2_rx = spec_v2_rx /\ pdu_v2_tx = spec_v2_tx /\
  (pdu_v0_rx_chk = true /\ pdu_v0_tx_chk = true /\ pdu_v1_rx_chk = true /\ pdu_v1_tx_chk = true /\ pdu_v2_rx_chk = true /\ pdu_v2_tx_chk = true) /\
  burst_len_unknown = [7].
Proof. exact defs_eq. Qed.
Print Assumptions c17_defs.

(* all six definitions are well-formed in the sense of C16 (so c16_enc_dec, c16_dec_enc, c16_reencode_canonical, ... apply),
   are accepted by the constructors, and every batched sub-PDU consumes octets *)
Theorem c17_wf : forall fs, In fs [pdu_v0_rx; pdu_v0_tx; pdu_v1_rx; pdu_v1_tx; pdu_v2_rx; pdu_v2_tx] ->
  wfb fs = true /\ proto_ok fs = true /\ seq_ok fs = true.
Proof. exact pdu_wf. Qed.
Print Assumptions c17_wf.

(* corollary of C16 for each PDU (v2: whatever the number of batched sub-PDUs): every accepted datagram is consumed
   entirely, re-encodes to the same number of octets, and the re-encoding decodes to the same message *)
Theorem c17_roundtrip : forall pdu data v n, In pdu [pdu_v0_rx; pdu_v0_tx; pdu_v1_rx; pdu_v1_tx; pdu_v2_rx; pdu_v2_tx] ->
  Forall (fun o => 0 <= o < 256) data -> decode true pdu data = Ok (v, n) ->
  n = length data /\ exists b', encode pdu v = Ok b' /\ length b' = n /\ decode true pdu b' = Ok (v, n).
Proof. exact pdu_roundtrip. Qed.
Print Assumptions c17_roundtrip.

(* a datagram is either accepted or rejected with the codec's own DecodeError: no other exception, no endless loop *)
Theorem c17_outcome : forall chk pdu data, In pdu [pdu_v0_rx; pdu_v0_tx; pdu_v1_rx; pdu_v1_tx; pdu_v2_rx; pdu_v2_tx] ->
  (exists r, decode chk pdu data = Ok r) \/ (exists c, decode chk pdu data = DecodeErr c).
Proof. exact pdu_closed. Qed.
Print Assumptions c17_outcome.

(* ------------------------------------------------------------------ layout and round trip of typed messages *)
(* v0 / v1 Tx:  [VER*16 + TN; FN (4, big endian); PWR] ++ hard-bits *)
Theorem c17_layout_tx : forall tn fn pwr bits, 0 <= tn < 8 -> 0 <= fn < 4294967296 -> 0 <= pwr < 256 ->
  accepts pdu_v0_tx (tx_fields 0 tn fn pwr bits) ([0 * 16 + tn] ++ be32 fn ++ [pwr] ++ bits) /\
  accepts pdu_v1_tx (tx_fields 1 tn fn pwr bits) ([1 * 16 + tn] ++ be32 fn ++ [pwr] ++ bits).
Proof. exact (fun tn fn pwr bits Ht Hf Hp => conj (tx0_accepts tn fn pwr bits Ht Hf Hp) (tx1_accepts tn fn pwr bits Ht Hf Hp)). Qed.
Print Assumptions c17_layout_tx.

(* v0 Rx:  [TN; FN; -RSSI; ToA256 (2)] ++ soft-bits ++ pad, provided the length rule of the source answers |soft-bits| *)
Theorem c17_layout_rx0 : forall tn fn rssi toa sb pad, 0 <= tn < 8 -> 0 <= fn < 4294967296 -> -255 <= rssi <= 0 -> -32768 <= toa < 32768 ->
  rule_at (length sb + length pad) = Ok (length sb) ->
  accepts pdu_v0_rx (rx0_fields tn fn rssi toa sb pad) ([0 * 16 + tn] ++ be32 fn ++ [- rssi] ++ be16 toa ++ sb ++ pad).
Proof. exact rx0_accepts. Qed.
Print Assumptions c17_layout_rx0.

(* v1 Rx:  [16 + TN; FN; -RSSI; ToA256; NOPE*128 + MOD*8 + TSC; C/I (2)] ++ soft-bits,
   burst_ok np md sb := (np = 0 /\ the table gives |sb| for md) \/ (np = 1 /\ sb = []) *)
Theorem c17_layout_rx1 : forall tn fn rssi toa np md tc cir sb, 0 <= tn < 8 -> 0 <= fn < 4294967296 -> -255 <= rssi <= 0 -> -32768 <= toa < 32768 ->
  0 <= md < 16 -> 0 <= tc < 8 -> -32768 <= cir < 32768 -> burst_ok np md sb ->
  accepts pdu_v1_rx (rx1_fields tn fn rssi toa np md tc cir sb)
          ([1 * 16 + tn] ++ be32 fn ++ [- rssi] ++ be16 toa ++ [np * 128 + md * 8 + tc] ++ be16 cir ++ sb).
Proof. exact rx1_accepts. Qed.
Print Assumptions c17_layout_rx1.

(* v2 Rx / Tx with ANY number of batched sub-PDUs: octets = main part ++ concatenation of the sub-PDU layouts, and every
   sub-PDU comes back intact (rx2_layout / tx2_layout / rxsub_layout / txsub_layout in Proofs/TrxdProtoMsg.v) *)
Theorem c17_layout_v2 :
  (forall m, rx2_ok m -> accepts pdu_v2_rx (rx2_fields m) (rx2_layout m)) /\
  (forall m, tx2_ok m -> accepts pdu_v2_tx (tx2_fields m) (tx2_layout m)).
Proof. exact (conj rx2_accepts tx2_accepts). Qed.
Print Assumptions c17_layout_v2.

(* ------------------------------------------------------------------ burst length, NOPE *)
Theorem c17_burst_len_table : forall m, 0 <= m < 16 ->
  assocZ m burst_tab = (if (0 <=? m) && (m <=? 3) then Some 148%nat else if (4 <=? m) && (m <=? 5) then Some 444%nat else if m =? 6 then Some 148%nat
                        else if (8 <=? m) && (m <=? 9) then Some 592%nat else if (10 <=? m) && (m <=? 11) then Some 740%nat
                        else if (12 <=? m) && (m <=? 15) then Some 296%nat else None).
Proof. exact burst_len_table. Qed.
Print Assumptions c17_burst_len_table.

(* any accepted v1 Rx / v2 Rx / v2 Tx datagram with NOPE = 0 carries a burst whose length is the table entry of its MOD bits *)
Theorem c17_burst_len_by_mod : forall data v n, Forall (fun o => 0 <= o < 256) data -> lookup 9 v = Some (VInt 0) ->
  (decode true pdu_v1_rx data = Ok (v, n) \/ decode true pdu_v2_rx data = Ok (v, n) ->
     exists md bits, lookup 10 v = Some (VInt md) /\ lookup 5 v = Some (VBytes bits) /\ assocZ md burst_tab = Some (length bits)) /\
  (decode true pdu_v2_tx data = Ok (v, n) ->
     exists md bits, lookup 10 v = Some (VInt md) /\ lookup 8 v = Some (VBytes bits) /\ assocZ md burst_tab = Some (length bits)).
Proof. exact burst_len_all. Qed.
Print Assumptions c17_burst_len_by_mod.

(* ... and with NOPE = 1 it carries no burst *)
Theorem c17_nope_no_burst : forall data v n, Forall (fun o => 0 <= o < 256) data -> lookup 9 v = Some (VInt 1) ->
  (decode true pdu_v1_rx data = Ok (v, n) \/ decode true pdu_v2_rx data = Ok (v, n) -> lookup 5 v = None) /\
  (decode true pdu_v2_tx data = Ok (v, n) -> lookup 8 v = None).
Proof. exact nope_no_burst_all. Qed.
Print Assumptions c17_nope_no_burst.

(* ------------------------------------------------------------------ reserved bits *)
(* sent as zero: in the layouts above the RFU positions (bit 3 of the header octet, bit 6 of the second v2 header octet,
   the five upper bits of a sub-PDU's first octet) are 0; the Tx spare octets are the three literal zeros of tx2_layout *)
Theorem c17_reserved_zero : forall v tn ba tr, 0 <= v < 16 -> 0 <= tn < 8 -> 0 <= ba < 2 -> 0 <= tr < 64 ->
  Z.land (v * 16 + tn) 8 = 0 /\ Z.land (ba * 128 + tr) 64 = 0 /\ Z.land tn 248 = 0.
Proof. exact reserved_zero. Qed.
Print Assumptions c17_reserved_zero.

(* ignored on receipt: the RFU bits of the (main) header do not influence the decoder of any of the six PDUs *)
Theorem c17_reserved_ignored : forall chk h h2 rest, 0 <= h < 256 -> 0 <= h2 < 256 ->
  decode chk pdu_v0_rx (Z.lor h 8 :: rest) = decode chk pdu_v0_rx (h :: rest) /\
  decode chk pdu_v0_tx (Z.lor h 8 :: rest) = decode chk pdu_v0_tx (h :: rest) /\
  decode chk pdu_v1_rx (Z.lor h 8 :: rest) = decode chk pdu_v1_rx (h :: rest) /\
  decode chk pdu_v1_tx (Z.lor h 8 :: rest) = decode chk pdu_v1_tx (h :: rest) /\
  decode chk pdu_v2_rx (Z.lor h 8 :: Z.lor h2 64 :: rest) = decode chk pdu_v2_rx (h :: h2 :: rest) /\
  decode chk pdu_v2_tx (Z.lor h 8 :: Z.lor h2 64 :: rest) = decode chk pdu_v2_tx (h :: h2 :: rest).
Proof. exact rfu_ignored_all. Qed.
Print Assumptions c17_reserved_ignored.

(* ... and end to end through the sequence of batched sub-PDUs: rx2_layout_g m js / tx2_layout_g m a b c ks
   (Proofs/TrxdProtoRfu.v) are the documented layouts of c17_layout_v2 in which the first octet of the i-th sub-PDU is
   TN + 8 * j_i (its five RFU bits hold the arbitrary value j_i, each sub-PDU its own), and - for Tx - the three spare octets
   of the main part are a b c and those of the i-th sub-PDU are k_a k_b k_c of ks_i.  For ANY number of sub-PDUs such a
   datagram decodes to exactly the message, and to exactly the result, of the layout with zeros there. *)
Theorem c17_reserved_ignored_sub : forall chk,
  (forall m js, rx2_ok m -> length js = length (m_subs m) -> Forall (fun j => 0 <= j < 32) js ->
     decode chk pdu_v2_rx (rx2_layout_g m js) = Ok (rx2_fields m, length (rx2_layout m)) /\
     decode chk pdu_v2_rx (rx2_layout_g m js) = decode chk pdu_v2_rx (rx2_layout m)) /\
  (forall m ks, tx2_ok m -> length ks = length (x_subs m) -> Forall (fun k => 0 <= k_rfu k < 32 /\ k_a k = 0 /\ k_b k = 0 /\ k_c k = 0) ks ->
     decode chk pdu_v2_tx (tx2_layout_g m 0 0 0 ks) = Ok (tx2_fields m, length (tx2_layout m)) /\
     decode chk pdu_v2_tx (tx2_layout_g m 0 0 0 ks) = decode chk pdu_v2_tx (tx2_layout m)).
Proof. exact reserved_ignored_sub. Qed.
Print Assumptions c17_reserved_ignored_sub.

(* the Tx spare octets (any integers; PDUv0Tx / PDUv1Tx have no spare octets), together with the sub-PDU RFU bits *)
Theorem c17_reserved_ignored_spare : forall chk m a b c ks,
  tx2_ok m -> length ks = length (x_subs m) -> Forall (fun k => 0 <= k_rfu k < 32) ks ->
  decode chk pdu_v2_tx (tx2_layout_g m a b c ks) = Ok (tx2_fields m, length (tx2_layout m)) /\
  decode chk pdu_v2_tx (tx2_layout_g m a b c ks) = decode chk pdu_v2_tx (tx2_layout m).
Proof. exact reserved_ignored_spare. Qed.
Print Assumptions c17_reserved_ignored_spare.

(* with zeros in all those places the generalised layouts are the documented ones *)
Theorem c17_layout_g_zero :
  (forall m, rx2_layout_g m (map (fun _ => 0) (m_subs m)) = rx2_layout m) /\
  (forall m, tx2_layout_g m 0 0 0 (map (fun _ => {| k_rfu := 0; k_a := 0; k_b := 0; k_c := 0 |}) (x_subs m)) = tx2_layout m).
Proof. exact layout_g_zero. Qed.
Print Assumptions c17_layout_g_zero.

(* the same at the level of the field decoder, for arbitrary (not necessarily well-formed) input *)
Theorem c17_reserved_ignored_field :
  (forall recd recs e h h' h2 rest, 0 <= h < 256 -> 0 <= h' < 256 -> 0 <= h2 < 256 -> Z.land h 7 = Z.land h' 7 ->
     dec_field recd recs hdr2b e (h' :: h2 :: rest) = dec_field recd recs hdr2b e (h :: h2 :: rest)) /\
  (forall recd recs e a b c a' b' c' rest,
     dec_field recd recs (FSpare (LFix 3) PAlways 0) e (a :: b :: c :: rest) = Ok (e, 3%nat) /\
     dec_field recd recs (FSpare (LFix 3) PAlways 0) e (a' :: b' :: c' :: rest) = Ok (e, 3%nat)).
Proof. exact reserved_ignored_field. Qed.
Print Assumptions c17_reserved_ignored_field.

(* ------------------------------------------------------------------ wrong version *)
Theorem c17_wrong_version_rejected : forall chk h h2 rest, 0 <= h2 < 256 ->
  (Z.land (Z.shiftr h 4) 15 <> 0 -> decode chk pdu_v0_rx (h :: rest) = DecodeErr 0 /\ decode chk pdu_v0_tx (h :: rest) = DecodeErr 0) /\
  (Z.land (Z.shiftr h 4) 15 <> 1 -> decode chk pdu_v1_rx (h :: rest) = DecodeErr 0 /\ decode chk pdu_v1_tx (h :: rest) = DecodeErr 0) /\
  (Z.land (Z.shiftr h 4) 15 <> 2 -> decode chk pdu_v2_rx (h :: h2 :: rest) = DecodeErr 0 /\ decode chk pdu_v2_tx (h :: h2 :: rest) = DecodeErr 0).
Proof. exact wrong_version_all. Qed.
Print Assumptions c17_wrong_version_rejected.

(* ------------------------------------------------------------------ the message codec's datagrams (Model/Trxd.v gen_tx / gen_rx) *)
(* Tx, versions 0 and 1, legacy padding on or off: accepted; fields identical EXCEPT that with legacy padding the burst
   field is the burst followed by the two padding octets (recorded finding c17-v0tx-legacy-pad-in-hard-bits) *)
Theorem c17_accepts_msg_codec_tx : forall legacy m b, Trxd.gen_tx legacy m = Trxd.Ok b ->
  exists fn tn pwr bu, Trxd.t_fn m = Some fn /\ Trxd.t_tn m = Some tn /\ Trxd.t_pwr m = Some pwr /\ Trxd.t_burst m = Some bu /\
    decode true (if Trxd.t_ver m =? 0 then pdu_v0_tx else pdu_v1_tx) b
      = Ok (tx_fields (Trxd.t_ver m) tn fn pwr (bu ++ (if legacy && (Trxd.t_ver m =? 0) then [0; 0] else [])), length b).
Proof. exact acc_tx. Qed.
Print Assumptions c17_accepts_msg_codec_tx.

(* Rx version 0, GMSK and EDGE, legacy padding on or off: accepted with identical fields (soft bits as the unsigned octets
   127 - s, the padding in 'pad').  The soft-bit length rule of the source enters only through the four table points
   rule_at 148 = 148, rule_at 150 = 148, rule_at 444 = 444, rule_at 446 = 444 (checked against Gen on every run) *)
Theorem c17_accepts_msg_codec_rx0 : forall legacy m b, Trxd.gen_rx legacy m = Trxd.Ok b -> Trxd.r_ver m = 0 ->
  (match Trxd.r_burst m with Some bs => Forall (fun s => -128 <= s <= 127) bs | None => True end) ->
  exists fn tn rssi toa bs, Trxd.r_fn m = Some fn /\ Trxd.r_tn m = Some tn /\ Trxd.r_rssi m = Some rssi /\ Trxd.r_toa m = Some toa /\
    Trxd.r_burst m = Some bs /\
    decode true pdu_v0_rx b = Ok (rx0_fields tn fn rssi toa (TrxdRxRT.usbits bs) (if legacy && (0 =? 0) then [0; 0] else []), length b).
Proof. exact acc_rx0_all. Qed.
Print Assumptions c17_accepts_msg_codec_rx0.

Theorem c17_v0rx_length_rule :
  rule_at 148 = Ok 148%nat /\ rule_at 150 = Ok 148%nat /\ rule_at 444 = Ok 444%nat /\ rule_at 446 = Ok 444%nat.
Proof. exact rule_points. Qed.
Print Assumptions c17_v0rx_length_rule.

(* Rx version 1: NOPE indications and every burst, except the MTS code GMSK-AB (index 2) with TSC set 1 *)
Theorem c17_accepts_msg_codec_rx1 : forall m b, Trxd.gen_rx false m = Trxd.Ok b \/ Trxd.gen_rx true m = Trxd.Ok b -> Trxd.r_ver m = 1 ->
  (match Trxd.r_burst m with Some bs => Forall (fun s => -128 <= s <= 127) bs | None => True end) ->
  exists fn tn rssi toa ci, Trxd.r_fn m = Some fn /\ Trxd.r_tn m = Some tn /\ Trxd.r_rssi m = Some rssi /\ Trxd.r_toa m = Some toa /\ Trxd.r_ci m = Some ci /\
    if Trxd.r_nope m
    then decode true pdu_v1_rx b = Ok (rx1_fields tn fn rssi toa 1 0 0 ci [], length b)
    else exists i s t bs, Trxd.r_mod m = Some i /\ Trxd.r_tset m = Some s /\ Trxd.r_tsc m = Some t /\ Trxd.r_burst m = Some bs /\
         (~ (i = 2%nat /\ s = 1) ->
          decode true pdu_v1_rx b = Ok (rx1_fields tn fn rssi toa 0 (Trxd.mod_coding i + s) t ci (TrxdRxRT.usbits bs), length b)).
Proof. exact acc_rx1. Qed.
Print Assumptions c17_accepts_msg_codec_rx1.

(* ------------------------------------------------------------------ refuted strengthenings = the defects of the pinned tree *)
(* c17-v0rx-legacy-gmsk-rejected: repaired in the source (fix commit 932bd90); the refuted lemma became c17_accepts_msg_codec_rx0 *)
(* c17-mts-0111-unknown *)
Theorem c17_mts_0111_unknown_refuted :
  assocZ (Trxd.mod_coding 2 + 1) burst_tab = None /\ burst_len_unknown = [7] /\
  decode true pdu_v1_rx ([16; 0; 0; 0; 0; 60; 0; 0; 56; 0; 0] ++ repeat 127 148) = DecodeErr 1.
Proof. exact mts_0111_unknown_refuted. Qed.
Print Assumptions c17_mts_0111_unknown_refuted.
(* c17-v0tx-legacy-pad-in-hard-bits *)
Theorem c17_v0tx_legacy_pad_refuted :
  decode true pdu_v0_tx ([0; 0; 0; 0; 0; 10] ++ repeat 1 148 ++ [0; 0]) = Ok (tx_fields 0 0 0 10 (repeat 1 148 ++ [0; 0]), 156%nat).
Proof. exact v0tx_legacy_pad_refuted. Qed.
Print Assumptions c17_v0tx_legacy_pad_refuted.

(* ------------------------------------------------------------------ non-vacuity: a v2 Rx PDU (8-PSK) with a NOPE sub-PDU and a GMSK-AB sub-PDU *)
Theorem c17_example : rx2_ok ex_rx2 /\ length (rx2_layout ex_rx2) = 620%nat /\ accepts pdu_v2_rx (rx2_fields ex_rx2) (rx2_layout ex_rx2).
Proof. exact (conj (proj1 ex_rx2_ok) (conj (proj2 ex_rx2_ok) ex_rx2_accepts)). Qed.
Print Assumptions c17_example.
