(* C06 - Serial link framing (sercomm/HDLC) delivers every message intact.  Statements only.
   Model: Model/Sercomm.v (Tx: sendmsg / pull, Rx: rx_char, parametrised by the receive capacity cap =
   tailroom of the receive msgb: 2048 in the host build, 256 on the target; every theorem holds for all cap).
   Spec-side vocabulary (Proofs/SercommS.v, protocol numbers literal):
     escape_free d      := d <> 126 /\ d <> 125 /\ d <> 0         (DLCIs whose address octet Tx does not escape)
     good_stream_lit    := noise without 126, frames with escape_free DLCI and payload shorter than cap
     wf_stream_lit      := the same with frames of ANY length; noise directly after a frame longer than cap excluded
     valid_hist         := every Send addresses an existing queue (0 <= d < 129)
     valid_hist_e2e cap := moreover escape_free DLCI and payload shorter than cap
   frame d p = 126 :: escape (d :: 3 :: p) ++ [126];  rmsg (d, p) = RMsg d p = dispatch_rx_msg(d, p). *)
From Coq Require Import ZArith List Bool.
From OBB Require Import Gen.SercommConst Model.Sercomm Model.SercommDrv Proofs.SercommP Proofs.SercommTxP Proofs.SercommS Proofs.SercommDrvP.
Import ListNotations.
Open Scope Z_scope.

(* the constants of the source, as compiled (Gen), are the protocol's *)
Theorem c06_constants :
  c_HDLC_FLAG = 126 /\ c_HDLC_ESCAPE = 125 /\ c_HDLC_C_UI = 3 /\ c_SC_DLCI_MAX = 129 /\ c_SC_DLCI_ECHO = 128 /\
  c_n_tx_queues = 129 /\ c_n_rx_handlers = 129 /\
  c_SERCOMM_RX_MSG_SIZE = 2048 /\ c_rx_tailroom = 2048 /\ c_rx_headroom = 4 /\ c_SERCOMM_RX_MSG_SIZE_target = 256 /\
  c_named_dlcis = [0; 4; 5; 9; 10; 128].
Proof. exact constants. Qed.
Print Assumptions c06_constants.

(* what a frame is, and what Tx escapes: 0x7E, 0x7D and 0x00, by 0x7D followed by the octet with bit 5 flipped *)
Theorem c06_frame_shape : forall d p b l,
  frame d p = 126 :: escape (d :: 3 :: p) ++ [126] /\
  escape [] = [] /\
  escape (b :: l) = if (b =? 126) || (b =? 125) || (b =? 0) then 125 :: Z.lxor b 32 :: escape l else b :: escape l.
Proof. exact (fun d p b l => conj (s_frame_shape d p) (s_escape_shape b l)). Qed.
Print Assumptions c06_frame_shape.

(* between the opening and the closing flag there is no unescaped flag and no zero octet, for ANY address and
   payload; every 0x7D is followed by 0x5E, 0x5D or 0x20 *)
Theorem c06_no_raw_flag_or_zero : forall d p,
  Forall (fun b => b <> 126 /\ b <> 0) (escape (d :: 3 :: p)) /\ esc_followed (escape (d :: 3 :: p)).
Proof. exact s_no_raw_flag_or_zero. Qed.
Print Assumptions c06_no_raw_flag_or_zero.

(* one frame through the receiver from the idle state: exactly one dispatch, identical DLCI and payload *)
Theorem c06_transparent : forall cap d p, escape_free d -> len p < cap ->
  rx_run cap rx0 (frame d p) = ({| st := WAIT; dlci := d; ctrl := 3; buf := []; blen := 0 |}, [RMsg d p]).
Proof. exact s_transparent. Qed.
Print Assumptions c06_transparent.

(* any sequence of frames with flag-free noise before, between and after them: every frame is dispatched
   exactly once, in order, unchanged; nothing else is dispatched, no overflow *)
Theorem c06_stream : forall cap its, 0 < cap -> good_stream_lit cap its ->
  exists d1 c1, rx_run cap rx0 (render its) =
    ({| st := WAIT; dlci := d1; ctrl := c1; buf := []; blen := 0 |}, map rmsg (frames_of its)).
Proof. exact s_stream. Qed.
Print Assumptions c06_stream.

(* ... and with a handler registered for every DLCI in use, the handlers get exactly these messages *)
Theorem c06_stream_delivered : forall cap reg its, 0 < cap -> good_stream_lit cap its ->
  Forall (fun x => fst x < 129 /\ In (fst x) reg) (frames_of its) ->
  delivered reg (msgs (snd (rx_run cap rx0 (render its)))) = frames_of its.
Proof. exact s_stream_delivered. Qed.
Print Assumptions c06_stream_delivered.

(* memory safety of the receiver for EVERY octet sequence (hence every prefix of it): the stored length never
   exceeds the capacity, msgb_put never aborts, and every dispatched payload is shorter than the capacity *)
Theorem c06_rx_memory_safe : forall cap l, 0 <= cap ->
  0 <= blen (fst (rx_run cap rx0 l)) <= cap /\
  blen (fst (rx_run cap rx0 l)) = len (buf (fst (rx_run cap rx0 l))) /\
  ~ In RAbort (snd (rx_run cap rx0 l)) /\
  (forall d p, In (d, p) (msgs (snd (rx_run cap rx0 l))) -> len p < cap).
Proof. exact s_rx_memory_safe. Qed.
Print Assumptions c06_rx_memory_safe.

(* an over-long frame (payload >= capacity) anywhere in a good stream, directly followed by a frame:
   it is discarded, the following frame is lost iff the payload is LONGER than the capacity (the junk it turns
   into can only appear on DLCI 0x7E), every later frame is dispatched *)
Theorem c06_overlong_resync : forall cap pre d p d1 p1 post,
  0 < cap -> good_stream_lit cap pre -> escape_free d -> cap <= len p ->
  escape_free d1 -> len p1 < cap -> good_stream_lit cap post ->
  exists s evs,
    rx_run cap rx0 (render (pre ++ Frame d p :: Frame d1 p1 :: post)) = (s, evs) /\ ~ In RAbort evs /\
    filter (fun x => negb (fst x =? 126)) (msgs evs) =
      frames_of pre ++ (if cap <? len p then [] else [(d1, p1)]) ++ frames_of post.
Proof. exact s_overlong_resync. Qed.
Print Assumptions c06_overlong_resync.

(* the same for any number of over-long frames anywhere: [expect] drops exactly the in-size frame that follows
   a frame longer than the capacity *)
Theorem c06_stream_general : forall cap its, 0 < cap -> wf_stream_lit cap false its ->
  exists s evs, rx_run cap rx0 (render its) = (s, evs) /\ ~ In RAbort evs /\
    filter (fun x => negb (fst x =? 126)) (msgs evs) = expect cap false its.
Proof. exact s_stream_general. Qed.
Print Assumptions c06_stream_general.

(* Tx, every history of sendmsg/pull: the octets pulled so far, completed by the rest of the frame in
   transmission, are the concatenation of whole frames of the messages started so far; per DLCI the started
   messages followed by the still queued ones are exactly the sent ones, in sending order (FIFO, exactly once,
   nothing invented) *)
Theorem c06_pull_refines_frames : forall h, valid_hist h ->
  exists started,
    snd (tx_run tx0 h) ++ remaining (fst (tx_run tx0 h)) = concat (map frame' started) /\
    (forall d, 0 <= d < 129 ->
       map hdr' (filter (on_dlci d) started) ++ qget (queues (fst (tx_run tx0 h))) d = map hdr' (filter (on_dlci d) (sends h))) /\
    (forall x, In x started -> In x (sends h)).
Proof. exact s_pull_refines_frames. Qed.
Print Assumptions c06_pull_refines_frames.

(* which message is started: after any history, a pull with no frame in transmission takes the head of the
   lowest-numbered non-empty queue (or returns 0 if all are empty); while a frame is in transmission a pull
   only advances it and a sendmsg only appends to its queue - a message queued meanwhile, even on a lower
   DLCI, waits for the closing flag (non-preemptive priority) *)
Theorem c06_pull_priority : forall h, valid_hist h -> let t := fst (tx_run tx0 h) in
  (cur t = None ->
    (pull t = (PNone, t) /\ forall i, nth i (queues t) [] = []) \/
    (exists i m t', pull t = (PCh 126, t') /\ cur t' = Some m /\ (i < 129)%nat /\
                    nth i (queues t) [] = m :: nth i (queues t') [] /\
                    (forall j, (j < i)%nat -> nth j (queues t) [] = []) /\
                    (forall j, j <> i -> nth j (queues t') [] = nth j (queues t) []))) /\
  (forall l, cur t = Some l -> exists c t', pull t = (PCh c, t') /\ remaining t = c :: remaining t' /\ queues t' = queues t) /\
  (forall d p t', sendmsg t d p = Some t' -> cur t' = cur t /\ tstate t' = tstate t /\ remaining t' = remaining t).
Proof. exact s_pull_priority. Qed.
Print Assumptions c06_pull_priority.

(* Tx memory safety: no history makes the octet machine read at or past msg->tail; sendmsg is defined exactly
   for the DLCIs that index an existing queue (others index dlci_queues[] out of bounds) *)
Theorem c06_tx_memory_safe : forall h t d p,
  fst (pull (fst (tx_run tx0 h))) <> POOB /\
  (0 <= d < 129 -> exists t', sendmsg t d p = Some t') /\
  (d < 0 \/ 129 <= d -> sendmsg t d p = None).
Proof. exact (fun h t d p => conj (s_tx_never_oob h) (conj (s_send_ok t d p) (s_send_oob t d p))). Qed.
Print Assumptions c06_tx_memory_safe.

(* everything queued, then drained: lower DLCI numbers first, FIFO within a DLCI *)
Theorem c06_batch_order : forall sd n, Forall (fun x => 0 <= fst x < 129) sd ->
  (length (concat (map frame' (sorted_by_dlci sd))) <= n)%nat ->
  snd (tx_run tx0 (map send_of sd ++ repeat Pull n)) = concat (map frame' (sorted_by_dlci sd)) /\
  sorted_by_dlci sd = flat_map (fun i => filter (fun x => fst x =? Z.of_nat i) sd) (seq 0 129).
Proof. exact (fun sd n H1 H2 => conj (s_batch_order sd n H1 H2) (s_sorted_by_dlci sd)). Qed.
Print Assumptions c06_batch_order.

(* end to end, any interleaving of sendmsg and pull, every pulled octet fed to a receiver that starts idle:
   the receiver has dispatched a prefix of the started messages, unchanged - all of them whenever no frame
   is in transmission - and started/queued/sent are related per DLCI as in c06_pull_refines_frames *)
Theorem c06_end_to_end : forall cap h, 0 < cap -> valid_hist_e2e cap h ->
  exists started rest,
    snd (rx_run cap rx0 (snd (tx_run tx0 h))) ++ rest = map rmsg started /\
    (remaining (fst (tx_run tx0 h)) = [] -> rest = []) /\
    (forall d, 0 <= d < 129 ->
       map hdr' (filter (on_dlci d) started) ++ qget (queues (fst (tx_run tx0 h))) d = map hdr' (filter (on_dlci d) (sends h))).
Proof. exact s_end_to_end. Qed.
Print Assumptions c06_end_to_end.

(* end to end, batch: the receiver dispatches every message exactly once, unchanged, lower DLCI first, FIFO per DLCI *)
Theorem c06_end_to_end_batch : forall cap sd n, 0 < cap ->
  Forall (fun x => 0 <= fst x < 129 /\ escape_free (fst x) /\ len (snd x) < cap) sd ->
  (length (concat (map frame' (sorted_by_dlci sd))) <= n)%nat ->
  snd (rx_run cap rx0 (snd (tx_run tx0 (map send_of sd ++ repeat Pull n)))) = map rmsg (sorted_by_dlci sd).
Proof. exact s_end_to_end_batch. Qed.
Print Assumptions c06_end_to_end_batch.

(* DEFECT of the pinned tree (hypothesis escape_free above is forced): DLCI 0 = SC_DLCI_HIGHEST is registrable
   and sendable, but its frame is dispatched as DLCI 0x7D with the control octet prepended to the payload *)
Theorem c06_dlci0_refuted :
  ~ escape_free 0 /\ 0 <= 0 < 129 /\ len [65] < 2048 /\
  frame 0 [65] = [126; 125; 32; 3; 65; 126] /\
  msgs (snd (rx_run 2048 rx0 (frame 0 [65]))) = [(125, [3; 65])] /\
  msgs (snd (rx_run 2048 rx0 (frame 0 [65]))) <> [(0, [65])].
Proof. exact s_dlci0_refuted. Qed.
Print Assumptions c06_dlci0_refuted.

Theorem c06_dlci0_general : forall cap p, 1 + len p < cap ->
  rx_run cap rx0 (frame 0 p) = ({| st := WAIT; dlci := 125; ctrl := 32; buf := []; blen := 0 |}, [RMsg 125 (3 :: p)]).
Proof. exact s_dlci0_general. Qed.
Print Assumptions c06_dlci0_general.

(* DEFECT of the pinned tree (the exclusion in wf_stream_lit is forced): flag-free noise directly after a frame
   longer than the capacity is NOT ignored - its first octet is taken as a DLCI, a junk message is dispatched
   there, and TWO following frames are lost instead of at most one *)
Theorem c06_noise_after_overlong_refuted :
  wf_stream_lit 2048 false [Frame 5 (repeat 65 2049); Frame 5 [1]; Frame 5 [2]; Frame 5 [3]] /\
  expect 2048 false [Frame 5 (repeat 65 2049); Frame 5 [1]; Frame 5 [2]; Frame 5 [3]] = [(5, [2]); (5, [3])] /\
  Forall (fun b => b <> 126) [9; 1; 2] /\
  msgs (snd (rx_run 2048 rx0 (render [Frame 5 (repeat 65 2049); Noise [9; 1; 2]; Frame 5 [1]; Frame 5 [2]; Frame 5 [3]])))
  = [(9, [2]); (126, [3; 2]); (5, [3])].
Proof. exact s_noise_after_overlong_refuted. Qed.
Print Assumptions c06_noise_after_overlong_refuted.

(* ------------------------------------------------------------------------------------------------------------------
   Driver glue: src/host/osmocon/osmocon.c handle_sercomm_write() drains the transmit side into the serial port.
   Model/SercommDrv.v:  drv_write_chunk t = one call (at most 256 pulls, the bound checked BEFORE each pull, stops at the
   first pull that returns 0) = (new tx state, octets handed to write(), DMore | DEnd = osmo_fd_write_disable called);
   drain fuel t = the calls of the select loop until write polling is disabled, one (octets, result) entry per call;
   written calls = concat (map fst calls);
   pending t = remaining t ++ concat (map frame_of (concat (queues t))) = rest of the frame in transmission followed by
   the frames of everything queued, lowest DLCI first, FIFO per DLCI. *)

(* sizeof(buffer) in the source text *)
Theorem c06_drv_constants : c_drv_write_buffer = 256.
Proof. exact s_drv_constants. Qed.
Print Assumptions c06_drv_constants.

(* [pending] IS the octet stream repeated sercomm_drv_pull calls yield, after any history of sendmsg/pull:
   n pulls return its first n octets and leave the rest pending; it is empty exactly when a pull returns 0 *)
Theorem c06_drv_pending : forall h n, let t := fst (tx_run tx0 h) in
  snd (tx_run t (repeat Pull n)) = firstn n (pending t) /\
  pending (fst (tx_run t (repeat Pull n))) = skipn n (pending t) /\
  (pending t = [] <-> pull t = (PNone, t)).
Proof. exact s_drv_pending. Qed.
Print Assumptions c06_drv_pending.

(* one call of handle_sercomm_write in any reachable transmit state: it writes exactly the first (at most 256) pending
   octets, the state afterwards is the state after exactly that many pulls (no octet is pulled and not written), the
   rest stays pending; end is reported iff fewer than 256 octets were pending, and then nothing is pending *)
Theorem c06_drv_chunk : forall h, let t := fst (tx_run tx0 h) in
  exists t' o r, drv_write_chunk t = (t', o, r) /\
    o = firstn 256 (pending t) /\ pending t' = skipn 256 (pending t) /\
    tx_run t (repeat Pull (length o)) = (t', o) /\ (length o <= 256)%nat /\
    ((r = DMore /\ length o = 256%nat /\ (256 <= length (pending t))%nat) \/
     (r = DEnd /\ (length o < 256)%nat /\ o = pending t /\ pull t' = (PNone, t'))).
Proof. exact s_drv_chunk. Qed.
Print Assumptions c06_drv_chunk.

(* repeated calls until write polling is disabled: the concatenation of the chunks written is exactly the octet stream
   repeated pulls yield (nothing lost, nothing duplicated, order kept); every chunk has at most 256 octets; every call
   but the last writes exactly 256 octets and does not report end, the last one reports end; the number of calls is
   pending/256 + 1; afterwards nothing is pending and a pull returns 0 *)
Theorem c06_drv_drain : forall h fuel, let t := fst (tx_run tx0 h) in
  (length (pending t) < fuel * 256)%nat ->
  exists t' calls, drain fuel t = (t', calls) /\
    written calls = pending t /\
    (forall n, (length (pending t) <= n)%nat -> written calls = snd (tx_run t (repeat Pull n))) /\
    Forall (fun c => (length (fst c) <= 256)%nat) calls /\
    map snd calls = repeat DMore (length calls - 1) ++ [DEnd] /\
    Forall (fun c => snd c = DMore -> length (fst c) = 256%nat) calls /\
    length calls = (length (pending t) / 256 + 1)%nat /\
    pending t' = [] /\ pull t' = (PNone, t').
Proof. exact s_drv_drain. Qed.
Print Assumptions c06_drv_drain.

(* end to end through the driver glue: messages queued, drained by handle_sercomm_write calls, the written octets fed to
   a receiver that starts idle: every message is dispatched exactly once, unchanged, lower DLCI first, FIFO per DLCI *)
Theorem c06_drv_end_to_end_batch : forall cap sd fuel, 0 < cap ->
  Forall (fun x => 0 <= fst x < 129 /\ escape_free (fst x) /\ len (snd x) < cap) sd ->
  (length (concat (map frame' (sorted_by_dlci sd))) < fuel * 256)%nat ->
  exists t' calls, drain fuel (fst (tx_run tx0 (map send_of sd))) = (t', calls) /\
    written calls = concat (map frame' (sorted_by_dlci sd)) /\
    snd (rx_run cap rx0 (written calls)) = map rmsg (sorted_by_dlci sd) /\
    Forall (fun c => (length (fst c) <= 256)%nat) calls /\
    map snd calls = repeat DMore (length calls - 1) ++ [DEnd] /\
    length calls = (length (concat (map frame' (sorted_by_dlci sd))) / 256 + 1)%nat /\
    pull t' = (PNone, t').
Proof. exact s_drv_end_to_end_batch. Qed.
Print Assumptions c06_drv_end_to_end_batch.

(* non-vacuity: a pending run longer than the buffer (one 400-octet message = 404 framed octets; two messages back to
   back on DLCIs 9 and 4 = 263 framed octets, the 257th octet opens the second chunk) *)
Theorem c06_drv_example :
  let t := fst (tx_run tx0 [Send 5 (repeat 65 400)]) in
  length (pending t) = 404%nat /\
  (let '(_, calls) := drain 2 t in
   map (fun c => (length (fst c), snd c)) calls = [(256%nat, DMore); (148%nat, DEnd)] /\
   written calls = frame 5 (repeat 65 400) /\
   snd (rx_run 2048 rx0 (written calls)) = [RMsg 5 (repeat 65 400)]) /\
  (let '(_, calls) := drain 2 (fst (tx_run tx0 [Send 9 [1]; Send 4 (repeat 66 254)])) in
   map (fun c => (length (fst c), snd c)) calls = [(256%nat, DMore); (7%nat, DEnd)] /\
   snd (rx_run 2048 rx0 (written calls)) = [RMsg 4 (repeat 66 254); RMsg 9 [1]]).
Proof. exact s_drv_example. Qed.
Print Assumptions c06_drv_example.
