(* C04 - TRXD octets follow the protocol layout; Python and trxcon (C) agree. Statements only. *)
From Coq Require Import ZArith List Bool.
From OBB Require Import Gen.TrxdConst Gen.TrxIfConst Model.Trxd Model.TrxIf Proofs.TrxdBase Proofs.TrxdTx Proofs.TrxdRx Proofs.TrxdRxRT Proofs.TrxIfP Proofs.TrxIfLayoutP.
Import ListNotations.
Open Scope Z_scope.

(* the constants compiled into trx_if.c are the protocol's, and equal the toolkit's *)
Theorem c04_constants :
  trxd_buf_size = 512 /\ trxdv0_hdr_len = 8 /\ c_tdma_hyperframe = 2715648 /\ nb_gmsk_burst = 148 /\ nb_8psk_burst = 444
  /\ c_tdma_hyperframe = gsm_hyperframe /\ nb_gmsk_burst = gmsk_burst_len /\ nb_8psk_burst = edge_burst_len.
Proof. exact (conj (proj1 (proj2 gen_trxif_consts)) (conj (proj1 (proj2 (proj2 gen_trxif_consts))) (conj (proj1 (proj2 (proj2 (proj2 gen_trxif_consts))))
        (conj (proj1 (proj2 (proj2 (proj2 (proj2 gen_trxif_consts))))) (conj (proj1 (proj2 (proj2 (proj2 (proj2 (proj2 gen_trxif_consts)))))) consts_agree))))). Qed.
Print Assumptions c04_constants.

(* ---- the encoder writes exactly the documented layout ---- *)
(* L1 -> TRX: version nibble and timeslot, big-endian frame number, attenuation, hard bits; version 0 + legacy: two padding octets *)
Theorem c04_gen_tx_is_layout : forall m l b, gen_tx l m = Ok b ->
  exists fn tn pwr bu, t_fn m = Some fn /\ t_tn m = Some tn /\ t_pwr m = Some pwr /\ t_burst m = Some bu /\
    b = ([t_ver m * 16 + tn; fn / 16777216 mod 256; fn / 65536 mod 256; fn / 256 mod 256; fn mod 256; pwr] ++ bu)
        ++ (if l && (t_ver m =? 0) then [0; 0] else []).
Proof. exact gen_tx_layout. Qed.
Print Assumptions c04_gen_tx_is_layout.

(* TRX -> L1: ..., negated RSSI, big-endian ToA256, for version 1 the MTS octet and big-endian C/I, soft bits as 127 - s (0..254) *)
Theorem c04_gen_rx_is_layout : forall m l b, gen_rx l m = Ok b ->
  (match r_burst m with Some bs => Forall (fun s => -128 <= s <= 127) bs | None => True end) ->
  exists fn tn rssi toa, r_fn m = Some fn /\ r_tn m = Some tn /\ r_rssi m = Some rssi /\ r_toa m = Some toa /\
    b = [r_ver m * 16 + tn; fn / 16777216 mod 256; fn / 65536 mod 256; fn / 256 mod 256; fn mod 256; - rssi;
         toa mod 65536 / 256; toa mod 65536 mod 256]
        ++ (if r_ver m =? 1 then [gen_mts m] ++ [oz (r_ci m) mod 65536 / 256; oz (r_ci m) mod 65536 mod 256] else [])
        ++ (match r_burst m with Some bs => map (fun s => 127 - s) bs | None => [] end)
        ++ (if l && (r_ver m =? 0) then [0; 0] else []).
Proof. exact gen_rx_layout. Qed.
Print Assumptions c04_gen_rx_is_layout.

(* the MTS octet: 128 for a NOPE indication, else TSC + 8 * (modulation code + TSC set), codes 0 4 6 8 10 12 for
   GMSK, 8-PSK, GMSK-AB, 16QAM, 32QAM, AQPSK *)
Theorem c04_mts_octet : forall m, spec_rx m -> r_ver m = 1 ->
  gen_mts m = if r_nope m then 128
              else match r_tsc m, r_mod m, r_tset m with
                   | Some t, Some i, Some s => t + 8 * (nth i [0; 4; 6; 8; 10; 12] 0 + s)
                   | _, _, _ => 0 end.
Proof. exact gen_mts_val. Qed.
Print Assumptions c04_mts_octet.

(* ---- whatever the parser accepts, it reads per that same layout (r = bit 3 of the first octet, which the parser ignores) ---- *)
Theorem c04_parse_tx_is_layout : forall b m, Forall (fun x => 0 <= x < 256) b -> parse_tx b = Ok m ->
  exists fn tn pwr r rest,
    (t_ver m = 0 \/ t_ver m = 1) /\ t_fn m = Some fn /\ t_tn m = Some tn /\ t_pwr m = Some pwr
    /\ 0 <= fn < 4294967296 /\ 0 <= tn <= 7 /\ 0 <= pwr <= 255 /\ (r = 0 \/ r = 1)
    /\ b = [t_ver m * 16 + (tn + 8 * r); fn / 16777216 mod 256; fn / 65536 mod 256; fn / 256 mod 256; fn mod 256; pwr] ++ rest
    /\ t_burst m = match rest with [] => None | _ :: _ => Some (tx_parse_burst rest) end.
Proof. exact parse_tx_is_layout. Qed.
Print Assumptions c04_parse_tx_is_layout.

Theorem c04_parse_rx_is_layout : forall b m, Forall (fun x => 0 <= x < 256) b -> parse_rx b = Ok m ->
  exists fn tn rssi toa r rest,
    (r_ver m = 0 \/ r_ver m = 1) /\ r_fn m = Some fn /\ r_tn m = Some tn /\ r_rssi m = Some rssi /\ r_toa m = Some toa
    /\ 0 <= fn < 4294967296 /\ 0 <= tn <= 7 /\ -255 <= rssi <= 0 /\ -32768 <= toa <= 32767 /\ (r = 0 \/ r = 1)
    /\ ((r_ver m = 0
         /\ b = [0 * 16 + (tn + 8 * r); fn / 16777216 mod 256; fn / 65536 mod 256; fn / 256 mod 256; fn mod 256; - rssi;
                 toa mod 65536 / 256; toa mod 65536 mod 256] ++ rest
         /\ match rest with
            | [] => r_burst m = None
            | _ :: _ => exists i, r_mod m = Some i /\ (Z.of_nat (length rest) = mod_bl i \/ Z.of_nat (length rest) = mod_bl i + 2)
                                  /\ r_burst m = Some (map (fun u => if u =? 255 then -127 else 127 - u) (firstn (Z.to_nat (mod_bl i)) rest))
            end)
        \/ (r_ver m = 1 /\ exists mts ci, r_ci m = Some ci /\ -32768 <= ci <= 32767 /\ 0 <= mts <= 255
            /\ mts_spec mts = (r_nope m, r_mod m, r_tset m, r_tsc m)
            /\ b = [1 * 16 + (tn + 8 * r); fn / 16777216 mod 256; fn / 65536 mod 256; fn / 256 mod 256; fn mod 256; - rssi;
                    toa mod 65536 / 256; toa mod 65536 mod 256] ++ [mts] ++ [ci mod 65536 / 256; ci mod 65536 mod 256] ++ rest
            /\ r_burst m = match rest with [] => None | _ :: _ => Some (map (fun u => if u =? 255 then -127 else 127 - u) rest) end)).
Proof. exact parse_rx_is_layout. Qed.
Print Assumptions c04_parse_rx_is_layout.

(* ---- Python -> C: every version-0 burst the toolkit encodes (legacy padding on or off, soft bits in [-127,127]) is handed by
   trx_data_rx_cb to trxcon's scheduler with the same frame, timeslot, RSSI, ToA256 and soft bits ---- *)
Theorem c04_py_to_c : forall m l b, gen_rx l m = Ok b -> r_ver m = 0 -> soft_ok m ->
  exists fn tn rssi toa bs, r_fn m = Some fn /\ r_tn m = Some tn /\ r_rssi m = Some rssi /\ r_toa m = Some toa /\ r_burst m = Some bs
    /\ c_data_rx b = RxInd tn fn rssi toa bs.
Proof. exact py_to_c. Qed.
Print Assumptions c04_py_to_c.

(* the corner outside the property's soft-bit domain: -128 validates, is sent as 255 and arrives as -127 *)
Theorem c04_py_to_c_m128 : forall m l b, gen_rx l m = Ok b -> r_ver m = 0 ->
  (match r_burst m with Some bs => Forall (fun s => -128 <= s <= 127) bs | None => True end) ->
  exists fn tn rssi toa bs, r_fn m = Some fn /\ r_tn m = Some tn /\ r_rssi m = Some rssi /\ r_toa m = Some toa /\ r_burst m = Some bs
    /\ c_data_rx b = RxInd tn fn rssi toa (map (fun s => if s =? -128 then -127 else s) bs).
Proof. exact py_to_c_gen. Qed.
Print Assumptions c04_py_to_c_m128.

(* trxcon speaks TRXD version 0 only: a version-1 message of the toolkit is refused (-ENOTSUP), nothing is delivered *)
Theorem c04_c_refuses_v1 : forall m l b, gen_rx l m = Ok b -> r_ver m = 1 -> c_data_rx b = RxBadVer.
Proof. exact c_rx_v1_refused. Qed.
Print Assumptions c04_c_refuses_v1.

(* ---- C -> Python: every burst trxcon emits (timeslot 0..7, any 32-bit frame number, attenuation 0..255, 148 or 444 hard-bit octets)
   is parsed by the toolkit as a version-0 message with exactly these values ---- *)
Theorem c04_c_to_py : forall tn fn pwr burst,
  0 <= tn <= 7 -> 0 <= fn < 4294967296 -> 0 <= pwr <= 255 -> Forall (fun b => 0 <= b < 256) burst ->
  (length burst = 148%nat \/ length burst = 444%nat) ->
  exists o, c_burst_req tn fn pwr burst = TxSent o /\
    parse_tx o = Ok {| t_ver := 0; t_fn := Some fn; t_tn := Some tn; t_pwr := Some pwr; t_burst := Some burst |}.
Proof. exact c_to_py. Qed.
Print Assumptions c04_c_to_py.

(* other burst lengths up to the 506 octets that fit trxcon's buffer: the octets are still the layout; the toolkit's parser cuts the burst
   (tx_parse_burst: > 444 -> 444, 149..443 -> 148, shorter kept) and reports no burst for length 0 *)
Theorem c04_c_to_py_any_length : forall tn fn pwr burst,
  0 <= tn <= 7 -> 0 <= fn < 4294967296 -> 0 <= pwr <= 255 -> Forall (fun b => 0 <= b < 256) burst -> (length burst <= 506)%nat ->
  exists o, c_burst_req tn fn pwr burst = TxSent o
    /\ o = [0 * 16 + tn; fn / 16777216 mod 256; fn / 65536 mod 256; fn / 256 mod 256; fn mod 256; pwr] ++ burst
    /\ parse_tx o = Ok {| t_ver := 0; t_fn := Some fn; t_tn := Some tn; t_pwr := Some pwr;
                          t_burst := match burst with [] => None | _ :: _ => Some (tx_parse_burst burst) end |}.
Proof. exact c_to_py_gen. Qed.
Print Assumptions c04_c_to_py_any_length.

(* beyond 506 octets the unchecked memcpy leaves uint8_t buf[512] (the scheduler never asks for that) *)
Theorem c04_c_tx_overflow_iff : forall tn fn pwr burst, (506 < length burst)%nat <-> c_burst_req tn fn pwr burst = TxOOB.
Proof. exact c_burst_req_oob. Qed.
Print Assumptions c04_c_tx_overflow_iff.

(* whatever trxcon sends has 6 + burst_len <= 512 octets: it fits the recvfrom(512) of the toolkit's data interface untruncated *)
Theorem c04_c_tx_fits_recv : forall tn fn pwr burst o, c_burst_req tn fn pwr burst = TxSent o ->
  (length o <= 512)%nat /\ length o = (6 + length burst)%nat.
Proof. exact c_burst_req_fits. Qed.
Print Assumptions c04_c_tx_fits_recv.

(* ---- for ALL octet strings trx_data_rx_cb reads only octets it received ---- *)
Theorem c04_c_rx_in_bounds : forall d, c_data_rx d <> RxOOB.
Proof. exact c_data_rx_safe. Qed.
Print Assumptions c04_c_rx_in_bounds.

(* and what it hands on is always a well-formed indication *)
Theorem c04_c_rx_ind_shape : forall d tn fn rssi toa bits, Forall (fun b => 0 <= b < 256) d -> c_data_rx d = RxInd tn fn rssi toa bits ->
  0 <= tn <= 7 /\ 0 <= fn < 2715648 /\ -128 <= rssi <= 127 /\ -32768 <= toa <= 32767
  /\ (length bits = 148%nat \/ length bits = 444%nat) /\ Forall (fun s => -127 <= s <= 127) bits.
Proof. exact c_data_rx_ind_shape. Qed.
Print Assumptions c04_c_rx_ind_shape.

(* the socket layer in between (data_if.py): the receive size of DATAInterface.recv_raw_data - probed through a socket on every run -
   holds the longest valid L1 -> TRX datagram (6 header octets + 444 bits + 2 legacy padding octets = 452), so what reaches the parser is
   the datagram as it was sent *)
From OBB Require Import Gen.FakeTrxConst Proofs.TrxdRecvSize.
Theorem c04_datagram_fits_receive_size : forall m l b, gen_tx l m = Ok b ->
  Z.of_nat (length b) <= 452 /\ 452 <= data_recv_size /\ firstn (Z.to_nat data_recv_size) b = b.
Proof. exact (fun m l b H => conj (proj1 (gen_tx_fits m l b H)) (conj (proj2 (gen_tx_fits m l b H)) (firstn_recv_id m l b H))). Qed.
Print Assumptions c04_datagram_fits_receive_size.
