(* C16 - declarative codec: encode and decode are mutually inverse and length-exact. Statements only. *)
From Coq Require Import ZArith List Bool.
From OBB Require Import Base.Bits Model.Codec Proofs.CodecInt.
Import ListNotations.
Open Scope Z_scope.

(* integer leaf, any width n >= 1, either byte order, signed or unsigned: what int.to_bytes produced is read back
   by int.from_bytes, has exactly n octets, and all of them are octets *)
Theorem c16_int_roundtrip : forall n le sg x b, (1 <= n)%nat ->
  enc_int n le sg x = Ok b -> dec_int le sg b = x /\ length b = n /\ Forall (fun o => 0 <= o < 256) b.
Proof. exact int_rt. Qed.
Print Assumptions c16_int_roundtrip.
