(* C16 - declarative codec (trx_toolkit/codec.py): encode and decode are mutually inverse and length-exact.
   Statements only.  Model/Codec.v: `field` = deep embedding of protocol definitions (Uint/Int of any width, byte order,
   sign, offset, multiplier; Buf; Spare; MSB/LSB bit-field sets; nested envelopes; sequences; table-shaped presence and
   length callbacks), `encode`/`decode` = Envelope.to_bytes / Envelope(check_len).from_bytes.
   `fits fs e e0 R cv u` (Proofs/CodecRT.v): dict e supplies encodable values for definition fs; u = octets of the
   encoding; cv = what the decoder appends to e0 when R octets follow.  `wfb` (Model) = well-formed definition. *)
From Coq Require Import ZArith List Bool.
From OBB Require Import Gen.CodecConst Base.Bits Model.Codec Proofs.CodecInt Proofs.CodecBits Proofs.CodecRT Proofs.CodecDE Proofs.CodecErr Proofs.CodecCanon Proofs.CodecExact Proofs.CodecEx Proofs.CodecTop.
Import ListNotations.
Open Scope Z_scope.

(* the class defaults the embedding relies on, as imported from the source: Field.DEF_LEN = 0 (whole buffer), Uint 1 octet,
   Uint16/Int16 2, Uint32/Int32 4, offset 0, mult 1, Spare filler 0x00, bit-field sets MSB first *)
Theorem c16_constants :
  py_field_def_len = 0 /\ py_uint_def_len = 1 /\ py_uint16_len = 2 /\ py_uint32_len = 4 /\ py_int16_len = 2 /\ py_int32_len = 4 /\
  py_uint_def_offset = 0 /\ py_uint_def_mult = 1 /\ py_spare_filler = 0 /\ py_bits_def_order_msb = 1.
Proof. exact codec_consts. Qed.
Print Assumptions c16_constants.

(* ------------------------------------------------------------------ integer leaves
   int_range n sg x  :=  if sg then -(256^n / 2) <= x < 256^n / 2 else 0 <= x < 256^n   (Proofs/CodecInt.v) *)
(* any width n >= 1, either byte order, signed or unsigned: int.from_bytes reads back what int.to_bytes wrote, n octets *)
Theorem c16_int_roundtrip : forall n le sg x b, (1 <= n)%nat ->
  enc_int n le sg x = Ok b -> dec_int le sg b = x /\ length b = n /\ Forall (fun o => 0 <= o < 256) b.
Proof. exact int_rt. Qed.
Print Assumptions c16_int_roundtrip.

(* conversely every string of n >= 1 octets is the encoding of the integer it decodes to, and that integer is in range *)
Theorem c16_int_decode_encode : forall le sg b, Forall (fun o => 0 <= o < 256) b -> (1 <= length b)%nat ->
  enc_int (length b) le sg (dec_int le sg b) = Ok b /\ int_range (length b) sg (dec_int le sg b).
Proof. exact int_decode_encode. Qed.
Print Assumptions c16_int_decode_encode.

(* an integer is unencodable exactly outside the two's-complement / unsigned range: OverflowError (Crash 2 at field level) *)
Theorem c16_int_overflow : forall n le sg x, (1 <= n)%nat ->
  ~ int_range n sg x -> enc_int n le sg x = Crash 2.
Proof. exact enc_int_overflow. Qed.
Print Assumptions c16_int_overflow.

(* offset and multiplier: (v - offset) // mult undoes raw * mult + offset for every non-zero multiplier (negative included) *)
Theorem c16_offset_mult : forall raw off mult, mult <> 0 -> (raw * mult + off - off) / mult = raw.
Proof. exact offmult_rt. Qed.
Print Assumptions c16_offset_mult.

(* ------------------------------------------------------------------ bit-field sets *)
(* `(val & mask) << offset`: only val mod 2^bl enters the blob, for every integer val *)
Theorem c16_bits_mask : forall v bl o, 0 <= bl ->
  Z.shiftl (Z.land v (2 ^ bl - 1)) o = Z.shiftl (Z.land (v mod 2 ^ bl) (2 ^ bl - 1)) o.
Proof. exact bf_contrib_mod. Qed.
Print Assumptions c16_bits_mask.

(* a whole set, MSB or LSB first, with spares, fixed values and padding: packing the values (ANY integers) and reading the
   octets back stores, for every named field, its own value reduced modulo 2^bl - an over-wide value is truncated to its
   width and no neighbouring field is disturbed.  bits_fit lists e's value z of each named field as (name, z mod 2^bl). *)
Theorem c16_bits_truncate : forall l lsb bfs e cv e0,
  (1 <= bits_len l bfs)%nat /\ (bits_total bfs <= 8 * bits_len l bfs)%nat ->
  bits_fit (bits_order lsb bfs) e cv -> fresh e0 cv ->
  exists blob b, enc_bits (bits_layout l lsb bfs) e 0 = Ok blob /\
    enc_int (bits_len l bfs) false false blob = Ok b /\ length b = bits_len l bfs /\ Forall (fun o => 0 <= o < 256) b /\
    dec_bits (bits_layout l lsb bfs) (from_be b) e0 = Ok (e0 ++ cv).
Proof. exact bits_enc_dec. Qed.
Print Assumptions c16_bits_truncate.

(* ------------------------------------------------------------------ encode then decode, every definition *)
(* decoding the encoding returns the fitting values and consumes exactly the octets of the encoding, with and without
   the tail check (all constructs: flat, bit-field sets, nesting, sequences, presence / length callbacks) *)
Theorem c16_enc_dec : forall fs e cv u b chk,
  fits fs e [] 0 cv u /\ NoDup (keys cv) -> encode fs e = Ok b ->
  decode chk fs b = Ok (cv, length b) /\ length b = u.
Proof. exact enc_dec_top. Qed.
Print Assumptions c16_enc_dec.

(* for a dict that holds exactly the present fields in field order: decode (encode v) = v *)
Theorem c16_enc_dec_exact : forall fs v u b,
  fits fs v [] 0 v u /\ NoDup (keys v) -> encode fs v = Ok b -> decode true fs b = Ok (v, length b).
Proof. exact enc_dec_exact. Qed.
Print Assumptions c16_enc_dec_exact.

(* the decoded message is canonical: encoding it reproduces the octets of the original encoding *)
Theorem c16_reencode_canonical : forall fs e cv u b,
  fits fs e [] 0 cv u /\ NoDup (keys cv) -> encode fs e = Ok b ->
  decode true fs b = Ok (cv, length b) /\ encode fs cv = Ok b.
Proof. exact reencode_canonical. Qed.
Print Assumptions c16_reencode_canonical.

(* ------------------------------------------------------------------ decode then encode, every well-formed definition *)
(* whatever octets decode successfully: the message fits (so c16_enc_dec applies to it), re-encodes to exactly the n
   consumed octets, and the re-encoding (followed by the same trailing octets) decodes to the same message - the
   re-encoding can differ from the input only where the decoder ignores the input (spare octets/bits, padding bits) *)
Theorem c16_dec_enc : forall chk fs data v n,
  wfb fs = true -> Forall (fun o => 0 <= o < 256) data -> decode chk fs data = Ok (v, n) ->
  (n <= length data)%nat /\ fits fs v [] (length data - n) v n /\ NoDup (keys v) /\
  exists b', encode fs v = Ok b' /\ length b' = n /\ decode chk fs (b' ++ skipn n data) = Ok (v, n).
Proof. exact dec_enc_top. Qed.
Print Assumptions c16_dec_enc.

(* literal agreement: if the definition has no spare octets, no spare bit-fields and no padding bits (spare_free), the
   re-encoding IS the consumed input, octet for octet *)
Theorem c16_dec_enc_exact : forall chk fs data v n,
  wfb fs = true -> spare_free fs = true -> Forall (fun o => 0 <= o < 256) data -> decode chk fs data = Ok (v, n) ->
  encode fs v = Ok (firstn n data).
Proof. exact dec_enc_exact. Qed.
Print Assumptions c16_dec_enc_exact.

(* ------------------------------------------------------------------ errors *)
(* the Envelope API raises only its own errors: decode gives Ok / DecodeErr / (OutOfFuel), encode gives Ok / EncodeErr;
   Crash only as 9 = ProtocolError of a definition the constructors reject *)
Theorem c16_results_closed : forall chk fs data e,
  match decode chk fs data with Ok _ | DecodeErr _ | OutOfFuel => True | EncodeErr _ => False | Crash c => c = 9 /\ proto_ok fs = false end /\
  match encode fs e with Ok _ | EncodeErr _ | OutOfFuel => True | DecodeErr _ => False | Crash c => c = 9 /\ proto_ok fs = false end.
Proof. exact results_closed. Qed.
Print Assumptions c16_results_closed.

(* encoding always terminates; decoding terminates whenever every sequence item has an always-present field of fixed
   length >= 1 (otherwise the Python `while offset < length` loop spins: the model's OutOfFuel) *)
Theorem c16_terminates : forall chk fs data e,
  encode fs e <> OutOfFuel /\ (seq_ok fs = true -> decode chk fs data <> OutOfFuel).
Proof. exact terminates. Qed.
Print Assumptions c16_terminates.

(* Field.from_bytes: "Short read" exactly when fewer octets remain than the field needs *)
Theorem c16_short_read_field : forall recd recs f e data n,
  get_pres (fpres f) e = Ok true -> get_len_f f e (length data) = Ok n -> (length data < n)%nat ->
  dec_field recd recs f e data = DecodeErr 0.
Proof. exact short_field. Qed.
Print Assumptions c16_short_read_field.

(* a definition of static size a (no optional / variable-length field at top level): fewer than a octets are rejected
   with DecodeError, and a successful decode consumes exactly a octets *)
Theorem c16_short_input : forall chk fs data a,
  proto_ok fs = true -> seq_ok fs = true -> static_len fs = Some a -> (length data < a)%nat ->
  exists c, decode chk fs data = DecodeErr c.
Proof. exact short_input. Qed.
Print Assumptions c16_short_input.

(* trailing octets after a valid encoding: rejected by the tail check, left unconsumed without it *)
Theorem c16_trailing : forall fs e cv u b t,
  fits fs e [] (length t) cv u -> NoDup (keys cv) -> encode fs e = Ok b -> t <> [] ->
  decode true fs (b ++ t) = DecodeErr 0 /\ decode false fs (b ++ t) = Ok (cv, length b).
Proof. exact trailing. Qed.
Print Assumptions c16_trailing.

(* a definition that starts with an always-present bit-field set (the TRXD header): a fixed field reading anything but
   its fixed value is the codec's own DecodeError *)
Theorem c16_fixed_mismatch : forall chk l lsb bfs fs data k bl c o m,
  proto_ok (FBits l PAlways lsb bfs :: fs) = true -> (bits_len l bfs <= length data)%nat ->
  In (BitF (Some k) bl (Some c), o, m) (bits_layout l lsb bfs) ->
  Z.land (Z.shiftr (from_be (firstn (bits_len l bfs) data)) o) m <> c ->
  decode chk (FBits l PAlways lsb bfs :: fs) data = DecodeErr 0.
Proof. exact fixed_mismatch. Qed.
Print Assumptions c16_fixed_mismatch.

(* ... and for a fixed-value bit-field in ANY position of the top level of a well-formed definition: whenever decode
   succeeds, the field holds its fixed value - so a mismatch is never accepted (with c16_results_closed and
   c16_terminates the outcome is then a DecodeError) *)
Theorem c16_fixed_values_hold : forall chk fs data v n l p lsb bfs k bl c,
  wfb fs = true -> Forall (fun o => 0 <= o < 256) data -> decode chk fs data = Ok (v, n) ->
  In (FBits l p lsb bfs) fs -> get_pres p v = Ok true -> In (BitF (Some k) bl (Some c)) bfs -> lookup k v = Some (VInt c).
Proof. exact fixed_values_hold. Qed.
Print Assumptions c16_fixed_values_hold.

(* an integer outside the range of its field anywhere in the definition: EncodeError *)
Theorem c16_unencodable_int : forall fs e nm n p le sg off mult z,
  proto_ok fs = true -> In (FUint nm (LFix n) p le sg off mult) fs -> (1 <= n)%nat -> get_pres p e = Ok true ->
  lookup nm e = Some (VInt z) -> mult <> 0 ->
  ~ int_range n sg ((z - off) / mult) -> exists c, encode fs e = EncodeErr c.
Proof. exact unencodable_int. Qed.
Print Assumptions c16_unencodable_int.

(* a buffer whose length differs from the fixed length of its field: EncodeError *)
Theorem c16_wrong_length_buffer : forall fs e nm n p b,
  proto_ok fs = true -> In (FBuf nm (LFix (S n)) p) fs -> get_pres p e = Ok true ->
  lookup nm e = Some (VBytes b) -> length b <> S n -> exists c, encode fs e = EncodeErr c.
Proof. exact wrong_length_buffer. Qed.
Print Assumptions c16_wrong_length_buffer.

(* a missing value (KeyError inside the field) is wrapped into EncodeError *)
Theorem c16_missing_value : forall fs e nm l p le sg off mult,
  proto_ok fs = true -> In (FUint nm l p le sg off mult) fs -> get_pres p e = Ok true -> lookup nm e = None ->
  exists c, encode fs e = EncodeErr c.
Proof. exact missing_value. Qed.
Print Assumptions c16_missing_value.

(* REFUTED strengthening, recorded finding c16-varlen-buf-length-not-enforced: a buffer whose length disagrees with the
   length its field declares through a get_len callback is NOT rejected (only `len=n` is enforced by Field.to_bytes):
   m = 1 selects 3 octets, the 2-octet buffer encodes to 01 01 02 without error, and that encoding does not decode.
   This is why c16_enc_dec carries the hypothesis `get_len l e0 L = Ok (length b)` inside `fits` (constructor fits_buf). *)
Theorem c16_varlen_buf_unchecked_refuted :
  wfb [FUint 0 (LFix 1) PAlways false false 0 1; FBuf 1 (LTab 0 [(0, 2%nat); (1, 3%nat)]) PAlways] = true /\
  get_len (LTab 0 [(0, 2%nat); (1, 3%nat)]) [(0%nat, VInt 1); (1%nat, VBytes [1; 2])] 0 = Ok 3%nat /\
  encode [FUint 0 (LFix 1) PAlways false false 0 1; FBuf 1 (LTab 0 [(0, 2%nat); (1, 3%nat)]) PAlways]
         [(0%nat, VInt 1); (1%nat, VBytes [1; 2])] = Ok [1; 1; 2] /\
  decode true [FUint 0 (LFix 1) PAlways false false 0 1; FBuf 1 (LTab 0 [(0, 2%nat); (1, 3%nat)]) PAlways] [1; 1; 2] = DecodeErr 0 /\
  ~ (forall fs e nm l p b n, wfb fs = true -> In (FBuf nm l p) fs -> get_pres p e = Ok true -> lookup nm e = Some (VBytes b) ->
       get_len l e 0 = Ok n -> length b <> n -> exists c, encode fs e = EncodeErr c).
Proof. exact varlen_buf_unchecked_refuted. Qed.
Print Assumptions c16_varlen_buf_unchecked_refuted.

(* ------------------------------------------------------------------ non-vacuity: one definition using every construct *)
Theorem c16_example :
  wfb ex_def = true /\ proto_ok ex_def = true /\ seq_ok ex_def = true /\
  (fits ex_def ex_val [] 0 ex_val 17 /\ NoDup (keys ex_val)) /\
  encode ex_def ex_in = Ok ex_bytes /\ encode ex_def ex_val = Ok ex_bytes /\ decode true ex_def ex_bytes = Ok (ex_val, 17%nat).
Proof. exact example_all. Qed.
Print Assumptions c16_example.

Theorem c16_example_spare_free :
  wfb ex2_def = true /\ spare_free ex2_def = true /\ Forall (fun o => 0 <= o < 256) ex2_bytes /\
  decode true ex2_def ex2_bytes = Ok (ex2_val, 12%nat) /\ encode ex2_def ex2_val = Ok ex2_bytes.
Proof. exact ex2_all. Qed.
Print Assumptions c16_example_spare_free.

Theorem c16_example_errors :
  decode true ex_def (firstn 16 ex_bytes) = DecodeErr 0 /\
  decode true ex_def (ex_bytes ++ [0]) = DecodeErr 1 /\
  decode true ex_def (21 :: tl ex_bytes) = DecodeErr 0 /\
  decode true ex_def (firstn 4 ex_bytes ++ [160] ++ skipn 5 ex_bytes) = DecodeErr 1 /\
  encode ex_def (eset 2%nat (VInt 100000) ex_val) = EncodeErr 2 /\
  encode ex_def (eset 6%nat (VBytes [1;2]) ex_val) = Ok (firstn 7 ex_bytes ++ skipn 8 ex_bytes) /\
  encode ex_def (tl ex_val) = Ok ex_bytes /\
  encode ex_def (tl (tl ex_val)) = EncodeErr 1.
Proof. exact ex_errors. Qed.
Print Assumptions c16_example_errors.
