(* C05 - every TRXC command gets exactly one well-formed response with documented effect. Statements only. *)
From Coq Require Import ZArith List Bool Lia.
From OBB Require Import Gen.TrxIfConst Model.TrxIf Proofs.TrxIfP Proofs.TrxIfCtrlP Proofs.TrxCtrlIf.
From OBB Require Import Base.Dec Gen.TrxdConst Gen.FakeTrxConst Model.Trxd Model.Trx
  Proofs.TrxDrop Proofs.TrxMeta Proofs.TrxInv Proofs.TrxCtrl Proofs.TrxSession.
Import ListNotations.
Open Scope Z_scope.

(* for every (ASCII) control datagram, on any reachable world: a datagram that does not begin with 'CMD' gets no reply and changes
   nothing; one that does gets exactly one reply 'RSP <verb> <status> <original arguments> [results]' NUL, <verb>/<arguments> being the
   tokens of the request *)
Theorem c05_one_reply : forall w i data draws, wf_world w -> (i < length (w_trx w))%nat -> ascii data ->
  let '(w', out, _) := handle_rx w i data draws in
  (starts s_CMD (firstn (Z.to_nat ctrl_recv_size) data) = false -> out = RNone /\ w' = w) /\
  (starts s_CMD (firstn (Z.to_nat ctrl_recv_size) data) = true ->
     exists verb args rc extra, tokens w data = verb :: args /\
       out = RReply (s_RSP ++ join_sp (verb :: py_str rc :: args ++ extra) ++ [0])).
Proof. exact one_reply. Qed.
Print Assumptions c05_one_reply.

(* --- the command table, requests = [verb; decimal arguments] --- *)
Theorem c05_poweron : forall w i t draws, nth_error (w_trx w) i = Some t ->
  parse_cmd w i [v_POWERON] draws =
    if x_run t then (w, CStatus (-1) [], draws) else if ready t then (power_event w i true, CStatus 0 [], draws) else (w, CStatus (-1) [], draws).
Proof. exact cmd_poweron. Qed.
Print Assumptions c05_poweron.

Theorem c05_poweroff : forall w i t draws, nth_error (w_trx w) i = Some t -> parse_cmd w i [v_POWEROFF] draws = (power_event w i false, CStatus 0 [], draws).
Proof. exact cmd_poweroff. Qed.
Print Assumptions c05_poweroff.

Theorem c05_tune : forall w i t a draws, nth_error (w_trx w) i = Some t ->
  parse_cmd w i [v_RXTUNE; py_str a] draws = (upd_trx w i (fun t => set_rx t (Some (a * 1000))), CStatus 0 [], draws) /\
  parse_cmd w i [v_TXTUNE; py_str a] draws = (upd_trx w i (fun t => set_tx t (Some (a * 1000))), CStatus 0 [], draws).
Proof. exact (fun w i t a draws H => conj (cmd_rxtune w i t a draws H) (cmd_txtune w i t a draws H)). Qed.
Print Assumptions c05_tune.

(* SETFORMAT: out of range -> -1; known version -> applied and echoed; otherwise the highest supported lower version (1) is suggested *)
Theorem c05_setformat : forall w i t v draws, nth_error (w_trx w) i = Some t ->
  parse_cmd w i [v_SETFORMAT; py_str v] draws =
    if (v <? 0) || (v >? 15) then (w, CStatus (-1) [], draws)
    else if (v =? 0) || (v =? 1) then (upd_trx w i (fun t => set_ver t v), CStatus v [], draws)
    else (w, CStatus 1 [], draws).
Proof. exact cmd_setformat. Qed.
Print Assumptions c05_setformat.

(* SETFH <hsn> <maio> <rx1> <tx1> ... : any number >= 1 of frequency pairs; -1 iff HSN outside 0..63; otherwise the hopping
   parameters are exactly those sent (kHz -> Hz), nothing truncated *)
Theorem c05_setfh_effect : forall w i t hsn maio ma draws, nth_error (w_trx w) i = Some t -> ma <> [] ->
  parse_cmd w i (v_SETFH :: py_str hsn :: py_str maio :: map py_str (flat_map (fun p => [fst p; snd p]) ma)) draws =
    if (hsn <? 0) || (63 <? hsn) then (w, CStatus (-1) [], draws)
    else (upd_trx w i (fun t => set_fh t (Some {| fh_hsn := hsn; fh_maio := maio; fh_ma := map (fun p => (fst p * 1000, snd p * 1000)) ma |})), CStatus 0 [], draws).
Proof. exact cmd_setfh. Qed.
Print Assumptions c05_setfh_effect.

Theorem c05_measure : forall w i t a draws, nth_error (w_trx w) i = Some t ->
  parse_cmd w i [v_MEASURE; py_str a] draws =
    if negb (c_pm (x_cfg t)) then (w, CStatus (-1) [], draws)
    else match randint (if pm_match (w_trx w) (a * 1000) then -75 else -120) (if pm_match (w_trx w) (a * 1000) then -50 else -105) draws with
         | Some (v, d') => (w, CStatus 0 [py_str v], d')
         | None => (w, CCrash, draws)
         end.
Proof. exact cmd_measure. Qed.
Print Assumptions c05_measure.

Theorem c05_power_params : forall w i t a draws, nth_error (w_trx w) i = Some t ->
  parse_cmd w i [v_SETPOWER; py_str a] draws =
    (upd_trx w i (fun t0 => set_sim t0 (let s := x_sim t in sim_set s (s_muted s) (s_fake_rssi s) (s_txp s) a (s_toa s) (s_toa_thr s) (s_rssi s) (s_rssi_thr s) (s_ci s) (s_ci_thr s) (s_ta s) (s_drop s) (s_period s) (s_delay s))),
     CStatus 0 [], draws) /\
  parse_cmd w i [v_NOMTXPOWER] draws = (w, CStatus 0 [py_str (s_txp (x_sim t))], draws) /\
  parse_cmd w i [v_RFMUTE; py_str a] draws =
    (upd_trx w i (fun t0 => set_sim t0 (let s := x_sim t in sim_set s (0 <? a) (s_fake_rssi s) (s_txp s) (s_att s) (s_toa s) (s_toa_thr s) (s_rssi s) (s_rssi_thr s) (s_ci s) (s_ci_thr s) (s_ta s) (s_drop s) (s_period s) (s_delay s))),
     CStatus 0 [], draws).
Proof. exact (fun w i t a draws H => conj (cmd_setpower w i t a draws H) (conj (cmd_nomtxpower w i t draws H) (cmd_rfmute w i t a draws H))). Qed.
Print Assumptions c05_power_params.

(* simulation commands: SETTA, FAKE_TOA / FAKE_CI (absolute: negative threshold -> -1, nothing stored), FAKE_TOA relative, FAKE_RSSI (negative threshold disables) *)
Theorem c05_fake_commands : forall s a b,
  fake_handler s [v_SETTA; py_str a] =
    (sim_set s (s_muted s) (s_fake_rssi s) (s_txp s) (s_att s) (s_toa s) (s_toa_thr s) (s_rssi s) (s_rssi_thr s) (s_ci s) (s_ci_thr s) a (s_drop s) (s_period s) (s_delay s), Some (CStatus 0 [])) /\
  fake_handler s [v_FAKE_TOA; py_str a; py_str b] =
    (if b <? 0 then (s, Some (CStatus (-1) []))
     else (sim_set s (s_muted s) (s_fake_rssi s) (s_txp s) (s_att s) a b (s_rssi s) (s_rssi_thr s) (s_ci s) (s_ci_thr s) (s_ta s) (s_drop s) (s_period s) (s_delay s), Some (CStatus 0 []))) /\
  fake_handler s [v_FAKE_TOA; py_str a] =
    (sim_set s (s_muted s) (s_fake_rssi s) (s_txp s) (s_att s) (s_toa s + a) (s_toa_thr s) (s_rssi s) (s_rssi_thr s) (s_ci s) (s_ci_thr s) (s_ta s) (s_drop s) (s_period s) (s_delay s), Some (CStatus 0 [])) /\
  fake_handler s [v_FAKE_RSSI; py_str a; py_str b] =
    (if b <? 0 then (sim_set s (s_muted s) false (s_txp s) (s_att s) (s_toa s) (s_toa_thr s) (s_rssi s) (s_rssi_thr s) (s_ci s) (s_ci_thr s) (s_ta s) (s_drop s) (s_period s) (s_delay s), Some (CStatus 0 []))
     else (sim_set s (s_muted s) true (s_txp s) (s_att s) (s_toa s) (s_toa_thr s) a b (s_ci s) (s_ci_thr s) (s_ta s) (s_drop s) (s_period s) (s_delay s), Some (CStatus 0 []))) /\
  fake_handler s [v_FAKE_CI; py_str a; py_str b] =
    (if b <? 0 then (s, Some (CStatus (-1) []))
     else (sim_set s (s_muted s) (s_fake_rssi s) (s_txp s) (s_att s) (s_toa s) (s_toa_thr s) (s_rssi s) (s_rssi_thr s) a b (s_ta s) (s_drop s) (s_period s) (s_delay s), Some (CStatus 0 []))).
Proof. exact (fun s a b => conj (fake_setta s a) (conj (fake_toa2 s a b) (conj (fake_toa1 s a) (conj (fake_rssi2 s a b) (fake_ci2 s a b))))). Qed.
Print Assumptions c05_fake_commands.

(* unknown verbs and known verbs with another argument count: acknowledged with 0, no effect *)
Theorem c05_unknown : forall w i t req draws, nth_error (w_trx w) i = Some t ->
  (forall v n, verb_is req v n = false) -> (forall v n, verb_va req v n = false) -> parse_cmd w i req draws = (w, CStatus 0 [], draws).
Proof. exact cmd_unknown. Qed.
Print Assumptions c05_unknown.

(* no command, whatever its tokens, crashes the handler or leaves the reachable region (thresholds >= 0, period > 0, HSN 0..63) *)
Theorem c05_parse_cmd_total : forall w i req draws, wf_world w -> (i < length (w_trx w))%nat ->
  let '(w', r, _) := parse_cmd w i req draws in wf_world w' /\ length (w_trx w') = length (w_trx w) /\ r <> CCrash.
Proof. exact parse_cmd_inv. Qed.
Print Assumptions c05_parse_cmd_total.

(* --- trxcon (trx_if.c) --- *)
(* whichever command trxcon has emitted, the toolkit's reply 'RSP <verb> <status>[ <anything>]' is matched by trxcon's parser - never a
   mismatch, never a crash - and decided by the status alone *)
Theorem c05_trxcon_accepts : forall c rc q crit text st tail,
  c_phyif_cmd c = CmdQ rc q -> In (crit, text) q ->
  -2147483648 <= st <= 2147483647 -> not_digit_head tail ->
  exists V, In V verbs /\ firstn (length V) (skipn 4 (cstr0 text)) = V /\
    ((length (TrxIf.s_RSP ++ V ++ [SP] ++ dec_d st ++ tail) <= 1023)%nat -> V <> TrxIf.v_MEASURE \/ st <> 0 ->
     accepted_or_rejected (c_ctrl_rsp (Some (crit, text)) (TrxIf.s_RSP ++ V ++ [SP] ++ dec_d st ++ tail)) crit st).
Proof. exact c_ctrl_accepts_wellformed. Qed.
Print Assumptions c05_trxcon_accepts.

(* the longest command trxcon can compose (SETFH, any hopping parameters) fits the toolkit's control receive size, so it is never cut *)
Theorem c05_setfh_fits : forall hsn maio ma rc q crit text,
  c_phyif_cmd (PSetFreqH1 hsn maio ma) = CmdQ rc q -> In (crit, text) q -> Z.of_nat (length text) + 1 <= ctrl_recv_size.
Proof. exact setfh_fits. Qed.
Print Assumptions c05_setfh_fits.

(* a refused command - negative status, whatever the verb and the arguments - changes nothing at all: not the addressed
   transceiver, not any other, not the pending random draws (checked on the implementation after every refused or ignored
   control datagram of every session: state digest before = state digest after) *)
Theorem c05_refused_no_effect : forall w i req draws w' rc ex d', (i < length (w_trx w))%nat ->
  parse_cmd w i req draws = (w', CStatus rc ex, d') -> rc < 0 -> w' = w /\ d' = draws.
Proof. exact refused_no_effect. Qed.
Print Assumptions c05_refused_no_effect.

(* the SETFH command trxcon emits carries exactly the hopping list it was given - HSN, MAIO, then '<rx kHz> <tx kHz>' of EVERY channel
   in order - or trxcon returns an error and queues nothing (a channel without a frequency, or more text than the 999 characters of
   room in ma_buf[1000]: 63 channels of the DCS / PCS bands) *)
From OBB Require Import Proofs.TrxIfSetfhP.
Theorem c05_setfh_carries_exactly_the_list : forall hsn maio ma rc q,
  c_phyif_cmd (PSetFreqH1 hsn maio ma) = CmdQ rc q ->
  (rc = 0 -> ma <> [] /\ Forall freq_defined ma /\ Z.of_nat (length (setfh_pairs ma)) <= 999 /\
             q = [(true, c_ctrl_cmd v_SETFH (dec_u (u8 hsn) ++ [SP] ++ dec_u (u8 maio) ++ [SP] ++ removelast (setfh_pairs ma)))]) /\
  (rc <> 0 -> q = [] /\ (ma = [] \/ ~ Forall freq_defined ma \/ 999 < Z.of_nat (length (setfh_pairs ma)))).
Proof. exact setfh_carries_list. Qed.
Print Assumptions c05_setfh_carries_exactly_the_list.
