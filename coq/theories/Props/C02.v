(* C02 - virtual Um routing: bursts reach exactly the tuned, running peers. Statements only. *)
From Coq Require Import ZArith List Bool.
From OBB Require Import Model.Trxd Model.Trx Proofs.TrxMeta Proofs.TrxFwd Proofs.TrxInv Proofs.TrxTick.
Import ListNotations.
Open Scope Z_scope.

(* forward_msg for a burst m of transceiver src_i in ANY set of transceivers (any number, any state): handle_data_msg is called
   for exactly those k with k <> src_i, running, and Rx frequency in frame FN (fixed, or resolved through its own hopping
   sequence) equal to the sender's Tx frequency in frame FN - one call each, in list order; nobody else is touched *)
Theorem c02_routing : forall trxs src_i m draws trxs' ds draws' src txf,
  nth_error trxs src_i = Some src -> tx_freq src (oz (t_fn m)) = FOk txf ->
  forward trxs src_i m draws = (trxs', ds, draws', false) ->
  map fst ds = rcpts src_i txf (oz (t_fn m)) trxs 0
  /\ NoDup (map fst ds)
  /\ (forall k, In k (map fst ds) <-> exists t, nth_error trxs k = Some t /\ k <> src_i /\ x_run t = true
                                      /\ exists rf, rx_freq t (oz (t_fn m)) = FOk rf /\ opt_eqb rf txf = true)
  /\ length trxs' = length trxs.
Proof. exact forward_routing. Qed.
Print Assumptions c02_routing.

(* nothing is delivered back to the sender *)
Theorem c02_not_to_sender : forall trxs src_i m draws trxs' ds draws' src txf,
  nth_error trxs src_i = Some src -> tx_freq src (oz (t_fn m)) = FOk txf -> forward trxs src_i m draws = (trxs', ds, draws', false) ->
  ~ In src_i (map fst ds).
Proof. exact forward_not_self. Qed.
Print Assumptions c02_not_to_sender.

(* in every state any history of control / data datagrams can reach (wf_trx: see c14) forwarding never fails (the 'false' above),
   and it changes nobody's queue, tuning, power state, version or wiring *)
Theorem c02_forward_total : forall trxs i m draws, Forall wf_trx trxs -> 0 <= oz (t_fn m) ->
  let '(trxs', _, _, crashed) := forward trxs i m draws in crashed = false /\ Forall wf_trx trxs'.
Proof. exact forward_ok. Qed.
Print Assumptions c02_forward_total.

Theorem c02_forward_frame : forall trxs i m draws, Forall wf_trx trxs -> 0 <= oz (t_fn m) ->
  let '(trxs', _, _, _) := forward trxs i m draws in
  length trxs' = length trxs /\
  forall k t, nth_error trxs' k = Some t -> exists t0, nth_error trxs k = Some t0
    /\ x_run t = x_run t0 /\ x_rx t = x_rx t0 /\ x_tx t = x_tx t0 /\ x_fh t = x_fh t0 /\ x_ver t = x_ver t0 /\ x_q t = x_q t0 /\ x_cfg t = x_cfg t0.
Proof. exact forward_frame. Qed.
Print Assumptions c02_forward_frame.

(* hopping parameters SETFH accepts (HSN 0..63, non-empty mobile allocation) always resolve to a frequency *)
Theorem c02_hopping_resolves : forall h fn, 0 <= fh_hsn h <= 63 -> fh_ma h <> [] -> 0 <= fn -> fh_resolve h fn <> None.
Proof. exact fh_resolve_total. Qed.
Print Assumptions c02_hopping_resolves.

(* the clock tick dispatches to every transceiver: it never fails on a reachable world and keeps it reachable *)
Theorem c02_tick_dispatch : forall w fn draws, wf_world w -> 0 <= fn ->
  let '(w', _, out) := tick w fn draws in o_crash out = false /\ wf_world w' /\ length (w_trx w') = length (w_trx w).
Proof. exact tick_ok. Qed.
Print Assumptions c02_tick_dispatch.
