(* C20 - Mobile Allocation decoding selects exactly the flagged cell channels. Statements only.
   Model: Model/MobAlloc.v (gsm48_decode_mobile_alloc of layer23 sysinfo.c, checked array accesses).
   freq = the 1024-entry table of uint8_t masks, ma/len = the bitmap octets and their number, hop/hl = the caller's
   hopping[64] buffer and hopp_len before the call, si4 = the C flag (non-zero: maintain FREQ_TYPE_HOPP in the table).
   Specification side (all in Model/MobAlloc.v, literal numbers):
     serving freq a    := mask of ARFCN a has bit 0x01 (FREQ_TYPE_SERV)
     cell_alloc freq   := filter (serving freq) ([1; 2; ...; 1023] ++ [0])              ascending ARFCN, ARFCN 0 last
     ma_bit ma len i   := bit (i mod 8) of octet ma[len - 1 - i / 8]
     cut n bits        := the prefix of bits before the first element >= n
     spec_hopping freq ma len := [cell_alloc[i] | i <- cut |cell_alloc| [i <- 0 .. 8*len-1 | ma_bit ma len i]]
   Results: Ok rc state | OOB (access outside freq[1024], ma[], hopping[] or the local uint16_t f[64]). *)
From Coq Require Import ZArith List.
From OBB Require Import Base.Range Gen.MobAllocConst Model.MobAlloc Proofs.MobAllocP.
Import ListNotations.
Open Scope Z_scope.

(* the values the source currently has (Gen is regenerated from sysinfo.h / errno.h / gsm48_ie.h / the declaration of f in sysinfo.c on every run) *)
Theorem c20_constants :
  c_FREQ_TYPE_SERV = 1 /\ c_FREQ_TYPE_HOPP = 2 /\ c_FREQ_TABLE_SIZE = 1024 /\ c_HOPPING_SIZE = 64 /\ c_EINVAL = 22 /\ c_FREQ_ENTRY_SIZE = 1 /\ c_F_CAPACITY = 64.
Proof. exact constants. Qed.
Print Assumptions c20_constants.

(* the model's structural traversal of the table is the indexed loop  for (i = 1; i <= 1024; i++) ... freq[i & 1023] *)
Theorem c20_visit_order : forall freq, Zlength freq = 1024 ->
  visit freq = map (fun i => (Z.land i 1023, zn freq (Z.land i 1023))) (range 1 1025).
Proof. exact visit_faithful. Qed.
Print Assumptions c20_visit_order.

(* for EVERY table (any subset of ARFCN 0..1023 as cell allocation, any size), every bitmap of 0..8 octets:
   return code 0, hopping[0 .. n-1] is exactly the specified list, the rest of the buffer is untouched, hopp_len = n *)
Theorem c20_spec : forall freq ma len hop hl si4,
  Zlength freq = 1024 -> 0 <= len <= 8 -> len <= Zlength ma -> Zlength hop = 64 ->
  exists freq', decode freq ma len hop hl si4 =
    Ok 0 (mkst freq' (spec_hopping freq ma len ++ skipn (length (spec_hopping freq ma len)) hop) (Zlength (spec_hopping freq ma len))).
Proof. exact spec_thm. Qed.
Print Assumptions c20_spec.

(* when no set bit points beyond the cell allocation nothing is cut: the list is the selected channels in bit order *)
Theorem c20_spec_no_cut : forall freq ma len,
  Forall (fun i => i < Zlength (cell_alloc freq)) (filter (ma_bit ma len) (range 0 (8 * len))) ->
  spec_hopping freq ma len = map (zn (cell_alloc freq)) (filter (ma_bit ma len) (range 0 (8 * len))).
Proof. exact spec_no_cut. Qed.
Print Assumptions c20_spec_no_cut.

(* never more than 64 entries, no duplicates, only channels of the cell allocation (hence valid ARFCNs) *)
Theorem c20_subset_bound : forall freq ma len hop hl si4 rc s,
  Zlength freq = 1024 -> 0 <= len <= 8 -> len <= Zlength ma -> Zlength hop = 64 ->
  decode freq ma len hop hl si4 = Ok rc s ->
  0 <= s_hlen s <= 64 /\ NoDup (firstn (Z.to_nat (s_hlen s)) (s_hop s)) /\
  forall x, In x (firstn (Z.to_nat (s_hlen s)) (s_hop s)) -> 0 <= x < 1024 /\ serving freq x = true.
Proof. exact subset_thm. Qed.
Print Assumptions c20_subset_bound.

(* the table afterwards: untouched when si4 = 0; otherwise FREQ_TYPE_HOPP (0x02) is set exactly on the returned
   channels and cleared on every other entry, all other mask bits unchanged *)
Theorem c20_flags : forall freq ma len hop hl si4 rc s,
  Zlength freq = 1024 -> 0 <= len <= 8 -> len <= Zlength ma -> Zlength hop = 64 ->
  Forall (fun m => 0 <= m < 256) freq ->
  decode freq ma len hop hl si4 = Ok rc s ->
  Zlength (s_freq s) = 1024 /\
  forall a, 0 <= a < 1024 ->
    zn (s_freq s) a = if si4 =? 0 then zn freq a
                      else if has (spec_hopping freq ma len) a then Z.lor (zn freq a) 2 else Z.land (zn freq a) 253.
Proof. exact flags_thm. Qed.
Print Assumptions c20_flags.

(* more than 8 octets (len is a uint8_t): -EINVAL, table, hopping[] and hopp_len untouched, no access at all *)
Theorem c20_long_rejected : forall freq ma len hop hl si4, 8 < len <= 255 ->
  decode freq ma len hop hl si4 = Ok (-22) (mkst freq hop hl).
Proof. exact long_thm. Qed.
Print Assumptions c20_long_rejected.

(* no bitmap of 0..255 octets makes the decoder read or write outside ma[len], freq[1024], hopping[64] or its local f[64]
   (len <= |ma| for the accepted lengths is the caller's obligation: the IE buffer holds len octets) *)
Theorem c20_in_bounds : forall freq ma len hop hl si4,
  Zlength freq = 1024 -> Zlength hop = 64 -> 0 <= len <= 255 -> (len <= 8 -> len <= Zlength ma) ->
  exists rc s, decode freq ma len hop hl si4 = Ok rc s.
Proof. exact in_bounds_thm. Qed.
Print Assumptions c20_in_bounds.

(* a bitmap without set bits yields the empty list *)
Theorem c20_zero_bitmap : forall freq ma len hop hl si4,
  Zlength freq = 1024 -> 0 <= len <= 8 -> len <= Zlength ma -> Zlength hop = 64 -> Forall (fun b => b = 0) ma ->
  exists freq', decode freq ma len hop hl si4 = Ok 0 (mkst freq' hop 0).
Proof. exact zero_bitmap_thm. Qed.
Print Assumptions c20_zero_bitmap.

(* the empty bitmap (len = 0) yields the empty list for EVERY table: return 0, hopping[] untouched, hopp_len = 0,
   FREQ_TYPE_HOPP (0x02) cleared on every entry iff si4 *)
Theorem c20_empty : forall freq ma hop hl si4,
  Zlength freq = 1024 -> Zlength hop = 64 -> Forall (fun m => 0 <= m < 256) freq ->
  decode freq ma 0 hop hl si4 = Ok 0 (mkst (if si4 =? 0 then freq else map (fun m => Z.land m 253) freq) hop 0).
Proof. exact empty_thm. Qed.
Print Assumptions c20_empty.
