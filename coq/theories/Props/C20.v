(* C20 - Mobile Allocation decoding selects exactly the flagged cell channels. Statements only.
   Model: Model/MobAlloc.v (gsm48_decode_mobile_alloc of layer23 sysinfo.c, checked array accesses).
   freq = the 1024-entry table of uint8_t masks, ma/len = the bitmap octets and their number, hop/hl = the caller's
   hopping[64] buffer and hopp_len before the call, si4 = the C flag (non-zero: maintain FREQ_TYPE_HOPP in the table).
   Specification side (all in Model/MobAlloc.v, literal numbers):
     serving freq a    := mask of ARFCN a has bit 0x01 (FREQ_TYPE_SERV)
     cell_alloc freq   := filter (serving freq) ([1; 2; ...; 1023] ++ [0])              ascending ARFCN, ARFCN 0 last
     ma_bit ma len i   := bit (i mod 8) of octet ma[len - 1 - i / 8]
     cut n bits        := the prefix of bits before the first element >= n
     spec_hopping freq ma len := [cell_alloc[i] | i <- cut |cell_alloc| [i <- 0 .. 8*len-1 | ma_bit ma len i]]
   Results: Ok rc state | OOB (access outside freq[1024], ma[], hopping[] or the local uint16_t f[64]).
   The callers (Model/MobAllocSi4.v), second half of this file:
     si4_tail d si1 s c  := the tail of gsm48_decode_sysinfo4 on the payload d (the octets after the 13-octet SI4 header, any length),
                            si1 = the flag s->si1, s = (freq, hopping, hopp_len) before, c = the CBCH channel description members before;
                            result SRet rc s' c' off left (return code, state after, where data / payload_len stand when the rest
                            octets are reached) | SOOB (some data[k], or some ma[k] of the decoder, lies behind the end of the message)
     render_ma lv ..     := the mobile-allocation branch of gsm48_rr_render_ma on the array mob_alloc_lv[9]
     octets l            := every element is in 0..255
     cd_ie pre           := pre = [] or pre = [100; a; b2; b3]   (the optional CBCH Channel Description IE, tag 0x64)
     cd_fields pre c     := c, or the members decoded from a, b2, b3 by 44.018 10.5.2.5
     114 = 0x72 is the tag of the CBCH Mobile Allocation IE, -5 = -EIO, 101 = 0x65 = GSM48_RR_CAUSE_NO_CELL_ALLOC_A.
   The SI4 / SI1 history (Model/MobAllocHist.v), third part of this file:
     cell                := (c_st = freq / hopping / hopp_len, c_cb = CBCH channel description, c_si1, c_si4 = the flags, c_buf = si4_msg[23])
     sysinfo4 msg x      := gsm48_decode_sysinfo4 on the whole message msg (13 fixed octets + payload, any length): memcpy of
                            min(len, 23) octets into si4_msg, then si4_tail; si4 := 1 on success;  CRet rc cell | COOB
     sysinfo1 freq1 x    := the tail of gsm48_decode_sysinfo1: table := freq1 (what decode_freq_list left), si1 := 1, and if si4 is set
                            sysinfo4 on the stored buffer with length 23, result ignored
     cell_ok x           := |c_buf x| = 23, octets, |freq| = 1024, |hopping| = 64.
   The assignment messages (Model/MobAllocAss.v), fourth part of this file:
     lv_copy limit slack tl lv0 := the guards and the memcpy 'message -> cd_now.mob_alloc_lv' of gsm48_rr.c; tl = the message from its
                            mob_alloc_len octet on, lv0 = the array before; ARefuse rc | ACopied array | AOOB (read behind the message /
                            write behind the array).  IMMEDIATE ASSIGNMENT: limit 8 slack 0, IMMEDIATE ASSIGNMENT EXTENDED (both
                            request references): limit 4 slack 0, FREQUENCY REDEFINITION: limit 8 slack 2
     imm_handler limit ours h tl .. := the two immediate-assignment handlers: guards, copy into the zeroed cd_now if the request
                            reference is ours, then gsm48_rr_dl_est -> gsm48_rr_render_ma (h = hopping channel description). *)
From Coq Require Import ZArith List.
From OBB Require Import Base.Range Gen.MobAllocConst Gen.MobAllocSi4Const Model.MobAlloc Model.MobAllocSi4 Model.MobAllocHist Model.MobAllocAss Model.MobAllocCd Model.MobAllocBand Proofs.MobAllocP Proofs.MobAllocSi4P Proofs.MobAllocHistP Proofs.MobAllocAssP Proofs.MobAllocCdP Proofs.MobAllocBandP.
Import ListNotations.
Open Scope Z_scope.

(* the values the source currently has (Gen is regenerated from sysinfo.h / errno.h / gsm48_ie.h / the declaration of f in sysinfo.c on every run) *)
Theorem c20_constants :
  c_FREQ_TYPE_SERV = 1 /\ c_FREQ_TYPE_HOPP = 2 /\ c_FREQ_TABLE_SIZE = 1024 /\ c_HOPPING_SIZE = 64 /\ c_EINVAL = 22 /\ c_FREQ_ENTRY_SIZE = 1 /\ c_F_CAPACITY = 64.
Proof. exact constants. Qed.
Print Assumptions c20_constants.

(* the model's structural traversal of the table is the indexed loop  for (i = 1; i <= 1024; i++) ... freq[i & 1023] *)
Theorem c20_visit_order : forall freq, Zlength freq = 1024 ->
  visit freq = map (fun i => (Z.land i 1023, zn freq (Z.land i 1023))) (range 1 1025).
Proof. exact visit_faithful. Qed.
Print Assumptions c20_visit_order.

(* for EVERY table (any subset of ARFCN 0..1023 as cell allocation, any size), every bitmap of 0..8 octets:
   return code 0, hopping[0 .. n-1] is exactly the specified list, the rest of the buffer is untouched, hopp_len = n *)
Theorem c20_spec : forall freq ma len hop hl si4,
  Zlength freq = 1024 -> 0 <= len <= 8 -> len <= Zlength ma -> Zlength hop = 64 ->
  exists freq', decode freq ma len hop hl si4 =
    Ok 0 (mkst freq' (spec_hopping freq ma len ++ skipn (length (spec_hopping freq ma len)) hop) (Zlength (spec_hopping freq ma len))).
Proof. exact spec_thm. Qed.
Print Assumptions c20_spec.

(* when no set bit points beyond the cell allocation nothing is cut: the list is the selected channels in bit order *)
Theorem c20_spec_no_cut : forall freq ma len,
  Forall (fun i => i < Zlength (cell_alloc freq)) (filter (ma_bit ma len) (range 0 (8 * len))) ->
  spec_hopping freq ma len = map (zn (cell_alloc freq)) (filter (ma_bit ma len) (range 0 (8 * len))).
Proof. exact spec_no_cut. Qed.
Print Assumptions c20_spec_no_cut.

(* never more than 64 entries, no duplicates, only channels of the cell allocation (hence valid ARFCNs) *)
Theorem c20_subset_bound : forall freq ma len hop hl si4 rc s,
  Zlength freq = 1024 -> 0 <= len <= 8 -> len <= Zlength ma -> Zlength hop = 64 ->
  decode freq ma len hop hl si4 = Ok rc s ->
  0 <= s_hlen s <= 64 /\ NoDup (firstn (Z.to_nat (s_hlen s)) (s_hop s)) /\
  forall x, In x (firstn (Z.to_nat (s_hlen s)) (s_hop s)) -> 0 <= x < 1024 /\ serving freq x = true.
Proof. exact subset_thm. Qed.
Print Assumptions c20_subset_bound.

(* the table afterwards: untouched when si4 = 0; otherwise FREQ_TYPE_HOPP (0x02) is set exactly on the returned
   channels and cleared on every other entry, all other mask bits unchanged *)
Theorem c20_flags : forall freq ma len hop hl si4 rc s,
  Zlength freq = 1024 -> 0 <= len <= 8 -> len <= Zlength ma -> Zlength hop = 64 ->
  Forall (fun m => 0 <= m < 256) freq ->
  decode freq ma len hop hl si4 = Ok rc s ->
  Zlength (s_freq s) = 1024 /\
  forall a, 0 <= a < 1024 ->
    zn (s_freq s) a = if si4 =? 0 then zn freq a
                      else if has (spec_hopping freq ma len) a then Z.lor (zn freq a) 2 else Z.land (zn freq a) 253.
Proof. exact flags_thm. Qed.
Print Assumptions c20_flags.

(* more than 8 octets (len is a uint8_t): -EINVAL, table, hopping[] and hopp_len untouched, no access at all *)
Theorem c20_long_rejected : forall freq ma len hop hl si4, 8 < len <= 255 ->
  decode freq ma len hop hl si4 = Ok (-22) (mkst freq hop hl).
Proof. exact long_thm. Qed.
Print Assumptions c20_long_rejected.

(* no bitmap of 0..255 octets makes the decoder read or write outside ma[len], freq[1024], hopping[64] or its local f[64]
   (len <= |ma| for the accepted lengths is the caller's obligation: the IE buffer holds len octets) *)
Theorem c20_in_bounds : forall freq ma len hop hl si4,
  Zlength freq = 1024 -> Zlength hop = 64 -> 0 <= len <= 255 -> (len <= 8 -> len <= Zlength ma) ->
  exists rc s, decode freq ma len hop hl si4 = Ok rc s.
Proof. exact in_bounds_thm. Qed.
Print Assumptions c20_in_bounds.

(* a bitmap without set bits yields the empty list *)
Theorem c20_zero_bitmap : forall freq ma len hop hl si4,
  Zlength freq = 1024 -> 0 <= len <= 8 -> len <= Zlength ma -> Zlength hop = 64 -> Forall (fun b => b = 0) ma ->
  exists freq', decode freq ma len hop hl si4 = Ok 0 (mkst freq' hop 0).
Proof. exact zero_bitmap_thm. Qed.
Print Assumptions c20_zero_bitmap.

(* the empty bitmap (len = 0) yields the empty list for EVERY table: return 0, hopping[] untouched, hopp_len = 0,
   FREQ_TYPE_HOPP (0x02) cleared on every entry iff si4 *)
Theorem c20_empty : forall freq ma hop hl si4,
  Zlength freq = 1024 -> Zlength hop = 64 -> Forall (fun m => 0 <= m < 256) freq ->
  decode freq ma 0 hop hl si4 = Ok 0 (mkst (if si4 =? 0 then freq else map (fun m => Z.land m 253) freq) hop 0).
Proof. exact empty_thm. Qed.
Print Assumptions c20_empty.

(* ==================================================================== the callers of the decoder *)

(* the values the source currently has (Gen: errno.h EIO, gsm_04_08.h IE tags / sizeof of the SI4 header and of struct gsm48_chan_desc /
   RR cause, gsm48_rr.h bound of mob_alloc_lv, all as compiled) *)
Theorem c20_si4_constants :
  c_EIO = 5 /\ c_IE_CBCH_CHAN_DESC = 100 /\ c_IE_CBCH_MOB_AL = 114 /\ c_SI4_HDR_SIZE = 13 /\ c_CHAN_DESC_SIZE = 3 /\
  c_MOB_ALLOC_LV_SIZE = 9 /\ c_CAUSE_NO_CELL_ALLOC_A = 101.
Proof. exact si4_constants. Qed.
Print Assumptions c20_si4_constants.

(* for EVERY SI4 payload (any length, any octets), with or without SI1: no read behind the end of the message, neither by the SI4
   code nor by the decoder it calls (the caller contract 'len <= octets present' of c20_in_bounds is discharged here: no such
   hypothesis), no access outside freq[1024] / hopping[64]; the position reached stays inside the message; the return code is 0 or
   -EIO, and with -EIO the table, hopping[] and hopp_len are exactly as before *)
Theorem c20_si4_in_bounds : forall d si1 s c,
  octets d -> Zlength (s_freq s) = 1024 -> Zlength (s_hop s) = 64 ->
  exists rc s' c' off left, si4_tail d si1 s c = SRet rc s' c' off left /\ 0 <= off /\ 0 <= left /\ off + left = Zlength d /\
    (rc = 0 \/ (rc = -5 /\ s' = s)).
Proof. exact si4_safe. Qed.
Print Assumptions c20_si4_in_bounds.

(* a message that ends anywhere inside the CBCH Mobile Allocation IE (length octet l present, fewer than l value octets): -EIO,
   table / hopping[] / hopp_len untouched, whatever SI1 *)
Theorem c20_si4_cut_in_ie : forall pre l v' si1 s c,
  cd_ie pre -> octets pre -> 0 <= l < 256 -> Zlength v' < l ->
  si4_tail (pre ++ 114 :: l :: v') si1 s c = SRet (-5) s (cd_fields pre c) (Zlength pre) (2 + Zlength v').
Proof. exact si4_cut. Qed.
Print Assumptions c20_si4_cut_in_ie.

(* ... or directly behind its tag (the length octet is not read) *)
Theorem c20_si4_cut_after_tag : forall pre si1 s c,
  cd_ie pre -> octets pre ->
  si4_tail (pre ++ [114]) si1 s c = SRet (-5) s (cd_fields pre c) (Zlength pre) 1.
Proof. exact si4_cut_tag. Qed.
Print Assumptions c20_si4_cut_after_tag.

(* ... or inside the CBCH Channel Description IE (1..3 of its 4 octets): -EIO, nothing stored at all *)
Theorem c20_si4_cut_in_chan_desc : forall x si1 s c,
  hd 0 x = 100 -> 1 <= Zlength x < 4 ->
  si4_tail x si1 s c = SRet (-5) s c 0 (Zlength x).
Proof. exact si4_cut_cd. Qed.
Print Assumptions c20_si4_cut_in_chan_desc.

(* a complete IE after SI1: return 0, the state stored is EXACTLY what the decoder yields on the l value octets v of the IE (with
   si4 = 1), whatever follows (tail = rest octets); 2 + l octets consumed (+ 4 with the channel description) *)
Theorem c20_si4_accept : forall pre l v tail si1 s c,
  cd_ie pre -> octets pre -> 0 <= l < 256 -> Zlength v = l -> si1 <> 0 ->
  Zlength (s_freq s) = 1024 -> Zlength (s_hop s) = 64 ->
  exists rc s', decode (s_freq s) v l (s_hop s) (s_hlen s) 1 = Ok rc s' /\
    si4_tail (pre ++ 114 :: l :: v ++ tail) si1 s c = SRet 0 s' (cd_fields pre c) (Zlength pre + 2 + l) (Zlength tail).
Proof. exact si4_accept. Qed.
Print Assumptions c20_si4_accept.

(* hence, for 0..8 bitmap octets, what SI4 stores is the specified list (c20_spec through the caller) *)
Theorem c20_si4_spec : forall pre l v tail si1 s c,
  cd_ie pre -> octets pre -> 0 <= l <= 8 -> Zlength v = l -> si1 <> 0 ->
  Zlength (s_freq s) = 1024 -> Zlength (s_hop s) = 64 ->
  exists freq', si4_tail (pre ++ 114 :: l :: v ++ tail) si1 s c =
    SRet 0 (mkst freq' (spec_hopping (s_freq s) v l ++ skipn (length (spec_hopping (s_freq s) v l)) (s_hop s))
                 (Zlength (spec_hopping (s_freq s) v l)))
         (cd_fields pre c) (Zlength pre + 2 + l) (Zlength tail).
Proof. exact si4_spec. Qed.
Print Assumptions c20_si4_spec.

(* a complete IE of 9..255 octets: the decoder refuses (-EINVAL), gsm48_decode_sysinfo4 ignores the refusal and returns 0;
   table / hopping[] / hopp_len untouched, the IE is skipped *)
Theorem c20_si4_long_ignored : forall pre l v tail si1 s c,
  cd_ie pre -> octets pre -> 8 < l < 256 -> Zlength v = l ->
  si4_tail (pre ++ 114 :: l :: v ++ tail) si1 s c = SRet 0 s (cd_fields pre c) (Zlength pre + 2 + l) (Zlength tail).
Proof. exact si4_long. Qed.
Print Assumptions c20_si4_long_ignored.

(* before SI1 (s->si1 = 0) a complete IE is skipped: table / hopping[] / hopp_len untouched, 2 + l octets consumed *)
Theorem c20_si4_before_si1 : forall pre l v tail s c,
  cd_ie pre -> octets pre -> 0 <= l < 256 -> Zlength v = l ->
  si4_tail (pre ++ 114 :: l :: v ++ tail) 0 s c = SRet 0 s (cd_fields pre c) (Zlength pre + 2 + l) (Zlength tail).
Proof. exact si4_before_si1. Qed.
Print Assumptions c20_si4_before_si1.

(* no CBCH Mobile Allocation IE (the octet after the optional channel description is not 0x72): nothing consumed, nothing changed *)
Theorem c20_si4_no_ma_ie : forall pre rest si1 s c,
  cd_ie pre -> octets pre -> (pre = [] -> hd 0 rest <> 100) -> hd 0 rest <> 114 ->
  si4_tail (pre ++ rest) si1 s c = SRet 0 s (cd_fields pre c) (Zlength pre) (Zlength rest).
Proof. exact si4_no_ma. Qed.
Print Assumptions c20_si4_no_ma_ie.

(* the assignment path (gsm48_rr_render_ma): mob_alloc_lv has 9 octets, so for EVERY content (any length octet 0..255) neither the
   caller nor the decoder leaves the array, the table or ma[64] *)
Theorem c20_render_in_bounds : forall lv freq ma ma_len,
  Zlength lv = 9 -> octets lv -> Zlength freq = 1024 -> Zlength ma = 64 ->
  exists rc s, render_ma lv freq ma ma_len = Ok rc s.
Proof. exact render_safe. Qed.
Print Assumptions c20_render_in_bounds.

(* ... for 1..8 bitmap octets ma[] / ma_len receive the specified list; an empty list is answered with cause 0x65 *)
Theorem c20_render_spec : forall l v freq ma ma_len,
  1 <= l <= 8 -> l <= Zlength v -> Zlength freq = 1024 -> Zlength ma = 64 ->
  exists freq', render_ma (l :: v) freq ma ma_len =
    Ok (if Zlength (spec_hopping freq v l) <? 1 then 101 else 0)
       (mkst freq' (spec_hopping freq v l ++ skipn (length (spec_hopping freq v l)) ma) (Zlength (spec_hopping freq v l))).
Proof. exact render_spec. Qed.
Print Assumptions c20_render_spec.

(* ... a length octet of 9..255 (kept out of mob_alloc_lv by the IE parsers of gsm48_rr.c, which are not modelled): the decoder
   refuses and writes nothing, its return code is ignored, and the verdict is taken from the caller's previous ma_len *)
Theorem c20_render_long_stale : forall l v freq ma ma_len, 8 < l < 256 ->
  render_ma (l :: v) freq ma ma_len = Ok (if ma_len <? 1 then 101 else 0) (mkst freq ma ma_len).
Proof. exact render_long. Qed.
Print Assumptions c20_render_long_stale.

(* ==================================================================== SI4 stored, re-decoded when SI1 arrives *)

Theorem c20_hist_constants : c_SI4_MSG_SIZE = 23 /\ c_SI4_HDR_SIZE = 13.
Proof. exact hist_constants. Qed.
Print Assumptions c20_hist_constants.

(* one SI4 of ANY length >= 13 (also longer than si4_msg) into any cell: no access outside the message, si4_msg, the tables; the
   buffer afterwards holds the first min(len, 23) octets of the message followed by the octets that were there before; -EIO leaves
   list / hopp_len / flags and the si4 flag as they were *)
Theorem c20_hist_si4_in_bounds : forall msg x,
  octets msg -> 13 <= Zlength msg -> cell_ok x ->
  exists rc x', sysinfo4 msg x = CRet rc x' /\ cell_ok x' /\ c_si1 x' = c_si1 x /\
    c_buf x' = firstn (Z.to_nat (Z.min (Zlength msg) 23)) msg ++ skipn (Z.to_nat (Z.min (Zlength msg) 23)) (c_buf x) /\
    ((rc = 0 /\ c_si4 x' = 1) \/ (rc = -5 /\ c_st x' = c_st x /\ c_si4 x' = c_si4 x)).
Proof. exact sysinfo4_safe. Qed.
Print Assumptions c20_hist_si4_in_bounds.

(* SI1 into a cell with ANY buffer content: the re-decode of the stored SI4 reads only si4_msg[0..22] (and the decoder only inside
   that), returns 0, leaves the buffer as it is *)
Theorem c20_hist_si1_in_bounds : forall freq1 x,
  cell_ok x -> Zlength freq1 = 1024 ->
  exists x', sysinfo1 freq1 x = CRet 0 x' /\ cell_ok x' /\ c_si1 x' = 1 /\ c_buf x' = c_buf x.
Proof. exact sysinfo1_safe. Qed.
Print Assumptions c20_hist_si1_in_bounds.

(* what the re-decode is: the SI4 tail on the ten octets si4_msg[13..22] with si1 = 1 and the new table; its return code is dropped *)
Theorem c20_hist_si1_redecode : forall freq1 x,
  Zlength (c_buf x) = 23 -> c_si4 x <> 0 ->
  sysinfo1 freq1 x =
    match si4_tail (skipn 13 (c_buf x)) 1 (mkst freq1 (s_hop (c_st x)) (s_hlen (c_st x))) (c_cb x) with
    | SOOB => COOB
    | SRet rc s c _ _ => CRet 0 (mkcell s c 1 (if rc =? 0 then 1 else c_si4 x) (c_buf x))
    end.
Proof. exact sysinfo1_redecode. Qed.
Print Assumptions c20_hist_si1_redecode.

(* ORDER INDEPENDENCE.  A cell that has seen neither SI1 nor SI4 (any buffer content, any previous list); an SI4 message of any
   length whose CBCH Mobile Allocation IE is complete and ends within the first 23 octets (hdr = the 13 fixed octets, pre = the
   optional channel description, tail = anything); SI1 brings the table freq1.  Then 'SI4, SI1' and 'SI1, SI4' end in the SAME cell xe:
   list / hopp_len / flags are exactly the decoder's result s' on the IE value octets v with the table of SI1 *)
Theorem c20_hist_order_independent : forall hdr pre l v tail x0 freq1,
  Zlength hdr = 13 -> octets (hdr ++ pre ++ 114 :: l :: v ++ tail) -> cd_ie pre -> Zlength v = l ->
  Zlength (hdr ++ pre ++ 114 :: l :: v) <= 23 ->
  cell_ok x0 -> c_si1 x0 = 0 -> c_si4 x0 = 0 -> Zlength freq1 = 1024 ->
  exists rc s' x1 x1',
    decode freq1 v l (s_hop (c_st x0)) (s_hlen (c_st x0)) 1 = Ok rc s' /\
    let msg := hdr ++ pre ++ 114 :: l :: v ++ tail in
    let n := Z.to_nat (Z.min (Zlength msg) 23) in
    let xe := mkcell s' (cd_fields pre (c_cb x0)) 1 1 (firstn n msg ++ skipn n (c_buf x0)) in
    sysinfo4 msg x0 = CRet 0 x1 /\ c_st x1 = c_st x0 /\ sysinfo1 freq1 x1 = CRet 0 xe /\
    sysinfo1 freq1 x0 = CRet 0 x1' /\ sysinfo4 msg x1' = CRet 0 xe.
Proof. exact order_thm. Qed.
Print Assumptions c20_hist_order_independent.

(* ... for 0..8 bitmap octets that common result is the specified list *)
Theorem c20_hist_order_spec : forall hdr pre l v tail x0 freq1,
  Zlength hdr = 13 -> octets (hdr ++ pre ++ 114 :: l :: v ++ tail) -> cd_ie pre -> Zlength v = l -> l <= 8 ->
  Zlength (hdr ++ pre ++ 114 :: l :: v) <= 23 ->
  cell_ok x0 -> c_si1 x0 = 0 -> c_si4 x0 = 0 -> Zlength freq1 = 1024 ->
  exists freq' xe x1 x1',
    let msg := hdr ++ pre ++ 114 :: l :: v ++ tail in
    let sel := spec_hopping freq1 v l in
    c_st xe = mkst freq' (sel ++ skipn (length sel) (s_hop (c_st x0))) (Zlength sel) /\
    sysinfo4 msg x0 = CRet 0 x1 /\ sysinfo1 freq1 x1 = CRet 0 xe /\
    sysinfo1 freq1 x0 = CRet 0 x1' /\ sysinfo4 msg x1' = CRet 0 xe.
Proof. exact order_spec. Qed.
Print Assumptions c20_hist_order_spec.

(* the bound 'IE within the first 23 octets' is needed: a 25-octet message (channel description + a 6-octet Mobile Allocation that
   ends at octet 25) is cut by the memcpy; 'SI4, SI1' leaves the list empty (the re-decode finds the IE cut, -EIO dropped),
   'SI1, SI4' builds 10 20 0.  (BCCH blocks have 23 octets; gsm48_rr.c does not check that, grr.c does.)
   hobs = [rc; si1; si4; hopp_len; hopping[0..3]] *)
Theorem c20_hist_order_long_refuted :
  Zlength msg25 = 25 /\
  hobs (after (sysinfo4 msg25 (x00 (repeat 0 23))) (sysinfo1 T1)) = [0; 1; 1; 0; 7; 7; 7; 7] /\
  hobs (after (sysinfo1 T1 (x00 (repeat 0 23))) (sysinfo4 msg25)) = [0; 1; 1; 3; 10; 20; 0; 7].
Proof. exact order_long_refuted. Qed.
Print Assumptions c20_hist_order_long_refuted.

(* and a message WITHOUT the IE that is shorter than the buffer is not order independent either: the re-decode runs over the old
   octets behind it; here a 13-octet SI4 into a buffer that still holds '72 01 0b' at octets 13..15 makes 'SI4, SI1' build 10 20 0
   from the old octets, while 'SI1, SI4' leaves the list empty *)
Theorem c20_hist_short_stale_refuted :
  Zlength hdr0 = 13 /\ cell_ok (x00 stale_buf) /\
  hobs (after (sysinfo4 hdr0 (x00 stale_buf)) (sysinfo1 T1)) = [0; 1; 1; 3; 10; 20; 0; 7] /\
  hobs (after (sysinfo1 T1 (x00 stale_buf)) (sysinfo4 hdr0)) = [0; 1; 1; 0; 7; 7; 7; 7].
Proof. exact short_stale_refuted. Qed.
Print Assumptions c20_hist_short_stale_refuted.

(* ==================================================================== message -> cd_now.mob_alloc_lv -> list given to L1 *)

(* a message whose length octet l passes the guards (l <= limit, l value octets present, slack more octets where the handler
   demands them): the array holds the length octet and exactly the l value octets of the MESSAGE, the octets behind keep their
   value - nothing lost, nothing else written.  Instances: IMMEDIATE ASSIGNMENT (limit 8, slack 0), IMMEDIATE ASSIGNMENT EXTENDED
   request reference 1 and 2 (limit 4, slack 0), FREQUENCY REDEFINITION (limit 8, slack 2) *)
Theorem c20_assign_copy_exact : forall limit slack l v rest lv0,
  Zlength v = l -> l <= limit -> 0 <= slack <= Zlength rest -> l + 1 <= Zlength lv0 ->
  lv_copy limit slack (l :: v ++ rest) lv0 = ACopied (l :: v ++ skipn (Z.to_nat (l + 1)) lv0).
Proof. exact lv_copy_ok. Qed.
Print Assumptions c20_assign_copy_exact.

(* for EVERY message tail and every limit <= 8: refused with -EINVAL, or copied inside the message and inside the 9-octet array,
   with the stored length octet <= limit.  (The guards of the pinned handlers have limit 8 / 4 / 8: no overrun.) *)
Theorem c20_assign_copy_in_bounds : forall limit slack tl lv0,
  octets tl -> octets lv0 -> Zlength lv0 = 9 -> limit <= 8 -> 0 <= slack ->
  lv_copy limit slack tl lv0 = ARefuse (-22) \/
  exists lv, lv_copy limit slack tl lv0 = ACopied lv /\ Zlength lv = 9 /\ octets lv /\ 0 <= zn lv 0 <= limit /\ zn lv 0 = zn tl 0.
Proof. exact lv_copy_safe. Qed.
Print Assumptions c20_assign_copy_in_bounds.

(* the refusals: a length octet above the limit; fewer octets behind it than it announces (+ slack); no length octet at all *)
Theorem c20_assign_too_large : forall limit slack tl lv0 l, rd tl 0 = Some l -> limit < l -> lv_copy limit slack tl lv0 = ARefuse (-22).
Proof. exact lv_copy_too_large. Qed.
Print Assumptions c20_assign_too_large.
Theorem c20_assign_short : forall limit slack l v' lv0, Zlength v' < l + slack -> lv_copy limit slack (l :: v') lv0 = ARefuse (-22).
Proof. exact lv_copy_short. Qed.
Print Assumptions c20_assign_short.

(* IMMEDIATE ASSIGNMENT (limit 8) / IMMEDIATE ASSIGNMENT EXTENDED (limit 4), our request reference, hopping channel, 1..limit
   bitmap octets: cd_now.mob_alloc_lv = length octet, the value octets of the message, zeros; and the list handed to L1 by
   gsm48_rr_render_ma is exactly the specified one for the bitmap v IN THE MESSAGE (cause 0x65 if it is empty) *)
Theorem c20_assign_imm_spec : forall limit ours l v rest freq ma ma_len,
  (limit = 8 \/ limit = 4) -> ours <> 0 -> Zlength v = l -> 1 <= l <= limit -> Zlength freq = 1024 -> Zlength ma = 64 ->
  exists freq', imm_handler limit ours 1 (l :: v ++ rest) freq ma ma_len =
    AsEst (l :: v ++ map (fun _ => 0) (range 0 (8 - l)))
          (Ok (if Zlength (spec_hopping freq v l) <? 1 then 101 else 0)
              (mkst freq' (spec_hopping freq v l ++ skipn (length (spec_hopping freq v l)) ma) (Zlength (spec_hopping freq v l)))).
Proof. exact imm_spec. Qed.
Print Assumptions c20_assign_imm_spec.

(* ... and for EVERY message tail: refused, not ours, or established without leaving the message, the array, the table or ma[64] *)
Theorem c20_assign_imm_in_bounds : forall limit ours h tl freq ma ma_len,
  (limit = 8 \/ limit = 4) -> octets tl -> Zlength freq = 1024 -> Zlength ma = 64 ->
  imm_handler limit ours h tl freq ma ma_len = AsRefused (-22) \/ imm_handler limit ours h tl freq ma ma_len = AsNotOurs \/
  exists lv rc s, imm_handler limit ours h tl freq ma ma_len = AsEst lv (Ok rc s) /\ Zlength lv = 9 /\ zn lv 0 <= limit.
Proof. exact imm_safe. Qed.
Print Assumptions c20_assign_imm_in_bounds.

(* ==================================================================== gsm48_rr_render_ma with the Cell Channel Description *)
(* render_ma_cd lv cdlv other freq ma ma_len (Model/MobAllocCd.v) := the mobile-allocation branch with cd->cell_desc_lv (cdlv, 17 octets:
   length + 16).  gsm48_decode_freq_list (vendored gsm48_ie.c) first CLEARS FREQ_TYPE_SERV (0x01) on all 1024 entries and then sets it
   on the listed ARFCNs - the table is s->freq itself, so the cell allocation in force afterwards is the description's, not a union.
     bm0_table freq cd := the table after the call for the bit map 0 format (first octet < 0x40 for mask 0xce)
     bm0_has cd a      := 1 <= a <= 124 and bit ((a-1) mod 8) of octet cd[15 - (a-1)/8] is set          (44.018 10.5.2.1b)
     other_table freq other := the table after the call for the other formats, 'other' = the ARFCNs the real decoder flags (an
                          explicit argument: the range / variable bit map decoders are not modelled)
   1 = GSM48_RR_CAUSE_ABNORMAL_UNSPEC as compiled from the vendored gsm_04_08.h. *)

Theorem c20_render_cd_constants : c_CAUSE_ABNORMAL_UNSPEC = 1 /\ c_CELL_DESC_LV_SIZE = 17 /\ c_CAUSE_NO_CELL_ALLOC_A = 101 /\ c_FREQ_TYPE_SERV = 1.
Proof. exact cd_constants. Qed.
Print Assumptions c20_render_cd_constants.

(* length octet 0: no description - exactly the branch without it (c20_render_spec etc. apply), the table is not touched *)
Theorem c20_render_cd_absent : forall lv x other freq ma ma_len,
  render_ma_cd lv (0 :: x) other freq ma ma_len = render_ma lv freq ma ma_len.
Proof. exact render_cd_absent. Qed.
Print Assumptions c20_render_cd_absent.

(* any length other than 0 and 16: cause 1 (abnormal), ma[] / ma_len / the table untouched *)
Theorem c20_render_cd_wrong_length : forall l v cl x other freq ma ma_len, l <> 0 -> cl <> 0 -> cl <> 16 ->
  render_ma_cd (l :: v) (cl :: x) other freq ma ma_len = Ok 1 (mkst freq ma ma_len).
Proof. exact render_cd_wrong_len. Qed.
Print Assumptions c20_render_cd_wrong_length.

(* length 16, bit map 0 format: the table in force becomes bm0_table freq cd and the list handed to L1 is spec_hopping of THAT table *)
Theorem c20_render_cd_bitmap0 : forall l v cd other freq ma ma_len,
  1 <= l <= 8 -> l <= Zlength v -> Zlength cd = 16 -> 0 <= zn cd 0 < 64 -> Zlength freq = 1024 -> Zlength ma = 64 ->
  render_ma_cd (l :: v) (16 :: cd) other freq ma ma_len =
    Ok (if Zlength (spec_hopping (bm0_table freq cd) v l) <? 1 then 101 else 0)
       (mkst (bm0_table freq cd)
             (spec_hopping (bm0_table freq cd) v l ++ skipn (length (spec_hopping (bm0_table freq cd) v l)) ma)
             (Zlength (spec_hopping (bm0_table freq cd) v l))).
Proof. exact render_cd_bm0. Qed.
Print Assumptions c20_render_cd_bitmap0.

(* which table that is: its cell allocation is exactly the description's set (whatever SI1 had flagged is cleared) ... *)
Theorem c20_render_cd_allocation_in_force : forall freq cd a, Zlength freq = 1024 -> 0 <= a < 1024 ->
  serving (bm0_table freq cd) a = bm0_has cd a.
Proof. exact bm0_serving. Qed.
Print Assumptions c20_render_cd_allocation_in_force.

(* ... and every other mask bit is as before *)
Theorem c20_render_cd_masks : forall freq cd a, Zlength freq = 1024 -> 0 <= a < 1024 -> 0 <= zn freq a < 256 ->
  zn (bm0_table freq cd) a = if bm0_has cd a then Z.lor (Z.land (zn freq a) 254) 1 else Z.land (zn freq a) 254.
Proof. exact bm0_masks. Qed.
Print Assumptions c20_render_cd_masks.

(* length 16, another format (first octet >= 0x40): the same with the table the real decoder leaves, given by the ARFCNs it flags *)
Theorem c20_render_cd_other_format : forall l v cd other freq ma ma_len,
  1 <= l <= 8 -> l <= Zlength v -> 1 <= Zlength cd -> 64 <= zn cd 0 < 256 -> Zlength freq = 1024 -> Zlength ma = 64 ->
  render_ma_cd (l :: v) (16 :: cd) other freq ma ma_len =
    Ok (if Zlength (spec_hopping (other_table freq other) v l) <? 1 then 101 else 0)
       (mkst (other_table freq other)
             (spec_hopping (other_table freq other) v l ++ skipn (length (spec_hopping (other_table freq other) v l)) ma)
             (Zlength (spec_hopping (other_table freq other) v l))).
Proof. exact render_cd_other. Qed.
Print Assumptions c20_render_cd_other_format.

(* in bounds for EVERY content of mob_alloc_lv[9] and cell_desc_lv[17] *)
Theorem c20_render_cd_in_bounds : forall lv cdlv other freq ma ma_len,
  Zlength lv = 9 -> Zlength cdlv = 17 -> octets lv -> octets cdlv -> Zlength freq = 1024 -> Zlength ma = 64 ->
  exists rc s, render_ma_cd lv cdlv other freq ma ma_len = Ok rc s.
Proof. exact render_cd_safe. Qed.
Print Assumptions c20_render_cd_in_bounds.

(* ==================================================================== the final loop of gsm48_rr_render_ma: band conversion, support check *)
(* render_full pcs fm lv cdlv other freq ma ma_len (Model/MobAllocBand.v) := render_ma_cd, then, if that returned 0, the loop over
   ma[0 .. ma_len-1]; pcs = gsm_refer_pcs(cs->arfcn, s) (the serving cell refers to PCS 1900), fm = set->freq_map (166 octets).
     conv pcs a      := a + 32768 (ARFCN_PCS = 0x8000) if pcs and 512 <= a <= 810, else a
     bidx pcs a      := a - 512 + 1024 if pcs and 512 <= a <= 810, else a                       (arfcn2index of the converted value)
     supported fm pcs a := bit (bidx mod 8) of fm[bidx / 8] is set
     loop_spec fm pcs l := (0, all of l converted) if every channel is supported, else (8, l converted up to and including the first
                           unsupported channel, the rest as decoded)      -- 8 = GSM48_RR_CAUSE_FREQ_NOT_IMPL as compiled *)

Theorem c20_render_band_constants : c_ARFCN_PCS = 32768 /\ c_ARFCN_FLAG_MASK = 61440 /\ c_CAUSE_FREQ_NOT_IMPL = 8 /\ c_FREQ_MAP_SIZE = 166.
Proof. exact band_constants. Qed.
Print Assumptions c20_render_band_constants.

(* for EVERY decoded list sel (channel numbers 0..1023, any length that the branch left in ma_len), every freq_map and both kinds of
   serving cell: no access outside ma[] / freq_map[]; the function returns 0 iff every channel is supported per the rule above, else 8;
   ma_len is unchanged and the octets of ma[] behind the list are untouched *)
Theorem c20_render_band_loop : forall pcs fm lv cdlv other freq ma ma_len fr sel rest,
  Zlength fm = 166 -> Forall (fun a => 0 <= a < 1024) sel ->
  render_ma_cd lv cdlv other freq ma ma_len = Ok 0 (mkst fr (sel ++ rest) (Zlength sel)) ->
  render_full pcs fm lv cdlv other freq ma ma_len =
    Ok (if forallb (supported fm pcs) sel then 0 else 8) (mkst fr (snd (loop_spec fm pcs sel) ++ rest) (Zlength sel)).
Proof. exact render_full_loop. Qed.
Print Assumptions c20_render_band_loop.

(* the channel NUMBERS (low 10 bits) handed to L1 are exactly the decoded list - nothing added, dropped, reordered or renumbered,
   whether or not the function refuses *)
Theorem c20_render_band_numbers : forall fm pcs sel, Forall (fun a => 0 <= a < 1024) sel ->
  map (fun x => Z.land x 1023) (snd (loop_spec fm pcs sel)) = sel.
Proof. exact loop_numbers. Qed.
Print Assumptions c20_render_band_numbers.

(* accepted: every entry is the converted channel; an entry carries ARFCN_PCS (bit 15) iff the cell is PCS and 512 <= arfcn <= 810 *)
Theorem c20_render_band_accepted : forall fm pcs sel, forallb (supported fm pcs) sel = true ->
  snd (loop_spec fm pcs sel) = map (conv pcs) sel.
Proof. exact loop_all. Qed.
Print Assumptions c20_render_band_accepted.
Theorem c20_render_band_pcs_flag : forall pcs a, 0 <= a < 1024 ->
  Z.testbit (conv pcs a) 15 = andb pcs (andb (512 <=? a) (a <=? 810)).
Proof. exact conv_flag. Qed.
Print Assumptions c20_render_band_pcs_flag.

(* an error of the decode branch (0x65 empty list, 1 abnormal) is returned as it is, the loop does not run *)
Theorem c20_render_band_pass_through : forall pcs fm lv cdlv other freq ma ma_len rc s, rc <> 0 ->
  render_ma_cd lv cdlv other freq ma ma_len = Ok rc s -> render_full pcs fm lv cdlv other freq ma ma_len = Ok rc s.
Proof. exact render_full_pass. Qed.
Print Assumptions c20_render_band_pass_through.

From OBB Require Import Gen.TrxIfConst Model.Trxd Model.TrxIf Proofs.TrxIfSetfhP.
(* ---- the consumer at the far end: trxcon's SETFH composer (trx_if_cmd_setfh in trx_if.c, model Model/TrxIf.v) ----
   setfh_pair a = "<downlink kHz> <uplink kHz> " of ARFCN a (gsm_arfcn2freq10 * 100), setfh_pairs = the concatenation over the list.
   Given the hopping list (whatever its length and content) the composer either queues exactly ONE command
   'CMD SETFH <hsn> <maio> <pairs of EVERY channel of the list, in order>' (only the trailing space cut) - possible only when every
   channel has a frequency and the pairs fit the 999 characters of room in ma_buf[1000] - or it returns an error and queues
   NOTHING: no truncated list, no list with a channel dropped or added, no write beyond the buffer.  (62 channels of the DCS band
   fit, 63 are refused with -ENOSPC: Example setfh_dcs_62_63.) *)
Theorem c20_setfh_carries_exactly_the_list : forall hsn maio ma rc q,
  c_phyif_cmd (PSetFreqH1 hsn maio ma) = CmdQ rc q ->
  (rc = 0 -> ma <> [] /\ Forall freq_defined ma /\ Z.of_nat (length (setfh_pairs ma)) <= 999 /\
             q = [(true, c_ctrl_cmd v_SETFH (dec_u (u8 hsn) ++ [SP] ++ dec_u (u8 maio) ++ [SP] ++ removelast (setfh_pairs ma)))]) /\
  (rc <> 0 -> q = [] /\ (ma = [] \/ ~ Forall freq_defined ma \/ 999 < Z.of_nat (length (setfh_pairs ma)))).
Proof. exact setfh_carries_list. Qed.
Print Assumptions c20_setfh_carries_exactly_the_list.
