(* C08 - the firmware TDMA scheduler runs each item exactly in its scheduled frame. Statements only.
   Model: Model/TdmaSched.v (tdma_sched.c, uint8/uint16/int16 arithmetic explicit; first 13 theorems: callbacks that do not touch the
   scheduler = pure functions of the item; theorems c08_sp_*: callbacks that call tdma_schedule / tdma_sched_reset while execute runs).
   Vocabulary (Proofs/TdmaSchedSpec.v, literal 25 buckets x 8 items):
     wf st            25 buckets, 0 <= cur < 25, every bucket <= 8 items     cbs_ok st   no stored NULL callback
     bucket_due st d  the items due in d frames = bucket (cur + d) mod 25, in storing order
     op_ok o          OSched N it: 0 <= N < 25, cb <> NULL;  OSet N set p3: END_SET-terminated, N + number of END_FRAMEs < 25
     refines st m     for every d in 0..24, bucket_due st d is a permutation of the items with due-in = d of the multiset m
   "callbacks that report success" = forall x, 0 <= rcf x (tdma_sched_execute tests rc < 0).
   Re-entrant part (theorems c08_sp_*, Proofs/TdmaSchedSpawnP.v): tdma_sched_execute_sp / run_sp thread the scheduler through the callbacks;
     callback 15 calls tdma_schedule(p2, child_of it) and callback 16 calls tdma_sched_reset() first, from inside execute; both return 0.
     plain it       i_cb it <> 15 /\ i_cb it <> 16 (does not use the scheduler)      childlike it   2 <= i_cb it <= 9 (what child_of makes)
     no16 it        i_cb it <> 16           all_st P st / all_op P o   every stored item / every item the operation schedules satisfies P
     calls lg       the callbacks invoked, in order (log entries ECall); ESpawn N child rc = a callback called tdma_schedule(N, child) and got rc;
                    EReset n = a callback called tdma_sched_reset() and n items were stored afterwards
     spawn_phase rcf st xs   the callbacks xs invoked one after the other on the state their predecessors left (final state, log)
     lift_x / lift_obs       an execute result / observation of the model without scheduler-using callbacks, read as one of the re-entrant model. *)
From Coq Require Import ZArith List Permutation Sorted.
From OBB Require Import Gen.FwSchedConst Model.TdmaSched Proofs.TdmaSchedSpec Proofs.TdmaSchedSortP Proofs.TdmaSchedP Proofs.TdmaSchedRefP Proofs.TdmaSchedHistP Proofs.TdmaSchedOriginP Proofs.TdmaSchedSpawnP.
Import ListNotations.
Open Scope Z_scope.

(* the constants and field widths compiled from the real headers are the ones the model and the theorems use *)
Theorem c08_constants :
  c_TDMASCHED_NUM_FRAMES = 25 /\ c_TDMASCHED_NUM_CB = 8 /\ c_NBUCKETS = 25 /\ c_NITEMS = 8 /\
  c_CUR_BITS = 8 /\ c_NUM_ITEMS_BITS = 8 /\ c_P1_BITS = 8 /\ c_P2_BITS = 8 /\ c_P3_BITS = 16 /\ c_P3_SIGNED = 0 /\
  c_PRIO_BITS = 16 /\ c_PRIO_SIGNED = 1.
Proof. exact consts_ok. Qed.
Print Assumptions c08_constants.

(* no history of valid operations, from any well-formed state, with ANY callback results, indexes outside an array or calls NULL;
   the state stays well-formed (in particular no bucket ever holds more than 8 items, cur stays below 25) *)
Theorem c08_no_crash : forall (rcf : item -> Z) (ops : list op) (st : sched),
  wf st -> cbs_ok st -> Forall op_ok ops ->
  exists os st', run rcf st ops = (os, FOk st') /\ wf st' /\ cbs_ok st' /\ length os = length ops.
Proof. exact run_ok. Qed.
Print Assumptions c08_no_crash.

(* refinement, one operation: the ring buffer implements the multiset of (frames-until-due, item):
   schedule adds (N, item) unless 8 items are already due in N frames (-1), advance decrements every due-in modulo 25,
   execute runs exactly the items with due-in 0 (a permutation of them, ascending priority, return value = their number)
   and removes them, reset keeps exactly the items with due-in 0 *)
Theorem c08_refines_step : forall (rcf : item -> Z) (st : sched) (m : list aitem) (o : op) (st' : sched) (b : obs),
  wf st -> cbs_ok st -> (forall x, 0 <= rcf x) -> refines st m -> op_ok o ->
  step rcf st o = Ok (st', b) ->
  refines st' (fst (a_step m o)) /\ obs_matches b (snd (a_step m o)).
Proof. exact step_refines. Qed.
Print Assumptions c08_refines_step.

(* refinement, all histories *)
Theorem c08_refines : forall (rcf : item -> Z), (forall x, 0 <= rcf x) ->
  forall (ops : list op) (st : sched) (m : list aitem),
  wf st -> cbs_ok st -> refines st m -> Forall op_ok ops ->
  exists os st', run rcf st ops = (os, FOk st') /\ wf st' /\ cbs_ok st' /\
                 refines st' (snd (a_run m ops)) /\ Forall2 obs_matches os (fst (a_run m ops)).
Proof. exact run_refines. Qed.
Print Assumptions c08_refines.

(* the empty scheduler at any ring position is a valid start and refines the empty multiset *)
Theorem c08_init_refines : forall c, 0 <= c < 25 -> wf (init c) /\ cbs_ok (init c) /\ refines (init c) [].
Proof. exact (fun c H => conj (proj1 (init_wf c H)) (conj (proj2 (init_wf c H)) (init_refines c H))). Qed.
Print Assumptions c08_init_refines.

(* execute: the callbacks run are a permutation of the current frame's bucket, in ascending priority, the return value is their
   number; afterwards that frame is empty, the ring position and every other frame are unchanged *)
Theorem c08_sorted_perm : forall (rcf : item -> Z) (st : sched),
  wf st -> cbs_ok st -> (forall x, 0 <= rcf x) ->
  exists st' lg, tdma_sched_execute rcf st = XOk st' lg (Z.of_nat (length lg)) /\
    Permutation lg (bucket_due st 0) /\ StronglySorted (fun x y => i_prio x <= i_prio y) lg /\
    bucket_due st' 0 = [] /\ s_cur st' = s_cur st /\ (forall d, 0 < d < 25 -> bucket_due st' d = bucket_due st d).
Proof. exact sorted_perm. Qed.
Print Assumptions c08_sorted_perm.

(* the same at the level of storage slots (identity of an item = its slot): the seq[] array the C sort produces visits
   every occupied slot 0..n-1 exactly once, in ascending priority (exec_order is what tdma_sched_execute iterates over) *)
Theorem c08_each_slot_once : forall (b : list item), (length b <= 8)%nat ->
  exec_order b = map (fun k => nth k b dflt) (slot_order b) /\
  Permutation (slot_order b) (seq 0 (length b)) /\
  (forall k, (k < length b)%nat -> count_occ Nat.eq_dec (slot_order b) k = 1%nat) /\
  StronglySorted (fun j k => i_prio (nth j b dflt) <= i_prio (nth k b dflt)) (slot_order b).
Proof. exact slots_once. Qed.
Print Assumptions c08_each_slot_once.

Theorem c08_executed_empty : forall (rcf : item -> Z) (st : sched),
  wf st -> cbs_ok st -> (forall x, 0 <= rcf x) ->
  exists st' lg r, tdma_sched_execute rcf st = XOk st' lg r /\
    bucket_due st' 0 = [] /\ s_cur st' = s_cur st /\ (forall d, 0 < d < 25 -> bucket_due st' d = bucket_due st d).
Proof. exact executed_empty. Qed.
Print Assumptions c08_executed_empty.

(* exactly once, on time, with its parameters: in any well-formed state s1 (any ring position, any content), an item scheduled
   N < 25 frames ahead into a frame with room is stored in slot k = (number of items already due then); after ANY valid
   operations [mid] that contain exactly N advances, no reset, and no execute after the N-th advance, the item still sits in slot k
   of the now-current bucket with (cb, p1, p2, p3, prio) unchanged; the next execute runs the slots in an order that is a
   permutation of 0..n-1 - slot k exactly once -, in ascending priority, and leaves the frame empty.
   (executes inside [mid] happen after fewer than N advances and, by c08_sorted_perm, touch only the then-current bucket.) *)
Theorem c08_exactly_once_on_time : forall (rcf : item -> Z) (s1 : sched) (N : Z) (it : item) (mid : list op),
  wf s1 -> cbs_ok s1 -> (forall x, 0 <= rcf x) -> 0 <= N < 25 -> i_cb it <> 0 ->
  (length (bucket_due s1 N) < 8)%nat ->
  Forall op_ok mid -> advances mid = N -> ~ In OReset mid ->
  (forall a b, mid = a ++ OExecute :: b -> advances a < N) ->
  exists s2 os s3 s4 order,
    tdma_schedule s1 N it = Ok (s2, 0) /\
    run rcf s2 mid = (os, FOk s3) /\
    nth_error (bucket_due s3 0) (length (bucket_due s1 N)) = Some it /\
    tdma_sched_execute rcf s3 = XOk s4 (map (fun j => nth j (bucket_due s3 0) dflt) order) (Z.of_nat (length (bucket_due s3 0))) /\
    Permutation order (seq 0 (length (bucket_due s3 0))) /\
    count_occ Nat.eq_dec order (length (bucket_due s1 N)) = 1%nat /\
    StronglySorted (fun x y => i_prio x <= i_prio y) (map (fun j => nth j (bucket_due s3 0) dflt) order) /\
    bucket_due s4 0 = [].
Proof. exact exactly_once_on_time. Qed.
Print Assumptions c08_exactly_once_on_time.

(* sets: tdma_schedule_set is tdma_schedule applied, in order, to every item of the set with p3 replaced, the items of the
   k-th frame of the set (k = number of SCHED_END_FRAME markers before them) at offset off + k; if all fit (return value = number
   of END_FRAME markers) the frame due in d holds its old items followed by the set's frame d - off *)
Theorem c08_set_offsets : forall (st : sched) (off : Z) (set : list item) (p3 : Z) (plan : list (Z * item)),
  wf st -> 0 <= off -> off + set_nframes set < 25 -> set_plan 0 set p3 = Some plan ->
  tdma_schedule_set st off set p3 = place st off plan (set_nframes set) /\
  forall st', tdma_schedule_set st off set p3 = Ok (st', set_nframes set) ->
     s_cur st' = s_cur st /\
     forall d, 0 <= d < 25 -> bucket_due st' d = bucket_due st d ++ plan_frame plan (d - off).
Proof. exact set_offsets. Qed.
Print Assumptions c08_set_offsets.

(* capacity: a frame that already holds 8 items answers -1 and the state is IDENTICAL (nothing overwritten);
   with room the item is appended to that frame only *)
Theorem c08_overflow_reported : forall (st : sched) (N : Z) (it : item), wf st -> 0 <= N < 25 ->
  ((length (bucket_due st N) >= 8)%nat -> tdma_schedule st N it = Ok (st, -1)) /\
  ((length (bucket_due st N) < 8)%nat -> exists st', tdma_schedule st N it = Ok (st', 0) /\ s_cur st' = s_cur st /\
      bucket_due st' N = bucket_due st N ++ [it] /\ forall d, 0 <= d < 25 -> d <> N -> bucket_due st' d = bucket_due st d).
Proof. exact overflow_reported. Qed.
Print Assumptions c08_overflow_reported.

(* the same for sets: the result is -1 or the number of frames, and whatever it is every frame keeps its old items as a prefix *)
Theorem c08_set_never_overwrites : forall (st : sched) (off : Z) (set : list item) (p3 : Z) (plan : list (Z * item)),
  wf st -> 0 <= off -> off + set_nframes set < 25 -> set_plan 0 set p3 = Some plan ->
  exists st' rc, tdma_schedule_set st off set p3 = Ok (st', rc) /\ (rc = -1 \/ rc = set_nframes set) /\ s_cur st' = s_cur st /\
    forall d, 0 <= d < 25 -> exists extra, bucket_due st' d = bucket_due st d ++ extra.
Proof. exact set_appends. Qed.
Print Assumptions c08_set_never_overwrites.

(* nothing else runs: starting from the empty scheduler at any ring position, after any valid history every item found d frames
   ahead (d = 0: what the next execute runs) was stored by an earlier schedule / set operation of that history for N frames
   ahead, and N minus the advances since is d modulo the ring depth (= exactly N advances when every frame is executed) *)
Theorem c08_nothing_else : forall (rcf : item -> Z) (c : Z) (ops : list op),
  0 <= c < 25 -> (forall x, 0 <= rcf x) -> Forall op_ok ops ->
  exists os st, run rcf (init c) ops = (os, FOk st) /\
    forall d it, 0 <= d < 25 -> In it (bucket_due st d) ->
      exists a o b N, ops = a ++ o :: b /\ schedules o N it /\ 0 <= N < 25 /\ (N - advances b) mod 25 = d.
Proof. exact nothing_else. Qed.
Print Assumptions c08_nothing_else.

(* ================= callbacks that schedule while tdma_sched_execute() runs ================= *)

(* conservative extension: on ANY state (well-formed or not) and for ANY callback results, if the current bucket holds no item with
   callback 15 / 16 the re-entrant execute is the execute of the theorems above (same state, same calls, same return value, same crashes) *)
Theorem c08_sp_conservative : forall (rcf : item -> Z) (st : sched),
  Forall (fun it => i_cb it <> 15 /\ i_cb it <> 16) (bucket_abs st (s_cur st)) ->
  tdma_sched_execute_sp rcf st = lift_x (tdma_sched_execute rcf st).
Proof. exact conservative. Qed.
Print Assumptions c08_sp_conservative.

(* the same for whole histories from any state that stores no such item, with operations that schedule none *)
Theorem c08_sp_conservative_history : forall (rcf : item -> Z) (ops : list op) (st : sched),
  all_st (fun it => i_cb it <> 15 /\ i_cb it <> 16) st -> Forall (all_op (fun it => i_cb it <> 15 /\ i_cb it <> 16)) ops ->
  run_sp rcf st ops = (map lift_obs (fst (run rcf st ops)), snd (run rcf st ops)).
Proof. exact run_conservative. Qed.
Print Assumptions c08_sp_conservative_history.

(* no history of valid operations - items with the scheduling callbacks 15 / 16 and ANY p2 (frame offset of the child) included, ANY
   callback results - indexes outside an array, calls NULL or exhausts the fuel of the run loop (SXFuel, SXOOB, SXNull are mapped to
   FOOB / FNull by step_sp); the state stays well-formed: no bucket ever holds more than 8 items *)
Theorem c08_sp_no_crash : forall (rcf : item -> Z) (ops : list op) (st : sched),
  wf st -> cbs_ok st -> Forall op_ok ops ->
  exists os st', run_sp rcf st ops = (os, FOk st') /\ wf st' /\ cbs_ok st' /\ length os = length ops.
Proof. exact run_sp_ok. Qed.
Print Assumptions c08_sp_no_crash.

(* the general shape of one call, any number of scheduling callbacks in the frame: the items present at entry are invoked in the
   sorted order of c08_each_slot_once, each on the state its predecessors left (so each tdma_schedule done by a callback obeys
   c08_overflow_reported on that state); what they appended to the running frame ([extra], items made by child_of) is invoked
   afterwards in append order whatever its priority; the return value counts both; then the frame is cleared *)
Theorem c08_sp_execute_shape : forall (rcf : item -> Z) (st : sched),
  wf st -> cbs_ok st -> (forall x, 0 <= rcf x) ->
  exists extra,
    bucket_due (fst (spawn_phase rcf st (exec_order (bucket_due st 0)))) 0 = bucket_due st 0 ++ extra /\
    Forall (fun it => 2 <= i_cb it <= 9) extra /\
    tdma_sched_execute_sp rcf st =
      SXOk (set_bucket (fst (spawn_phase rcf st (exec_order (bucket_due st 0)))) (s_cur st) [])
           (snd (spawn_phase rcf st (exec_order (bucket_due st 0))) ++ map ECall extra)
           (Z.of_nat (length (bucket_due st 0) + length extra)).
Proof. exact execute_sp_shape. Qed.
Print Assumptions c08_sp_execute_shape.

(* same frame: any well-formed state (any ring position, any content of the other 24 frames), the current frame holds a callback-15
   item sp with p2 = 0 at any slot among up to 6 other items of any priorities: tdma_schedule(0, child) answers 0, the child is invoked
   in this very call, once, after every item that was in the frame at entry, with the parameters it was scheduled with; it is counted in
   the return value; afterwards the frame is empty and no other frame has changed *)
Theorem c08_sp_same_frame_child : forall (rcf : item -> Z) (st : sched) (l1 : list item) (sp : item) (l2 : list item),
  wf st -> cbs_ok st -> (forall x, 0 <= rcf x) ->
  bucket_due st 0 = l1 ++ sp :: l2 -> Forall plain l1 -> Forall plain l2 -> i_cb sp = 15 -> i_p2 sp = 0 ->
  (length (bucket_due st 0) < 8)%nat ->
  exists st' lg, tdma_sched_execute_sp rcf st = SXOk st' lg (Z.of_nat (length (bucket_due st 0)) + 1) /\
    calls lg = exec_order (bucket_due st 0) ++ [child_of sp] /\
    In (ESpawn 0 (child_of sp) 0) lg /\
    bucket_due st' 0 = [] /\ s_cur st' = s_cur st /\ (forall d, 0 < d < 25 -> bucket_due st' d = bucket_due st d).
Proof. exact same_frame_child. Qed.
Print Assumptions c08_sp_same_frame_child.

(* N frames ahead, 0 < N < 25, room in that frame: the child is stored behind what frame N holds, every other frame is unchanged, the
   running frame is emptied, and the child is NOT invoked in this call (the calls are exactly the entry items) *)
Theorem c08_sp_child_ahead : forall (rcf : item -> Z) (st : sched) (l1 : list item) (sp : item) (l2 : list item) (N : Z),
  wf st -> cbs_ok st -> (forall x, 0 <= rcf x) ->
  bucket_due st 0 = l1 ++ sp :: l2 -> Forall plain l1 -> Forall plain l2 -> i_cb sp = 15 -> i_p2 sp = N -> 0 < N < 25 ->
  (length (bucket_due st N) < 8)%nat ->
  exists st' lg, tdma_sched_execute_sp rcf st = SXOk st' lg (Z.of_nat (length (bucket_due st 0))) /\
    calls lg = exec_order (bucket_due st 0) /\
    In (ESpawn N (child_of sp) 0) lg /\
    bucket_due st' 0 = [] /\ s_cur st' = s_cur st /\
    bucket_due st' N = bucket_due st N ++ [child_of sp] /\
    (forall d, 0 < d < 25 -> d <> N -> bucket_due st' d = bucket_due st d).
Proof. exact child_ahead. Qed.
Print Assumptions c08_sp_child_ahead.

(* capacity: the target frame (N = 0: the running frame itself) already holds 8 items: the callback sees -1, the child is neither
   stored nor run, nothing is overwritten - every other frame is exactly what it was, the running frame ran its entry items and is empty *)
Theorem c08_sp_child_refused : forall (rcf : item -> Z) (st : sched) (l1 : list item) (sp : item) (l2 : list item) (N : Z),
  wf st -> cbs_ok st -> (forall x, 0 <= rcf x) ->
  bucket_due st 0 = l1 ++ sp :: l2 -> Forall plain l1 -> Forall plain l2 -> i_cb sp = 15 -> i_p2 sp = N -> 0 <= N < 25 ->
  (length (bucket_due st N) >= 8)%nat ->
  exists st' lg, tdma_sched_execute_sp rcf st = SXOk st' lg (Z.of_nat (length (bucket_due st 0))) /\
    calls lg = exec_order (bucket_due st 0) /\
    In (ESpawn N (child_of sp) (-1)) lg /\
    bucket_due st' 0 = [] /\ s_cur st' = s_cur st /\
    (forall d, 0 < d < 25 -> bucket_due st' d = bucket_due st d).
Proof. exact child_refused. Qed.
Print Assumptions c08_sp_child_refused.

(* the firmware's pattern (prim_fbsb.c: tdma_sched_reset(); tdma_schedule(0, ...) from a running callback): the reset leaves exactly
   the running frame, the child is still invoked in this very call, last; afterwards NO frame holds anything *)
Theorem c08_sp_reset_then_child : forall (rcf : item -> Z) (st : sched) (l1 : list item) (sp : item) (l2 : list item),
  wf st -> cbs_ok st -> (forall x, 0 <= rcf x) ->
  bucket_due st 0 = l1 ++ sp :: l2 -> Forall plain l1 -> Forall plain l2 -> i_cb sp = 16 -> i_p2 sp = 0 ->
  (length (bucket_due st 0) < 8)%nat ->
  exists st' lg, tdma_sched_execute_sp rcf st = SXOk st' lg (Z.of_nat (length (bucket_due st 0)) + 1) /\
    calls lg = exec_order (bucket_due st 0) ++ [child_of sp] /\
    In (EReset (Z.of_nat (length (bucket_due st 0)))) lg /\ In (ESpawn 0 (child_of sp) 0) lg /\
    s_cur st' = s_cur st /\ (forall d, 0 <= d < 25 -> bucket_due st' d = []).
Proof. exact reset_then_same_frame_child. Qed.
Print Assumptions c08_sp_reset_then_child.

(* exactly once, on time, in histories whose callbacks schedule: an item held in slot k of the frame N < 25 ahead - put there by an
   operation or by a callback (c08_sp_child_ahead: the child sits in slot length (bucket_due st N) of frame N) - is still in slot k
   of the current frame after ANY valid operations [mid] with exactly N advances (executes of frames with callback-15 items included),
   no reset (operation or callback 16: a reset erases other frames by design) and no execute after the N-th advance; the next
   execute invokes the sorted entry items - slot k exactly once - followed by the items its callbacks appended, and empties the frame *)
Theorem c08_sp_held_runs_on_time : forall (rcf : item -> Z) (s2 : sched) (N : Z) (k : nat) (it : item) (mid : list op),
  wf s2 -> cbs_ok s2 -> all_st (fun x => i_cb x <> 16) s2 -> (forall x, 0 <= rcf x) -> 0 <= N < 25 ->
  nth_error (bucket_due s2 N) k = Some it ->
  Forall op_ok mid -> Forall (all_op (fun x => i_cb x <> 16)) mid -> advances mid = N -> ~ In OReset mid ->
  (forall a b, mid = a ++ OExecute :: b -> advances a < N) ->
  exists os s3 s4 lg extra,
    run_sp rcf s2 mid = (os, FOk s3) /\
    nth_error (bucket_due s3 0) k = Some it /\
    tdma_sched_execute_sp rcf s3 = SXOk s4 lg (Z.of_nat (length (bucket_due s3 0) + length extra)) /\
    calls lg = exec_order (bucket_due s3 0) ++ extra /\ Forall (fun x => 2 <= i_cb x <= 9) extra /\
    count_occ Nat.eq_dec (slot_order (bucket_due s3 0)) k = 1%nat /\
    bucket_due s4 0 = [].
Proof. exact held_runs_on_time. Qed.
Print Assumptions c08_sp_held_runs_on_time.
