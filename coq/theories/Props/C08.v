(* C08 - the firmware TDMA scheduler runs each item exactly in its scheduled frame. Statements only.
   Model: Model/TdmaSched.v (tdma_sched.c, uint8/uint16/int16 arithmetic explicit; first 13 theorems: callbacks that do not touch the
   scheduler = pure functions of the item; theorems c08_sp_*: callbacks that call tdma_schedule / tdma_sched_reset while execute runs).
   Vocabulary (Proofs/TdmaSchedSpec.v, literal 25 buckets x 8 items):
     wf st            25 buckets, 0 <= cur < 25, every bucket <= 8 items     cbs_ok st   no stored NULL callback
     bucket_due st d  the items due in d frames = bucket (cur + d) mod 25, in storing order
     op_ok o          OSched N it: 0 <= N < 25, cb <> NULL;  OSet N set p3: END_SET-terminated, N + number of END_FRAMEs < 25
     refines st m     for every d in 0..24, bucket_due st d is a permutation of the items with due-in = d of the multiset m
   "callbacks that report success" = forall x, 0 <= rcf x (tdma_sched_execute tests rc < 0).
   Re-entrant part (theorems c08_sp_*, Proofs/TdmaSchedSpawnP.v): tdma_sched_execute_sp / run_sp thread the scheduler through the callbacks;
     callback 15 calls tdma_schedule(p2, child_of it) and callback 16 calls tdma_sched_reset() first, from inside execute; both return 0.
     plain it       i_cb it <> 15 /\ i_cb it <> 16 (does not use the scheduler)      childlike it   2 <= i_cb it <= 9 (what child_of makes)
     no16 it        i_cb it <> 16           all_st P st / all_op P o   every stored item / every item the operation schedules satisfies P
     calls lg       the callbacks invoked, in order (log entries ECall); ESpawn N child rc = a callback called tdma_schedule(N, child) and got rc;
                    EReset n = a callback called tdma_sched_reset() and n items were stored afterwards
     spawn_phase rcf st xs   the callbacks xs invoked one after the other on the state their predecessors left (final state, log)
     lift_x / lift_obs       an execute result / observation of the model without scheduler-using callbacks, read as one of the re-entrant model.
   GSM-time one-shot events (theorems c08_gsm_*, Model/SchedGsmtime.v = sched_gsmtime.c, Proofs/SchedGsmtimeP.v):
     gstate = (g_act: pending events front to back, each (slot, si = item-set array, fn, p3); g_inact: free slot indices front to back)
     gs_ok gs       g_act sorted by fn (ascending, not strictly) and map e_slot g_act ++ g_inact is a permutation of the slots 0..15
     gop            GT o (an operation of the TDMA scheduler) | GReq si fn p3 | GExec fn | GReset;  g_run = history of both schedulers
     gwalk tgt l    the `if (fn == tgt) {hand over} if (fn > tgt) break;` walk of sched_gsmtime_execute alone: (list afterwards, events handed over)
     gexec_target fn = ((fn + 2) mod 2^32) mod 2715648 (`(fn + SCHEDULE_AHEAD) % GSM_MAX_FN` in uint32);  gexec_offset = 1 = SCHEDULE_AHEAD - SCHEDULE_LATENCY
     clock t j      the j consecutive frame numbers t, t+1, ... modulo the hyperframe 2715648 (what l1_sync passes to sched_gsmtime_execute)
     gs_step / gs_run   the event scheduler alone (it never reads the TDMA scheduler): state, and per execute (fn, events handed over)
     expand gs ops  what the TDMA scheduler sees: every GExec replaced by OSet 1 si p3 for each event it hands over, in order
     hand_over off ts evs   tdma_schedule_set(off, si, p3) for each event in order; qlog obs = events handed over per execute, from the observations
     frames n fn    n frame interrupts [tdma execute; sched_gsmtime_execute(fn); tdma advance], fn counting modulo the hyperframe 2715648. *)
From Coq Require Import ZArith List Permutation Sorted.
From OBB Require Import Gen.FwSchedConst Gen.FwGsmtimeConst Model.TdmaSched Model.SchedGsmtime Proofs.TdmaSchedSpec Proofs.TdmaSchedSortP Proofs.TdmaSchedP Proofs.TdmaSchedRefP Proofs.TdmaSchedHistP Proofs.TdmaSchedOriginP Proofs.TdmaSchedSpawnP Proofs.SchedGsmtimeP.
Import ListNotations.
Open Scope Z_scope.

(* the constants and field widths compiled from the real headers are the ones the model and the theorems use *)
Theorem c08_constants :
  c_TDMASCHED_NUM_FRAMES = 25 /\ c_TDMASCHED_NUM_CB = 8 /\ c_NBUCKETS = 25 /\ c_NITEMS = 8 /\
  c_CUR_BITS = 8 /\ c_NUM_ITEMS_BITS = 8 /\ c_P1_BITS = 8 /\ c_P2_BITS = 8 /\ c_P3_BITS = 16 /\ c_P3_SIGNED = 0 /\
  c_PRIO_BITS = 16 /\ c_PRIO_SIGNED = 1.
Proof. exact consts_ok. Qed.
Print Assumptions c08_constants.

(* no history of valid operations, from any well-formed state, with ANY callback results, indexes outside an array or calls NULL;
   the state stays well-formed (in particular no bucket ever holds more than 8 items, cur stays below 25) *)
Theorem c08_no_crash : forall (rcf : item -> Z) (ops : list op) (st : sched),
  wf st -> cbs_ok st -> Forall op_ok ops ->
  exists os st', run rcf st ops = (os, FOk st') /\ wf st' /\ cbs_ok st' /\ length os = length ops.
Proof. exact run_ok. Qed.
Print Assumptions c08_no_crash.

(* refinement, one operation: the ring buffer implements the multiset of (frames-until-due, item):
   schedule adds (N, item) unless 8 items are already due in N frames (-1), advance decrements every due-in modulo 25,
   execute runs exactly the items with due-in 0 (a permutation of them, ascending priority, return value = their number)
   and removes them, reset keeps exactly the items with due-in 0 *)
Theorem c08_refines_step : forall (rcf : item -> Z) (st : sched) (m : list aitem) (o : op) (st' : sched) (b : obs),
  wf st -> cbs_ok st -> (forall x, 0 <= rcf x) -> refines st m -> op_ok o ->
  step rcf st o = Ok (st', b) ->
  refines st' (fst (a_step m o)) /\ obs_matches b (snd (a_step m o)).
Proof. exact step_refines. Qed.
Print Assumptions c08_refines_step.

(* refinement, all histories *)
Theorem c08_refines : forall (rcf : item -> Z), (forall x, 0 <= rcf x) ->
  forall (ops : list op) (st : sched) (m : list aitem),
  wf st -> cbs_ok st -> refines st m -> Forall op_ok ops ->
  exists os st', run rcf st ops = (os, FOk st') /\ wf st' /\ cbs_ok st' /\
                 refines st' (snd (a_run m ops)) /\ Forall2 obs_matches os (fst (a_run m ops)).
Proof. exact run_refines. Qed.
Print Assumptions c08_refines.

(* the empty scheduler at any ring position is a valid start and refines the empty multiset *)
Theorem c08_init_refines : forall c, 0 <= c < 25 -> wf (init c) /\ cbs_ok (init c) /\ refines (init c) [].
Proof. exact (fun c H => conj (proj1 (init_wf c H)) (conj (proj2 (init_wf c H)) (init_refines c H))). Qed.
Print Assumptions c08_init_refines.

(* execute: the callbacks run are a permutation of the current frame's bucket, in ascending priority, the return value is their
   number; afterwards that frame is empty, the ring position and every other frame are unchanged *)
Theorem c08_sorted_perm : forall (rcf : item -> Z) (st : sched),
  wf st -> cbs_ok st -> (forall x, 0 <= rcf x) ->
  exists st' lg, tdma_sched_execute rcf st = XOk st' lg (Z.of_nat (length lg)) /\
    Permutation lg (bucket_due st 0) /\ StronglySorted (fun x y => i_prio x <= i_prio y) lg /\
    bucket_due st' 0 = [] /\ s_cur st' = s_cur st /\ (forall d, 0 < d < 25 -> bucket_due st' d = bucket_due st d).
Proof. exact sorted_perm. Qed.
Print Assumptions c08_sorted_perm.

(* the same at the level of storage slots (identity of an item = its slot): the seq[] array the C sort produces visits
   every occupied slot 0..n-1 exactly once, in ascending priority (exec_order is what tdma_sched_execute iterates over) *)
Theorem c08_each_slot_once : forall (b : list item), (length b <= 8)%nat ->
  exec_order b = map (fun k => nth k b dflt) (slot_order b) /\
  Permutation (slot_order b) (seq 0 (length b)) /\
  (forall k, (k < length b)%nat -> count_occ Nat.eq_dec (slot_order b) k = 1%nat) /\
  StronglySorted (fun j k => i_prio (nth j b dflt) <= i_prio (nth k b dflt)) (slot_order b).
Proof. exact slots_once. Qed.
Print Assumptions c08_each_slot_once.

Theorem c08_executed_empty : forall (rcf : item -> Z) (st : sched),
  wf st -> cbs_ok st -> (forall x, 0 <= rcf x) ->
  exists st' lg r, tdma_sched_execute rcf st = XOk st' lg r /\
    bucket_due st' 0 = [] /\ s_cur st' = s_cur st /\ (forall d, 0 < d < 25 -> bucket_due st' d = bucket_due st d).
Proof. exact executed_empty. Qed.
Print Assumptions c08_executed_empty.

(* exactly once, on time, with its parameters: in any well-formed state s1 (any ring position, any content), an item scheduled
   N < 25 frames ahead into a frame with room is stored in slot k = (number of items already due then); after ANY valid
   operations [mid] that contain exactly N advances, no reset, and no execute after the N-th advance, the item still sits in slot k
   of the now-current bucket with (cb, p1, p2, p3, prio) unchanged; the next execute runs the slots in an order that is a
   permutation of 0..n-1 - slot k exactly once -, in ascending priority, and leaves the frame empty.
   (executes inside [mid] happen after fewer than N advances and, by c08_sorted_perm, touch only the then-current bucket.) *)
Theorem c08_exactly_once_on_time : forall (rcf : item -> Z) (s1 : sched) (N : Z) (it : item) (mid : list op),
  wf s1 -> cbs_ok s1 -> (forall x, 0 <= rcf x) -> 0 <= N < 25 -> i_cb it <> 0 ->
  (length (bucket_due s1 N) < 8)%nat ->
  Forall op_ok mid -> advances mid = N -> ~ In OReset mid ->
  (forall a b, mid = a ++ OExecute :: b -> advances a < N) ->
  exists s2 os s3 s4 order,
    tdma_schedule s1 N it = Ok (s2, 0) /\
    run rcf s2 mid = (os, FOk s3) /\
    nth_error (bucket_due s3 0) (length (bucket_due s1 N)) = Some it /\
    tdma_sched_execute rcf s3 = XOk s4 (map (fun j => nth j (bucket_due s3 0) dflt) order) (Z.of_nat (length (bucket_due s3 0))) /\
    Permutation order (seq 0 (length (bucket_due s3 0))) /\
    count_occ Nat.eq_dec order (length (bucket_due s1 N)) = 1%nat /\
    StronglySorted (fun x y => i_prio x <= i_prio y) (map (fun j => nth j (bucket_due s3 0) dflt) order) /\
    bucket_due s4 0 = [].
Proof. exact exactly_once_on_time. Qed.
Print Assumptions c08_exactly_once_on_time.

(* sets: tdma_schedule_set is tdma_schedule applied, in order, to every item of the set with p3 replaced, the items of the
   k-th frame of the set (k = number of SCHED_END_FRAME markers before them) at offset off + k; if all fit (return value = number
   of END_FRAME markers) the frame due in d holds its old items followed by the set's frame d - off *)
Theorem c08_set_offsets : forall (st : sched) (off : Z) (set : list item) (p3 : Z) (plan : list (Z * item)),
  wf st -> 0 <= off -> off + set_nframes set < 25 -> set_plan 0 set p3 = Some plan ->
  tdma_schedule_set st off set p3 = place st off plan (set_nframes set) /\
  forall st', tdma_schedule_set st off set p3 = Ok (st', set_nframes set) ->
     s_cur st' = s_cur st /\
     forall d, 0 <= d < 25 -> bucket_due st' d = bucket_due st d ++ plan_frame plan (d - off).
Proof. exact set_offsets. Qed.
Print Assumptions c08_set_offsets.

(* capacity: a frame that already holds 8 items answers -1 and the state is IDENTICAL (nothing overwritten);
   with room the item is appended to that frame only *)
Theorem c08_overflow_reported : forall (st : sched) (N : Z) (it : item), wf st -> 0 <= N < 25 ->
  ((length (bucket_due st N) >= 8)%nat -> tdma_schedule st N it = Ok (st, -1)) /\
  ((length (bucket_due st N) < 8)%nat -> exists st', tdma_schedule st N it = Ok (st', 0) /\ s_cur st' = s_cur st /\
      bucket_due st' N = bucket_due st N ++ [it] /\ forall d, 0 <= d < 25 -> d <> N -> bucket_due st' d = bucket_due st d).
Proof. exact overflow_reported. Qed.
Print Assumptions c08_overflow_reported.

(* the same for sets: the result is -1 or the number of frames, and whatever it is every frame keeps its old items as a prefix *)
Theorem c08_set_never_overwrites : forall (st : sched) (off : Z) (set : list item) (p3 : Z) (plan : list (Z * item)),
  wf st -> 0 <= off -> off + set_nframes set < 25 -> set_plan 0 set p3 = Some plan ->
  exists st' rc, tdma_schedule_set st off set p3 = Ok (st', rc) /\ (rc = -1 \/ rc = set_nframes set) /\ s_cur st' = s_cur st /\
    forall d, 0 <= d < 25 -> exists extra, bucket_due st' d = bucket_due st d ++ extra.
Proof. exact set_appends. Qed.
Print Assumptions c08_set_never_overwrites.

(* nothing else runs: starting from the empty scheduler at any ring position, after any valid history every item found d frames
   ahead (d = 0: what the next execute runs) was stored by an earlier schedule / set operation of that history for N frames
   ahead, and N minus the advances since is d modulo the ring depth (= exactly N advances when every frame is executed) *)
Theorem c08_nothing_else : forall (rcf : item -> Z) (c : Z) (ops : list op),
  0 <= c < 25 -> (forall x, 0 <= rcf x) -> Forall op_ok ops ->
  exists os st, run rcf (init c) ops = (os, FOk st) /\
    forall d it, 0 <= d < 25 -> In it (bucket_due st d) ->
      exists a o b N, ops = a ++ o :: b /\ schedules o N it /\ 0 <= N < 25 /\ (N - advances b) mod 25 = d.
Proof. exact nothing_else. Qed.
Print Assumptions c08_nothing_else.

(* ================= callbacks that schedule while tdma_sched_execute() runs ================= *)

(* conservative extension: on ANY state (well-formed or not) and for ANY callback results, if the current bucket holds no item with
   callback 15 / 16 the re-entrant execute is the execute of the theorems above (same state, same calls, same return value, same crashes) *)
Theorem c08_sp_conservative : forall (rcf : item -> Z) (st : sched),
  Forall (fun it => i_cb it <> 15 /\ i_cb it <> 16) (bucket_abs st (s_cur st)) ->
  tdma_sched_execute_sp rcf st = lift_x (tdma_sched_execute rcf st).
Proof. exact conservative. Qed.
Print Assumptions c08_sp_conservative.

(* the same for whole histories from any state that stores no such item, with operations that schedule none *)
Theorem c08_sp_conservative_history : forall (rcf : item -> Z) (ops : list op) (st : sched),
  all_st (fun it => i_cb it <> 15 /\ i_cb it <> 16) st -> Forall (all_op (fun it => i_cb it <> 15 /\ i_cb it <> 16)) ops ->
  run_sp rcf st ops = (map lift_obs (fst (run rcf st ops)), snd (run rcf st ops)).
Proof. exact run_conservative. Qed.
Print Assumptions c08_sp_conservative_history.

(* no history of valid operations - items with the scheduling callbacks 15 / 16 and ANY p2 (frame offset of the child) included, ANY
   callback results - indexes outside an array, calls NULL or exhausts the fuel of the run loop (SXFuel, SXOOB, SXNull are mapped to
   FOOB / FNull by step_sp); the state stays well-formed: no bucket ever holds more than 8 items *)
Theorem c08_sp_no_crash : forall (rcf : item -> Z) (ops : list op) (st : sched),
  wf st -> cbs_ok st -> Forall op_ok ops ->
  exists os st', run_sp rcf st ops = (os, FOk st') /\ wf st' /\ cbs_ok st' /\ length os = length ops.
Proof. exact run_sp_ok. Qed.
Print Assumptions c08_sp_no_crash.

(* the general shape of one call, any number of scheduling callbacks in the frame: the items present at entry are invoked in the
   sorted order of c08_each_slot_once, each on the state its predecessors left (so each tdma_schedule done by a callback obeys
   c08_overflow_reported on that state); what they appended to the running frame ([extra], items made by child_of) is invoked
   afterwards in append order whatever its priority; the return value counts both; then the frame is cleared *)
Theorem c08_sp_execute_shape : forall (rcf : item -> Z) (st : sched),
  wf st -> cbs_ok st -> (forall x, 0 <= rcf x) ->
  exists extra,
    bucket_due (fst (spawn_phase rcf st (exec_order (bucket_due st 0)))) 0 = bucket_due st 0 ++ extra /\
    Forall (fun it => 2 <= i_cb it <= 9) extra /\
    tdma_sched_execute_sp rcf st =
      SXOk (set_bucket (fst (spawn_phase rcf st (exec_order (bucket_due st 0)))) (s_cur st) [])
           (snd (spawn_phase rcf st (exec_order (bucket_due st 0))) ++ map ECall extra)
           (Z.of_nat (length (bucket_due st 0) + length extra)).
Proof. exact execute_sp_shape. Qed.
Print Assumptions c08_sp_execute_shape.

(* same frame: any well-formed state (any ring position, any content of the other 24 frames), the current frame holds a callback-15
   item sp with p2 = 0 at any slot among up to 6 other items of any priorities: tdma_schedule(0, child) answers 0, the child is invoked
   in this very call, once, after every item that was in the frame at entry, with the parameters it was scheduled with; it is counted in
   the return value; afterwards the frame is empty and no other frame has changed *)
Theorem c08_sp_same_frame_child : forall (rcf : item -> Z) (st : sched) (l1 : list item) (sp : item) (l2 : list item),
  wf st -> cbs_ok st -> (forall x, 0 <= rcf x) ->
  bucket_due st 0 = l1 ++ sp :: l2 -> Forall plain l1 -> Forall plain l2 -> i_cb sp = 15 -> i_p2 sp = 0 ->
  (length (bucket_due st 0) < 8)%nat ->
  exists st' lg, tdma_sched_execute_sp rcf st = SXOk st' lg (Z.of_nat (length (bucket_due st 0)) + 1) /\
    calls lg = exec_order (bucket_due st 0) ++ [child_of sp] /\
    In (ESpawn 0 (child_of sp) 0) lg /\
    bucket_due st' 0 = [] /\ s_cur st' = s_cur st /\ (forall d, 0 < d < 25 -> bucket_due st' d = bucket_due st d).
Proof. exact same_frame_child. Qed.
Print Assumptions c08_sp_same_frame_child.

(* N frames ahead, 0 < N < 25, room in that frame: the child is stored behind what frame N holds, every other frame is unchanged, the
   running frame is emptied, and the child is NOT invoked in this call (the calls are exactly the entry items) *)
Theorem c08_sp_child_ahead : forall (rcf : item -> Z) (st : sched) (l1 : list item) (sp : item) (l2 : list item) (N : Z),
  wf st -> cbs_ok st -> (forall x, 0 <= rcf x) ->
  bucket_due st 0 = l1 ++ sp :: l2 -> Forall plain l1 -> Forall plain l2 -> i_cb sp = 15 -> i_p2 sp = N -> 0 < N < 25 ->
  (length (bucket_due st N) < 8)%nat ->
  exists st' lg, tdma_sched_execute_sp rcf st = SXOk st' lg (Z.of_nat (length (bucket_due st 0))) /\
    calls lg = exec_order (bucket_due st 0) /\
    In (ESpawn N (child_of sp) 0) lg /\
    bucket_due st' 0 = [] /\ s_cur st' = s_cur st /\
    bucket_due st' N = bucket_due st N ++ [child_of sp] /\
    (forall d, 0 < d < 25 -> d <> N -> bucket_due st' d = bucket_due st d).
Proof. exact child_ahead. Qed.
Print Assumptions c08_sp_child_ahead.

(* capacity: the target frame (N = 0: the running frame itself) already holds 8 items: the callback sees -1, the child is neither
   stored nor run, nothing is overwritten - every other frame is exactly what it was, the running frame ran its entry items and is empty *)
Theorem c08_sp_child_refused : forall (rcf : item -> Z) (st : sched) (l1 : list item) (sp : item) (l2 : list item) (N : Z),
  wf st -> cbs_ok st -> (forall x, 0 <= rcf x) ->
  bucket_due st 0 = l1 ++ sp :: l2 -> Forall plain l1 -> Forall plain l2 -> i_cb sp = 15 -> i_p2 sp = N -> 0 <= N < 25 ->
  (length (bucket_due st N) >= 8)%nat ->
  exists st' lg, tdma_sched_execute_sp rcf st = SXOk st' lg (Z.of_nat (length (bucket_due st 0))) /\
    calls lg = exec_order (bucket_due st 0) /\
    In (ESpawn N (child_of sp) (-1)) lg /\
    bucket_due st' 0 = [] /\ s_cur st' = s_cur st /\
    (forall d, 0 < d < 25 -> bucket_due st' d = bucket_due st d).
Proof. exact child_refused. Qed.
Print Assumptions c08_sp_child_refused.

(* the firmware's pattern (prim_fbsb.c: tdma_sched_reset(); tdma_schedule(0, ...) from a running callback): the reset leaves exactly
   the running frame, the child is still invoked in this very call, last; afterwards NO frame holds anything *)
Theorem c08_sp_reset_then_child : forall (rcf : item -> Z) (st : sched) (l1 : list item) (sp : item) (l2 : list item),
  wf st -> cbs_ok st -> (forall x, 0 <= rcf x) ->
  bucket_due st 0 = l1 ++ sp :: l2 -> Forall plain l1 -> Forall plain l2 -> i_cb sp = 16 -> i_p2 sp = 0 ->
  (length (bucket_due st 0) < 8)%nat ->
  exists st' lg, tdma_sched_execute_sp rcf st = SXOk st' lg (Z.of_nat (length (bucket_due st 0)) + 1) /\
    calls lg = exec_order (bucket_due st 0) ++ [child_of sp] /\
    In (EReset (Z.of_nat (length (bucket_due st 0)))) lg /\ In (ESpawn 0 (child_of sp) 0) lg /\
    s_cur st' = s_cur st /\ (forall d, 0 <= d < 25 -> bucket_due st' d = []).
Proof. exact reset_then_same_frame_child. Qed.
Print Assumptions c08_sp_reset_then_child.

(* exactly once, on time, in histories whose callbacks schedule: an item held in slot k of the frame N < 25 ahead - put there by an
   operation or by a callback (c08_sp_child_ahead: the child sits in slot length (bucket_due st N) of frame N) - is still in slot k
   of the current frame after ANY valid operations [mid] with exactly N advances (executes of frames with callback-15 items included),
   no reset (operation or callback 16: a reset erases other frames by design) and no execute after the N-th advance; the next
   execute invokes the sorted entry items - slot k exactly once - followed by the items its callbacks appended, and empties the frame *)
Theorem c08_sp_held_runs_on_time : forall (rcf : item -> Z) (s2 : sched) (N : Z) (k : nat) (it : item) (mid : list op),
  wf s2 -> cbs_ok s2 -> all_st (fun x => i_cb x <> 16) s2 -> (forall x, 0 <= rcf x) -> 0 <= N < 25 ->
  nth_error (bucket_due s2 N) k = Some it ->
  Forall op_ok mid -> Forall (all_op (fun x => i_cb x <> 16)) mid -> advances mid = N -> ~ In OReset mid ->
  (forall a b, mid = a ++ OExecute :: b -> advances a < N) ->
  exists os s3 s4 lg extra,
    run_sp rcf s2 mid = (os, FOk s3) /\
    nth_error (bucket_due s3 0) k = Some it /\
    tdma_sched_execute_sp rcf s3 = SXOk s4 lg (Z.of_nat (length (bucket_due s3 0) + length extra)) /\
    calls lg = exec_order (bucket_due s3 0) ++ extra /\ Forall (fun x => 2 <= i_cb x <= 9) extra /\
    count_occ Nat.eq_dec (slot_order (bucket_due s3 0)) k = 1%nat /\
    bucket_due s4 0 = [].
Proof. exact held_runs_on_time. Qed.
Print Assumptions c08_sp_held_runs_on_time.

(* ================= GSM-time one-shot events (sched_gsmtime.c) on top of the TDMA scheduler ================= *)

Theorem c08_gsm_constants :
  c_GSMTIME_NEVENTS = 16 /\ c_SCHEDULE_AHEAD = 2 /\ c_SCHEDULE_LATENCY = 1 /\ c_EBUSY = 16 /\ c_GSM_MAX_FN = 2715648 /\
  c_GSMTIME_FN_BITS = 32 /\ c_GSMTIME_FN_SIGNED = 0 /\ c_GSMTIME_P3_BITS = 16.
Proof. exact gsm_consts_ok. Qed.
Print Assumptions c08_gsm_constants.

(* invariants, every history (requests in any frame order, any execute arguments, resets, TDMA operations): the active list is sorted by
   fn and every one of the 16 slots is on exactly one of the two lists exactly once; they hold after sched_gsmtime_init *)
Theorem c08_gsm_invariants :
  (StronglySorted (fun a b => e_fn a <= e_fn b) (g_act gs_init) /\ Permutation (map e_slot (g_act gs_init) ++ g_inact gs_init) (seq 0 16)) /\
  forall (ops : list gop) (gs : gstate),
    StronglySorted (fun a b => e_fn a <= e_fn b) (g_act gs) /\ Permutation (map e_slot (g_act gs) ++ g_inact gs) (seq 0 16) ->
    StronglySorted (fun a b => e_fn a <= e_fn b) (g_act (fst (gs_run gs ops))) /\
    Permutation (map e_slot (g_act (fst (gs_run gs ops))) ++ g_inact (fst (gs_run gs ops))) (seq 0 16).
Proof. exact (conj gs_init_ok gs_run_ok). Qed.
Print Assumptions c08_gsm_invariants.

(* the two schedulers decompose: in a combined history that ends without crash the event scheduler evolves on its own (gs_run), the
   events each sched_gsmtime_execute handed over are those of gs_run, and the TDMA scheduler went through run_sp of the expanded
   history - so every theorem above about run_sp / tdma_schedule_set speaks about the TDMA side of combined histories *)
Theorem c08_gsm_projection : forall (rcf : item -> Z) (ops : list gop) (ts : sched) (gs : gstate) (obs : list gobs) (ts' : sched) (gs' : gstate),
  g_run rcf ts gs ops = (obs, GFOk ts' gs') ->
  gs' = fst (gs_run gs ops) /\ qlog obs = map snd (snd (gs_run gs ops)) /\
  exists os, run_sp rcf ts (expand gs ops) = (os, FOk ts').
Proof. exact projection. Qed.
Print Assumptions c08_gsm_projection.

(* the loop of sched_gsmtime_execute as written (gexec_walk, with the TDMA scheduler threaded through) is the pure walk plus the
   tdma_schedule_set calls; freed slots go to the head of the inactive list one after the other *)
Theorem c08_gsm_walk : forall (off tgt : Z) (l : list gev) (ts : sched) (inact : list nat),
  gexec_walk tgt off l ts inact =
    match hand_over off ts (snd (gwalk tgt l)) with
    | Ok (ts', fired) => Ok (fst (gwalk tgt l), ts', rev (map e_slot (snd (gwalk tgt l))) ++ inact, fired)
    | OOB => OOB
    | NullCall => NullCall
    end.
Proof. exact walk_split. Qed.
Print Assumptions c08_gsm_walk.

(* on a SORTED list the early `break` loses nothing: exactly the events with fn = target are handed over, in list order, all others
   stay in order.  (On an unsorted list this is false - the seeded llist_add variant - which is why sortedness is an invariant above.) *)
Theorem c08_gsm_execute_sorted : forall (tgt : Z) (l : list gev), StronglySorted (fun a b => e_fn a <= e_fn b) l ->
  gwalk tgt l = (filter (fun e => negb (e_fn e =? tgt)) l, filter (fun e => e_fn e =? tgt) l).
Proof. exact gwalk_sorted. Qed.
Print Assumptions c08_gsm_execute_sorted.

(* never otherwise, any list: whatever sched_gsmtime_execute(fn) hands over has fn_event = target (for a clock frame fn < 2715648 the
   target is (fn + 2) mod 2715648: c08_gsm_target), and it only moves events: kept ++ handed over is a permutation of what was pending *)
Theorem c08_gsm_only_due : forall (tgt : Z) (l : list gev),
  Forall (fun e => e_fn e = tgt) (snd (gwalk tgt l)) /\ Permutation (fst (gwalk tgt l) ++ snd (gwalk tgt l)) l.
Proof. exact (fun tgt l => conj (gwalk_fired_due tgt l) (gwalk_perm tgt l)). Qed.
Print Assumptions c08_gsm_only_due.

(* sorted insert: the new event goes in front of the first pending event with a HIGHER fn, else to the end: equal fns keep request order *)
Theorem c08_gsm_sorted_insert : forall (e : gev) (l : list gev), exists l1 l2, l = l1 ++ l2 /\ ins_sorted e l = l1 ++ e :: l2 /\
  Forall (fun c => e_fn c <= e_fn e) l1 /\ match l2 with [] => True | c :: _ => e_fn e < e_fn c end.
Proof. exact ins_sorted_split. Qed.
Print Assumptions c08_gsm_sorted_insert.

(* capacity: with 16 events pending sched_gsmtime answers -EBUSY = -16 and the state is IDENTICAL; with fewer it answers 0, takes the
   FIRST free slot of the inactive list and inserts the event as c08_gsm_sorted_insert says *)
Theorem c08_gsm_ebusy : forall (gs : gstate) (si : list item) (fn p3 : Z),
  Permutation (map e_slot (g_act gs) ++ g_inact gs) (seq 0 16) ->
  (length (g_act gs) = 16%nat -> sched_gsmtime gs si fn p3 = (gs, -16)) /\
  ((length (g_act gs) < 16)%nat -> exists s rest, g_inact gs = s :: rest /\
     sched_gsmtime gs si fn p3 = ({| g_act := ins_sorted {| e_slot := s; e_si := si; e_fn := fn; e_p3 := p3 |} (g_act gs); g_inact := rest |}, 0)).
Proof. exact (fun gs si fn p3 H => conj (ebusy_untouched gs si fn p3 H) (accepted_when_free gs si fn p3 H)). Qed.
Print Assumptions c08_gsm_ebusy.

(* reset: no event is pending afterwards, all 16 slots are free, the invariants hold *)
Theorem c08_gsm_reset : forall (gs : gstate), gs_ok gs ->
  g_act (sched_gsmtime_reset gs) = [] /\ gs_ok (sched_gsmtime_reset gs) /\ Permutation (g_inact (sched_gsmtime_reset gs)) (seq 0 16).
Proof. exact reset_spec. Qed.
Print Assumptions c08_gsm_reset.

(* the look-ahead target on the hyperframe clock: two frames ahead modulo 2715648, always a frame number of the hyperframe - so an event
   requested with a frame number >= 2715648 is never handed over (the callers reduce theirs) *)
Theorem c08_gsm_target :
  (forall fn, 0 <= fn < 2715648 -> gexec_target fn = (fn + 2) mod 2715648) /\
  (forall fn, 0 <= gexec_target fn < 2715648) /\
  (forall fn l e, In e (snd (gwalk (gexec_target fn) l)) -> 0 <= e_fn e < 2715648).
Proof. exact (conj target_clock (conj target_range out_of_range_never)). Qed.
Print Assumptions c08_gsm_target.

(* exactly once, in frame (F - 2) mod 2715648, across the hyperframe wrap.  Any state with a free slot (s = the first); the clock shows
   frame t (the next sched_gsmtime_execute gets t), an event is requested for ANY frame F of the hyperframe, 0 and 1 included; then ANY
   operations [mid] (further requests below, above, equal to F, before or behind the wrap; TDMA operations) without sched_gsmtime_reset whose
   executes are the running clock: exactly j = (F - 2 - t) mod 2715648 of them, with the frame numbers t, t+1, ... modulo 2715648.
   Admissible window: NONE is excluded - for a request d = (F - t) mod 2715648 frames ahead with 2 <= d <= 2715647 this is j = d - 2
   executes, the hand-over happens in frame F - 2 and the items run from frame F - 1 on; a STALE request (d = 0 or 1: frame F is the
   current one or the next, its hand-over frame has passed) has j = 2715646 + d: it stays pending, holds its slot, and is handed over when
   the clock comes round, one hyperframe late - that is what the code does.
   Then: the request is accepted; none of the j executes hands slot s over; the event is still pending; the next execute, of frame
   (F - 2) mod 2715648 = (t + j) mod 2715648, hands it over - slot s exactly once among the events handed over, all of which are events for
   frame F -; afterwards it is no longer pending and slot s is free again (no later execute can hand it over).
   The early `break` cannot lose it: the list is sorted by the absolute fn (c08_gsm_invariants), every entry in front of a due event has
   fn <= target, whatever side of the wrap the other pending events are on (c08_gsm_execute_sorted holds for every target). *)
Theorem c08_gsm_exactly_once_on_time : forall (gs : gstate) (s : nat) (rest : list nat) (si : list item) (t F p3 : Z) (mid : list gop) (j : nat),
  gs_ok gs -> g_inact gs = s :: rest ->
  0 <= t < 2715648 -> 0 <= F < 2715648 -> Z.of_nat j = (F - 2 - t) mod 2715648 ->
  exec_fns mid = clock t j -> ~ In GReset mid ->
  let e := {| e_slot := s; e_si := si; e_fn := F; e_p3 := p3 |} in
  let gs2 := fst (gs_run gs (GReq si F p3 :: mid)) in
  let fx := (F - 2) mod 2715648 in
  let W := snd (gwalk (gexec_target fx) (g_act gs2)) in
  fx = (t + Z.of_nat j) mod 2715648 /\
  sched_gsmtime gs si F p3 = (fst (gs_step gs (GReq si F p3)), 0) /\
  (forall fn fired, In (fn, fired) (snd (gs_run gs (GReq si F p3 :: mid))) -> ~ In s (map e_slot fired)) /\
  gs_ok gs2 /\ In e (g_act gs2) /\
  In e W /\ count_occ Nat.eq_dec (map e_slot W) s = 1%nat /\ Forall (fun x => e_fn x = F) W /\
  ~ In e (g_act (fst (gs_step gs2 (GExec fx)))) /\ In s (g_inact (fst (gs_step gs2 (GExec fx)))).
Proof. exact on_time. Qed.
Print Assumptions c08_gsm_exactly_once_on_time.

(* the same for executes with ANY frame numbers (not only the running clock): as long as none of them targets F the event stays pending
   and is not handed over; the first execute whose target is F hands it over exactly once *)
Theorem c08_gsm_fires_when_due : forall (gs : gstate) (s : nat) (rest : list nat) (si : list item) (F p3 : Z) (mid : list gop) (fnx : Z),
  gs_ok gs -> g_inact gs = s :: rest ->
  Forall (fun fn => gexec_target fn <> F) (exec_fns mid) -> ~ In GReset mid -> gexec_target fnx = F ->
  let e := {| e_slot := s; e_si := si; e_fn := F; e_p3 := p3 |} in
  let gs2 := fst (gs_run gs (GReq si F p3 :: mid)) in
  let W := snd (gwalk (gexec_target fnx) (g_act gs2)) in
  sched_gsmtime gs si F p3 = (fst (gs_step gs (GReq si F p3)), 0) /\
  (forall fn fired, In (fn, fired) (snd (gs_run gs (GReq si F p3 :: mid))) -> ~ In s (map e_slot fired)) /\
  gs_ok gs2 /\ In e (g_act gs2) /\
  In e W /\ count_occ Nat.eq_dec (map e_slot W) s = 1%nat /\ Forall (fun x => e_fn x = F) W /\
  ~ In e (g_act (fst (gs_step gs2 (GExec fnx)))) /\ In s (g_inact (fst (gs_step gs2 (GExec fnx)))).
Proof. exact fires_when_due. Qed.
Print Assumptions c08_gsm_fires_when_due.

(* what the hand-over is for the TDMA scheduler: e the only pending event for its frame, sched_gsmtime_execute(fn) with fn + 2 = e's frame
   is exactly tdma_schedule_set(1, si, p3) (c08_set_offsets, c08_set_never_overwrites apply); its result is dropped by the code *)
Theorem c08_gsm_handover : forall (ts : sched) (gs : gstate) (e : gev) (fn : Z),
  gs_ok gs -> In e (g_act gs) -> gexec_target fn = e_fn e -> (forall x, In x (g_act gs) -> e_fn x = e_fn e -> x = e) ->
  sched_gsmtime_execute ts gs fn =
    match tdma_schedule_set ts 1 (e_si e) (e_p3 e) with
    | Ok (ts', rc) => Ok (ts', fst (gs_step gs (GExec fn)), 1, [(e, rc)])
    | OOB => OOB
    | NullCall => NullCall
    end.
Proof. exact handover_single. Qed.
Print Assumptions c08_gsm_handover.

(* composition: the items of the event run in frame F - 1 + k.  e pending for frame F, the only one; its set is END_SET-terminated with
   fewer than 24 frames, holds no callback 16, and fits (tdma_schedule_set answers the number of frames).  Then the item at position idx of
   frame k of the set sits in slot (items already due then) + idx of the TDMA frame 1 + k ahead, and after ANY further combined history
   [tail] whose TDMA view has exactly 1 + k advances (the advance of frame F - 2 and k more frame interrupts), no reset and no execute after
   the last advance, the next tdma_sched_execute runs that slot exactly once (sorted entry items, then appended ones) and empties the frame *)
Theorem c08_gsm_event_items_on_time : forall (rcf : item -> Z) (ts : sched) (gs : gstate) (e : gev) (fn : Z) (plan : list (Z * item))
    (ts' : sched) (k : Z) (idx : nat) (it : item) (tail : list gop),
  wf ts -> cbs_ok ts -> all_st (fun x => i_cb x <> 16) ts -> (forall x, 0 <= rcf x) ->
  gs_ok gs -> In e (g_act gs) -> gexec_target fn = e_fn e -> (forall x, In x (g_act gs) -> e_fn x = e_fn e -> x = e) ->
  set_plan 0 (e_si e) (e_p3 e) = Some plan -> 1 + set_nframes (e_si e) < 25 -> Forall (fun x => i_cb x <> 16) (e_si e) ->
  tdma_schedule_set ts 1 (e_si e) (e_p3 e) = Ok (ts', set_nframes (e_si e)) ->
  0 <= k -> 1 + k < 25 -> nth_error (plan_frame plan k) idx = Some it ->
  let gs' := fst (gs_step gs (GExec fn)) in
  let mid := expand gs' tail in
  Forall op_ok mid -> Forall (all_op (fun x => i_cb x <> 16)) mid -> advances mid = 1 + k -> ~ In OReset mid ->
  (forall a b, mid = a ++ OExecute :: b -> advances a < 1 + k) ->
  sched_gsmtime_execute ts gs fn = Ok (ts', gs', 1, [(e, set_nframes (e_si e))]) /\
  exists os s3 s4 lg extra,
    run_sp rcf ts' mid = (os, FOk s3) /\
    nth_error (bucket_due s3 0) (length (bucket_due ts (1 + k)) + idx)%nat = Some it /\
    tdma_sched_execute_sp rcf s3 = SXOk s4 lg (Z.of_nat (length (bucket_due s3 0) + length extra)) /\
    calls lg = exec_order (bucket_due s3 0) ++ extra /\ Forall (fun x => 2 <= i_cb x <= 9) extra /\
    count_occ Nat.eq_dec (slot_order (bucket_due s3 0)) (length (bucket_due ts (1 + k)) + idx)%nat = 1%nat /\
    bucket_due s4 0 = [].
Proof. exact event_items_on_time. Qed.
Print Assumptions c08_gsm_event_items_on_time.
