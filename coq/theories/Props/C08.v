(* C08 - firmware TDMA scheduler. Statements only. (bootstrap version) *)
From Coq Require Import ZArith List.
From OBB Require Import Gen.FwSchedConst Model.TdmaSched.
Open Scope Z_scope.

Theorem c08_constants : c_TDMASCHED_NUM_FRAMES = 25 /\ c_TDMASCHED_NUM_CB = 8.
Proof. split; reflexivity. Qed.
Print Assumptions c08_constants.
