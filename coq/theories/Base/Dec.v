(* decimal rendering of integers (Python str(int) / "%d") and its characterisation *)
From Coq Require Import ZArith List Bool Lia ZifyBool.
Ltac Zify.zify_post_hook ::= Z.to_euclidean_division_equations.
Import ListNotations.
Open Scope Z_scope.

Fixpoint dec_fuel (fuel : nat) (n : Z) (acc : list Z) : list Z :=
  match fuel with
  | O => acc
  | S f => let acc' := (48 + n mod 10) :: acc in if n <? 10 then acc' else dec_fuel f (n / 10) acc'
  end.
Definition dec_nat (n : Z) : list Z := dec_fuel (S (Z.to_nat (Z.log2 n))) n [].
Definition dec (n : Z) : list Z := if n <? 0 then 45 :: dec_nat (- n) else dec_nat n.

Definition is_dig (d : Z) : Prop := 48 <= d <= 57.
Definition dec_value (ds : list Z) : Z := fold_left (fun a d => 10 * a + (d - 48)) ds 0.

Lemma dec_value_app ds d : dec_value (ds ++ [d]) = 10 * dec_value ds + (d - 48).
Proof. unfold dec_value. rewrite fold_left_app. reflexivity. Qed.

Lemma dec_fuel_spec : forall fuel n acc, (0 < fuel)%nat -> 0 <= n < 2 ^ Z.of_nat fuel ->
  exists ds, dec_fuel fuel n acc = ds ++ acc /\ Forall is_dig ds /\ ds <> [] /\ dec_value ds = n
             /\ (0 < n -> hd 0 ds <> 48) /\ (n = 0 -> ds = [48]).
Proof.
  induction fuel as [|f IH]; intros n acc Hf Hn.
  - lia.
  - cbn [dec_fuel]. destruct (n <? 10) eqn:E.
    + exists [48 + n mod 10]. repeat split.
      * constructor; [unfold is_dig; lia | constructor].
      * discriminate.
      * unfold dec_value. cbn [fold_left]. lia.
      * cbn [hd]. lia.
      * intros ->. reflexivity.
    + rewrite Nat2Z.inj_succ, Z.pow_succ_r in Hn by lia.
      assert (Hf' : (0 < f)%nat).
      { destruct f; [|lia]. cbn in Hn. lia. }
      destruct (IH (n / 10) ((48 + n mod 10) :: acc)) as [ds [E1 [E2 [E3 [E4 [E5 E6]]]]]]; [exact Hf'|lia|].
      exists (ds ++ [48 + n mod 10]). repeat split.
      * rewrite E1, <- app_assoc. reflexivity.
      * apply Forall_app. split; [exact E2|]. constructor; [unfold is_dig; lia | constructor].
      * destruct ds; discriminate.
      * rewrite dec_value_app, E4. lia.
      * intros _. destruct ds as [|d ds']; [congruence|]. cbn [app hd]. cbn [hd] in E5. apply E5. lia.
      * intros ->. discriminate.
Qed.

Lemma dec_nat_spec n : 0 <= n ->
  Forall is_dig (dec_nat n) /\ dec_nat n <> [] /\ dec_value (dec_nat n) = n /\ (0 < n -> hd 0 (dec_nat n) <> 48) /\ (n = 0 -> dec_nat n = [48]).
Proof.
  intros Hn. unfold dec_nat.
  assert (B : 0 <= n < 2 ^ Z.of_nat (S (Z.to_nat (Z.log2 n)))).
  { rewrite Nat2Z.inj_succ, Z2Nat.id by apply Z.log2_nonneg.
    destruct (Z.eq_dec n 0) as [->|Hz]; [cbn; lia|].
    pose proof (Z.log2_spec n ltac:(lia)) as L. lia. }
  destruct (dec_fuel_spec _ n [] (Nat.lt_0_succ _) B) as [ds [E1 [E2 [E3 [E4 [E5 E6]]]]]].
  rewrite app_nil_r in E1. rewrite E1. auto.
Qed.
