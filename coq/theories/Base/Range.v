(* integer ranges and the lifting of vm_compute-checked finite sweeps *)
From Coq Require Import ZArith List Bool Lia.
Import ListNotations.
Open Scope Z_scope.

Definition range (a b : Z) : list Z := map (fun i => a + Z.of_nat i) (seq 0 (Z.to_nat (b - a))).

Lemma in_range a b x : a <= x < b -> In x (range a b).
Proof. intros H. unfold range. apply in_map_iff. exists (Z.to_nat (x - a)). split; [lia|]. apply in_seq. lia. Qed.

Lemma range_in a b x : In x (range a b) -> a <= x < b.
Proof. unfold range. intros H. apply in_map_iff in H as [i [E Hi]]. apply in_seq in Hi. lia. Qed.

Lemma forallb_range f a b : forallb f (range a b) = true -> forall x, a <= x < b -> f x = true.
Proof. intros H x Hx. rewrite forallb_forall in H. apply H, in_range, Hx. Qed.

Lemma forallb_In {A} (f : A -> bool) l : forallb f l = true -> forall x, In x l -> f x = true.
Proof. intros H x Hx. rewrite forallb_forall in H. auto. Qed.

Lemma In_firstn {A} (x : A) : forall n l, In x (firstn n l) -> In x l.
Proof. induction n as [|n IH]; intros [|y l] H; cbn [firstn] in H; try contradiction. destruct H as [<-|H]; [left; reflexivity|right; apply IH, H]. Qed.
Lemma In_skipn' {A} (x : A) : forall n l, In x (skipn n l) -> In x l.
Proof. induction n as [|n IH]; intros [|y l] H; cbn [skipn] in H; try assumption; try contradiction. right. apply IH, H. Qed.
