(* Bit-field packing lemmas (C16, C17): what `(val & mask) << offset`, `|` and `(blob >> offset) & mask`
   do on unbounded integers.  Standard library only. *)
From Coq Require Import ZArith List Bool Lia.
Open Scope Z_scope.

(* packing one field above an accumulator of `w` low bits *)
Lemma lor_shift_add v w lo : 0 <= w -> 0 <= lo < 2^w -> 0 <= v ->
  Z.lor (Z.shiftl v w) lo = v * 2^w + lo.
Proof.
  intros Hw Hlo Hv. rewrite Z.shiftl_mul_pow2 by lia.
  assert (Hland : Z.land (v * 2^w) lo = 0).
  { apply Z.bits_inj'. intros n Hn. rewrite Z.land_spec, Z.bits_0.
    destruct (Z.ltb_spec n w).
    + rewrite Z.mul_pow2_bits_low by lia. reflexivity.
    + destruct (Z.eq_dec lo 0) as [->|Hne]; [rewrite Z.bits_0; apply andb_false_r|].
      rewrite (Z.bits_above_log2 lo n); [apply andb_false_r|lia|].
      apply Z.lt_le_trans with w; [apply Z.log2_lt_pow2; lia|lia]. }
  rewrite (Z.add_nocarry_lxor _ _ Hland). symmetry. apply Z.lxor_lor, Hland.
Qed.

Lemma extract v w lo bl : 0 <= w -> 0 <= lo < 2^w -> 0 <= v < 2^bl -> 0 <= bl ->
  Z.land (Z.shiftr (v * 2^w + lo) w) (2^bl - 1) = v.
Proof.
  intros. rewrite Z.shiftr_div_pow2 by lia. rewrite Z.div_add_l by lia. rewrite Z.div_small by lia.
  rewrite Z.add_0_r. replace (2^bl - 1) with (Z.ones bl) by (rewrite Z.ones_equiv; lia). rewrite Z.land_ones by lia. apply Z.mod_small; lia.
Qed.

Lemma mask_ones bl : 2^bl - 1 = Z.ones bl.
Proof. rewrite Z.ones_equiv. lia. Qed.

(* `x & (2^bl - 1)` is reduction modulo 2^bl, for any integer x (Python's two's-complement view of negatives included) *)
Lemma mask_trunc x bl : 0 <= bl -> Z.land x (2^bl - 1) = x mod 2^bl.
Proof. intros. rewrite mask_ones. apply Z.land_ones; lia. Qed.

(* the masked value does not change when the value is first reduced modulo 2^bl *)
Lemma mask_mod x bl : 0 <= bl -> Z.land (x mod 2^bl) (2^bl - 1) = Z.land x (2^bl - 1).
Proof. intros. rewrite !mask_trunc by lia. apply Z.mod_mod. apply Z.pow_nonzero; lia. Qed.

(* bit p of one placed field: inside its window [o, o+bl) it is the bit of the value, outside it is 0 *)
Lemma field_testbit v bl o p : 0 <= bl -> 0 <= o -> 0 <= p ->
  Z.testbit (Z.shiftl (Z.land v (2^bl - 1)) o) p = (o <=? p) && (p <? o + bl) && Z.testbit v (p - o).
Proof.
  intros Hbl Ho Hp. rewrite Z.shiftl_spec by lia. rewrite mask_ones.
  destruct (Z.leb_spec o p) as [Hop|Hop].
  - rewrite Z.land_spec. rewrite Z.testbit_ones by lia.
    destruct (Z.ltb_spec p (o + bl)); destruct (Z.ltb_spec (p - o) bl); try lia;
    destruct (Z.leb_spec 0 (p - o)); try lia; cbn [andb]; rewrite ?andb_true_r, ?andb_false_r; reflexivity.
  - rewrite Z.testbit_neg_r by lia. reflexivity.
Qed.

Lemma field_nonneg v bl o : 0 <= bl -> 0 <= o -> 0 <= Z.shiftl (Z.land v (2^bl - 1)) o.
Proof. intros. apply Z.shiftl_nonneg. rewrite mask_trunc by lia. apply Z.mod_pos_bound. apply Z.pow_pos_nonneg; lia. Qed.

(* reading a window back: whatever else is OR-ed into the blob, if it is clear inside the window
   [o, o+bl), then `(blob >> o) & mask` is the field value reduced modulo 2^bl *)
Lemma extract_window v bl o other : 0 <= bl -> 0 <= o ->
  (forall p, o <= p < o + bl -> Z.testbit other p = false) ->
  Z.land (Z.shiftr (Z.lor other (Z.shiftl (Z.land v (2^bl - 1)) o)) o) (2^bl - 1) = v mod 2^bl.
Proof.
  intros Hbl Ho Hc. rewrite <- (mask_trunc v bl Hbl). apply Z.bits_inj'. intros q Hq.
  rewrite !Z.land_spec, Z.shiftr_spec by lia. rewrite Z.lor_spec. rewrite field_testbit by lia.
  rewrite mask_ones. rewrite Z.testbit_ones by lia.
  destruct (Z.ltb_spec q bl) as [Hlt|Hge].
  - rewrite Hc by lia. replace (q + o - o) with q by lia.
    destruct (Z.leb_spec o (q + o)); [|lia]. destruct (Z.ltb_spec (q + o) (o + bl)); [|lia].
    destruct (Z.leb_spec 0 q); [|lia]. cbn [andb orb]. rewrite andb_true_r. reflexivity.
  - rewrite !andb_false_r. reflexivity.
Qed.

(* a window of a blob that is clear there reads 0 ... *)
Lemma window_of_lor a b o bl : 0 <= bl -> 0 <= o ->
  (forall p, o <= p < o + bl -> Z.testbit b p = false) ->
  Z.land (Z.shiftr (Z.lor a b) o) (2^bl - 1) = Z.land (Z.shiftr a o) (2^bl - 1).
Proof.
  intros Hbl Ho Hc. apply Z.bits_inj'. intros q Hq.
  rewrite !Z.land_spec, !Z.shiftr_spec by lia. rewrite Z.lor_spec. rewrite mask_ones. rewrite Z.testbit_ones by lia.
  destruct (Z.ltb_spec q bl) as [Hlt|Hge].
  - rewrite Hc by lia. rewrite orb_false_r. reflexivity.
  - rewrite !andb_false_r. reflexivity.
Qed.

(* ... and re-placing what was read from a window reproduces exactly the bits of the window *)
Lemma replace_window_testbit blob bl o p : 0 <= bl -> 0 <= o -> 0 <= p ->
  Z.testbit (Z.shiftl (Z.land (Z.land (Z.shiftr blob o) (2^bl - 1)) (2^bl - 1)) o) p
  = (o <=? p) && (p <? o + bl) && Z.testbit blob p.
Proof.
  intros Hbl Ho Hp. rewrite field_testbit by lia.
  destruct (Z.leb_spec o p) as [Hop|Hop]; [|reflexivity].
  destruct (Z.ltb_spec p (o + bl)) as [Hlt|Hge]; [|reflexivity]. cbn [andb].
  rewrite Z.land_spec, Z.shiftr_spec by lia. rewrite mask_ones, Z.testbit_ones by lia.
  replace (p - o + o) with p by lia.
  destruct (Z.leb_spec 0 (p - o)); [|lia]. destruct (Z.ltb_spec (p - o) bl); [|lia]. cbn [andb]. apply andb_true_r.
Qed.

(* a non-negative integer whose bits at and above k are all 0 is below 2^k *)
Lemma highclear_lt x k : 0 <= k -> 0 <= x -> (forall p, k <= p -> Z.testbit x p = false) -> x < 2^k.
Proof.
  intros Hk Hx Hc. destruct (Z.eq_dec x 0) as [->|Hne]; [apply Z.pow_pos_nonneg; lia|].
  apply Z.log2_lt_pow2; [lia|]. destruct (Z.lt_ge_cases (Z.log2 x) k) as [Hl|Hl]; [exact Hl|].
  pose proof (Z.bit_log2 x ltac:(lia)) as Hb. rewrite Hc in Hb by lia. discriminate.
Qed.

Lemma lt_highclear x k p : 0 <= x < 2^k -> k <= p -> Z.testbit x p = false.
Proof.
  intros Hx Hp. destruct (Z.eq_dec x 0) as [->|Hne]; [apply Z.bits_0|].
  destruct (Z.lt_ge_cases k 0) as [Hk|Hk].
  - rewrite Z.pow_neg_r in Hx by lia. lia.
  - apply Z.bits_above_log2; [lia|]. apply Z.lt_le_trans with k; [apply Z.log2_lt_pow2; lia|lia].
Qed.

Print Assumptions extract_window.
