From Coq Require Import ExtrOcamlBasic.
From OBB Require Import Model.TrxIf.
Extraction "model.ml" w_trxif_rx w_trxif_rx_branch w_trxif_tx w_trxif_rsp w_trxif_rsp_branch w_trxif_cmd.
