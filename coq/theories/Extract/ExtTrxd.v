From Coq Require Import ExtrOcamlBasic.
From OBB Require Import Model.Trxd.
Extraction "model.ml" w_trxd_tx_gen w_trxd_rx_gen w_trxd_tx_validate w_trxd_rx_validate w_trxd_tx_parse w_trxd_rx_parse.
