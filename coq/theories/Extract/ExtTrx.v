From Coq Require Import ExtrOcamlBasic.
From OBB Require Import Model.Trx Model.TrxWire.
Extraction "model.ml" w_trx_session w_trx_pyint w_trx_pystr w_trx_tspick.
