From Coq Require Import ExtrOcamlBasic.
From OBB Require Import Model.TdmaSched Model.SchedGsmtime.
Extraction "model.ml" w_c08_run w_c08_runsp w_c08_gsm.
