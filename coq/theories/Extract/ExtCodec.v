From Coq Require Import ExtrOcamlBasic.
From OBB Require Import Model.Codec.
Extraction "model.ml" w_c16_enc w_c16_dec w_c16_wf.
