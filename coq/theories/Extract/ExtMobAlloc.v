From Coq Require Import ExtrOcamlBasic.
From OBB Require Import Model.MobAlloc.
Extraction "model.ml" w_c20_decode w_c20_spec.
