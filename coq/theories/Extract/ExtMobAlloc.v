From Coq Require Import ExtrOcamlBasic.
From OBB Require Import Model.MobAlloc Model.MobAllocSi4 Model.MobAllocHist Model.MobAllocAss Model.MobAllocCd Model.MobAllocBand.
Extraction "model.ml" w_c20_decode w_c20_spec w_c20_si4 w_c20_render w_c20_hist w_c20_assign w_c20_rendercd w_c20_renderband.
