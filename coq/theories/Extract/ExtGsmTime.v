From Coq Require Import ExtrOcamlBasic.
From OBB Require Import Model.GsmTime Model.GsmTimeRun.
Extraction "model.ml" w_c19_fn2gt w_c19_gt2fn w_c19_inc w_c19_py w_c19_run w_c19_site w_c19_sb.
