From Coq Require Import ExtrOcamlBasic.
From OBB Require Import Model.GsmTime.
Extraction "model.ml" w_c19_fn2gt w_c19_gt2fn w_c19_inc w_c19_py.
