From Coq Require Import ExtrOcamlBasic.
From OBB Require Import Model.Race.
Extraction "model.ml" w_c03_race.
