From Coq Require Import ExtrOcamlBasic.
From OBB Require Import Model.Mframe.
Extraction "model.ml" w_c11_fw_sched w_c11_trx_frame w_c11_trx_layout w_c11_find_bad w_c11_row w_c11_cfg_ts w_c11_rx w_c11_tx w_c11_probe w_c11_fw_hist w_c11_resolve.
