From Coq Require Import ExtrOcamlBasic.
From OBB Require Import Model.Dump Model.DumpHist.
Extraction "model.ml" w_dump_dump_msg w_dump_append w_dump_seek w_dump_parse_msg w_dump_parse_all w_dump_trunc_sweep w_dump_hist.
