From Coq Require Import ExtrOcamlBasic.
From OBB Require Import Model.Hopping Model.FreqRedef.
Extraction "model.ml" w_c07_c w_c07_py w_c07_spec w_c07_freq.
