From Coq Require Import ExtrOcamlBasic.
From OBB Require Import Model.Sercomm Model.SercommDrv.
Extraction "model.ml" w_c06_script w_c06_drv.
