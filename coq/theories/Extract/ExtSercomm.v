From Coq Require Import ExtrOcamlBasic.
From OBB Require Import Model.Sercomm.
Extraction "model.ml" w_c06_script.
