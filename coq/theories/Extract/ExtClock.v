From Coq Require Import ExtrOcamlBasic.
From OBB Require Import Model.Clock.
Extraction "model.ml" w_c09_session w_c09_send w_c09_payload.
