/* C20 harness: gsm48_decode_mobile_alloc extracted textually from layer23 sysinfo.c (c20_fn.inc),
 * struct gsm_sysinfo_freq from the vendored libosmocore gsm48_ie.h, the FREQ_TYPE_* #defines and the
 * freq[] / hopping[] array bounds extracted textually from layer23 sysinfo.h, the bound of the function's local
 * array f extracted textually from its declaration (C20_F_BOUND; 0 if it is not a constant, i.e. a VLA) (c20_defs.inc).
 * Built with ASan + UBSan (vla-bound ON).  Every case runs in a forked child, so a sanitizer abort is
 * attributed to exactly one input line; the parent classifies the report.
 *
 * input line : si4 len hl0 hfill bg nma ma_0 .. ma_{nma-1} (idx mask)*      (idx strictly ascending)
 * output line: rc hopp_len hopping[0..N-1] (idx newmask)*  |  -997 (UBSan vla-bound)  |  -998 (ASan/UBSan memory error)
 *              | -996 (any other abnormal end)  |  -999 (malformed line)
 */
#include <stdio.h>
#include <stdlib.h>
#include <string.h>
#include <stdint.h>
#include <errno.h>
#include <unistd.h>
#include <sys/wait.h>
#include <osmocom/gsm/gsm48_ie.h>

#include "c20_defs.inc"

/* LOGP evaluates its arguments (as the real macro does when the level is enabled), e.g. the read of f[i] in loop 3 */
static void __attribute__((noinline)) c20_log(const char *fmt, ...) { (void)fmt; }
#define LOGP(ss, level, fmt, args...) c20_log(fmt, ## args)

#include "c20_fn.inc"

#define MAXTOK 4096
static long tok[MAXTOK];

static int parse(char *line)
{
	int n = 0; char *p = line, *e;
	for (;;) {
		while (*p == ' ' || *p == '\t' || *p == '\n' || *p == '\r') p++;
		if (!*p) break;
		if (n >= MAXTOK) return -1;
		tok[n++] = strtol(p, &e, 10);
		if (e == p) return -1;
		p = e;
	}
	return n;
}

/* runs one case, prints the observation to out; returns 0, or -1 for a malformed line */
static int run_case(int n, FILE *out)
{
	long si4, len, hl0, hfill, bg, nma; int i, k, np;
	if (n < 6) return -1;
	si4 = tok[0]; len = tok[1]; hl0 = tok[2]; hfill = tok[3]; bg = tok[4]; nma = tok[5];
	if (len < 0 || len > 255 || hl0 < 0 || hl0 > 255 || bg < 0 || bg > 255 || nma < 0 || nma > n - 6 || hfill < 0 || hfill > 65535) return -1;
	for (i = 0; i < nma; i++) if (tok[6 + i] < 0 || tok[6 + i] > 255) return -1;
	np = n - 6 - nma;
	if (np % 2) return -1;
	{ long prev = -1; for (i = 0; i < np; i += 2) { long idx = tok[6 + nma + i], m = tok[6 + nma + i + 1];
		if (idx <= prev || idx >= C20_FREQ_SIZE || m < 0 || m > 255) return -1; prev = idx; } }

	/* exact-size heap objects: any access outside them is an ASan report */
	struct gsm_sysinfo_freq *freq = malloc(sizeof(*freq) * C20_FREQ_SIZE);
	struct gsm_sysinfo_freq *freq0 = malloc(sizeof(*freq) * C20_FREQ_SIZE);
	uint16_t *hopping = malloc(sizeof(uint16_t) * C20_HOPPING_SIZE);
	/* malloc(0) is a readable 1-octet block under ASan: an empty IE buffer is the end of a 1-octet block instead */
	uint8_t *ma_blk = malloc(nma ? nma : 1);
	uint8_t *ma = nma ? ma_blk : ma_blk + 1;
	uint8_t *hopp_len = malloc(1);
	for (i = 0; i < C20_FREQ_SIZE; i++) freq[i].mask = bg;
	for (i = 0; i < np; i += 2) freq[tok[6 + nma + i]].mask = tok[6 + nma + i + 1];
	memcpy(freq0, freq, sizeof(*freq) * C20_FREQ_SIZE);
	for (i = 0; i < nma; i++) ma[i] = tok[6 + i];
	for (k = 0; k < C20_HOPPING_SIZE; k++) hopping[k] = (hfill + k) % 65536;
	*hopp_len = hl0;

	int rc = gsm48_decode_mobile_alloc(freq, ma, (uint8_t)len, hopping, hopp_len, (int)si4);

	fprintf(out, "%d %d", rc, *hopp_len);
	for (k = 0; k < C20_HOPPING_SIZE; k++) fprintf(out, " %d", hopping[k]);
	for (i = 0; i < C20_FREQ_SIZE; i++) if (freq[i].mask != freq0[i].mask) fprintf(out, " %d %d", i, freq[i].mask);
	fprintf(out, "\n");
	return 0;
}

int main(int argc, char **argv)
{
	static char line[1 << 16];
	if (argc > 1 && !strcmp(argv[1], "const")) {
		printf("%d %d %d %d %d %d %d\n", (int)FREQ_TYPE_SERV, (int)FREQ_TYPE_HOPP, (int)C20_FREQ_SIZE, (int)C20_HOPPING_SIZE,
		       (int)EINVAL, (int)sizeof(struct gsm_sysinfo_freq), (int)(C20_F_BOUND));
		return 0;
	}
	long caseno = 0;
	while (fgets(line, sizeof(line), stdin)) {
		int n = parse(line);
		caseno++;
		int po[2], pe[2];
		if (pipe(po) || pipe(pe)) { perror("pipe"); return 2; }
		fflush(stdout); fflush(stderr);
		pid_t pid = fork();
		if (pid < 0) { perror("fork"); return 2; }
		if (pid == 0) {
			close(po[0]); close(pe[0]);
			dup2(pe[1], 2);
			FILE *out = fdopen(po[1], "w");
			alarm(20);
			if (n < 0 || run_case(n, out) < 0) fprintf(out, "-999\n");
			fflush(out);
			_exit(0);
		}
		close(po[1]); close(pe[1]);
		static char obuf[1 << 16], ebuf[1 << 14];
		size_t ol = 0, el = 0; ssize_t r;
		while ((r = read(po[0], obuf + ol, sizeof(obuf) - 1 - ol)) > 0) ol += r;
		while ((r = read(pe[0], ebuf + el, sizeof(ebuf) - 1 - el)) > 0) el += r;
		/* drain whatever is left of a long report */
		{ char junk[4096]; while (read(pe[0], junk, sizeof(junk)) > 0) ; }
		obuf[ol] = 0; ebuf[el] = 0;
		close(po[0]); close(pe[0]);
		int status = 0; waitpid(pid, &status, 0);
		if (WIFEXITED(status) && WEXITSTATUS(status) == 0 && ol > 0 && obuf[ol - 1] == '\n') {
			fputs(obuf, stdout);
		} else {
			int code = -996;
			if (strstr(ebuf, "variable length array bound")) code = -997;
			else if (strstr(ebuf, "AddressSanitizer") || strstr(ebuf, "runtime error: index") || strstr(ebuf, "out of bounds")) code = -998;
			printf("%d\n", code);
			/* first lines of the report, for the evidence */
			char *nl = ebuf; int lines = 0;
			while (*nl && lines < 3) { if (*nl == '\n') lines++; nl++; }
			*nl = 0;
			fprintf(stderr, "case %ld: status 0x%x\n%s\n", caseno, status, ebuf);
		}
	}
	return 0;
}
