/* C19 harness, second part: the firmware's RUNNING GSM time.
 * The REAL src/target/firmware/layer1/sync.c is compiled whole (#include, so the static l1_sync() is callable)
 * with the hardware/scheduler entry points it calls replaced by empty stand-ins defined below; none of them
 * touches l1s.current_time / l1s.next_time. c19_gen.inc is generated on every run by vp/props/C19.py from the
 * current source: the verbatim text of prim_fbsb.c l1s_decode_sb(), the verbatim re-initialisation statements of
 * l1s_sbdet_resp(), the verbatim #define SB2_LATENCY and one function per call-site expression (expression text pasted). */
#include <stdio.h>
#include <stdlib.h>
#include <string.h>
#include <stdint.h>
#include <inttypes.h>
#include <errno.h>
#include <limits.h>

#define puts c19_quiet_puts
#define printf c19_quiet_printf
static int c19_quiet_puts(const char *s) { (void)s; return 0; }
static int c19_quiet_printf(const char *f, ...) { (void)f; return 0; }
#include "sync.c"
#include "c19_gen.inc"
#undef puts
#undef printf

/* ---- stand-ins for what l1_sync() / synchronize_tdma() call outside sync.c (signatures from the real headers) */
struct dsp_api dsp_api;
static T_NDB_MCU_DSP c19_ndb;
static uint32_t c19_announced; static unsigned long c19_announce_cnt;
uint16_t hwtimer_read(int num) { static unsigned k; (void)num; k++; return (uint16_t)((7500u - 1875u * (k % 4)) % 7500u); }
void dsp_api_memset(uint16_t *ptr, int octets) { (void)ptr; (void)octets; }
void afc_load_dsp(void) { }
uint16_t tdma_sched_flag_scan(void) { return 0; }
int tdma_sched_execute(void) { return 0; }
void tdma_sched_advance(void) { }
void l1s_win_init(void) { }
void dsp_end_scenario(void) { }
void tpu_end_scenario(void) { }
void mframe_schedule(void) { }
int sched_gsmtime_execute(uint32_t fn) { c19_announced = fn; c19_announce_cnt++; return 0; }
void tpu_enqueue(uint16_t instr) { (void)instr; }

#define HF 2715648u
#define NSITES ((unsigned)(sizeof(c19_sites) / sizeof(c19_sites[0])) - 1u)

static int is_decomp(const struct gsm_time *t)
{
	uint32_t fn = t->fn;
	return fn < HF && t->t1 == fn / 1326 && t->t2 == fn % 26 && t->t3 == fn % 51 && t->tc == (fn / 51) % 8;
}
static int time_ok(void)
{
	return is_decomp(&l1s.current_time) && is_decomp(&l1s.next_time) && l1s.next_time.fn == (l1s.current_time.fn + 1) % HF;
}
static void pr_time(const struct gsm_time *t) { printf("%u %u %u %u %u ", (unsigned)t->fn, (unsigned)t->t1, (unsigned)t->t2, (unsigned)t->t3, (unsigned)t->tc); }
static void pr_state(unsigned long h) { pr_time(&l1s.current_time); pr_time(&l1s.next_time); printf("%u %lu ", (unsigned)l1s.tpu_offset, h); }

static uint64_t mix(void)
{
	const struct gsm_time *c = &l1s.current_time, *n = &l1s.next_time;
	return (uint64_t)c->fn + 3u * c->t1 + 5u * c->t2 + 7u * c->t3 + 11u * c->tc
	     + 13ull * n->fn + 17u * n->t1 + 19u * n->t2 + 23u * n->t3 + 29u * n->tc;
}

#define MAXTOK 4096
static long long tok[MAXTOK];

/* parse the rest of the line into tok[]; returns count or -1 */
static int parse_ints(char *s)
{
	int n = 0; char *e;
	for (;;) {
		while (*s == ' ' || *s == '\t' || *s == '\n' || *s == '\r') s++;
		if (!*s) return n;
		errno = 0;
		long long v = strtoll(s, &e, 10);
		if (e == s || errno || n >= MAXTOK) return -1;
		if (*e && *e != ' ' && *e != '\t' && *e != '\n' && *e != '\r') return -1;
		tok[n++] = v; s = e;
	}
}

static char obuf[1 << 20];

static void do_run(int n)
{
	int i = 0, opidx = 0, k;
	unsigned long checked = 0, bad = 0; char first[256] = "";
	size_t olen = 0;
	/* validate completely first: a malformed stream gives the single answer -999 */
	while (i < n) {
		long long op = tok[i];
		if (op == 0) { if (i + 1 >= n || tok[i+1] < 0 || tok[i+1] > 100000) goto malformed; i += 2; }
		else if (op == 1) { if (i + 2 >= n || tok[i+1] < INT32_MIN || tok[i+1] > INT32_MAX || tok[i+2] < 0 || tok[i+2] > UINT32_MAX) goto malformed; i += 3; }
		else if (op == 2 || op == 3) { if (i + 1 >= n || tok[i+1] < 0 || tok[i+1] > UINT32_MAX) goto malformed; i += 2; }
		else if (op == 4) {
			static const long long lim[11] = { UINT32_MAX, 65535, 255, 255, 255, UINT32_MAX, 65535, 255, 255, 255, UINT32_MAX };
			if (i + 11 >= n) goto malformed;
			for (k = 0; k < 11; k++) if (tok[i+1+k] < 0 || tok[i+1+k] > lim[k]) goto malformed;
			i += 12;
		} else goto malformed;
	}
	/* boot state: l1s lives in .bss and nothing in sync.c initialises the two times */
	memset(&l1s, 0, sizeof(l1s));
	i = 0;
	while (i < n) {
		long long op = tok[i];
		unsigned long h = 0;
		if (op == 0) {
			long long cnt = tok[i+1], s;
			for (s = 0; s < cnt; s++) {
				int pre_ok = time_ok(); uint32_t before = l1s.current_time.fn; unsigned long c0 = c19_announce_cnt;
				l1_sync();
				h = (unsigned long)(((uint64_t)h * 31u + mix()) % 1073741789ull);
				int good = c19_announce_cnt == c0 + 1 && c19_announced == l1s.current_time.fn;
				if (pre_ok) { checked++; good = good && time_ok() && l1s.current_time.fn == (before + 1) % HF; }
				if (!good) { if (!bad++) snprintf(first, sizeof first, "%d %lld %u %u %u %u %u %u %u %u %u %u %u %u", opidx, s, (unsigned)before, (unsigned)c19_announced,
					(unsigned)l1s.current_time.fn, l1s.current_time.t1, l1s.current_time.t2, l1s.current_time.t3, l1s.current_time.tc,
					(unsigned)l1s.next_time.fn, l1s.next_time.t1, l1s.next_time.t2, l1s.next_time.t3, l1s.next_time.tc); }
			}
			i += 2;
		} else if (op == 1) {
			struct l1_cell_info ci; memset(&ci, 0, sizeof ci);
			ci.fn_offset = (int32_t)tok[i+1]; ci.time_alignment = (uint32_t)tok[i+2];
			synchronize_tdma(&ci);
			h = (unsigned long)((uint32_t)ci.fn_offset != 0 || ci.time_alignment != 0);	/* both must have been cleared */
			i += 3;
		} else if (op == 2) {
			memset(&fbs.mon.time, 0, sizeof fbs.mon.time); fbs.mon.time.fn = (uint32_t)tok[i+1];
			c19_fbsb_reinit();
			i += 2;
		} else if (op == 3) {
			l1s_decode_sb(&fbs.mon.time, (uint32_t)tok[i+1]);
			c19_fbsb_reinit();
			i += 2;
		} else {
			long long *a = &tok[i+1];
			l1s.current_time.fn = a[0]; l1s.current_time.t1 = a[1]; l1s.current_time.t2 = a[2]; l1s.current_time.t3 = a[3]; l1s.current_time.tc = a[4];
			l1s.next_time.fn = a[5]; l1s.next_time.t1 = a[6]; l1s.next_time.t2 = a[7]; l1s.next_time.t3 = a[8]; l1s.next_time.tc = a[9];
			l1s.tpu_offset = a[10];
			i += 12;
		}
		pr_state(h);
		if (op == 3) pr_time(&fbs.mon.time);
		opidx++;
	}
	printf("\n# %lu %lu %s\n", checked, bad, first);
	(void)olen;
	return;
malformed:
	printf("-999\n# 0 0 \n");
}

int main(int argc, char **argv)
{
	static char line[1 << 16];
	unsigned s;
	dsp_api.ndb = &c19_ndb;
	setvbuf(stdout, obuf, _IOFBF, sizeof obuf);
	if (argc > 1 && !strcmp(argv[1], "const")) {
		struct l1_cell_info ci; memset(&ci, 0xff, sizeof ci);
		printf("%u %u %u %u  %u %u %u %u %u  %u %d %u %u\n", (unsigned)GSM_MAX_FN, (unsigned)QBITS_PER_TDMA, (unsigned)SWITCH_TIME, (unsigned)SB2_LATENCY,
		       (unsigned)sizeof(l1s.current_time.fn), (unsigned)sizeof(l1s.current_time.t1), (unsigned)sizeof(l1s.current_time.t2),
		       (unsigned)sizeof(l1s.current_time.t3), (unsigned)sizeof(l1s.current_time.tc),
		       (unsigned)sizeof(ci.fn_offset), ci.fn_offset < 0, (unsigned)sizeof(ci.time_alignment), (unsigned)sizeof(l1s.tpu_offset));
		return 0;
	}
	if (argc > 1 && !strcmp(argv[1], "sites")) {
		for (s = 0; s < NSITES; s++) printf("%s\n", c19_sites[s].name);
		return 0;
	}
	if (argc > 4 && !strcmp(argv[1], "sweep")) {
		/* sweep <site> <k> <aux> [lo hi]: the REAL expression + the REAL gsm_fn2gsmtime for every value lo..hi-1 (default the complete
		 * hyperframe) of the frame-number variable; intended result: the decomposition of (v + k) mod 2715648 */
		unsigned idx = atoi(argv[2]); long long k = atoll(argv[3]); long aux = atol(argv[4]);
		uint32_t lo = argc > 6 ? strtoul(argv[5], NULL, 10) : 0, hi = argc > 6 ? strtoul(argv[6], NULL, 10) : HF, v;
		unsigned long nbad = 0;
		if (idx >= NSITES) { printf("!site\n"); return 0; }
		for (v = lo; v < hi; v++) {
			struct gsm_time t; uint32_t arg = c19_sites[idx].f(v, aux);
			long long e = ((long long)v + k) % (long long)HF; if (e < 0) e += HF;
			gsm_fn2gsmtime(&t, arg);
			if (arg != (uint32_t)e || !is_decomp(&t)) {
				if (nbad++ < 6) { printf("BAD %u %u ", (unsigned)v, (unsigned)arg); pr_time(&t); printf("\n"); }
			}
		}
		printf("DONE %lu %lu\n", (unsigned long)(hi - lo), nbad);
		return 0;
	}
	while (fgets(line, sizeof line, stdin)) {
		char *sp = strchr(line, ' '); int n;
		if (!sp) { printf("!unknown\n"); fflush(stdout); continue; }
		*sp++ = 0;
		n = parse_ints(sp);
		if (!strcmp(line, "w_c19_run")) {
			if (n < 0) printf("-999\n# 0 0 \n"); else do_run(n);
		} else if (!strcmp(line, "w_c19_site")) {
			/* idx v aux -> argument handed to gsm_fn2gsmtime (or the scheduled frame number) and the time decomposed from it */
			if (n != 3 || tok[0] < 0 || tok[0] >= (long long)NSITES || tok[1] < 0 || tok[1] > UINT32_MAX
			    || tok[2] < INT32_MIN || tok[2] > INT32_MAX) { printf("-999\n"); fflush(stdout); continue; }
			struct gsm_time t; uint32_t arg = c19_sites[tok[0]].f((uint32_t)tok[1], (long)tok[2]);
			gsm_fn2gsmtime(&t, arg);
			printf("%u ", (unsigned)arg); pr_time(&t); printf("\n");
		} else if (!strcmp(line, "w_c19_sb")) {
			if (n != 1 || tok[0] < 0 || tok[0] > UINT32_MAX) { printf("-999\n"); fflush(stdout); continue; }
			struct gsm_time t; unsigned bsic = l1s_decode_sb(&t, (uint32_t)tok[0]);
			pr_time(&t); printf("%u\n", bsic);
		} else printf("!unknown\n");
		fflush(stdout);	/* a sanitizer stop must not lose the answers of the cases before it */
	}
	return 0;
}
