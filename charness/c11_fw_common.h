/* C11 firmware side, shared by c11_fw_dump.c and c11_fw_run.c: #includes the REAL layer1/mframe_sched.c
 * (static mf_* tables, sched_set_for_task[], SCHEDULE_AHEAD/LATENCY, mframe_schedule_set(), mframe_schedule()).
 * The six TDMA sched sets it refers to live in prim_*.c (DSP code, not buildable on the host); they are only
 * used as identities here, so the harness defines six distinguishable dummies. */
#include <stdio.h>
#include <string.h>
#include <stdint.h>
#include <stdlib.h>

#include "mframe_sched.c"

struct l1s_state l1s;

int tdma_end_set(uint8_t p1, uint8_t p2, uint16_t p3) { return 0; }
const struct tdma_sched_item nb_sched_set[]       = { SCHED_END_SET() };
const struct tdma_sched_item nb_sched_set_ul[]    = { SCHED_END_SET() };
const struct tdma_sched_item neigh_pm_sched_set[] = { SCHED_END_SET() };
const struct tdma_sched_item tch_sched_set[]      = { SCHED_END_SET() };
const struct tdma_sched_item tch_a_sched_set[]    = { SCHED_END_SET() };
const struct tdma_sched_item tch_d_sched_set[]    = { SCHED_END_SET() };

/* item kind codes (fixed by this harness, repeated as K_* in Model/Mframe.v) */
enum { K_NB_DL = 0, K_NB_UL = 1, K_PM = 2, K_TCH = 3, K_TCH_A = 4, K_TCH_D = 5, K_OTHER = 9 };

static int kind_of(const struct tdma_sched_item *p)
{
	if (p == nb_sched_set) return K_NB_DL;
	if (p == nb_sched_set_ul) return K_NB_UL;
	if (p == neigh_pm_sched_set) return K_PM;
	if (p == tch_sched_set) return K_TCH;
	if (p == tch_a_sched_set) return K_TCH_A;
	if (p == tch_d_sched_set) return K_TCH_D;
	return K_OTHER;
}

#define NTASKS ((int)(sizeof(sched_set_for_task) / sizeof(sched_set_for_task[0])))
