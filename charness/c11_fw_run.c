/* C11 run harness: the REAL mframe_schedule() / mframe_enable() / mframe_disable() / mframe_set() / mframe_reset() (mframe_sched.c);
 * tdma_schedule_set() is replaced by a recorder that returns what the real one returns for the set when no bucket overflows (the
 * number of frames of the set; the real one also copies the set into TDMA buckets - C08's subject).
 * no argument:  stdin "<tasks mask> <fn>" per line; stdout "<n> {<frame_offset> <kind> <p3>}*n" per line.
 *               Before every call the scheduler is reset (safe_fn = -1 "force safe"), so tasks := tasks_tgt inside mframe_schedule().
 * hist:         one history per line: "n (code a b)*n", starting from memset + mframe_reset():
 *                 1 t 0  mframe_enable(t)      2 t 0  mframe_disable(t)     3 m 0  mframe_set(m)     4 0 0  mframe_reset()
 *                 5 fn 0 current_time.fn = fn; mframe_schedule()  -> prints "tasks tasks_tgt safe_fn ncalls (off kind p3)*"
 *                 6 fn k the same for the k consecutive frames fn, fn+1, .. (mod GSM_MAX_FN), silently -> prints "tasks tasks_tgt safe_fn total_calls"
 *                 7 a b  tasks = a, tasks_tgt = b (state poke)               8 a 0  safe_fn = a (state poke)
 *               task numbers 0..30 only and only tasks with a table may be enabled / set (a NULL table would be dereferenced);
 *               a malformed line answers "-999". */
#include "c11_fw_common.h"

static int ncalls;
static struct { int off, kind, p3; } calls[1024];

int tdma_schedule_set(uint8_t frame_offset, const struct tdma_sched_item *item_set, uint16_t p3)
{
	if (ncalls < 1024) {
		calls[ncalls].off = frame_offset;
		calls[ncalls].kind = kind_of(item_set);
		calls[ncalls].p3 = p3;
	}
	ncalls++;
	return set_frames(item_set);
}

#define MAXTOK 16384
static long long tok[MAXTOK];

static int valid_mask(void)
{
	int t; uint32_t m = 0;
	for (t = 0; t < NTASKS && t < 31; t++)
		if (sched_set_for_task[t] != NULL) m |= (uint32_t)1 << t;
	return (int)m;
}

static void print_calls(void)
{
	int i;
	printf(" %d", ncalls);
	for (i = 0; i < ncalls && i < 1024; i++)
		printf(" %d %d %d", calls[i].off, calls[i].kind, calls[i].p3);
}

static void run_hist(char *line)
{
	int n = 0, i; char *p = line, *e;
	uint32_t vm = (uint32_t)valid_mask();
	for (;;) {
		while (*p == ' ' || *p == '\t' || *p == '\n' || *p == '\r') p++;
		if (!*p) break;
		if (n >= MAXTOK) goto bad;
		tok[n++] = strtoll(p, &e, 10);
		if (e == p) goto bad;
		p = e;
	}
	if (n < 1 || tok[0] < 0 || 1 + 3 * tok[0] != n) goto bad;
	for (i = 0; i < tok[0]; i++) {
		long long c = tok[1 + 3 * i], a = tok[2 + 3 * i], b = tok[3 + 3 * i];
		if (a < 0 || a > 0xffffffffLL || b < 0 || b > 0xffffffffLL) goto bad;
		switch (c) {
		case 1: if (a > 30 || !((vm >> a) & 1) || b) goto bad; break;
		case 2: if (a > 30 || b) goto bad; break;
		case 3: if ((a & ~(long long)vm) || b) goto bad; break;
		case 4: if (a || b) goto bad; break;
		case 5: if (b) goto bad; break;
		case 6: if (a >= GSM_MAX_FN || b > 4000000) goto bad; break;
		case 7: if ((a & ~(long long)vm) || (b & ~(long long)vm)) goto bad; break;
		case 8: if (b) goto bad; break;
		default: goto bad;
		}
	}
	memset(&l1s, 0, sizeof(l1s));
	mframe_reset();
	for (i = 0; i < tok[0]; i++) {
		long long c = tok[1 + 3 * i], a = tok[2 + 3 * i], b = tok[3 + 3 * i], k, total;
		switch (c) {
		case 1: mframe_enable((enum mframe_task)a); break;
		case 2: mframe_disable((enum mframe_task)a); break;
		case 3: mframe_set((uint32_t)a); break;
		case 4: mframe_reset(); break;
		case 5:
			l1s.current_time.fn = (uint32_t)a; ncalls = 0;
			mframe_schedule();
			printf(" %u %u %u", (unsigned)l1s.mframe_sched.tasks, (unsigned)l1s.mframe_sched.tasks_tgt, (unsigned)l1s.mframe_sched.safe_fn);
			print_calls();
			break;
		case 6:
			for (k = 0, total = 0; k < b; k++) {
				l1s.current_time.fn = (uint32_t)((a + k) % GSM_MAX_FN); ncalls = 0;
				mframe_schedule();
				total += ncalls;
			}
			printf(" %u %u %u %lld", (unsigned)l1s.mframe_sched.tasks, (unsigned)l1s.mframe_sched.tasks_tgt, (unsigned)l1s.mframe_sched.safe_fn, total);
			break;
		case 7: l1s.mframe_sched.tasks = (uint32_t)a; l1s.mframe_sched.tasks_tgt = (uint32_t)b; break;
		case 8: l1s.mframe_sched.safe_fn = (uint32_t)a; break;
		}
	}
	printf("\n");
	return;
bad:
	printf("-999\n");
}

int main(int argc, char **argv)
{
	unsigned long mask, fn; int i;
	static char buf[1 << 16];
	setvbuf(stdout, buf, _IOFBF, sizeof(buf));
	if (argc > 1 && !strcmp(argv[1], "hist")) {
		char *line = NULL; size_t cap = 0;
		while (getline(&line, &cap, stdin) > 0)
			run_hist(line);
		return 0;
	}
	while (scanf("%lu %lu", &mask, &fn) == 2) {
		memset(&l1s, 0, sizeof(l1s));
		mframe_reset();
		mframe_set((uint32_t)mask);
		l1s.current_time.fn = (uint32_t)fn;
		ncalls = 0;
		mframe_schedule();
		printf("%d", ncalls);
		for (i = 0; i < ncalls && i < 1024; i++)
			printf(" %d %d %d", calls[i].off, calls[i].kind, calls[i].p3);
		printf("\n");
	}
	return 0;
}
