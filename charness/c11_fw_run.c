/* C11 run harness: the REAL mframe_schedule() (mframe_sched.c) for given (task mask, current fn); tdma_schedule_set()
 * is replaced by a recorder (the real one only copies the set into TDMA buckets - C08's subject).
 * stdin: "<tasks mask> <fn>" per line; stdout: "<n> {<frame_offset> <kind> <p3>}*n" per line.
 * Before every call the scheduler is reset (safe_fn = -1 "force safe"), so tasks := tasks_tgt inside mframe_schedule(). */
#include "c11_fw_common.h"

static int ncalls;
static struct { int off, kind, p3; } calls[1024];

int tdma_schedule_set(uint8_t frame_offset, const struct tdma_sched_item *item_set, uint16_t p3)
{
	if (ncalls < 1024) {
		calls[ncalls].off = frame_offset;
		calls[ncalls].kind = kind_of(item_set);
		calls[ncalls].p3 = p3;
	}
	ncalls++;
	return 4; /* the real one returns the number of TDMA frames the set spans; only used for safe_fn */
}

int main(void)
{
	unsigned long mask, fn; int i;
	static char buf[1 << 16];
	setvbuf(stdout, buf, _IOFBF, sizeof(buf));
	while (scanf("%lu %lu", &mask, &fn) == 2) {
		memset(&l1s, 0, sizeof(l1s));
		mframe_reset();
		mframe_set((uint32_t)mask);
		l1s.current_time.fn = (uint32_t)fn;
		ncalls = 0;
		mframe_schedule();
		printf("%d", ncalls);
		for (i = 0; i < ncalls && i < 1024; i++)
			printf(" %d %d %d", calls[i].off, calls[i].kind, calls[i].p3);
		printf("\n");
	}
	return 0;
}
