/* C20 harness for the SI4 caller of gsm48_decode_mobile_alloc.
 *
 * REAL, verbatim text (extracted by brace matching from layer23 src/common/sysinfo.c into c20_si4_fn.inc / c20_fn.inc):
 *   gsm48_decode_sysinfo4, gsm48_decode_chan_h0, gsm48_decode_chan_h1, gsm48_decode_cell_sel_param,
 *   gsm48_decode_rach_ctl_param with its two tables gsm48_max_retrans[] / gsm48_tx_integer[] (unless C20_STUB_RACH is
 *   defined because the tables could not be located), gsm48_decode_mobile_alloc.
 * REAL headers: layer23 include/osmocom/bb/common/sysinfo.h (struct gsm48_sysinfo, FREQ_TYPE_*), the vendored libosmocore
 *   gsm_04_08.h (struct gsm48_system_information_type_4, struct gsm48_chan_desc, GSM48_IE_CBCH_*), gsm48_ie.h.
 * STUBBED: <osmocom/gsm/gsm23003.h> (charness/stubs/c20: two struct types), gsm48_decode_lai2 (newer libosmocore: no-op),
 *   gsm48_decode_si4_rest (records the arguments of the call: this is how 'octets consumed / left' is observed), LOGP
 *   (evaluates its arguments).
 *
 * The message (13-octet SI4 header, zero, + the payload) is an exact-size heap block: the octet behind the message is the
 * ASan redzone, so a read of one octet past the message is a sanitizer report.  One forked child per case.
 *
 * Mode "render" (built with -DC20_WITH_RENDER): the REAL, verbatim text of gsm48_rr_render_ma (layer23 src/mobile/gsm48_rr.c,
 *   c20_render_fn.inc) with the REAL struct gsm48_rr_cd of include/osmocom/bb/mobile/gsm48_rr.h.  STUBBED: struct osmocom_ms /
 *   gsm322_cellsel / gsm_settings reduced to the members the function touches (cellsel.arfcn, cellsel.si, settings.freq_map:
 *   every frequency supported unless mode "renderband" gives the map), gsm_print_arfcn ("");  gsm_refer_pcs and arfcn2index are REAL texts,
 *   gsm48_decode_freq_list (mode "render": never reached, cell_desc_lv[0] = 0).  cd->h = 1, the three other list members are empty.
 * Mode "rendercd" (built with -DC20_REAL_FREQ_LIST and the vendored libosmocore src/gsm/gsm48_ie.c linked in): the same with
 *   cd->cell_desc_lv given and the REAL gsm48_decode_freq_list.
 *   input line : hl0 hfill bg nlv lv.. ncd cell_desc_lv.. nother other.. (idx mask)*   (nlv = 9, ncd = 17; 'other' is for the model only)
 *   output line: rc ma_len ma[0..N-1] (idx newmask)*
 * Mode "freqlist": input 'ncd cell_desc_lv..' -> 'rc a_1 a_2 ..' = the entries the REAL gsm48_decode_freq_list(f, lv + 1, 16, 0xce,
 *   FREQ_TYPE_SERV) flags in an all-zero table (this is the argument 'other' of the model for the formats it does not model).
 *   input line : hl0 hfill bg nlv lv_0 .. lv_{nlv-1} (idx mask)*    (nlv = sizeof(cd->mob_alloc_lv))
 *   output line: rc ma_len ma[0..N-1] (idx newmask)*
 *
 * Mode "assign" (built with -DC20_WITH_ASSIGN on top of -DC20_WITH_RENDER): the REAL, verbatim texts of gsm48_rr_rx_imm_ass,
 *   gsm48_rr_rx_imm_ass_ext, gsm48_match_ra, gsm48_decode_start_time (gsm48_rr.c, c20_assign_fn.inc) with the REAL struct
 *   gsm48_rrlayer / gsm48_rr_cd / gsm48_cr_hist of gsm48_rr.h and IMM_ASS_HISTORY taken textually from gsm48_rr.c.  STUBBED: struct
 *   osmocom_ms (rrlayer, cellsel, settings, meas), gsm_arfcn_refer_pcs (identity), rsl_dec_chan_nr, gsm_gsmtime2fn, l1ctl_tx_reset_req,
 *   and gsm48_rr_dl_est = a stand-in that does what the real one does first: gsm48_rr_render_ma(ms, &rr->cd_now, ma, &ma_len) (REAL) with
 *   ma[64] an exact-size heap block - this is the L1 boundary observed.  The message is an exact-size heap block.
 *   input line : limit ours h hl0 hfill bg ntl tl_0 .. (idx mask)*   limit 8 = IMMEDIATE ASSIGNMENT, 4 = IMMEDIATE ASSIGNMENT EXTENDED;
 *                ours = 0 none / 1 request reference (1) / 2 request reference 2; h = hopping channel description(s); tl = the message
 *                from its mob_alloc_len octet on
 *   output line: rc est lv[0..8] [cause ma_len ma[0..N-1] (idx newmask)*]
 *
 * Mode "hist": histories of gsm48_decode_sysinfo4 / gsm48_decode_sysinfo1 (REAL, verbatim texts) on ONE struct gsm48_sysinfo in an
 *   exact-size heap block whose member behind si4_msg (si5_msg) is ASan-poisoned, so a read of si4_msg[23] by the re-decode is a report.
 *   STUBBED for gsm48_decode_sysinfo1: decode_freq_list (installs the given cell allocation: FREQ_TYPE_SERV replaced, other bits kept),
 *   gsm48_decode_si1_rest (no-op).  The SI1 message is 23 zero octets; every message is an exact-size heap block.
 *   input line : pos hl0 hfill bg bfill nA A_0 .. nB B_0 .. (idx mask)*    SI4 messages A, B (nB = 0: none), SI1 after the first pos of
 *                them; the table is the one AFTER SI1, before SI1 every entry has bit 0 cleared; si4_msg starts as 23 x bfill
 *   output line: rc_A [rc_B] si1 si4 chan_nr h tsc maio hsn arfcn hopp_len hopping[0..N-1] si4_msg[0..22] (idx newmask)*
 *
 * Mode "si4":
 * input line : si1 hl0 hfill bg npay pay_0 .. pay_{npay-1} (idx mask)*      (idx strictly ascending)
 * output line: rc rest_off rest_len chan_nr h tsc maio hsn arfcn hopp_len hopping[0..N-1] (idx newmask)*
 *              (rest_off rest_len = arguments of the call of gsm48_decode_si4_rest, -1 -1 if it is not called)
 *              | -998 (ASan/UBSan memory error) | -997 (UBSan vla-bound) | -996 (any other abnormal end) | -999 (malformed line)
 */
#include <stdio.h>
#include <stdlib.h>
#include <string.h>
#include <stdint.h>
#include <stdbool.h>
#include <errno.h>
#include <unistd.h>
#include <sys/wait.h>
#include <osmocom/core/utils.h>
#include <osmocom/gsm/gsm48_ie.h>
#include <osmocom/gsm/protocol/gsm_04_08.h>
#include <osmocom/bb/common/sysinfo.h>

#include "c20_si4_defs.inc"

#ifndef OSMO_MIN
#define OSMO_MIN(a, b) ((a) < (b) ? (a) : (b))
#endif

static void __attribute__((noinline)) c20_log(const char *fmt, ...) { (void)fmt; }
#define LOGP(ss, level, fmt, args...) c20_log(fmt, ## args)

static const uint8_t *rest_base;
static long rest_off = -1, rest_len = -1;

static void gsm48_decode_lai2(const struct gsm48_loc_area_id *lai, struct osmo_location_area_id *out) { (void)lai; (void)out; }
static int gsm48_decode_si4_rest(struct gsm48_sysinfo *s, const uint8_t *si, uint8_t len)
{
	(void)s;
	rest_off = si - rest_base;
	rest_len = len;
	return 0;
}
/* SI1: what decode_freq_list leaves = the given cell allocation in the frqt bit, every other bit as it was */
static const uint8_t *hist_ca;
static int decode_freq_list(struct gsm_sysinfo_freq *f, const uint8_t *cd, uint8_t len, uint8_t mask, uint8_t frqt)
{
	int i;
	(void)cd; (void)len; (void)mask;
	for (i = 0; i < 1024; i++) f[i].mask = (f[i].mask & ~frqt) | (hist_ca && hist_ca[i] ? frqt : 0);
	return 0;
}
static int gsm48_decode_si1_rest(struct gsm48_sysinfo *s, const uint8_t *si, uint8_t len) { (void)s; (void)si; (void)len; return 0; }
#ifdef C20_STUB_RACH
static int gsm48_decode_rach_ctl_param(struct gsm48_sysinfo *s, const struct gsm48_rach_control *rc) { (void)s; (void)rc; return 0; }
#endif

#include "c20_fn.inc"
#include "c20_si4_fn.inc"

#define FREQ_SIZE ((int)(sizeof(((struct gsm48_sysinfo *)0)->freq) / sizeof(((struct gsm48_sysinfo *)0)->freq[0])))
#define HOPPING_SIZE ((int)(sizeof(((struct gsm48_sysinfo *)0)->hopping) / sizeof(((struct gsm48_sysinfo *)0)->hopping[0])))
#define HDR ((int)sizeof(struct gsm48_system_information_type_4))

#define MAXTOK 4096
static long tok[MAXTOK];

#if defined(__SANITIZE_ADDRESS__)
#include <sanitizer/asan_interface.h>
#else
#define ASAN_POISON_MEMORY_REGION(a, n) ((void)(a), (void)(n))
#endif
#define SI4_MSG_SIZE ((int)sizeof(((struct gsm48_sysinfo *)0)->si4_msg))
#include <osmocom/gsm/gsm_utils.h>
#ifndef ARFCN_FLAG_MASK
#define ARFCN_FLAG_MASK 0xf000
#endif

static int run_hist(int n, FILE *out)
{
	long pos, hl0, hfill, bg, bfill, nA, nB; int i, k, np, at;
	if (n < 7) return -1;
	pos = tok[0]; hl0 = tok[1]; hfill = tok[2]; bg = tok[3]; bfill = tok[4]; nA = tok[5];
	if (pos < 0 || pos > 2 || hl0 < 0 || hl0 > 255 || bg < 0 || bg > 255 || bfill < 0 || bfill > 255 || hfill < 0 || hfill > 65535) return -1;
	if (nA < HDR || nA >= n - 6) return -1;
	nB = tok[6 + nA];
	if (nB < 0 || nB > n - 7 - nA || (nB != 0 && nB < HDR) || (pos == 2 && nB == 0)) return -1;
	for (i = 0; i < nA; i++) if (tok[6 + i] < 0 || tok[6 + i] > 255) return -1;
	for (i = 0; i < nB; i++) if (tok[7 + nA + i] < 0 || tok[7 + nA + i] > 255) return -1;
	at = 7 + nA + nB;
	np = n - at;
	if (np % 2) return -1;
	{ long prev = -1; for (i = 0; i < np; i += 2) { long idx = tok[at + i], m = tok[at + i + 1];
		if (idx <= prev || idx >= FREQ_SIZE || m < 0 || m > 255) return -1; prev = idx; } }

	struct gsm48_sysinfo *s = malloc(sizeof(*s));
	memset(s, 0, sizeof(*s));
	uint8_t *after = malloc(FREQ_SIZE), *ca = malloc(FREQ_SIZE);
	for (i = 0; i < FREQ_SIZE; i++) after[i] = bg;
	for (i = 0; i < np; i += 2) after[tok[at + i]] = tok[at + i + 1];
	for (i = 0; i < FREQ_SIZE; i++) { ca[i] = after[i] & FREQ_TYPE_SERV; s->freq[i].mask = after[i] & ~FREQ_TYPE_SERV; }
	hist_ca = ca;
	for (k = 0; k < HOPPING_SIZE; k++) s->hopping[k] = (hfill + k) % 65536;
	s->hopp_len = hl0;
	s->chan_nr = 201; s->h = 202; s->tsc = 203; s->maio = 204; s->hsn = 205; s->arfcn = 60001;
	memset(s->si4_msg, bfill, sizeof(s->si4_msg));
	/* the member behind si4_msg is not used by SI1 / SI4: a redzone directly behind si4_msg[22] */
	ASAN_POISON_MEMORY_REGION(s->si5_msg, sizeof(s->si5_msg));

	uint8_t *mA = malloc(nA), *mB = nB ? malloc(nB) : NULL;
	int l1 = (int)sizeof(struct gsm48_system_information_type_1) + 1;
	uint8_t *m1 = malloc(l1);
	memset(m1, 0, l1);
	for (i = 0; i < nA; i++) mA[i] = tok[6 + i];
	for (i = 0; i < nB; i++) mB[i] = tok[7 + nA + i];
	int rcA, rcB = 0;
	rest_base = mA + HDR;
	if (pos == 0) gsm48_decode_sysinfo1(s, (const struct gsm48_system_information_type_1 *)m1, l1);
	rcA = gsm48_decode_sysinfo4(s, (const struct gsm48_system_information_type_4 *)mA, (int)nA);
	if (pos == 1) gsm48_decode_sysinfo1(s, (const struct gsm48_system_information_type_1 *)m1, l1);
	if (nB) rcB = gsm48_decode_sysinfo4(s, (const struct gsm48_system_information_type_4 *)mB, (int)nB);
	if (pos == 2) gsm48_decode_sysinfo1(s, (const struct gsm48_system_information_type_1 *)m1, l1);

	fprintf(out, "%d", rcA);
	if (nB) fprintf(out, " %d", rcB);
	fprintf(out, " %d %d %d %d %d %d %d %d %d", s->si1, s->si4, s->chan_nr, s->h, s->tsc, s->maio, s->hsn, s->arfcn, s->hopp_len);
	for (k = 0; k < HOPPING_SIZE; k++) fprintf(out, " %d", s->hopping[k]);
	for (k = 0; k < SI4_MSG_SIZE; k++) fprintf(out, " %d", s->si4_msg[k]);
	for (i = 0; i < FREQ_SIZE; i++) if (s->freq[i].mask != after[i]) fprintf(out, " %d %d", i, s->freq[i].mask);
	fprintf(out, "\n");
	return 0;
}

#ifdef C20_WITH_RENDER
#include <osmocom/gsm/gsm_utils.h>
struct osmocom_ms;
#include <osmocom/bb/mobile/gsm48_rr.h>
struct gsm322_cellsel { int selected; int neighbour; uint16_t arfcn; struct gsm48_sysinfo *si; };
struct gsm_settings { uint8_t freq_map[128 + 38]; };
struct osmocom_ms { struct gsm48_rrlayer rrlayer; struct gsm322_cellsel cellsel; struct gsm_settings settings; struct { uint32_t last_fn; } meas; };
/* gsm_refer_pcs (sysinfo.c) and arfcn2index (gsm322.c): REAL, verbatim texts in c20_band_fn.inc; the harness drives gsm_refer_pcs through
 * cs->arfcn (ARFCN_PCS set or not; s->si1 = 0) */
#ifndef ARFCN_FLAG_MASK
#define ARFCN_FLAG_MASK 0xf000
#endif
int arfcn2index(uint16_t arfcn);
#include "c20_band_fn.inc"
char *gsm_print_arfcn(uint16_t arfcn) { (void)arfcn; return ""; }
static int freq_list_called;
#ifndef C20_REAL_FREQ_LIST
int gsm48_decode_freq_list(struct gsm_sysinfo_freq *f, uint8_t *cd, uint8_t len, uint8_t mask, uint8_t frqt)
{ (void)f; (void)cd; (void)len; (void)mask; (void)frqt; freq_list_called = 1; return 0; }
#endif

#include "c20_render_fn.inc"

#define LV_SIZE ((int)sizeof(((struct gsm48_rr_cd *)0)->mob_alloc_lv))

static int run_render(int n, FILE *out)
{
	long hl0, hfill, bg, nlv; int i, k, np;
	if (n < 4) return -1;
	hl0 = tok[0]; hfill = tok[1]; bg = tok[2]; nlv = tok[3];
	if (hl0 < 0 || hl0 > 255 || bg < 0 || bg > 255 || nlv != LV_SIZE || nlv > n - 4 || hfill < 0 || hfill > 65535) return -1;
	for (i = 0; i < nlv; i++) if (tok[4 + i] < 0 || tok[4 + i] > 255) return -1;
	np = n - 4 - nlv;
	if (np % 2) return -1;
	{ long prev = -1; for (i = 0; i < np; i += 2) { long idx = tok[4 + nlv + i], m = tok[4 + nlv + i + 1];
		if (idx <= prev || idx >= FREQ_SIZE || m < 0 || m > 255) return -1; prev = idx; } }

	struct gsm48_sysinfo *s = calloc(1, sizeof(*s));
	struct gsm_sysinfo_freq *freq0 = malloc(sizeof(s->freq));
	struct osmocom_ms *ms = calloc(1, sizeof(*ms));
	struct gsm48_rr_cd *cd = calloc(1, sizeof(*cd));
	uint16_t *ma = malloc(sizeof(uint16_t) * HOPPING_SIZE);
	uint8_t *ma_len = malloc(1);
	ms->cellsel.si = s;
	memset(ms->settings.freq_map, 0xff, sizeof(ms->settings.freq_map));
	cd->h = 1;
	for (i = 0; i < nlv; i++) cd->mob_alloc_lv[i] = tok[4 + i];
	for (i = 0; i < FREQ_SIZE; i++) s->freq[i].mask = bg;
	for (i = 0; i < np; i += 2) s->freq[tok[4 + nlv + i]].mask = tok[4 + nlv + i + 1];
	memcpy(freq0, s->freq, sizeof(s->freq));
	for (k = 0; k < HOPPING_SIZE; k++) ma[k] = (hfill + k) % 65536;
	*ma_len = hl0;

	int rc = gsm48_rr_render_ma(ms, cd, ma, ma_len);

	if (freq_list_called) return -1;
	fprintf(out, "%d %d", rc, *ma_len);
	for (k = 0; k < HOPPING_SIZE; k++) fprintf(out, " %d", ma[k]);
	for (i = 0; i < FREQ_SIZE; i++) if (s->freq[i].mask != freq0[i].mask) fprintf(out, " %d %d", i, s->freq[i].mask);
	fprintf(out, "\n");
	return 0;
}
#define CD_SIZE ((int)sizeof(((struct gsm48_rr_cd *)0)->cell_desc_lv))
#ifdef C20_REAL_FREQ_LIST
/* the inline msgb helpers pulled in by the vendored gsm48_ie.c refer to it */
void osmo_panic(const char *fmt, ...) { (void)fmt; abort(); }
static int band_mode;	/* mode "renderband": the line starts with  pcs hl0 hfill bg nfm fm_0 ..  and continues like "rendercd" behind bg */
static int run_rendercd(int n, FILE *out)
{
	long hl0, hfill, bg, nlv, ncd, no; int i, k, np, at;
	long pcs = 0; static uint8_t fmap[128 + 38]; int have_fm = 0;
	if (band_mode) {
		if (n < 5 || tok[4] != (long)sizeof(fmap) || n < 5 + (int)sizeof(fmap) + 4) return -1;
		pcs = tok[0];
		for (i = 0; i < (int)sizeof(fmap); i++) { if (tok[5 + i] < 0 || tok[5 + i] > 255) return -1; fmap[i] = tok[5 + i]; }
		have_fm = 1;
		/* shift the line so that the rest parses like "rendercd":  hl0 hfill bg nlv ... */
		long h = tok[1], f = tok[2], b = tok[3];
		int drop = 2 + (int)sizeof(fmap);
		for (i = 3; i + drop < n; i++) tok[i] = tok[i + drop];
		tok[0] = h; tok[1] = f; tok[2] = b;
		n -= drop;
	}
	if (n < 4) return -1;
	hl0 = tok[0]; hfill = tok[1]; bg = tok[2]; nlv = tok[3];
	if (hl0 < 0 || hl0 > 255 || bg < 0 || bg > 255 || nlv != LV_SIZE || nlv >= n - 4 || hfill < 0 || hfill > 65535) return -1;
	ncd = tok[4 + nlv];
	if (ncd != CD_SIZE || ncd >= n - 5 - nlv) return -1;
	no = tok[5 + nlv + ncd];
	if (no < 0 || no > n - 6 - nlv - ncd) return -1;
	for (i = 0; i < nlv; i++) if (tok[4 + i] < 0 || tok[4 + i] > 255) return -1;
	for (i = 0; i < ncd; i++) if (tok[5 + nlv + i] < 0 || tok[5 + nlv + i] > 255) return -1;
	for (i = 0; i < no; i++) if (tok[6 + nlv + ncd + i] < 0 || tok[6 + nlv + ncd + i] > 1023) return -1;
	at = 6 + nlv + ncd + no;
	np = n - at;
	if (np % 2) return -1;
	{ long prev = -1; for (i = 0; i < np; i += 2) { long idx = tok[at + i], m = tok[at + i + 1];
		if (idx <= prev || idx >= FREQ_SIZE || m < 0 || m > 255) return -1; prev = idx; } }

	struct gsm48_sysinfo *s = calloc(1, sizeof(*s));
	struct gsm_sysinfo_freq *freq0 = malloc(sizeof(s->freq));
	struct osmocom_ms *ms = calloc(1, sizeof(*ms));
	struct gsm48_rr_cd *cd = calloc(1, sizeof(*cd));
	uint16_t *ma = malloc(sizeof(uint16_t) * HOPPING_SIZE);
	uint8_t *ma_len = malloc(1);
	ms->cellsel.si = s;
	memset(ms->settings.freq_map, 0xff, sizeof(ms->settings.freq_map));
	cd->h = 1;
	if (have_fm) memcpy(ms->settings.freq_map, fmap, sizeof(fmap));
	ms->cellsel.arfcn = pcs ? (600 | ARFCN_PCS) : 871;
	for (i = 0; i < nlv; i++) cd->mob_alloc_lv[i] = tok[4 + i];
	for (i = 0; i < ncd; i++) cd->cell_desc_lv[i] = tok[5 + nlv + i];
	for (i = 0; i < FREQ_SIZE; i++) s->freq[i].mask = bg;
	for (i = 0; i < np; i += 2) s->freq[tok[at + i]].mask = tok[at + i + 1];
	memcpy(freq0, s->freq, sizeof(s->freq));
	for (k = 0; k < HOPPING_SIZE; k++) ma[k] = (hfill + k) % 65536;
	*ma_len = hl0;

	int rc = gsm48_rr_render_ma(ms, cd, ma, ma_len);

	fprintf(out, "%d %d", rc, *ma_len);
	for (k = 0; k < HOPPING_SIZE; k++) fprintf(out, " %d", ma[k]);
	for (i = 0; i < FREQ_SIZE; i++) if (s->freq[i].mask != freq0[i].mask) fprintf(out, " %d %d", i, s->freq[i].mask);
	fprintf(out, "\n");
	return 0;
}

static int run_freqlist(int n, FILE *out)
{
	int i;
	if (n < 1 || tok[0] != CD_SIZE || n != 1 + CD_SIZE) return -1;
	for (i = 0; i < CD_SIZE; i++) if (tok[1 + i] < 0 || tok[1 + i] > 255) return -1;
	struct gsm_sysinfo_freq *f = calloc(FREQ_SIZE, sizeof(*f));
	uint8_t *lv = malloc(CD_SIZE);
	for (i = 0; i < CD_SIZE; i++) lv[i] = tok[1 + i];
	int rc = gsm48_decode_freq_list(f, lv + 1, 16, 0xce, FREQ_TYPE_SERV);
	fprintf(out, "%d", rc);
	for (i = 0; i < FREQ_SIZE; i++) if (f[i].mask & FREQ_TYPE_SERV) fprintf(out, " %d", i);
	fprintf(out, "\n");
	return 0;
}
#else
static int run_rendercd(int n, FILE *out) { (void)n; (void)out; return -1; }
static int run_freqlist(int n, FILE *out) { (void)n; (void)out; return -1; }
#endif

#ifdef C20_WITH_ASSIGN
#include <osmocom/core/msgb.h>
#include <osmocom/gsm/rsl.h>
#define L1CTL_RES_T_SCHED 2
uint16_t gsm_arfcn_refer_pcs(uint16_t cell_arfcn, const struct gsm48_sysinfo *cell_s, uint16_t arfcn) { (void)cell_arfcn; (void)cell_s; return arfcn; }
int rsl_dec_chan_nr(uint8_t chan_nr, uint8_t *type, uint8_t *subch, uint8_t *timeslot) { *type = chan_nr & 0xf8; *subch = 0; *timeslot = chan_nr & 7; return 0; }
uint32_t gsm_gsmtime2fn(struct gsm_time *time) { (void)time; return 0; }
int l1ctl_tx_reset_req(struct osmocom_ms *ms, uint8_t type) { (void)ms; (void)type; return 0; }
static int est_calls, got_cause;
static uint16_t *got_ma;
static uint8_t *got_ma_len;
/* the first thing the real gsm48_rr_dl_est does with the assigned channel */
static int gsm48_rr_dl_est(struct osmocom_ms *ms)
{
	est_calls++;
	got_cause = gsm48_rr_render_ma(ms, &ms->rrlayer.cd_now, got_ma, got_ma_len);
	return 0;
}

#include "c20_assign_fn.inc"

static int run_assign(int n, FILE *out)
{
	long limit, ours, h, hl0, hfill, bg, ntl; int i, k, np;
	if (n < 7) return -1;
	limit = tok[0]; ours = tok[1]; h = tok[2]; hl0 = tok[3]; hfill = tok[4]; bg = tok[5]; ntl = tok[6];
	if ((limit != 8 && limit != 4) || ours < 0 || ours > 2 || (limit == 8 && ours == 2) || hl0 < 0 || hl0 > 255 || bg < 0 || bg > 255
	    || ntl < 0 || ntl > n - 7 || hfill < 0 || hfill > 65535) return -1;
	for (i = 0; i < ntl; i++) if (tok[7 + i] < 0 || tok[7 + i] > 255) return -1;
	np = n - 7 - ntl;
	if (np % 2) return -1;
	{ long prev = -1; for (i = 0; i < np; i += 2) { long idx = tok[7 + ntl + i], m = tok[7 + ntl + i + 1];
		if (idx <= prev || idx >= FREQ_SIZE || m < 0 || m > 255) return -1; prev = idx; } }

	struct gsm48_sysinfo *s = calloc(1, sizeof(*s));
	struct gsm_sysinfo_freq *freq0 = malloc(sizeof(s->freq));
	struct osmocom_ms *ms = calloc(1, sizeof(*ms));
	struct gsm48_rrlayer *rr = &ms->rrlayer;
	got_ma = malloc(sizeof(uint16_t) * HOPPING_SIZE);
	got_ma_len = malloc(1);
	for (i = 0; i < FREQ_SIZE; i++) s->freq[i].mask = bg;
	for (i = 0; i < np; i += 2) s->freq[tok[7 + ntl + i]].mask = tok[7 + ntl + i + 1];
	memcpy(freq0, s->freq, sizeof(s->freq));
	for (k = 0; k < HOPPING_SIZE; k++) got_ma[k] = (hfill + k) % 65536;
	*got_ma_len = hl0;
	ms->cellsel.selected = 1; ms->cellsel.neighbour = 0; ms->cellsel.si = s; ms->cellsel.arfcn = 871;
	memset(ms->settings.freq_map, 0xff, sizeof(ms->settings.freq_map));
	rr->state = GSM48_RR_ST_CONN_PEND;
	rr->wait_assign = 1;
	rr->cr_hist[0].valid = 1;
	rr->cr_hist[0].ref.ra = 0xe5; rr->cr_hist[0].ref.t1 = 7; rr->cr_hist[0].ref.t2 = 11; rr->cr_hist[0].ref.t3_high = 2; rr->cr_hist[0].ref.t3_low = 5;
	memset(rr->cd_now.mob_alloc_lv, 170, sizeof(rr->cd_now.mob_alloc_lv));

	/* the message: the fixed part without its last member mob_alloc_len, then tl - an exact-size heap block */
	int fixed = (limit == 8 ? (int)sizeof(struct gsm48_imm_ass) : (int)sizeof(struct gsm48_imm_ass_ext)) - 1;
	int total = fixed + (int)ntl;
	uint8_t *buf = malloc(total ? total : 1);
	memset(buf, 0, fixed);
	struct gsm48_chan_desc cdh; memset(&cdh, 0, sizeof(cdh));
	cdh.chan_nr = 0x41;
	if (h) { cdh.h1.h = 1; cdh.h1.tsc = 5; cdh.h1.maio_low = 1; cdh.h1.hsn = 17; } else { cdh.h0.h = 0; cdh.h0.tsc = 5; cdh.h0.arfcn_low = 60; }
	struct gsm48_req_ref other; memset(&other, 0, sizeof(other)); other.ra = 0x03; other.t1 = 1;
	if (limit == 8) {
		struct gsm48_imm_ass *ia = (struct gsm48_imm_ass *)buf;
		ia->proto_discr = GSM48_PDISC_RR; ia->msg_type = GSM48_MT_RR_IMM_ASS;
		ia->chan_desc = cdh; ia->timing_advance = 3;
		ia->req_ref = ours == 1 ? rr->cr_hist[0].ref : other;
	} else {
		struct gsm48_imm_ass_ext *ia = (struct gsm48_imm_ass_ext *)buf;
		ia->proto_discr = GSM48_PDISC_RR; ia->msg_type = GSM48_MT_RR_IMM_ASS_EXT;
		ia->chan_desc1 = cdh; ia->timing_advance1 = 3;
		ia->chan_desc2 = cdh; ia->chan_desc2.chan_nr = 0x49; ia->timing_advance2 = 4;
		ia->req_ref1 = ours == 1 ? rr->cr_hist[0].ref : other;
		ia->req_ref2 = ours == 2 ? rr->cr_hist[0].ref : other;
	}
	for (i = 0; i < ntl; i++) buf[fixed + i] = tok[7 + i];
	struct msgb msg; memset(&msg, 0, sizeof(msg));
	msg.l3h = buf; msg.data = buf; msg.tail = buf + total;

	est_calls = 0; got_cause = -1;
	int rc = limit == 8 ? gsm48_rr_rx_imm_ass(ms, &msg) : gsm48_rr_rx_imm_ass_ext(ms, &msg);

	fprintf(out, "%d %d", rc, est_calls);
	for (k = 0; k < LV_SIZE; k++) fprintf(out, " %d", rr->cd_now.mob_alloc_lv[k]);
	if (est_calls) {
		fprintf(out, " %d %d", got_cause, *got_ma_len);
		for (k = 0; k < HOPPING_SIZE; k++) fprintf(out, " %d", got_ma[k]);
		for (i = 0; i < FREQ_SIZE; i++) if (s->freq[i].mask != freq0[i].mask) fprintf(out, " %d %d", i, s->freq[i].mask);
	}
	fprintf(out, "\n");
	return 0;
}
#else
static int run_assign(int n, FILE *out) { (void)n; (void)out; return -1; }
#endif
#else
static int run_render(int n, FILE *out) { (void)n; (void)out; return -1; }
static int run_assign(int n, FILE *out) { (void)n; (void)out; return -1; }
static int run_rendercd(int n, FILE *out) { (void)n; (void)out; return -1; }
static int run_freqlist(int n, FILE *out) { (void)n; (void)out; return -1; }
#define CD_SIZE 0
#endif

static int parse(char *line)
{
	int n = 0; char *p = line, *e;
	for (;;) {
		while (*p == ' ' || *p == '\t' || *p == '\n' || *p == '\r') p++;
		if (!*p) break;
		if (n >= MAXTOK) return -1;
		tok[n++] = strtol(p, &e, 10);
		if (e == p) return -1;
		p = e;
	}
	return n;
}

static int run_case(int n, FILE *out)
{
	long si1, hl0, hfill, bg, npay; int i, k, np;
	if (n < 5) return -1;
	si1 = tok[0]; hl0 = tok[1]; hfill = tok[2]; bg = tok[3]; npay = tok[4];
	if (hl0 < 0 || hl0 > 255 || bg < 0 || bg > 255 || npay < 0 || npay > n - 5 || hfill < 0 || hfill > 65535) return -1;
	for (i = 0; i < npay; i++) if (tok[5 + i] < 0 || tok[5 + i] > 255) return -1;
	np = n - 5 - npay;
	if (np % 2) return -1;
	{ long prev = -1; for (i = 0; i < np; i += 2) { long idx = tok[5 + npay + i], m = tok[5 + npay + i + 1];
		if (idx <= prev || idx >= FREQ_SIZE || m < 0 || m > 255) return -1; prev = idx; } }

	struct gsm48_sysinfo *s = calloc(1, sizeof(*s));
	struct gsm_sysinfo_freq *freq0 = malloc(sizeof(s->freq));
	/* the message: exactly HDR + npay octets, the redzone follows */
	uint8_t *msg = malloc(HDR + npay);
	memset(msg, 0, HDR);
	for (i = 0; i < npay; i++) msg[HDR + i] = tok[5 + i];
	for (i = 0; i < FREQ_SIZE; i++) s->freq[i].mask = bg;
	for (i = 0; i < np; i += 2) s->freq[tok[5 + npay + i]].mask = tok[5 + npay + i + 1];
	memcpy(freq0, s->freq, sizeof(s->freq));
	for (k = 0; k < HOPPING_SIZE; k++) s->hopping[k] = (hfill + k) % 65536;
	s->hopp_len = hl0;
	s->si1 = si1 ? 1 : 0;
	s->chan_nr = 201; s->h = 202; s->tsc = 203; s->maio = 204; s->hsn = 205; s->arfcn = 60001;
	rest_base = msg + HDR;

	int rc = gsm48_decode_sysinfo4(s, (const struct gsm48_system_information_type_4 *)msg, HDR + (int)npay);

	fprintf(out, "%d %ld %ld %d %d %d %d %d %d %d", rc, rest_off, rest_len, s->chan_nr, s->h, s->tsc, s->maio, s->hsn, s->arfcn, s->hopp_len);
	for (k = 0; k < HOPPING_SIZE; k++) fprintf(out, " %d", s->hopping[k]);
	for (i = 0; i < FREQ_SIZE; i++) if (s->freq[i].mask != freq0[i].mask) fprintf(out, " %d %d", i, s->freq[i].mask);
	fprintf(out, "\n");
	return 0;
}

int main(int argc, char **argv)
{
	static char line[1 << 16];
	if (argc > 1 && !strcmp(argv[1], "const")) {
		printf("%d %d %d %d %d %d %d %d %d %d\n", (int)EIO, (int)GSM48_IE_CBCH_CHAN_DESC, (int)GSM48_IE_CBCH_MOB_AL, HDR,
		       (int)sizeof(struct gsm48_chan_desc),
#ifdef C20_WITH_RENDER
		       LV_SIZE,			/* sizeof(cd->mob_alloc_lv) of the real struct gsm48_rr_cd, as compiled */
#else
		       (int)(C20_MOB_ALLOC_LV_SIZE),	/* the bound as written in gsm48_rr.h */
#endif
		       (int)GSM48_RR_CAUSE_NO_CELL_ALLOC_A, SI4_MSG_SIZE, (int)GSM48_RR_CAUSE_ABNORMAL_UNSPEC, (int)(CD_SIZE ? CD_SIZE : C20_CELL_DESC_LV_SIZE));
		printf("%d %d %d %d\n", (int)ARFCN_PCS, (int)ARFCN_FLAG_MASK, (int)GSM48_RR_CAUSE_FREQ_NOT_IMPL, C20_FREQ_MAP_SIZE);
		return 0;
	}
	int render = argc > 1 && !strcmp(argv[1], "render");
	int hist = argc > 1 && !strcmp(argv[1], "hist");
	int assign = argc > 1 && !strcmp(argv[1], "assign");
	int rendercd = argc > 1 && !strcmp(argv[1], "rendercd");
	int freqlist = argc > 1 && !strcmp(argv[1], "freqlist");
	if (argc > 1 && !strcmp(argv[1], "renderband")) { rendercd = 1; band_mode = 1; }
	long caseno = 0;
	while (fgets(line, sizeof(line), stdin)) {
		int n = parse(line);
		caseno++;
		int po[2], pe[2];
		if (pipe(po) || pipe(pe)) { perror("pipe"); return 2; }
		fflush(stdout); fflush(stderr);
		pid_t pid = fork();
		if (pid < 0) { perror("fork"); return 2; }
		if (pid == 0) {
			close(po[0]); close(pe[0]);
			dup2(pe[1], 2);
			FILE *out = fdopen(po[1], "w");
			alarm(20);
			if (n < 0 || (rendercd ? run_rendercd(n, out) : freqlist ? run_freqlist(n, out) : assign ? run_assign(n, out) : hist ? run_hist(n, out) : render ? run_render(n, out) : run_case(n, out)) < 0) fprintf(out, "-999\n");
			fflush(out);
			_exit(0);
		}
		close(po[1]); close(pe[1]);
		static char obuf[1 << 16], ebuf[1 << 14];
		size_t ol = 0, el = 0; ssize_t r;
		while ((r = read(po[0], obuf + ol, sizeof(obuf) - 1 - ol)) > 0) ol += r;
		while ((r = read(pe[0], ebuf + el, sizeof(ebuf) - 1 - el)) > 0) el += r;
		{ char junk[4096]; while (read(pe[0], junk, sizeof(junk)) > 0) ; }
		obuf[ol] = 0; ebuf[el] = 0;
		close(po[0]); close(pe[0]);
		int status = 0; waitpid(pid, &status, 0);
		if (WIFEXITED(status) && WEXITSTATUS(status) == 0 && ol > 0 && obuf[ol - 1] == '\n') {
			fputs(obuf, stdout);
		} else {
			int code = -996;
			if (strstr(ebuf, "variable length array bound")) code = -997;
			else if (strstr(ebuf, "AddressSanitizer") || strstr(ebuf, "runtime error: index") || strstr(ebuf, "out of bounds")) code = -998;
			printf("%d\n", code);
			char *nl = ebuf; int lines = 0;
			while (*nl && lines < 3) { if (*nl == '\n') lines++; nl++; }
			*nl = 0;
			fprintf(stderr, "case %ld: status 0x%x\n%s\n", caseno, status, ebuf);
		}
	}
	return 0;
}
