/* C06 harness: own osmo_panic (the vendored panic.c/backtrace.c need a real config.h).
 * MSGB_ABORT ends here: report it on stdout so that the driver can turn it into a failing input. */
#include <stdio.h>
#include <stdlib.h>
#include <stdarg.h>
#include <unistd.h>

void osmo_panic(const char *fmt, ...)
{
	va_list ap;
	fflush(stdout);
	printf(" 9\n!PANIC ");
	va_start(ap, fmt);
	vprintf(fmt, ap);
	va_end(ap);
	printf("\n");
	fflush(stdout);
	_exit(3);
}
