/* C11 driver for trxcon's timeslot configuration and frame lookups: #includes the REAL sched_trx.c (l1sched_configure_ts(),
 * LAYOUT_HAS_LCHAN, l1sched_find_lchan_by_type(), l1sched_activate_lchan(), l1sched_handle_rx_burst() with its static helper
 * subst_frame_loss(), l1sched_pull_burst(), l1sched_handle_rx_probe()), the REAL sched_mframe.c and sched_lchan_desc.c.
 * The per-channel burst handlers (rx_xxx_fn / tx_xxx_fn, forward-declared in sched_lchan_desc.c) are generated recording stubs
 * (vp/props/C11.py write_incs(), #ifdef C11_HANDLERS_REC): each call is stored as (lchan->type, fn, bid, substituted?, is this
 * the handler l1sched_lchan_desc[] names for that lchan type?).
 *
 * no argument   stdin: "cfg tn" per line -> "rc t0 t1 ..." : return code of l1sched_configure_ts() followed by every lchan type
 *               that has a channel state afterwards (asked through l1sched_find_lchan_by_type for every type 0 .. _L1SCHED_CHAN_MAX-1).
 * resolve       the real l1sched_chan_nr2pchan_config(chan_nr) for chan_nr = 0..255 ("chan_nr config" per line)
 * rx|tx|probe   stdin: one case per line
 *                   cfg tn actmask npoke (type np_hi np_lo nlost last_proc)*npoke n fn*n
 *               the timeslot is (re)configured with the real l1sched_configure_ts(cfg), every lchan type whose bit is set in actmask
 *               is activated through the real l1sched_activate_lchan(), the TDMA statistics of the poked channel states are
 *               overwritten (num_proc = np_hi * 2^32 + np_lo), then the n frame numbers go, in order, through
 *                 rx:    l1sched_handle_rx_burst()  (bi->bid preset to 255)   -> per burst "rc bid ncalls (type fn bid subst hok)*"
 *                 tx:    l1sched_pull_burst()       (br->bid preset to 255)   -> per frame "bid ncalls (type fn bid hok)*"
 *                 probe: l1sched_handle_rx_probe()  (flags preset to 0)       -> per frame "rc flags"
 *               output line: "rc_configure" then (layout with period 0: "-2" and nothing else - the lookup would divide by zero)
 *               the per-frame groups, then "nstates (type active np_hi np_lo nlost last_proc)*" for every channel state.
 *               A malformed line answers "-999". Output is flushed per line (a sanitizer stop is attributed to the next line). */
#include <stdio.h>
#include <stdlib.h>
#include <string.h>
#include <stdint.h>
#include <stdarg.h>

#include "sched_trx.c"
#include "sched_mframe.c"
#include "sched_lchan_desc.c"

#define E(x)
#define F(x)
#define C11_HANDLERS_REC 1
static int c11_rec_rx(struct l1sched_lchan_state *lchan, const struct l1sched_burst_ind *bi, l1sched_lchan_rx_func *self);
static int c11_rec_tx(struct l1sched_lchan_state *lchan, struct l1sched_burst_req *br, l1sched_lchan_tx_func *self);
#include "c11_trxcon_names.inc"
#undef C11_HANDLERS_REC
#undef F
#undef E

/* link-time stand-ins for the parts of trxcon / libosmocore that timeslot configuration only touches for notification */
static uint8_t prim_buf[4096];
static struct msgb prim_msg;
struct msgb *l1sched_prim_alloc(enum l1sched_prim_type type, enum osmo_prim_operation op)
{
	memset(prim_buf, 0, sizeof(prim_buf));
	memset(&prim_msg, 0, sizeof(prim_msg));
	prim_msg.l1h = prim_buf;
	return &prim_msg;
}
int l1sched_prim_to_user(struct l1sched_state *sched, struct msgb *msg) { return 0; }
void logp2(int subsys, unsigned int level, const char *file, int line, int cont, const char *format, ...) { }
struct msgb *msgb_dequeue(struct llist_head *queue) { return NULL; }
void msgb_free(struct msgb *m) { }
const char *msgb_hexdump_l2(const struct msgb *msg) { return ""; }
void osmo_a5(int n, const uint8_t *key, uint32_t fn, ubit_t *dl, ubit_t *ul) { abort(); }

/* ---- recorder */
struct c11_rec { int type; uint32_t fn; int bid; int subst; int hok; };
#define C11_MAXREC 1024
static struct c11_rec c11_recs[C11_MAXREC];
static unsigned c11_nrec;
static const struct l1sched_burst_ind *c11_cur_bi; /* the burst the harness itself handed in (anything else is a substituted one) */

static int c11_rec_rx(struct l1sched_lchan_state *lchan, const struct l1sched_burst_ind *bi, l1sched_lchan_rx_func *self)
{
	if (c11_nrec < C11_MAXREC) {
		struct c11_rec *r = &c11_recs[c11_nrec];
		r->type = (int)lchan->type; r->fn = bi->fn; r->bid = bi->bid; r->subst = (bi != c11_cur_bi);
		r->hok = ((unsigned)lchan->type < _L1SCHED_CHAN_MAX && l1sched_lchan_desc[lchan->type].rx_fn == self);
	}
	c11_nrec++;
	return 0;
}

static int c11_rec_tx(struct l1sched_lchan_state *lchan, struct l1sched_burst_req *br, l1sched_lchan_tx_func *self)
{
	if (c11_nrec < C11_MAXREC) {
		struct c11_rec *r = &c11_recs[c11_nrec];
		r->type = (int)lchan->type; r->fn = br->fn; r->bid = br->bid; r->subst = 0;
		r->hok = ((unsigned)lchan->type < _L1SCHED_CHAN_MAX && l1sched_lchan_desc[lchan->type].tx_fn == self);
	}
	c11_nrec++;
	return 0;
}

/* ---- case lines */
#define C11_MAXTOK 4096
static long long tok[C11_MAXTOK];

static int parse_line(char *line)
{
	int n = 0;
	char *p = line, *e;
	for (;;) {
		while (*p == ' ' || *p == '\t' || *p == '\n' || *p == '\r') p++;
		if (!*p) break;
		if (n >= C11_MAXTOK) return -1;
		tok[n++] = strtoll(p, &e, 10);
		if (e == p) return -1;
		p = e;
	}
	return n;
}

enum { M_RX, M_TX, M_PROBE };

static void run_case(struct l1sched_state *sched, int mode, int ntok)
{
	long long cfg, tn, actmask, npoke, n;
	int i, k, rc, type;
	struct l1sched_ts *ts;
	struct l1sched_lchan_state *lchan;
	static struct l1sched_burst_ind bi;
	static struct l1sched_burst_req br;

	if (ntok < 5) goto bad;
	cfg = tok[0]; tn = tok[1]; actmask = tok[2]; npoke = tok[3];
	if (tn < 0 || tn > 7 || cfg < 0 || cfg > 100000 || actmask < 0 || npoke < 0 || npoke > 64 || 4 + 5 * npoke + 1 > ntok) goto bad;
	n = tok[4 + 5 * npoke];
	if (n < 0 || 4 + 5 * npoke + 1 + n != ntok) goto bad;
	for (i = 0; i < npoke; i++) {
		long long *q = &tok[4 + 5 * i];
		if (q[0] < 0 || q[0] >= _L1SCHED_CHAN_MAX || q[1] < 0 || q[1] > 0xffffffffLL || q[2] < 0 || q[2] > 0xffffffffLL ||
		    q[3] < 0 || q[3] > 0xffffffffLL || q[4] < 0 || q[4] > 0xffffffffLL) goto bad;
	}
	for (i = 0; i < n; i++)
		if (tok[5 + 5 * npoke + i] < 0 || tok[5 + 5 * npoke + i] > 0xffffffffLL) goto bad;

	rc = l1sched_configure_ts(sched, (int)tn, (enum gsm_phys_chan_config)cfg);
	printf("%d", rc);
	ts = sched->ts[tn];
	if (ts != NULL && ts->mf_layout != NULL && ts->mf_layout->period == 0) { printf(" -2\n"); return; }
	if (rc == 0 && ts != NULL) {
		for (type = 0; type < _L1SCHED_CHAN_MAX; type++)
			if (type < 62 && ((actmask >> type) & 1))
				l1sched_activate_lchan(ts, (enum l1sched_lchan_type)type);
		for (i = 0; i < npoke; i++) {
			long long *q = &tok[4 + 5 * i];
			lchan = l1sched_find_lchan_by_type(ts, (enum l1sched_lchan_type)q[0]);
			if (lchan == NULL) continue;
			lchan->tdma.num_proc = ((unsigned long)q[1] << 32) | (unsigned long)q[2];
			lchan->tdma.num_lost = (unsigned long)q[3];
			lchan->tdma.last_proc = (uint32_t)q[4];
		}
	}
	for (i = 0; i < n; i++) {
		uint32_t fn = (uint32_t)tok[5 + 5 * npoke + i];
		c11_nrec = 0;
		if (mode == M_RX) {
			memset(&bi, 0, sizeof(bi));
			bi.fn = fn; bi.tn = (uint8_t)tn; bi.rssi = -60; bi.bid = 255; bi.burst_len = GSM_NBITS_NB_GMSK_BURST;
			c11_cur_bi = &bi;
			rc = l1sched_handle_rx_burst(sched, &bi);
			printf(" %d %u %u", rc, (unsigned)bi.bid, c11_nrec);
		} else if (mode == M_TX) {
			memset(&br, 0, sizeof(br));
			br.fn = fn; br.tn = (uint8_t)tn; br.bid = 255; br.burst_len = GSM_NBITS_NB_GMSK_BURST;
			l1sched_pull_burst(sched, &br);
			printf(" %u %u", (unsigned)br.bid, c11_nrec);
		} else {
			struct l1sched_probe pr = { .flags = 0, .fn = fn, .tn = (uint8_t)tn };
			rc = l1sched_handle_rx_probe(sched, &pr);
			printf(" %d %u", rc, (unsigned)pr.flags);
		}
		if (c11_nrec > C11_MAXREC) { printf(" -997\n"); return; }
		for (k = 0; k < (int)c11_nrec; k++) {
			const struct c11_rec *r = &c11_recs[k];
			if (mode == M_RX) printf(" %d %u %d %d %d", r->type, (unsigned)r->fn, r->bid, r->subst, r->hok);
			else printf(" %d %u %d %d", r->type, (unsigned)r->fn, r->bid, r->hok);
		}
	}
	/* the channel states afterwards */
	k = 0;
	if (ts != NULL && ts->mf_layout != NULL)
		for (type = 0; type < _L1SCHED_CHAN_MAX; type++)
			if (l1sched_find_lchan_by_type(ts, type) != NULL) k++;
	printf(" %d", k);
	if (k)
		for (type = 0; type < _L1SCHED_CHAN_MAX; type++)
			if ((lchan = l1sched_find_lchan_by_type(ts, type)) != NULL)
				printf(" %d %d %lu %lu %lu %u", type, lchan->active ? 1 : 0, (unsigned long)(lchan->tdma.num_proc >> 32),
				       (unsigned long)(lchan->tdma.num_proc & 0xffffffffUL), lchan->tdma.num_lost, (unsigned)lchan->tdma.last_proc);
	printf("\n");
	return;
bad:
	printf("-999\n");
}

int main(int argc, char **argv)
{
	const struct l1sched_cfg cfg = { .log_prefix = "c11: " };
	struct l1sched_state *sched = l1sched_alloc(NULL, &cfg, NULL);
	long c, tn;
	if (!sched) { printf("ALLOC-FAILED\n"); return 2; }
	if (argc > 1 && !strcmp(argv[1], "resolve")) {
		/* the real l1sched_chan_nr2pchan_config() for every uint8_t channel number: "chan_nr config" per line */
		for (c = 0; c < 256; c++)
			printf("%ld %d\n", c, (int)l1sched_chan_nr2pchan_config((uint8_t)c));
		return 0;
	}
	if (argc > 1) {
		int mode = !strcmp(argv[1], "rx") ? M_RX : !strcmp(argv[1], "tx") ? M_TX : !strcmp(argv[1], "probe") ? M_PROBE : -1;
		char *line = NULL; size_t cap = 0;
		if (mode < 0 || sizeof(unsigned long) != 8) { fprintf(stderr, "usage: %s [rx|tx|probe] (LP64 only)\n", argv[0]); return 2; }
		/* every timeslot is configured once with a real combination: a timeslot whose FIRST configuration fails keeps an
		 * uninitialised list of channel states that the next (re)configuration would walk (outside C11) */
		for (tn = 0; tn < 8; tn++)
			if (l1sched_configure_ts(sched, (int)tn, GSM_PCHAN_CCCH) != 0) { printf("INIT-FAILED\n"); return 2; }
		while (getline(&line, &cap, stdin) > 0) {
			run_case(sched, mode, parse_line(line));
			fflush(stdout);
		}
		return 0;
	}
	while (scanf("%ld %ld", &c, &tn) == 2) {
		int rc, type;
		if (tn < 0 || tn > 7) { printf("-998\n"); continue; }
		rc = l1sched_configure_ts(sched, (int)tn, (enum gsm_phys_chan_config)c);
		printf("%d", rc);
		if (rc == 0 && sched->ts[tn] != NULL)
			for (type = 0; type < _L1SCHED_CHAN_MAX; type++)
				if (l1sched_find_lchan_by_type(sched->ts[tn], type) != NULL)
					printf(" %d", type);
		printf("\n");
	}
	return 0;
}
