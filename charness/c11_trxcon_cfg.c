/* C11 driver for trxcon's timeslot configuration: #includes the REAL sched_trx.c (l1sched_configure_ts(), LAYOUT_HAS_LCHAN,
 * l1sched_find_lchan_by_type()), the REAL sched_mframe.c and sched_lchan_desc.c.
 * stdin: "cfg tn" per line -> "rc t0 t1 ..." : return code of l1sched_configure_ts() followed by every lchan type that has a
 * channel state afterwards (asked through l1sched_find_lchan_by_type for every type 0 .. _L1SCHED_CHAN_MAX-1). */
#include <stdio.h>
#include <stdlib.h>
#include <string.h>
#include <stdint.h>
#include <stdarg.h>

#include "sched_trx.c"
#include "sched_mframe.c"
#include "sched_lchan_desc.c"

#define E(x)
#define F(x)
#define C11_HANDLERS 1
#include "c11_trxcon_names.inc"
#undef C11_HANDLERS
#undef F
#undef E

/* link-time stand-ins for the parts of trxcon / libosmocore that timeslot configuration only touches for notification */
static uint8_t prim_buf[4096];
static struct msgb prim_msg;
struct msgb *l1sched_prim_alloc(enum l1sched_prim_type type, enum osmo_prim_operation op)
{
	memset(prim_buf, 0, sizeof(prim_buf));
	memset(&prim_msg, 0, sizeof(prim_msg));
	prim_msg.l1h = prim_buf;
	return &prim_msg;
}
int l1sched_prim_to_user(struct l1sched_state *sched, struct msgb *msg) { return 0; }
void logp2(int subsys, unsigned int level, const char *file, int line, int cont, const char *format, ...) { }
struct msgb *msgb_dequeue(struct llist_head *queue) { return NULL; }
void msgb_free(struct msgb *m) { }
const char *msgb_hexdump_l2(const struct msgb *msg) { return ""; }
void osmo_a5(int n, const uint8_t *key, uint32_t fn, ubit_t *dl, ubit_t *ul) { abort(); }

int main(void)
{
	const struct l1sched_cfg cfg = { .log_prefix = "c11: " };
	struct l1sched_state *sched = l1sched_alloc(NULL, &cfg, NULL);
	long c, tn;
	if (!sched) { printf("ALLOC-FAILED\n"); return 2; }
	while (scanf("%ld %ld", &c, &tn) == 2) {
		int rc, type;
		if (tn < 0 || tn > 7) { printf("-998\n"); continue; }
		rc = l1sched_configure_ts(sched, (int)tn, (enum gsm_phys_chan_config)c);
		printf("%d", rc);
		if (rc == 0 && sched->ts[tn] != NULL)
			for (type = 0; type < _L1SCHED_CHAN_MAX; type++)
				if (l1sched_find_lchan_by_type(sched->ts[tn], type) != NULL)
					printf(" %d", type);
		printf("\n");
	}
	return 0;
}
