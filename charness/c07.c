/* C07 harness: the real firmware rfch.c is #included so that the static rn_table and
 * rfch_hop_seq_gen are reached through the public entry point rfch_get_params(). */
#include <stdio.h>
#include <string.h>
#include <stdint.h>
#include "rfch.c"

struct l1s_state l1s;

int main(int argc, char **argv)
{
	char op[32];
	if (argc > 1 && !strcmp(argv[1], "table")) {
		unsigned i;
		printf("%u\n", (unsigned)(sizeof(rn_table) / sizeof(rn_table[0])));
		for (i = 0; i < sizeof(rn_table) / sizeof(rn_table[0]); i++) printf("%u ", rn_table[i]);
		printf("\n%u\n", (unsigned)(sizeof(l1s.dedicated.h1.ma) / sizeof(l1s.dedicated.h1.ma[0])));
		return 0;
	}
	if (argc > 1 && !strcmp(argv[1], "sweep")) {
		/* complete reduced domain (x = HSN xor T1R, T2, T3, N) against the 45.002 formula, MAIO fixed by argument */
		unsigned x, t2, t3, n, maio = argc > 2 ? atoi(argv[2]) : 0; unsigned long cnt = 0;
		memset(&l1s, 0, sizeof(l1s));
		l1s.dedicated.type = GSM_DCHAN_SDCCH_8; l1s.dedicated.h = 1;
		for (n = 0; n < 64; n++) l1s.dedicated.h1.ma[n] = n;
		for (n = 1; n <= 64; n++) for (x = 0; x < 64; x++) for (t2 = 0; t2 < 26; t2++) for (t3 = 0; t3 < 51; t3++) {
			/* hsn = 1..63 with t1 chosen so that hsn ^ (t1&63) = x : take hsn = 63, t1 = x ^ 63 */
			struct gsm_time t; uint16_t arfcn = 0xffff;
			unsigned nbin = 0, nn = n, M, Mp, Tp, S, mai;
			t.t1 = x ^ 63; t.t2 = t2; t.t3 = t3; t.tc = 0; t.fn = 0;
			l1s.dedicated.h1.hsn = 63; l1s.dedicated.h1.maio = maio; l1s.dedicated.h1.n = n;
			rfch_get_params(&t, &arfcn, NULL, NULL);
			while (nn) { nbin++; nn >>= 1; }
			M = t2 + rn_table[x + t3]; Mp = M % (1u << nbin); Tp = t3 % (1u << nbin);
			S = Mp < n ? Mp : (Mp + Tp) % n; mai = (S + maio) % n;
			if (arfcn != mai) { printf("BAD %u %u %u %u %u got %u want %u\n", x, t2, t3, n, maio, arfcn, mai); return 0; }
			cnt++;
		}
		printf("OK %lu\n", cnt);
		return 0;
	}
	/* line mode: "hsn maio fn n ma0 .. ma(n-1)" -> arfcn */
	for (;;) {
		unsigned hsn, maio, fn, n, i, v; struct gsm_time t; uint16_t arfcn = 0xffff;
		if (scanf("%u %u %u %u", &hsn, &maio, &fn, &n) != 4) break;
		memset(&l1s, 0, sizeof(l1s));
		l1s.dedicated.type = GSM_DCHAN_SDCCH_8; l1s.dedicated.h = 1;
		l1s.dedicated.h1.hsn = hsn; l1s.dedicated.h1.maio = maio; l1s.dedicated.h1.n = n;
		for (i = 0; i < n; i++) { scanf("%u", &v); if (i < 64) l1s.dedicated.h1.ma[i] = v; }
		gsm_fn2gsmtime(&t, fn);
		rfch_get_params(&t, &arfcn, NULL, NULL);
		printf("%u\n", arfcn);
	}
	return 0;
}
