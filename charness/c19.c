/* C19 harness: real gsm_utils.c (linked) + l1s_time_inc extracted textually from firmware sync.c */
#include <stdio.h>
#include <string.h>
#include <stdint.h>
#include <osmocom/gsm/gsm_utils.h>
#include "l1s_time_inc.inc"

static int same(struct gsm_time *a, struct gsm_time *b)
{ return a->fn == b->fn && a->t1 == b->t1 && a->t2 == b->t2 && a->t3 == b->t3 && a->tc == b->tc; }

int main(int argc, char **argv)
{
	char op[32];
	if (argc > 1 && !strcmp(argv[1], "const")) { printf("%u\n", (unsigned)GSM_MAX_FN); return 0; }
	if (argc > 1 && !strcmp(argv[1], "walk")) {
		/* implementation-level oracle over the complete hyperframe:
		 * round trip, arithmetic decomposition, delta=1 walk, listed deltas */
		static const uint32_t deltas[] = { 2, 3, 25, 26, 27, 50, 51, 52, 60, 1325, 1326, 2715647 };
		struct gsm_time run, t, u; uint32_t fn; unsigned i; unsigned long n = 0;
		gsm_fn2gsmtime(&run, 0);
		for (fn = 0; fn < 2715648; fn++) {
			gsm_fn2gsmtime(&t, fn);
			if (t.t1 != fn / 1326 || t.t2 != fn % 26 || t.t3 != fn % 51 || t.tc != (fn / 51) % 8) { printf("BAD decomp %u\n", fn); return 0; }
			if (gsm_gsmtime2fn(&t) != fn) { printf("BAD roundtrip %u\n", fn); return 0; }
			if (!same(&run, &t)) { printf("BAD walk %u\n", fn); return 0; }
			l1s_time_inc(&run, 1);
			if (fn % 97 == 0 || fn > 2715648 - 64 || fn % 1326 > 1320) for (i = 0; i < sizeof(deltas)/sizeof(deltas[0]); i++) {
				u = t; l1s_time_inc(&u, deltas[i]);
				struct gsm_time w; gsm_fn2gsmtime(&w, (fn + deltas[i]) % 2715648);
				if (!same(&u, &w)) { printf("BAD delta %u %u\n", fn, deltas[i]); return 0; }
				n++;
			}
		}
		gsm_fn2gsmtime(&t, 0);
		if (!same(&run, &t)) { printf("BAD wrap\n"); return 0; }
		printf("OK %lu\n", n + 2715648UL);
		return 0;
	}
	while (scanf("%31s", op) == 1) {
		struct gsm_time t; unsigned a, b, c, d, e, f;
		if (!strcmp(op, "w_c19_fn2gt")) {
			scanf("%u", &a); gsm_fn2gsmtime(&t, a);
			printf("%u %u %u %u %u\n", t.fn, t.t1, t.t2, t.t3, t.tc);
		} else if (!strcmp(op, "w_c19_gt2fn")) {
			scanf("%u %u %u", &a, &b, &c); memset(&t, 0, sizeof(t)); t.t1 = a; t.t2 = b; t.t3 = c;
			printf("%u\n", gsm_gsmtime2fn(&t));
		} else if (!strcmp(op, "w_c19_inc")) {
			scanf("%u %u %u %u %u %u", &a, &b, &c, &d, &e, &f);
			t.fn = a; t.t1 = b; t.t2 = c; t.t3 = d; t.tc = e; l1s_time_inc(&t, f);
			printf("%u %u %u %u %u\n", t.fn, t.t1, t.t2, t.t3, t.tc);
		} else { printf("!unknown\n"); }
	}
	return 0;
}
