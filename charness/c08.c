/* C08 harness: the real firmware layer1/tdma_sched.c and layer1/sched_gsmtime.c (#included, so statics are reachable), harness-owned l1s.
 *
 *   c08 const            -> dump of the constants / field widths as compiled (-> Gen/FwSchedConst.v, Gen/FwGsmtimeConst.v)
 *   c08 [<] lines        -> one history per input line (flat ints, the same encoding Model/TdmaSched.v w_c08_run decodes):
 *        cur  { 1 off cb p1 p2 p3 prio | 2 off p3 n (cb p1 p2 p3 prio){n} | 3 | 4 | 5 }*
 *        1 = tdma_schedule, 2 = tdma_schedule_set (array of n items, markers included), 3 = advance, 4 = execute, 5 = reset
 *      one output line per history:
 *        schedule/set -> return value; advance -> cur_bucket afterwards; execute -> ret nlog (cb p1 p2 p3){nlog};
 *        reset -> number of items stored afterwards; then 7777 cur { num_items (cb p1 p2 p3 prio)* }{NUM_FRAMES}
 *      -999 malformed line; -998 = tdma_sched_execute reached a stored NULL callback (the call would jump to 0: a stand-in records it, history ends);
 *      -997 = set array without SCHED_END_SET (the loop would read past the array: not executed, history ends).
 * callback ids: 0 = NULL (SCHED_END_FRAME), 1 = &tdma_end_set, 2..11 loggers returning 0, 12 logger returning p1,
 *               13 logger returning -1, 14 logger returning -(p1+1),
 *               15 SPAWN: logs itself, then calls the real tdma_schedule(p2, cbtab[2 + p1 % 8], p1, p2, p3, (int16_t)(p1 - 128)) from inside
 *                  tdma_sched_execute(), logs (-2 p2 child_cb rc) and returns 0 whatever rc was;
 *               16 RSPAWN: logs itself, calls tdma_sched_reset(), logs (-3 items_stored 0 0), then does what 15 does (prim_fbsb.c pattern).
 *   c08 v1 [<] lines     -> the same, callback ids 15 / 16 are rejected as malformed (what Model w_c08_run decodes; w_c08_runsp takes 0..16).
 *   c08 gsm [<] lines    -> additionally (Model/SchedGsmtime.v w_c08_gsm): 6 fn p3 n (cb p1 p2 p3 prio){n} = sched_gsmtime(array, fn, p3) -> return value
 *        (an array without SCHED_END_SET is rejected as malformed: the real code would read past it when the event fires);
 *        7 fn = sched_gsmtime_execute(fn) -> return value; 8 = sched_gsmtime_reset() -> number of nodes on inactive_evts.
 *        Before every history the two list heads and the event pool are put back to their static initial state and the REAL
 *        sched_gsmtime_init() is called once.  Final state: the TDMA part, then
 *        8888 nact (slot fn p3 n (cb p1 p2 p3 prio){n}){nact} ninact slot{ninact}  = both lists walked from head->next on. */
#include <stdio.h>
#include <stdlib.h>
#include <string.h>
#include <stdint.h>

#include <layer1/sync.h>
struct l1s_state l1s;

/* the firmware's console output ("bucket overflow", "Error %d during processing") must not mix with the observation stream */
static int c08_quiet_printf(const char *fmt, ...) { (void)fmt; return 0; }
static int c08_quiet_puts(const char *s) { (void)s; return 0; }
static int c08_quiet_putchar(int c) { return c; }
#define printf c08_quiet_printf
#define puts c08_quiet_puts
#undef putchar
#define putchar c08_quiet_putchar
#include C08_SOURCE
#include C08G_SOURCE
#undef printf
#undef puts
#undef putchar

#define NCBK 17
static int ncbk = NCBK;
#define MAXLOG 4096
static long lg[MAXLOG][4];
static int nlg;

static int logit(int id, long p1, long p2, long p3)
{
	if (nlg < MAXLOG) { lg[nlg][0] = id; lg[nlg][1] = p1; lg[nlg][2] = p2; lg[nlg][3] = p3; }
	nlg++;
	return 0;
}
#define LOGGER(n, rc) static int cb_##n(uint8_t p1, uint8_t p2, uint16_t p3) { logit(n, p1, p2, p3); return rc; }
LOGGER(2, 0) LOGGER(3, 0) LOGGER(4, 0) LOGGER(5, 0) LOGGER(6, 0) LOGGER(7, 0) LOGGER(8, 0) LOGGER(9, 0) LOGGER(10, 0) LOGGER(11, 0)
LOGGER(12, p1) LOGGER(13, -1) LOGGER(14, -((int)p1 + 1))

static tdma_sched_cb *cbtab[NCBK];
static int spawn(int id, uint8_t p1, uint8_t p2, uint16_t p3)
{
	int rc, child = 2 + p1 % 8;
	logit(id, p1, p2, p3);
	if (id == 16) {
		int b, tot = 0;
		tdma_sched_reset();
		for (b = 0; b < (int)ARRAY_SIZE(l1s.tdma_sched.bucket); b++) tot += l1s.tdma_sched.bucket[b].num_items;
		logit(-3, tot, 0, 0);
	}
	rc = tdma_schedule(p2, cbtab[child], p1, p2, p3, (int16_t)((int)p1 - 128));
	logit(-2, p2, child, rc);
	return 0;
}
static int cb_15(uint8_t p1, uint8_t p2, uint16_t p3) { return spawn(15, p1, p2, p3); }
static int cb_16(uint8_t p1, uint8_t p2, uint16_t p3) { return spawn(16, p1, p2, p3); }

static int null_called;
static int cb_null_trap(uint8_t p1, uint8_t p2, uint16_t p3) { null_called = 1; return -12345; }

static tdma_sched_cb *cbtab[NCBK] = { NULL, &tdma_end_set, cb_2, cb_3, cb_4, cb_5, cb_6, cb_7, cb_8, cb_9, cb_10, cb_11, cb_12, cb_13, cb_14, cb_15, cb_16 };

static int cb_id(tdma_sched_cb *f)
{
	int i;
	for (i = 0; i < NCBK; i++) if (cbtab[i] == f) return i;
	return -1;
}

static void dump_consts(void)
{
	struct tdma_sched_item it;
	struct tdma_sched_bucket bk;
	memset(&it, 0xff, sizeof(it));
	printf("TDMASCHED_NUM_FRAMES %d\n", (int)TDMASCHED_NUM_FRAMES);
	printf("TDMASCHED_NUM_CB %d\n", (int)TDMASCHED_NUM_CB);
	printf("NBUCKETS %d\n", (int)ARRAY_SIZE(l1s.tdma_sched.bucket));
	printf("NITEMS %d\n", (int)ARRAY_SIZE(bk.item));
	printf("CUR_BITS %d\n", (int)(8 * sizeof(l1s.tdma_sched.cur_bucket)));
	printf("NUM_ITEMS_BITS %d\n", (int)(8 * sizeof(bk.num_items)));
	printf("P1_BITS %d\n", (int)(8 * sizeof(it.p1)));
	printf("P2_BITS %d\n", (int)(8 * sizeof(it.p2)));
	printf("P3_BITS %d\n", (int)(8 * sizeof(it.p3)));
	printf("PRIO_BITS %d\n", (int)(8 * sizeof(it.prio)));
	printf("PRIO_SIGNED %d\n", it.prio < 0 ? 1 : 0);
	printf("P3_SIGNED %d\n", it.p3 < 0 ? 1 : 0);
	{
		struct sched_gsmtime_event ev;
		memset(&ev, 0xff, sizeof(ev));
		printf("GSMTIME_NEVENTS %d\n", (int)ARRAY_SIZE(sched_gsmtime_events));
		printf("SCHEDULE_AHEAD %d\n", (int)SCHEDULE_AHEAD);
		printf("SCHEDULE_LATENCY %d\n", (int)SCHEDULE_LATENCY);
		printf("EBUSY %d\n", (int)EBUSY);
		printf("GSM_MAX_FN %ld\n", (long)GSM_MAX_FN);
		printf("GSMTIME_FN_BITS %d\n", (int)(8 * sizeof(ev.fn)));
		printf("GSMTIME_FN_SIGNED %d\n", ev.fn < 0 ? 1 : 0);
		printf("GSMTIME_P3_BITS %d\n", (int)(8 * sizeof(ev.p3)));
	}
}

static int gsm_mode;
#define MAXARENA 4096
static struct tdma_sched_item *arena[MAXARENA];
static int arena_n[MAXARENA];
static int narena;

static void gsm_fresh(void)
{
	int k;
	for (k = 0; k < narena; k++) free(arena[k]);
	narena = 0;
	/* static initial state of sched_gsmtime.c, then its real init */
	INIT_LLIST_HEAD(&active_evts);
	INIT_LLIST_HEAD(&inactive_evts);
	memset(sched_gsmtime_events, 0, sizeof(sched_gsmtime_events));
	sched_gsmtime_init();
}

static void gsm_dump(void)
{
	struct llist_head *lh;
	int n = 0, guard = 0, k, j;
	llist_for_each(lh, &active_evts) if (++guard > 64) break;
	printf("8888 %d ", guard);
	guard = 0;
	llist_for_each(lh, &active_evts) {
		struct sched_gsmtime_event *e = llist_entry(lh, struct sched_gsmtime_event, list);
		if (++guard > 64) break;
		printf("%d %lu %u ", (int)(e - sched_gsmtime_events), (unsigned long)e->fn, e->p3);
		for (k = 0; k < narena; k++) if (arena[k] == e->si) break;
		if (k == narena) { printf("-1 "); continue; }
		printf("%d ", arena_n[k]);
		for (j = 0; j < arena_n[k]; j++) {
			const struct tdma_sched_item *t = &e->si[j];
			printf("%d %u %u %u %d ", cb_id(t->cb), t->p1, t->p2, t->p3, t->prio);
		}
	}
	guard = 0;
	llist_for_each(lh, &inactive_evts) if (++guard > 64) break;
	n = guard;
	printf("%d ", n);
	guard = 0;
	llist_for_each(lh, &inactive_evts) {
		struct sched_gsmtime_event *e = llist_entry(lh, struct sched_gsmtime_event, list);
		if (++guard > 64) break;
		printf("%d ", (int)(e - sched_gsmtime_events));
	}
}

#define MAXTOK 20000
static long tok[MAXTOK];
static char line[400000];

static void run_line(int n)
{
	int i = 0, k, b;
	struct tdma_sched_item set[80];
	memset(&l1s, 0, sizeof(l1s));
	if (n < 1 || tok[0] < 0 || tok[0] >= (long)ARRAY_SIZE(l1s.tdma_sched.bucket)) { printf("-999\n"); return; }
	/* validate the whole line first (the model rejects a malformed line as a whole) */
	for (i = 1; i < n; ) {
		long c = tok[i];
		if (c == 1) { if (i + 7 > n || tok[i + 2] < 0 || tok[i + 2] >= ncbk) { printf("-999\n"); return; } i += 7; }
		else if (c == 2) {
			long cnt;
			if (i + 4 > n) { printf("-999\n"); return; }
			cnt = tok[i + 3];
			if (cnt < 0 || cnt > 64 || i + 4 + 5 * cnt > n) { printf("-999\n"); return; }
			for (k = 0; k < cnt; k++) if (tok[i + 4 + 5 * k] < 0 || tok[i + 4 + 5 * k] >= ncbk) { printf("-999\n"); return; }
			i += 4 + 5 * cnt;
		} else if (c == 3 || c == 4 || c == 5) i++;
		else if (gsm_mode && c == 6) {
			long cnt;
			int term = 0;
			if (i + 4 > n) { printf("-999\n"); return; }
			cnt = tok[i + 3];
			if (cnt < 0 || cnt > 64 || i + 4 + 5 * cnt > n) { printf("-999\n"); return; }
			for (k = 0; k < cnt; k++) {
				if (tok[i + 4 + 5 * k] < 0 || tok[i + 4 + 5 * k] >= ncbk) { printf("-999\n"); return; }
				if (tok[i + 4 + 5 * k] == 1) term = 1;
			}
			if (!term) { printf("-999\n"); return; }
			i += 4 + 5 * cnt;
		} else if (gsm_mode && c == 7) { if (i + 2 > n) { printf("-999\n"); return; } i += 2; }
		else if (gsm_mode && c == 8) i++;
		else { printf("-999\n"); return; }
	}
	l1s.tdma_sched.cur_bucket = tok[0];
	if (gsm_mode) gsm_fresh();
	for (i = 1; i < n; ) {
		long c = tok[i];
		if (c == 6) {
			long cnt = tok[i + 3];
			struct tdma_sched_item *a;
			int rc;
			if (narena >= MAXARENA) { printf("-999\n"); return; }
			a = malloc(sizeof(*a) * (cnt ? cnt : 1));       /* exact size: ASan sees any read past the array */
			for (k = 0; k < cnt; k++) {
				const long *t = &tok[i + 4 + 5 * k];
				memset(&a[k], 0, sizeof(a[k]));
				a[k].cb = cbtab[t[0]]; a[k].p1 = t[1]; a[k].p2 = t[2]; a[k].p3 = t[3]; a[k].prio = t[4];
			}
			arena[narena] = a; arena_n[narena] = cnt; narena++;
			rc = sched_gsmtime(a, (uint32_t)tok[i + 1], (uint16_t)tok[i + 2]);
			printf("%d ", rc);
			i += 4 + 5 * cnt;
			continue;
		}
		if (c == 7) {
			int rc = sched_gsmtime_execute((uint32_t)tok[i + 1]);
			printf("%d ", rc);
			i += 2;
			continue;
		}
		if (c == 8) {
			struct llist_head *lh;
			int cnt = 0;
			sched_gsmtime_reset();
			llist_for_each(lh, &inactive_evts) if (++cnt > 64) break;
			printf("%d ", cnt);
			i++;
			continue;
		}
		if (c == 1) {
			int rc = tdma_schedule((uint8_t)tok[i + 1], cbtab[tok[i + 2]], (uint8_t)tok[i + 3], (uint8_t)tok[i + 4],
					       (uint16_t)tok[i + 5], (int16_t)tok[i + 6]);
			printf("%d ", rc);
			i += 7;
		} else if (c == 2) {
			long cnt = tok[i + 3];
			int rc, terminated = 0;
			for (k = 0; k < cnt; k++) {
				const long *t = &tok[i + 4 + 5 * k];
				memset(&set[k], 0, sizeof(set[k]));
				set[k].cb = cbtab[t[0]]; set[k].p1 = t[1]; set[k].p2 = t[2]; set[k].p3 = t[3]; set[k].prio = t[4];
				if (t[0] == 1) terminated = 1;
			}
			/* an overflow return may precede the missing terminator: decide like the code would, by dry run on the markers */
			if (!terminated) {
				/* would the loop return -1 before running off the array?  replay on a copy */
				struct tdma_scheduler save = l1s.tdma_sched;
				struct tdma_sched_item set2[81];
				memcpy(set2, set, sizeof(set[0]) * cnt);
				memset(&set2[cnt], 0, sizeof(set2[0]));
				set2[cnt].cb = &tdma_end_set; set2[cnt].p1 = 0xEE; /* sentinel */
				rc = tdma_schedule_set((uint8_t)tok[i + 1], set2, (uint16_t)tok[i + 2]);
				if (rc >= 0) { /* reached the sentinel: the real call would have read past the array */
					l1s.tdma_sched = save;
					printf("-997\n");
					return;
				}
				printf("%d ", rc);
			} else {
				rc = tdma_schedule_set((uint8_t)tok[i + 1], set, (uint16_t)tok[i + 2]);
				printf("%d ", rc);
			}
			i += 4 + 5 * cnt;
		} else if (c == 3) {
			tdma_sched_advance();
			printf("%u ", l1s.tdma_sched.cur_bucket);
			i++;
		} else if (c == 4) {
			struct tdma_sched_bucket *bk = &l1s.tdma_sched.bucket[l1s.tdma_sched.cur_bucket];
			int rc;
			/* a stored NULL callback would be called through: stand-in that records the fact and stops the loop
			 * (negative result); pointers are put back afterwards (a failing callback may end the loop earlier) */
			for (k = 0; k < bk->num_items && k < (int)ARRAY_SIZE(bk->item); k++) if (bk->item[k].cb == NULL) bk->item[k].cb = cb_null_trap;
			nlg = 0; null_called = 0;
			rc = tdma_sched_execute();
			for (k = 0; k < (int)ARRAY_SIZE(bk->item); k++) if (bk->item[k].cb == cb_null_trap) bk->item[k].cb = NULL;
			if (null_called) { printf("-998\n"); return; }
			printf("%d %d ", rc, nlg);
			for (k = 0; k < nlg && k < MAXLOG; k++) printf("%ld %ld %ld %ld ", lg[k][0], lg[k][1], lg[k][2], lg[k][3]);
			i++;
		} else {
			int tot = 0;
			tdma_sched_reset();
			for (b = 0; b < (int)ARRAY_SIZE(l1s.tdma_sched.bucket); b++) tot += l1s.tdma_sched.bucket[b].num_items;
			printf("%d ", tot);
			i++;
		}
	}
	printf("7777 %u ", l1s.tdma_sched.cur_bucket);
	for (b = 0; b < (int)ARRAY_SIZE(l1s.tdma_sched.bucket); b++) {
		struct tdma_sched_bucket *bk = &l1s.tdma_sched.bucket[b];
		printf("%u ", bk->num_items);
		for (k = 0; k < bk->num_items; k++)
			printf("%d %u %u %u %d ", cb_id(bk->item[k].cb), bk->item[k].p1, bk->item[k].p2, bk->item[k].p3, bk->item[k].prio);
	}
	if (gsm_mode) gsm_dump();
	printf("\n");
}

int main(int argc, char **argv)
{
	if (argc > 1 && !strcmp(argv[1], "const")) { dump_consts(); return 0; }
	if (argc > 1 && !strcmp(argv[1], "v1")) ncbk = 15;
	if (argc > 1 && !strcmp(argv[1], "gsm")) gsm_mode = 1;
	setvbuf(stdout, NULL, _IOFBF, 1 << 16);
	while (fgets(line, sizeof(line), stdin)) {
		int n = 0;
		char *p = line, *e;
		for (;;) {
			long v = strtol(p, &e, 10);
			if (e == p) break;
			if (n < MAXTOK) tok[n] = v;
			n++;
			p = e;
		}
		if (n >= MAXTOK) { printf("-999\n"); continue; }
		fflush(stdout);
		run_line(n);
	}
	return 0;
}
