/* C06 harness: the real sercomm.c (#include'd, so that the static state can be reset between scripts),
 * linked with the vendored msgb.c + talloc.c.  HOST_BUILD, ASan + UBSan.
 *
 *   c06 const            dump the constants Gen/SercommConst.v is made of (as compiled)
 *   c06                  read lines "w_c06_script <int> <int> ..." and print one observation line per script
 *
 * script (flat ints):   1 d n b1..bn   sercomm_sendmsg(d, msgb with that payload from sercomm_alloc_msgb(n))
 *                       2 k            k x sercomm_drv_pull
 *                       3 n b1..bn     n x sercomm_drv_rx_char
 *                       4 d            sercomm_register_rx_cb(d, recording callback)
 *                       5 k            k x (pull; if an octet came out, feed it to sercomm_drv_rx_char)
 * observation events:   1 ch           pull returned 1 with octet ch          0   pull returned 0
 *                       2 d n b1..bn   recording callback got (d, msgb)       3   rx_char returned 0
 *                       4 code         register_rx_cb returned -code          9   panic (MSGB_ABORT)
 * every script starts from memset(0) + sercomm_init(), like the firmware / osmocon do.
 */
#include <stdio.h>
#include <stdlib.h>
#include <string.h>
#include <unistd.h>
#include <stdint.h>

#include "sercomm.c"

static void put_int(long v) { printf(" %ld", v); }

/* ---- driver glue of osmocon: the REAL text of handle_sercomm_write() (src/host/osmocon/osmocon.c), extracted by
 * vp/props/C06.py on every run into c06_handle_sercomm_write.inc.  Stand-ins: dnload (only serial_fd.fd is used),
 * write() -> capture buffer, osmo_fd_write_disable() -> flag, perror() -> flag.
 *   c06 line "w_c06_drv <ints>":  1 d n b1..bn  sendmsg;   6 k  k calls of handle_sercomm_write;
 *                                 7  calls until write polling is disabled
 *   observation per call:         7 end count b1..bcount   (end = osmo_fd_write_disable was called) */
static struct { struct { int fd; unsigned int when; } serial_fd; } dnload;
static uint8_t drv_cap[8192];
static size_t drv_cap_n;
static int drv_disabled, drv_writes, drv_perrors;

static long drv_write(int fd, const void *buf, size_t n)
{
	(void)fd;
	drv_writes++;
	if (drv_cap_n + n > sizeof(drv_cap))
		n = sizeof(drv_cap) - drv_cap_n;
	memcpy(drv_cap + drv_cap_n, buf, n);
	drv_cap_n += n;
	return (long)n;
}
static void drv_perror(const char *s) { (void)s; drv_perrors++; }
static void osmo_fd_write_disable(void *ofd) { (void)ofd; drv_disabled++; }

#define write(fd, buf, n) drv_write(fd, buf, n)
#define perror(s) drv_perror(s)
#include "c06_handle_sercomm_write.inc"
#undef write
#undef perror

/* one call, observed */
static int drv_call(void)
{
	size_t i;
	drv_cap_n = 0; drv_disabled = 0; drv_writes = 0; drv_perrors = 0;
	handle_sercomm_write();
	put_int(7); put_int(drv_disabled ? 1 : 0); put_int((long)drv_cap_n);
	for (i = 0; i < drv_cap_n; i++)
		put_int(drv_cap[i]);
	if (drv_writes > 1 || drv_perrors)
		put_int(-996);
	return drv_disabled;
}

static void rec_cb(uint8_t dlci, struct msgb *msg)
{
	unsigned i;
	put_int(2); put_int(dlci); put_int(msg->len);
	for (i = 0; i < msg->len; i++)
		put_int(msg->data[i]);
	msgb_free(msg);
}

static void reset_all(void)
{
	unsigned i;
	struct msgb *m;
	if (sercomm.initialized) {
		for (i = 0; i < ARRAY_SIZE(sercomm.tx.dlci_queues); i++)
			while ((m = msgb_dequeue(&sercomm.tx.dlci_queues[i])))
				msgb_free(m);
		if (sercomm.tx.msg)
			msgb_free(sercomm.tx.msg);
		if (sercomm.rx.msg)
			msgb_free(sercomm.rx.msg);
	}
	memset(&sercomm, 0, sizeof(sercomm));
	sercomm_init();
}

static void feed(uint8_t ch)
{
	if (sercomm_drv_rx_char(ch) == 0)
		put_int(3);
}

static int pull1(void)
{
	uint8_t ch = 0xAA;
	int rc = sercomm_drv_pull(&ch);
	if (rc == 0) { put_int(0); return -1; }
	put_int(1); put_int(ch);
	return ch;
}

static long *parse(char *s, size_t *n)
{
	size_t cap = 1024, k = 0;
	long *v = malloc(cap * sizeof(long));
	char *e;
	for (;;) {
		long x = strtol(s, &e, 10);
		if (e == s)
			break;
		if (k == cap) { cap *= 2; v = realloc(v, cap * sizeof(long)); }
		v[k++] = x;
		s = e;
	}
	*n = k;
	return v;
}

static void run_drv(const long *a, size_t n)
{
	size_t i = 0;
	reset_all();
	while (i < n) {
		long op = a[i++];
		if (op == 1 && i + 2 <= n && a[i + 1] >= 0 && i + 2 + (size_t)a[i + 1] <= n) {
			long d = a[i], len = a[i + 1], k;
			struct msgb *m;
			i += 2;
			for (k = 0; k < len; k++)
				if (a[i + k] < 0 || a[i + k] > 255) { printf(" -999"); return; }
			if (d < 0 || d >= (long)ARRAY_SIZE(sercomm.tx.dlci_queues)) { printf(" -998"); return; }
			m = sercomm_alloc_msgb(len);
			for (k = 0; k < len; k++)
				*msgb_put(m, 1) = (uint8_t)a[i + k];
			i += len;
			sercomm_sendmsg((uint8_t)d, m);
		} else if (op == 6 && i + 1 <= n && a[i] >= 0 && a[i] <= 64) {
			long k = a[i++];
			while (k-- > 0)
				drv_call();
		} else if (op == 7) {
			long guard = 100000;
			while (!drv_call())
				if (--guard == 0) { put_int(-997); return; }
		} else {
			printf(" -999"); return;
		}
	}
}

static void run_script(const long *a, size_t n)
{
	size_t i = 0;
	reset_all();
	while (i < n) {
		long op = a[i++];
		if (op == 1 && i + 2 <= n && a[i + 1] >= 0 && i + 2 + (size_t)a[i + 1] <= n) {
			long d = a[i], len = a[i + 1], k;
			struct msgb *m;
			i += 2;
			if (d < 0 || d >= (long)ARRAY_SIZE(sercomm.tx.dlci_queues)) {
				/* would index dlci_queues[] out of bounds: never executed, scripts do not contain it */
				printf(" -998"); return;
			}
			m = sercomm_alloc_msgb(len);
			for (k = 0; k < len; k++)
				*msgb_put(m, 1) = (uint8_t)a[i + k];
			i += len;
			sercomm_sendmsg((uint8_t)d, m);
		} else if (op == 2 && i + 1 <= n) {
			long k = a[i++];
			while (k-- > 0)
				pull1();
		} else if (op == 3 && i + 1 <= n && a[i] >= 0 && i + 1 + (size_t)a[i] <= n) {
			long len = a[i++], k;
			for (k = 0; k < len; k++)
				feed((uint8_t)a[i + k]);
			i += len;
		} else if (op == 4 && i + 1 <= n) {
			int rc = sercomm_register_rx_cb((uint8_t)a[i++], rec_cb);
			put_int(4); put_int(-rc);
		} else if (op == 5 && i + 1 <= n) {
			long k = a[i++];
			while (k-- > 0) {
				int c = pull1();
				if (c >= 0)
					feed((uint8_t)c);
			}
		} else {
			printf(" -999"); return;
		}
	}
}

int main(int argc, char **argv)
{
	char *line = NULL;
	size_t cap = 0;
	if (argc > 1 && !strcmp(argv[1], "const")) {
		struct msgb *m = sercomm_alloc_msgb(SERCOMM_RX_MSG_SIZE);
		printf("HDLC_FLAG %d\nHDLC_ESCAPE %d\nHDLC_C_UI %d\n", HDLC_FLAG, HDLC_ESCAPE, HDLC_C_UI);
		printf("SERCOMM_RX_MSG_SIZE %d\n_SC_DLCI_MAX %d\nSC_DLCI_ECHO %d\n", SERCOMM_RX_MSG_SIZE, _SC_DLCI_MAX, SC_DLCI_ECHO);
		printf("SC_DLCI_HIGHEST %d\nSC_DLCI_DEBUG %d\nSC_DLCI_L1A_L23 %d\nSC_DLCI_LOADER %d\nSC_DLCI_CONSOLE %d\n",
		       SC_DLCI_HIGHEST, SC_DLCI_DEBUG, SC_DLCI_L1A_L23, SC_DLCI_LOADER, SC_DLCI_CONSOLE);
		printf("n_tx_queues %d\nn_rx_handlers %d\n", (int)ARRAY_SIZE(sercomm.tx.dlci_queues), (int)ARRAY_SIZE(sercomm.rx.dlci_handler));
		printf("rx_tailroom %d\nrx_headroom %d\n", msgb_tailroom(m), msgb_headroom(m));
		msgb_free(m);
		return 0;
	}
	while (getline(&line, &cap, stdin) > 0) {
		char *s = line;
		size_t n;
		long *a;
		while (*s == ' ') s++;
		if (!strncmp(s, "w_c06_drv", 9)) {
			a = parse(s + 9, &n);
			run_drv(a, n);
			free(a);
			printf("\n");
			fflush(stdout);
			continue;
		}
		if (strncmp(s, "w_c06_script", 12)) { printf("!unknown\n"); continue; }
		a = parse(s + 12, &n);
		run_script(a, n);
		free(a);
		printf("\n");
		fflush(stdout);
	}
	reset_all();
	return 0;
}
