/* trx_if.c harness (C04 C05 C14): the real trxcon transceiver interface, #include-d so that the static socket
 * call-backs and command printers are reachable.  TRXD / TRXC datagrams go through real file descriptors
 * (AF_UNIX SOCK_DGRAM socketpairs created by the harness' osmo_sock_init2_ofd).
 *
 * Line protocol (stdin, decimal ints; an optional leading token F runs the line in a forked child so that a
 * sanitizer abort / SEGV is attributed to exactly that line: the parent then prints "CRASH <status> <summary>"):
 *   rx  <fn_advance> <n> <octets..>                       one TRXD datagram into trx_data_rx_cb
 *        -> rc called [tn fn rssi toa256 burst_len sbits..  rts_called rts_fn rts_tn]
 *   tx  <tn> <fn> <pwr> <burst_len> <ubits..>              trx_if_handle_phyif_burst_req
 *        -> rc nsent { len octets.. }
 *   cmd <type> <params..>                                  trx_if_handle_phyif_cmd (types as enum trxcon_phyif_cmd_type;
 *        3 MEASURE arfcn | 4 SETFREQ_H0 arfcn | 5 SETFREQ_H1 hsn maio n arfcn.. (n = 0: ma = NULL) | 6 SETSLOT tn pchan | 7 SETTA ta)
 *        -> rc nq { critical cmd_len strlen chars.. } nsent { len octets.. }
 *   rsp <nsteps> { <has_pending> <critical> <plen> <pchars..> <dlen> <doctets..> }*
 *        every step: the command queue is set to exactly the given pending command (or emptied), state RSP_WAIT,
 *        prev_state OFFLINE, powered_up true; the datagram is written to the TRXC socket and trx_ctrl_read_cb runs.
 *        All steps of a line run back to back in the same process (same stack), nothing is printed in between.
 *        -> per step: rc term_cause powered_up state queue_len timer_del f2a_called f2a_arg rsp_called arfcn dbm
 *   const                                                  -> the constants as compiled
 */
#include <stdio.h>
#include <stdlib.h>
#include <string.h>
#include <errno.h>
#include <unistd.h>
#include <signal.h>
#include <sys/types.h>
#include <sys/socket.h>
#include <sys/wait.h>

#include TRX_IF_C

/* ------------------------------------------------------------------ recorded environment */
static int peer_fd[2] = { -1, -1 };	/* harness ends of the socketpairs: 0 = TRXC, 1 = TRXD */
static int n_sock;
static struct {
	int term_cause, n_term, n_state_chg, last_state, timer_del, timer_sched;
	int bi_called; struct trxcon_phyif_burst_ind bi; int8_t bits[1024];
	int rts_called; struct trxcon_phyif_rts_ind rts;
	int rsp_called; struct trxcon_phyif_rsp rsp;
	int f2a_called; unsigned f2a_arg;
} R;
static struct osmo_fsm_inst *live_fi;
static struct trx_instance *trx;

int osmo_sock_init2_ofd(struct osmo_fd *ofd, int family, int type, int proto,
			const char *local_host, uint16_t local_port,
			const char *remote_host, uint16_t remote_port, unsigned int flags)
{
	int sv[2];
	if (socketpair(AF_UNIX, SOCK_DGRAM, 0, sv) < 0)
		return -1;
	ofd->fd = sv[0];
	peer_fd[n_sock++ & 1] = sv[1];
	return sv[0];
}
void osmo_fd_unregister(struct osmo_fd *fd) { }
void osmo_timer_schedule(struct osmo_timer_list *t, int s, int us) { R.timer_sched++; }
void osmo_timer_del(struct osmo_timer_list *t) { R.timer_del++; }

int osmo_fsm_register(struct osmo_fsm *fsm) { return 0; }
struct osmo_fsm_inst *osmo_fsm_inst_alloc_child(struct osmo_fsm *fsm, struct osmo_fsm_inst *parent, uint32_t ev)
{
	struct osmo_fsm_inst *fi = talloc_zero(NULL, struct osmo_fsm_inst);
	fi->fsm = fsm;
	live_fi = fi;
	return fi;
}
void osmo_fsm_inst_free(struct osmo_fsm_inst *fi) { if (fi == live_fi) live_fi = NULL; talloc_free(fi); }
int osmo_fsm_inst_state_chg(struct osmo_fsm_inst *fi, uint32_t new_state, unsigned long t, int T)
{
	R.n_state_chg++; R.last_state = new_state; fi->state = new_state;
	return 0;
}
/* like the real one: run the FSM's cleanup call-back (which frees the trx_instance), then free the instance */
void osmo_fsm_inst_term(struct osmo_fsm_inst *fi, enum osmo_fsm_term_cause cause, void *data)
{
	R.n_term++; R.term_cause = cause;
	if (fi->fsm->cleanup)
		fi->fsm->cleanup(fi, cause);
	osmo_fsm_inst_free(fi);
	trx = NULL;
}

int trxcon_phyif_handle_burst_ind(void *priv, const struct trxcon_phyif_burst_ind *bi)
{
	R.bi_called++; R.bi = *bi;
	/* read every soft bit the indication claims to carry (ASan checks the extent) */
	for (unsigned i = 0; i < bi->burst_len && i < sizeof(R.bits); i++)
		R.bits[i] = bi->burst[i];
	return 0;
}
int trxcon_phyif_handle_rts_ind(void *priv, const struct trxcon_phyif_rts_ind *rts)
{ R.rts_called++; R.rts = *rts; return 0; }
int trxcon_phyif_handle_rsp(void *priv, const struct trxcon_phyif_rsp *rsp)
{ R.rsp_called++; R.rsp = *rsp; return 0; }

/* upstream libosmocore gsm_utils.c:gsm_freq102arfcn (absent from the vendored copy) */
uint16_t gsm_freq102arfcn(uint16_t freq10, int uplink)
{
	uint16_t arfcn;
	R.f2a_called++; R.f2a_arg = freq10;
	for (arfcn = 0; arfcn < 1024; arfcn++)
		if (gsm_arfcn2freq10(arfcn, uplink) == freq10)
			return arfcn;
	for (arfcn = 512; arfcn <= 810; arfcn++)
		if (gsm_arfcn2freq10(arfcn | ARFCN_PCS, uplink) == freq10)
			return arfcn | ARFCN_PCS;
	return 0xffff;
}

/* ------------------------------------------------------------------ helpers */
static void open_trx(uint32_t fn_advance)
{
	struct trx_if_params par;
	memset(&par, 0, sizeof(par));
	par.local_host = "0.0.0.0"; par.remote_host = "127.0.0.1"; par.base_port = 6700;
	par.fn_advance = fn_advance;
	for (int i = 0; i < 2; i++)
		if (peer_fd[i] >= 0) { close(peer_fd[i]); peer_fd[i] = -1; }
	n_sock = 0;
	trx = trx_if_open(&par);
	if (!trx) { fprintf(stderr, "trx_if_open failed\n"); exit(3); }
}
static void need_trx(uint32_t fn_advance)
{
	if (!trx)
		open_trx(fn_advance);
	trx->fn_advance = fn_advance;
}
static void flush_queue(void)
{
	struct trx_ctrl_msg *tcm;
	while (!llist_empty(&trx->trx_ctrl_list)) {
		tcm = llist_entry(trx->trx_ctrl_list.next, struct trx_ctrl_msg, list);
		llist_del(&tcm->list);
		talloc_free(tcm);
	}
}
static int queue_len(void)
{
	struct llist_head *p; int n = 0;
	if (!trx) return -1;
	llist_for_each(p, &trx->trx_ctrl_list) n++;
	return n;
}
static int drain(int fd, uint8_t out[][2048], int lens[], int max)
{
	int n = 0;
	while (n < max) {
		ssize_t r = recv(fd, out[n], 2048, MSG_DONTWAIT);
		if (r < 0) break;
		lens[n++] = (int)r;
	}
	return n;
}
/* tokens of the current input line */
static char *cur;
static int rdint(long *v)
{
	char *e;
	*v = strtol(cur, &e, 10);
	if (e == cur) { *v = 0; return 0; }
	cur = e;
	return 1;
}

static uint8_t dg[8][2048]; static int dgl[8];

/* ------------------------------------------------------------------ operations */
static void op_rx(void)
{
	long adv, n, v; static uint8_t d[70000];
	rdint(&adv); rdint(&n);
	for (long i = 0; i < n; i++) { rdint(&v); if (i < (long)sizeof(d)) d[i] = (uint8_t)v; }
	need_trx((uint32_t)adv);
	memset(&R, 0, sizeof(R));
	if (send(peer_fd[1], d, n, 0) != n) { printf("!send-failed %d\n", errno); return; }
	int rc = trx_data_rx_cb(&trx->trx_ofd_data, 1);
	printf("%d %d", rc, R.bi_called);
	if (R.bi_called) {
		printf(" %u %u %d %d %u", R.bi.tn, R.bi.fn, R.bi.rssi, R.bi.toa256, R.bi.burst_len);
		for (unsigned i = 0; i < R.bi.burst_len && i < sizeof(R.bits); i++) printf(" %d", R.bits[i]);
		printf(" %d %u %u", R.rts_called, R.rts.fn, R.rts.tn);
	}
	printf("\n");
}

static void op_tx(void)
{
	long tn, fn, pwr, n, v;
	rdint(&tn); rdint(&fn); rdint(&pwr); rdint(&n);
	uint8_t *bits = malloc(n > 0 ? n : 1);	/* exact-size heap object: an over-read would be seen by ASan */
	for (long i = 0; i < n; i++) { rdint(&v); bits[i] = (uint8_t)v; }
	need_trx(0);
	struct trxcon_phyif_burst_req br = { .fn = (uint32_t)fn, .tn = (uint8_t)tn, .pwr = (uint8_t)pwr, .burst = bits, .burst_len = (unsigned)n };
	int rc = trx_if_handle_phyif_burst_req(trx, &br);
	int k = drain(peer_fd[1], dg, dgl, 8);
	printf("%d %d", rc, k);
	for (int j = 0; j < k; j++) { printf(" %d", dgl[j]); for (int i = 0; i < dgl[j]; i++) printf(" %u", dg[j][i]); }
	printf("\n");
	free(bits);
}

static void op_cmd(void)
{
	long type, a, b, n, v; static uint16_t ma[4096];
	struct trxcon_phyif_cmd cmd; memset(&cmd, 0, sizeof(cmd));
	rdint(&type); cmd.type = type;
	switch (type) {
	case 3: rdint(&a); cmd.param.measure.band_arfcn = a; break;
	case 4: rdint(&a); cmd.param.setfreq_h0.band_arfcn = a; break;
	case 5: rdint(&a); rdint(&b); rdint(&n);
		for (long i = 0; i < n; i++) { rdint(&v); if (i < 4096) ma[i] = v; }
		cmd.param.setfreq_h1.hsn = a; cmd.param.setfreq_h1.maio = b;
		cmd.param.setfreq_h1.ma = n ? ma : NULL; cmd.param.setfreq_h1.ma_len = n; break;
	case 6: rdint(&a); rdint(&b); cmd.param.setslot.tn = a; cmd.param.setslot.pchan = b; break;
	case 7: rdint(&a); cmd.param.setta.ta = a; break;
	default: break;
	}
	need_trx(0);
	flush_queue();
	drain(peer_fd[0], dg, dgl, 8);
	int rc = trx_if_handle_phyif_cmd(trx, &cmd);
	struct trx_ctrl_msg *tcm;
	printf("%d %d", rc, queue_len());
	llist_for_each_entry(tcm, &trx->trx_ctrl_list, list) {
		size_t l = strlen(tcm->cmd);
		printf(" %d %d %zu", tcm->critical, tcm->cmd_len, l);
		for (size_t i = 0; i < l; i++) printf(" %u", (unsigned char)tcm->cmd[i]);
	}
	int k = drain(peer_fd[0], dg, dgl, 8);
	printf(" %d", k);
	for (int j = 0; j < k; j++) { printf(" %d", dgl[j]); for (int i = 0; i < dgl[j]; i++) printf(" %u", dg[j][i]); }
	printf("\n");
	flush_queue();
}

#define MAXSTEPS 8
static struct step { int has, crit, plen, dlen; char p[TRXC_BUF_SIZE]; uint8_t d[4096];
	int rc, term, pu, state, ql, tdel, f2a, f2aarg, rspc, arfcn, dbm; } S[MAXSTEPS];

/* one response datagram against one pending command; deliberately shallow (no stdio) so that consecutive steps
 * see each other's stack remains exactly as consecutive socket call-backs in trxcon's select loop do */
static void run_step(struct step *s)
{
	need_trx(0);
	flush_queue();
	if (s->has) {
		struct trx_ctrl_msg *tcm = talloc_zero(trx, struct trx_ctrl_msg);
		memcpy(tcm->cmd, s->p, s->plen);
		tcm->critical = s->crit;
		llist_add_tail(&tcm->list, &trx->trx_ctrl_list);
	}
	trx->fi->state = TRX_STATE_RSP_WAIT;
	trx->prev_state = TRX_STATE_OFFLINE;
	trx->powered_up = true;
	memset(&R, 0, sizeof(R));
	R.term_cause = -1;
	send(peer_fd[0], s->d, s->dlen, 0);
	s->rc = trx_ctrl_read_cb(&trx->trx_ofd_ctrl, 1);
	s->term = R.term_cause;
	s->pu = trx ? trx->powered_up : -1;
	s->state = trx ? (int)trx->fi->state : -1;
	s->ql = queue_len();
	s->tdel = R.timer_del; s->f2a = R.f2a_called; s->f2aarg = R.f2a_arg;
	s->rspc = R.rsp_called; s->arfcn = R.rsp.param.measure.band_arfcn; s->dbm = R.rsp.param.measure.dbm;
}

static void op_rsp(void)
{
	long ns, v;
	rdint(&ns);
	for (long k = 0; k < ns; k++) {
		struct step *s = &S[k < MAXSTEPS ? k : MAXSTEPS - 1];
		memset(s, 0, sizeof(*s));
		rdint(&v); s->has = v; rdint(&v); s->crit = v; rdint(&v); s->plen = v;
		for (int i = 0; i < s->plen; i++) { rdint(&v); if (i < TRXC_BUF_SIZE - 1) s->p[i] = (char)v; }
		if (s->plen > TRXC_BUF_SIZE - 1) s->plen = TRXC_BUF_SIZE - 1;
		rdint(&v); s->dlen = v;
		for (int i = 0; i < s->dlen; i++) { rdint(&v); if (i < (int)sizeof(s->d)) s->d[i] = (uint8_t)v; }
		if (s->dlen > (int)sizeof(s->d)) s->dlen = sizeof(s->d);
	}
	if (ns > MAXSTEPS) ns = MAXSTEPS;
	for (long k = 0; k < ns; k++)
		run_step(&S[k]);
	for (long k = 0; k < ns; k++) {
		struct step *s = &S[k];
		printf("%s%d %d %d %d %d %d %d %d %d %d %d", k ? " " : "", s->rc, s->term, s->pu, s->state, s->ql, s->tdel,
		       s->f2a, s->f2aarg, s->rspc, s->arfcn, s->dbm);
	}
	printf("\n");
}

static void op_const(void)
{
	static const struct { const char *name; int v; } pch[] = {
		{ "GSM_PCHAN_NONE", GSM_PCHAN_NONE }, { "GSM_PCHAN_CCCH", GSM_PCHAN_CCCH }, { "GSM_PCHAN_CCCH_SDCCH4", GSM_PCHAN_CCCH_SDCCH4 },
		{ "GSM_PCHAN_TCH_F", GSM_PCHAN_TCH_F }, { "GSM_PCHAN_TCH_H", GSM_PCHAN_TCH_H }, { "GSM_PCHAN_SDCCH8_SACCH8C", GSM_PCHAN_SDCCH8_SACCH8C },
		{ "GSM_PCHAN_PDCH", GSM_PCHAN_PDCH }, { "GSM_PCHAN_TCH_F_PDCH", GSM_PCHAN_TCH_F_PDCH }, { "GSM_PCHAN_UNKNOWN", GSM_PCHAN_UNKNOWN },
		{ "GSM_PCHAN_CCCH_SDCCH4_CBCH", GSM_PCHAN_CCCH_SDCCH4_CBCH }, { "GSM_PCHAN_SDCCH8_SACCH8C_CBCH", GSM_PCHAN_SDCCH8_SACCH8C_CBCH },
	};
	printf("TRXC_BUF_SIZE %d\nTRXD_BUF_SIZE %d\nTRXDv0_HDR_LEN %d\nGSM_TDMA_HYPERFRAME %u\n", TRXC_BUF_SIZE, TRXD_BUF_SIZE, TRXDv0_HDR_LEN, (unsigned)GSM_TDMA_HYPERFRAME);
	printf("GSM_NBITS_NB_GMSK_BURST %d\nGSM_NBITS_NB_8PSK_BURST %d\n", GSM_NBITS_NB_GMSK_BURST, GSM_NBITS_NB_8PSK_BURST);
	printf("SIZEOF_CMD %zu\nGSM_PCHAN_MAX %d\nEINVAL %d\nENOTSUP %d\nEIO %d\nENODEV %d\nENOSPC %d\n",
	       sizeof(((struct trx_ctrl_msg *)0)->cmd), _GSM_PCHAN_MAX, EINVAL, ENOTSUP, EIO, ENODEV, ENOSPC);
	printf("ARFCN_PCS %d\nARFCN_FLAG_MASK %d\n", ARFCN_PCS, ARFCN_FLAG_MASK);
	for (unsigned i = 0; i < sizeof(pch) / sizeof(pch[0]); i++)
		printf("PCHAN %s %d\n", pch[i].name, pch[i].v);
	/* frequency table through the real (vendored) gsm_arfcn2freq10: every ARFCN 0..1023, plain and with the PCS flag */
	for (int pcs = 0; pcs < 2; pcs++)
		for (int a = 0; a < 1024; a++) {
			uint16_t arfcn = a | (pcs ? ARFCN_PCS : 0);
			printf("FREQ %u %u %u\n", arfcn, gsm_arfcn2freq10(arfcn, 0), gsm_arfcn2freq10(arfcn, 1));
		}
}

static void dispatch(const char *op)
{
	if (!strcmp(op, "rx")) op_rx();
	else if (!strcmp(op, "tx")) op_tx();
	else if (!strcmp(op, "cmd")) op_cmd();
	else if (!strcmp(op, "rsp")) op_rsp();
	else { printf("!unknown %s\n", op); }
}

int main(int argc, char **argv)
{
	char op[32]; char *line = NULL; size_t cap = 0;
	signal(SIGPIPE, SIG_IGN);
	if (argc > 1 && !strcmp(argv[1], "const")) { op_const(); return 0; }
	while (getline(&line, &cap, stdin) > 0) {
		int n = 0, forked = 0;
		cur = line;
		if (sscanf(cur, " %31s%n", op, &n) != 1) { printf("!empty\n"); continue; }
		cur += n;
		if (!strcmp(op, "F")) {
			forked = 1;
			if (sscanf(cur, " %31s%n", op, &n) != 1) { printf("!empty\n"); continue; }
			cur += n;
		}
		if (!forked) { dispatch(op); continue; }
		int pe[2];
		fflush(stdout);
		if (pipe(pe) < 0) return 4;
		pid_t pid = fork();
		if (pid == 0) {
			close(pe[0]); dup2(pe[1], 2); close(pe[1]);
			dispatch(op);
			fflush(stdout);
			_exit(0);
		}
		close(pe[1]);
		static char err[16384]; size_t el = 0; ssize_t r;
		while ((r = read(pe[0], err + el, sizeof(err) - 1 - el)) > 0) el += r;
		err[el] = 0; close(pe[0]);
		int st = 0; waitpid(pid, &st, 0);
		if (!(WIFEXITED(st) && WEXITSTATUS(st) == 0)) {
			char *q = strstr(err, "ERROR: "); if (!q) q = strstr(err, "runtime error"); if (!q) q = strstr(err, "WARNING: "); if (!q) q = err;
			char sum[400]; size_t i = 0;
			for (; q[i] && q[i] != '\n' && i < sizeof(sum) - 1; i++) sum[i] = q[i];
			sum[i] = 0;
			/* first stack frame inside trx_if.c (where the real code was when the sanitizer stopped it) */
			char loc[200]; loc[0] = 0;
			char *f = strstr(q, "trx_if.c:");
			if (f) {
				char *b = f; while (b > q && b[-1] != '\n') b--;
				char *in = strstr(b, " in "); if (in && in < f) b = in + 4;
				for (i = 0; b[i] && b[i] != '\n' && i < sizeof(loc) - 1; i++) loc[i] = b[i];
				loc[i] = 0;
			}
			printf("CRASH %d %d %s | %s\n", WIFSIGNALED(st) ? WTERMSIG(st) : 0, WIFEXITED(st) ? WEXITSTATUS(st) : -1, sum, loc);
		}
		fflush(stdout);
	}
	return 0;
}
