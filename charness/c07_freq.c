/* C07 harness, frequency redefinition at "starting time": the REAL firmware files layer1/prim_freq.c (l1a_freq_req, static
 * l1s_freq_cmd, freq_sched_set), layer1/rfch.c (rfch_get_params), layer1/sched_gsmtime.c and layer1/tdma_sched.c of the tree
 * under test are #included. Nothing of them is stubbed except the ARM IRQ masking macros and the progress printf.
 *
 * The command is NOT called directly: l1a_freq_req(starting time) is called as l23_api.c does, and the frame loop of
 * sync.c l1_sync (tdma_sched_execute; sched_gsmtime_execute(current fn); tdma_sched_advance; time + 1) is run until the
 * starting time has passed, so the scheduled item freq_sched_set runs through the real schedulers (or immediately inside
 * l1a_freq_req when that decides the time has already been reached).
 * What l23_api.c l1ctl_rx_dm_est_req / l1ctl_rx_dm_freq_req store into l1s.dedicated (h, h0/h1, tsc resp. st_*) is written by
 * this harness (l23_api.c needs the whole firmware).
 *
 * input line:  diff_a diff_b fn0 nf fn_0 .. fn_(nf-1) SET(old) SET(a) SET(b)
 *              SET = 0 arfcn tsc | 1 hsn maio tsc n ma_0 .. ma_(n-1)
 * output line: (arfcn tsc) per fn for: old channel; after redefinition a; after staging b (starting time not reached); after b */
#include <stdint.h>
#include <stdio.h>
#include <string.h>
#include <stdlib.h>

#include <asm/system.h>
#undef local_firq_save
#undef local_irq_restore
#define local_firq_save(x)	do { (x) = 0; } while (0)
#define local_irq_restore(x)	do { (void)(x); } while (0)

#include <layer1/sync.h>
#include <layer1/sched_gsmtime.h>

struct l1s_state l1s;

static unsigned long c07_msgs;
static int c07_quiet(const char *fmt, ...) { c07_msgs++; return 0; }
#define printf c07_quiet
#define puts(s) c07_quiet(s)
#include "tdma_sched.c"
#include "sched_gsmtime.c"
#include "rfch.c"
#include "prim_freq.c"
#undef printf
#undef puts

struct set { unsigned h, arfcn, hsn, maio, tsc, n, ma[64]; };

static int read_set(struct set *s)
{
	unsigned i;
	memset(s, 0, sizeof(*s));
	if (scanf("%u", &s->h) != 1) return -1;
	if (!s->h) return scanf("%u %u", &s->arfcn, &s->tsc) == 2 ? 0 : -1;
	if (scanf("%u %u %u %u", &s->hsn, &s->maio, &s->tsc, &s->n) != 4 || s->n < 1 || s->n > 64) return -1;
	for (i = 0; i < s->n; i++) if (scanf("%u", &s->ma[i]) != 1) return -1;
	return 0;
}

/* l1ctl_rx_dm_freq_req: the "after time" parameters */
static void stage(const struct set *s)
{
	unsigned i;
	l1s.dedicated.st_tsc = s->tsc;
	l1s.dedicated.st_h = s->h;
	if (s->h) {
		l1s.dedicated.st_h1.hsn = s->hsn; l1s.dedicated.st_h1.maio = s->maio; l1s.dedicated.st_h1.n = s->n;
		for (i = 0; i < s->n; i++) l1s.dedicated.st_h1.ma[i] = s->ma[i];
	} else
		l1s.dedicated.st_h0.arfcn = s->arfcn;
}

static void observe(const unsigned *fns, unsigned nf)
{
	unsigned i;
	for (i = 0; i < nf; i++) {
		struct gsm_time t; uint16_t arfcn = 0xffff; uint8_t tsc = 0xff;
		gsm_fn2gsmtime(&t, fns[i]);
		rfch_get_params(&t, &arfcn, &tsc, NULL);
		printf("%u %u ", arfcn, tsc);
	}
}

/* l1a_freq_req(starting time = now + diff), then the frame loop of l1_sync until the starting time has passed */
static void redefine(unsigned diff)
{
	unsigned k;
	l1a_freq_req((l1s.current_time.fn + diff) % 42432);
	for (k = 0; k < diff + 4; k++) {
		tdma_sched_execute();
		sched_gsmtime_execute(l1s.current_time.fn);
		tdma_sched_advance();
		gsm_fn2gsmtime(&l1s.current_time, (l1s.current_time.fn + 1) % GSM_MAX_FN);
	}
}

int main(void)
{
	static unsigned fns[4096];
	sched_gsmtime_init();
	for (;;) {
		unsigned da, db, fn0, nf, i; struct set s0, sa, sb;
		if (scanf("%u %u %u %u", &da, &db, &fn0, &nf) != 4) break;
		if (nf > 4096) return 3;
		for (i = 0; i < nf; i++) if (scanf("%u", &fns[i]) != 1) return 3;
		if (read_set(&s0) || read_set(&sa) || read_set(&sb)) return 3;
		memset(&l1s, 0, sizeof(l1s));
		sched_gsmtime_reset();
		gsm_fn2gsmtime(&l1s.current_time, fn0);
		/* l1ctl_rx_dm_est_req: the channel in use */
		l1s.dedicated.type = GSM_DCHAN_SDCCH_8;
		stage(&s0);
		l1s.dedicated.tsc = s0.tsc; l1s.dedicated.h = s0.h;
		if (s0.h) memcpy(&l1s.dedicated.h1, &l1s.dedicated.st_h1, sizeof(l1s.dedicated.h1));
		else memcpy(&l1s.dedicated.h0, &l1s.dedicated.st_h0, sizeof(l1s.dedicated.h0));
		memset(&l1s.dedicated.st_h1, 0, sizeof(l1s.dedicated.st_h1));
		observe(fns, nf);
		stage(&sa); redefine(da); observe(fns, nf);
		stage(&sb); observe(fns, nf);
		redefine(db); observe(fns, nf);
		printf("\n");
	}
	return 0;
}
