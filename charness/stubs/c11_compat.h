/* C11 harness: what trxcon's sched_mframe.c / sched_lchan_desc.c need beyond the vendored (old) libosmocore.
 * The two CBCH channel combinations do not exist in the vendored enum gsm_phys_chan_config; they are supplied
 * as macros with values outside the vendored enum (identifiers only - nothing in C11 depends on the numbers). */
#pragma once
#define _GSM_PCHAN_MAX _GSM_PCHAN_MAX_VENDORED
#include <osmocom/gsm/gsm_utils.h>
#undef _GSM_PCHAN_MAX
#define _GSM_PCHAN_MAX 102
#define GSM_PCHAN_CCCH_SDCCH4_CBCH 100
#define GSM_PCHAN_SDCCH8_SACCH8C_CBCH 101
#ifndef GSM_NBITS_NB_8PSK_BURST
#define GSM_NBITS_NB_GMSK_BURST 148
#define GSM_NBITS_NB_8PSK_BURST 444
#endif
/* needed only so that sched_lchan_desc.c compiles (payload sizes are not dumped); the three Osmocom-specific
 * RSL channel numbers are the upstream libosmocore values (rsl.h: RSL_CHAN_OSMO_PDCH/CBCH4/CBCH8) */
#ifndef GSM_NBITS_NB_GMSK_PAYLOAD
#define GSM_NBITS_NB_GMSK_PAYLOAD (2 * 58)
#define GSM_NBITS_NB_8PSK_PAYLOAD (GSM_NBITS_NB_GMSK_PAYLOAD * 3)
#endif
#ifndef RSL_CHAN_OSMO_PDCH
#define RSL_CHAN_OSMO_PDCH 0xc0
#define RSL_CHAN_OSMO_CBCH4 0xc8
#define RSL_CHAN_OSMO_CBCH8 0xd0
#endif
