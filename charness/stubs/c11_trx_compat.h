/* C11 cfg harness: what trxcon's sched_trx.c needs beyond c11_compat.h from the vendored (old) libosmocore.
 * None of these is used by l1sched_configure_ts() / l1sched_find_lchan_by_type(); they only let the file compile.
 * Values are the upstream libosmocore ones (gsm/protocol/gsm_08_58.h, gsm/gsm0502.h, core/linuxlist.h). */
#pragma once
#include "c11_compat.h"
#ifndef ABIS_RSL_CHAN_NR_CBITS_Bm_ACCHs
#define ABIS_RSL_CHAN_NR_CBITS_Bm_ACCHs 0x01
#define ABIS_RSL_CHAN_NR_CBITS_Lm_ACCHs(ss) (0x02 + (ss))
#define ABIS_RSL_CHAN_NR_CBITS_SDCCH4_ACCH(ss) (0x04 + (ss))
#define ABIS_RSL_CHAN_NR_CBITS_SDCCH8_ACCH(ss) (0x08 + (ss))
#define ABIS_RSL_CHAN_NR_CBITS_OSMO_PDCH 0x18
#define ABIS_RSL_CHAN_NR_CBITS_OSMO_CBCH4 0x19
#define ABIS_RSL_CHAN_NR_CBITS_OSMO_CBCH8 0x1a
#endif
#ifndef GSM_TDMA_HYPERFRAME
#define GSM_TDMA_HYPERFRAME (26 * 51 * 2048)
#endif
#ifndef GSM_TDMA_FN_INC
#define GSM_TDMA_FN_INC(fn) ((fn) = ((fn) + 1) % GSM_TDMA_HYPERFRAME)
#endif
#include <osmocom/core/linuxlist.h>
#ifndef llist_first_entry_or_null
#define llist_first_entry_or_null(head, type, member) (llist_empty(head) ? NULL : llist_entry((head)->next, type, member))
#endif
struct msgb;
const char *msgb_hexdump_l2(const struct msgb *msg);
#include <assert.h>
#ifndef OSMO_ASSERT
#define OSMO_ASSERT(exp) assert(exp)
#endif
