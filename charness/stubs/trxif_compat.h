/* trx_if.c harness (C04 C05 C14): what trxcon's trx_if.c needs beyond the vendored (old) libosmocore.
 * Force-included (-include) before everything else.  Nothing here changes the logic of trx_if.c:
 *  - the two CBCH channel combinations do not exist in the vendored enum gsm_phys_chan_config; they are supplied as
 *    macros 100/101 and _GSM_PCHAN_MAX is raised to 102 (only the size/index space of trx_if_cmd_setslot's table);
 *  - GSM_NBITS_NB_*_BURST, osmo_load32be/osmo_store32be, osmo_sock_init2_ofd, gsm_freq102arfcn come from the
 *    *system* libosmocore in a real build (they are not in /repo); the values / semantics below are upstream's. */
#pragma once
#include <stdint.h>
#include <stdbool.h>
#include <stdarg.h>
#define _GSM_PCHAN_MAX _GSM_PCHAN_MAX_VENDORED
#include <osmocom/gsm/gsm_utils.h>
#undef _GSM_PCHAN_MAX
#define _GSM_PCHAN_MAX 102
#define GSM_PCHAN_CCCH_SDCCH4_CBCH 100
#define GSM_PCHAN_SDCCH8_SACCH8C_CBCH 101
#ifndef GSM_NBITS_NB_8PSK_BURST
#define GSM_NBITS_NB_GMSK_BURST 148
#define GSM_NBITS_NB_8PSK_BURST 444
#endif
#ifndef ARFCN_FLAG_MASK
#define ARFCN_FLAG_MASK 0xf000
#endif
#ifndef OSMO_SOCK_F_CONNECT
#define OSMO_SOCK_F_CONNECT (1 << 0)
#define OSMO_SOCK_F_BIND (1 << 1)
#endif

/* upstream <osmocom/core/endian.h>/<bit32gen.h> */
static inline uint32_t osmo_load32be(const void *p)
{
	const uint8_t *q = p;
	return ((uint32_t)q[0] << 24) | ((uint32_t)q[1] << 16) | ((uint32_t)q[2] << 8) | (uint32_t)q[3];
}
static inline void osmo_store32be(uint32_t x, void *p)
{
	uint8_t *q = p;
	q[0] = (x >> 24) & 0xff; q[1] = (x >> 16) & 0xff; q[2] = (x >> 8) & 0xff; q[3] = x & 0xff;
}

struct osmo_fd;
/* implemented by the harness: creates an AF_UNIX SOCK_DGRAM socketpair */
int osmo_sock_init2_ofd(struct osmo_fd *ofd, int family, int type, int proto,
			const char *local_host, uint16_t local_port,
			const char *remote_host, uint16_t remote_port, unsigned int flags);
/* implemented by the harness with upstream's algorithm (reverse search over the vendored gsm_arfcn2freq10) */
uint16_t gsm_freq102arfcn(uint16_t freq10, int uplink);
