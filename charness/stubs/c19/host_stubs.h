/* C19: host replacements for the ARM-only interrupt primitives of the firmware's <asm/system.h>
 * (its include guard __ASM_ARM_SYSTEM_H is pre-defined on the command line), so that the REAL
 * src/target/firmware/layer1/sync.c compiles on the host. Nothing here touches the GSM time. */
#ifndef C19_HOST_STUBS_H
#define C19_HOST_STUBS_H
#define local_irq_save(x)	((void)((x) = 0))
#define local_firq_save(x)	((void)((x) = 0))
#define local_irq_restore(x)	((void)(x))
#define local_irq_enable()	((void)0)
#define local_irq_disable()	((void)0)
#define local_fiq_enable()	((void)0)
#define local_fiq_disable()	((void)0)
#endif
