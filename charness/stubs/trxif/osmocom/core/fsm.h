/* minimal <osmocom/core/fsm.h> for the trx_if.c harness: the vendored libosmocore predates osmo_fsm.
 * Types carry the fields trx_if.c touches; the functions are implemented (and recorded) by charness/trxif.c. */
#pragma once
#include <stdint.h>
#include <assert.h>
#include <osmocom/core/linuxlist.h>
#include <osmocom/core/utils.h>
#include <osmocom/core/logging.h>

struct osmo_fsm_inst;

enum osmo_fsm_term_cause {
	OSMO_FSM_TERM_PARENT,
	OSMO_FSM_TERM_REQUEST,
	OSMO_FSM_TERM_REGULAR,
	OSMO_FSM_TERM_ERROR,
	OSMO_FSM_TERM_TIMEOUT,
};

struct osmo_fsm_state {
	uint32_t in_event_mask;
	uint32_t out_state_mask;
	const char *name;
	void (*action)(struct osmo_fsm_inst *fi, uint32_t event, void *data);
	void (*onenter)(struct osmo_fsm_inst *fi, uint32_t prev_state);
	void (*onleave)(struct osmo_fsm_inst *fi, uint32_t next_state);
};

struct osmo_fsm {
	struct llist_head list;
	struct llist_head instances;
	const char *name;
	const struct osmo_fsm_state *states;
	unsigned int num_states;
	uint32_t allstate_event_mask;
	void (*allstate_action)(struct osmo_fsm_inst *fi, uint32_t event, void *data);
	void (*cleanup)(struct osmo_fsm_inst *fi, enum osmo_fsm_term_cause cause);
	int (*timer_cb)(struct osmo_fsm_inst *fi);
	int log_subsys;
	const struct value_string *event_names;
};

struct osmo_fsm_inst {
	struct llist_head list;
	struct osmo_fsm *fsm;
	const char *id;
	const char *name;
	void *priv;
	int log_level;
	uint32_t state;
	int T;
};

#define LOGPFSML(fi, level, fmt, args...) do { } while (0)
#define LOGPFSMSL(fi, subsys, level, fmt, args...) do { } while (0)
#ifndef OSMO_ASSERT
#define OSMO_ASSERT(exp) assert(exp)
#endif

int osmo_fsm_register(struct osmo_fsm *fsm);
struct osmo_fsm_inst *osmo_fsm_inst_alloc_child(struct osmo_fsm *fsm, struct osmo_fsm_inst *parent,
						uint32_t parent_term_event);
void osmo_fsm_inst_free(struct osmo_fsm_inst *fi);
int osmo_fsm_inst_state_chg(struct osmo_fsm_inst *fi, uint32_t new_state,
			    unsigned long timeout_secs, int T);
void osmo_fsm_inst_term(struct osmo_fsm_inst *fi, enum osmo_fsm_term_cause cause, void *data);
