/* minimal <osmocom/gsm/gsm0502.h> for the trx_if.c harness: the vendored header lacks the TDMA macros.
 * The hyperframe length is taken from the vendored gsm_utils.h (GSM_MAX_FN = 26*51*2048), so it is still read
 * from /repo; GSM_TDMA_FN_SUM is upstream's definition. */
#pragma once
#include <osmocom/gsm/gsm_utils.h>
#define GSM_TDMA_HYPERFRAME GSM_MAX_FN
#define GSM_TDMA_FN_SUM(a, b) (((a) + (b)) % GSM_TDMA_HYPERFRAME)
