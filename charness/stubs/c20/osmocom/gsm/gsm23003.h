/* C20 harness: stand-in for <osmocom/gsm/gsm23003.h> (newer libosmocore, not in the vendored copy), which the real
 * layer23 sysinfo.h includes for the type of struct gsm48_sysinfo.lai.  Only the two types are needed. */
#pragma once
#include <stdint.h>
#include <stdbool.h>

struct osmo_plmn_id {
	uint16_t mcc;
	uint16_t mnc;
	bool mnc_3_digits;
};

struct osmo_location_area_id {
	struct osmo_plmn_id plmn;
	uint16_t lac;
};
