#pragma once
#include <osmocom/core/talloc.h>
