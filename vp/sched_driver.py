"""controlled-schedule driver for C03: two real Python threads (socket side, clock side) on real FakeTRX objects are advanced one
atomic step at a time; yield points = the queue lock's acquisition and every read/write of `running` / `fh` of the transceiver under test"""
import logging
import re
import threading

from . import common, fakesock

F1, F2 = 935000, 890000


class Ctl:
    def __init__(self):
        self.cv = threading.Condition()
        self.turn = None
        self.state = {}
        self.trace = []

    def point(self, label):
        me = threading.current_thread().name
        if me not in self.state:
            return
        with self.cv:
            self.state[me] = ("at", label)
            self.turn = None
            self.cv.notify_all()
            while self.turn != me:
                self.cv.wait()
            self.state[me] = ("running", label)

    def spawn(self, name, fn):
        def body():
            self.point("start")
            try:
                fn()
                res = ("done", None)
            except Exception as e:  # noqa
                res = ("exc", type(e).__name__)
            with self.cv:
                self.state[name] = res
                self.turn = None
                self.cv.notify_all()
        self.state[name] = ("new", None)
        t = threading.Thread(target=body, name=name, daemon=True)
        t.start()
        with self.cv:
            while self.state[name][0] == "new":
                self.cv.wait()
        return t

    def step(self, name):
        with self.cv:
            if self.state[name][0] != "at":
                return False
            self.trace.append((name, self.state[name][1]))
            self.turn = name
            self.cv.notify_all()
            while self.turn == name:
                self.cv.wait()
        return True


class ILock:
    def __init__(self, ctl):
        self.ctl = ctl
        self.l = threading.Lock()

    def __enter__(self):
        self.ctl.point("lock")
        self.l.acquire()
        self.holder = threading.current_thread().name

    def __exit__(self, *a):
        self.holder = None
        self.l.release()
        self.ctl.point("unlock")

    def held(self):
        return getattr(self, "holder", None) == threading.current_thread().name


class QList(list):
    cleared = 0

    def clear(self):
        QList.cleared += len(self)
        list.clear(self)


class StaleLog(logging.Handler):
    def __init__(self):
        logging.Handler.__init__(self, logging.WARNING)
        self.ids = []

    def emit(self, rec):
        msg = rec.getMessage()
        if "Stale TRXD message" in msg:
            m = re.search(r"pwr=(\d+)", msg)
            self.ids.append(int(m.group(1)) if m else -1)


def run_one(fn, running, hopping, op, queue, sched):
    """op: ('arrive', id, fn) | ('poweroff',) | ('poweron',); queue: [(id, fn)]; sched: list of 0/1 (1 = clock thread).
    -> observation ints in the layout of Model/Race.v w_c03_race, plus the step trace"""
    common.import_toolkit()
    fakesock.install()
    import fake_trx
    import burst_fwd
    import data_msg
    logging.disable(logging.NOTSET)
    root = logging.getLogger()
    old_level = root.level
    root.setLevel(logging.WARNING)
    slog = StaleLog()
    root.addHandler(slog)
    ctl = Ctl()

    class T(fake_trx.FakeTRX):
        def __getattribute__(self, k):
            if k in ("running", "fh"):
                ctl.point("read " + k)
            elif k == "_tx_queue":
                lk = object.__getattribute__(self, "__dict__").get("_tx_queue_lock")
                if isinstance(lk, ILock) and not lk.held():
                    ctl.point("unprotected read _tx_queue")      # never reached by the code as it is: the queue is only touched under the lock
            return object.__getattribute__(self, k)

        def __setattr__(self, k, v):
            if k in ("running", "fh"):
                ctl.point("write " + k)
            elif k == "_tx_queue":
                lk = object.__getattribute__(self, "__dict__").get("_tx_queue_lock")
                if isinstance(lk, ILock) and not lk.held():
                    ctl.point("unprotected write _tx_queue")
            if k == "_tx_queue" and not isinstance(v, QList):
                v = QList(v)
            object.__setattr__(self, k, v)
    try:
        a = T("0.0.0.0", "127.0.0.1", 5700, name="A")
        b = fake_trx.FakeTRX("0.0.0.0", "127.0.0.1", 6700, name="B")
        src = ("127.0.0.9", 1)

        def cmd(t, s):
            t.ctrl_if.sock.inbox.append((s.encode() + b"\0", src))
            t.ctrl_if.handle_rx()
            t.ctrl_if.sock.sent.clear()
        cmd(a, "CMD RXTUNE %d" % F2)
        cmd(a, "CMD TXTUNE %d" % F1)
        cmd(b, "CMD RXTUNE %d" % F1)
        cmd(b, "CMD TXTUNE %d" % F2)
        if hopping:
            cmd(a, "CMD SETFH 0 0 %d %d" % (F2, F1))
        cmd(b, "CMD POWERON")
        if running:
            cmd(a, "CMD POWERON")
        QList.cleared = 0
        for mid, mfn in queue:
            m = data_msg.TxMsg(fn=mfn, tn=mid % 8, burst=bytearray(148))
            m.pwr = mid
            a._tx_queue.append(m)
        a._tx_queue_lock = ILock(ctl)
        fwd = burst_fwd.BurstForwarder([a, b])
        rejected = [0]

        def tick():
            a.clck_tick(fwd, fn)

        def sock():
            if op[0] == "poweroff":
                a.ctrl_if.sock.inbox.append((b"CMD POWEROFF\0", src))
                a.ctrl_if.handle_rx()
            elif op[0] == "poweron":
                a.ctrl_if.sock.inbox.append((b"CMD POWERON\0", src))
                a.ctrl_if.handle_rx()
            else:
                m2 = data_msg.TxMsg(fn=op[2], tn=op[1] % 8, burst=bytearray(148))
                m2.pwr = op[1]
                a.data_if.sock.inbox.append((bytes(m2.gen_msg()), src))
                if a.recv_data_msg() is None:
                    rejected[0] += 1
        ctl.spawn("tick", tick)
        ctl.spawn("sock", sock)
        # choices: for every scheduling decision actually taken, (thread stepped: 1 = tick, was the other thread runnable as well?) -
        # the exhaustive tier enumerates each distinct interleaving once by branching only where both threads could run
        choices = []
        for bit in sched:
            who, other = ("tick", "sock") if bit else ("sock", "tick")
            both = ctl.state["tick"][0] == "at" and ctl.state["sock"][0] == "at"
            if ctl.step(who):
                choices.append((1 if who == "tick" else 0, both))
            elif ctl.step(other):
                choices.append((1 if other == "tick" else 0, False))
            else:
                break
        run_one.last_choices = choices
        for who in ("tick", "sock"):
            while ctl.step(who):
                pass
        emitted = [d[0][5] - 60 for d in b.data_if.sock.sent]
        q = [m.pwr for m in object.__getattribute__(a, "_tx_queue")]
        unprot = [lbl for who, lbl in ctl.trace if lbl.startswith("unprotected")]
        tstate = ctl.state["tick"]
        obs = [1 if tstate[0] == "exc" else 0, int(bool(object.__getattribute__(a, "running"))), int(object.__getattribute__(a, "fh") is not None),
               len(emitted)] + emitted + [len(slog.ids)] + slog.ids + [len(q)] + q + [QList.cleared, rejected[0]]
        return obs, ctl.trace, (tstate, ctl.state["sock"], unprot)
    finally:
        root.removeHandler(slog)
        root.setLevel(old_level)


def model_line(fn, running, hopping, op, queue, sched):
    opc = {"arrive": 0, "poweroff": 1, "poweron": 2}[op[0]]
    mid, mfn = (op[1], op[2]) if op[0] == "arrive" else (0, 0)
    ints = [fn, int(running), int(hopping), opc, mid, mfn, len(queue)]
    for a, b in queue:
        ints += [a, b]
    ints += [len(sched)] + list(sched)
    return "w_c03_race " + " ".join(map(str, ints))


# ---------------------------------------------------------------------------------------------------------------------
# C18: one FAKE_DROP / RFMUTE command on the socket thread racing one tick in which the recipient decides about a burst.
# Granularity: a thread can be preempted where it calls out into the logging subsystem (I/O: the interpreter lock is
# released there) and at lock operations - not between the bytecodes of one statement.

class _LogProxy:
    def __init__(self, ctl, real):
        self._ctl, self._real = ctl, real

    def __getattr__(self, k):
        v = getattr(self._real, k)
        if k in ("debug", "info", "warning", "error", "critical", "log"):
            def call(*a, **kw):
                self._ctl.point("log." + k)
                return v(*a, **kw)
            return call
        return v


def run_drop_race(fn, ver_b, pending, cmd_text, sched, yield_ver=False):
    """recipient B has `pending` = (amount, period) drops configured and header version ver_b; sender A has one burst due at fn;
    the clock thread runs A.clck_tick, the socket thread handles cmd_text on B's control socket.
    -> (final amount, final period, muted, datagrams B's L1 got [(is_nope, fn)], reply, trace, thread states)"""
    common.import_toolkit()
    fakesock.install()
    import fake_trx
    import burst_fwd
    import data_msg
    ctl = Ctl()
    real_log = fake_trx.log
    fake_trx.log = _LogProxy(ctl, real_log)
    saved_disable = logging.root.manager.disable
    logging.disable(logging.CRITICAL)          # the records themselves are of no interest (the calls are the yield points)
    try:
        a = fake_trx.FakeTRX("0.0.0.0", "127.0.0.1", 5700, name="A")
        b = fake_trx.FakeTRX("0.0.0.0", "127.0.0.1", 6700, name="B")
        src = ("127.0.0.9", 1)

        def cmd(t, s):
            t.ctrl_if.sock.inbox.append((s.encode() + b"\0", src))
            t.ctrl_if.handle_rx()
            out = [bytes(d[0]) for d in t.ctrl_if.sock.sent]
            t.ctrl_if.sock.sent.clear()
            return out
        cmd(a, "CMD RXTUNE %d" % F2); cmd(a, "CMD TXTUNE %d" % F1)
        cmd(b, "CMD RXTUNE %d" % F1); cmd(b, "CMD TXTUNE %d" % F2)
        cmd(b, "CMD SETFORMAT %d" % ver_b)
        cmd(a, "CMD POWERON"); cmd(b, "CMD POWERON")
        cmd(b, "CMD FAKE_DROP %d %d" % pending)
        m = data_msg.TxMsg(fn=fn, tn=3, burst=bytearray(148))
        m.pwr = 0
        a._tx_queue.append(m)
        fwd = burst_fwd.BurstForwarder([a, b])
        reply = []
        if yield_ver:
            # every read / write of the recipient's negotiated header version is a preemption point (the socket thread writes it
            # in SETFORMAT, the clock thread reads it while forwarding)
            base = type(b.data_if)

            class _DI(base):
                @property
                def _hdr_ver(self):
                    ctl.point("read hdr_ver")
                    return self.__dict__["_v"]

                @_hdr_ver.setter
                def _hdr_ver(self, v):
                    ctl.point("write hdr_ver")
                    self.__dict__["_v"] = v
            b.data_if.__dict__["_v"] = b.data_if.__dict__.pop("_hdr_ver")
            b.data_if.__class__ = _DI

        def tick():
            a.clck_tick(fwd, fn)

        def sock():
            reply.extend(cmd(b, cmd_text))
        ctl.spawn("tick", tick)
        ctl.spawn("sock", sock)
        for bit in sched:
            who, other = ("tick", "sock") if bit else ("sock", "tick")
            if not ctl.step(who):
                if not ctl.step(other):
                    break
        for who in ("tick", "sock"):
            while ctl.step(who):
                pass
        got = []
        run_drop_race.last_raw = [bytes(d[0]) for d in b.data_if.sock.sent]
        for d in b.data_if.sock.sent:
            dg = bytes(d[0])
            got.append((1 if (dg[0] >> 4) >= 1 and len(dg) > 8 and (dg[8] & 0x80) else 0, int.from_bytes(dg[1:5], "big")))
        return (b.burst_drop_amount, b.burst_drop_period, bool(b.rf_muted), got, reply, list(ctl.trace), (ctl.state["tick"], ctl.state["sock"]))
    finally:
        fake_trx.log = real_log
        logging.disable(saved_disable)
