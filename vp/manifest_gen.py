"""writes MANIFEST.json from the table below (kept as code so that it is always schema-shaped)"""
import json
import os

ROOT = os.path.dirname(os.path.dirname(os.path.abspath(__file__)))

BASE_NOTE = ("Trusted: Coq 8.16.1 kernel/VM, no axioms (Print Assumptions audited each run), ExtrOcamlBasic extraction + OCaml 4.13.1, "
             "the Gen translators and the correspondence harness (differential testing, not proof). The theorems are about the Gallina model; ")

CLAIMED = {
    "C04": dict(
        text="Theorems: for all valid Tx/Rx messages (versions 0/1, legacy padding on/off) the encoder's octets equal the documented layout (spelled out as a literal octet list, MTS octet in arithmetic), "
             "and everything the parser accepts is read per that layout; every version-0 burst encoded by the toolkit is delivered by the model of trxcon's trx_data_rx_cb with identical FN/TN/RSSI/ToA256/soft bits "
             "(-128 corner stated), version 1 is refused by trxcon, every 148/444-octet burst request of trxcon is parsed back by the toolkit to trxcon's values, c_data_rx is in bounds for all octet strings, "
             "burst requests overflow the buffer exactly above 506 octets. Differential correspondence of gen_msg/parse_msg, trx_data_rx_cb, trx_if_handle_phyif_burst_req against the extracted models "
             "(real trx_if.c #included, socketpair, ASan+UBSan, fork per datagram), end-to-end Python->C and C->Python oracles, independent layout transcription; every datagram trxcon emits and every valid Tx message of the toolkit "
             "also goes through the real DATAInterface.recv_tx_msg() on a socket (receive size, version filter) and must come out as the parser's result; batch passes (results / objects of a whole batch read after the batch) against shared buffers; header-version negotiation on one long-lived DATAInterface (every request 0..15, repeated: a refused request leaves the version of the link alone).",
        note="tie on a socketpair rather than UDP; GSM_NBITS_*, osmo_load32be, gsm_freq102arfcn come from the system libosmocore which is absent: upstream values assumed in charness/stubs, the hyperframe taken from the vendored GSM_MAX_FN; "
             "the RTS indication is checked by correspondence only.",
        technique="Coq proof about models of data_msg.py and trx_if.c + Gen (reflection; harness including the real trx_if.c) + extracted-model correspondence + end-to-end oracles", ref="7-C04"),
    "C14": dict(
        text="15 theorems: parse_msg signals nothing but ValueError for all octets (checked indexing model); a data datagram is enqueued or has no effect; handle_rx returns normally on any control datagram and keeps the world "
             "in the reachable region (thresholds >= 0, period > 0, HSN 0..63, non-empty MA, non-negative queued FNs); unparsable arguments answered -1 without effect, and so is every refused command (negative status) whatever the verb; the tick never fails on a reachable world; from the freshly "
             "started application NO history of control datagrams, data datagrams and ticks crashes anything - the model's handle_rx includes the artificial reply delay (time.sleep's domain: a delay beyond 2^63-1 ns is the crash "
             "outcome; every FAKE_TRXC_DELAY beyond 9223372036854 ms is refused, every accepted one can be slept, the invariant carries the bound) - (so later valid input is served by the other properties' theorems); capture reader total on arbitrary file content; "
             "trxcon: trx_data_rx_cb in bounds, every burst indication it hands up has a timeslot 0..7, a frame inside the hyperframe and exactly 148 or 444 soft bits (never more than the scheduler's array holds), and trx_ctrl_read_cb free of NULL dereference / out-of-extent / uninitialised reads for all datagrams and pending commands. Malformed streams injected into real sessions vs the model, "
             "valid non-ASCII text, damaged captures, random octets into the parser, hostile datagrams into the real trx_if.c under ASan/UBSan (+MSan in thorough when clang is present, stale-stack differential otherwise); a control datagram that is not text (invalid UTF-8) is never executed and answered as a success.",
        note="partial, said plainly: Coq proves the MODEL total and in-bounds; that the real interpreter / compiled code cannot fail in a way the model has no constructor for (memory exhaustion, CPython int() corners outside the "
             "modelled ASCII grammar - non-ASCII control text is exercised by the implementation-only stream -, libc sscanf internals) is only sampled by the sanitizer runs.",
        technique="Coq proof (invariant over all histories; totality) + extracted-model correspondence with malformed streams + sanitizer campaigns on the real trx_if.c", ref="7-C14"),
    "C16": dict(
        text="Both round-trip directions, literal re-encoding for spare-free definitions, canonical re-encoding, bit-field truncation without disturbing neighbours, termination and the error classes are machine-checked "
             "for every well-formed definition of a deep embedding of codec.py (integers of any width/order/sign/offset/multiplier, buffers, spares, MSB/LSB bit-field sets, nested envelopes, sequences, table-shaped presence/length "
             "callbacks): 26 theorems, no axioms; class defaults regenerated by reflection; random definitions built as real codec objects from the same AST and run against the extracted model (octets, dicts, consumed length, error class); both documented spellings of each bit order ('lsb'/'little', 'msb'/'big').",
        note="only table-shaped callbacks and typed values are modelled; mid-definition fixed-mismatch / short-read results are stated as 'never accepted' rather than exact cause codes; recorded finding c16-varlen-buf-length-not-enforced "
             "(the round-trip theorem carries the matching hypothesis, refuted lemma beside it).",
        technique="Coq deep embedding + inductive fits relation (mutual induction, fuel induction, testbit reasoning) + extraction-based differential correspondence with real codec objects", ref="7-C16"),
    "C03": dict(
        text="Theorems over ALL histories of one transceiver (arrivals of any octets, ticks of any frame numbers, power and version commands): accepted = emitted + stale + cleared + queued for every class of bursts "
             "(no loss, no duplication), emitted only in the tick of its own frame, stale only for smaller frame numbers, a tick emits exactly the queued bursts of that frame in order, power-off clears; "
             "the application tick does exactly this to every queue; and over ALL thread schedules (any length) of one arrival / POWEROFF / POWERON racing one tick at the granularity of lock sections and single "
             "reads/writes of running / fh: conservation, on-time (modular frame comparison across the hyperframe wrap), no crash on any schedule. Sessions on the real Application (with child transceivers and power commands through the parent) "
             "vs the model - every session tick goes through the real CLCKGen.send_clck_ind(), consecutive frames use the generator's own increment (also across 2715647 -> 0); schedules driven on two real threads over real FakeTRX "
             "objects (thorough: every distinct interleaving over the first 14 scheduling decisions, each once) vs the extracted race model; the shared clock generator must run exactly while a clock-owning transceiver is powered on (judged from the command history); fan-out sessions (one sender, several recipients with their own mute / drop / version): every tuned running recipient gets its own copy in the burst's frame.",
        note="partial: atomicity granularity (lock sections; one attribute access under the GIL) is assumed, preemption inside a bytecode or inside socket.sendto is not modelled. Two defects found by this check were repaired in /repo "
             "(ab4b39d: double read of self.fh racing POWEROFF; 8ee3c86: numeric frame comparison across the hyperframe wrap).",
        technique="Coq proof (history invariants; one-step invariants over arbitrary schedules) + extracted models vs real objects (sessions; controlled schedules on real threads)", ref="7-C03"),
    "C05": dict(
        text="Theorems: for every ASCII control datagram on any reachable world exactly one reply 'RSP verb status args [results] NUL' iff it begins with CMD, else none and no change; the command table "
             "(POWERON refusal conditions, POWEROFF, RXTUNE/TXTUNE, SETFH effect for any number of channels and -1 for HSN outside 0..63, SETFORMAT applied / suggested / -1, MEASURE, SETPOWER, NOMTXPOWER, RFMUTE, "
             "SETTA, FAKE_*, unknown verbs -> 0 without effect) for decimal arguments; a refused command (negative status, any verb) changes nothing at all; no command crashes or leaves the reachable region; trxcon side (model of trx_if.c): every reply to a command trxcon emits is "
             "matched and decided by its status, trxcon's longest command (SETFH) fits the toolkit's receive size, and the SETFH command carries exactly the hopping list it was given (HSN, MAIO, 'rx tx' of every channel in order) or nothing "
             "is queued (a channel without frequency; more than 999 characters: 63 DCS channels). 15 theorems. Sessions vs model + independent reference table + end to end through the real trx_if.c + SETFH composer against a specification oracle "
             "(sizes around the room limit in every band); raw datagrams include the degenerate 'CMD', 'CMD ' and non-CMD prefixes; the EFFECT of SETPOWER / SETTA / FAKE_* is judged on the bursts the peer receives afterwards (sessions and oracle shared with C10).",
        note="well-formed = ASCII decimal arguments (py_int models int() on ASCII tokens; other tokens: C14); control receive size probed through a fake socket; TRXC_BUF_SIZE as compiled; "
             "time.sleep of FAKE_TRXC_DELAY virtualised with the real call's domain (negative: ValueError, beyond 2^63-1 ns: OverflowError). Fixed in /repo: 526bb7b, 35bc7c1, 03c0ece.",
        technique="Coq proof (case analysis per verb, invariants) + Gen (probed sizes, compiled constants) + extracted-model correspondence + real trx_if.c harness", ref="7-C05"),
    "C02": dict(
        text="Theorems for any set of transceivers in any state: forward_msg calls handle_data_msg for exactly the peers that are not the sender, running, and whose Rx frequency in frame FN "
             "(fixed or resolved through their own hopping sequence) equals the sender's Tx frequency in FN - once each, in order; forwarding and the tick never fail on any state reachable by "
             "datagram histories and touch nobody's queue/tuning/power; whole sessions of 2..6 transceivers (real Application wiring) compared with the extracted session model + "
             "independent reference of the routing rule from the implementation's own state.",
        note="partial: sockets/select loop/clock thread replaced by in-memory sockets and explicit ticks; delivery = written to the socket; option equality keeps the untuned None == None match "
             "of children powered on by their parent visible (not claimed as a defect). Oracle: radio configuration, wiring (who manages whom, from the --trx definitions), mute / drop / version all derived from the command "
             "history; fan-out sessions; implementation-level scenario 'SETFH handled between the ticks of two transceivers of one frame' (old sequence for the sender ticked before, new one for the sender ticked after); a burst arriving on the socket thread while the clock thread ticks (two real threads, random schedules) is never lost.",
        technique="Coq proof (induction over the transceiver list, invariants) + Gen + extracted session-model correspondence on the real Application + history-derived routing oracle", ref="7-C02"),
    "C10": dict(
        text="Theorems: the message handed to send_msg for a burst that is neither muted nor dropped has the sender's FN/TN, the recipient's version, bits mapped 0 -> +127 / non-zero -> -127, "
             "RSSI = nominal power - attenuation - burst attenuation - 110 or a draw inside the FAKE_RSSI window, ToA256 = draw in window - 256 x TA, C/I in window, modulation by burst length, "
             "TSC detection sound (the reported sequence is present at its position) and exact for generator-built access, normal and sync bursts; datagram = documented layout, v0 followed by two padding octets; "
             "defaults and the training-sequence table regenerated and proved equal to the hand-typed 45.002 tables; sessions with the real RandBurstGen compared with the model + independent metadata reference.",
        note="TSC of generator-built normal/sync bursts is proved under the side condition the detection rule imposes (no access-burst sequence at bits 8..48 of the payload); "
             "random draws are an explicit oracle list (randint replaced by lo + r mod (hi-lo+1) in the harness). The oracle takes the parameters in force (TA, attenuation, windows, mute, version) from the COMMAND "
             "HISTORY (C05's reference table), not from the objects, also across power cycles and refused commands. Implementation-level race scenario: SETFORMAT on the recipient racing the forwarding of a burst on two real "
             "threads with a preemption point at every read / write of the negotiated version (the datagram must be a well-formed one of the old or the new version).",
        technique="Coq proof + Gen tables by reflection + extracted session-model correspondence + metadata oracle from the command history + controlled two-thread schedules", ref="7-C10"),
    "C11": dict(
        text="42 Coq theorems for the regenerated real tables: for all 35 rows of the task <-> (combination, lchan, SACCH) table, all tn 0..7 and all current frames of the hyperframe: firmware block starts equal "
             "trxcon bid-0 frames per direction; TCH and SACCH/T agree frame by frame incl. TCH/H sub-channels; burst ids cyclic; every fn lookup stays inside the table; masks cover the channels used and l1sched_configure_ts "
             "(modelled: one state per mask bit) gives every used channel a channel state; every (config, tn) lookup is valid or NULL; both stacks report the same RSL channel number for every row; and for the four consumers of "
             "the lookup in sched_trx.c (handle_rx_burst with subst_frame_loss, pull_burst, rx_probe), for every layout, every channel state and every uint32 fn: no lookup leaves frames[] or l1sched_lchan_desc[]; every handler "
             "call, including every substituted one, is for a frame the layout gives to that channel with that row's burst id; the substituted frames are exactly the owned frames strictly between last_proc and fn; pull_burst "
             "reports the row's ul_bid and calls ul_chan's handler only. Firmware scheduler state (tasks / tasks_tgt / safe_fn with mframe_enable / disable / set / reset / schedule, 13 theorems): a tick makes exactly the "
             "per-tick core's calls for the tasks active after its update; a disable acts at the very next tick and the task stays off; mframe_schedule never writes tasks_tgt, so a request is never lost and becomes active at "
             "the first safe tick; safe_fn is the sentinel or at most 4 frames ahead modulo 2715648 (invariant through the wrap), so a requested task is active within 4 quiet consecutive ticks; from then on it starts its "
             "blocks exactly in the frames the trxcon layout gives its channel. trxcon's channel-number resolver l1sched_chan_nr2pchan_config (model = the real function on all 256 channel numbers, regenerated) maps the "
             "firmware's channel number of every dedicated table row on every timeslot to a combination under which that row's channel has exactly the firmware's block-start frames (BCCH / CCCH numbers resolve to NONE by design).",
        note="Finite: sweeps over one 102/104-frame cycle per row lifted by proved periodicity lemmas. The table pairing is specification content, cross-checked by chan_nr. On-air frame = cur + SCHEDULE_AHEAD. "
             "NONE layout (period 0) excluded (unreachable, kept visible in c11_none_layout_divzero); IDLE exempt from bid and mask checks. Not modelled: ciphering, the hand-over RACH handler override, unsigned long other than 64 bit, a TDMA bucket overflow return, frame-number jumps without reset (the firmware resets on resync). "
             "Liveness is stated for four explicit quiet ticks plus the invariant, not as one induction over histories with blocks started in between. Fixed in /repo: ec960db, 90d5f12 (stale safe_fn after the wrap / after long "
             "idle; their 1.36-million-tick witnesses stay as oracle regression cases).",
        technique="Coq proof (vm_compute sweeps + periodicity lemmas; functional normal form of l1sched_handle_rx_burst) over Gen tables dumped through the real C symbols + correspondence with the real mframe_schedule() / layout lookup / "
                  "l1sched_configure_ts() / handle_rx_burst / pull_burst / rx_probe (real sched_trx.c with recording handler stubs generated from the declaration text, ASan/UBSan; sanitizer stops minimised to 2-burst replays) + histories of requests and ticks on the real mframe_sched.c (TDMA sets generated from the text of prim_*.c) + invariant proof for safe_fn + oracle on recorded calls", ref="7-C11"),
    "C12": dict(
        text="Theorems: a power event sets exactly the affected transceivers (self + children of a managing parent), power-off clears queue and hopping; after any event history running = last effective event; "
             "control datagrams change power only through POWEROFF / a POWERON that finds the transceiver idle and tuned or hopping; invariant over ALL control datagram histories: clock links = running clock owners, "
             "no duplicates, generator runs iff non-empty; port plan injective; sessions through the real Application constructor (random --trx wiring) vs the model + reference of the documented semantics, "
             "port plan and clock-indication destinations observed on the created sockets; routing sessions (shared with C02) judge the power state by what every OTHER transceiver receives: a powered-off one gets nothing and hides nobody.",
        note="partial: the clock thread's loop is replaced by explicit ticks through the real send_clck_ind(); its body up to the first wait (the SCHED_RR request, against a sched_setscheduler stand-in with the kernel's rules: EINVAL "
             "outside 1..99, EPERM unprivileged) runs for real at every start(), a worker that dies there is a dead thread, and liveness afterwards follows the breaker event; configurations whose children own no clock (what Application builds). Generators: child indices incl. two-digit ones, "
             "peers on different hosts (-R / -r / --trx addresses) with the expected peer address of every link derived from the command line, base ports of either parity.",
        technique="Coq proof (invariant over histories) + Gen + extracted session-model correspondence + port/links oracle on the real objects", ref="7-C12"),
    "C15": dict(
        text="For every list of valid Tx/Rx messages: append writes tag + BE16 length + message records; a full read returns them in order, equal in every carried field; parse_msg(i) is the i-th / None; "
             "skip/count select exactly firstn count (skipn skip ms); for every cut offset k, reading the first k octets returns exactly the messages whose records end at or before k, without exception; "
             "18 Coq theorems (5 of them over ALL histories of appends / reads by index / full and sliced reads on one capture: the file is always the initial messages followed by every appended one and each read answers for exactly that list) on a model built on the TRXD codec model (C01 round trips reused), tags/HDR_LENGTH regenerated, differential correspondence with the real DATADumpFile (BytesIO and on-disk); appends and reads mixed on one object opened by path, with and without a flush by the caller; whole histories against the extracted history model; append_all fed by a lazy iterable reading the same capture. Fixed in /repo: 72dc55d (append after a read).",
        note="Non-Tx/Rx objects, non-integer skip/count and damage other than a clean cut are outside the theorems (damaged files: correspondence only). On a cut file with a surviving 3-octet header "
             "parse_all(skip = complete+1) returns [] instead of False (stated as c15_truncation_slice; not a violation of the statement).",
        technique="Coq proof over an executable model + Gen by reflection + extracted model vs real class (index, skip/count grid, truncation at every offset, damaged files)", ref="7-C15"),
    "C01": dict(
        text="Theorems for all messages: gen_msg/parse_msg round trip for TxMsg (exact) and RxMsg (every field the version carries; v0/v1, all six modulations x TSC sets x TSC, NOPE, "
             "both burst lengths, soft bits in [-127,127]), legacy padding irrelevant, every in-range message encodable; modulation table, ranges and the four 256-entry translate tables "
             "regenerated by reflection and swept exhaustively; extracted model compared with the real classes on generated + mutated datagrams; long-lived objects and ONE shared receive buffer reused for every datagram (a parsed message owns its data).",
        note="parse_msg is modelled with checked indexing (Crash constructor) and ValueError (VErr); CPython semantics of struct/bytes.translate/slicing are trusted as modelled.",
        technique="Coq proof (lia, finite sweeps lifted, list induction) + Gen by reflection + extracted-model correspondence", ref="7-C01"),
    "C06": dict(
        text="24 Coq theorems for all payloads, histories and capacities about an executable model of sercomm Tx and Rx (transparency, streams with noise, over-long resync and memory safety, "
             "non-preemptive priority/FIFO refinement, end-to-end) and of osmocon's driver glue handle_sercomm_write (repeated calls write exactly the stream sercomm_drv_pull yields, in chunks of at most 256 octets, end reported only "
             "by the call that drains the queues; every queued message is delivered intact through the glue); tied by Gen constants dumped through the real sercomm.c, the real text of handle_sercomm_write extracted from osmocon.c on "
             "every run and compiled next to the real sercomm.c, and differential correspondence with the ASan/UBSan host build.",
        note="Delivery is proved for DLCIs not in {0, 0x7D, 0x7E} and for streams without noise directly after a frame longer than the buffer; both exclusions are refuted lemmas and known findings "
             "(c06-dlci-needs-escape, c06-noise-after-overlong). Target IRQ locking not modelled; literals 0x00 and 1<<5 tied by correspondence only. osmocon: only handle_sercomm_write (write() always completes in the harness; "
             "the dnload struct is a stand-in with the members used).",
        technique="Coq inductive proofs (simulation invariant, vm_compute witnesses) + extracted model vs real C under sanitizers on op scripts + delivery oracle", ref="7-C06"),
    "C07": dict(
        text="Theorems for all HSN 0..63, MAIO, N 1..64, FN of the hyperframe: firmware rfch_hop_seq_gen and HoppingParams.resolve both compute the 45.002 6.2.3 MAI (arithmetic reduction by lia + "
             "499 392-case vm_compute sweep lifted), table reads in bounds, both select MA[MAI]; RNTABLE of both implementations regenerated and proved equal to the hand-typed standard table; "
             "complete reduced domain executed on the real rfch.c (and on Python in thorough). Frequency redefinition (prim_freq.c l1s_freq_cmd, 8 further theorems, 12 in all): after the command at the starting time the channel of every frame is the one 45.002 "
             "selects from the STAGED parameters (any list of 1..64 channels; non-hopping case; training sequence), staging alone leaves the active channel as it was; executed through the real prim_freq.c + sched_gsmtime.c + tdma_sched.c.",
        note="rfch.c is #included in the harness (static table and function reached through rfch_get_params); l1s.dedicated configured by the harness; the L1CTL handler that fills the staged fields (l23_api.c) is modelled, not verified.",
        technique="Coq proof (lia reduction + lifted vm_compute sweep) + Gen tables (reflection / C dumper) + extracted-model correspondence", ref="7-C07"),
    "C08": dict(
        text="36 Coq theorems. tdma_sched.c (22), over all valid histories and all well-formed states: refinement of the bucket ring to a (frames-until-due, item) multiset, slot-level exactly-once-on-time, "
             "sorted permutation (the C seq[] selection sort proved equal to a scan sort), set offsets, overflow reporting, nothing-else; and the re-entrant run loop: callbacks that call tdma_schedule() / "
             "tdma_sched_reset() while tdma_sched_execute() runs (conservative extension of the pure-callback model, no crash / no fuel exhaustion, general shape of one call, same-frame child runs once in the very call "
             "and is counted, child N ahead lands in frame N, full frame answers -1 without overwriting, reset-then-schedule pattern, a held item runs exactly N advances later also in histories with scheduling callbacks); "
             "differential correspondence of the extracted model with the real tdma_sched.c, whose harness callbacks really call tdma_schedule/tdma_sched_reset from inside tdma_sched_execute. "
             "sched_gsmtime.c (14, as repaired by 9c8dce2): the 16-slot event pool as linked lists; invariants for all histories (active list sorted by fn, active ++ inactive a permutation of the 16 slots); sorted insert "
             "(before the first higher fn, equal fns keep request order); -EBUSY with the state untouched exactly when 16 events are pending; an event requested for ANY hyperframe frame F (0 and 1 included), with the executes "
             "in between being the running clock modulo 2715648 and no reset, is handed to tdma_schedule_set(1, si, p3) exactly once, by the execute of frame (F-2) mod 2715648, never otherwise; the early break cannot lose an "
             "event (sortedness, any target); reset frees all; projection theorem (the TDMA side of a combined history is the TDMA model on the expanded history, so all 22 TDMA theorems apply); composed: the event's items "
             "run in frame F-1+k. Harness mode gsm runs the real sched_gsmtime.c + tdma_sched.c (both lists dumped) against the extracted model and an event-level reference oracle.",
        note="History theorems (refinement, exactly-once-on-time, sets, capacity, nothing-else) are stated for callbacks that do not touch the scheduler; c08_sp_conservative(_history) proves the re-entrant model equals that model "
             "whenever no scheduling callback is stored. Single-callback theorems assume one scheduling callback per running frame (more: general shape theorem + correspondence + oracle); no multiset-refinement theorem for "
             "re-entrant histories; children are plain callbacks; callbacks calling advance/execute are not modelled. Results below 0 and offsets >= 25 are examples outside the property. Tie = regenerated constants + ASan/UBSan host build. "
             "sched_gsmtime: stale requests (frame current or next) fire one hyperframe late and requests with fn >= 2715648 never fire (stated as theorems, as the code does); the composed theorem assumes the set fits "
             "and the event is alone in its frame (several events per frame: projection + correspondence + oracle); the dropped return value of tdma_schedule_set on overflow is visible in the model only; "
             "sched_gsmtime_init called twice is not modelled. Fixed in /repo: 9c8dce2 (events for frames 0/1 never handed over; three fixed wrap histories and oracle key c08-gsmtime-frame01-never-fires guard it).",
        technique="Coq refinement/invariant proofs (explicit uint8/uint16/int16, fuel-bounded re-entrant run loop) + Gen constants from a C dumper + extracted model vs real C on generated histories (three wire functions: with / without "
                  "scheduling callbacks, event scheduler) + sched_gsmtime.c #included in the same harness (real llist operations) + implementation-level reference oracles (event level feeding the TDMA level)", ref="7-C08"),
    "C09": dict(
        text="Coq proof (axiom-free) of frame-number sequence, exact indications and payload, no-drift, overrun resynchronisation, tick spacing / window bound and restart for the executable model of "
             "CLCKGen over virtual time, for all delay patterns, start frames, periods != 0, link counts and tick lengths; tied by regenerated constants and differential execution of the unmodified CLCKGen under a virtual clock.",
        note="partial: real Event.wait jitter, thread start latency and asynchronous stop() timing belong to the runtime and enter only as model inputs (oversleep j, gap); handler or link exceptions are not modelled; "
             "implementation-only scenarios (no model counterpart, judged by the oracle): stop() from a second real thread during a handler (a join with a timeout expires in virtual time), links attached / detached while the clock runs "
             "(through the generator's attribute and through the list handed to the constructor, also starting from no link), a second generator started / stopped during a wait, a refused start(), a refused SCHED_RR request; "
             "ind_period = 0 and clck_start outside the hyperframe are outside the domain (stated as theorems).",
        technique="Coq proof about a transition-system model + Gen constants (tick measured on the real _worker) + virtual-clock differential correspondence + oracle with shrinking", ref="7-C09"),
    "C13": dict(
        text="Theorems for all messages (fields option-valued): validate() = Ok iff the literal protocol ranges (spec_tx/spec_rx), validation and gen_msg raise nothing but ValueError, gen_msg succeeds iff validate, "
             "send_msg emits exactly one datagram iff validate else none; range constants regenerated by reflection; correspondence on the boundary product of all fields incl. None (complete in thorough) observing "
             "validate(), gen_msg() and DATAInterface.send_msg() on a fake socket; header-version negotiation is driven before the sweeps (it shares the known-version list with validate()).",
        note="values are typed as the toolkit uses them (ints or None, bytearray / array('b') bursts); other Python types are outside the model.",
        technique="Coq proof (case analysis + lia) + Gen by reflection + extracted-model correspondence on the boundary product", ref="7-C13"),
    "C18": dict(
        text="Theorems for all streams: the FAKE_DROP counter/filter suppresses exactly the first n bursts whose FN is a multiple of the period (any stream of frame numbers), lifted to handle_data_msg over any burst stream "
             "(no crash for reachable parameters), mute suppresses everything without consuming the counter, suppressed = nothing on v0 / exactly one NOPE (no bits, RSSI -110, ToA 0, C/I -30, parses back) on v1, "
             "negative amounts / non-positive periods rejected without state change; whole sessions on the real Application compared with the extracted session model + independent reference of the drop pattern; "
             "fan-out sessions (several recipients with their own counters, mute flags and versions); one FAKE_DROP / RFMUTE command racing the tick that decides about a burst on two real threads under controlled schedules, "
             "judged by a serialisability oracle; bursts are also queued ahead of the clock with RFMUTE / FAKE_DROP arriving while they wait.",
        note="partial: sockets, select loop and the clock thread are replaced by in-memory sockets and explicit ticks; control arguments are decimal integers (other tokens: C14). The thread schedules are an implementation-level "
             "scenario (preemption where the code calls out to logging or takes a lock), not part of the Coq model. One defect found by it was repaired in /repo (c49a49d: counter decremented after the log call).",
        technique="Coq proof (induction over the burst stream) + Gen constants + extracted session-model correspondence on the real Application + controlled two-thread schedules with a serialisability oracle", ref="7-C18"),
    "C20": dict(
        text="52 Coq theorems over all 1024-entry frequency tables, all bitmaps and all uint8 lengths. Decoder: exact 44.018 10.5.2.21 list (ascending ARFCN, 0 last, LSB of last octet first, cut at the first bit beyond the cell "
             "allocation), subset / <= 64 / NoDup, HOPP flags, -EINVAL for len > 8, empty bitmap, memory safety for every length. Through the callers: for EVERY SI4 payload the tail of gsm48_decode_sysinfo4 and the decoder it calls "
             "never read behind the message (caller contract proved, not assumed), a message cut inside the CBCH Mobile Allocation / Channel Description IE gives -EIO with list, hopp_len and flags untouched, an accepted IE stores "
             "exactly the decoder's result on its value octets, before SI1 it is skipped. Through the SI4/SI1 history: the message is stored in si4_msg[23] and re-decoded when SI1 arrives - in bounds for every buffer content and "
             "every message length, and for every SI4 whose IE lies within the first 23 octets 'SI4 then SI1' and 'SI1 then SI4' end in the same state (the specified list); gsm48_rr_render_ma's mobile-allocation branch is in "
             "bounds for every content of mob_alloc_lv[9] and cell_desc_lv[17], incl. its Cell Channel Description sub-branch (length 0: unchanged table; length 16 bit map 0: the list is the specified one on the table whose cell "
             "allocation is exactly the description's - gsm48_decode_freq_list, vendored gsm48_ie.c linked in, clears the old allocation first; any other length: abnormal cause, nothing touched) and its final band-conversion loop (the channel numbers handed to L1 are exactly the decoded list, ARFCN_PCS marks exactly "
             "512..810 of a PCS cell, FREQ_NOT_IMPL iff some channel's band-index bit in set->freq_map is clear; verbatim gsm_refer_pcs / arfcn2index in the harness). Constants (EIO, IE tags, struct sizes, array bounds incl. si4_msg) regenerated from the source as compiled. Differential correspondence with the verbatim real functions "
             "(decoder, gsm48_decode_sysinfo4 + helpers, gsm48_decode_sysinfo1, gsm48_rr_render_ma) under ASan/UBSan, messages as exact-size heap blocks, the member behind si4_msg poisoned, one forked child per input; "
             "histories of two SI4 and one SI1 in every order. Assignment path (message -> cd_now.mob_alloc_lv): for every message the guards admit the array holds the length octet and exactly the value octets of "
             "the message, refused otherwise, in bounds for every message tail; composed with gsm48_rr_render_ma the list handed to L1 is the specified one for the bitmap in the message (IMMEDIATE ASSIGNMENT, IMMEDIATE "
             "ASSIGNMENT EXTENDED both request references; FREQUENCY REDEFINITION as a model instance); the real gsm48_rr_rx_imm_ass / _ext / gsm48_match_ra run verbatim in the harness. The consumer at the far end (trx_if.c): for every hopping list trxcon's SETFH composer queues exactly one command carrying HSN, MAIO and "
             "the 'rx tx' pairs of EVERY channel in order, or returns an error and queues nothing (c20_setfh_carries_exactly_the_list); the list the real decoder produces (1..64 channels, 900 / E-GSM / DCS bands) is handed to the real "
             "trx_if_cmd_setfh under ASan and judged by a specification oracle and the Coq model.",
        note="Two refuted strengthenings kept as theorems with witnesses (not reachable with 23-octet BCCH blocks; gsm48_rr.c does not check the length, grr.c does): an SI4 longer than 23 octets whose IE ends behind octet 23 is "
             "order dependent (c20_hist_order_long_refuted), a short SI4 without IE is re-decoded together with old buffer octets (c20_hist_short_stale_refuted). Not modelled: the fixed part of SI4/SI1 (LAI, cell selection, RACH), "
             "the rest octets (stubbed, call arguments observed), decode_freq_list (the table it leaves is given; stubbed in the harness), the memcmp duplicate filter in gsm48_rr.c; gsm48_rr_render_ma: the frequency-list / frequency-sequence branches are not modelled, gsm48_decode_freq_list is modelled for the bit map 0 "
             "format only (range / variable-bit-map formats: the set it flags is an explicit argument of the model, taken from the real function in the harness), the update of s->freq is in place (an assignment's Cell Channel "
             "Description replaces the serving cell's allocation - stated, not judged), struct osmocom_ms reduced to the members used; the ASSIGNMENT COMMAND / HANDOVER COMMAND copies (same LV copy behind an unmodelled TLV parser), execution of gsm48_rr_rx_frq_redef (model instance + theorems only), gsm48_rr_dl_est beyond its first call of "
             "gsm48_rr_render_ma (stand-in). Both callers ignore the decoder's return code, and gsm48_decode_sysinfo1 drops the re-decode's "
             "return code (all stated as theorems). Fixed in /repo: c20-len0-vla-overflow (1f7898e), c20-si4-ma-length-octet-overread (d574cef).",
        technique="Coq proof (list induction, invariants, extensionality of the decoder in the octets it reads, explicit buffer model of memcpy / re-decode, small vm_compute sweeps for bit-fields, concrete refutation witnesses) + "
                  "Gen regeneration + extraction-based differential testing against sanitizer-instrumented C (real function texts, real headers, exact-size message buffers, poisoned struct member)", ref="7-C20"),
    "C17": dict(
        text="25 Coq theorems: the six reflected PDU definitions of trxd_proto.py equal the documented structures and are well-formed, so C16's round trip applies to v0, v1 and v2 with any number of sub-PDUs; "
             "layout and round trip of every typed message, burst length by MOD code, NOPE without burst, reserved bits sent as zero and ignored end to end (main header, every sub-PDU header, Tx spare octets, any number of sub-PDUs), wrong version rejected, and acceptance of every v0/v1 "
             "datagram of the message codec (Model/Trxd.v) with equal field values; two strengthenings refuted with witnesses (= recorded findings). Differential run against the real PDU classes on datagrams of the real message codec (sweep over versions, the documented AND the codec's own burst lengths per modulation, NOPE indications built on objects whose modulation / TSC fields are still set, datagrams kept from long-lived message objects and decoded after the batch), random and damaged datagrams, v2 with 0..N sub-PDUs.",
        note="Definitions come from Gen by reflection and probing on every run (callback tables over the key fields' value domains); theorems are about the C16 codec model instantiated with them, tied to the source by "
             "the Gen-equals-spec obligation and a differential run against the real PDU classes."
             "Recorded findings: c17-mts-0111-unknown, c17-v0tx-legacy-pad-in-hard-bits. Fixed in /repo: c17-v0rx-legacy-gmsk-rejected (932bd90).",
        technique="Coq proof (reflection-generated deep-embedding terms, per-field step lemmas, vm_compute sweeps for header/MTS packing, reuse of C16 round-trip theorems and C01 layout lemmas) + extracted-model "
                  "differential correspondence + clause-by-clause implementation oracle", ref="7-C17"),
    "C19": dict(
        text="29 Coq theorems. Helpers: for every FN of the hyperframe and every delta 1..2715648 round trip, decomposition, incremental update incl. wrap, Python = C (model of gsm_fn2gsmtime / gsm_gsmtime2fn / "
             "l1s_time_inc / fn2gsm_time with C integer widths). The firmware's running time (model of the time part of l1_sync, synchronize_tdma, l1s_decode_sb and the fbsb re-initialisation): the invariant 'current_time "
             "and next_time are exact decompositions of frame numbers < 2715648 and next = current + 1 mod 2715648' is established by the first frame interrupt, preserved by every frame interrupt, by synchronize_tdma for "
             "every state / alignment and every fn_offset with 0 <= FN + offset < 2*2715648 (range proved exact, refuted outside with a witness), by re-initialisation from every sync burst word, and over arbitrary "
             "operation sequences (fold_left) - no frame skipped or repeated across 2715647 -> 0. Every call-site expression of the arithmetic in firmware/layer1 (prim_tch x2, prim_rx_nb x2, prim_fbsb, prim_rach, "
             "prim_freq) proved equal to (fn +- k) mod 2715648 on its full domain. Constants AND the call-site expressions are regenerated from the source text on every run (fail closed on an unknown shape, a new or "
             "vanished call site); the real sync.c is compiled whole (ASan/UBSan) and driven with histories compared state by state with the extracted model; each real site expression + the real gsm_fn2gsmtime is swept "
             "over all 2715648 frame numbers in C every run; complete hyperframe walk.",
        note="The statements about the sites are about the expressions as translated from the source (translator in vp/props/C19.py: + - * / %, parentheses, op=, one-line if, uint32 / int typing, macros resolved by "
             "compiling). Not modelled: the table branches of l1a_rach_req (only the final else + %=), l1a_freq_req's computation of diff, mframe_sched.c safe_fn (C11), apps/rssi, INT32_MIN fn_offset (undefined "
             "behaviour), tpu_window.c. Boot: nothing in sync.c initialises the two times, so frame 0 is current twice at start-up (c19_run_boot_refuted, kept as a theorem; not a violation of the statement, which is about "
             "stepping). synchronize_tdma with a total offset below frame 0 yields a garbage time (c19_run_sync_refuted); whether l1s_sbdet_resp can produce such an offset is not established. Fixed in /repo: 93f69a4 "
             "(prim_rx_nb x2), b9a3504 (prim_fbsb).",
        technique="Coq proof (lia over Euclidean division, bit-field bounds via testbit/log2, induction over operation lists) + source-text-to-Gallina call-site translator + Gen constants + extraction-based differential "
                  "correspondence with the real sync.c / gsm_utils.c + exhaustive C sweep of every site over the hyperframe",
        ref="7-C19"),
}

NOT_YET = "check still under construction at this commit (model of trxd_proto.py on the C16 embedding in progress; see DESIGN.md 7-C17)"


def main():
    ids = ["C%02d" % i for i in range(1, 21)]
    checks = []
    for pid in ids:
        if pid not in CLAIMED:
            continue
        c = CLAIMED[pid]
        checks.append(dict(
            property_id=pid,
            quick_cmd="./bin/check %s --tier quick" % pid,
            thorough_cmd="./bin/check %s --tier thorough" % pid,
            evidence_file="/verif/evidence/%s.json" % pid,
            replay_cmd_template="./bin/check %s --replay {path}" % pid,
            engine="coq-proofs+extracted-model",
            level_claimed=dict(category="proof", text=c["text"], design_ref=c["ref"]),
            level_note=BASE_NOTE + c["note"],
            technique=c["technique"]))
    man = dict(
        version=1,
        setup_cmd="./bin/setup",
        hooks=dict(guard="OSMOCOM_BB_VERIF", enable="none needed: no source hooks (harnesses reach everything from outside)",
                   baseline_off_cmd="cd /repo && /venv/bin/python -m pytest -ra -q -p no:cacheprovider --timeout=900 --continue-on-collection-errors",
                   source_commits=[], add_only=True),
        engines=[
            dict(name="coq-proofs", path="coq/theories", serves_properties=sorted(CLAIMED), kind_free_text="Coq 8.16 models, lemmas and property theorems; own coqc dependency driver (vp/common.py)"),
            dict(name="extracted-model", path="ocaml/driver.ml", serves_properties=sorted(CLAIMED), kind_free_text="ExtrOcamlBasic extraction of the models, generic int-line driver"),
            dict(name="harnesses", path="vp/props", serves_properties=sorted(CLAIMED), kind_free_text="per-property Gen translators, case generators, implementation drivers (in-process Python, C harnesses under ASan/UBSan), oracles"),
        ],
        checks=checks,
        notes="See DESIGN.md. Every check: regenerate Gen from /repo, rebuild the property's Coq cone, audit assumptions, run the extracted model against the implementation, run the implementation-level oracle.",
        not_applicable=[dict(property_id=p, reason=NOT_YET) for p in ids if p not in CLAIMED],
    )
    with open(os.path.join(ROOT, "MANIFEST.json"), "w") as f:
        json.dump(man, f, indent=1)
        f.write("\n")


if __name__ == "__main__":
    main()
