"""writes MANIFEST.json from the table below (kept as code so that it is always schema-shaped)"""
import json
import os

ROOT = os.path.dirname(os.path.dirname(os.path.abspath(__file__)))

BASE_NOTE = ("Trusted: Coq 8.16.1 kernel/VM, no axioms (Print Assumptions audited each run), ExtrOcamlBasic extraction + OCaml 4.13.1, "
             "the Gen translators and the correspondence harness (differential testing, not proof). The theorems are about the Gallina model; ")

CLAIMED = {
    "C03": dict(
        text="Theorems over ALL histories of one transceiver (arrivals of any octets, ticks of any frame numbers, power and version commands): accepted = emitted + stale + cleared + queued for every class of bursts "
             "(no loss, no duplication), emitted only in the tick of its own frame, stale only for smaller frame numbers, a tick emits exactly the queued bursts of that frame in order, power-off clears; "
             "the application tick does exactly this to every queue; and over ALL thread schedules (any length) of one arrival / POWEROFF / POWERON racing one tick at the granularity of lock sections and single "
             "reads/writes of running / fh: conservation, on-time, no crash unless hopping + POWEROFF (refuted lemma = recorded finding). Sessions on the real Application vs the model; schedules driven on two real "
             "threads over real FakeTRX objects (all 4096 prefixes per scenario in thorough) vs the extracted race model.",
        note="partial: atomicity granularity (lock sections; one attribute access under the GIL) is assumed, preemption inside a bytecode or inside socket.sendto is not modelled. Recorded findings: "
             "c03-fh-race (double read of self.fh), c03-hyperframe-wrap-stale (numeric frame comparison across the wrap).",
        technique="Coq proof (history invariants; one-step invariants over arbitrary schedules) + extracted models vs real objects (sessions; controlled schedules on real threads)", ref="7-C03"),
    "C05": dict(
        text="Theorems: for every ASCII control datagram on any reachable world exactly one reply 'RSP verb status args [results] NUL' iff it begins with CMD, else none and no change; the command table "
             "(POWERON refusal conditions, POWEROFF, RXTUNE/TXTUNE, SETFH effect for any number of channels and -1 for HSN outside 0..63, SETFORMAT applied / suggested / -1, MEASURE, SETPOWER, NOMTXPOWER, RFMUTE, "
             "SETTA, FAKE_*, unknown verbs -> 0 without effect) for decimal arguments; no command crashes or leaves the reachable region; trxcon side (model of trx_if.c): every reply to a command trxcon emits is "
             "matched and decided by its status, and trxcon's longest command (SETFH) fits the toolkit's receive size. Sessions vs model + independent reference table + end to end through the real trx_if.c.",
        note="well-formed = ASCII decimal arguments (py_int models int() on ASCII tokens; other tokens: C14); control receive size probed through a fake socket; TRXC_BUF_SIZE as compiled; "
             "time.sleep of FAKE_TRXC_DELAY virtualised.",
        technique="Coq proof (case analysis per verb, invariants) + Gen (probed sizes, compiled constants) + extracted-model correspondence + real trx_if.c harness", ref="7-C05"),
    "C02": dict(
        text="Theorems for any set of transceivers in any state: forward_msg calls handle_data_msg for exactly the peers that are not the sender, running, and whose Rx frequency in frame FN "
             "(fixed or resolved through their own hopping sequence) equals the sender's Tx frequency in FN - once each, in order; forwarding and the tick never fail on any state reachable by "
             "datagram histories and touch nobody's queue/tuning/power; whole sessions of 2..6 transceivers (real Application wiring) compared with the extracted session model + "
             "independent reference of the routing rule from the implementation's own state.",
        note="partial: sockets/select loop/clock thread replaced by in-memory sockets and explicit ticks; delivery = written to the socket; option equality keeps the untuned None == None match "
             "of children powered on by their parent visible (not claimed as a defect).",
        technique="Coq proof (induction over the transceiver list, invariants) + Gen + extracted session-model correspondence on the real Application", ref="7-C02"),
    "C10": dict(
        text="Theorems: the message handed to send_msg for a burst that is neither muted nor dropped has the sender's FN/TN, the recipient's version, bits mapped 0 -> +127 / non-zero -> -127, "
             "RSSI = nominal power - attenuation - burst attenuation - 110 or a draw inside the FAKE_RSSI window, ToA256 = draw in window - 256 x TA, C/I in window, modulation by burst length, "
             "TSC detection sound (the reported sequence is present at its position) and exact for generator-built access, normal and sync bursts; datagram = documented layout, v0 followed by two padding octets; "
             "defaults and the training-sequence table regenerated and proved equal to the hand-typed 45.002 tables; sessions with the real RandBurstGen compared with the model + independent metadata reference.",
        note="TSC of generator-built normal/sync bursts is proved under the side condition the detection rule imposes (no access-burst sequence at bits 8..48 of the payload); "
             "random draws are an explicit oracle list (randint replaced by lo + r mod (hi-lo+1) in the harness).",
        technique="Coq proof + Gen tables by reflection + extracted session-model correspondence + metadata oracle", ref="7-C10"),
    "C11": dict(
        text="Machine-checked for the regenerated real tables: for all 35 rows of the task <-> (combination, lchan, SACCH) table, all tn 0..7 and all current frames of the hyperframe: firmware block starts equal "
             "trxcon bid-0 frames per direction; TCH and SACCH/T agree frame by frame incl. TCH/H sub-channels; burst ids cyclic; every fn lookup stays inside the table; masks cover the channels used; "
             "every (config, tn) lookup is valid or NULL; both stacks report the same RSL channel number for every row.",
        note="Finite: sweeps over one 102/104-frame cycle per row lifted by proved periodicity lemmas. The table pairing is specification content, cross-checked by chan_nr. On-air frame = cur + SCHEDULE_AHEAD. "
             "NONE layout (period 0) excluded (unreachable); IDLE exempt from bid and mask checks.",
        technique="Coq proof (vm_compute sweeps + periodicity lemmas) over Gen tables dumped through the real C symbols + correspondence with the real mframe_schedule()/layout lookup + oracle on recorded calls", ref="7-C11"),
    "C12": dict(
        text="Theorems: a power event sets exactly the affected transceivers (self + children of a managing parent), power-off clears queue and hopping; after any event history running = last effective event; "
             "control datagrams change power only through POWEROFF / a POWERON that finds the transceiver idle and tuned or hopping; invariant over ALL control datagram histories: clock links = running clock owners, "
             "no duplicates, generator runs iff non-empty; port plan injective; sessions through the real Application constructor (random --trx wiring) vs the model + reference of the documented semantics, "
             "port plan and clock-indication destinations observed on the created sockets.",
        note="partial: thread liveness of the clock generator is equated with start()/stop() calls (fake thread); configurations whose children own no clock (what Application builds).",
        technique="Coq proof (invariant over histories) + Gen + extracted session-model correspondence + port/links oracle on the real objects", ref="7-C12"),
    "C15": dict(
        text="For every list of valid Tx/Rx messages: append writes tag + BE16 length + message records; a full read returns them in order, equal in every carried field; parse_msg(i) is the i-th / None; "
             "skip/count select exactly firstn count (skipn skip ms); for every cut offset k, reading the first k octets returns exactly the messages whose records end at or before k, without exception; "
             "13 Coq theorems on a model built on the TRXD codec model (C01 round trips reused), tags/HDR_LENGTH regenerated, differential correspondence with the real DATADumpFile (BytesIO and on-disk).",
        note="Non-Tx/Rx objects, non-integer skip/count and damage other than a clean cut are outside the theorems (damaged files: correspondence only). On a cut file with a surviving 3-octet header "
             "parse_all(skip = complete+1) returns [] instead of False (stated as c15_truncation_slice; not a violation of the statement).",
        technique="Coq proof over an executable model + Gen by reflection + extracted model vs real class (index, skip/count grid, truncation at every offset, damaged files)", ref="7-C15"),
    "C01": dict(
        text="Theorems for all messages: gen_msg/parse_msg round trip for TxMsg (exact) and RxMsg (every field the version carries; v0/v1, all six modulations x TSC sets x TSC, NOPE, "
             "both burst lengths, soft bits in [-127,127]), legacy padding irrelevant, every in-range message encodable; modulation table, ranges and the four 256-entry translate tables "
             "regenerated by reflection and swept exhaustively; extracted model compared with the real classes on generated + mutated datagrams.",
        note="parse_msg is modelled with checked indexing (Crash constructor) and ValueError (VErr); CPython semantics of struct/bytes.translate/slicing are trusted as modelled.",
        technique="Coq proof (lia, finite sweeps lifted, list induction) + Gen by reflection + extracted-model correspondence", ref="7-C01"),
    "C06": dict(
        text="Coq theorems for all payloads, histories and capacities about an executable model of sercomm Tx and Rx (transparency, streams with noise, over-long resync and memory safety, "
             "non-preemptive priority/FIFO refinement, end-to-end); tied by Gen constants dumped through the real sercomm.c and differential correspondence with the ASan/UBSan host build.",
        note="Delivery is proved for DLCIs not in {0, 0x7D, 0x7E} and for streams without noise directly after a frame longer than the buffer; both exclusions are refuted lemmas and known findings "
             "(c06-dlci-needs-escape, c06-noise-after-overlong). Target IRQ locking not modelled; literals 0x00 and 1<<5 tied by correspondence only.",
        technique="Coq inductive proofs (simulation invariant, vm_compute witnesses) + extracted model vs real C under sanitizers on op scripts + delivery oracle", ref="7-C06"),
    "C07": dict(
        text="Theorems for all HSN 0..63, MAIO, N 1..64, FN of the hyperframe: firmware rfch_hop_seq_gen and HoppingParams.resolve both compute the 45.002 6.2.3 MAI (arithmetic reduction by lia + "
             "499 392-case vm_compute sweep lifted), table reads in bounds, both select MA[MAI]; RNTABLE of both implementations regenerated and proved equal to the hand-typed standard table; "
             "complete reduced domain executed on the real rfch.c (and on Python in thorough).",
        note="rfch.c is #included in the harness (static table and function reached through rfch_get_params); l1s.dedicated configured by the harness.",
        technique="Coq proof (lia reduction + lifted vm_compute sweep) + Gen tables (reflection / C dumper) + extracted-model correspondence", ref="7-C07"),
    "C08": dict(
        text="13 Coq theorems over all valid histories and all well-formed states: refinement of the bucket ring to a (frames-until-due, item) multiset, slot-level exactly-once-on-time, "
             "sorted permutation (the C seq[] selection sort proved equal to a scan sort), set offsets, overflow reporting, nothing-else; differential correspondence of the extracted model with the real tdma_sched.c.",
        note="Callbacks are pure functions of the item (scheduling from inside a callback is not modelled). Results below 0 and offsets >= 25 are examples outside the property. Tie = regenerated constants + ASan/UBSan host build.",
        technique="Coq refinement/invariant proofs + Gen constants from a C dumper + extracted model vs real C on generated histories + reference oracle", ref="7-C08"),
    "C09": dict(
        text="Coq proof (axiom-free) of frame-number sequence, exact indications and payload, no-drift, overrun resynchronisation, tick spacing / window bound and restart for the executable model of "
             "CLCKGen over virtual time, for all delay patterns, start frames, periods != 0, link counts and tick lengths; tied by regenerated constants and differential execution of the unmodified CLCKGen under a virtual clock.",
        note="partial: real Event.wait jitter, thread start latency and asynchronous stop() timing belong to the runtime and enter only as model inputs (oversleep j, gap); handler or link exceptions are not modelled; "
             "ind_period = 0 and clck_start outside the hyperframe are outside the domain (stated as theorems).",
        technique="Coq proof about a transition-system model + Gen constants (tick measured on the real _worker) + virtual-clock differential correspondence + oracle with shrinking", ref="7-C09"),
    "C13": dict(
        text="Theorems for all messages (fields option-valued): validate() = Ok iff the literal protocol ranges (spec_tx/spec_rx), validation and gen_msg raise nothing but ValueError, gen_msg succeeds iff validate, "
             "send_msg emits exactly one datagram iff validate else none; range constants regenerated by reflection; correspondence on the boundary product of all fields incl. None (complete in thorough) observing "
             "validate(), gen_msg() and DATAInterface.send_msg() on a fake socket.",
        note="values are typed as the toolkit uses them (ints or None, bytearray / array('b') bursts); other Python types are outside the model.",
        technique="Coq proof (case analysis + lia) + Gen by reflection + extracted-model correspondence on the boundary product", ref="7-C13"),
    "C18": dict(
        text="Theorems for all streams: the FAKE_DROP counter/filter suppresses exactly the first n bursts whose FN is a multiple of the period (any stream of frame numbers), lifted to handle_data_msg over any burst stream "
             "(no crash for reachable parameters), mute suppresses everything without consuming the counter, suppressed = nothing on v0 / exactly one NOPE (no bits, RSSI -110, ToA 0, C/I -30, parses back) on v1, "
             "negative amounts / non-positive periods rejected without state change; whole sessions on the real Application compared with the extracted session model + independent reference of the drop pattern.",
        note="partial: sockets, select loop and the clock thread are replaced by in-memory sockets and explicit ticks; control arguments are decimal integers (other tokens: C14).",
        technique="Coq proof (induction over the burst stream) + Gen constants + extracted session-model correspondence on the real Application", ref="7-C18"),
    "C20": dict(
        text="Coq theorems over all 1024-entry frequency tables, all bitmaps and all uint8 lengths: exact 44.018 10.5.2.21 list (ascending ARFCN, 0 last, LSB of last octet first, cut at the first bit beyond the cell allocation), "
             "subset / <= 64 / NoDup, HOPP flags, -EINVAL for len > 8, empty bitmap, memory safety for every length; constants incl. the local array bound regenerated from the source as compiled; "
             "differential correspondence with the textually extracted real function under ASan/UBSan, one forked child per input.",
        note="Caller contract len <= IE buffer is a hypothesis; callers are not modelled; the uninitialised value of f[i] logged by LOGP is not modelled.",
        technique="Coq proof (list induction, invariants) + Gen regeneration + extraction-based differential testing against sanitizer-instrumented C", ref="7-C20"),
    "C19": dict(
        text="Theorems for every FN of the hyperframe and every delta 1..2715648 (round trip, decomposition, incremental update incl. wrap, Python = C) about a model "
             "of gsm_fn2gsmtime/gsm_gsmtime2fn/l1s_time_inc/fn2gsm_time with C integer widths; modulus constants regenerated from the compiled header and the imported module; "
             "extracted model compared with the real C (ASan/UBSan) and Python functions; complete hyperframe walk on the C code every run.",
        note="l1s_time_inc is extracted textually from sync.c (its translation unit needs the ARM environment); gsm_utils.c is the vendored file compiled as is.",
        technique="Coq proof (lia over Euclidean division) + Gen constants + extracted-model correspondence",
        ref="7-C19"),
}

NOT_YET = "check not built yet in this round (work in progress; see DESIGN.md section 7 for the plan)"


def main():
    ids = ["C%02d" % i for i in range(1, 21)]
    checks = []
    for pid in ids:
        if pid not in CLAIMED:
            continue
        c = CLAIMED[pid]
        checks.append(dict(
            property_id=pid,
            quick_cmd="./bin/check %s --tier quick" % pid,
            thorough_cmd="./bin/check %s --tier thorough" % pid,
            evidence_file="/verif/evidence/%s.json" % pid,
            replay_cmd_template="./bin/check %s --replay {path}" % pid,
            engine="coq-proofs+extracted-model",
            level_claimed=dict(category="proof", text=c["text"], design_ref=c["ref"]),
            level_note=BASE_NOTE + c["note"],
            technique=c["technique"]))
    man = dict(
        version=1,
        setup_cmd="./bin/setup",
        hooks=dict(guard="OSMOCOM_BB_VERIF", enable="none needed: no source hooks (harnesses reach everything from outside)",
                   baseline_off_cmd="cd /repo && /venv/bin/python -m pytest -ra -q -p no:cacheprovider --timeout=900 --continue-on-collection-errors",
                   source_commits=[], add_only=True),
        engines=[
            dict(name="coq-proofs", path="coq/theories", serves_properties=sorted(CLAIMED), kind_free_text="Coq 8.16 models, lemmas and property theorems; own coqc dependency driver (vp/common.py)"),
            dict(name="extracted-model", path="ocaml/driver.ml", serves_properties=sorted(CLAIMED), kind_free_text="ExtrOcamlBasic extraction of the models, generic int-line driver"),
            dict(name="harnesses", path="vp/props", serves_properties=sorted(CLAIMED), kind_free_text="per-property Gen translators, case generators, implementation drivers (in-process Python, C harnesses under ASan/UBSan), oracles"),
        ],
        checks=checks,
        notes="See DESIGN.md. Every check: regenerate Gen from /repo, rebuild the property's Coq cone, audit assumptions, run the extracted model against the implementation, run the implementation-level oracle.",
        not_applicable=[dict(property_id=p, reason=NOT_YET) for p in ids if p not in CLAIMED],
    )
    with open(os.path.join(ROOT, "MANIFEST.json"), "w") as f:
        json.dump(man, f, indent=1)
        f.write("\n")


if __name__ == "__main__":
    main()
