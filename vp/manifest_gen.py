"""writes MANIFEST.json from the table below (kept as code so that it is always schema-shaped)"""
import json
import os

ROOT = os.path.dirname(os.path.dirname(os.path.abspath(__file__)))

BASE_NOTE = ("Trusted: Coq 8.16.1 kernel/VM, no axioms (Print Assumptions audited each run), ExtrOcamlBasic extraction + OCaml 4.13.1, "
             "the Gen translators and the correspondence harness (differential testing, not proof). The theorems are about the Gallina model; ")

CLAIMED = {
    "C19": dict(
        text="Theorems for every FN of the hyperframe and every delta 1..2715648 (round trip, decomposition, incremental update incl. wrap, Python = C) about a model "
             "of gsm_fn2gsmtime/gsm_gsmtime2fn/l1s_time_inc/fn2gsm_time with C integer widths; modulus constants regenerated from the compiled header and the imported module; "
             "extracted model compared with the real C (ASan/UBSan) and Python functions; complete hyperframe walk on the C code every run.",
        note="l1s_time_inc is extracted textually from sync.c (its translation unit needs the ARM environment); gsm_utils.c is the vendored file compiled as is.",
        technique="Coq proof (lia over Euclidean division) + Gen constants + extracted-model correspondence",
        ref="7-C19"),
}

NOT_YET = "check not built yet in this round (work in progress; see DESIGN.md section 7 for the plan)"


def main():
    ids = ["C%02d" % i for i in range(1, 21)]
    checks = []
    for pid in ids:
        if pid not in CLAIMED:
            continue
        c = CLAIMED[pid]
        checks.append(dict(
            property_id=pid,
            quick_cmd="./bin/check %s --tier quick" % pid,
            thorough_cmd="./bin/check %s --tier thorough" % pid,
            evidence_file="/verif/evidence/%s.json" % pid,
            replay_cmd_template="./bin/check %s --replay {path}" % pid,
            engine="coq-proofs+extracted-model",
            level_claimed=dict(category="proof", text=c["text"], design_ref=c["ref"]),
            level_note=BASE_NOTE + c["note"],
            technique=c["technique"]))
    man = dict(
        version=1,
        setup_cmd="./bin/setup",
        hooks=dict(guard="OSMOCOM_BB_VERIF", enable="none needed: no source hooks (harnesses reach everything from outside)",
                   baseline_off_cmd="cd /repo && /venv/bin/python -m pytest -ra -q -p no:cacheprovider --timeout=900 --continue-on-collection-errors",
                   source_commits=[], add_only=True),
        engines=[
            dict(name="coq-proofs", path="coq/theories", serves_properties=sorted(CLAIMED), kind_free_text="Coq 8.16 models, lemmas and property theorems; own coqc dependency driver (vp/common.py)"),
            dict(name="extracted-model", path="ocaml/driver.ml", serves_properties=sorted(CLAIMED), kind_free_text="ExtrOcamlBasic extraction of the models, generic int-line driver"),
            dict(name="harnesses", path="vp/props", serves_properties=sorted(CLAIMED), kind_free_text="per-property Gen translators, case generators, implementation drivers (in-process Python, C harnesses under ASan/UBSan), oracles"),
        ],
        checks=checks,
        notes="See DESIGN.md. Every check: regenerate Gen from /repo, rebuild the property's Coq cone, audit assumptions, run the extracted model against the implementation, run the implementation-level oracle.",
        not_applicable=[dict(property_id=p, reason=NOT_YET) for p in ids if p not in CLAIMED],
    )
    with open(os.path.join(ROOT, "MANIFEST.json"), "w") as f:
        json.dump(man, f, indent=1)
        f.write("\n")


if __name__ == "__main__":
    main()
