"""SplitMix64: the single PRNG every random choice of a check derives from."""

MASK = (1 << 64) - 1


class Rng:
    def __init__(self, seed):
        self.s = (int(seed) * 0x9E3779B97F4A7C15 + 0x1234567) & MASK

    def u64(self):
        self.s = (self.s + 0x9E3779B97F4A7C15) & MASK
        z = self.s
        z = ((z ^ (z >> 30)) * 0xBF58476D1CE4E5B9) & MASK
        z = ((z ^ (z >> 27)) * 0x94D049BB133111EB) & MASK
        return z ^ (z >> 31)

    def below(self, n):
        """uniform in [0, n)"""
        return self.u64() % n if n > 0 else 0

    def range(self, lo, hi):
        """uniform in [lo, hi] inclusive"""
        return lo + self.below(hi - lo + 1)

    def chance(self, num, den):
        return self.below(den) < num

    def choice(self, seq):
        return seq[self.below(len(seq))]

    def shuffle(self, lst):
        for i in range(len(lst) - 1, 0, -1):
            j = self.below(i + 1)
            lst[i], lst[j] = lst[j], lst[i]

    def bytes(self, n):
        return bytes(self.below(256) for _ in range(n))

    def fork(self, tag):
        """independent stream derived from the current state and a tag"""
        h = 0
        for ch in str(tag).encode():
            h = (h * 131 + ch) & MASK
        return Rng(self.u64() ^ h)

    def boundary(self, lo, hi, p_boundary=(1, 2)):
        """value in/around [lo,hi]: boundaries with high probability, else uniform inside"""
        if self.chance(*p_boundary):
            mid = (lo + hi) // 2
            return self.choice([lo - 1, lo, lo + 1, mid, hi - 1, hi, hi + 1])
        return self.range(lo, hi)
