"""in-memory datagram sockets for driving the toolkit's UDPLink-based objects in-process"""
import socket as _real


class FakeSocket:
    registry = []

    def __init__(self, *a, **k):
        self.bound = None
        self.sent = []      # (data bytes, (addr, port))
        self.inbox = []     # (data bytes, (addr, port))
        self.closed = False
        FakeSocket.registry.append(self)

    def setsockopt(self, *a):
        pass

    def bind(self, addr):
        self.bound = addr

    def setblocking(self, flag):
        pass

    def getsockname(self):
        return self.bound or ("0.0.0.0", 0)

    def fileno(self):
        return 1000 + FakeSocket.registry.index(self)

    def sendto(self, data, remote):
        self.sent.append((bytes(data), remote))
        return len(data)

    def recvfrom(self, n):
        data, src = self.inbox.pop(0)
        return data[:n], src

    def close(self):
        self.closed = True


class FakeSocketModule:
    """stands in for the 'socket' module inside udp_link"""
    socket = FakeSocket
    AF_INET = _real.AF_INET
    SOCK_DGRAM = _real.SOCK_DGRAM
    SOL_SOCKET = _real.SOL_SOCKET
    SO_REUSEADDR = _real.SO_REUSEADDR


def install():
    from . import common
    common.import_toolkit()
    import udp_link
    udp_link.socket = FakeSocketModule
    FakeSocket.registry = []
    return FakeSocket
