"""in-process driver of the real fake_trx.Application (C02 C03 C05 C10 C12 C14 C18):
fake sockets, fake clock thread, scripted random draws, captured 'Stale' log records"""
import builtins
import logging
import sys

from . import common, fakesock


class _PrologueDone(BaseException):
    """raised by the session's Event.wait: the worker has reached its first wait (everything before the loop has run)"""


class FakeThread:
    """the clock thread's LOOP is not run (ticks are explicit operations), but (a) its prologue is: start() runs the real worker
    up to its first wait on the breaker, so whatever the worker does before ticking (scheduler priority) really happens and a
    worker that dies there is a dead thread; (b) its liveness follows the real worker's only exit: the worker leaves its loop as
    soon as the breaker event of its CLCKGen is set"""
    in_prologue = False

    def __init__(self, target=None, **kw):
        self.alive = False
        self.daemon = True
        self.target = target
        self.died = None
        self.owner = getattr(target, "__self__", None)

    def start(self):
        self.alive = True
        br = getattr(self.owner, "_breaker", None)
        if self.target is None or br is None or br.is_set() or not isinstance(br, SessEvent):
            return
        FakeThread.in_prologue = True
        try:
            self.target()
            self.alive = False                      # the worker returned without ever waiting
        except _PrologueDone:
            pass
        except Exception as e:  # noqa              # an exception in the thread body ends the thread (threading prints it)
            self.alive = False
            self.died = type(e).__name__
        finally:
            FakeThread.in_prologue = False

    def is_alive(self):
        br = getattr(self.owner, "_breaker", None)
        if self.alive and br is not None and br.is_set():
            return False            # a worker started (or left) with the breaker set returns at its first wait
        return self.alive

    def join(self, timeout=None):
        self.alive = False


import threading as _real_threading


class SessEvent(_real_threading.Event):
    def wait(self, timeout=None):
        if FakeThread.in_prologue:
            raise _PrologueDone()
        return _real_threading.Event.wait(self, timeout)


class FakeOS:
    """os as clck_gen sees it: sched_setscheduler with the kernel's rules for SCHED_RR (priority 1..99, else EINVAL) for an
    unprivileged process (EPERM) or a privileged one"""
    SCHED_RR = 2
    privileged = False
    calls = []

    class sched_param:
        def __init__(self, prio):
            self.sched_priority = prio

    @staticmethod
    def sched_setscheduler(pid, policy, param):
        import errno
        FakeOS.calls.append(param.sched_priority)
        if not 1 <= param.sched_priority <= 99:
            raise OSError(errno.EINVAL, "Invalid argument")
        if not FakeOS.privileged:
            raise PermissionError(errno.EPERM, "Operation not permitted")

    def __getattr__(self, k):
        import os
        return getattr(os, k)


class Draws:
    """scripted random.randint: lo + raw mod (hi-lo+1); ValueError on an empty range (as the real one)"""
    def __init__(self):
        self.raw = []

    def randint(self, lo, hi):
        if hi < lo:
            raise ValueError("empty range for randrange() (%d, %d, %d)" % (lo, hi + 1, hi - lo + 1))
        r = self.raw.pop(0) if self.raw else 0
        return lo + r % (hi - lo + 1)


class StaleHandler(logging.Handler):
    def __init__(self):
        logging.Handler.__init__(self, logging.WARNING)
        self.records = []

    def emit(self, rec):
        try:
            msg = rec.getMessage()
        except Exception:  # noqa
            return
        if "Stale TRXD message" in msg:
            self.records.append(msg)


class Session:
    SRC = ("127.0.0.9", 4242)

    def __init__(self, trx_defs=(), bts_port=5700, bb_port=6700, bts_addr=None, bb_addr=None, sched_rr_prio=None, privileged=False, bind_addr=None):
        """trx_defs: list of (addr, port, idx) additional --trx definitions; bts_addr / bb_addr: -R / -r (peers of BTS and MS)"""
        common.import_toolkit()
        self.FS = fakesock.install()
        import clck_gen
        import fake_pm
        import ctrl_if
        import random
        self.draws = Draws()
        self._orig_randint = random.randint
        random.randint = self.draws.randint
        fake_pm.randint = self.draws.randint
        self.sleeps = []

        class _T:
            Thread = FakeThread
            Event = clck_gen.threading.Event if hasattr(clck_gen.threading, "Event") else None
        self._orig_threading = clck_gen.threading
        _T.Event = SessEvent
        clck_gen.threading = _T
        self._orig_os = clck_gen.os
        FakeOS.privileged = bool(privileged)
        FakeOS.calls = []
        clck_gen.os = FakeOS()

        class _Time:
            @staticmethod
            def sleep(s, _self=self):
                if s < 0:
                    raise ValueError("sleep length must be non-negative")      # as the real time.sleep
                if s > 9223372036.854775807:
                    raise OverflowError("timestamp out of range for platform time_t")      # as the real time.sleep (int64 nanoseconds)
                _self.sleeps.append(s)
        self._orig_time = ctrl_if.time
        ctrl_if.time = _Time
        argv = ["fake_trx", "--log-level", "CRITICAL", "-P", str(bts_port), "-p", str(bb_port)]
        if sched_rr_prio is not None:
            argv += ["-s", str(sched_rr_prio)]
        if bts_addr is not None:
            argv += ["-R", bts_addr]
        if bb_addr is not None:
            argv += ["-r", bb_addr]
        if bind_addr is not None:
            argv += ["-b", bind_addr]
        for addr, port, idx in trx_defs:
            argv += ["--trx", "%s:%d/%d" % (addr, port, idx)]
        old_argv, old_print = sys.argv, builtins.print
        sys.argv = argv
        builtins.print = lambda *a, **k: None
        root = logging.getLogger()
        self._old_handlers = list(root.handlers)
        self._old_level = root.level
        try:
            import fake_trx
            self.fake_trx = fake_trx
            self.app = fake_trx.Application()
        finally:
            sys.argv, builtins.print = old_argv, old_print
        for h in list(root.handlers):
            if h not in self._old_handlers:
                root.removeHandler(h)
        self.stale = StaleHandler()
        root.addHandler(self.stale)
        root.setLevel(logging.WARNING)
        self.trxs = self.app.trx_list.trx_list
        self.closed = False

    def close(self):
        if self.closed:
            return
        self.closed = True
        import clck_gen
        import ctrl_if
        import random
        import fake_pm
        random.randint = self._orig_randint
        fake_pm.randint = self._orig_randint
        clck_gen.threading = self._orig_threading
        clck_gen.os = self._orig_os
        ctrl_if.time = self._orig_time
        root = logging.getLogger()
        root.removeHandler(self.stale)
        root.setLevel(self._old_level)

    # ---- configuration as the model sees it
    def config(self):
        out = []
        for t in self.trxs:
            # a child object that is not one of this application's transceivers (leaked from elsewhere) is reported as -1
            kids = [self.trxs.index(c) if c in self.trxs else -1 for c in t.child_trx_list.trx_list]
            out.append(dict(idx=t.child_idx, mgt=bool(t.child_mgt), clock=t.clck_gen is not None, pm=t.pwr_meas is not None, children=kids))
        return out

    # ---- operations; every one returns the observation as the wire list of ints
    def ctrl(self, i, octets):
        t = self.trxs[i]
        s = t.ctrl_if.sock
        s.sent.clear()
        s.inbox.append((bytes(octets), self.SRC))
        try:
            t.ctrl_if.handle_rx()
        except Exception as e:  # noqa
            s.inbox.clear()
            return [1, 2, 0], type(e).__name__
        if not s.sent:
            return [1, 0, 0], None
        bad_dst = any(d[1] != self.SRC for d in s.sent)
        if len(s.sent) != 1 or bad_dst:
            return [1, 3, len(s.sent)], "replies=%d bad_dst=%s" % (len(s.sent), bad_dst)
        o = list(s.sent[0][0])
        return [1, 1, len(o)] + o, None

    def data(self, i, octets):
        t = self.trxs[i]
        s = t.data_if.sock
        s.inbox.append((bytes(octets), self.SRC))
        qlen = len(t._tx_queue)
        try:
            t.recv_data_msg()
        except Exception as e:  # noqa
            s.inbox.clear()
            return [2, 2], type(e).__name__
        return [2, 1 if len(t._tx_queue) == qlen + 1 else 0], None

    def tick(self, fn):
        for t in self.trxs:
            t.data_if.sock.sent.clear()
        self.stale.records.clear()
        order = []
        # record the order of datagrams across sockets
        for j, t in enumerate(self.trxs):
            t.data_if.sock._j = j
        FS = self.FS
        log = []
        orig = FS.sendto

        cur = [-1]
        socks = [t.data_if.sock for t in self.trxs]

        def sendto(sock, data, remote, _log=log, _orig=orig):
            if sock in socks:
                _log.append((cur[0], sock._j, bytes(data), remote))
            return _orig(sock, data, remote)
        FS.sendto = sendto
        fwd = self.app.burst_fwd
        orig_fwd = fwd.forward_msg

        def forward_msg(src_trx, rx_msg):
            cur[0] = self.trxs.index(src_trx)
            return orig_fwd(src_trx, rx_msg)
        fwd.forward_msg = forward_msg
        exc = None
        # the tick goes through the REAL clock generator (send_clck_ind: indication, handler, increment).  Its counter is set only
        # when the script jumps; for consecutive frames (incl. 2715647 -> 0) the generator's OWN increment decides which frame number
        # the transceivers are ticked with, so a generator that counts wrongly puts the bursts on the air in the wrong tick
        gen = self.app.clck_gen
        if getattr(self, "_next_fn", None) != fn or gen.clck_handler is None or gen.clck_src != getattr(self, "_gen_after", None):
            gen.clck_src = fn        # a jump in the script, or the generator was restarted (power cycle) since the last tick
        self.tick_fns = getattr(self, "tick_fns", [])
        try:
            self.tick_fns.append(gen.clck_src)
            if gen.clck_handler is None:
                self.app.clck_handler(fn)
            else:
                gen.send_clck_ind()
        except Exception as e:  # noqa
            exc = type(e).__name__
        finally:
            self._next_fn = None if exc else (fn + 1) % 2715648
            self._gen_after = gen.clck_src
            FS.sendto = orig
            del fwd.forward_msg
        return log, list(self.stale.records), exc

    def state(self):
        out = []
        for t in self.trxs:
            fh = t.fh
            out.append(dict(
                run=bool(t.running), rx=t._rx_freq, tx=t._tx_freq,
                fh=None if fh is None else (fh.hsn, fh.maio, list(fh.ma)),
                ver=t.data_if._hdr_ver, q=[m.fn for m in t._tx_queue],
                sim=[int(bool(t.rf_muted)), int(bool(t.fake_rssi_enabled)), t.tx_power_base, t.tx_att_base, t.toa256_base, t.toa256_rand_threshold,
                     t.rssi_base, t.rssi_rand_threshold, t.ci_base, t.ci_rand_threshold, t.ta, t.burst_drop_amount, t.burst_drop_period,
                     t.ctrl_if.rsp_delay_ms]))
        return out, self.clock_targets(), bool(self.app.clck_gen.running)

    def clock_targets(self):
        """which transceivers a clock indication reaches right now, in sending order: observed by letting the real
        send_clck_ind() emit one indication for frame 0 (counter and handler restored afterwards), not read from a list"""
        gen = self.app.clck_gen
        socks = {}
        for k, t in enumerate(self.trxs):
            ci = getattr(t, "clck_if", None)
            if ci is not None:
                socks[ci.sock] = k
                ci.sock.sent.clear()
        order = []
        FS = self.FS
        orig = FS.sendto

        def sendto(sock, data, remote, _orig=orig):
            if sock in socks:
                order.append(socks[sock])
            return _orig(sock, data, remote)
        saved = (getattr(gen, "clck_src", None), gen.clck_handler)
        FS.sendto = sendto
        try:
            gen.clck_src, gen.clck_handler = 0, None
            gen.send_clck_ind()
        finally:
            FS.sendto = orig
            gen.clck_handler = saved[1]
            if saved[0] is None:
                try:
                    del gen.clck_src
                except AttributeError:
                    pass
            else:
                gen.clck_src = saved[0]
            for sk in socks:
                sk.sent.clear()
        return order
