"""entry point: python -m vp.runner check <Cxx> [--tier t] [--replay f] | setup"""
import importlib
import os
import pkgutil
import signal
import sys
import traceback

from . import common
from .common import Ctx


def prop_modules():
    import vp.props as pk
    return sorted(m.name for m in pkgutil.iter_modules(pk.__path__) if m.name.startswith("C"))


def do_check(argv):
    pid = argv[0]
    tier = os.environ.get("VERIF_TIER", "quick")
    replay = None
    i = 1
    while i < len(argv):
        if argv[i] == "--tier":
            tier = argv[i + 1]; i += 2
        elif argv[i] == "--replay":
            replay = argv[i + 1]; i += 2
        else:
            i += 1
    if tier not in ("quick", "thorough"):
        tier = "quick"
    try:
        seed = int(os.environ.get("VERIF_SEED", "1"))
    except ValueError:
        seed = 1
    ctx = Ctx(pid, tier, seed, replay)
    mod = importlib.import_module("vp.props." + pid)
    limit = int(os.environ.get("VERIF_TIMEOUT", "1500" if tier == "quick" else "7200"))

    class CheckTimeout(BaseException):
        """not an Exception: harness code that swallows `Exception` (to record a crash of the code under test) must not swallow the watchdog"""

    fired = {"n": 0}

    def on_alarm(signum, frame):
        fired["n"] += 1
        signal.alarm(5)            # re-arm: keep interrupting until the stack is unwound
        raise CheckTimeout("check exceeded %d s (case in flight: %r)" % (limit, getattr(ctx, "in_flight", None)))

    def hard_stop():
        # last resort (the soft watchdog did not get the main thread out within 90 s, e.g. blocked in C code): report and leave
        import json
        import threading
        def go():
            try:
                os.makedirs(os.path.join(common.OUT, "replay"), exist_ok=True)
                rp = os.path.join(common.OUT, "replay", "%s-%s-%d-timeout.json" % (pid, tier, seed))
                with open(rp, "w") as f:
                    json.dump(dict(property=pid, kind="check-machinery", note="the check did not finish within %d s and could not be interrupted; the property is not shown to hold" % limit,
                                   in_flight=repr(getattr(ctx, "in_flight", None))[:2000], rerun="./bin/check %s --tier %s" % (pid, tier)), f, indent=1)
                print("VIOLATION property=%s replay=%s no-failing-input-found" % (pid, rp), flush=True)
            finally:
                os._exit(1)
        t = threading.Timer(limit + 90, go)
        t.daemon = True
        t.start()
        return t
    signal.signal(signal.SIGALRM, on_alarm)
    signal.alarm(limit)
    timer = hard_stop()
    try:
        try:
            mod.run(ctx)
        finally:
            signal.alarm(0)
    except CheckTimeout as e:
        signal.alarm(0)
        ctx.proof_failures.append(("check-machinery:timeout", str(e)))
    except Exception as e:  # harness failure: the property is not shown to hold
        tb = traceback.format_exc()
        print(tb, file=sys.stderr)
        ctx.proof_failures.append(("check-machinery:" + type(e).__name__, tb[-3000:]))
    signal.alarm(0)
    timer.cancel()
    return ctx.finish()


def claimed_ids():
    import json
    try:
        with open(os.path.join(common.ROOT, "MANIFEST.json")) as f:
            return [c["property_id"] for c in json.load(f).get("checks", [])]
    except (OSError, ValueError):
        return []


def do_setup(argv):
    """offline build of everything the claimed checks need: Gen regeneration, Coq cones of the claimed Props, extracted models.
    Work in progress for properties that are not claimed is built too, but its failures only produce a warning."""
    rc = 0
    ctx = Ctx("setup", "quick", 1)
    claimed = set(claimed_ids())
    props, other = [], []
    for name in prop_modules():
        try:
            mod = importlib.import_module("vp.props." + name)
            if hasattr(mod, "gen"):
                mod.gen(ctx)
        except Exception:
            traceback.print_exc()
            print("setup: Gen regeneration for %s failed (the check itself will report it)" % name)
        p = os.path.join(common.TH, "Props", name + ".v")
        if os.path.exists(p):
            (props if name in claimed else other).append(p)
    ok, logs, failed = common.coq_build(props)
    for v, (r, out, secs) in sorted(logs.items()):
        print("coqc %-40s rc=%d %.1fs" % (os.path.relpath(v, common.TH), r, secs))
    if not ok:
        print("setup: Coq build failed at %s\n%s" % (failed, logs[failed][1][-3000:]))
        rc = 1
    for p in other:
        ok2, logs2, failed2 = common.coq_build([p], timeout=300)
        if not ok2:
            print("setup: warning: unclaimed %s does not build yet (%s)" % (os.path.relpath(p, common.TH), os.path.relpath(failed2, common.TH)))
    ext = os.path.join(common.TH, "Extract")
    for f in sorted(os.listdir(ext)):
        if f.startswith("Ext") and f.endswith(".v"):
            g = f[3:-2]
            ok, log = common.build_model(g)
            print("model %-12s %s %s" % (g, "ok" if ok else "FAILED (reported by the checks that use it)", log if ok else log[-800:]))
    # project file for IDEs / coqchk users
    vs = []
    for d, _, fs in os.walk(common.TH):
        for f in fs:
            if f.endswith(".v") and "Extract" not in d:
                vs.append(os.path.relpath(os.path.join(d, f), common.COQ))
    common.write_if_changed(os.path.join(common.COQ, "_CoqProject"), "-Q theories OBB\n" + "\n".join(sorted(vs)) + "\n")
    return rc


def main():
    if len(sys.argv) < 2:
        print(__doc__); return 2
    if sys.argv[1] == "check":
        return do_check(sys.argv[2:])
    if sys.argv[1] == "setup":
        return do_setup(sys.argv[2:])
    if sys.argv[1] == "build":
        ts = [os.path.join(common.TH, a) for a in sys.argv[2:]]
        ok, logs, failed = common.coq_build(ts, force=ts)
        for v, (r, out, secs) in logs.items():
            print("coqc %-40s rc=%d %.1fs" % (os.path.relpath(v, common.TH), r, secs))
            if r != 0 or v in ts:
                print(out[-6000:])
        return 0 if ok else 1
    print(__doc__)
    return 2


if __name__ == "__main__":
    sys.exit(main())
