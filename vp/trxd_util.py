"""helpers shared by C01 C04 C13 C14 C15 C17: message generators, real-object construction, wire encodings
(the int-list encodings mirror enc_tx / enc_rx / wtx / wrx of Model/Trxd.v)"""
from array import array

from . import common

H = 2715648
MOD_BL = [148, 444, 148, 592, 740, 296]


def toolkit():
    common.import_toolkit()
    import data_msg
    return data_msg


# ---------------------------------------------------------------- generators (dict messages)

def _burst_bits(rng, n, kind):
    if kind == 0:
        return [rng.below(2) for _ in range(n)]
    if kind == 1:
        return [0] * n
    if kind == 2:
        return [1] * n
    if kind == 3:
        return [i & 1 for i in range(n)]
    return [rng.below(256) for _ in range(n)]       # arbitrary octets (bytearray allows them)


def _burst_soft(rng, n, kind):
    if kind == 0:
        return [rng.range(-127, 127) for _ in range(n)]
    if kind == 1:
        return [127] * n
    if kind == 2:
        return [-127] * n
    if kind == 3:
        return [(-127 if i & 1 else 127) for i in range(n)]
    if kind == 4:
        return [rng.choice([-127, -126, -1, 0, 1, 126, 127]) for _ in range(n)]
    return [rng.range(-128, 127) for _ in range(n)]  # includes -128 (outside the property's domain)


def fn_value(rng):
    if rng.chance(1, 3):
        return rng.choice([0, 1, 255, 256, 65535, 65536, 2097151, 2097152, H - 2, H - 1, 1326, 84864])
    return rng.below(H)


def rand_tx(rng, valid=True):
    m = dict(kind="tx", ver=rng.below(2), fn=fn_value(rng), tn=rng.below(8), pwr=rng.choice([0, 1, 127, 128, 254, 255]) if rng.chance(1, 2) else rng.below(256))
    n = rng.choice([148, 444])
    m["burst"] = _burst_bits(rng, n, rng.below(5))
    if not valid:
        perturb(rng, m)
    return m


def rand_rx(rng, valid=True, soft_domain=True):
    ver = rng.below(2)
    m = dict(kind="rx", ver=ver, fn=fn_value(rng), tn=rng.below(8),
             rssi=rng.choice([-120, -119, -48, -47]) if rng.chance(1, 2) else rng.range(-120, -47),
             toa=rng.choice([-32768, -32767, -257, -256, -255, -1, 0, 1, 255, 256, 32766, 32767]) if rng.chance(1, 2) else rng.range(-32768, 32767),
             nope=False, mod=0, tset=None, tsc=None, ci=None, burst=None)
    kinds = 5 if soft_domain else 6
    if ver == 0:
        m["burst"] = _burst_soft(rng, rng.choice([148, 444]), rng.below(kinds))
        if rng.chance(1, 3):   # v0 ignores the v1-only fields whatever they hold
            m["mod"] = rng.below(6)
            m["tset"] = rng.choice([None, 0, 5])
            m["ci"] = rng.choice([None, 9999])
    else:
        m["ci"] = rng.choice([-1280, -1279, 0, 1279, 1280]) if rng.chance(1, 2) else rng.range(-1280, 1280)
        if rng.chance(1, 5):
            m["nope"] = True
            m["mod"] = rng.choice([None, 0, 3])
        else:
            i = rng.below(6)
            m["mod"] = i
            m["tset"] = rng.range(0, 3 if i == 0 else 1)
            m["tsc"] = rng.range(0, 7)
            m["burst"] = _burst_soft(rng, MOD_BL[i], rng.below(kinds))
    if not valid:
        perturb(rng, m)
    return m


def perturb(rng, m):
    """push one or two fields onto / across a range boundary, or to None"""
    for _ in range(1 + rng.below(2)):
        if m["kind"] == "tx":
            f = rng.choice(["ver", "fn", "tn", "pwr", "burst"])
        else:
            f = rng.choice(["ver", "fn", "tn", "rssi", "toa", "nope", "mod", "tset", "tsc", "ci", "burst"])
        if f == "ver":
            m[f] = rng.choice([-1, 0, 1, 2, 15, 16])
        elif f == "fn":
            m[f] = rng.choice([None, -1, 0, H - 1, H, H + 1, 2 ** 32 - 1])
        elif f == "tn":
            m[f] = rng.choice([None, -1, 0, 7, 8, 255])
        elif f == "pwr":
            m[f] = rng.choice([None, -1, 0, 255, 256])
        elif f == "rssi":
            m[f] = rng.choice([None, -121, -120, -47, -46, 0, 47])
        elif f == "toa":
            m[f] = rng.choice([None, -32769, -32768, 32767, 32768])
        elif f == "nope":
            m[f] = not m[f]
        elif f == "mod":
            m[f] = rng.choice([None, 0, 1, 2, 3, 4, 5])
        elif f == "tset":
            m[f] = rng.choice([None, -1, 0, 1, 2, 3, 4])
        elif f == "tsc":
            m[f] = rng.choice([None, -1, 0, 7, 8])
        elif f == "ci":
            m[f] = rng.choice([None, -1281, -1280, 1280, 1281])
        elif f == "burst":
            n = rng.choice([0, 1, 147, 148, 149, 150, 295, 296, 443, 444, 445, 446, 592, 740])
            if rng.chance(1, 6):
                m[f] = None
            elif m["kind"] == "tx":
                m[f] = _burst_bits(rng, n, rng.below(5))
            else:
                m[f] = _burst_soft(rng, n, rng.below(5))


# ---------------------------------------------------------------- real objects

def real_tx(m):
    D = toolkit()
    o = D.TxMsg(fn=m["fn"], tn=m["tn"], ver=m["ver"])
    o.pwr = m["pwr"]
    o.burst = None if m["burst"] is None else bytearray(m["burst"])
    return o


def real_rx(m):
    D = toolkit()
    o = D.RxMsg(fn=m["fn"], tn=m["tn"], ver=m["ver"])
    o.rssi = m["rssi"]
    o.toa256 = m["toa"]
    o.nope_ind = m["nope"]
    o.mod_type = None if m["mod"] is None else list(D.Modulation)[m["mod"]]
    o.tsc_set = m["tset"]
    o.tsc = m["tsc"]
    o.ci = m["ci"]
    o.burst = None if m["burst"] is None else array("b", m["burst"])
    return o


def real(m):
    return real_tx(m) if m["kind"] == "tx" else real_rx(m)


def assign(o, m):
    """set the fields of message dict m on an EXISTING real object by plain attribute assignment (what toolkit code does)"""
    D = toolkit()
    o.ver, o.fn, o.tn = m["ver"], m["fn"], m["tn"]
    if m["kind"] == "tx":
        o.pwr = m["pwr"]
        o.burst = None if m["burst"] is None else bytearray(m["burst"])
    else:
        o.rssi, o.toa256, o.nope_ind = m["rssi"], m["toa"], m["nope"]
        o.mod_type = None if m["mod"] is None else list(D.Modulation)[m["mod"]]
        o.tsc_set, o.tsc, o.ci = m["tset"], m["tsc"], m["ci"]
        o.burst = None if m["burst"] is None else array("b", m["burst"])
    return o


def gen_reuse_check(ctx, msgs, fresh_obs, keyp):
    """encode the same messages, in order, with ONE long-lived object per direction whose fields are re-assigned before each
    gen_msg(): outcome and octets must equal those of a fresh object (no validation or encoding result may be remembered
    across field changes).  msgs: [(message dict, legacy)], fresh_obs: do_gen results"""
    objs = {}
    kept = []
    n = 0
    for k, (m, legacy) in enumerate(msgs):
        kind = m["kind"]
        if kind not in objs:
            objs[kind] = new_obj(kind)
        try:
            assign(objs[kind], m)
            raw = objs[kind].gen_msg(legacy)
            kept.append((k, raw))           # the datagram object itself, read again after the whole sequence (below)
            got = [0] + list(raw)
        except Exception as e:  # noqa
            got = exc_class(e)
        n += 1
        if got != fresh_obs[k]:
            ctx.oracle_fail("gen_msg on an object that encoded another message before differs from gen_msg on a fresh object with the same fields",
                            dict(msg=short(m), legacy=legacy, previous=short(msgs[k - 1][0]) if k else None), key=keyp + ":" + ("outcome" if got[0] != fresh_obs[k][0] else "octets"),
                            expected=fresh_obs[k][:12], observed=got[:12])
            objs[kind] = new_obj(kind)      # report each divergence once
    ctx.count("reused_object_encodings_compared", n)
    # a sender keeps the datagrams one message object produced (re-configured between the calls) and sends / decodes them later:
    # each must still be what it was when gen_msg() returned it (no per-object encoding buffer handed out twice)
    for k, raw in kept:
        if fresh_obs[k][:1] == [0] and [0] + list(raw) != fresh_obs[k]:
            ctx.oracle_fail("a datagram returned by gen_msg() changed when the same message object encoded its next message",
                            dict(msg=short(msgs[k][0]), legacy=msgs[k][1], position=k, next=short(msgs[k + 1][0]) if k + 1 < len(msgs) else None),
                            key=keyp + ":aliased-output", expected=fresh_obs[k][:12], observed=([0] + list(raw))[:12])
            break
    # batch encoding: the RETURNED objects of many gen_msg() calls are kept (not copied) and read only after the whole batch - a
    # result must not be rewritten by a later call (no shared / recycled output buffer, on any object, of either direction)
    held = []
    for m, legacy in msgs:
        try:
            held.append(real(m).gen_msg(legacy))
        except Exception as e:  # noqa
            held.append(e)
    for k, h in enumerate(held):
        got = exc_class(h) if isinstance(h, Exception) else [0] + list(h)
        if got != fresh_obs[k]:
            ctx.oracle_fail("the result of gen_msg() changed after other messages were encoded (results of a batch read after the batch)",
                            dict(msg=short(msgs[k][0]), legacy=msgs[k][1], batch=len(held), position=k), key=keyp + ":aliased-output",
                            expected=fresh_obs[k][:12], observed=got[:12])
            break
    ctx.count("batched_encodings_compared", len(held))


def from_real(o):
    D = toolkit()
    if isinstance(o, D.TxMsg):
        return dict(kind="tx", ver=o.ver, fn=o.fn, tn=o.tn, pwr=o.pwr, burst=None if o.burst is None else list(o.burst))
    mods = list(D.Modulation)
    return dict(kind="rx", ver=o.ver, fn=o.fn, tn=o.tn, rssi=o.rssi, toa=o.toa256, nope=bool(o.nope_ind),
                mod=None if o.mod_type is None else mods.index(o.mod_type), tset=o.tsc_set, tsc=o.tsc, ci=o.ci,
                burst=None if o.burst is None else list(o.burst))


# ---------------------------------------------------------------- wire encodings

def _opt(x):
    return [0, 0] if x is None else [1, int(x)]


def _burst(b):
    return [0, 0] if b is None else [1, len(b)] + [int(x) for x in b]


def enc(m):
    if m["kind"] == "tx":
        return [m["ver"]] + _opt(m["fn"]) + _opt(m["tn"]) + _opt(m["pwr"]) + _burst(m["burst"])
    return ([m["ver"]] + _opt(m["fn"]) + _opt(m["tn"]) + _opt(m["rssi"]) + _opt(m["toa"]) + [1 if m["nope"] else 0]
            + _opt(m["mod"]) + _opt(m["tset"]) + _opt(m["tsc"]) + _opt(m["ci"]) + _burst(m["burst"]))


def exc_class(e):
    return [1] if isinstance(e, ValueError) and type(e) is ValueError else [2]


def do_gen(m, legacy):
    """-> wire observation of gen_msg: [0, octets...] | [1] ValueError | [2] other exception"""
    try:
        return [0] + list(real(m).gen_msg(legacy))
    except Exception as e:  # noqa
        return exc_class(e)


def do_validate(m):
    try:
        real(m).validate()
        return [0]
    except Exception as e:  # noqa
        return exc_class(e)


def do_parse(kind, octets, obj=None):
    """obj: a message object that has parsed other datagrams before (parse_msg must not depend on that history)"""
    D = toolkit()
    o = obj if obj is not None else (D.TxMsg() if kind == "tx" else D.RxMsg())
    try:
        o.parse_msg(bytearray(octets))
        return [0] + enc(from_real(o))
    except Exception as e:  # noqa
        return exc_class(e)


def new_obj(kind):
    D = toolkit()
    return D.TxMsg() if kind == "tx" else D.RxMsg()


def reuse_check(ctx, dgrams, fresh_obs, keyp):
    """parse the same datagrams, in order, with ONE object per direction; every result must equal the fresh-object result
    on the fields the header version carries (dgrams: [(kind, octets, ...)], fresh_obs: do_parse results)"""
    objs = {}
    n = 0
    for j, t in enumerate(dgrams):
        kind, d = t[0], t[1]
        if kind not in objs:
            objs[kind] = new_obj(kind)
        o2 = do_parse(kind, d, obj=objs[kind])
        o1 = fresh_obs[j]
        if o1[0] != o2[0]:
            ctx.oracle_fail("parse_msg outcome depends on what the object parsed before", dict(kind=kind, octets=d, previous=dgrams[j - 1][1] if j else None),
                            key=keyp + ":outcome", expected=o1[:1], observed=o2[:1])
        elif o1[0] == 0:
            a, b = carried(from_real(objs[kind])), None
            f = new_obj(kind)
            f.parse_msg(bytearray(d))
            b = carried(from_real(f))
            if a != b:
                diff = [k for k in b if a.get(k) != b[k]]
                ctx.oracle_fail("parse_msg on an object that parsed another datagram before leaves stale fields: " + ",".join(diff),
                                dict(kind=kind, octets=d, previous=dgrams[j - 1][1] if j else None), key=keyp + ":" + ",".join(diff),
                                expected={k: (b[k] if k != "burst" else (None if b[k] is None else len(b[k]))) for k in diff},
                                observed={k: (a[k] if k != "burst" else (None if a[k] is None else len(a[k]))) for k in diff})
            n += 1
    ctx.count("reused_object_parses_compared", n)
    # batch parsing: many objects parse, all are kept and read only after the whole batch - a parsed message must not change when
    # another object parses another datagram (no field / burst storage shared between objects)
    held = []
    shared = bytearray()         # ONE receive buffer overwritten by every datagram (as a receive loop does): a parsed message must
                                 # own its data - it may neither change with the buffer nor pin the buffer (BufferError on resize)
    for j, t in enumerate(dgrams[:400]):
        o = new_obj(t[0])
        try:
            shared[:] = bytes(t[1])
        except BufferError:
            ctx.oracle_fail("a parsed message keeps a view into the caller's datagram buffer: the buffer cannot be reused for the next datagram",
                            dict(kind=dgrams[j - 1][0] if j else t[0], position=j), key=keyp + ":aliased-input")
            shared = bytearray(bytes(t[1]))
        try:
            o.parse_msg(shared)
            held.append((j, o))
        except Exception:  # noqa
            pass
    for j, o in held:
        got = [0] + enc(from_real(o))
        if fresh_obs[j][0] == 0 and got != fresh_obs[j]:
            ctx.oracle_fail("a parsed message changed after other objects parsed other datagrams (objects of a batch read after the batch)",
                            dict(kind=dgrams[j][0], octets=dgrams[j][1], position=j, batch=len(held)), key=keyp + ":aliased-object",
                            expected=fresh_obs[j][:14], observed=got[:14])
            break
    ctx.count("batched_parses_compared", len(held))


def carried(m):
    """the fields the header version carries (what the suite's _compare_msg compares)"""
    if m["kind"] == "tx":
        return m
    c = dict(m)
    if m["ver"] == 0:
        c.update(nope=False, mod=None, tset=None, tsc=None, ci=None)
    elif m["nope"]:
        c.update(mod=None, tset=None, tsc=None)
    return c


def spec_valid(m):
    """the statement of C13, literally (independent of validate())"""
    def rng_ok(x, lo, hi):
        return x is not None and lo <= x <= hi
    if m["ver"] not in (0, 1) or not rng_ok(m["fn"], 0, H - 1) or not rng_ok(m["tn"], 0, 7):
        return False
    if m["kind"] == "tx":
        return rng_ok(m["pwr"], 0, 255) and m["burst"] is not None and len(m["burst"]) in (148, 444)
    if not rng_ok(m["rssi"], -120, -47) or not rng_ok(m["toa"], -32768, 32767):
        return False
    if m["ver"] == 0:
        return m["burst"] is not None and len(m["burst"]) in (148, 444)
    if not rng_ok(m["ci"], -1280, 1280):
        return False
    if m["nope"]:
        return m["burst"] is None
    if m["mod"] is None or not rng_ok(m["tsc"], 0, 7) or not rng_ok(m["tset"], 0, 3 if m["mod"] == 0 else 1):
        return False
    return m["burst"] is not None and len(m["burst"]) == MOD_BL[m["mod"]]


def short(m):
    s = dict(m)
    if s.get("burst") is not None:
        b = s["burst"]
        s["burst"] = "len=%d head=%s" % (len(b), b[:6])
    return s


def negotiation_check(ctx, keyp):
    """header-version negotiation on one long-lived DATAInterface (what SETFORMAT drives), every request 0..15 twice and in mixed
    order: a supported version is applied, an unsupported one is refused and leaves the version in force alone, pick_hdr_ver()
    suggests the highest supported version not above the request (-1 below all) and changes nothing - and afterwards the set of
    known versions is what it was, so valid messages of every version still validate, encode and parse.  Runs BEFORE the callers'
    sweeps so that any process-wide damage shows up in them as well."""
    import logging as _logging
    from . import fakesock
    fakesock.install()
    D = toolkit()
    import data_if as _data_if
    saved = _logging.root.manager.disable
    _logging.disable(_logging.CRITICAL)
    try:
        known0 = list(D.Msg.KNOWN_VERSIONS)
        dif = _data_if.DATAInterface("127.0.0.1", 5802, "0.0.0.0", 5702)
        in_force = dif._hdr_ver
        n = 0
        for req in list(range(16)) + [2, 1, 15, 0, 7, 1, 3, 0] + list(range(15, -1, -1)):
            sug = dif.pick_hdr_ver(req)
            want_sug = max([v for v in known0 if v <= req], default=-1)
            if sug != want_sug or dif._hdr_ver != in_force:
                ctx.oracle_fail("pick_hdr_ver(%d) gives %r / leaves version %r in force (expected suggestion %d, version %d untouched)" % (req, sug, dif._hdr_ver, want_sug, in_force),
                                dict(request=req, known=known0), key=keyp + ":negotiation-pick", expected=[want_sug, in_force], observed=[sug, dif._hdr_ver])
                return
            ok = dif.set_hdr_ver(req)
            if req in known0:
                in_force = req
            if bool(ok) != (req in known0) or dif._hdr_ver != in_force:
                ctx.oracle_fail("set_hdr_ver(%d) returned %r and left version %r in force (expected %s, version %d): a refused request must not change the version of the link"
                                % (req, ok, dif._hdr_ver, req in known0, in_force), dict(request=req, known=known0), key=keyp + ":negotiation-set",
                                expected=[req in known0, in_force], observed=[bool(ok), dif._hdr_ver])
                return
            n += 1
        if list(D.Msg.KNOWN_VERSIONS) != known0:
            ctx.oracle_fail("the set of known header versions changed during negotiation: %r -> %r" % (known0, list(D.Msg.KNOWN_VERSIONS)), dict(known=known0),
                            key=keyp + ":negotiation-known-versions", expected=known0, observed=list(D.Msg.KNOWN_VERSIONS))
            return
        for ver in known0:
            for m in (dict(kind="tx", ver=ver, fn=1, tn=1, pwr=0, burst=[0, 1] * 74),
                      dict(kind="rx", ver=ver, fn=2, tn=2, rssi=-60, toa=0, nope=False, mod=0, tset=0, tsc=0, ci=0, burst=[-127, 127] * 74)):
                g = do_gen(m, False)
                if g[:1] != [0] or do_parse(m["kind"], g[1:])[:1] != [0]:
                    ctx.oracle_fail("after header-version negotiation a valid version-%d %s message no longer encodes / parses" % (ver, m["kind"]), dict(msg=short(m)),
                                    key=keyp + ":negotiation-breaks-codec", expected=[0], observed=g[:2])
                    return
        ctx.count("negotiation_steps", n)
    finally:
        _logging.disable(saved)
