"""trxcon side (src/host/trxcon/src/trx_if.c) of C04 / C05 / C14: harness build, Gen/TrxIfConst.v, drivers, canonicalisers.

Reusable API (all functions honour common.REPO, i.e. VERIF_REPO):

  build_harness(ctx=None, msan=False) -> path
      compiles charness/trxif.c, which #includes the real trx_if.c (gcc ASan+UBSan; msan=True: clang -fsanitize=memory,
      returns None when clang/MSan is unavailable).  The binary is cached per process.
  gen_trxif(ctx)
      regenerates coq/theories/Gen/TrxIfConst.v from the compiled harness (buffer sizes, header length, hyperframe, burst
      lengths, errno values, trx_if_cmd_setslot's channel-type table read through the emitted SETSLOT commands, the
      gsm_arfcn2freq10 table of the vendored libosmocore).
  c_data_rx(datagrams, fn_advance=0) -> list of observations, one per datagram:
      dict(rc=<'OK'|'EINVAL'|'ENOTSUP'|int>, called=bool, tn, fn, rssi, toa256, burst=[soft bits], rts=(fn, tn)) -
      the burst_ind fields only when trxcon_phyif_handle_burst_ind was called; dict(crash=<sanitizer summary>) if the
      real code was stopped by a sanitizer / signal on that datagram (attributed by re-running every line forked).
  c_burst_req(requests) with requests = [(tn, fn, pwr, burst bits)] -> list of dict(rc, sent=[octets of each send()]) | dict(crash=..)
  c_ctrl_rsp(pending, response_octets, critical=True, before=()) -> dict(outcome=..., rc, ..., crash=None|summary)
      pending = command string (bytes, e.g. b"CMD POWERON") or None; `before` = list of (pending, critical, octets) steps run
      back to back in the same process first (same stack - how a stale value of an uninitialised variable is shown).
      outcome in {'no-effect' (ignored or empty read), 'no-pending', 'error' (mismatch or rejected status: -EIO and FSM
      termination; since 35bc7c1 also a reply without a numeric status), 'accepted:<poweron|poweroff|echo|other>',
      'accepted:measure', 'accepted:measure-unparsed', 'crash:null-deref', 'crash:uninit' (MSan), 'crash:other'}
  c_ctrl_rsp_many(cases) -> same for a list of (pending, critical, octets) with one fork per case
  c_ctrl_cmds(cmd) -> dict(rc, queue=[(critical, bytes)], sent=[bytes]) for one trxcon_phyif_cmd given as a tuple
      ('reset',) ('poweron',) ('poweroff',) ('measure', arfcn) ('setfreq_h0', arfcn) ('setfreq_h1', hsn, maio, [arfcn..])
      ('setslot', tn, pchan) ('setta', ta) ('unknown', type)
  ctrl_malformed_campaign(ctx, n) -> list of (key, witness) - the C14 oracle for the TRXC response parser:
      generated valid + malformed responses with and without a pending command on the ASan/UBSan build (every case forked),
      the stale-stack differential (every case run after two different earlier datagrams) and, when clang is present, MSan.
      Model-independent; [] on the repaired tree (35bc7c1), the four keys come back if the repair is reverted.
"""
import errno
import os
import re
import subprocess

from . import common
from .common import ROOT, WORK

_BIN = {}
STUBS = os.path.join(ROOT, "charness", "stubs")


def _flags():
    src = os.path.join(common.REPO, "src/host/trxcon/src/trx_if.c")
    return ("-include %s/trxif_compat.h -DTRX_IF_C='\"%s\"' -I%s/trxif -I%s/a/b -I%s -I%s/include -I%s/src/host/trxcon/include"
            % (STUBS, src, STUBS, STUBS, STUBS, common.LIBOSMO, common.REPO))


def _sources():
    return [os.path.join(ROOT, "charness/trxif.c"), os.path.join(common.LIBOSMO, "src/talloc.c"),
            os.path.join(common.LIBOSMO, "src/gsm/gsm_utils.c")]


def build_harness(ctx=None, msan=False):
    key = "msan" if msan else "asan"
    if key in _BIN:
        return _BIN[key]
    with common.Lock("trxif-" + key):
        if msan:
            if common.sh("which clang")[0] != 0:
                _BIN[key] = None
                return None
            ok, path, log = common.cc("trxif_msan", _sources(), compiler="clang", sanitize=False,
                                      flags="-fsanitize=memory -fsanitize-memory-track-origins -fno-omit-frame-pointer " + _flags())
            if not ok:
                if ctx is not None:
                    ctx.note("MSan build of the trx_if.c harness unavailable: " + log[-300:])
                _BIN[key] = None
                return None
        else:
            ok, path, log = common.cc("trxif", _sources(), flags=_flags())
            if not ok:
                raise RuntimeError("trx_if.c harness does not compile:\n" + log[-4000:])
    _BIN[key] = path
    return path


# ---------------------------------------------------------------- constants / Gen

def consts():
    binp = build_harness()
    out = subprocess.run([binp, "const"], stdout=subprocess.PIPE, text=True, timeout=60).stdout
    c, pch, freq = {}, {}, {}
    for line in out.splitlines():
        t = line.split()
        if t[0] == "PCHAN":
            pch[t[1]] = int(t[2])
        elif t[0] == "FREQ":
            freq[int(t[1])] = (int(t[2]), int(t[3]))
        else:
            c[t[0]] = int(t[1])
    c["pchan"] = pch
    c["freq"] = freq
    return c


def gen_trxif(ctx):
    c = consts()
    n = c["GSM_PCHAN_MAX"]
    # trx_if_cmd_setslot's table is a function-local static: read it through the command the function emits
    res = run_lines(["cmd 6 0 %d" % p for p in range(n)])
    table = []
    for r in res:
        q = parse_cmd_obs(r)
        txt = q["queue"][0][1].decode()
        m = re.fullmatch(r"CMD SETSLOT 0 (\d+)", txt)
        if not m:
            raise RuntimeError("unexpected SETSLOT command " + txt)
        table.append(int(m.group(1)))
    t = common.gen_header("src/host/trxcon/src/trx_if.c + include/osmocom/bb/trxcon/trx_if.h compiled into charness/trxif.c "
                          "(constants as compiled; SETSLOT table read through the emitted commands; frequency table through the vendored gsm_arfcn2freq10)")
    for name, key in [("trxc_buf_size", "TRXC_BUF_SIZE"), ("trxd_buf_size", "TRXD_BUF_SIZE"), ("trxdv0_hdr_len", "TRXDv0_HDR_LEN"),
                      ("c_tdma_hyperframe", "GSM_TDMA_HYPERFRAME"), ("nb_gmsk_burst", "GSM_NBITS_NB_GMSK_BURST"),
                      ("nb_8psk_burst", "GSM_NBITS_NB_8PSK_BURST"), ("ctrl_cmd_size", "SIZEOF_CMD"), ("pchan_max", "GSM_PCHAN_MAX"),
                      ("arfcn_pcs", "ARFCN_PCS"), ("arfcn_flag_mask", "ARFCN_FLAG_MASK")]:
        t += "Definition %s : Z := %d.\n" % (name, c[key])
    t += "(* chan_types[pchan] of trx_if_cmd_setslot, pchan = 0 .. _GSM_PCHAN_MAX-1 as compiled (CBCH combinations at 100/101: harness numbering) *)\n"
    t += "Definition chan_types : list Z := %s.\n" % common.zlist(table)
    t += "Definition pchan_names : list (list Z * Z) := [%s].\n" % ";".join(
        "(%s,%d)" % (common.zlist(list(k.encode())), v) for k, v in c["pchan"].items())
    # gsm_arfcn2freq10(arfcn, 0/1) for arfcn = 0..1023 and (0..1023)|ARFCN_PCS : (downlink, uplink)
    plain = [c["freq"][a] for a in range(1024)]
    pcs = [c["freq"][a | c["ARFCN_PCS"]] for a in range(1024)]
    t += "(* gsm_arfcn2freq10(a, 0), gsm_arfcn2freq10(a, 1) for a = 0..1023 *)\n"
    t += "Definition freq10_plain : list (Z * Z) := [%s].\n" % ";".join("(%d,%d)" % f for f in plain)
    t += "(* the same for a | ARFCN_PCS *)\n"
    t += "Definition freq10_pcs : list (Z * Z) := [%s].\n" % ";".join("(%d,%d)" % f for f in pcs)
    ctx.gen("TrxIfConst", t)
    return c


# ---------------------------------------------------------------- running the harness

def run_lines(lines, msan=False, timeout=900, symbolize=False):
    """one output line (list of tokens) per input line; a line that kills the process is located by re-running forked.
    symbolize=False keeps the sanitizers from spawning a symbolizer per report (150 ms each); witnesses are re-run with True"""
    binp = build_harness(msan=msan)
    if not lines:
        return []
    env = dict(os.environ)
    if not symbolize:
        env["ASAN_OPTIONS"] = "symbolize=0"
        env["MSAN_OPTIONS"] = "symbolize=0"
    inp = "\n".join(lines) + "\n"
    p = subprocess.run([binp], input=inp, stdout=subprocess.PIPE, stderr=subprocess.PIPE, text=True, timeout=timeout, env=env)
    out = p.stdout.split("\n")
    if out and out[-1] == "":
        out.pop()
    if p.returncode == 0 and len(out) == len(lines):
        return [o.split() for o in out]
    # the process died (sanitizer / signal) somewhere: attribute by forking every line that was not forked already
    flines = [l if l.startswith("F ") else "F " + l for l in lines]
    p = subprocess.run([binp], input="\n".join(flines) + "\n", stdout=subprocess.PIPE, stderr=subprocess.PIPE, text=True, timeout=timeout * 4, env=env)
    out = p.stdout.split("\n")
    if out and out[-1] == "":
        out.pop()
    if len(out) != len(lines):
        raise RuntimeError("trx_if.c harness broke down (rc=%d, %d lines for %d inputs): %s" % (p.returncode, len(out), len(lines), p.stderr[-1500:]))
    return [o.split() for o in out]


def _crash(tok):
    if tok and tok[0] == "CRASH":
        return " ".join(tok[3:])
    return None


ERR = {0: "OK", -errno.EINVAL: "EINVAL", -errno.ENOTSUP: "ENOTSUP", -errno.EIO: "EIO", -errno.ENODEV: "ENODEV",
       -errno.ENOSPC: "ENOSPC", -errno.ENOMEM: "ENOMEM"}


def rc_name(rc):
    return ERR.get(rc, rc)


# ---- TRXD receive

def rx_line(octets, fn_advance=0):
    return "rx %d %d %s" % (fn_advance, len(octets), " ".join(map(str, octets)))


def parse_rx_obs(tok):
    c = _crash(tok)
    if c is not None:
        return dict(crash=c)
    v = [int(x) for x in tok]
    o = dict(rc=rc_name(v[0]), called=bool(v[1]))
    if v[1]:
        n = v[6]
        o.update(tn=v[2], fn=v[3], rssi=v[4], toa256=v[5], burst=v[7:7 + n], rts_called=bool(v[7 + n]), rts=(v[8 + n], v[9 + n]))
    return o


def c_data_rx(datagrams, fn_advance=0):
    return [parse_rx_obs(t) for t in run_lines([rx_line(list(d), fn_advance) for d in datagrams])]


RC_WIRE = {"OK": 0, "EINVAL": 1, "ENOTSUP": 2, "EIO": 3, "ENODEV": 4, "ENOSPC": 5}


def rx_wire(o):
    """observation in the encoding of Model/TrxIf.v w_trxif_rx"""
    if "crash" in o:
        return [9]
    w = [RC_WIRE.get(o["rc"], 99), 1 if o["called"] else 0]
    if o["called"]:
        w += [o["tn"], o["fn"], o["rssi"], o["toa256"], len(o["burst"])] + o["burst"] + [1 if o["rts_called"] else 0, o["rts"][0], o["rts"][1]]
    return w


# ---- TRXD transmit

def tx_line(tn, fn, pwr, bits, fork=False):
    return "%stx %d %d %d %d %s" % ("F " if fork else "", tn, fn, pwr, len(bits), " ".join(map(str, bits)))


def parse_tx_obs(tok):
    c = _crash(tok)
    if c is not None:
        return dict(crash=c)
    v = [int(x) for x in tok]
    o = dict(rc=rc_name(v[0]), sent=[])
    i = 2
    for _ in range(v[1]):
        n = v[i]
        o["sent"].append(v[i + 1:i + 1 + n])
        i += 1 + n
    return o


def c_burst_req(requests):
    # a burst longer than the transmit buffer overflows the stack buffer: fork those so that the run survives
    return [parse_tx_obs(t) for t in run_lines([tx_line(tn, fn, pwr, list(b), fork=len(b) > 400) for tn, fn, pwr, b in requests])]


def tx_wire(o):
    if "crash" in o:
        return [9]
    if o["rc"] != "OK" or len(o["sent"]) != 1:
        return [99, len(o["sent"])]
    return [0] + o["sent"][0]


# ---- TRXC commands

CMD_TYPES = {"reset": 0, "poweron": 1, "poweroff": 2, "measure": 3, "setfreq_h0": 4, "setfreq_h1": 5, "setslot": 6, "setta": 7}


def cmd_args(cmd):
    """('setfreq_h1', hsn, maio, [arfcn..]) -> wire ints [type, params..] (shared by the harness line and the model line)"""
    k = cmd[0]
    if k == "unknown":
        return [int(cmd[1])]
    t = CMD_TYPES[k]
    if k == "setfreq_h1":
        return [t, cmd[1], cmd[2], len(cmd[3])] + list(cmd[3])
    return [t] + [int(x) for x in cmd[1:]]


def cmd_line(cmd, fork=False):
    return ("F " if fork else "") + "cmd " + " ".join(map(str, cmd_args(cmd)))


def parse_cmd_obs(tok):
    c = _crash(tok)
    if c is not None:
        return dict(crash=c)
    v = [int(x) for x in tok]
    o = dict(rc=rc_name(v[0]), queue=[], sent=[], verb_len=[])
    i = 2
    for _ in range(v[1]):
        crit, vl, n = v[i], v[i + 1], v[i + 2]
        o["queue"].append((bool(crit), bytes(v[i + 3:i + 3 + n])))
        o["verb_len"].append(vl)
        i += 3 + n
    ns = v[i]
    i += 1
    for _ in range(ns):
        n = v[i]
        o["sent"].append(bytes(v[i + 1:i + 1 + n]))
        i += 1 + n
    return o


def c_ctrl_cmds(cmd):
    fork = cmd[0] == "setslot"      # pchan indexes a static table without a range check
    return parse_cmd_obs(run_lines([cmd_line(cmd, fork)])[0])


def cmd_wire(o):
    if "crash" in o:
        return [9]
    w = [RC_WIRE.get(o["rc"], 99), len(o["queue"])]
    for crit, s in o["queue"]:
        w += [1 if crit else 0, len(s)] + list(s)
    return w


# ---- TRXC responses

def rsp_line(steps, fork=True):
    """steps: [(pending bytes|None, critical, octets)]"""
    s = "%srsp %d" % ("F " if fork else "", len(steps))
    for pend, crit, d in steps:
        if pend is None:
            s += " 0 0 0"
        else:
            s += " 1 %d %d %s" % (1 if crit else 0, len(pend), " ".join(map(str, pend)))
        s += " %d %s" % (len(d), " ".join(map(str, d)))
    return s


def parse_rsp_obs(tok, nsteps=1):
    """-> list of per-step dicts (a crash makes the whole line one dict(crash=...))"""
    c = _crash(tok)
    if c is not None:
        kind = "null-deref" if re.search(r"SEGV on unknown address 0x0*[0-9a-f]{1,3}\b", c) else \
            ("uninit" if "use-of-uninitialized-value" in c else "other")
        return [dict(crash=c, outcome="crash:" + kind)]
    v = [int(x) for x in tok]
    out = []
    for k in range(nsteps):
        rc, term, pu, state, ql, tdel, f2a, f2aarg, rspc, arfcn, dbm = v[11 * k:11 * k + 11]
        o = dict(rc=rc_name(rc), term=term, powered_up=pu, state=state, queue_len=ql, timer_del=tdel, f2a_called=f2a, f2a_arg=f2aarg,
                 rsp_called=rspc, arfcn=arfcn, dbm=dbm, crash=None)
        o["outcome"] = classify_rsp(o)
        out.append(o)
    return out


def classify_rsp(o):
    """canonical outcome of one trx_ctrl_read_cb call from the recorded effects (no log text involved).
    Start state of every step: queue = [pending] or [], fsm state RSP_WAIT(3), prev_state OFFLINE(0), powered_up = 1."""
    rc = o["rc"]
    if rc == "OK" and o["timer_del"] == 0 and o["term"] == -1 and o["state"] == 3 and o["powered_up"] == 1 and o["f2a_called"] == 0:
        return "no-effect"
    if rc == "EINVAL" and o["term"] == -1 and o["timer_del"] == 1:
        return "no-pending"
    if rc == "EIO" and o["term"] == 3:
        return "error"
    if rc == "OK" and o["term"] == -1 and o["queue_len"] == 0 and o["timer_del"] == 1:
        # the MEASURE branch is the only one that leaves the FSM in RSP_WAIT; its call-back may return before the ARFCN lookup
        if (o["powered_up"], o["state"]) == (1, 3):
            return "accepted:measure" if o["f2a_called"] else "accepted:measure-unparsed"
        if o["f2a_called"]:
            return "unclassified"
        return {(1, 2): "accepted:poweron", (0, 1): "accepted:poweroff", (1, 1): "accepted:echo", (1, 0): "accepted:other"}.get(
            (o["powered_up"], o["state"]), "unclassified")
    return "unclassified"


def rsp_wire(o):
    """observation in the encoding of Model/TrxIf.v w_trxif_rsp"""
    oc = o["outcome"]
    if oc == "crash:null-deref":
        return [90]
    if oc.startswith("crash:"):
        return [92]
    if oc == "no-effect":
        return [10]
    if oc == "no-pending":
        return [12]
    if oc == "error":
        return [13]
    if oc == "accepted:measure":
        if o["rsp_called"]:
            return [20, 3, o["f2a_arg"], 1, o["arfcn"], o["dbm"]]
        return [20, 3, o["f2a_arg"], 0]
    if oc.startswith("accepted:"):
        return [20, {"poweron": 1, "poweroff": 2, "echo": 4, "other": 5, "measure-unparsed": 6}[oc[9:]]]
    return [99]


def c_ctrl_rsp(pending, response_octets, critical=True, before=(), msan=False):
    steps = list(before) + [(pending, critical, list(response_octets))]
    tok = run_lines([rsp_line(steps)], msan=msan, symbolize=True)[0]
    return parse_rsp_obs(tok, len(steps))[-1]


def c_ctrl_rsp_many(cases, msan=False):
    toks = run_lines([rsp_line([c]) for c in cases], msan=msan)
    return [parse_rsp_obs(t, 1)[0] for t in toks]


# ---------------------------------------------------------------- model lines (Model/TrxIf.v wire functions)

def m_rx_line(octets, fn_advance=0):
    return "w_trxif_rx %d %s" % (fn_advance, " ".join(map(str, octets)))


def m_tx_line(tn, fn, pwr, bits):
    return "w_trxif_tx %d %d %d %s" % (tn, fn, pwr, " ".join(map(str, bits)))


def m_cmd_line(cmd):
    return "w_trxif_cmd " + " ".join(map(str, cmd_args(cmd)))


def m_rsp_line(case, op="w_trxif_rsp"):
    pend, crit, d = case
    if pend is None:
        head = "0 0 0"
    else:
        head = "1 %d %d %s" % (1 if crit else 0, len(pend), " ".join(map(str, pend)))
    return "%s %s %s" % (op, head, " ".join(map(str, d)))


# ---------------------------------------------------------------- generators

def sample_cmds(rng, n=40):
    """trxcon_phyif_cmd tuples: every type, boundary parameters"""
    arf = [0, 1, 124, 125, 127, 128, 251, 252, 259, 293, 306, 340, 350, 425, 438, 511, 512, 700, 885, 886, 954, 955, 975, 1023, 1024, 4095, 4096,
           512 | 0x8000, 810 | 0x8000, 0x8000, 0xffff, 1 | 0x4000]
    out = [("reset",), ("poweron",), ("poweroff",), ("unknown", 8), ("unknown", 255), ("setfreq_h1", 0, 0, [])]
    for ta in (-128, -1, 0, 1, 63, 127):
        out.append(("setta", ta))
    for p in (0, 1, 2, 3, 4, 5, 6, 7, 8, 9, 99, 100, 101):
        out.append(("setslot", rng.below(8), p))
    out.append(("setslot", 255, 6))
    for a in arf:
        out.append(("measure", a))
        out.append(("setfreq_h0", a))
    for k in (1, 2, 8, 61, 62, 63, 64, 65, 70, 71, 72, 100):
        base = rng.choice([1, 512, 512 | 0x8000, 975, 128, 259])
        out.append(("setfreq_h1", rng.below(256), rng.below(256), [base + (i % 60) for i in range(k)]))
    out.append(("setfreq_h1", 63, 63, [10, 20, 126, 30]))        # undefined ARFCN inside
    while len(out) < n:
        k = rng.range(1, 64)
        out.append(("setfreq_h1", rng.below(64), rng.below(64), sorted(rng.choice(arf[:26]) for _ in range(k))))
    return out


VERBS = [b"ECHO", b"POWEROFF", b"POWERON", b"SETSLOT", b"RXTUNE", b"TXTUNE", b"MEASURE", b"SETTA", b"SETFH"]
STATUS = [b"0", b"1", b"-1", b"+0", b"00", b"7", b"255", b"-0", b"2147483647", b"2147483648", b"-2147483648", b"4294967296", b"4294967295",
          b"9223372036854775807", b"9223372036854775808", b"-9223372036854775808", b"-9223372036854775809", b"18446744073709551616",
          b"99999999999999999999999999", b"-99999999999999999999999999", b" 0", b"\t0", b"\n5", b"0x10", b"0 ", b"12abc"]


def wellformed_rsp(rng, pend, status=None):
    """the reply the protocol prescribes for a pending command: RSP <verb> <status> <args>"""
    parts = pend.split(b" ")
    verb, args = parts[1], parts[2:]
    st = status if status is not None else rng.choice([b"0", b"0", b"0", b"1", b"-1", b"5"])
    r = b"RSP " + verb + b" " + st
    if args:
        r += b" " + b" ".join(args)
    if verb == b"MEASURE":
        r += b" " + rng.choice([b"-77", b"-110", b"0", b"-1"])
    return r + b"\0"


def malformed_rsp(rng, pend):
    """one malformed / hostile reply; pend may be None"""
    base = pend if pend is not None else b"CMD " + rng.choice(VERBS)
    verb = base.split(b" ")[1]
    good = wellformed_rsp(rng, base, b"0")
    k = rng.below(26)
    if k == 0:
        return b"RSP " + verb                                   # missing status, no NUL
    if k == 1:
        return b"RSP " + verb + b"\0"                            # missing status
    if k == 2:
        return b"RSP " + verb + b" "                             # status field empty
    if k == 3:
        return b"RSP " + verb + b" " + rng.choice([b"x", b"-", b"+", b"abc", b"\xff", b" ", b"- 1", b"\0" + b"5"])
    if k == 4:
        return b"RSP " + verb + b" " + rng.choice(STATUS)        # odd but numeric status
    if k == 5:
        return b"RSP " + verb + b" " + rng.choice(STATUS) + b" " + bytes(rng.below(256) for _ in range(rng.below(20)))
    if k == 6:
        return b"RSP " + verb[:rng.below(len(verb) + 1)]         # verb prefix only
    if k == 7:
        return b"RSP " + verb[:rng.below(len(verb) + 1)] + b" " + rng.choice(STATUS)
    if k == 8:
        return b"RSP " + rng.choice(VERBS) + b" " + rng.choice([b"0", b"1"])      # wrong verb (maybe)
    if k == 9:
        return b"RSP " + verb + rng.choice([b"X", b"S", b"\0"]) + b" 0"
    if k == 10:
        return rng.choice([b"", b"R", b"RS", b"RSP", b"RSP ", b"RSP  ", b"RSP  0", b"RSP   5", b"RSP \0", b"\0", b"\0\0", b"CMD " + verb, b"rsp " + verb + b" 0"])
    if k == 11:
        return good[:rng.below(len(good) + 1)]                   # truncation anywhere
    if k == 12:
        d = bytearray(good)
        d[rng.below(len(d))] ^= 1 << rng.below(8)                # bit flip
        return bytes(d)
    if k == 13:
        d = bytearray(good)
        d[rng.below(len(d))] = rng.choice([0, 32, 9, 10, 48, 45, 255])
        return bytes(d)
    if k == 14:
        n = rng.choice([1022, 1023, 1024, 1025, 2000])          # around the receive buffer
        body = b"RSP " + verb + b" 0 "
        return body + bytes(rng.choice([48, 49, 32, 65]) for _ in range(n - len(body)))
    if k == 15:
        n = rng.choice([1022, 1023, 1024, 1025])
        return b"RSP " + bytes(rng.choice([65, 66, 67]) for _ in range(n - 4))   # no space at all, fills the buffer
    if k == 16:
        n = rng.choice([1021, 1022, 1023, 1024])
        return b"RSP " + verb + b" " + b"1" * (n - 5 - len(verb))    # digits run to the end of the buffer
    if k == 17:
        return bytes(rng.below(256) for _ in range(rng.choice([1, 2, 3, 4, 5, 8, 14, 15, 40])))
    if k == 18:
        return b"RSP MEASURE " + rng.choice([b"0", b"0 ", b"0 9", b"0\0", b"0 \0", b"00 935200 -77", b"-1 935200 -77", b"0 935200", b"0 935200 ", b"0 935200 x",
                                              b"0 x -77", b"0  935200 -77", b"0 -935200 -77", b"0 99999999999999999999999 -5", b"0 4294967296 -5", b"0 93520000 -5",
                                              b"0 935200 -99999999999", b"0\0935200 -77", b"0 935200\0-77", b"10 935200 -77", b"0 1842800 -60", b"0 1930200 -60"])
    if k == 19:
        return b"RSP " + verb + b" 0" + b"\0" + bytes(rng.below(256) for _ in range(rng.below(30)))   # octets after the NUL
    if k == 20:
        return b"RSP " + verb + b"  " + rng.choice(STATUS)       # two spaces
    if k == 21:
        return b"RSP " + b" " + rng.choice(STATUS)               # empty verb
    if k == 22:
        return b"RSP " + verb + b"\t0"
    if k == 23:
        return good.replace(b" ", b"\0", 1)
    if k == 24:
        return b"RSP " + base[4:] + b" 0"                        # arguments before the status
    return good[:-1]                                             # well-formed but without the NUL


def junk_pending(rng):
    return rng.choice([b"CMD", b"CM", b"", b"CMD ", b"CMD  ", b"CMD POWERONX", b"CMD POWER", b"CMD MEASUREX 1", b"CMD ECHOECHO", b"XXXX ECHO", b"CMD \xff\xfe 1",
                       b"CMD SETTA\x00 5", b"CMD MEASURE"])


def rsp_cases(rng, n, cmds, malformed_share=(1, 2)):
    """(pending|None, critical, octets) cases: replies to the commands trxcon really emits (cmds = their texts), well-formed and malformed"""
    out = []
    for _ in range(n):
        r = rng.below(12)
        if r == 0:
            pend = None
        elif r == 1:
            pend = junk_pending(rng)
        else:
            pend = rng.choice(cmds)
        crit = not (pend is not None and pend.startswith(b"CMD SETTA")) if rng.chance(5, 6) else rng.chance(1, 2)
        if rng.chance(*malformed_share):
            d = malformed_rsp(rng, pend if (pend is not None and pend.count(b" ") >= 1 and len(pend) > 4 and pend.split(b" ")[1]) else None)
        else:
            base = pend if (pend is not None and pend.startswith(b"CMD ") and len(pend.split(b" ")) > 1 and pend.split(b" ")[1]) else b"CMD " + rng.choice(VERBS)
            d = wellformed_rsp(rng, base, rng.choice(STATUS[:8]) if rng.chance(1, 3) else None)
        out.append((pend, crit, list(d)))
    return out


# ---------------------------------------------------------------- C14 oracle for the TRXC response parser

def _show_case(case):
    pend, crit, d = case
    return dict(pending=None if pend is None else pend.decode("latin-1"), critical=bool(crit), datagram=list(d),
                datagram_text=bytes(d).decode("latin-1"))


# predecessor pairs for the stale-stack differential: two earlier datagrams that are both legitimate and leave different remains
# on the stack of the socket call-back.  (key, first, second), tried in this order; the first pair that changes the outcome names the defect.
STALE = [
    ("c14-c-measure-offset",                                      # ignored datagrams: differ only in buf[] beyond octet 14
     (None, False, list(b"XXXXXXXXXXXXXX947000 -33\0")), (None, False, list(b"XXXXXXXXXXXXXX936000 -44\0"))),
    ("c14-c-ctrl-uninit-resp",                                   # differ in the value `resp` is left with (7 / 0)
     (b"CMD SETTA 3", False, list(b"RSP SETTA 7 3\0")), (b"CMD SETTA 3", False, list(b"RSP SETTA 0 3\0"))),
    ("c14-c-measure-uninit-result",                               # differ in the freq10 / dbm a MEASURE reply leaves behind
     (b"CMD MEASURE 947000", True, list(b"RSP MEASURE 0 947000 -33\0")), (b"CMD MEASURE 936000", True, list(b"RSP MEASURE 0 936000 -44\0"))),
]
_DIFF_FIELDS = ("outcome", "rc", "f2a_arg", "rsp_called", "arfcn", "dbm")


def stale_stack_differential(cases):
    """For every case: run it in one process directly after each of two different, legitimate earlier datagrams (STALE pairs).
    Code that only reads what it has written gives the same observation both times; a difference means a value left behind by
    the EARLIER datagram was read (uninitialised variable / octets beyond the received ones).  Model-independent.
    -> list (per case) of None | (key, dict(predecessor_first, predecessor_second, observed_first, observed_second))"""
    lines = []
    for c in cases:
        for _, a, b in STALE:
            lines.append(rsp_line([a, c], fork=False))
            lines.append(rsp_line([b, c], fork=False))
    toks = run_lines(lines)
    out = []
    per = 2 * len(STALE)
    for k, c in enumerate(cases):
        hit = None
        for j, (key, a, b) in enumerate(STALE):
            oa = parse_rsp_obs(toks[per * k + 2 * j], 2)[-1]
            ob = parse_rsp_obs(toks[per * k + 2 * j + 1], 2)[-1]
            fa = {f: oa.get(f) for f in _DIFF_FIELDS}
            fb = {f: ob.get(f) for f in _DIFF_FIELDS}
            if fa != fb and hit is None:
                hit = (key, dict(predecessor_first=_show_case(a), predecessor_second=_show_case(b), observed_first=fa, observed_second=fb))
        out.append(hit)
    return out


def stale_stack_witness(case, what=None):
    """single-case form of stale_stack_differential: None | (key, witness)"""
    return stale_stack_differential([case])[0]


def ctrl_malformed_campaign(ctx, n, use_msan=True):
    """C14 oracle of trx_ctrl_read_cb on the real code: n generated replies (valid + malformed) with and without a pending command.
    Every detection is made on the implementation, independently of the model (so a defect that returns is reported whatever the model says).
    Returns [(key, witness)] - at most 3 witnesses per key; [] on a tree without these defects:
      c14-c-ctrl-null-deref        the forked ASan/UBSan run died with SEGV at a tiny address (sscanf(p + 1) with p = NULL)
      c14-c-ctrl-uninit-resp       the accept/reject decision depends on the previous datagram's status (stale-stack differential), or an
                                   MSan use-of-uninitialized-value report inside trx_ctrl_read_cb
      c14-c-measure-offset         the MEASURE result depends on octets of an earlier datagram beyond the current one (differential / MSan)
      c14-c-measure-uninit-result  freq10 / dbm of trx_if_measure_rsp_cb taken over from an earlier reply (differential / MSan)
      c14-c-ctrl-crash-other       any other sanitizer report
      c14-c-ctrl-model-disagrees   the extracted model and the real code differ on a case (the proofs then say nothing about that case)"""
    rng = ctx.rng.fork("ctrl-campaign")
    cmds = sample_cmds(rng, 50)
    cobs = [parse_cmd_obs(t) for t in run_lines([cmd_line(c, fork=(c[0] == "setslot")) for c in cmds])]
    texts = sorted(set(q[1] for o in cobs if "queue" in o for q in o["queue"]))
    fixed = [(b"CMD POWERON", True, list(b"RSP POWERON")), (b"CMD POWERON", True, list(b"RSP POWERON\0")), (b"CMD ECHO", True, list(b"RSP ")),
             (b"CMD POWERON", True, list(b"RSP POWERON x\0")), (b"CMD POWERON", True, list(b"RSP POWERON \0")),
             (b"CMD SETTA 5", False, list(b"RSP SETTA x 5\0")),
             (b"CMD MEASURE 935200", True, list(b"RSP MEASURE 0")), (b"CMD MEASURE 935200", True, list(b"RSP MEASURE 0\0")),
             (b"CMD MEASURE 935200", True, list(b"RSP MEASURE 0 935200\0")), (b"CMD MEASURE 935200", True, list(b"RSP MEASURE 0 x\0")),
             (b"CMD MEASURE 935200", True, list(b"RSP MEASURE 00 935200 -77\0")), (b"CMD MEASURE 935200", True, list(b"RSP MEASURE 0 935200 -77\0"))]
    cases = fixed + rsp_cases(rng, max(0, n - len(fixed)), texts, malformed_share=(3, 4))
    obs = c_ctrl_rsp_many(cases)
    model = ctx.model("TrxIf", [m_rsp_line(c) for c in cases])
    found = {}

    def add(key, wit):
        found.setdefault(key, [])
        if len(found[key]) < 3:
            found[key].append(wit)

    alive = []
    for k, (case, o, m) in enumerate(zip(cases, obs, model)):
        w = rsp_wire(o)
        ctx.count("ctrl-campaign:" + o["outcome"])
        if o["outcome"].startswith("crash:"):
            key = "c14-c-ctrl-null-deref" if o["outcome"] == "crash:null-deref" else "c14-c-ctrl-crash-other"
            if len(found.get(key, [])) < 3:
                sym = c_ctrl_rsp(case[0], case[2], critical=case[1])      # re-run with the symbolizer for the source line
                add(key, dict(case=_show_case(case), sanitizer=sym.get("crash") or o["crash"], model=m))
        else:
            # only replies that get past the signature check with a command pending reach the code in question
            if case[0] is not None and bytes(case[2][:4]) == b"RSP ":
                alive.append(k)
        if w != m and m[0] != 80:
            add("c14-c-ctrl-model-disagrees", dict(case=_show_case(case), impl=w, model=m, sanitizer=o.get("crash")))
    # stale-stack differential on every case that reaches the parser and does not crash
    diffs = stale_stack_differential([cases[k] for k in alive])
    ctx.count("ctrl-campaign:differential-cases", len(alive))
    for k, hit in zip(alive, diffs):
        if hit is not None:
            add(hit[0], dict(case=_show_case(cases[k]), how="same call directly after two different earlier datagrams (same process, ASan build)", **hit[1]))
            ctx.count("ctrl-campaign:differs:" + hit[0])
    # MemorySanitizer: direct reports of uninitialised reads
    if use_msan and build_harness(ctx, msan=True):
        idx = alive[:40] + alive[40::max(1, len(alive) // 80)][:80]
        mobs = c_ctrl_rsp_many([cases[k] for k in idx], msan=True)
        for k, o in zip(idx, mobs):
            ctx.count("ctrl-campaign-msan:" + o["outcome"])
            if o["outcome"].startswith("crash:"):
                sym = c_ctrl_rsp(cases[k][0], cases[k][2], critical=cases[k][1], msan=True)
                txt = sym.get("crash") or o["crash"]
                if o["outcome"] == "crash:null-deref":
                    key = "c14-c-ctrl-null-deref"
                elif o["outcome"] != "crash:uninit":
                    key = "c14-c-ctrl-crash-other"
                elif "trx_if_measure_rsp_cb" in txt:
                    key = "c14-c-measure-offset" if len(cases[k][2]) < 14 else "c14-c-measure-uninit-result"
                else:
                    key = "c14-c-ctrl-uninit-resp"
                if not any("msan" in w for w in found.get(key, [])):
                    found.setdefault(key, []).append(dict(case=_show_case(cases[k]), msan=txt, model=model[k]))
    else:
        ctx.note("ctrl_malformed_campaign: %s; uninitialised reads are looked for by the stale-stack differential only"
                 % ("the MSan build is used in the thorough tier only" if not use_msan else "no MSan build (clang missing or the harness does not build with it)"))
    return [(k, w) for k in sorted(found) for w in found[k]]


# ---------------------------------------------------------------- SETFH composer against the specification (used by C05 and C20)

def arfcn_khz(a):
    """(downlink, uplink) in kHz of an ARFCN (3GPP TS 45.005 table 2), None where this oracle does not speak (other bands)"""
    pcs = bool(a & 0x8000)
    n = a & 0x3ff
    if a & 0x4000 or (a & ~0x83ff):
        return None
    if pcs:
        if 512 <= n <= 810:
            ul = 1850200 + 200 * (n - 512)
            return ul + 80000, ul
        return None
    if 0 <= n <= 124:
        ul = 890000 + 200 * n
        return ul + 45000, ul
    if 955 <= n <= 1023:
        ul = 890000 + 200 * (n - 1024)
        return ul + 45000, ul
    if 512 <= n <= 885:
        ul = 1710200 + 200 * (n - 512)
        return ul + 95000, ul
    return None


def setfh_spec_check(ctx, hsn, maio, chans, keyp, extra=None):
    """trxcon's SETFH composer on a hopping list (ARFCNs in hopping order): the command carries EXACTLY that list (every channel,
    in order, as 'rx tx' in kHz with rx = downlink) behind HSN and MAIO, or trxcon refuses and sends nothing; never a crash / sanitizer stop"""
    out = c_ctrl_cmds(("setfreq_h1", hsn, maio, list(chans)))
    case = dict(hsn=hsn, maio=maio, channels=list(chans), **(extra or {}))
    if out.get("crash"):
        ctx.oracle_fail("trxcon's SETFH composer crashed (sanitizer stop) on a hopping list of %d channels" % len(chans), dict(case, out=str(out)[:400]), key=keyp + "-setfh-memory")
        return "crash"
    fr = [arfcn_khz(a) for a in chans]
    if any(f is None for f in fr):
        return "skipped"
    if out.get("rc") not in (0, "OK"):
        if out["queue"]:
            ctx.oracle_fail("trxcon refused a SETFH but queued a command all the same", dict(case, rc=out.get("rc")), key=keyp + "-setfh-refused-but-sent")
        return "refused"
    want = "CMD SETFH %d %d %s" % (hsn, maio, " ".join("%d %d" % f for f in fr))
    got = [t.rstrip(b"\0").decode("latin-1").rstrip(" ") for _, t in out["queue"]]
    if got != [want]:
        first = next((i for i, (a, b) in enumerate(zip(got[0].split(" "), want.split(" "))) if a != b), None) if got else None
        ctx.oracle_fail("the SETFH command trxcon composes does not carry exactly the hopping list it was given (%d channels)" % len(chans),
                        dict(case, first_differing_token=first, got_tokens=len(got[0].split(" ")) if got else 0, want_tokens=len(want.split(" "))),
                        key=keyp + "-setfh-list", expected=want[-60:], observed=(got[0][-60:] if got else None))
        return "wrong"
    return "sent"
