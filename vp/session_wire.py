"""run an operation list on the real Application (vp/session.py) and encode configuration / operations / observations
exactly as Model/TrxWire.v does; generators of session scripts"""
from . import common
from .session import Session

H = 2715648


def cfg_ints(cfg):
    out = [len(cfg)]
    for c in cfg:
        out += [c["idx"], int(c["mgt"]), int(c["clock"]), int(c["pm"]), len(c["children"])] + c["children"]
    return out


def op_ints(op):
    k = op[0]
    if k == "ctrl":
        return [1, op[1], len(op[2])] + list(op[2])
    if k == "data":
        return [2, op[1], len(op[2])] + list(op[2])
    if k == "tick":
        return [3, op[1]]
    if k == "draws":
        return [4, len(op[1])] + list(op[1])
    if k == "state":
        return [5]
    raise ValueError(k)


def _opt(x):
    return [0, 0] if x is None else [1, int(x)]


def enc_state(st, links, gen_running):
    out = [5]
    for t in st:
        out += [int(t["run"])] + _opt(t["rx"]) + _opt(t["tx"])
        if t["fh"] is None:
            out += [0]
        else:
            hsn, maio, ma = t["fh"]
            out += [1, hsn, maio, len(ma)]
            for a, b in ma:
                out += [a, b]
        out += [t["ver"], len(t["q"])] + list(t["q"]) + t["sim"]
    out += [len(links)] + links + [int(gen_running)]
    return out


def run_real(trx_defs, ops, ports=(5700, 6700)):
    """-> (cfg, observation ints, events) ; events: per op a dict with decoded observation (for oracles)"""
    s = Session(trx_defs, *ports)
    try:
        cfg = s.config()
        obs, events = [], []
        for op in ops:
            k = op[0]
            if k == "ctrl":
                pre = enc_state(*s.state())
                o, exc = s.ctrl(op[1], op[2])
                obs += o
                events.append(dict(op=op, obs=o, exc=exc, sleeps=list(s.sleeps), pre=pre, post=enc_state(*s.state())))
                s.sleeps.clear()
            elif k == "data":
                o, exc = s.data(op[1], op[2])
                obs += o
                events.append(dict(op=op, obs=o, exc=exc))
            elif k == "tick":
                log, stale, exc = s.tick(op[1])
                o = [3, 1 if exc else 0, len(log)]
                # the model reports (src, dst); the sockets only show dst: src is recovered from the datagram order by the
                # oracle, here src is left to the comparison as the model's value through 'src_of' (see compare())
                for src, j, d, remote in log:
                    o += [src, j, 0, len(d)] + list(d)
                o += [len(stale)]
                for msg in stale:
                    o += _stale_ints(s, msg)
                obs += o
                events.append(dict(op=op, obs=o, exc=exc, log=log, stale=stale))
                if exc:
                    break
            elif k == "draws":
                s.draws.raw += list(op[1])
                events.append(dict(op=op))
            elif k == "state":
                st = s.state()
                obs += enc_state(*st)
                events.append(dict(op=op, state=st))
        return cfg, obs, events
    finally:
        s.close()


def _stale_ints(s, msg):
    # "(<trx>) Stale TRXD message (fn=<tick fn>): ... fn=<msg fn> ..." -> (trx index, message fn)
    import re
    m = re.match(r"\((.*?)\) Stale TRXD message \(fn=(\d+)\): (.*)$", msg)
    name = m.group(1)
    idx = [k for k, t in enumerate(s.trxs) if str(t) == name]
    mf = re.search(r"fn=(\d+)", m.group(3))
    return [idx[0] if idx else -1, int(mf.group(1)) if mf else -1]


def mask_src(model_obs):
    return list(model_obs)


def _unused_mask_src(model_obs):
    """the model's tick records carry the source transceiver; sockets do not show it: replace by -1 for comparison"""
    out = list(model_obs)
    i = 0
    n = len(out)
    while i < n:
        k = out[i]
        if k == 1:
            i += 3 + out[i + 2]
        elif k == 2:
            i += 2
        elif k == 3:
            nd = out[i + 2]
            i += 3
            for _ in range(nd):
                out[i] = -1
                i += 4 + out[i + 3]
            ns = out[i]
            i += 1 + 2 * ns
        elif k == 5:
            return out  # state dumps have variable length; they only occur at the end of our scripts or are compared whole
        else:
            return out
    return out


def model_line(cfg, ops):
    ints = cfg_ints(cfg)
    for op in ops:
        ints += op_ints(op)
    return "w_trx_session " + " ".join(map(str, ints))


# ---------------------------------------------------------------- script generators

def cmd(s):
    return list(s.encode()) + [0]


def tx_datagram(ver, fn, tn, pwr, burst, pad=0):
    return [(ver << 4) | tn] + [(fn >> 24) & 255, (fn >> 16) & 255, (fn >> 8) & 255, fn & 255, pwr] + list(burst) + [0] * pad


VERBS = ["POWERON", "POWEROFF", "RXTUNE", "TXTUNE", "MEASURE", "SETFH", "SETFORMAT", "SETPOWER", "NOMTXPOWER", "RFMUTE", "SETTA",
         "FAKE_TOA", "FAKE_RSSI", "FAKE_CI", "FAKE_DROP", "FAKE_TRXC_DELAY", "SETSLOT", "ECHO", "SETTSC", "NOHANDOVER", "SETRXGAIN"]
NATURAL_ARGC = dict(POWERON=0, POWEROFF=0, RXTUNE=1, TXTUNE=1, MEASURE=1, SETFORMAT=1, SETPOWER=1, NOMTXPOWER=0, RFMUTE=1, SETTA=1,
                    FAKE_TOA=2, FAKE_RSSI=2, FAKE_CI=2, FAKE_DROP=2, FAKE_TRXC_DELAY=1, SETSLOT=2, ECHO=0, SETTSC=1, NOHANDOVER=2, SETRXGAIN=1)
FREQS = [935000, 935200, 890000, 890200, 1805000]


def rand_int_arg(rng, verb):
    if verb in ("RXTUNE", "TXTUNE", "MEASURE"):
        return rng.choice(FREQS + [0, 0])       # 0 kHz is a value like any other ("tuned to 0" is not "never tuned")
    if verb == "SETFORMAT":
        return rng.choice([-1, 0, 0, 1, 1, 2, 15, 16])
    if verb == "RFMUTE":
        return rng.choice([0, 0, 1, 2, -1])
    if verb == "SETTA":
        return rng.choice([0, 0, 1, 2, 63, -3, 64, 127, -128])
    if verb == "SETPOWER":
        return rng.choice([0, 0, 2, 10, 20, -5, 200])
    if verb == "FAKE_DROP":
        return rng.choice([-1, 0, 1, 2, 3, 5])
    if verb in ("FAKE_TOA", "FAKE_CI", "FAKE_RSSI"):
        return rng.choice([-300, -70, -5, 0, 0, 1, 3, 30, 200, 1000])
    if verb == "FAKE_TRXC_DELAY":
        return rng.choice([0, 5, 0, 5, -1, -100, 1000, 9223372036854, 9223372036855, 10 ** 30])      # the last two: more than time.sleep() takes
    return rng.choice([-1, 0, 1, 7, 100])


def rand_cmd(rng, wellformed=True):
    verb = rng.choice(VERBS)
    if verb == "SETFH":
        n = rng.choice([0, 1, 2, 3, 4, 5, 6, 8, 16]) if rng.chance(1, 3) else 2 * rng.range(1, 4)
        hsn = rng.choice([0, 1, 17, 63]) if wellformed or rng.chance(3, 4) else rng.choice([-1, 64, 200, -200])
        args = [hsn, rng.choice([0, 1, 5, 63])] + [rng.choice(FREQS) for _ in range(n)]
    else:
        argc = NATURAL_ARGC[verb] if rng.chance(3, 4) else rng.range(0, 4)
        if verb.startswith("FAKE_") and verb != "FAKE_TRXC_DELAY" and rng.chance(1, 3):
            argc = 1
        args = [rand_int_arg(rng, verb) for _ in range(argc)]
    toks = [verb] + [str(a) for a in args]
    if not wellformed:
        how = rng.below(9)
        if how == 0 and len(toks) > 1:
            toks[rng.range(1, len(toks) - 1)] = rng.choice(["abc", "", "1.5", "0x10", "--1", "1_000", "_1", "1__0", "+7", " 5", "5\t", "\t", "-", "+", "00012", "-0"])
        elif how == 1:
            return list(("CMD " + " ".join(toks)).encode())            # no NUL
        elif how == 2:
            return list(("CMD " + " ".join(toks) + " \0").encode())    # trailing space before NUL
        elif how == 3:
            return list(("CMD  " + " ".join(toks) + "\0").encode())    # double space
        elif how == 4:
            return list(("CMDX" + " ".join(toks) + "\0\0\0").encode())
        elif how == 5:
            return list((rng.choice(["RSP ", "IND ", "cmd ", "", "CM"]) + " ".join(toks) + "\0").encode())
        elif how == 6:
            toks[0] = toks[0].lower() if rng.chance(1, 2) else toks[0] + "X"
        elif how == 8 and len(toks) > 1:
            # a huge (or hugely negative) value IN PLACE of an argument: beyond int32 / int64 / what a float or time.sleep() can hold
            toks[rng.range(1, len(toks) - 1)] = str(rng.choice([1, -1]) * 10 ** rng.choice([10, 13, 19, 30, 400]))
        else:
            toks.append(str(10 ** rng.choice([10, 12, 14])))
    return list(("CMD " + " ".join(toks) + "\0").encode("utf-8"))


def rand_trx_defs(rng):
    defs = []
    n = rng.choice([0, 0, 1, 2, 3, 4])
    used = set()
    for _ in range(n):
        kind = rng.below(3)
        if kind == 0:       # child of BTS
            base, idx = 5700, rng.choice([1, 2, 3, 1, 2, 10, 12, 25])      # two-digit child indices as well ("/12" is child 12)
        elif kind == 1:     # child of MS
            base, idx = 6700, rng.choice([1, 2, 1, 11])
        else:               # additional parent
            base, idx = rng.choice([7700, 8700]), 0
        if (base, idx) in used or (idx > 0 and base in (7700, 8700) and (base, 0) not in used):
            continue
        used.add((base, idx))
        defs.append(("127.0.0.1", base, idx))
    return defs


def setup_ops(rng, n_trx, tuned_pairs=True):
    """tune and power transceivers so that traffic flows: returns ops"""
    ops = []
    for i in range(n_trx):
        if rng.chance(5, 6):
            a, b = (FREQS[0], FREQS[2]) if i % 2 == 0 else (FREQS[2], FREQS[0])
            if rng.chance(1, 6):
                a, b = rng.choice(FREQS), rng.choice(FREQS)
            if rng.chance(1, 5):
                ops.append(("ctrl", i, cmd("CMD SETFH %d %d %d %d %d %d" % (rng.choice([0, 1, 17, 63]), rng.choice([0, 1]), a // 1, b // 1, a + 200, b + 200))))
            else:
                ops.append(("ctrl", i, cmd("CMD RXTUNE %d" % a)))
                ops.append(("ctrl", i, cmd("CMD TXTUNE %d" % b)))
        if rng.chance(1, 2):
            ops.append(("ctrl", i, cmd("CMD SETFORMAT %d" % rng.below(2))))
        if rng.chance(5, 6):
            ops.append(("ctrl", i, cmd("CMD POWERON")))
    return ops


def rand_burst(rng, n=148):
    k = rng.below(4)
    if k == 0:
        return [rng.below(2) for _ in range(n)]
    if k == 1:
        return [0] * n
    if k == 2:
        return [1] * n
    return [rng.below(2) for _ in range(n)]


def rand_session(rng, n_ops=60, malformed=0, traffic=3, cfgcmds=3):
    """-> (trx_defs, ops). malformed: weight of malformed control/data datagrams"""
    defs = rand_trx_defs(rng)
    n_trx = 2 + len(defs)
    ops = setup_ops(rng, n_trx)
    fn = rng.choice([0, 100, 2715640, 51 * 1000, rng.below(H)])
    ops.append(("draws", [rng.below(1 << 16) for _ in range(40)]))
    for _ in range(n_ops):
        w = rng.below(traffic + cfgcmds + malformed + 3)
        if w < traffic:
            i = rng.below(n_trx)
            ver = rng.below(2)
            f = (fn + rng.choice([0, 0, 1, 1, 2, 3, -1, 20])) % H
            bl = 148 if rng.chance(3, 4) else rng.choice([444, 444, 0, 5, 150, 300, 446, 500])
            ops.append(("data", i, tx_datagram(ver, f, rng.below(8), rng.choice([0, 0, 3, 10, 40, 80, 255]), rand_burst(rng, bl), pad=rng.choice([0, 0, 2]))))
        elif w < traffic + cfgcmds:
            ops.append(("ctrl", rng.below(n_trx), rand_cmd(rng, True)))
        elif w < traffic + cfgcmds + malformed:
            if rng.chance(1, 2):
                ops.append(("ctrl", rng.below(n_trx), rand_cmd(rng, False)))
            else:
                d = tx_datagram(rng.below(3), (fn + 1) % H, rng.below(8), 0, rand_burst(rng, 148))
                how = rng.below(4)
                if how == 0:
                    d = d[:rng.below(len(d))]
                elif how == 1:
                    d[0] = rng.below(256)
                elif how == 2:
                    d = [rng.below(256) for _ in range(rng.below(600))]
                else:
                    d = d + [rng.below(256) for _ in range(rng.below(500))]
                ops.append(("data", rng.below(n_trx), d))
        else:
            ops.append(("tick", fn))
            fn = (fn + (1 if rng.chance(7, 8) else rng.choice([2, 3, 10]))) % H
        if rng.chance(1, 25):
            ops.append(("state",))
    ops.append(("state",))
    return defs, ops


def rejected_cmd(rng):
    """a control command that must be refused (or ignored) WITHOUT any effect on the transceiver, with integer arguments only:
    every property's session generator sprinkles these in - whatever the property tracks must not move"""
    f = lambda: rng.choice(FREQS)
    return cmd(rng.choice([
        "CMD SETFH 64 0 %d %d" % (f(), f()), "CMD SETFH -1 1 %d %d" % (f(), f()), "CMD SETFH 100 0 %d %d %d %d" % (f(), f(), f(), f()),
        "CMD SETFORMAT 16", "CMD SETFORMAT -1", "CMD SETFORMAT 7", "CMD SETFORMAT 2", "CMD SETFORMAT 15",
        "CMD SETTA 64", "CMD SETTA -1", "CMD FAKE_DROP -1", "CMD FAKE_DROP 2 0", "CMD FAKE_DROP 3 -1", "CMD FAKE_DROP 0 0",
        "CMD FAKE_TOA 10 -5", "CMD FAKE_CI 10 -5", "CMD FOO 1 2", "CMD NOHANDOVER 1 2", "CMD SETTSC 7", "CMD SETRXGAIN 10",
        "CMD ECHO", "CMD RXTUNE", "CMD TXTUNE 1 2", "CMD SETFH 1"]))


import re as _re
_PLAIN_CMD = _re.compile(rb"^CMD ([A-Z_]+)((?: -?[0-9]{1,12})*)\x00$")
TRXC_ARITY = {"POWERON": {0}, "POWEROFF": {0}, "NOMTXPOWER": {0}, "RXTUNE": {1}, "TXTUNE": {1}, "MEASURE": {1}, "SETFORMAT": {1}, "SETPOWER": {1},
              "RFMUTE": {1}, "SETTA": {1}, "FAKE_TRXC_DELAY": {1}, "FAKE_TOA": {1, 2}, "FAKE_RSSI": {1, 2}, "FAKE_CI": {1, 2}, "FAKE_DROP": {1, 2}, "SETFH": None}


def refused_leaves_no_trace(ctx, script, real, keyp):
    """generic clause used by every session-based check: a control datagram that is refused (negative status), ignored
    (no reply) or that raises must leave the whole observable state of every transceiver exactly as it was"""
    from . import session_check as SC
    defs, ops = script
    cfg, obs, events = real
    n = 0
    for e in events:
        if e["op"][0] != "ctrl" or "pre" not in e:
            continue
        o = e["obs"]
        refused = False
        if o[1] == 1:
            try:
                rsp = bytes(o[3:]).decode("ascii").strip("\0").split(" ")
                refused = len(rsp) >= 3 and rsp[2].lstrip("-").isdigit() and int(rsp[2]) < 0
                # SETFORMAT answered with ANOTHER version than the one asked for is a refusal as well (the peer is expected to
                # ask again with the suggested version): nothing may have been switched
                if not refused and len(rsp) == 4 and rsp[1] == "SETFORMAT" and rsp[2].isdigit():
                    try:
                        refused = int(rsp[2]) != int(rsp[3])
                    except ValueError:
                        refused = False      # a non-numeric argument is answered -1 (handled above)
            except UnicodeDecodeError:
                refused = False
        elif o[1] in (0, 2):
            refused = True           # ignored (no reply) or an exception escaped
        if not refused and o[1] == 1:
            # a known verb with a number of arguments the command table does not define (TRXC: POWERON / POWEROFF / NOMTXPOWER none;
            # RXTUNE TXTUNE MEASURE SETFORMAT SETPOWER RFMUTE SETTA FAKE_TRXC_DELAY one; FAKE_TOA / _RSSI / _CI / _DROP one or two;
            # SETFH at least four) is not that command: it is answered like an unknown verb and has no effect.  Only datagrams of
            # the plain shape 'CMD VERB( int)*NUL' are judged here, so the argument count is beyond dispute
            m = _PLAIN_CMD.match(bytes(e["op"][2]))
            if m:
                verb, argc = m.group(1).decode(), len(m.group(2).split())
                if verb in TRXC_ARITY and not (argc >= 4 if verb == "SETFH" else argc in TRXC_ARITY[verb]):
                    refused = True
        if not refused:
            continue
        n += 1
        if e["pre"] != e["post"]:
            pos = next((i for i, (a, b) in enumerate(zip(e["pre"], e["post"])) if a != b), min(len(e["pre"]), len(e["post"])))
            ctx.oracle_fail("a refused / ignored control command changed the state of a transceiver",
                            dict(command=SC.describe(e["op"]), trx_defs=defs, first_difference_at_int=pos, before=e["pre"][max(0, pos - 4):pos + 6],
                                 after=e["post"][max(0, pos - 4):pos + 6], ops=[SC.describe(x) for x in ops][:120]), key=keyp + "-refused-changes-state")
    ctx.count("refused_commands_checked", n)
