"""shared by C02 C03 C05 C10 C12 C14 C18: Gen regeneration for the session model, running scripts on the real Application and on the
extracted model, localising a disagreement to the operation where it starts"""
from . import common, session_wire as W
from .gen.trxd import gen_trxd
from .gen.faketrx import gen_faketrx


def gen_all(ctx):
    gen_trxd(ctx)
    gen_faketrx(ctx)
    # Hopping tables are needed by Model/Trx.v (fh_resolve)
    from .props import C07
    C07.gen(ctx)
    from .props import C19
    C19.gen(ctx)


def describe(op):
    k = op[0]
    if k == "ctrl":
        return dict(op="ctrl", trx=op[1], text=bytes(op[2]).decode("latin-1"))
    if k == "data":
        return dict(op="data", trx=op[1], octets=list(op[2][:8]), length=len(op[2]))
    if k == "tick":
        return dict(op="tick", fn=op[1])
    if k == "draws":
        return dict(op="draws", n=len(op[1]))
    return dict(op=k)


def run_scripts(ctx, name, scripts):
    """scripts: list of (trx_defs, ops). Returns list of (cfg, obs, events) from the real run; records correspondence mismatches."""
    reals = []
    lines = []
    for defs, ops in scripts:
        try:
            cfg, obs, ev = W.run_real(defs, ops)
        except Exception as e:  # noqa - the application could not even be constructed / driven for a valid configuration
            import traceback
            ctx.oracle_fail("the application raised %s while being constructed or driven for a valid --trx configuration (sessions run one after the other in one process: "
                            "state that survives an Application object is visible here)" % type(e).__name__,
                            dict(trx_defs=defs, ops=[describe(o) for o in ops][:40], traceback=traceback.format_exc()[-1500:]), key=ctx.pid.lower() + "-application-raises:" + type(e).__name__)
            cfg, obs, ev = [], [], []
        reals.append((cfg, obs, ev))
        # the model runs the same prefix of operations the implementation executed (it stops at a crashed tick)
        lines.append(W.model_line(cfg, ops) if cfg else None)
    live = [k for k, l in enumerate(lines) if l is not None]
    try:
        ms_live = ctx.model("Trx", [lines[k] for k in live])
    except common.ModelUnavailable:
        return reals
    ms = [None] * len(lines)
    for k, m in zip(live, ms_live):
        ms[k] = m
    bad = 0
    for k, ((defs, ops), (cfg, obs, ev), m) in enumerate(zip(scripts, reals, ms)):
        if m is None:
            continue
        ctx.evaluations += 1
        ctx.traces += 1
        if m != obs:
            bad += 1
            if len(ctx.corr_failures) < 12:
                pos = next((i for i, (a, b) in enumerate(zip(m, obs)) if a != b), min(len(m), len(obs)))
                at, acc = None, 0
                for e in ev:
                    o = e.get("obs")
                    if o is None and "state" in e:
                        o = W.enc_state(*e["state"])
                    o = o or []
                    if acc + len(o) > pos:
                        at = describe(e["op"])
                        break
                    acc += len(o)
                ctx.corr_failures.append(dict(name=name, trx_defs=defs, first_difference_at_int=pos, operation=at,
                                              model=m[max(0, pos - 6):pos + 10], impl=obs[max(0, pos - 6):pos + 10],
                                              ops=[describe(o) for o in ops][:200]))
    ctx.count("corr:" + name, len(scripts))
    if bad:
        ctx.count("corr_mismatch:" + name, bad)
    return reals
